package c03

import (
	"fmt"
	"strings"

	"verif/mc/engine"
	"verif/mc/ref/syntax"
)

func ex(e *N) *N      { return n("Expr", "", e) }
func num(s string) *N { return syntax.NumLit(s, map[string]float64{"0": 0, "1": 1, "2": 2}[s]) }
func blk(s ...*N) *N  { return &N{Kind: "Block", Kids: s} }
func call(f string, args ...*N) *N {
	c := n("Call", "", id(f))
	c.Kids = append(c.Kids, args...)
	return c
}

type stmtForm struct {
	name string
	mk   func() *N
}

// leafStatements: every statement kind of ES5 clause 12 with simple operands.
func leafStatements() []stmtForm {
	return []stmtForm{
		{"block0", func() *N { return blk() }},
		{"block1", func() *N { return blk(ex(id("x"))) }},
		{"var", func() *N { return n("Var", "", decl("v", nil)) }},
		{"var2", func() *N { return n("Var", "", decl("v", num("1")), decl("w", nil)) }},
		{"empty", func() *N { return n("Empty", "") }},
		{"expr", func() *N { return ex(id("x")) }},
		{"call", func() *N { return ex(call("f", id("x"))) }},
		{"if", func() *N { return n("If", "", id("t"), ex(id("y")), nil) }},
		{"ifelse", func() *N { return n("If", "", id("t"), ex(id("y")), ex(id("z"))) }},
		{"do", func() *N { return n("Do", "", ex(id("y")), id("t")) }},
		{"while", func() *N { return n("While", "", id("t"), ex(id("y"))) }},
		{"for", func() *N { return n("For", "", nil, nil, nil, ex(id("y"))) }},
		{"for3", func() *N {
			return n("For", "", n("Var", "", decl("i", num("0"))), n("Binary", "<", id("i"), id("n")), n("Postfix", "++", id("i")), ex(id("y")))
		}},
		{"forin", func() *N { return n("ForIn", "", id("k"), id("o"), ex(id("y"))) }},
		{"forinvar", func() *N { return n("ForIn", "", n("Var", "", decl("k", nil)), id("o"), ex(id("y"))) }},
		{"continue", func() *N { return n("Continue", "") }},
		{"continueL", func() *N { return n("Continue", "L") }},
		{"break", func() *N { return n("Break", "") }},
		{"breakL", func() *N { return n("Break", "L") }},
		{"return", func() *N { return n("Return", "", nil) }},
		{"returnx", func() *N { return n("Return", "", id("x")) }},
		{"with", func() *N { return n("With", "", id("o"), ex(id("y"))) }},
		{"switch0", func() *N { return n("Switch", "", id("x")) }},
		{"switch", func() *N {
			return n("Switch", "", id("x"), n("Case", "", num("1"), ex(id("y"))), n("Case", "", nil, ex(id("z"))), n("Case", "", num("2")))
		}},
		{"label", func() *N { return n("Label", "M", ex(id("y"))) }},
		{"throw", func() *N { return n("Throw", "", id("x")) }},
		{"trycatch", func() *N { return n("Try", "", blk(), n("Catch", "e", blk()), nil) }},
		{"tryfinally", func() *N { return n("Try", "", blk(ex(id("x"))), nil, blk()) }},
		{"tryboth", func() *N { return n("Try", "", blk(), n("Catch", "e", blk(ex(id("y")))), blk()) }},
		{"debugger", func() *N { return n("Debugger", "") }},
	}
}

type container struct {
	name string
	wrap func(s *N) *N
}

func containers() []container {
	return []container{
		{"block", func(s *N) *N { return blk(s) }},
		{"block2", func(s *N) *N { return blk(ex(id("p")), s, ex(id("q"))) }},
		{"if", func(s *N) *N { return n("If", "", id("c"), s, nil) }},
		{"ifcons", func(s *N) *N { return n("If", "", id("c"), s, ex(id("q"))) }},
		{"ifalt", func(s *N) *N { return n("If", "", id("c"), ex(id("p")), s) }},
		{"do", func(s *N) *N { return n("Do", "", s, id("c")) }},
		{"while", func(s *N) *N { return n("While", "", id("c"), s) }},
		{"for", func(s *N) *N { return n("For", "", nil, id("c"), nil, s) }},
		{"forin", func(s *N) *N { return n("ForIn", "", id("j"), id("c"), s) }},
		{"with", func(s *N) *N { return n("With", "", id("c"), s) }},
		{"label", func(s *N) *N {
			if hasLabel(s, "N") {
				return n("Label", "N2", s)
			}
			return n("Label", "N", s)
		}},
		{"case", func(s *N) *N { return n("Switch", "", id("c"), n("Case", "", num("1"), s)) }},
		{"default", func(s *N) *N {
			return n("Switch", "", id("c"), n("Case", "", num("1")), n("Case", "", nil, s, ex(id("q"))))
		}},
		{"try", func(s *N) *N { return n("Try", "", blk(s), n("Catch", "e", blk()), nil) }},
		{"catch", func(s *N) *N { return n("Try", "", blk(), n("Catch", "e", blk(s)), nil) }},
		{"finally", func(s *N) *N { return n("Try", "", blk(), nil, blk(s)) }},
		{"funcdecl", func(s *N) *N { return n("FuncDecl", "", nfn("g", jumpEnv(s))) }},
		{"funcexpr", func(s *N) *N { return ex(n("Assign", "=", id("h"), fn([]string{"p", "q"}, jumpEnv(s)))) }},
	}
}

func hasLabel(t *N, name string) bool {
	if t == nil {
		return false
	}
	if t.Kind == "Label" && t.Op == name {
		return true
	}
	for _, c := range t.Kids {
		if hasLabel(c, name) {
			return true
		}
	}
	return false
}

func contains(t *N, kinds ...string) bool {
	if t == nil {
		return false
	}
	for _, k := range kinds {
		if t.Kind == k {
			return true
		}
	}
	for _, c := range t.Kids {
		if contains(c, kinds...) {
			return true
		}
	}
	return false
}

// inEnv places statements in an environment where break/continue/return and
// the label L are legal: function f(){ L: for(;;){ ... } }.
func inEnv(s ...*N) *N {
	return program(n("FuncDecl", "", nfn("f", n("Label", "L", n("For", "", nil, nil, nil, blk(s...))))))
}

// freeJumps: the tree contains a break/continue/return that is not inside a nested function.
func freeJumps(t *N) bool {
	if t == nil || t.Kind == "Function" {
		return false
	}
	if t.Kind == "Break" || t.Kind == "Continue" || t.Kind == "Return" {
		return true
	}
	for _, c := range t.Kids {
		if freeJumps(c) {
			return true
		}
	}
	return false
}

func envFor(s *N) *N {
	if freeJumps(s) {
		return inEnv(s)
	}
	return program(s)
}

// jumpEnv gives a function body the loop and label its statement needs.
func jumpEnv(s *N) *N {
	if freeJumps(s) {
		return n("Label", "L", n("For", "", nil, nil, nil, blk(s)))
	}
	return s
}

// validPlacement: function declarations occur only as source elements
// (Program / function body level), as the ES5 grammar requires.
func validPlacement(t *N, parent string) bool {
	if t == nil {
		return true
	}
	if t.Kind == "FuncDecl" && parent != "Program" && parent != "Body" {
		return false
	}
	for _, c := range t.Kids {
		if !validPlacement(c, t.Kind) {
			return false
		}
	}
	return true
}

// runStatements: all statement kinds nested to depth 2 (thorough: depth 3).
func runStatements(r *engine.Run) {
	h := &harness{r: r}
	leaves := leafStatements()
	cs := containers()
	for _, l := range leaves {
		h.renderings("leaf/"+l.name, envFor(l.mk()))
	}
	for _, c := range cs {
		for _, l := range leaves {
			if t := envFor(c.wrap(l.mk())); validPlacement(t, "") {
				h.renderings(c.name+"/"+l.name, t)
			} else {
				r.Skip()
			}
		}
	}
	// function declarations are source elements: program level and function body level only
	h.renderings("funcdecl/top", program(n("FuncDecl", "", nfn("g", ex(id("x")))), ex(call("g"))))
	h.renderings("funcdecl/nested", program(n("FuncDecl", "", nfn("g", n("FuncDecl", "", nfn("k")), n("Return", "", call("k"))))))
	if r.Thorough() {
		for _, c1 := range cs {
			for _, c2 := range cs {
				for _, l := range leaves {
					if r.Expired() {
						r.Cap("time budget reached at depth 3")
						return
					}
					if t := envFor(c1.wrap(c2.wrap(l.mk()))); validPlacement(t, "") {
						h.renderings(c1.name+"/"+c2.name+"/"+l.name, t)
					} else {
						r.Skip()
					}
				}
			}
		}
		r.Bound("depth", "3")
	} else {
		r.Bound("depth", "2")
	}
}

// asiForms: statements used on both sides of the ASI matrix. They cover every
// class of last token (identifier, literal, `)`, `]`, `}`, `++`, keyword) and
// of first token (keyword, identifier, literal, `{`, `(`, `[`, `+`, `-`, `++`, `/`, `;`).
func asiForms() []stmtForm {
	l := []stmtForm{
		{"assign", func() *N { return ex(n("Assign", "=", id("a"), id("b"))) }},
		{"post", func() *N { return ex(n("Postfix", "++", id("a"))) }},
		{"pre", func() *N { return ex(n("Unary", "++", id("a"))) }},
		{"predec", func() *N { return ex(n("Unary", "--", id("a"))) }},
		{"neg", func() *N { return ex(n("Unary", "-", id("a"))) }},
		{"plus", func() *N { return ex(n("Unary", "+", id("a"))) }},
		{"parenfn", func() *N { return ex(n("Call", "", fn(nil))) }},
		{"arrayidx", func() *N { return ex(n("Dot", "p", n("Array", "", id("a")))) }},
		{"index", func() *N { return ex(n("Index", "", id("a"), num("0"))) }},
		{"regex", func() *N { return ex(n("Dot", "p", syntax.RegexLit("r", "g"))) }},
		{"regexend", func() *N { return ex(n("Assign", "=", id("a"), syntax.RegexLit("r", ""))) }},
		// every kind of statement-ending token in its odd spellings
		{"regexeq", func() *N { return ex(n("Assign", "=", id("a"), syntax.RegexLit("=r", ""))) }},
		{"regexeqstart", func() *N { return ex(syntax.RegexLit("=r", "")) }},
		{"regexflags", func() *N { return ex(n("Assign", "=", id("a"), syntax.RegexLit("=r", "gi"))) }},
		{"regexclass", func() *N { return ex(n("Assign", "=", id("a"), syntax.RegexLit("[/]", ""))) }},
		{"numdot", func() *N { return ex(n("Assign", "=", id("a"), syntax.NumLit("1.", 1))) }},
		{"dotnum", func() *N { return ex(n("Assign", "=", id("a"), syntax.NumLit(".5", 0.5))) }},
		{"hexnum", func() *N { return ex(n("Assign", "=", id("a"), syntax.NumLit("0x1f", 31))) }},
		{"expnum", func() *N { return ex(n("Assign", "=", id("a"), syntax.NumLit("1e3", 1000))) }},
		{"octnum", func() *N { return ex(n("Assign", "=", id("a"), syntax.NumLit("017", 15))) }},
		{"strcont", func() *N { return ex(n("Assign", "=", id("a"), syntax.StrLit("\"s\\\nt\"", GoUnits("st")))) }},
		{"strsq", func() *N { return ex(n("Assign", "=", id("a"), syntax.StrLit("'q'", GoUnits("q")))) }},
		{"true", func() *N { return ex(n("Assign", "=", id("a"), n("True", ""))) }},
		{"paren", func() *N {
			return ex(n("Assign", "=", id("a"), n("Binary", "*", n("Binary", "+", id("b"), id("c")), id("d"))))
		}},
		{"parenend", func() *N { return ex(n("Binary", "*", id("d"), n("Binary", "+", id("b"), id("c")))) }},
		{"arrayend", func() *N { return ex(n("Assign", "=", id("a"), n("Array", ""))) }},
		{"kwname", func() *N { return ex(n("Assign", "=", id("a"), n("Dot", "in", id("b")))) }},
		{"newnoargs", func() *N { return ex(n("Assign", "=", id("a"), newNoArgs(id("B")))) }},
		{"string", func() *N { return ex(syntax.StrLit(`"s"`, GoUnits("s"))) }},
		{"number", func() *N { return ex(num("1")) }},
		{"this", func() *N { return ex(n("This", "")) }},
		{"null", func() *N { return ex(n("Null", "")) }},
		{"typeof", func() *N { return ex(n("Unary", "typeof", id("a"))) }},
		{"object", func() *N { return ex(n("Assign", "=", id("a"), n("Object", ""))) }},
		{"funcexpr", func() *N { return ex(n("Assign", "=", id("a"), fn(nil))) }},
		{"funcdecl", func() *N { return n("FuncDecl", "", nfn("g")) }},
		{"identL", func() *N { return ex(id("L")) }},
	}
	skip := map[string]bool{"block1": true, "var2": true, "call": false, "for3": true, "forinvar": true, "switch0": true, "tryboth": true}
	for _, f := range leafStatements() {
		if !skip[f.name] {
			l = append(l, f)
		}
	}
	return l
}

var asiSeps = []struct{ name, text string }{
	{"semi", ";"}, {"nl", "\n"}, {"seminl", ";\n"}, {"space", " "}, {"blocknl", "/*\n*/"}, {"line", "//c\n"}, {"cr", "\r"}, {"ls", "\u2028"},
}

func stmtText(s *N) ([]syntax.Token, bool) {
	toks, err := syntax.Tokens(s, syntax.RenderOpts{})
	if err != nil {
		return nil, false
	}
	open := syntax.OpenEnded(s)
	if open && toks[len(toks)-1].Text == ";" {
		toks = toks[:len(toks)-1]
	}
	return toks, open
}

// cannotContinue: S2's first token is an offending token after any complete
// open-ended statement (it neither continues an expression nor is `;`).
func cannotContinue(first string) bool {
	switch first {
	case "(", "[", "+", "-", "++", "--", "/", ";", "/=", ".", ",":
		return false
	}
	if strings.HasPrefix(first, "/") {
		return false
	}
	return true
}

// runASI: all ordered pairs of statements x separators, at program level, in a
// function body, and in a loop body (where `}` follows the second statement).
func runASI(r *engine.Run) {
	h := &harness{r: r}
	forms := asiForms()
	type env struct {
		name, pre, post string
		wrap            func(s ...*N) *N
	}
	envs := []env{
		{"top", "", "", func(s ...*N) *N { return program(s...) }},
		{"func", "function f ( ) { ", " }", func(s ...*N) *N { return program(n("FuncDecl", "", nfn("f", s...))) }},
		{"loop", "function f ( ) { L : for ( ; ; ) { ", " } }", func(s ...*N) *N { return inEnv(s...) }},
	}
	predicted, refOnly, invalid := 0, 0, 0
	for _, f1 := range forms {
		for _, f2 := range forms {
			s1, s2 := f1.mk(), f2.mk()
			t1, open1 := stmtText(s1)
			t2, _ := stmtText(s2)
			for _, sep := range asiSeps {
				for _, e := range envs {
					if !r.Thorough() {
						// quick: the environment the pair needs
						need := "top"
						if contains(s1, "Break", "Continue") || contains(s2, "Break", "Continue") {
							need = "loop"
						} else if contains(s1, "Return") || contains(s2, "Return") {
							need = "func"
						}
						if e.name != need {
							continue
						}
					}
					key := f1.name + "/" + sep.name + "/" + f2.name + "/" + e.name
					if !r.MineKey(key) {
						continue
					}
					src := e.pre + syntax.Join(t1, false) + sep.text + syntax.Join(t2, false) + e.post
					ref := syntax.Parse(src, syntax.Options{})
					// generator-side prediction where 7.9.1 leaves no doubt
					var pred *N
					hasSemi := strings.Contains(sep.text, ";")
					hasLT := syntax.HasLT(sep.text)
					switch {
					case hasSemi && open1:
						pred = e.wrap(s1, s2)
					case hasSemi:
						pred = e.wrap(s1, n("Empty", ""), s2)
					case !open1:
						pred = e.wrap(s1, s2)
					case hasLT && cannotContinue(t2[0].Text):
						pred = e.wrap(s1, s2)
					}
					if pred != nil && validIn(e.name, s1, s2) {
						predicted++
						if ref.Outcome() != pred.Dump() {
							h.selfFail++
							if h.selfFail <= 5 {
								r.HarnessError(fmt.Sprintf("asi self-check %s: text %q predicted %s reference %s", key, src, pred.Dump(), ref.Outcome()))
							}
							r.Skip()
							continue
						}
					} else if ref.Accepted() {
						refOnly++
					}
					if !ref.Accepted() {
						invalid++
						r.Skip() // not a valid program: C04's business
						continue
					}
					if callTarget(ref.Tree) {
						// `++a\n(f)()`: the operand of ++/--/= is a call. ES5 clause 16 lets an
						// implementation report that early (otto does) or at run time: not decided here.
						r.Skip()
						continue
					}
					h.compare(key, src, ref.Tree.Dump())
				}
			}
		}
	}
	r.Bound("forms", fmt.Sprint(len(forms)))
	r.Bound("separators", fmt.Sprint(len(asiSeps)))
	r.Note(fmt.Sprintf("shard %d: %d predicted by the generator, %d decided by the reference alone, %d invalid texts skipped", r.Shard, predicted, refOnly, invalid))
}

// callTarget: some assignment / increment / for-in target is a call expression.
func callTarget(t *N) bool {
	if t == nil {
		return false
	}
	switch t.Kind {
	case "Assign", "Postfix", "ForIn":
		if t.Kids[0] != nil && t.Kids[0].Kind == "Call" {
			return true
		}
	case "Unary":
		if (t.Op == "++" || t.Op == "--") && t.Kids[0].Kind == "Call" {
			return true
		}
	}
	for _, c := range t.Kids {
		if callTarget(c) {
			return true
		}
	}
	return false
}

// validIn: the pair is a valid program in the environment (so a prediction exists).
func validIn(env string, s ...*N) bool {
	for _, x := range s {
		if contains(x, "Break", "Continue") && env != "loop" {
			return false
		}
		if contains(x, "Return") && env == "top" {
			return false
		}
		if x.Kind == "FuncDecl" && env == "loop" {
			return false
		}
	}
	return true
}

// runRestricted: the restricted productions of 7.9.1 with every kind of line terminator.
func runRestricted(r *engine.Run) {
	h := &harness{r: r}
	lts := []struct{ name, text string }{
		{"lf", "\n"}, {"cr", "\r"}, {"crlf", "\r\n"}, {"ls", "\u2028"}, {"ps", "\u2029"},
		{"blocklf", "/*\n*/"}, {"blockls", "/*\u2028*/"}, {"line", "//c\n"}, {"linecr", "// c\r"}, {"spacelf", " \n "},
	}
	a, b := id("a"), id("b")
	cases := []struct {
		name   string
		text   string // %s = line terminator
		expect *N
	}{
		{"return-e", "function f ( ) { return%sa ; }", program(n("FuncDecl", "", nfn("f", n("Return", "", nil), ex(a))))},
		{"return-cont", "function f ( ) { return a%s+ b ; }", program(n("FuncDecl", "", nfn("f", n("Return", "", n("Binary", "+", a, b)))))},
		{"return-semi", "function f ( ) { return%s; }", program(n("FuncDecl", "", nfn("f", n("Return", "", nil))))},
		{"return-e-semi", "function f ( ) { return a%s; }", program(n("FuncDecl", "", nfn("f", n("Return", "", a))))},
		{"break-L", "L : for ( ; ; ) { break%sL ; }", program(n("Label", "L", n("For", "", nil, nil, nil, blk(n("Break", ""), ex(id("L"))))))},
		{"continue-L", "L : for ( ; ; ) { continue%sL ; }", program(n("Label", "L", n("For", "", nil, nil, nil, blk(n("Continue", ""), ex(id("L"))))))},
		{"break-L-semi", "L : for ( ; ; ) { break L%s; }", program(n("Label", "L", n("For", "", nil, nil, nil, blk(n("Break", "L")))))},
		{"a-inc-b", "a%s++ b", program(a, n("Unary", "++", b))},
		{"a-dec-b", "a%s-- b", program(a, n("Unary", "--", b))},
		{"a-inc-lt-b", "a%s++%sb", program(a, n("Unary", "++", b))},
		{"ainc-b", "a ++%sb", program(n("Postfix", "++", a), b)},
		{"throw-cont", "throw a%s+ b", program(n("Throw", "", n("Binary", "+", a, b)))},
		{"var-cont", "var v = 1%s+ 2", program(n("Var", "", decl("v", n("Binary", "+", num("1"), num("2")))))},
		{"var-semi", "var v%s;", program(n("Var", "", decl("v", nil)))},
		{"var-next", "var v%sw", program(n("Var", "", decl("v", nil)), id("w"))},
		{"debugger-semi", "debugger%s;", program(n("Debugger", ""))},
		{"call-cont", "a = b%s( c )", program(n("Assign", "=", a, call("b", id("c"))))},
		{"index-cont", "a = b%s[ 0 ]", program(n("Assign", "=", a, n("Index", "", b, num("0"))))},
		{"div-cont", "a = b%s/ c / g", program(n("Assign", "=", a, n("Binary", "/", n("Binary", "/", b, id("c")), id("g"))))},
		{"expr-semi", "a%s;", program(a)},
		{"do-while", "do a ; while ( b )%sc", program(n("Do", "", ex(a), b), id("c"))},
		{"if-else", "if ( a ) b%selse c", program(n("If", "", a, ex(b), ex(id("c"))))},
		{"regex-next", "a = /r/%sg", program(n("Assign", "=", a, syntax.RegexLit("r", "")), id("g"))},
		{"regexeq-next", "a = /=r/%sg", program(n("Assign", "=", a, syntax.RegexLit("=r", "")), id("g"))},
		{"regexeq-next2", "/=r/%sg = 1", program(syntax.RegexLit("=r", ""), n("Assign", "=", id("g"), num("1")))},
		{"regexeq-inc", "a = /=r/%s++ b", program(n("Assign", "=", a, syntax.RegexLit("=r", "")), n("Unary", "++", b))},
		{"numdot-next", "a = 1.%sb", program(n("Assign", "=", a, syntax.NumLit("1.", 1)), b)},
		{"block-next", "{ a%s}%sb", program(blk(ex(a)), b)},
		{"in-next", "a%sin b", program(n("Binary", "in", a, b))},
		{"typeof-next", "typeof%sa", program(n("Unary", "typeof", a))},
		{"dot-next", "a%s. b", program(n("Dot", "b", a))},
		{"comma-next", "a ,%sb", program(n("Comma", "", a, b))},
		{"else-next", "if ( a ) ; else%sb", program(n("If", "", a, n("Empty", ""), ex(b)))},
		{"kwname-next", "a . new%sb", program(n("Dot", "new", a), b)},
		{"kwname-inc", "a . typeof%s++ b", program(n("Dot", "typeof", a), n("Unary", "++", b))},
		{"kwname-class", "a . class%sb", program(n("Dot", "class", a), b)},
		{"kwname-return", "a . return%sb", program(n("Dot", "return", a), b)},
		{"kwname-null", "a . null%s++ b", program(n("Dot", "null", a), n("Unary", "++", b))},
		{"kwname-assign", "x = a . in%sy = 1", program(n("Assign", "=", id("x"), n("Dot", "in", a)), n("Assign", "=", id("y"), num("1")))},
	}
	for _, c := range cases {
		for _, lt := range lts {
			key := c.name + "/" + lt.name
			if !r.MineKey(key) {
				continue
			}
			src := strings.ReplaceAll(c.text, "%s", lt.text)
			h.check(key, c.expect, src)
		}
	}
	r.Bound("line terminators", fmt.Sprint(len(lts)))
}

// nestConstruct wraps a statement list in a construct that carries parser
// scope state (inSwitch, inIteration, inFunction, labels, allowIn).
type nestConstruct struct {
	name string
	wrap func(depth int, body []*N) *N
}

func nestConstructs() []nestConstruct {
	lab := func(d int) string { return fmt.Sprintf("L%d", d) }
	b := func(body []*N) *N { return blk(body...) }
	return []nestConstruct{
		{"switch", func(d int, body []*N) *N {
			c := n("Case", "", num("1"))
			c.Kids = append(c.Kids, body...)
			return n("Switch", "", id("s"), c, n("Case", "", num("2"), ex(id("z"))))
		}},
		{"switchdefault", func(d int, body []*N) *N {
			c := n("Case", "", nil)
			c.Kids = append(c.Kids, body...)
			return n("Switch", "", id("s"), n("Case", "", num("1")), c)
		}},
		{"while", func(d int, body []*N) *N { return n("While", "", id("c"), b(body)) }},
		{"do", func(d int, body []*N) *N { return n("Do", "", b(body), id("c")) }},
		{"for", func(d int, body []*N) *N {
			return n("For", "", n("Var", "", decl("i", n("Index", "", id("o"), inExpr()))), nil, nil, b(body))
		}},
		{"forin", func(d int, body []*N) *N { return n("ForIn", "", id("k"), id("o"), b(body)) }},
		{"labelloop", func(d int, body []*N) *N { return n("Label", lab(d), n("For", "", nil, nil, nil, b(body))) }},
		{"labelwhile1", func(d int, body []*N) *N {
			if len(body) == 1 {
				return n("Label", lab(d), n("While", "", id("c"), body[0]))
			}
			return n("Label", lab(d), n("While", "", id("c"), b(body)))
		}},
		{"labelblock", func(d int, body []*N) *N { return n("Label", lab(d), b(body)) }},
		{"labelswitch", func(d int, body []*N) *N {
			c := n("Case", "", num("1"))
			c.Kids = append(c.Kids, body...)
			return n("Label", lab(d), n("Switch", "", id("s"), c))
		}},
		{"funcexpr", func(d int, body []*N) *N { return ex(n("Assign", "=", id("h"), fn(nil, body...))) }},
		{"funccall", func(d int, body []*N) *N { return ex(n("Call", "", fn([]string{"p"}, body...), id("q"))) }},
		{"getter", func(d int, body []*N) *N {
			return ex(n("Assign", "=", id("h"), n("Object", "", prop("get", "g", GoUnits("g"), fn(nil, body...)))))
		}},
		{"try", func(d int, body []*N) *N { return n("Try", "", b(body), n("Catch", "e", blk()), nil) }},
		{"catch", func(d int, body []*N) *N { return n("Try", "", blk(), n("Catch", "e", b(body)), nil) }},
		{"finally", func(d int, body []*N) *N { return n("Try", "", blk(), nil, b(body)) }},
		{"if", func(d int, body []*N) *N { return n("If", "", id("c"), b(body), nil) }},
		{"else", func(d int, body []*N) *N { return n("If", "", id("c"), n("Empty", ""), b(body)) }},
		{"block", func(d int, body []*N) *N { return b(body) }},
		{"with", func(d int, body []*N) *N { return n("With", "", id("w"), b(body)) }},
	}
}

// nestJumps: statements whose legality or shape depends on the state of the
// enclosing constructs (nil = none).
func nestJumps() []func() *N {
	return []func() *N{
		nil,
		func() *N { return n("Break", "") },
		func() *N { return n("Continue", "") },
		func() *N { return n("Return", "", nil) },
		func() *N { return n("Return", "", inExpr()) },
		func() *N { return n("Break", "L0") },
		func() *N { return n("Continue", "L0") },
		func() *N { return n("Break", "L1") },
		func() *N { return n("Continue", "L1") },
		func() *N { return ex(inExpr()) },
		func() *N { return n("For", "", n("Cond", "", id("a"), inExpr(), id("d")), nil, nil, n("Break", "")) },
	}
}

// runNesting: parser scope state must be restored, not reset, when a nested
// construct ends. O{ M{ I{ j1 } j2 } j3 }: every outer x middle x inner
// construct, with a jump statement (or an `in` expression) after the inner and
// after the middle construct; the reference keeps the valid programs.
func runNesting(r *engine.Run) {
	h := &harness{r: r}
	cs := nestConstructs()
	js := nestJumps()
	inner := append([]nestConstruct{{"none", nil}}, cs...)
	j1s := []func() *N{nil, func() *N { return n("Break", "") }}
	if !r.Thorough() {
		// quick: a representative inner set and no jump inside the innermost body
		keep := map[string]bool{"none": true, "switch": true, "while": true, "labelloop": true, "labelblock": true, "funcexpr": true, "for": true}
		var in2 []nestConstruct
		for _, c := range inner {
			if keep[c.name] {
				in2 = append(in2, c)
			}
		}
		inner = in2
		j1s = j1s[:1]
	}
	valid, invalid := 0, 0
	for _, o := range cs {
		for _, m := range cs {
			for _, i := range inner {
				for j1i, j1 := range j1s {
					for j2i, j2 := range js {
						for j3i, j3 := range js {
							if j2 == nil && j3 == nil && j1 == nil {
								continue
							}
							key := fmt.Sprintf("%s/%s/%s/%d.%d.%d", o.name, m.name, i.name, j1i, j2i, j3i)
							if !r.MineKey(key) {
								continue
							}
							ib := []*N{ex(id("x"))}
							if j1 != nil {
								ib = append(ib, j1())
							}
							var mb []*N
							if i.wrap != nil {
								mb = append(mb, i.wrap(2, ib))
							} else {
								mb = append(mb, ib...)
							}
							if j2 != nil {
								mb = append(mb, j2())
							}
							ob := []*N{m.wrap(1, mb)}
							if j3 != nil {
								ob = append(ob, j3())
							}
							ob = append(ob, ex(id("y")))
							T := program(o.wrap(0, ob))
							toks, err := syntax.Tokens(T, syntax.RenderOpts{})
							if err != nil {
								r.Skip()
								continue
							}
							src := syntax.Join(toks, false)
							if !syntax.Parse(src, syntax.Options{}).Accepted() {
								invalid++
								r.Skip() // the jump is not legal there: C04's business
								continue
							}
							valid++
							h.check(key, T, src)
							if r.Thorough() {
								h.check(key+"/compact", T, syntax.Join(toks, true))
							}
						}
					}
				}
			}
		}
		if r.Expired() {
			r.Cap("time budget reached in nesting")
			return
		}
	}
	r.Bound("constructs", fmt.Sprint(len(cs)))
	r.Bound("inner", fmt.Sprint(len(inner)))
	r.Note(fmt.Sprintf("shard %d: %d valid nestings compared, %d invalid skipped", r.Shard, valid, invalid))
}

// runFlatRepetition: parser state that must return to its initial value after
// every statement (nesting counters, scope flags, label sets) is exercised by
// repeating one statement N times as siblings - at program level, in a function
// body and in a loop block - followed by a deeply nested probe statement. N is
// beyond the parser's nesting bound (20000), so a leak of one level per
// construct in any bounded counter rejects a flat, valid program.
func runFlatRepetition(r *engine.Run) {
	h := &harness{r: r}
	n1 := 20001
	var forms []stmtForm
	forms = append(forms, leafStatements()...)
	for _, f := range asiForms()[:20] {
		forms = append(forms, stmtForm{"asi-" + f.name, f.mk})
	}
	for _, c := range ctors() {
		c := c
		forms = append(forms, stmtForm{"expr-" + c.name, func() *N { return ex((&leafGen{}).fill(c)) }})
	}
	probe := func() *N {
		var e *N = n("Unary", "-", id("b"))
		for i := 0; i < 40; i++ {
			switch i % 4 {
			case 0:
				e = n("Array", "", e)
			case 1:
				e = n("Unary", "!", e)
			case 2:
				e = n("Call", "", id("f"), e)
			default:
				e = n("Cond", "", id("c"), e, id("d"))
			}
		}
		return ex(n("Assign", "=", id("y"), e))
	}
	envs := []struct {
		name string
		ok   func(s *N) bool
		wrap func(s []*N) *N
	}{
		{"top", func(s *N) bool { return !freeJumps(s) }, func(s []*N) *N { return program(s...) }},
		{"func", func(s *N) bool { return !contains(s, "Break", "Continue") || !freeJumps(s) }, func(s []*N) *N { return program(n("FuncDecl", "", nfn("f", s...))) }},
		{"loop", func(s *N) bool { return s.Kind != "FuncDecl" }, func(s []*N) *N { return inEnv(s...) }},
	}
	for _, f := range forms {
		for _, e := range envs {
			key := f.name + "/" + e.name
			s := f.mk()
			if !e.ok(s) || !validPlacement(e.wrap([]*N{s}), "") {
				continue
			}
			if !r.MineKey(key) {
				continue
			}
			if r.Expired() {
				r.Cap("time budget reached")
				return
			}
			list := make([]*N, 0, n1+1)
			for i := 0; i < n1; i++ {
				list = append(list, s) // the same subtree N times
			}
			list = append(list, probe())
			T := e.wrap(list)
			toks, err := syntax.Tokens(T, syntax.RenderOpts{})
			if err != nil {
				r.Skip()
				continue
			}
			h.check(key, T, syntax.Join(toks, true))
		}
	}
	r.Bound("repetitions", fmt.Sprint(n1))
	r.Bound("forms", fmt.Sprint(len(forms)))
}
