package c03

import (
	"verif/mc/ref/syntax"
)

// The functions below expose C03's generators of valid programs to C04, which
// mutates them (corpus), checks spans and ast.Walk on them (valid texts) and
// re-uses the ASI matrix for the reject direction. Texts are the minimal
// rendering with one space between tokens, so strings.Split(text, " ") is the
// token list.

func text(t *N) (string, bool) {
	toks, err := syntax.Tokens(t, syntax.RenderOpts{})
	if err != nil || !validPlacement(t, "") {
		return "", false
	}
	return syntax.Join(toks, false), true
}

// CorpusTexts is the corpus of valid programs for C04's edit families: every
// statement kind alone, every container around six representative statements,
// and expression programs that call the host function and assign globals.
func CorpusTexts() []string {
	var out []string
	add := func(t *N) {
		if s, ok := text(t); ok {
			out = append(out, s)
		}
	}
	leaves := leafStatements()
	for _, l := range leaves {
		add(envFor(l.mk()))
	}
	pick := map[string]bool{"call": true, "ifelse": true, "for3": true, "returnx": true, "switch": true, "trycatch": true}
	for _, c := range containers() {
		for _, l := range leaves {
			if pick[l.name] {
				add(envFor(c.wrap(l.mk())))
			}
		}
	}
	k := GoUnits("k")
	extras := []*N{
		program(n("Assign", "=", id("a"), n("Binary", "+", num("1"), n("Binary", "*", num("2"), id("b"))))),
		program(call("x"), n("Assign", "=", id("a"), num("1"))),
		program(n("Assign", "=", id("a"), n("Cond", "", id("b"), call("x"), call("f", id("g"))))),
		program(n("Assign", "=", id("a"), n("Object", "", prop("value", "k", k, num("1")), prop("get", "g", GoUnits("g"), fn(nil, n("Return", "", num("1")))), prop("set", "g", GoUnits("g"), fn([]string{"v"}))))),
		program(n("Assign", "=", id("a"), n("Array", "", num("1"), n("Hole", ""), num("2"), n("Hole", "")))),
		program(n("Assign", "=", id("a"), n("Binary", "/", n("Binary", "/", id("b"), id("g")), num("2")))),
		program(n("Assign", "=", id("a"), n("Call", "", n("Dot", "test", syntax.RegexLit("b", "g")), syntax.StrLit(`"s"`, GoUnits("s"))))),
		program(n("Assign", "=", id("a"), newNoArgs(n("Dot", "b", id("g"))))),
		program(n("Assign", "=", id("a"), n("New", "", n("Dot", "b", id("g")), num("1"), num("2")))),
		program(n("Assign", "+=", n("Index", "", id("a"), num("0")), n("Unary", "typeof", n("Unary", "-", id("b"))))),
		program(n("Comma", "", n("Postfix", "++", id("a")), n("Unary", "--", id("b")))),
		program(n("Assign", "=", id("a"), n("Binary", "in", syntax.StrLit(`"k"`, k), id("b")))),
		program(n("Assign", "=", id("a"), n("Binary", "instanceof", id("b"), id("g")))),
		program(n("Call", "", fn([]string{"p"}, n("Return", "", n("Binary", "&&", id("p"), n("This", "")))), n("Null", ""), n("True", ""), n("False", ""))),
		program(n("Var", "", decl("v", fn(nil, n("Var", "", decl("w", num("1"))), n("Return", "", id("w")))))),
		program(n("Unary", "delete", n("Dot", "b", id("a"))), n("Unary", "void", num("0")), n("Unary", "!", n("Unary", "~", id("a")))),
		program(n("If", "", n("Binary", "<", id("a"), id("b")), ex(call("x")), n("If", "", id("g"), ex(call("f")), ex(n("Assign", "=", id("a"), num("2")))))),
	}
	for _, e := range extras {
		add(e)
	}
	// sibling histories: an earlier labelled loop / nested switch / function,
	// then a statement whose legality depends on the parser's scope state
	out = append(out,
		"a : while ( c ) ; b : { while ( c ) { x ( ) ; break b ; } }",
		"switch ( a ) { case 1 : switch ( b ) { case 2 : break ; } break ; case 3 : x ( ) ; }",
		"L : for ( ; ; ) { M : while ( c ) { continue L ; } continue L ; }",
		"h = function ( ) { L : while ( c ) continue L ; return 1 ; } ; M : { x ( ) ; break M ; }",
		"for ( ; ; ) { switch ( a ) { default : continue ; } break ; }",
	)
	return out
}

// ValidTexts lists valid programs covering every node kind: all depth-2
// expression pairs, every statement kind nested to depth 2, the corpus extras.
func ValidTexts(f func(key, src string)) {
	for i, t := range pairTrees() {
		if s, ok := text(t); ok {
			f("pair/"+itoa(i), s)
		}
	}
	leaves := leafStatements()
	for _, l := range leaves {
		if s, ok := text(envFor(l.mk())); ok {
			f("leaf/"+l.name, s)
		}
	}
	for _, c := range containers() {
		for _, l := range leaves {
			if s, ok := text(envFor(c.wrap(l.mk()))); ok {
				f(c.name+"/"+l.name, s)
			}
		}
	}
	for i, s := range CorpusTexts() {
		f("corpus/"+itoa(i), s)
	}
}

func itoa(i int) string {
	if i == 0 {
		return "0"
	}
	s := ""
	for ; i > 0; i /= 10 {
		s = string(rune('0'+i%10)) + s
	}
	return s
}

// ASITexts enumerates the texts of the ASI matrix (statement pairs x separators x environments).
func ASITexts(allEnvs bool, f func(key, src string)) {
	forms := asiForms()
	envs := [][3]string{{"top", "", ""}, {"func", "function f ( ) { ", " }"}, {"loop", "function f ( ) { L : for ( ; ; ) { ", " } }"}}
	for _, f1 := range forms {
		for _, f2 := range forms {
			s1, s2 := f1.mk(), f2.mk()
			t1, _ := stmtText(s1)
			t2, _ := stmtText(s2)
			for _, sep := range asiSeps {
				for _, e := range envs {
					if !allEnvs {
						need := "top"
						if contains(s1, "Break", "Continue") || contains(s2, "Break", "Continue") {
							need = "loop"
						} else if contains(s1, "Return") || contains(s2, "Return") {
							need = "func"
						}
						if e[0] != need {
							continue
						}
					}
					f(f1.name+"/"+sep.name+"/"+f2.name+"/"+e[0], e[1]+syntax.Join(t1, false)+sep.text+syntax.Join(t2, false)+e[2])
				}
			}
		}
	}
}
