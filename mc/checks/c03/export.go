package c03

import (
	"strings"

	"verif/mc/ref/syntax"
)

// The functions below expose C03's generators of valid programs to C04, which
// mutates them (corpus), checks spans and ast.Walk on them (valid texts) and
// re-uses the ASI matrix for the reject direction. Texts are the minimal
// rendering with one space between tokens, so strings.Split(text, " ") is the
// token list.

func text(t *N) (string, bool) {
	toks, err := syntax.Tokens(t, syntax.RenderOpts{})
	if err != nil || !validPlacement(t, "") {
		return "", false
	}
	return syntax.Join(toks, false), true
}

// CorpusTexts is the corpus of valid programs for C04's edit families: every
// statement kind alone, every container around six representative statements,
// and expression programs that call the host function and assign globals.
func CorpusTexts() []string {
	var out []string
	add := func(t *N) {
		if s, ok := text(t); ok {
			out = append(out, s)
		}
	}
	leaves := leafStatements()
	for _, l := range leaves {
		add(envFor(l.mk()))
	}
	pick := map[string]bool{"call": true, "ifelse": true, "for3": true, "returnx": true, "switch": true, "trycatch": true}
	for _, c := range containers() {
		for _, l := range leaves {
			if pick[l.name] {
				add(envFor(c.wrap(l.mk())))
			}
		}
	}
	k := GoUnits("k")
	extras := []*N{
		program(n("Assign", "=", id("a"), n("Binary", "+", num("1"), n("Binary", "*", num("2"), id("b"))))),
		program(call("x"), n("Assign", "=", id("a"), num("1"))),
		program(n("Assign", "=", id("a"), n("Cond", "", id("b"), call("x"), call("f", id("g"))))),
		program(n("Assign", "=", id("a"), n("Object", "", prop("value", "k", k, num("1")), prop("get", "g", GoUnits("g"), fn(nil, n("Return", "", num("1")))), prop("set", "g", GoUnits("g"), fn([]string{"v"}))))),
		program(n("Assign", "=", id("a"), n("Array", "", num("1"), n("Hole", ""), num("2"), n("Hole", "")))),
		program(n("Assign", "=", id("a"), n("Binary", "/", n("Binary", "/", id("b"), id("g")), num("2")))),
		program(n("Assign", "=", id("a"), n("Call", "", n("Dot", "test", syntax.RegexLit("b", "g")), syntax.StrLit(`"s"`, GoUnits("s"))))),
		program(n("Assign", "=", id("a"), newNoArgs(n("Dot", "b", id("g"))))),
		program(n("Assign", "=", id("a"), n("New", "", n("Dot", "b", id("g")), num("1"), num("2")))),
		program(n("Assign", "+=", n("Index", "", id("a"), num("0")), n("Unary", "typeof", n("Unary", "-", id("b"))))),
		program(n("Comma", "", n("Postfix", "++", id("a")), n("Unary", "--", id("b")))),
		program(n("Assign", "=", id("a"), n("Binary", "in", syntax.StrLit(`"k"`, k), id("b")))),
		program(n("Assign", "=", id("a"), n("Binary", "instanceof", id("b"), id("g")))),
		program(n("Call", "", fn([]string{"p"}, n("Return", "", n("Binary", "&&", id("p"), n("This", "")))), n("Null", ""), n("True", ""), n("False", ""))),
		program(n("Var", "", decl("v", fn(nil, n("Var", "", decl("w", num("1"))), n("Return", "", id("w")))))),
		program(n("Unary", "delete", n("Dot", "b", id("a"))), n("Unary", "void", num("0")), n("Unary", "!", n("Unary", "~", id("a")))),
		program(n("If", "", n("Binary", "<", id("a"), id("b")), ex(call("x")), n("If", "", id("g"), ex(call("f")), ex(n("Assign", "=", id("a"), num("2")))))),
	}
	for _, e := range extras {
		add(e)
	}
	// sibling histories: an earlier labelled loop / nested switch / function,
	// then a statement whose legality depends on the parser's scope state
	out = append(out,
		"a : while ( c ) ; b : { while ( c ) { x ( ) ; break b ; } }",
		"switch ( a ) { case 1 : switch ( b ) { case 2 : break ; } break ; case 3 : x ( ) ; }",
		"L : for ( ; ; ) { M : while ( c ) { continue L ; } continue L ; }",
		"h = function ( ) { L : while ( c ) continue L ; return 1 ; } ; M : { x ( ) ; break M ; }",
		"for ( ; ; ) { switch ( a ) { default : continue ; } break ; }",
	)
	return out
}

// ValidTexts lists valid programs covering every node kind: all depth-2
// expression pairs, every statement kind nested to depth 2, the corpus extras.
func ValidTexts(f func(key, src string)) {
	for i, t := range pairTrees() {
		if s, ok := text(t); ok {
			f("pair/"+itoa(i), s)
		}
	}
	leaves := leafStatements()
	for _, l := range leaves {
		if s, ok := text(envFor(l.mk())); ok {
			f("leaf/"+l.name, s)
		}
	}
	for _, c := range containers() {
		for _, l := range leaves {
			if s, ok := text(envFor(c.wrap(l.mk()))); ok {
				f(c.name+"/"+l.name, s)
			}
		}
	}
	for i, s := range CorpusTexts() {
		f("corpus/"+itoa(i), s)
	}
}

func itoa(i int) string {
	if i == 0 {
		return "0"
	}
	s := ""
	for ; i > 0; i /= 10 {
		s = string(rune('0'+i%10)) + s
	}
	return s
}

// ASITexts enumerates the texts of the ASI matrix (statement pairs x separators x environments).
func ASITexts(allEnvs bool, f func(key, src string)) {
	forms := asiForms()
	envs := [][3]string{{"top", "", ""}, {"func", "function f ( ) { ", " }"}, {"loop", "function f ( ) { L : for ( ; ; ) { ", " } }"}}
	for _, f1 := range forms {
		for _, f2 := range forms {
			s1, s2 := f1.mk(), f2.mk()
			t1, _ := stmtText(s1)
			t2, _ := stmtText(s2)
			for _, sep := range asiSeps {
				for _, e := range envs {
					if !allEnvs {
						need := "top"
						if contains(s1, "Break", "Continue") || contains(s2, "Break", "Continue") {
							need = "loop"
						} else if contains(s1, "Return") || contains(s2, "Return") {
							need = "func"
						}
						if e[0] != need {
							continue
						}
					}
					f(f1.name+"/"+sep.name+"/"+f2.name+"/"+e[0], e[1]+syntax.Join(t1, false)+sep.text+syntax.Join(t2, false)+e[2])
				}
			}
		}
	}
}

// NoInTexts enumerates the NoIn matrix as raw texts (no parentheses are added):
// every expression form that contains a nested AssignmentExpression /
// Expression, with an `in` expression written in each operand position, placed
// in every clause of a for header (and, as controls, outside one). Where ES5
// re-enables `in` (parentheses, brackets, arguments, literals, function bodies,
// the middle operand of ?:) the text is a valid program; elsewhere in the first
// clause it is not. The reference recogniser decides which.
func NoInTexts(f func(key, src string)) {
	forms := []string{
		"X", "X ? b : c", "a ? X : c", "a ? b : X", "a ? b : c ? d : X", "a ? b : c ? X : d", "a ? b ? c : X : d", "a ? b ? X : c : d", "X ? b : c ? d : e",
		"a = X", "a += X", "a = b = X", "a [ 0 ] = X", "a . b >>>= X",
		"X , b", "a , X", "a , b , X",
		"X && b", "a && X", "X || b", "a || X", "a || b && X", "X + b", "a + X", "X * b", "a * X", "X == b", "a == X", "a === X", "X < b", "a < X", "a >= X",
		"X in b", "a in X", "a instanceof X", "X instanceof b", "X & b", "a | X", "a ^ X", "a << X",
		"! X", "typeof X", "- X", "void X", "delete X",
		"f ( X )", "f ( a , X )", "f ( X , b )", "new F ( X )", "new F ( a , X )", "a [ X ]", "a [ b , X ]", "a . b [ X ] . c", "f ( a ) ( X )",
		"[ X ]", "[ a , X ]", "[ , X , ]", "{ k : X }", "{ k : a , l : X }", "{ get g ( ) { return X ; } }",
		"function ( ) { X ; }", "function ( ) { return X ; }", "function ( ) { for ( k in o ) ; }", "function ( ) { for ( X ; ; ) ; }", "function ( v ) { var w = X ; }",
		"( X )", "( a , X )", "( X , b )", "( ( X ) )",
		"a ? ( X ) : c", "a ? b : ( X )", "( a ? b : X )", "f ( a ? b : X )", "[ a ? b : X ]", "a [ b ? c : X ]", "a ? b : f ( X )", "a ? b : [ X ]", "a ? b : { k : X }",
		"a ? b : function ( ) { X ; }", "a = a ? b : X", "a = b ? X : c", "a , b ? c : X", "a ? b : c = X", "a ? b : c , X", "a ? b : c && X", "a ? b : c || d ? e : X",
		"a ? b : ! X", "a ? b : c + X", "a ? b : c < X", "a && b ? c : X", "a ? b : c ? d : e ? g : X", "a ? f ( b ? c : X ) : d", "a ? b : c in X",
	}
	xs := []string{"p in q", "p in q in r", "( p in q )", "p instanceof q", "p", "\"k\" in { k : 1 }"}
	headers := []struct{ name, text string }{
		{"init", "for ( E ; ; ) ;"}, {"init3", "for ( E ; t ; u ) x ( ) ;"}, {"var", "for ( var v = E ; ; ) ;"}, {"var2", "for ( var v , w = E ; ; ) ;"},
		{"var1of2", "for ( var v = E , w ; ; ) ;"}, {"forinvar", "for ( var v = E in o ) ;"}, {"forin", "for ( E in o ) ;"}, {"test", "for ( ; E ; ) ;"},
		{"update", "for ( ; ; E ) ;"}, {"forinobj", "for ( a in E ) ;"}, {"forinvarobj", "for ( var v in E ) ;"}, {"stmt", "E ;"}, {"body", "for ( ; ; ) E ;"},
		{"nested", "for ( h = function ( ) { for ( E ; ; ) ; } ; ; ) ;"}, {"paren", "for ( ( E ) ; ; ) ;"}, {"varstmt", "var v = E ;"},
		{"afterfor", "for ( z ; ; ) ; for ( E ; ; ) ;"}, {"initcomma", "for ( z , E ; ; ) ;"}, {"initassign", "for ( z = E ; ; ) ;"},
	}
	for fi, form := range forms {
		for xi, x := range xs {
			if xi > 0 && !strings.Contains(form, "X") {
				continue
			}
			e := strings.ReplaceAll(form, "X", x)
			if strings.HasPrefix(e, "{") || strings.HasPrefix(e, "function") {
				e = "z = " + e // keep statement-position forms expressions
			}
			for _, h := range headers {
				f("f"+itoa(fi)+"/x"+itoa(xi)+"/"+h.name, strings.ReplaceAll(h.text, "E", e))
			}
		}
	}
}

// SpellingTexts enumerates the "spelling lattice" of contextual positions where
// a token's TEXT and its cooked VALUE can be confused: get/set in object
// literals, labels versus string statements, names after a dot, regexp flags.
// Each contextual word is written as a plain identifier, an identifier with
// unicode escapes, a string literal (both quotes, with and without escapes)
// and a numeric literal, followed by every class of next token. Only the
// IdentifierName spellings may act as the contextual keyword; the reference
// recogniser decides which texts are programs.
func SpellingTexts(f func(key, src string)) {
	firsts := []string{"get", "set", `get`, `set`, `"get"`, `'get'`, `"set"`, `'set'`, `"g\x65t"`, `'set'`, "\"get\\\n\"", "a", `"a"`, "1", "0x1", "if", "true", `"if"`}
	follows := []string{"x", `"x"`, `'x'`, "1", "if", "get", "set", `"get"`, ": 1", ": x", ", a : 1", "", "( ) { }", "( v ) { }", "x ( ) { }", "x ( ) { return 1 }", "x ( v ) { }", `"x" ( ) { }`, `'x' ( v ) { }`,
		"1 ( ) { return 1 }", "if ( ) { }", "get ( ) { }", "set ( v ) { }", `"get" ( ) { }`, ": function ( ) { }", "x : 1", "x , y : 1", ": 1 , get x ( ) { }", `x ( ) { }`}
	wraps := []string{"x = { E } ;", "( { E } )", "x = { a : 1 , E } ;", "f ( { E } , 1 ) ;"}
	for fi, a := range firsts {
		for gi, b := range follows {
			for wi, w := range wraps {
				f("obj/"+itoa(fi)+"/"+itoa(gi)+"/"+itoa(wi), strings.ReplaceAll(w, "E", strings.TrimSpace(a+" "+b)))
			}
		}
	}
	// labels, jump targets, dotted names, regexp flags, declared names
	words := []string{"L", `L`, `"L"`, `'L'`, `"L"`, "1", "get", "if", `if`[:0] + "l2", "true", `true`[:0] + "t2"}
	ctxs := []string{"W : ;", "W : x ;", "W : for ( ; ; ) break L ;", "L : for ( ; ; ) break W ;", "L : for ( ; ; ) continue W ;", "L : W : for ( ; ; ) continue L ;",
		"a . W ;", "a . W ( ) ;", "a . W = 1 ;", "x = a . b . W ;", "x = /a/W ;", "x = /a/ W ;", "x = /a/g W ;", "W ;", "W\nx ;", "x = W ;", "var W ;", "var W = 1 ;",
		"function W ( ) { }", "function f ( W ) { }", "try { } catch ( W ) { }", "for ( var W in o ) ;", "x = { W : 1 } ;", "x = { get W ( ) { } } ;", "W : W : ;", "W : { W : ; }"}
	for wi, w := range words {
		for ci, c := range ctxs {
			f("ctx/"+itoa(wi)+"/"+itoa(ci), strings.ReplaceAll(c, "W", w))
		}
	}
}

// CommentTexts enumerates comment contents - including the tool directives
// `# sourceMappingURL=` / `@ sourceMappingURL=` / `# sourceURL=` with data:
// URLs, base64 markers and payloads - as line and block comments at the start,
// in the middle and on the last line of a valid program. A comment never
// changes the tree and never makes a valid program invalid.
func CommentTexts(maxPieces int, f func(key, src string)) {
	pieces := []string{"# sourceMappingURL=", "@ sourceMappingURL=", "# sourceURL=", "data:application/json", "data:text/plain", ";base64", ";charset=utf-8", ",",
		"AAAA", "e30=", "eyJ2ZXJzaW9uIjozfQ==", "{}", "{\"version\":3}", "foo.map", " ", "!"}
	idx := []int{}
	var rec func()
	rec = func() {
		var sb strings.Builder
		var kb strings.Builder
		for _, i := range idx {
			sb.WriteString(pieces[i])
			kb.WriteByte("0123456789abcdef"[i])
		}
		body, key := sb.String(), kb.String()
		f("last/"+key, "x = 1 ;\n//"+body)
		f("lastnl/"+key, "x = 1 ;\n//"+body+"\n")
		if len(idx) <= maxPieces-1 {
			f("only/"+key, "//"+body)
			f("mid/"+key, "x = 1 ;\n//"+body+"\ny = 2 ;")
			f("first/"+key, "//"+body+"\nx = 1 ;")
			f("block/"+key, "x = 1 ;\n/*"+body+"*/")
			f("inline/"+key, "x = 1 ; //"+body)
			f("crlf/"+key, "x = 1 ;\r\n//"+body+"\r\n")
		}
		if len(idx) == maxPieces {
			return
		}
		for i := range pieces {
			idx = append(idx, i)
			rec()
			idx = idx[:len(idx)-1]
		}
	}
	rec()
}
