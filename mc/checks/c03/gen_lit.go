package c03

import (
	"fmt"
	"math"
	"math/big"
	"regexp"
	"strconv"
	"strings"

	"verif/mc/engine"
	"verif/mc/ref/syntax"
)

var (
	reDecimal = regexp.MustCompile(`^(?:(?:0|[1-9][0-9]*)(?:\.[0-9]*)?|\.[0-9]+)(?:[eE][+-]?[0-9]+)?$`)
	reHex     = regexp.MustCompile(`^0[xX][0-9a-fA-F]+$`)
	reOctal   = regexp.MustCompile(`^0[0-7]+$`)
	reNumNode = regexp.MustCompile(`Num:[^ ()]+`)
)

// literalSelfCheck evaluates a single numeric literal by a second, independent
// route (strconv for decimal forms, big.Float for hex/octal) and compares it
// with the reference lexer's value.
func literalSelfCheck(raw string, refDump string) string {
	var want float64
	switch {
	case reDecimal.MatchString(raw):
		f, err := strconv.ParseFloat(raw, 64)
		if err != nil && !math.IsInf(f, 0) {
			return "strconv: " + err.Error()
		}
		want = f
	case reHex.MatchString(raw):
		v, _ := new(big.Int).SetString(raw[2:], 16)
		want, _ = new(big.Float).SetInt(v).Float64()
	case reOctal.MatchString(raw):
		v, _ := new(big.Int).SetString(raw[1:], 8)
		want, _ = new(big.Float).SetInt(v).Float64()
	default:
		return ""
	}
	exp := program(syntax.NumLit(raw, want)).Dump()
	if exp != refDump {
		return fmt.Sprintf("literal %s: second route %s, reference %s", raw, exp, refDump)
	}
	return ""
}

var numBoundaries = []string{
	"0", "00", "07", "010", "0.0", ".0", "0.", "1.", "1.e1", ".1e-1", "1E+1", "0e0", "0E-0", "0X1f", "0xAbCdEf", "0x0", "0x00ff",
	"9007199254740991", "9007199254740992", "9007199254740993", "9007199254740995", "9007199254740994",
	"9223372036854775807", "9223372036854775808", "18446744073709551615", "18446744073709551616",
	"1e21", "1e-7", "123456789012345678901234567890", "0.1", "0.30000000000000004", "1.7976931348623157e308",
	"1.7976931348623158e308", "1.7976931348623159e308", "1.8e308", "5e-324", "2.4703282292062327e-324",
	"2.4703282292062328e-324", "2.4703282292062329e-324", "4.9e-324", "1e400", "1e-400", "1e99999", "0.5e-323", "3e-324",
	"0x7fffffffffffffff", "0x8000000000000000", "0x10000000000000801", "0x20000000000001", "0x20000000000003",
	"0x20000000000002", "0xfffffffffffff800", "0xfffffffffffffc00", "0xfffffffffffffbff", "0x1fffffffffffff", "0x3fffffffffffff",
	"0777777777777777777777", "01000000000000000000000", "0400000000000000001", "0400000000000000003", "0377",
	"1.0000000000000002", "1.00000000000000011102230246251565404236316680908203125", "1.00000000000000011102230246251565404236316680908203126",
	"4.35", "0.000001", "123e-20", "8.5e+2", "100000000000000000000", "1000000000000000000000",
}

// runNumLit: numeric literal tokens carry the value of 7.8.3 / B.1.1.
func runNumLit(r *engine.Run) {
	h := &harness{r: r}
	const alphabet = "0179.eE+-xXaF8"
	maxLen := 3
	if r.Thorough() {
		maxLen = 5
	}
	valid, single := 0, 0
	try := func(key, s string) {
		if !r.MineKey(key) {
			return
		}
		ref := syntax.Parse(s, syntax.Options{})
		if !ref.Accepted() {
			r.Skip() // not a valid program (C04 checks that otto rejects it too)
			return
		}
		valid++
		d := ref.Tree.Dump()
		if msg := literalSelfCheck(s, d); msg != "" {
			r.HarnessError(msg)
			return
		} else if reDecimal.MatchString(s) || reHex.MatchString(s) || reOctal.MatchString(s) {
			single++
		}
		h.compare(key, s, d)
	}
	var rec func(prefix string)
	rec = func(prefix string) {
		if prefix != "" {
			try("s/"+prefix, prefix)
		}
		if len(prefix) == maxLen {
			return
		}
		for i := 0; i < len(alphabet); i++ {
			rec(prefix + alphabet[i:i+1])
		}
	}
	rec("")
	for _, b := range numBoundaries {
		try("b/"+b, b)
		try("neg/"+b, "- "+b)
		try("assign/"+b, "x="+b+";")
	}
	r.Bound("string_len", fmt.Sprint(maxLen))
	r.Bound("boundaries", fmt.Sprint(len(numBoundaries)))
	r.Note(fmt.Sprintf("shard %d: %d valid programs among the strings, %d single literals", r.Shard, valid, single))
}

// numAlt rewrites every Num value of a dump through f.
func numFromDump(d string) (string, bool) {
	const pre = "(Program (Expr Num:"
	if !strings.HasPrefix(d, pre) || !strings.HasSuffix(d, "))") {
		return "", false
	}
	v := d[len(pre) : len(d)-2]
	if strings.ContainsAny(v, " ()") {
		return "", false
	}
	return v, true
}

// sigInt64Literal: the literal is an integer beyond 2^53 that otto carries as an
// exact int64 instead of the nearest double; converting that int64 to a double
// gives exactly the expected value.
func sigInt64Literal(m *engine.Mismatch) bool {
	n := 0
	fixed := reNumNode.ReplaceAllStringFunc(m.Observed, func(s string) string {
		if !strings.HasPrefix(s, "Num:int64!") {
			return s
		}
		v, err := strconv.ParseInt(s[len("Num:int64!"):], 10, 64)
		if err != nil {
			return s
		}
		n++
		return "Num:" + syntax.CanonNum(float64(v))
	})
	return n > 0 && fixed == m.Expected
}

// sigOctalAsDecimal: a legacy octal literal whose value does not fit int64 is
// read by otto as the decimal number with the same digits.
func sigOctalAsDecimal(m *engine.Mismatch) bool {
	src, ok := m.Input.(string)
	if !ok {
		return false
	}
	lit := reOctalIn.FindString(src)
	if lit == "" {
		return false
	}
	v, _ := new(big.Int).SetString(lit[1:], 8)
	if v.IsInt64() {
		return false
	}
	dec, err := strconv.ParseFloat(lit, 64)
	if err != nil {
		return false
	}
	return strings.Replace(m.Expected, "Num:"+syntax.CanonNum(bigToFloat(v)), "Num:"+syntax.CanonNum(dec), 1) == m.Observed
}

var reOctalIn = regexp.MustCompile(`\b0[0-7]{21,}\b`)
var reHexIn = regexp.MustCompile(`\b0[xX][0-9a-fA-F]{16,}\b`)

func bigToFloat(v *big.Int) float64 {
	f, _ := new(big.Float).SetInt(v).Float64()
	return f
}

// sigHexStepwise: a hex literal beyond int64 is accumulated by otto digit by
// digit in double arithmetic (value*16+digit, rounding at every step).
func sigHexStepwise(m *engine.Mismatch) bool {
	src, ok := m.Input.(string)
	if !ok {
		return false
	}
	lit := reHexIn.FindString(src)
	if lit == "" {
		return false
	}
	v, _ := new(big.Int).SetString(lit[2:], 16)
	if v.IsInt64() {
		return false
	}
	var acc float64
	for _, c := range lit[2:] {
		d, _ := strconv.ParseInt(string(c), 16, 64)
		acc = acc*16 + float64(d)
	}
	return strings.Replace(m.Expected, "Num:"+syntax.CanonNum(bigToFloat(v)), "Num:"+syntax.CanonNum(acc), 1) == m.Observed
}

// octalEscape decodes B.1.2 OctalEscapeSequence at the start of digits and
// returns the value and the number of digits consumed.
func octalEscape(digits string) (uint16, int) {
	max := 3
	if digits[0] >= '4' {
		max = 2
	}
	v, i := 0, 0
	for i < len(digits) && i < max && digits[i] >= '0' && digits[i] <= '7' {
		v = v*8 + int(digits[i]-'0')
		i++
	}
	return uint16(v), i
}

// runStrLit: string literal tokens carry the SV of 7.8.4 / B.1.2.
func runStrLit(r *engine.Run) {
	h := &harness{r: r}
	emit := func(key, raw string, units []uint16) {
		if !r.MineKey(key) {
			return
		}
		T := program(n("Assign", "=", id("x"), syntax.StrLit(raw, units)))
		h.check(key, T, "x = "+raw+" ;")
	}
	for _, q := range []string{`"`, `'`} {
		qn := map[string]string{`"`: "dq", `'`: "sq"}[q]
		// every single-character escape \c for all 128 ASCII c
		for c := 0; c < 128; c++ {
			var u []uint16
			switch {
			case c == 'x' || c == 'u':
				continue // need hex digits: invalid alone
			case c == '\n' || c == '\r':
				u = nil // LineContinuation
			case c == 'b':
				u = []uint16{8}
			case c == 't':
				u = []uint16{9}
			case c == 'n':
				u = []uint16{10}
			case c == 'v':
				u = []uint16{11}
			case c == 'f':
				u = []uint16{12}
			case c == 'r':
				u = []uint16{13}
			case c >= '0' && c <= '7':
				u = []uint16{uint16(c - '0')}
			default:
				u = []uint16{uint16(c)}
			}
			emit(fmt.Sprintf("%s/esc/%d", qn, c), q+`\`+string(rune(c))+q, u)
			// unescaped occurrence of the same character
			if c != '\\' && c != '\n' && c != '\r' && string(rune(c)) != q {
				emit(fmt.Sprintf("%s/raw/%d", qn, c), q+string(rune(c))+q, []uint16{uint16(c)})
			}
		}
		// \xHH for all 256 values, both hex cases
		for v := 0; v < 256; v++ {
			emit(fmt.Sprintf("%s/x/%d", qn, v), fmt.Sprintf(`%s\x%02x%s`, q, v, q), []uint16{uint16(v)})
			emit(fmt.Sprintf("%s/X/%d", qn, v), fmt.Sprintf(`%sa\x%02Xb%s`, q, v, q), []uint16{'a', uint16(v), 'b'})
		}
		// \uHHHH over boundary values
		for _, v := range []int{0, 0x41, 0x7f, 0x80, 0xff, 0x100, 0x7ff, 0x800, 0x2028, 0x2029, 0xd7ff, 0xd800, 0xdbff, 0xdc00, 0xdfff, 0xe000, 0xfeff, 0xfffd, 0xfffe, 0xffff, 0xabcd, 0xABCD} {
			emit(fmt.Sprintf("%s/u/%04x", qn, v), fmt.Sprintf(`%s\u%04x%s`, q, v, q), []uint16{uint16(v)})
			emit(fmt.Sprintf("%s/U/%04x", qn, v), fmt.Sprintf(`%s\u%04X0%s`, q, v, q), []uint16{uint16(v), '0'})
		}
		emit(qn+"/u/pair", q+`\uD83D\uDE00`+q, []uint16{0xD83D, 0xDE00})
		emit(qn+"/u/pair-reversed", q+`\uDE00\uD83D`+q, []uint16{0xDE00, 0xD83D})
		// legacy octal escapes: all digit strings of length 1..3 over 0-7, alone and followed by 8
		for l := 1; l <= 3; l++ {
			for v := 0; v < 1<<(3*uint(l)); v++ {
				digits := fmt.Sprintf("%0*o", l, v)
				val, used := octalEscape(digits)
				u := []uint16{val}
				for _, c := range digits[used:] {
					u = append(u, uint16(c))
				}
				emit(fmt.Sprintf("%s/oct/%s", qn, digits), q+`\`+digits+q, u)
				emit(fmt.Sprintf("%s/oct8/%s", qn, digits), q+`\`+digits+"8"+q, append(append([]uint16(nil), u...), '8'))
			}
		}
		emit(qn+"/esc8", q+`\8\9`+q, []uint16{'8', '9'})
		// line continuations
		for _, c := range [][2]string{{"lf", "\n"}, {"cr", "\r"}, {"crlf", "\r\n"}, {"ls", "\u2028"}, {"ps", "\u2029"}} {
			name, lt := c[0], c[1]
			emit(qn+"/cont/"+name, q+"a\\"+lt+"b"+q, []uint16{'a', 'b'})
			emit(qn+"/cont2/"+name, q+"\\"+lt+"\\"+lt+q, nil)
		}
		emit(qn+"/cont/cr-x", q+"a\\\rxb"+q, []uint16{'a', 'x', 'b'})
		emit(qn+"/cont/lfcr", q+"a\\\n\\\rb"+q, []uint16{'a', 'b'})
		// other quote, mixtures, non-ASCII source characters
		other := map[string]string{`"`: `'`, `'`: `"`}[q]
		emit(qn+"/otherquote", q+other+q, []uint16{uint16(other[0])})
		emit(qn+"/mixed", q+`a\tb\\c\`+q+`d\`+other+q, []uint16{'a', 9, 'b', '\\', 'c', uint16(q[0]), 'd', uint16(other[0])})
		emit(qn+"/latin1", q+"\u00e9"+q, []uint16{0xe9})
		emit(qn+"/bmp", q+"\u20ac\ufeff\u00a0"+q, []uint16{0x20ac, 0xfeff, 0xa0})
		emit(qn+"/astral", q+"\U0001F600"+q, []uint16{0xD83D, 0xDE00})
		emit(qn+"/esc-nonascii", q+"\\\u00e9\\\u20ac"+q, []uint16{0xe9, 0x20ac})
		emit(qn+"/empty", q+q, nil)
	}
	r.Bound("escapes", "all 128 single-character, \\x00-\\xFF, 22 \\u values, octal digit strings <=3, 5 line terminators, both quotes")
}

// runIdentifiers: a few probes of 7.6 identifier syntax (escapes, non-ASCII
// letters, combining marks, digits, connectors, ZWNJ) in every name position.
func runIdentifiers(r *engine.Run) {
	h := &harness{r: r}
	names := []struct{ raw, name string }{
		{"$", "$"}, {"_", "_"}, {"a1", "a1"}, {`\u0061`, "a"}, {`a\u0062c`, "abc"}, {`\u0041B`, "AB"},
		{"\u00e9", "\u00e9"}, {"b\u0301", "b\u0301"}, {"b\u0663", "b\u0663"}, {"b\u203fc", "b\u203fc"}, {"a\u200cb", "a\u200cb"}, {"a\u200db", "a\u200db"},
		{"\u2135", "\u2135"}, {"\u01c5", "\u01c5"}, {"\u02b0a", "\u02b0a"}, {"\u2163", "\u2163"}, {`\u00e1`, "\u00e1"},
		{"let", "let"}, {"static", "static"}, {"yield", "yield"}, {"implements", "implements"}, {"undefined", "undefined"},
		{"eval", "eval"}, {"arguments", "arguments"}, {"of", "of"}, {"async", "async"}, {"await", "await"}, {"get", "get"}, {"set", "set"},
	}
	for i, nm := range names {
		I := func() *N { return id(nm.name) }
		cases := []struct {
			name string
			text string
			tree *N
		}{
			{"expr", "x = %s ;", program(n("Assign", "=", id("x"), I()))},
			{"var", "var %s = 1 ;", program(n("Var", "", decl(nm.name, num("1"))))},
			{"obj", "%s . p ;", program(n("Dot", "p", I()))},
			{"dot", "o . %s ;", program(n("Dot", nm.name, id("o")))},
			{"key", "x = { %s : 1 } ;", program(n("Assign", "=", id("x"), n("Object", "", n("Prop", "value "+syntax.Hex16(GoUnits(nm.name)), num("1")))))},
			{"getter", "x = { get %s ( ) { } } ;", program(n("Assign", "=", id("x"), n("Object", "", n("Prop", "get "+syntax.Hex16(GoUnits(nm.name)), fn(nil)))))},
			{"label", "%s : ;", program(n("Label", nm.name, n("Empty", "")))},
			{"func", "function %s ( %s ) { }", program(n("FuncDecl", "", func() *N { f := fn([]string{nm.name}); f.Op = nm.name; return f }()))},
			{"catch", "try { } catch ( %s ) { }", program(n("Try", "", blk(), n("Catch", nm.name, blk()), nil))},
			{"call", "%s ( %s ) ;", program(n("Call", "", I(), I()))},
		}
		for _, c := range cases {
			key := fmt.Sprintf("%d/%s", i, c.name)
			if !r.MineKey(key) {
				continue
			}
			h.check(key, c.tree, strings.ReplaceAll(c.text, "%s", nm.raw))
		}
	}
	r.Bound("names", fmt.Sprint(len(names)))
}
