package c11

import (
	"fmt"
	"reflect"
	"strings"
	"unicode/utf16"

	"github.com/robertkrimen/otto"

	"verif/mc/ox"
	rj "verif/mc/ref/json"
)

// ---------------------------------------------------------------------------
// behaviours of callbacks (reviver / replacer function / toJSON). One
// definition drives both the host function handed to otto and the model
// function handed to ref/json, so the two sides cannot drift apart.

type bctx struct {
	key string // the key argument (ToString of what was passed)
	typ string // undefined null boolean number string object function
	num float64
}

type retKind int

const (
	retSame   retKind = iota // the value argument (toJSON: this) unchanged
	retUndef                 // undefined
	retNum                   // a number
	retStr                   // a string
	retObj                   // a fresh object {"k":1,"a":2}
	retThrow                 // throws an Error object whose name is "Boom"
	retGrow                  // a fresh, deeper value at every call: replacer -> [0]; toJSON -> {"next": o}, o a fresh object with this same toJSON
	retNest                  // re-entrancy: calls JSON.stringify / JSON.parse itself (s: what on; n=1: then returns the target), see reentrant.go
	retTarget                // the object marked as target in the value description (the SAME object every time)
)

type ret struct {
	kind retKind
	n    float64
	s    string
}

type behaviour struct {
	name string
	f    func(c bctx) ret
}

var behaviours = []behaviour{
	{"identity", func(c bctx) ret { return ret{kind: retSame} }},
	{"dropA", func(c bctx) ret {
		if c.key == "a" {
			return ret{kind: retUndef}
		}
		return ret{kind: retSame}
	}},
	{"replNum", func(c bctx) ret {
		if c.typ == "number" {
			return ret{kind: retNum, n: 7}
		}
		return ret{kind: retSame}
	}},
	{"undefRoot", func(c bctx) ret {
		if c.key == "" {
			return ret{kind: retUndef}
		}
		return ret{kind: retSame}
	}},
	{"dropAll", func(c bctx) ret {
		if c.key != "" {
			return ret{kind: retUndef}
		}
		return ret{kind: retSame}
	}},
	{"dropNum", func(c bctx) ret {
		if c.typ == "number" {
			return ret{kind: retUndef}
		}
		return ret{kind: retSame}
	}},
	{"toNum", func(c bctx) ret { return ret{kind: retNum, n: 42} }},
	{"toStr", func(c bctx) ret { return ret{kind: retStr, s: "J"} }},
	{"toUndef", func(c bctx) ret { return ret{kind: retUndef} }},
	{"echoKey", func(c bctx) ret { return ret{kind: retStr, s: "key=" + c.key} }},
	{"toObj", func(c bctx) ret { return ret{kind: retObj} }},
	{"toInf", func(c bctx) ret { return ret{kind: retNum, n: inf} }},
	{"toThrow", func(c bctx) ret { return ret{kind: retThrow} }},
	{"grow", func(c bctx) ret { return ret{kind: retGrow} }},
	{"nestUnrelated", func(c bctx) ret { return ret{kind: retNest, s: "unrelated"} }},
	{"nestSelf", func(c bctx) ret { return ret{kind: retNest, s: "self"} }},
	{"nestTarget", func(c bctx) ret { return ret{kind: retNest, s: "target"} }},
	{"nestTargetRet", func(c bctx) ret { return ret{kind: retNest, s: "target", n: 1} }},
	{"nestParse", func(c bctx) ret { return ret{kind: retNest, s: "parse"} }},
	{"nestParseRevive", func(c bctx) ret { return ret{kind: retNest, s: "parseRevive"} }},
	{"toTarget", func(c bctx) ret { return ret{kind: retTarget} }},
	{"replTarget", func(c bctx) ret {
		if c.key == "" {
			return ret{kind: retSame}
		}
		return ret{kind: retTarget}
	}},
}

// thisMode: callbacks that receive the value as this (toJSON(key), valueOf(), toString()).
func thisMode(mode string) bool { return mode == "toJSON" || mode == "valueOf" || mode == "toString" }

func behaviourByName(name string) *behaviour {
	for i := range behaviours {
		if behaviours[i].name == name {
			return &behaviours[i]
		}
	}
	panic("unknown behaviour " + name)
}

func typeOfModel(v rj.Value) string {
	switch v.Kind {
	case rj.Undefined:
		return "undefined"
	case rj.Null:
		return "null"
	case rj.Bool:
		return "boolean"
	case rj.Number:
		return "number"
	case rj.String:
		return "string"
	}
	if v.O.Call != nil || v.O.Class == "Function" {
		return "function"
	}
	return "object"
}

// logEntry is what both sides record per callback invocation. The holder of a
// reviver call is logged by class only (its content at call time depends on the
// enumeration order of siblings, which ES5 leaves to the implementation).
// got is holder.[[Get]](key) as the side that logs sees it (read on the real
// object, prototype chain included).
func logEntry(mode string, key rj.Value, val rj.Value, holder rj.Value, got rj.Value) string {
	h := "-"
	if holder.Kind == rj.Object {
		if mode == "replacer" {
			h = rj.Canon(holder, true)
		} else {
			// reviver: class of the holder and whether holder[key] is the value passed
			h = holder.O.Class
			if key.Kind == rj.String && rj.Canon(got, true) != rj.Canon(val, true) {
				h += "(holder[key] is not the value)"
			}
		}
	} else if !thisMode(mode) {
		h = rj.Canon(holder, true)
	}
	return mode + "(" + rj.Canon(key, true) + "," + rj.Canon(val, true) + ")@" + h
}

func keyString(v rj.Value) string {
	if v.Kind == rj.String {
		return string(utf16.Decode(v.S))
	}
	return rj.Canon(v, true)
}

// hostModel is the model side: functions for ref/json plus the call log.
type hostModel struct {
	log     []string
	nesting bool    // inside a nested JSON call made by a callback (reentrant.go)
	fired   bool    // a holder-mutating callback has done its mutation (mutators.go)
	target  *rj.Obj // the object a holder-mutating toJSON operates on
}

func (h *hostModel) fn(mode, name string) *rj.Obj {
	b := behaviourByName(name)
	var self *rj.Obj
	self = rj.NewFunction(func(this rj.Value, args []rj.Value) rj.Value {
		var key, val, holder rj.Value
		if thisMode(mode) {
			key, val = arg(args, 0), this
		} else {
			key, val, holder = arg(args, 0), arg(args, 1), this
		}
		h.log = append(h.log, logEntry(mode, key, val, holder, modelGet(holder, key)))
		r := b.f(bctx{key: keyString(key), typ: typeOfModel(val), num: val.N})
		switch r.kind {
		case retUndef:
			return rj.Undef
		case retNum:
			return rj.Num(r.n)
		case retStr:
			return rj.StrOf(r.s)
		case retObj:
			o := rj.NewObject()
			o.Put(rj.K("k"), rj.Num(1))
			o.Put(rj.K("a"), rj.Num(2))
			return rj.ObjV(o)
		case retThrow:
			panic(&rj.Throw{Class: "Boom", Msg: "thrown by callback"})
		case retNest:
			return h.nested(r, val, holder)
		case retGrow:
			if mode != "toJSON" {
				return rj.ObjV(rj.NewArray(rj.Num(0)))
			}
			inner := rj.NewObject()
			inner.Put(rj.K("toJSON"), rj.ObjV(self))
			o := rj.NewObject()
			o.Put(rj.K("next"), rj.ObjV(inner))
			return rj.ObjV(o)
		case retTarget:
			if h.target == nil {
				return rj.Undef
			}
			return rj.ObjV(h.target)
		}
		return val
	})
	return self
}

func arg(a []rj.Value, i int) rj.Value {
	if i < len(a) {
		return a[i]
	}
	return rj.Undef
}

// ---------------------------------------------------------------------------
// the implementation side

type drv struct {
	vm        *otto.Otto
	parse     otto.Value
	stringify otto.Value
	log       []string
	cache     map[string]otto.Value
	nesting   bool       // see hostModel.nesting
	fired     bool       // see hostModel.fired
	del       otto.Value // function(o, k) { delete o[k] }
	lockFn    otto.Value // function(o, k) { Object.defineProperty(o, k, {... non-writable, non-configurable}) }
}

func newDrv() *drv {
	d := &drv{vm: otto.New(), cache: map[string]otto.Value{}}
	j, err := d.vm.Object("JSON")
	if err != nil {
		panic(err)
	}
	d.parse, _ = j.Get("parse")
	d.stringify, _ = j.Get("stringify")
	for _, mode := range []string{"reviver", "replacer", "toJSON", "valueOf", "toString"} {
		prefix := map[string]string{"reviver": "__rv_", "replacer": "__rp_", "toJSON": "__tj_", "valueOf": "__cv_valueOf_", "toString": "__cv_toString_"}[mode]
		for i := range behaviours {
			b := &behaviours[i]
			if err := d.vm.Set(prefix+b.name, d.host(mode, b)); err != nil {
				panic(err)
			}
		}
	}
	d.registerMutators()
	return d
}

func (d *drv) host(mode string, b *behaviour) func(call otto.FunctionCall) otto.Value {
	return func(call otto.FunctionCall) otto.Value {
		var keyV, valV otto.Value
		var key, val, holder rj.Value
		if thisMode(mode) {
			keyV, valV = call.Argument(0), call.This
		} else {
			keyV, valV = call.Argument(0), call.Argument(1)
			holder = fromOtto(call.This, 0)
		}
		key, val = fromOtto(keyV, 0), fromOtto(valV, 0)
		d.log = append(d.log, logEntry(mode, key, val, holder, ottoGet(call.This, keyV, mode)))
		r := b.f(bctx{key: keyString(key), typ: typeOfModel(val), num: val.N})
		switch r.kind {
		case retUndef:
			return otto.UndefinedValue()
		case retNum:
			v, _ := otto.ToValue(r.n)
			return v
		case retStr:
			v, _ := otto.ToValue(r.s)
			return v
		case retObj:
			o, err := d.vm.Object(`({"k":1,"a":2})`)
			if err != nil {
				panic(err)
			}
			return o.Value()
		case retThrow:
			panic(d.vm.MakeCustomError("Boom", "thrown by callback"))
		case retNest:
			return d.nested(r, valV, call.This, mode)
		case retGrow:
			if mode != "toJSON" {
				a, err := d.vm.Object(`([0])`)
				if err != nil {
					panic(err)
				}
				return a.Value()
			}
			me, _ := d.vm.Get("__tj_" + b.name)
			inner, _ := d.vm.Object(`({})`)
			inner.Set("toJSON", me) //nolint:errcheck
			o, _ := d.vm.Object(`({})`)
			o.Set("next", inner.Value()) //nolint:errcheck
			return o.Value()
		case retTarget:
			t, _ := d.vm.Get("__target")
			return t
		}
		return valV
	}
}

// fromOtto converts an otto value into a model value by walking it through the
// Go API (no script of the system under test is involved in observing).
func fromOtto(v otto.Value, depth int) rj.Value {
	switch {
	case v.IsUndefined():
		return rj.Undef
	case v.IsNull():
		return rj.Nul
	case v.IsBoolean():
		b, _ := v.ToBoolean()
		return rj.Boolean(b)
	case v.IsNumber():
		f, _ := v.ToFloat()
		return rj.Num(f)
	case v.IsString():
		return rj.Str(ox.StringUnits(v))
	case v.IsFunction():
		return rj.ObjV(&rj.Obj{Class: "Function", Props: map[rj.S16]*rj.Prop{}})
	case v.IsObject():
		o := v.Object()
		class := o.Class()
		if depth > rj.CanonDepth {
			return rj.ObjV(&rj.Obj{Class: class, Props: map[rj.S16]*rj.Prop{}})
		}
		switch class {
		case "Number", "String", "Boolean":
			// [[PrimitiveValue]] read by reflection: ToFloat/ToString/valueOf would run
			// the (possibly overridden) conversion methods of the object under observation
			if p, ok := primitiveOf(v); ok {
				return rj.ObjV(rj.NewWrapper(p))
			}
			return rj.ObjV(&rj.Obj{Class: class + "?", Props: map[rj.S16]*rj.Prop{}})
		case "Array":
			a := rj.NewArray()
			lv, _ := o.Get("length")
			n, _ := lv.ToInteger()
			present := map[string]bool{}
			for _, k := range o.Keys() {
				present[k] = true
			}
			for i := int64(0); i < n && i < 64; i++ {
				k := fmt.Sprint(i)
				if !present[k] {
					continue
				}
				ev, _ := o.Get(k)
				a.Put(rj.IndexKey(uint32(i)), fromOtto(ev, depth+1))
			}
			if uint32(n) > a.Len {
				a.Len = uint32(n)
			}
			return rj.ObjV(a)
		}
		m := rj.NewObject()
		m.Class = class
		for _, k := range o.Keys() {
			ev, _ := o.Get(k)
			m.Put(rj.K(k), fromOtto(ev, depth+1))
		}
		return rj.ObjV(m)
	}
	return rj.ObjV(&rj.Obj{Class: "?", Props: map[rj.S16]*rj.Prop{}})
}

// textValue hands a text to otto: as an ordinary Go string when that is
// lossless, as UTF-16 units when it contains lone surrogates.
func textValue(u []uint16) otto.Value {
	if hasLoneSurrogate(u) {
		v, _ := otto.ToValue(u)
		return v
	}
	v, _ := otto.ToValue(string(utf16.Decode(u)))
	return v
}

func hasLoneSurrogate(u []uint16) bool {
	for i := 0; i < len(u); i++ {
		c := u[i]
		switch {
		case c >= 0xD800 && c <= 0xDBFF:
			if i+1 < len(u) && u[i+1] >= 0xDC00 && u[i+1] <= 0xDFFF {
				i++
				continue
			}
			return true
		case c >= 0xDC00 && c <= 0xDFFF:
			return true
		}
	}
	return false
}

// outcome of a call on the implementation
type outcome struct {
	thrown string // error class, or "panic: ..." when a Go panic escaped
	value  otto.Value
}

func (d *drv) call(fn otto.Value, args ...interface{}) outcome {
	d.log = d.log[:0]
	d.fired = false
	d.nesting = false
	res := ox.Guard(func() (otto.Value, error) { return fn.Call(otto.UndefinedValue(), args...) })
	switch {
	case res.Panicked:
		return outcome{thrown: fmt.Sprint("panic: ", res.PanicVal)}
	case res.Err != nil:
		return outcome{thrown: ox.ErrClass(res.Err)}
	}
	return outcome{value: res.Value}
}

// eval evaluates construction code (cached per source when cache=true).
func (d *drv) eval(src string, cache bool) (otto.Value, error) {
	if cache {
		if v, ok := d.cache[src]; ok {
			return v, nil
		}
	}
	res := ox.Run(d.vm, src)
	if res.Panicked {
		return otto.Value{}, fmt.Errorf("panic: %v", res.PanicVal)
	}
	if res.Err != nil {
		return otto.Value{}, res.Err
	}
	if cache {
		d.cache[src] = res.Value
	}
	return res.Value, nil
}

func joinLog(l []string, sorted bool) string {
	c := append([]string{}, l...)
	if sorted {
		sortStrings(c)
	}
	return strings.Join(c, " ; ")
}

func sortStrings(a []string) {
	for i := 1; i < len(a); i++ {
		for j := i; j > 0 && a[j] < a[j-1]; j-- {
			a[j], a[j-1] = a[j-1], a[j]
		}
	}
}

// ---------------------------------------------------------------------------
// argument families

type argSpec struct {
	name  string
	js    string                      // construction code ("" = argument absent)
	model func(h *hostModel) rj.Value // model value
}

func strWrap(s string) rj.Value  { return rj.ObjV(rj.NewWrapper(rj.StrOf(s))) }
func numWrap(f float64) rj.Value { return rj.ObjV(rj.NewWrapper(rj.Num(f))) }

var revivers = []argSpec{
	{"none", "", func(h *hostModel) rj.Value { return rj.Undef }},
	{"identity", "__rv_identity", func(h *hostModel) rj.Value { return rj.ObjV(h.fn("reviver", "identity")) }},
	{"dropA", "__rv_dropA", func(h *hostModel) rj.Value { return rj.ObjV(h.fn("reviver", "dropA")) }},
	{"replNum", "__rv_replNum", func(h *hostModel) rj.Value { return rj.ObjV(h.fn("reviver", "replNum")) }},
	{"undefRoot", "__rv_undefRoot", func(h *hostModel) rj.Value { return rj.ObjV(h.fn("reviver", "undefRoot")) }},
	{"dropAll", "__rv_dropAll", func(h *hostModel) rj.Value { return rj.ObjV(h.fn("reviver", "dropAll")) }},
	{"dropNum", "__rv_dropNum", func(h *hostModel) rj.Value { return rj.ObjV(h.fn("reviver", "dropNum")) }},
	{"noncallable-1", "(1)", func(h *hostModel) rj.Value { return rj.Num(1) }},
	{"noncallable-str", `("x")`, func(h *hostModel) rj.Value { return rj.StrOf("x") }},
	{"noncallable-obj", "({})", func(h *hostModel) rj.Value { return rj.ObjV(rj.NewObject()) }},
	{"noncallable-null", "(null)", func(h *hostModel) rj.Value { return rj.Nul }},
}

var replacers = []argSpec{
	{"none", "", func(h *hostModel) rj.Value { return rj.Undef }},
	{"identity", "__rp_identity", func(h *hostModel) rj.Value { return rj.ObjV(h.fn("replacer", "identity")) }},
	{"dropA", "__rp_dropA", func(h *hostModel) rj.Value { return rj.ObjV(h.fn("replacer", "dropA")) }},
	{"undefRoot", "__rp_undefRoot", func(h *hostModel) rj.Value { return rj.ObjV(h.fn("replacer", "undefRoot")) }},
	{"replNum", "__rp_replNum", func(h *hostModel) rj.Value { return rj.ObjV(h.fn("replacer", "replNum")) }},
	{"list-a", `["a"]`, func(h *hostModel) rj.Value { return rj.ObjV(rj.NewArray(rj.StrOf("a"))) }},
	{"list-1aa{}", `[1,"a","a",{}]`, func(h *hostModel) rj.Value {
		return rj.ObjV(rj.NewArray(rj.Num(1), rj.StrOf("a"), rj.StrOf("a"), rj.ObjV(rj.NewObject())))
	}},
	{"list-wrapped", `[new String("b"),new Number(0),new String("a")]`, func(h *hostModel) rj.Value {
		return rj.ObjV(rj.NewArray(strWrap("b"), numWrap(0), strWrap("a")))
	}},
	{"list-{}a", `[{},"a"]`, func(h *hostModel) rj.Value {
		return rj.ObjV(rj.NewArray(rj.ObjV(rj.NewObject()), rj.StrOf("a")))
	}},
	{"list-null-b-true-a", `[null,"b",true,"a"]`, func(h *hostModel) rj.Value {
		return rj.ObjV(rj.NewArray(rj.Nul, rj.StrOf("b"), rj.Boolean(true), rj.StrOf("a")))
	}},
	{"list-empty", `[]`, func(h *hostModel) rj.Value { return rj.ObjV(rj.NewArray()) }},
	{"noncallable-obj", `({"a":1})`, func(h *hostModel) rj.Value {
		o := rj.NewObject()
		o.Put(rj.K("a"), rj.Num(1))
		return rj.ObjV(o)
	}},
}

func sixE() []uint16 { return []uint16{0xE9, 0xE9, 0xE9, 0xE9, 0xE9, 0xE9} }

var spaces = []argSpec{
	{"none", "", func(h *hostModel) rj.Value { return rj.Undef }},
	{"0", "(0)", func(h *hostModel) rj.Value { return rj.Num(0) }},
	{"2", "(2)", func(h *hostModel) rj.Value { return rj.Num(2) }},
	{"10", "(10)", func(h *hostModel) rj.Value { return rj.Num(10) }},
	{"11", "(11)", func(h *hostModel) rj.Value { return rj.Num(11) }},
	{"-1", "(-1)", func(h *hostModel) rj.Value { return rj.Num(-1) }},
	{"2.9", "(2.9)", func(h *hostModel) rj.Value { return rj.Num(2.9) }},
	{"empty", `("")`, func(h *hostModel) rj.Value { return rj.StrOf("") }},
	{"dashes", `("--")`, func(h *hostModel) rj.Value { return rj.StrOf("--") }},
	{"12chars", `("0123456789ab")`, func(h *hostModel) rj.Value { return rj.StrOf("0123456789ab") }},
	{"Number3", `(new Number(3))`, func(h *hostModel) rj.Value { return numWrap(3) }},
	{"Stringx", `(new String("x"))`, func(h *hostModel) rj.Value { return strWrap("x") }},
	{"true", `(true)`, func(h *hostModel) rj.Value { return rj.Boolean(true) }},
	{"tab", `("\t")`, func(h *hostModel) rj.Value { return rj.StrOf("\t") }},
	{"Infinity", `(Infinity)`, func(h *hostModel) rj.Value { return rj.Num(inf) }},
	{"NaN", `(NaN)`, func(h *hostModel) rj.Value { return rj.Num(nan) }},
	{"Number11", `(new Number(11))`, func(h *hostModel) rj.Value { return numWrap(11) }},
	{"6xE9", `(String.fromCharCode(233,233,233,233,233,233))`, func(h *hostModel) rj.Value { return rj.Str(sixE()) }},
	{"9+astral", `("123456789"+String.fromCharCode(55357,56832)+"x")`, func(h *hostModel) rj.Value {
		return rj.Str(append(rj.U("123456789"), 0xD83D, 0xDE00, 'x'))
	}},
	{"null", `(null)`, func(h *hostModel) rj.Value { return rj.Nul }},
	{"object", `({})`, func(h *hostModel) rj.Value { return rj.ObjV(rj.NewObject()) }},
}

func specByName(l []argSpec, name string) *argSpec {
	for i := range l {
		if l[i].name == name {
			return &l[i]
		}
	}
	return nil
}

// primitiveOf reads the [[PrimitiveValue]] of a Number/String/Boolean object from
// otto's internal representation (object.value) with read-only reflection.
func primitiveOf(v otto.Value) (p rj.Value, ok bool) {
	defer func() {
		if recover() != nil {
			ok = false
		}
	}()
	obj := reflect.ValueOf(v).FieldByName("value").Elem() // *object
	inner := obj.Elem().FieldByName("value").Elem()       // what object.value holds
	switch inner.Kind() {
	case reflect.String: // stringASCII
		return rj.StrOf(inner.String()), true
	case reflect.Ptr: // *stringWide
		return rj.StrOf(inner.Elem().FieldByName("string").String()), true
	case reflect.Struct: // Value
		pv := inner.FieldByName("value").Elem()
		switch pv.Kind() {
		case reflect.Bool:
			return rj.Boolean(pv.Bool()), true
		case reflect.Float32, reflect.Float64:
			return rj.Num(pv.Float()), true
		case reflect.Int, reflect.Int8, reflect.Int16, reflect.Int32, reflect.Int64:
			return rj.Num(float64(pv.Int())), true
		case reflect.Uint, reflect.Uint8, reflect.Uint16, reflect.Uint32, reflect.Uint64:
			return rj.Num(float64(pv.Uint())), true
		case reflect.String:
			return rj.StrOf(pv.String()), true
		}
	}
	return rj.Undef, false
}

func modelGet(holder, key rj.Value) rj.Value {
	if holder.Kind != rj.Object || key.Kind != rj.String {
		return rj.Undef
	}
	return holder.O.Get(rj.Key(key.S))
}

// observing is set while the harness itself reads a property of an object of
// the implementation: logging accessors installed by an environment stay silent.
var observing bool

func ottoGet(holder, key otto.Value, mode string) rj.Value {
	if mode != "reviver" || !holder.IsObject() || !key.IsString() {
		return rj.Undef
	}
	k, _ := key.ToString()
	observing = true
	v, _ := holder.Object().Get(k)
	observing = false
	return fromOtto(v, 0)
}
