package c11

import (
	"context"
	"encoding/json"
	"fmt"
	"os"
	"os/exec"
	"path/filepath"
	"strconv"
	"strings"
	"time"

	"verif/mc/engine"
	rj "verif/mc/ref/json"
)

// The revive-cyclic family: the reviver replaces not-yet-visited siblings by a
// cyclic object (c.self = c). Walk then recurses without end; an implementation
// has to stop with an exception — RangeError, with a stack-depth limit
// configured — and must not take the process down. On a defective
// implementation the unbounded native recursion is a fatal Go stack overflow
// that cannot be recovered, so every case is executed in a CHILD process (this
// binary, `worker C11 --family revive-cyclic-child --key <case>`); the parent
// turns a dead child into an ordinary mismatch.

const cyclicStackLimit = 400

var reviveCyclicTexts = []string{
	`[1,2,3]`, `{"a":1,"b":2}`, `{"a":1,"b":2,"c":3}`, `[[1],2]`, `[0,{}]`, `[[1],[2]]`, `{"p":[1,2],"q":[3,4]}`, `[1]`, `{"a":1}`,
}

func cyclicCases() []string {
	var out []string
	for ti := range reviveCyclicTexts {
		for _, m := range cyclicMutators() {
			out = append(out, fmt.Sprintf("%d|%s", ti, m.name()))
		}
	}
	return out
}

func cyclicCase(key string) ([]uint16, mutator, bool) {
	parts := strings.SplitN(key, "|", 2)
	if len(parts) != 2 {
		return nil, mutator{}, false
	}
	ti, err := strconv.Atoi(parts[0])
	if err != nil || ti < 0 || ti >= len(reviveCyclicTexts) {
		return nil, mutator{}, false
	}
	for _, m := range cyclicMutators() {
		if m.name() == parts[1] {
			return rj.U(reviveCyclicTexts[ti]), m, true
		}
	}
	return nil, mutator{}, false
}

// cyclicModel is the bounded-depth transcription of 15.12.2 for one member order.
func cyclicModel(v rj.Value, m mutator) (s string) {
	h := &hostModel{}
	defer func() {
		if p := recover(); p != nil {
			if t, ok := p.(*rj.Throw); ok {
				s = "throw:" + t.Class
				return
			}
			panic(p)
		}
	}()
	root := rj.NewObject()
	root.Put(rj.K(""), v)
	res := rj.Walk(rj.ObjV(h.mutFn("reviver", m)), root, rj.K(""), false)
	return renderParse(res, nil, nil, false)
}

// runReviveCyclicChild executes exactly one case (the replay key) in this process.
func runReviveCyclicChild(r *engine.Run) {
	if r.ReplayKey == "" {
		return
	}
	text, m, ok := cyclicCase(r.ReplayKey)
	if !ok {
		return
	}
	d := newDrv()
	d.vm.SetStackDepthLimit(cyclicStackLimit)
	fn, err := d.eval("__mrv_"+m.name(), true)
	if err != nil {
		r.HarnessError(err.Error())
		return
	}
	out := d.call(d.parse, textValue(text), fn)
	obs := ""
	if out.thrown != "" {
		obs = "throw:" + out.thrown
	} else {
		obs = renderParse(fromOtto(out.value, 0), nil, nil, false)
	}
	exp := ""
	agree := forEachMemberOrder(text, func(v rj.Value) bool {
		s := cyclicModel(v, m)
		if exp == "" {
			exp = s
		}
		return s == obs
	})
	r.Eval(true)
	r.Outcome(obs)
	if !agree {
		r.Mismatch(engine.Mismatch{Key: r.ReplayKey, Input: cyclicInput(text, m), Expected: exp + "   (or the same with another member order)", Observed: obs,
			Aux: map[string]string{"op": "parse-cyclic-reviver"}})
	}
}

func cyclicInput(text []uint16, m mutator) string {
	return fmt.Sprintf("[stack depth limit %d] JSON.parse(%s, __mrv_%s)", cyclicStackLimit, quoteForReport(text), m.name())
}

func runReviveCyclic(r *engine.Run) {
	expected := func(key string) string {
		text, m, _ := cyclicCase(key)
		exp := ""
		forEachMemberOrder(text, func(v rj.Value) bool {
			exp = cyclicModel(v, m)
			return true
		})
		return exp
	}
	runInChildren(r, "revive-cyclic-child", "parse-cyclic-reviver", cyclicCases(),
		func(key string) string { text, m, _ := cyclicCase(key); return cyclicInput(text, m) }, expected)
	r.Bound("cases", strconv.Itoa(len(cyclicCases()))+" (texts x {first, firstContainer} cycSibs), each in a child process with stack depth limit "+strconv.Itoa(cyclicStackLimit))
}

// ---------------------------------------------------------------------------
// family: stringify-growing — the twin of revive-cyclic for JSON.stringify: a
// replacer function or a toJSON that returns a fresh, deeper value at every
// visit. JO/JA then nest without end; with a stack depth limit configured the
// implementation has to stop with a RangeError and must not take the process
// down. Child process per case for the same reason as above.

type growCase struct {
	name string
	n    func() *node
	rep  string // replacer behaviour ("" = none)
	sp   string
}

func growCases() []growCase {
	num := func(f float64) *node { return lf(rj.Num(f)) }
	var out []growCase
	for _, sp := range []string{"none", "2"} {
		for _, v := range []struct {
			name string
			n    func() *node
		}{
			{"undefined", func() *node { return lf(rj.Undef) }}, {"number", func() *node { return num(1) }},
			{"array", func() *node { return arr(num(1), num(2)) }}, {"object", func() *node { return obj("a", num(1)) }},
			{"nested", func() *node { return obj("a", arr(obj("b", num(1)))) }},
		} {
			out = append(out, growCase{"replacer-grow:" + v.name + "|" + sp, v.n, "grow", sp})
			out = append(out, growCase{"replacer-toObj:" + v.name + "|" + sp, v.n, "toObj", sp})
		}
		out = append(out, growCase{"toJSON-grow@root|" + sp, func() *node { return obj("x", num(1)).tj("grow") }, "", sp})
		out = append(out, growCase{"toJSON-grow@member|" + sp, func() *node { return obj("a", num(0), "m", obj().tj("grow"), "z", num(9)) }, "", sp})
		out = append(out, growCase{"toJSON-grow@element|" + sp, func() *node { return arr(num(0), arr().tj("grow")) }, "", sp})
		out = append(out, growCase{"toJSON-grow@wrapper|" + sp, func() *node { return arr(wrap(rj.Num(1)).tj("grow")) }, "", sp})
		out = append(out, growCase{"toJSON-grow+identity-replacer|" + sp, func() *node { return obj("m", obj().tj("grow")) }, "identity", sp})
	}
	return out
}

func growCaseByName(name string) (growCase, bool) {
	for _, c := range growCases() {
		if c.name == name {
			return c, true
		}
	}
	return growCase{}, false
}

func (c growCase) replacer() *argSpec {
	if c.rep == "" {
		return &argSpec{name: "none", model: func(h *hostModel) rj.Value { return rj.Undef }}
	}
	rep := c.rep
	return &argSpec{name: rep, js: "__rp_" + rep, model: func(h *hostModel) rj.Value { return rj.ObjV(h.fn("replacer", rep)) }}
}

func (c growCase) model() string {
	h := &hostModel{}
	res := rj.Stringify(c.n().toModel(h), c.replacer().model(h), specByName(spaces, c.sp).model(h))
	s, _ := renderStringify(res, nil)
	return s
}

func (c growCase) input() string {
	return fmt.Sprintf("[stack depth limit %d] JSON.stringify(%s%s)", cyclicStackLimit, c.n().toJS(), argSrc(c.replacer(), specByName(spaces, c.sp)))
}

func runStringifyGrowingChild(r *engine.Run) {
	if r.ReplayKey == "" {
		return
	}
	c, ok := growCaseByName(r.ReplayKey)
	if !ok {
		return
	}
	d := newDrv()
	d.vm.SetStackDepthLimit(cyclicStackLimit)
	n := c.n()
	_, val, ok := build(r, d, n)
	if !ok {
		return
	}
	sc := &sCase{val: val, rep: c.replacer(), sp: specByName(spaces, c.sp)}
	args, err := stringifyArgs(d, sc)
	if err != nil {
		r.HarnessError(err.Error())
		return
	}
	out := d.call(d.stringify, args...)
	var ores rj.StringifyResult
	h := &hostModel{}
	ores.Gap = rj.Stringify(rj.Nul, rj.Undef, sc.sp.model(h)).Gap
	switch {
	case out.thrown != "":
		ores.Err = &rj.Throw{Class: out.thrown}
	case out.value.IsUndefined():
		ores.Undefined = true
	case out.value.IsString():
		ores.Text = fromOtto(out.value, 0).S
	default:
		ores.Err = &rj.Throw{Class: "returned a non-string"}
	}
	obs, _ := renderStringify(ores, nil)
	exp := c.model()
	r.Eval(true)
	r.Outcome(obs)
	if exp != obs {
		r.Mismatch(engine.Mismatch{Key: r.ReplayKey, Input: c.input(), Expected: exp, Observed: obs, Aux: map[string]string{"op": "stringify-growing"}})
	}
}

func runStringifyGrowing(r *engine.Run) {
	var keys []string
	for _, c := range growCases() {
		keys = append(keys, c.name)
	}
	runInChildren(r, "stringify-growing-child", "stringify-growing", keys,
		func(key string) string { c, _ := growCaseByName(key); return c.input() },
		func(key string) string { c, _ := growCaseByName(key); return c.model() })
	r.Bound("cases", strconv.Itoa(len(keys))+" (replacer returning a fresh array / object at every call, toJSON returning a fresh object carrying the same toJSON; x space none / 2), each in a child process with stack depth limit "+strconv.Itoa(cyclicStackLimit))
}

// childTimeout bounds one child: the cases take milliseconds; a child that is
// still recursing after this long is as dead as one that overflowed its stack.
const childTimeout = 30 * time.Second

// runInChildren executes every case key in a child process of this binary
// (worker C11 --family childFamily --key key) and files what the child reports;
// a child that dies becomes a mismatch "process died".
func runInChildren(r *engine.Run, childFamily, op string, keys []string, input, expected func(key string) string) {
	self, err := os.Executable()
	if err != nil {
		r.HarnessError(err.Error())
		return
	}
	tmp, err := os.MkdirTemp(filepath.Join(engine.VerifDir(), ".work"), "c11-child-")
	if err != nil {
		if tmp, err = os.MkdirTemp("", "c11-child-"); err != nil {
			r.HarnessError(err.Error())
			return
		}
	}
	defer os.RemoveAll(tmp)
	devnull, _ := os.Open(os.DevNull)
	defer devnull.Close()
	for i, key := range keys {
		if !r.MineKey(key) {
			continue
		}
		outFile := filepath.Join(tmp, fmt.Sprintf("case-%d.json", i))
		ctx, cancel := context.WithTimeout(context.Background(), childTimeout)
		cmd := exec.CommandContext(ctx, self, "worker", "C11", "--tier", r.Tier, "--family", childFamily, "--key", key, "--out", outFile)
		cmd.Env = append(os.Environ(), "GOTRACEBACK=none")
		cmd.ExtraFiles = []*os.File{devnull} // fd 3: the announce pipe of a worker
		var stderr strings.Builder
		cmd.Stderr = &stderr
		r.Begin(key)
		runErr := cmd.Run()
		timedOut := ctx.Err() != nil
		cancel()
		r.End()
		r.Eval(true)
		if runErr != nil {
			first := strings.TrimSpace(stderr.String())
			if timedOut {
				first = "killed after " + childTimeout.String() + " without a result (unbounded recursion still running)"
			}
			if j := strings.IndexByte(first, '\n'); j >= 0 {
				first = first[:j]
			}
			if len(first) > 200 {
				first = first[:200]
			}
			r.Outcome("process died")
			file(r, engine.Mismatch{Key: key, Input: input(key), Expected: expected(key), Observed: "process died (" + runErr.Error() + "): " + first,
				Aux: map[string]string{"op": op, "stderr": first}})
			continue
		}
		b, err := os.ReadFile(outFile)
		if err != nil {
			r.HarnessError("child wrote no result: " + err.Error())
			continue
		}
		var res engine.WorkerResult
		if err := json.Unmarshal(b, &res); err != nil {
			r.HarnessError("child result unreadable: " + err.Error())
			continue
		}
		for _, h := range res.HarnessErr {
			r.HarnessError("child: " + h)
		}
		if len(res.Violations) == 0 {
			r.Outcome("agrees: " + expected(key))
			if r.WantSample() {
				r.Sample(input(key) + " => " + expected(key) + " (agrees with the bounded-depth model)")
			}
		}
		for _, v := range res.Violations {
			r.Outcome(v.Observed)
			file(r, engine.Mismatch{Key: key, Input: v.Input, Expected: v.Expected, Observed: v.Observed, Aux: v.Aux})
		}
	}
}
