package c11

import (
	"encoding/json"
	"fmt"
	"os"
	"os/exec"
	"path/filepath"
	"strconv"
	"strings"

	"verif/mc/engine"
	rj "verif/mc/ref/json"
)

// The revive-cyclic family: the reviver replaces not-yet-visited siblings by a
// cyclic object (c.self = c). Walk then recurses without end; an implementation
// has to stop with an exception — RangeError, with a stack-depth limit
// configured — and must not take the process down. On a defective
// implementation the unbounded native recursion is a fatal Go stack overflow
// that cannot be recovered, so every case is executed in a CHILD process (this
// binary, `worker C11 --family revive-cyclic-child --key <case>`); the parent
// turns a dead child into an ordinary mismatch.

const cyclicStackLimit = 400

var reviveCyclicTexts = []string{
	`[1,2,3]`, `{"a":1,"b":2}`, `{"a":1,"b":2,"c":3}`, `[[1],2]`, `[0,{}]`, `[[1],[2]]`, `{"p":[1,2],"q":[3,4]}`, `[1]`, `{"a":1}`,
}

func cyclicCases() []string {
	var out []string
	for ti := range reviveCyclicTexts {
		for _, m := range cyclicMutators() {
			out = append(out, fmt.Sprintf("%d|%s", ti, m.name()))
		}
	}
	return out
}

func cyclicCase(key string) ([]uint16, mutator, bool) {
	parts := strings.SplitN(key, "|", 2)
	if len(parts) != 2 {
		return nil, mutator{}, false
	}
	ti, err := strconv.Atoi(parts[0])
	if err != nil || ti < 0 || ti >= len(reviveCyclicTexts) {
		return nil, mutator{}, false
	}
	for _, m := range cyclicMutators() {
		if m.name() == parts[1] {
			return rj.U(reviveCyclicTexts[ti]), m, true
		}
	}
	return nil, mutator{}, false
}

// cyclicModel is the bounded-depth transcription of 15.12.2 for one member order.
func cyclicModel(v rj.Value, m mutator) (s string) {
	h := &hostModel{}
	defer func() {
		if p := recover(); p != nil {
			if t, ok := p.(*rj.Throw); ok {
				s = "throw:" + t.Class
				return
			}
			panic(p)
		}
	}()
	root := rj.NewObject()
	root.Put(rj.K(""), v)
	res := rj.Walk(rj.ObjV(h.mutFn("reviver", m)), root, rj.K(""), false)
	return renderParse(res, nil, nil, false)
}

// runReviveCyclicChild executes exactly one case (the replay key) in this process.
func runReviveCyclicChild(r *engine.Run) {
	if r.ReplayKey == "" {
		return
	}
	text, m, ok := cyclicCase(r.ReplayKey)
	if !ok {
		return
	}
	d := newDrv()
	d.vm.SetStackDepthLimit(cyclicStackLimit)
	fn, err := d.eval("__mrv_"+m.name(), true)
	if err != nil {
		r.HarnessError(err.Error())
		return
	}
	out := d.call(d.parse, textValue(text), fn)
	obs := ""
	if out.thrown != "" {
		obs = "throw:" + out.thrown
	} else {
		obs = renderParse(fromOtto(out.value, 0), nil, nil, false)
	}
	exp := ""
	agree := forEachMemberOrder(text, func(v rj.Value) bool {
		s := cyclicModel(v, m)
		if exp == "" {
			exp = s
		}
		return s == obs
	})
	r.Eval(true)
	r.Outcome(obs)
	if !agree {
		r.Mismatch(engine.Mismatch{Key: r.ReplayKey, Input: cyclicInput(text, m), Expected: exp + "   (or the same with another member order)", Observed: obs,
			Aux: map[string]string{"op": "parse-cyclic-reviver"}})
	}
}

func cyclicInput(text []uint16, m mutator) string {
	return fmt.Sprintf("[stack depth limit %d] JSON.parse(%s, __mrv_%s)", cyclicStackLimit, quoteForReport(text), m.name())
}

func runReviveCyclic(r *engine.Run) {
	self, err := os.Executable()
	if err != nil {
		r.HarnessError(err.Error())
		return
	}
	tmp, err := os.MkdirTemp(filepath.Join(engine.VerifDir(), ".work"), "c11-cyclic-")
	if err != nil {
		tmp, err = os.MkdirTemp("", "c11-cyclic-")
		if err != nil {
			r.HarnessError(err.Error())
			return
		}
	}
	defer os.RemoveAll(tmp)
	devnull, _ := os.Open(os.DevNull)
	defer devnull.Close()
	for i, key := range cyclicCases() {
		if !r.MineKey(key) {
			continue
		}
		text, m, _ := cyclicCase(key)
		outFile := filepath.Join(tmp, fmt.Sprintf("case-%d.json", i))
		cmd := exec.Command(self, "worker", "C11", "--tier", r.Tier, "--family", "revive-cyclic-child", "--key", key, "--out", outFile)
		cmd.Env = append(os.Environ(), "GOTRACEBACK=none")
		cmd.ExtraFiles = []*os.File{devnull} // fd 3: the announce pipe of a worker
		var stderr strings.Builder
		cmd.Stderr = &stderr
		r.Begin(key)
		runErr := cmd.Run()
		r.End()
		r.Eval(true)
		input := cyclicInput(text, m)
		if runErr != nil {
			first := strings.TrimSpace(stderr.String())
			if j := strings.IndexByte(first, '\n'); j >= 0 {
				first = first[:j]
			}
			if len(first) > 200 {
				first = first[:200]
			}
			exp := ""
			forEachMemberOrder(text, func(v rj.Value) bool {
				exp = cyclicModel(v, m)
				return true
			})
			obs := "process died (" + runErr.Error() + "): " + first
			r.Outcome("process died")
			file(r, engine.Mismatch{Key: key, Input: input, Expected: exp, Observed: obs,
				Aux: map[string]string{"op": "parse-cyclic-reviver", "stderr": first}})
			continue
		}
		b, err := os.ReadFile(outFile)
		if err != nil {
			r.HarnessError("child wrote no result: " + err.Error())
			continue
		}
		var res engine.WorkerResult
		if err := json.Unmarshal(b, &res); err != nil {
			r.HarnessError("child result unreadable: " + err.Error())
			continue
		}
		for _, h := range res.HarnessErr {
			r.HarnessError("child: " + h)
		}
		if len(res.Violations) == 0 {
			r.Outcome("agrees")
			if r.WantSample() {
				r.Sample(input + " => agrees with the bounded-depth model")
			}
		}
		for _, v := range res.Violations {
			r.Outcome(v.Observed)
			file(r, engine.Mismatch{Key: key, Input: v.Input, Expected: v.Expected, Observed: v.Observed, Aux: v.Aux})
		}
	}
	r.Bound("cases", strconv.Itoa(len(cyclicCases()))+" (texts x {first, firstContainer} cycSibs), each in a child process with stack depth limit "+strconv.Itoa(cyclicStackLimit))
}
