package c11

import (
	"fmt"
	"strings"

	"verif/mc/engine"
	"verif/mc/ox"
	rj "verif/mc/ref/json"
)

// The args family: JSON.parse / JSON.stringify reached from a script (not
// through Value.Call), with first arguments that are not strings (15.12.2 step
// 1: JText = ToString(text)), missing arguments, and a few script-level
// replacer / reviver / toJSON functions. Expected values are model results for
// the text ToString yields (written out here: ToString of these operands is
// fixed by 9.8 / 15.4.4.2).

type argCase struct {
	src   string // a script whose completion value is observed
	text  string // parse cases: the text ToString(text) yields; "" with stringify
	str   bool   // stringify case: want is the expected output text ("\x00" = undefined, "\x01true" = the boolean true)
	want  string
	canon string // when set: the expected canonical value, written out
}

var argCases = []argCase{
	{src: `JSON.parse()`, text: "undefined"},
	{src: `JSON.parse(undefined)`, text: "undefined"},
	{src: `JSON.parse(null)`, text: "null"},
	{src: `JSON.parse(true)`, text: "true"},
	{src: `JSON.parse(12)`, text: "12"},
	{src: `JSON.parse(-0)`, text: "0"},
	{src: `JSON.parse(1.5)`, text: "1.5"},
	{src: `JSON.parse(1e21)`, text: "1e+21"},
	{src: `JSON.parse(NaN)`, text: "NaN"},
	{src: `JSON.parse([7])`, text: "7"},
	{src: `JSON.parse([1,2])`, text: "1,2"},
	{src: `JSON.parse([])`, text: ""},
	{src: `JSON.parse({})`, text: "[object Object]"},
	{src: `JSON.parse(new String("[1, 2]"))`, text: "[1, 2]"},
	{src: `JSON.parse({toString: function(){ return '{"a":[]}' }})`, text: `{"a":[]}`},
	{src: `JSON.parse(' [1 , {"a" : "\\u0041\\n"} ] ')`, text: ` [1 , {"a" : "A\n"} ] `},
	{src: `JSON.parse('{"a":1,"b":[2,3]}', function(k, v){ return typeof v === "number" ? v + 1 : v })`, text: `{"a":2,"b":[3,4]}`},
	{src: `JSON.parse('[1,2,3]', function(k, v){ return k === "1" ? undefined : v })`, canon: "[d:3ff0000000000000(1),-,d:4008000000000000(3)]"},
	{src: `JSON.parse('{"a":1}', function(k, v){ return this === undefined ? 0 : v })`, text: `{"a":1}`},
	{src: `JSON.stringify()`, str: true, want: "\x00"},
	{src: `JSON.stringify(undefined)`, str: true, want: "\x00"},
	{src: `JSON.stringify(function(){})`, str: true, want: "\x00"},
	{src: `JSON.stringify(null)`, str: true, want: "null"},
	{src: `JSON.stringify("a\"\\\n\u0001")`, str: true, want: `"a\"\\\n\u0001"`},
	{src: `JSON.stringify([undefined, function(){}, NaN, -Infinity, -0, new Number(2), new String("s"), new Boolean(true)])`, str: true, want: `[null,null,null,null,0,2,"s",true]`},
	{src: `JSON.stringify({a: undefined, b: function(){}, c: null})`, str: true, want: `{"c":null}`},
	{src: `JSON.stringify({a: 1, b: [1, {c: 2}]}, null, 1)`, str: true, want: "{\n \"a\": 1,\n \"b\": [\n  1,\n  {\n   \"c\": 2\n  }\n ]\n}"},
	{src: `JSON.stringify({a: 1, b: 2}, function(k, v){ return k === "a" ? undefined : v })`, str: true, want: `{"b":2}`},
	{src: `JSON.stringify({a: {toJSON: function(k){ return "key " + k + " " + (this.x) }, x: 5}})`, str: true, want: `{"a":"key a 5"}`},
	{src: `JSON.stringify({b: 1, a: {b: 2, c: 3}}, ["b"])`, str: true, want: `{"b":1}`},
	{src: `JSON.stringify([[]], null, "          xyz")`, str: true, want: "[\n          []\n]"},
	{src: `JSON.stringify(new Date(0))`, str: true, want: `"1970-01-01T00:00:00.000Z"`},
	{src: `JSON.stringify({a: 1}, function(k, v){ return this[k] === v && typeof k === "string" ? v : "bad" })`, str: true, want: `{"a":1}`},
	{src: `(function(){ var a = []; a[0] = a; try { JSON.stringify(a) } catch (e) { return e instanceof TypeError } })()`, str: true, want: "\x01true"},
	{src: `(function(){ try { JSON.parse("{") } catch (e) { return e instanceof SyntaxError } })()`, str: true, want: "\x01true"},
}

func runArgs(r *engine.Run) {
	d := newDrv()
	for i, c := range argCases {
		key := fmt.Sprintf("%d", i)
		if !r.MineKey(key) {
			continue
		}
		exp := ""
		switch {
		case c.canon != "":
			exp = "value:" + c.canon
		case !c.str:
			v, err := rj.Parse(rj.U(c.text))
			if err != nil {
				exp = "throw:SyntaxError"
			} else {
				exp = "value:" + rj.Canon(v, true)
			}
		case c.want == "\x00":
			exp = "value:u"
		case strings.HasPrefix(c.want, "\x01"):
			exp = "value:" + map[string]string{"true": "t", "false": "f"}[c.want[1:]]
		default:
			exp = "value:" + rj.Canon(rj.StrOf(c.want), true)
		}
		r.Begin(key)
		res := ox.Run(d.vm, c.src)
		r.End()
		obs := ""
		switch {
		case res.Panicked:
			obs = fmt.Sprint("throw:panic: ", res.PanicVal)
			d = newDrv()
		case res.Err != nil:
			obs = "throw:" + ox.ErrClass(res.Err)
		default:
			obs = "value:" + rj.Canon(fromOtto(res.Value, 0), true)
		}
		r.Eval(true)
		r.Outcome(obs)
		if r.WantSample() {
			r.Sample(c.src + " => " + obs)
		}
		if exp != obs {
			file(r, engine.Mismatch{Key: key, Input: c.src, Expected: exp, Observed: obs, Aux: map[string]string{"op": "script"}})
		}
	}
	r.Bound("script_cases", fmt.Sprint(len(argCases)))
}
