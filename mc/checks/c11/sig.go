package c11

import (
	"math"
	"strconv"
	"strings"
	"unicode/utf16"

	"verif/mc/engine"
	rj "verif/mc/ref/json"
)

// Known deviations of otto from 15.12 are described as ALTERNATIVE MODELS: small
// modifications of the reference algorithm. When a case disagrees with the
// reference, the check searches for the smallest set of alternative models that
// reproduces the observation exactly and records it in Aux["explained_by"]
// (names joined by "+"). A known-finding signature accepts a mismatch only if
// its own model is in that set and every other model of the set belongs to a
// finding that is still open; anything the alternative models do not reproduce
// exactly stays a VIOLATION.
var deviationSignature = map[string]string{
	"fffd":     "c11-lone-surrogate-fffd",
	"overflow": "c11-number-overflow-syntaxerror",
	"alias":    "c11-reviver-walk-aliasing",
	"proplist": "c11-property-list-index",
	"gapbytes": "c11-gap-truncated-in-bytes",
	"livekeys": "c11-stringify-live-keys",
	"put":      "c11-members-created-with-put",
}

func init() {
	for name, sig := range deviationSignature {
		name := name
		engine.RegisterSignature(sig, func(m *engine.Mismatch) bool { return explainedBy(m, name) })
	}
	engine.RegisterSignature("c11-reviver-cyclic-fatal", func(m *engine.Mismatch) bool {
		// the child process executing the case died of Go's unrecoverable stack overflow
		return m.Aux["op"] == "parse-cyclic-reviver" && strings.HasPrefix(m.Observed, "process died") &&
			(strings.Contains(m.Aux["stderr"], "stack overflow") || strings.Contains(m.Aux["stderr"], "stack exceeds")) &&
			m.Expected == "throw:RangeError"
	})
	// order family
	engine.RegisterSignature("c11-parse-map-order", func(m *engine.Mismatch) bool {
		// every one of the repeated parses produced the right members and the right
		// reviver calls; only their order was not the text order every time
		return m.Aux["op"] == "parse-order" && m.Aux["same_members"] == m.Aux["runs"] && m.Aux["same_calls"] == m.Aux["runs"] &&
			strings.HasPrefix(m.Observed, "text order NOT preserved in at least one of")
	})
	engine.RegisterSignature("c11-stringify-sorted-members", func(m *engine.Mismatch) bool {
		// same denotation, same callback log; the members of every object are
		// emitted sorted by name instead of in enumeration / property-list order
		if m.Aux["op"] != "stringify" {
			return false
		}
		e, o, ok := splitOrder(m.Expected, m.Observed)
		return ok && e == o && m.Aux["obs_ordered"] == m.Aux["exp_sorted"] && m.Aux["exp_ordered"] != m.Aux["exp_sorted"]
	})
}

func splitOrder(exp, obs string) (string, string, bool) {
	const sep = " ; member order "
	i, j := strings.LastIndex(exp, sep), strings.LastIndex(obs, sep)
	if i < 0 || j < 0 {
		return "", "", false
	}
	return exp[:i], obs[:j], true
}

func explainedBy(m *engine.Mismatch, name string) bool {
	eb := m.Aux["explained_by"]
	if eb == "" {
		return false
	}
	parts := strings.Split(eb, "+")
	has := false
	for _, p := range parts {
		if p == name {
			has = true
		} else if !findingOpen(deviationSignature[p]) {
			return false
		}
	}
	return has
}

func findingOpen(sig string) bool {
	for _, f := range engine.KnownFor("C11") {
		if f.Signature == sig && f.Status == "open" {
			return true
		}
	}
	return false
}

// ---------------------------------------------------------------------------
// alternative model "fffd": strings are held as UTF-8, so every lone surrogate
// code unit of a string produced by JSON.parse / emitted by JSON.stringify is
// U+FFFD. Works on the escaped rendering (rj.Esc), where a backslash can only
// start a \uXXXX escape.
func fffdEsc(s string) string {
	var sb strings.Builder
	unit := func(i int) (uint16, bool) {
		if i+6 <= len(s) && s[i] == '\\' && s[i+1] == 'u' {
			v, err := strconv.ParseUint(s[i+2:i+6], 16, 16)
			if err == nil {
				return uint16(v), true
			}
		}
		return 0, false
	}
	for i := 0; i < len(s); {
		c, ok := unit(i)
		if !ok {
			sb.WriteByte(s[i])
			i++
			continue
		}
		switch {
		case c >= 0xD800 && c <= 0xDBFF:
			if d, ok := unit(i + 6); ok && d >= 0xDC00 && d <= 0xDFFF {
				sb.WriteString(s[i : i+12])
				i += 12
				continue
			}
			sb.WriteString(`\uFFFD`)
		case c >= 0xDC00 && c <= 0xDFFF:
			sb.WriteString(`\uFFFD`)
		default:
			sb.WriteString(s[i : i+6])
		}
		i += 6
	}
	return sb.String()
}

// fffdResult applies fffd to the result part only (callbacks of JSON.stringify
// see the original values).
func fffdResult(s string) string {
	const sep = " ; calls: "
	if i := strings.Index(s, sep); i >= 0 {
		return fffdEsc(s[:i]) + s[i:]
	}
	return fffdEsc(s)
}

// ---------------------------------------------------------------------------
// parse

func containsInf(v rj.Value) bool {
	switch v.Kind {
	case rj.Number:
		return math.IsInf(v.N, 0)
	case rj.Object:
		for _, k := range v.O.Keys {
			if containsInf(v.O.Props[k].V) {
				return true
			}
		}
	}
	return false
}

// fffdUnits replaces every lone surrogate code unit by U+FFFD.
func fffdUnits(u []uint16) []uint16 {
	out := make([]uint16, 0, len(u))
	for i := 0; i < len(u); i++ {
		c := u[i]
		switch {
		case c >= 0xD800 && c <= 0xDBFF:
			if i+1 < len(u) && u[i+1] >= 0xDC00 && u[i+1] <= 0xDFFF {
				out = append(out, c, u[i+1])
				i++
				continue
			}
			out = append(out, 0xFFFD)
		case c >= 0xDC00 && c <= 0xDFFF:
			out = append(out, 0xFFFD)
		default:
			out = append(out, c)
		}
	}
	return out
}

// fffdValue applies fffdUnits to every string and member name of a value.
func fffdValue(v rj.Value) rj.Value {
	switch v.Kind {
	case rj.String:
		return rj.Str(fffdUnits(v.S))
	case rj.Object:
		o := v.O
		keys := append([]rj.S16{}, o.Keys...)
		vals := make([]rj.Value, len(keys))
		for i, k := range keys {
			vals[i] = fffdValue(o.Props[k].V)
		}
		if o.Class == "Array" {
			for i, k := range keys {
				o.Props[k].V = vals[i]
			}
			return v
		}
		for _, k := range keys {
			o.Delete(k)
		}
		for i, k := range keys {
			o.Put(rj.Key(fffdUnits(k.Units())), vals[i])
		}
	}
	return v
}

// altParse is JSON.parse under the alternative models "fffd" (the text is
// converted to UTF-8 before it is read, so raw lone surrogates are U+FFFD, and
// the decoder maps unpaired \uD8xx escapes to U+FFFD) and/or "overflow" (a
// JSONNumber outside the double range makes the text a SyntaxError).
func altParse(text []uint16, rv *argSpec, sortLog, fffd, overflow bool) string {
	t := text
	if fffd {
		t = fffdUnits(text)
	}
	unf, err := rj.Parse(t)
	if err != nil {
		return "throw:SyntaxError"
	}
	if fffd {
		unf = fffdValue(unf)
	}
	if overflow && containsInf(unf) {
		return "throw:SyntaxError"
	}
	h := &hostModel{}
	reviver := rv.model(h)
	v := unf
	if reviver.IsCallable() {
		root := rj.NewObject()
		root.Put(rj.K(""), unf)
		v = rj.Walk(reviver, root, rj.K(""), false)
	}
	return renderParse(v, nil, h.log, sortLog)
}

// explainParse finds the smallest set of alternative models that reproduces obs.
func explainParse(text []uint16, rv *argSpec, exp, obs string, sortLog bool) string {
	if altParse(text, rv, sortLog, true, false) == obs {
		return "fffd"
	}
	if altParse(text, rv, sortLog, false, true) == obs {
		return "overflow"
	}
	if rv.model(&hostModel{}).IsCallable() && aliasExplains(text, rv, obs, sortLog) {
		return "alias"
	}
	if altParse(text, rv, sortLog, true, true) == obs {
		return "fffd+overflow"
	}
	return ""
}

// aliasExplains: alternative model "alias" — the reviver walk of an object
// ranges over the live property-order slice while deleting from it (names
// shift left under the iteration: the name after a deleted one is skipped, the
// last name can be seen twice), starting from SOME order of the members (the
// members come out of a Go map). True when some member order reproduces obs.
func aliasExplains(text []uint16, rv *argSpec, obs string, sortLog bool) bool {
	base, err := rj.Parse(text)
	if err != nil {
		return false
	}
	var collect func(v rj.Value, out *[]*rj.Obj)
	collect = func(v rj.Value, out *[]*rj.Obj) {
		if v.Kind != rj.Object {
			return
		}
		if v.O.Class == "Object" {
			v.O.AliasDelete = true
			if len(v.O.Keys) >= 3 {
				*out = append(*out, v.O)
			}
		}
		for _, k := range v.O.Keys {
			collect(v.O.Props[k].V, out)
		}
	}
	var objs []*rj.Obj
	collect(base, &objs)
	if len(objs) == 0 {
		return false
	}
	total := 1
	var perms [][][]int
	for _, o := range objs {
		p := permutations(len(o.Keys))
		perms = append(perms, p)
		total *= len(p)
		if total > 50000 {
			return false
		}
	}
	idx := make([]int, len(objs))
	for n := 0; n < total; n++ {
		v, _ := rj.Parse(text)
		var os []*rj.Obj
		collect(v, &os)
		for i, o := range os {
			p := perms[i][idx[i]]
			nk := make([]rj.S16, len(o.Keys))
			for j, pj := range p {
				nk[j] = o.Keys[pj]
			}
			o.Keys = nk
		}
		h := &hostModel{}
		root := rj.NewObject()
		root.Put(rj.K(""), v)
		res := rj.Walk(rv.model(h), root, rj.K(""), true)
		if renderParse(res, nil, h.log, sortLog) == obs {
			return true
		}
		for i := len(idx) - 1; i >= 0; i-- {
			idx[i]++
			if idx[i] < len(perms[i]) {
				break
			}
			idx[i] = 0
		}
	}
	return false
}

func permutations(n int) [][]int {
	var out [][]int
	p := make([]int, n)
	for i := range p {
		p[i] = i
	}
	var rec func(k int)
	rec = func(k int) {
		if k == n {
			out = append(out, append([]int{}, p...))
			return
		}
		for i := k; i < n; i++ {
			p[k], p[i] = p[i], p[k]
			rec(k + 1)
			p[k], p[i] = p[i], p[k]
		}
	}
	rec(0)
	return out
}

// ---------------------------------------------------------------------------
// stringify

// buggyPropertyList: alternative model "proplist" — accepted entries of the
// replacer array are stored at their ORIGINAL index of a slice that is then cut
// to the number of accepted entries, so skipped entries leave "" behind and
// push accepted names out of the list.
func buggyPropertyList(rep rj.Value) (rj.Value, bool) {
	if rep.Kind != rj.Object || rep.O.Class != "Array" || rep.IsCallable() {
		return rep, false
	}
	ro := rep.O
	list := make([][]uint16, ro.Len)
	seen := map[rj.S16]bool{}
	count := 0
	var spec [][]uint16
	for i := uint32(0); i < ro.Len; i++ {
		v := ro.Get(rj.IndexKey(i))
		var item []uint16
		switch {
		case v.Kind == rj.String:
			item = v.S
		case v.Kind == rj.Number:
			item = rj.NumberToString(v.N)
		case v.Kind == rj.Object && v.O.Class == "String":
			item = v.O.Prim.S
		case v.Kind == rj.Object && v.O.Class == "Number":
			item = rj.NumberToString(v.O.Prim.N)
		default:
			continue
		}
		if seen[rj.Key(item)] {
			continue
		}
		seen[rj.Key(item)] = true
		count++
		list[i] = item
		spec = append(spec, item)
	}
	list = list[:count]
	same := len(list) == len(spec)
	for i := 0; same && i < len(list); i++ {
		same = string(rj.Key(list[i])) == string(rj.Key(spec[i]))
	}
	if same {
		return rep, false
	}
	a := rj.NewArray()
	for i, it := range list {
		a.Put(rj.IndexKey(uint32(i)), rj.Str(it))
	}
	return rj.ObjV(a), true
}

// byteGap: alternative model "gapbytes" — a string gap is cut to its first 10
// UTF-8 bytes instead of its first 10 code units.
func byteGap(space rj.Value) (rj.Value, bool) {
	var s []uint16
	switch {
	case space.Kind == rj.String:
		s = space.S
	case space.Kind == rj.Object && space.O.Class == "String":
		s = space.O.Prim.S
	default:
		return space, false
	}
	b := []byte(string(utf16.Decode(s)))
	if len(b) <= 10 {
		return space, false
	}
	cut := rj.U(string(b[:10]))
	want := s
	if len(want) > 10 {
		want = want[:10]
	}
	if string(rj.Key(cut)) == string(rj.Key(want)) {
		return space, false
	}
	return rj.Str(cut), true
}

// pairCutGap: part of the alternative model "fffd" — a string cannot end in half
// a surrogate pair, so a gap whose 10th code unit is the high half of a pair is
// cut before the pair (9 units) instead of after its first half.
func pairCutGap(space rj.Value) (rj.Value, bool) {
	var s []uint16
	switch {
	case space.Kind == rj.String:
		s = space.S
	case space.Kind == rj.Object && space.O.Class == "String":
		s = space.O.Prim.S
	default:
		return space, false
	}
	if len(s) > 10 && s[9] >= 0xD800 && s[9] <= 0xDBFF && s[10] >= 0xDC00 && s[10] <= 0xDFFF {
		return rj.Str(append([]uint16{}, s[:9]...)), true
	}
	return space, false
}

// explainStringify finds the smallest set of alternative models reproducing obs.
func explainStringify(c *sCase, exp, obs string, ores rj.StringifyResult, olog []string) string {
	render := func(useList, useGap, useCut bool) (string, string, bool) {
		h := &hostModel{}
		mv := c.n.toModel(h)
		rep, sp := c.rep.model(h), c.sp.model(h)
		if useList {
			r, ok := buggyPropertyList(rep)
			if !ok {
				return "", "", false
			}
			rep = r
		}
		if useGap {
			s, ok := byteGap(sp)
			if !ok {
				return "", "", false
			}
			sp = s
		}
		if useCut {
			s, ok := pairCutGap(sp)
			if !ok {
				return "", "", false
			}
			sp = s
		}
		res := rj.Stringify(mv, rep, sp)
		s, _ := renderStringify(res, h.log)
		// the observation read with the gap of the alternative model
		o := ores
		o.Gap = res.Gap
		os, _ := renderStringify(o, olog)
		return s, os, true
	}
	// "livekeys": JO skips a member of K that a callback deleted before its turn
	// (for-in semantics) instead of calling Str / the replacer for it
	{
		h := &hostModel{}
		mv := c.n.toModel(h)
		res := rj.StringifySkipDeleted(mv, c.rep.model(h), c.sp.model(h))
		if s, _ := renderStringify(res, h.log); s == obs {
			return "livekeys"
		}
	}
	type cand struct {
		name               string
		list, gap, ff, cut bool
	}
	for _, cd := range []cand{
		{"fffd", false, false, true, false}, {"fffd", false, false, true, true}, {"proplist", true, false, false, false}, {"gapbytes", false, true, false, false},
		{"fffd+proplist", true, false, true, false}, {"fffd+gapbytes", false, true, true, false}, {"gapbytes+proplist", true, true, false, false},
		{"fffd+gapbytes+proplist", true, true, true, false},
	} {
		s, o := exp, obs
		if cd.list || cd.gap || cd.cut {
			var ok bool
			if s, o, ok = render(cd.list, cd.gap, cd.cut); !ok {
				continue
			}
		}
		if cd.ff {
			s = fffdResult(s)
		}
		if s == o {
			return cd.name
		}
	}
	return ""
}

// explainRoundtrip: only the UTF-8 model applies to the compositions.
func explainRoundtrip(exp, obs string) string {
	if fffdEsc(exp) == obs {
		return "fffd"
	}
	return ""
}
