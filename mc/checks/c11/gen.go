package c11

import (
	"fmt"
	"math"
	"strconv"
	"strings"

	rj "verif/mc/ref/json"
)

// ---------------------------------------------------------------------------
// alphabets

var negZero = math.Copysign(0, -1)

// numLeaves: the numeric leaves of the design.
var numLeaves = []float64{0, negZero, 1, -1, 1.5, 1e21, 1e-7, 5e-324, math.MaxFloat64, 9007199254740994}

// strLeaves: the string leaves of the design (code units) plus one string of
// the five characters with a short escape and one of HTML-sensitive characters.
var strLeaves = [][]uint16{
	{}, {'a'}, {'"'}, {'\\'}, {'/'}, {0x0000}, {0x001F}, {0x007F}, {0x00E9}, {0x2028},
	{0xD83D, 0xDE00}, {0xD800},
	{0x08, 0x0C, 0x0A, 0x0D, 0x09}, {'<', '&', '>'},
}

var objKeys = []string{"a", "b", "", "0", "__proto__"}

func allLeaves() []rj.Value {
	out := []rj.Value{rj.Nul, rj.Boolean(true), rj.Boolean(false)}
	for _, f := range numLeaves {
		out = append(out, rj.Num(f))
	}
	for _, s := range strLeaves {
		out = append(out, rj.Str(s))
	}
	return out
}

// reducedLeaves: representatives used below containers of the second level.
func reducedLeaves() []rj.Value {
	return []rj.Value{rj.Nul, rj.Boolean(true), rj.Num(negZero), rj.Num(1.5), rj.StrOf("a"), rj.Str([]uint16{0x2028}), rj.Str([]uint16{0xD800})}
}

// ---------------------------------------------------------------------------
// value descriptions (one description renders to a model value, to JSON text
// tokens and to JavaScript construction code)

const (
	nLeaf   = iota // primitive (incl. undefined)
	nArr           // array of kids
	nObj           // object: keys/kids
	nWrap          // new Number/String/Boolean(leaf)
	nFn            // a function object
	nRef           // reference to an enclosing/earlier labelled node (cycles, sharing)
	nHole          // array hole (only as a kid of nArr)
	nProto         // object created with Object.create(kids[0]); own members keys[1:]/kids[1:]
	nHostFn        // a host function: hostMode (valueOf/toString/...) + behaviour name in toJSON
)

type node struct {
	kind    int
	leaf    rj.Value
	keys    []string
	kids    []*node
	nonEnum []bool // per member: defined non-enumerable
	toJSON  string // behaviour name of an own toJSON host function ("" = none)
	label   int    // >0: can be the target of nRef
	ref     int
	target  bool // the object a holder-mutating toJSON operates on (mutators.go)
	// hostMode: nHostFn only. protoConv: nWrap only — conversion methods patched
	// into Number/String/Boolean.prototype for the duration of the case (the case
	// must then run on a throw-away runtime): method name -> behaviour name.
	hostMode  string
	protoConv map[string]string
}

func lf(v rj.Value) *node         { return &node{kind: nLeaf, leaf: v} }
func arr(kids ...*node) *node     { return &node{kind: nArr, kids: kids} }
func wrap(v rj.Value) *node       { return &node{kind: nWrap, leaf: v} }
func fn() *node                   { return &node{kind: nFn} }
func refTo(label int) *node       { return &node{kind: nRef, ref: label} }
func (n *node) lab(l int) *node   { n.label = l; return n }
func (n *node) tj(b string) *node { n.toJSON = b; return n }
func obj(kv ...interface{}) *node {
	n := &node{kind: nObj}
	for i := 0; i+1 < len(kv); i += 2 {
		n.keys = append(n.keys, kv[i].(string))
		n.kids = append(n.kids, kv[i+1].(*node))
	}
	return n
}

// toModel builds the model value. Host functions (toJSON) are bound to log.
func (n *node) toModel(h *hostModel) rj.Value {
	return n.model(h, map[int]*rj.Obj{})
}

func (n *node) model(h *hostModel, labels map[int]*rj.Obj) rj.Value {
	var o *rj.Obj
	switch n.kind {
	case nLeaf:
		return n.leaf
	case nRef:
		return rj.ObjV(labels[n.ref])
	case nHostFn:
		return rj.ObjV(h.fn(n.hostMode, n.toJSON))
	case nWrap:
		o = rj.NewWrapper(n.leaf)
		if len(n.protoConv) > 0 {
			o.Proto = rj.NewObject()
			for m, b := range n.protoConv {
				o.Proto.Put(rj.K(m), rj.ObjV(h.fn(m, b)))
			}
		}
	case nFn:
		o = rj.NewFunction(func(this rj.Value, args []rj.Value) rj.Value { return rj.Undef })
	case nArr:
		o = rj.NewArray()
	case nObj, nProto:
		o = rj.NewObject()
	}
	if n.label > 0 {
		labels[n.label] = o
	}
	switch n.kind {
	case nArr:
		for i, k := range n.kids {
			if k.kind == nHole {
				if uint32(i+1) > o.Len {
					o.Len = uint32(i + 1)
				}
				continue
			}
			o.Put(rj.IndexKey(uint32(i)), k.model(h, labels))
		}
	case nObj, nFn, nWrap: // functions and wrappers may carry extra own members too
		for i, k := range n.kids {
			enum := !(i < len(n.nonEnum) && n.nonEnum[i])
			o.Define(rj.K(n.keys[i]), k.model(h, labels), enum)
		}
	case nProto:
		pv := n.kids[0].model(h, labels)
		o.Proto = pv.O
		for i := 1; i < len(n.kids); i++ {
			o.Put(rj.K(n.keys[i]), n.kids[i].model(h, labels))
		}
	}
	if n.target {
		h.target = o
	}
	if strings.HasPrefix(n.toJSON, "mut:") {
		o.Put(rj.K("toJSON"), rj.ObjV(h.mutFn("toJSON", mutatorByName(n.toJSON[4:]))))
	} else if n.toJSON != "" {
		o.Put(rj.K("toJSON"), rj.ObjV(h.fn("toJSON", n.toJSON)))
	}
	return rj.ObjV(o)
}

// toJS renders JavaScript that constructs the value imperatively (so that
// cycles, sharing, holes, prototypes and attributes are all expressible) and
// evaluates to it.
func (n *node) toJS() string { return n.toJSMode(false) }

// toJSDefine is toJS with every array element and object member created by
// Object.defineProperty instead of assignment: in a runtime whose prototypes
// carry accessors or read-only properties an assignment would be intercepted.
func (n *node) toJSDefine() string { return n.toJSMode(true) }

const defineMarker = -1 // labels[defineMarker] != "": create members with defineProperty

func (n *node) toJSMode(define bool) string {
	if n.kind == nLeaf {
		return "(" + jsPrim(n.leaf) + ")"
	}
	var sb strings.Builder
	sb.WriteString("(function(){")
	cnt := 0
	labels := map[int]string{}
	if define {
		labels[defineMarker] = "1"
	}
	root := n.js(&sb, &cnt, labels)
	sb.WriteString("return " + root + ";})()")
	return sb.String()
}

func jsPrim(v rj.Value) string {
	switch v.Kind {
	case rj.Undefined:
		return "undefined"
	case rj.Null:
		return "null"
	case rj.Bool:
		return strconv.FormatBool(v.B)
	case rj.Number:
		return jsNum(v.N)
	case rj.String:
		return jsStr(v.S)
	}
	panic("jsPrim")
}

func jsNum(f float64) string {
	switch {
	case math.IsNaN(f):
		return "NaN"
	case math.IsInf(f, 1):
		return "Infinity"
	case math.IsInf(f, -1):
		return "-Infinity"
	case f == 0 && math.Signbit(f):
		return "-0"
	}
	return strconv.FormatFloat(f, 'g', -1, 64)
}

// jsStr renders code units as a JS expression; anything but plain printable
// ASCII goes through String.fromCharCode so that no lexer rule is involved.
func jsStr(u []uint16) string {
	plain := true
	for _, c := range u {
		if c < 0x20 || c >= 0x7f || c == '"' || c == '\\' {
			plain = false
		}
	}
	if plain {
		b := make([]byte, len(u))
		for i, c := range u {
			b[i] = byte(c)
		}
		return `"` + string(b) + `"`
	}
	parts := make([]string, len(u))
	for i, c := range u {
		parts[i] = strconv.Itoa(int(c))
	}
	return "String.fromCharCode(" + strings.Join(parts, ",") + ")"
}

func (n *node) js(sb *strings.Builder, cnt *int, labels map[int]string) string {
	switch n.kind {
	case nLeaf:
		return jsPrim(n.leaf)
	case nRef:
		return labels[n.ref]
	case nHostFn:
		return "__cv_" + n.hostMode + "_" + n.toJSON
	}
	name := fmt.Sprintf("n%d", *cnt)
	*cnt++
	if n.label > 0 {
		labels[n.label] = name
	}
	switch n.kind {
	case nWrap:
		ctor := map[rj.Kind]string{rj.Number: "Number", rj.String: "String", rj.Bool: "Boolean"}[n.leaf.Kind]
		fmt.Fprintf(sb, "var %s=new %s(%s);", name, ctor, jsPrim(n.leaf))
		for _, m := range []string{"valueOf", "toString"} {
			if b, ok := n.protoConv[m]; ok {
				fmt.Fprintf(sb, "%s.prototype.%s=__cv_%s_%s;", ctor, m, m, b)
			}
		}
		n.jsMembers(sb, cnt, labels, name)
	case nFn:
		fmt.Fprintf(sb, "var %s=function(){};", name)
		n.jsMembers(sb, cnt, labels, name)
	case nArr:
		fmt.Fprintf(sb, "var %s=[];", name)
		for i, k := range n.kids {
			if k.kind == nHole {
				fmt.Fprintf(sb, "%s.length=%d;", name, i+1)
				continue
			}
			e := k.js(sb, cnt, labels)
			if labels[defineMarker] != "" {
				fmt.Fprintf(sb, "Object.defineProperty(%s,\"%d\",{value:%s,writable:true,enumerable:true,configurable:true});", name, i, e)
				continue
			}
			fmt.Fprintf(sb, "%s[%d]=%s;", name, i, e)
		}
	case nObj:
		fmt.Fprintf(sb, "var %s={};", name)
		for i, k := range n.kids {
			e := k.js(sb, cnt, labels)
			enum := !(i < len(n.nonEnum) && n.nonEnum[i])
			if enum && labels[defineMarker] == "" {
				fmt.Fprintf(sb, "%s[%s]=%s;", name, jsStr(rj.U(n.keys[i])), e)
			} else if enum {
				fmt.Fprintf(sb, "Object.defineProperty(%s,%s,{value:%s,writable:true,enumerable:true,configurable:true});", name, jsStr(rj.U(n.keys[i])), e)
			} else {
				fmt.Fprintf(sb, "Object.defineProperty(%s,%s,{value:%s,writable:true,enumerable:false,configurable:true});", name, jsStr(rj.U(n.keys[i])), e)
			}
		}
	case nProto:
		p := n.kids[0].js(sb, cnt, labels)
		fmt.Fprintf(sb, "var %s=Object.create(%s);", name, p)
		for i := 1; i < len(n.kids); i++ {
			e := n.kids[i].js(sb, cnt, labels)
			fmt.Fprintf(sb, "%s[%s]=%s;", name, jsStr(rj.U(n.keys[i])), e)
		}
	}
	if n.target {
		fmt.Fprintf(sb, "__target=%s;", name)
	}
	if strings.HasPrefix(n.toJSON, "mut:") {
		fmt.Fprintf(sb, "%s.toJSON=__mtj_%s;", name, n.toJSON[4:])
	} else if n.toJSON != "" {
		fmt.Fprintf(sb, "%s.toJSON=__tj_%s;", name, n.toJSON)
	}
	return name
}

// ---------------------------------------------------------------------------
// JSON text rendering with spelling alternatives

type tok struct {
	alts [][]uint16 // alts[0] is the canonical spelling
}

func punct(s string) tok { return tok{alts: [][]uint16{rj.U(s)}} }

// numberSpellings: alternative legal spellings per numeric leaf (keyed by the
// canonical 9.8.1 text). The denoted value is always decided by the model
// parser, so "foreign" spellings that denote a neighbouring value are fine.
var numberSpellings = map[string][]string{
	"0":                       {"0.0", "0e0", "0E+5", "0.000e-3"},
	"-0":                      {"-0.0", "-0e0", "-0E-5", "-0.0e+0"},
	"1":                       {"1.0", "1e0", "1E+0", "10e-1", "0.1e1", "1.00000000000000000000000000000001", "1e400", "-1e400", "1e-400", "-1e-400", "2e-324", "123456789012345678901234567890", "0.000000000000000000000000000000000000001", "1e22", "1e23", "9007199254740993", "0.30000000000000004", "4.35", "0.1", "1E2", "1e+2", "1e-2"},
	"-1":                      {"-1.0", "-1e0", "-10E-1"},
	"1.5":                     {"1.50", "15e-1", "0.15E+1", "1.5e0", "1.5000000000000000000000001"},
	"1e+21":                   {"1e21", "1E21", "1E+21", "1000000000000000000000", "1000000000000000000000.0", "0.1e22", "10e20"},
	"1e-7":                    {"1E-7", "0.0000001", "0.1e-6", "10e-8"},
	"5e-324":                  {"5E-324", "4.9406564584124654e-324", "4.9e-324", "3e-324"},
	"1.7976931348623157e+308": {"1.7976931348623157e308", "17976931348623157e292", "1.7976931348623158e308", "179769313486231570000000000000000000000000000000000000000000000000000000000000000000000000000000000000000000000000000000000000000000000000000000000000000000000000000000000000000000000000000000000000000000000000000000000000000000000000000000000000000000000000000000000000000000000000000000000000000000000"},
	"9007199254740994":        {"9007199254740994.0", "9.007199254740994e15", "9007199254740993.0000001", "9007199254740995", "9007199254740994.99"},
}

func numberTok(f float64) tok {
	canon := rj.NumberToString(f)
	if f == 0 && math.Signbit(f) {
		canon = rj.U("-0") // 9.8.1 prints -0 as "0"; the text that denotes -0 is "-0"
	}
	t := tok{alts: [][]uint16{canon}}
	for _, s := range numberSpellings[string(asciiOf(canon))] {
		t.alts = append(t.alts, rj.U(s))
	}
	return t
}

func asciiOf(u []uint16) []byte {
	b := make([]byte, len(u))
	for i, c := range u {
		b[i] = byte(c)
	}
	return b
}

// charSpellings: every legal JSONStringCharacter spelling of one code unit.
func charSpellings(c uint16) [][]uint16 {
	var out [][]uint16
	switch c {
	case '"':
		out = append(out, rj.U(`\"`))
	case '\\':
		out = append(out, rj.U(`\\`))
	case 0x08:
		out = append(out, rj.U(`\b`))
	case 0x0C:
		out = append(out, rj.U(`\f`))
	case 0x0A:
		out = append(out, rj.U(`\n`))
	case 0x0D:
		out = append(out, rj.U(`\r`))
	case 0x09:
		out = append(out, rj.U(`\t`))
	}
	if c >= 0x20 && c != '"' && c != '\\' {
		out = append(out, []uint16{c})
	}
	if c == '/' {
		out = append(out, rj.U(`\/`))
	}
	out = append(out, rj.U(fmt.Sprintf(`\u%04x`, c)))
	if up := fmt.Sprintf(`\u%04X`, c); up != fmt.Sprintf(`\u%04x`, c) {
		out = append(out, rj.U(up))
	}
	return out
}

// stringTok: canonical = Quote(s); alternatives change the spelling of exactly
// one character, plus one alternative with every character \u-escaped.
func stringTok(s []uint16) tok {
	canon := rj.Quote(s)
	t := tok{alts: [][]uint16{canon}}
	first := make([][]uint16, len(s)) // the Quote spelling of each char
	for i, c := range s {
		q := rj.Quote([]uint16{c})
		first[i] = q[1 : len(q)-1]
	}
	build := func(i int, sp []uint16) []uint16 {
		out := []uint16{'"'}
		for j := range s {
			if j == i {
				out = append(out, sp...)
			} else {
				out = append(out, first[j]...)
			}
		}
		return append(out, '"')
	}
	for i, c := range s {
		for _, sp := range charSpellings(c) {
			if string(asciiOrNot(sp)) == string(asciiOrNot(first[i])) {
				continue
			}
			t.alts = append(t.alts, build(i, sp))
		}
	}
	if len(s) > 1 {
		all := []uint16{'"'}
		for _, c := range s {
			all = append(all, rj.U(fmt.Sprintf(`\u%04X`, c))...)
		}
		t.alts = append(t.alts, append(all, '"'))
	}
	return t
}

func asciiOrNot(u []uint16) []byte { return []byte(rj.Key(u)) }

// tokens renders a plain JSON value description (leaf/arr/obj only).
func (n *node) tokens() []tok {
	switch n.kind {
	case nLeaf:
		switch n.leaf.Kind {
		case rj.Null:
			return []tok{punct("null")}
		case rj.Bool:
			return []tok{punct(strconv.FormatBool(n.leaf.B))}
		case rj.Number:
			return []tok{numberTok(n.leaf.N)}
		case rj.String:
			return []tok{stringTok(n.leaf.S)}
		}
	case nArr:
		out := []tok{punct("[")}
		for i, k := range n.kids {
			if i > 0 {
				out = append(out, punct(","))
			}
			out = append(out, k.tokens()...)
		}
		return append(out, punct("]"))
	case nObj:
		out := []tok{punct("{")}
		for i, k := range n.kids {
			if i > 0 {
				out = append(out, punct(","))
			}
			out = append(out, stringTok(rj.U(n.keys[i])), punct(":"))
			out = append(out, k.tokens()...)
		}
		return append(out, punct("}"))
	}
	panic("tokens: not a plain JSON value")
}

func canonText(toks []tok) []uint16 {
	var out []uint16
	for _, t := range toks {
		out = append(out, t.alts[0]...)
	}
	return out
}

var wsAlts = [][]uint16{{' '}, {'\t'}, {'\n'}, {'\r'}, {'\r', '\n', ' ', ' '}}

// spellings enumerates the canonical text and every text with at most `bound`
// deviations (a white-space insertion at a token boundary, or an alternative
// spelling of a token). f receives the variant tag and the text.
func spellings(toks []tok, bound int, f func(tag string, text []uint16)) {
	// deviation points: boundaries 0..len(toks) then tokens with alternatives
	type pt struct {
		boundary bool
		at       int
		n        int
	}
	var pts []pt
	for b := 0; b <= len(toks); b++ {
		pts = append(pts, pt{true, b, len(wsAlts)})
	}
	for i, t := range toks {
		if len(t.alts) > 1 {
			pts = append(pts, pt{false, i, len(t.alts) - 1})
		}
	}
	choice := make([]int, len(pts)) // 0 = default
	render := func() []uint16 {
		ws := make(map[int][]uint16)
		alt := make(map[int]int)
		for i, c := range choice {
			if c == 0 {
				continue
			}
			if pts[i].boundary {
				ws[pts[i].at] = wsAlts[c-1]
			} else {
				alt[pts[i].at] = c
			}
		}
		var out []uint16
		for i, t := range toks {
			out = append(out, ws[i]...)
			out = append(out, t.alts[alt[i]]...)
		}
		return append(out, ws[len(toks)]...)
	}
	var rec func(from, left int, tag string)
	rec = func(from, left int, tag string) {
		f(tag, render())
		if left == 0 {
			return
		}
		for i := from; i < len(pts); i++ {
			for c := 1; c <= pts[i].n; c++ {
				choice[i] = c
				kind := "t"
				if pts[i].boundary {
					kind = "w"
				}
				rec(i+1, left-1, fmt.Sprintf("%s%s%d.%d", tag, kind, pts[i].at, c))
			}
			choice[i] = 0
		}
	}
	rec(0, bound, "")
}

// ---------------------------------------------------------------------------
// value enumerations

// containersOver: arrays of arity <= 2 and objects of arity <= 2 (ordered pairs
// of distinct keys) whose members are drawn from members.
func containersOver(members []*node, keys []string) []*node {
	var out []*node
	out = append(out, arr())
	for _, a := range members {
		out = append(out, arr(a))
	}
	for _, a := range members {
		for _, b := range members {
			out = append(out, arr(a, b))
		}
	}
	out = append(out, obj())
	for _, k := range keys {
		for _, a := range members {
			out = append(out, obj(k, a))
		}
	}
	for _, k1 := range keys {
		for _, k2 := range keys {
			if k1 == k2 {
				continue
			}
			for _, a := range members {
				for _, b := range members {
					out = append(out, obj(k1, a, k2, b))
				}
			}
		}
	}
	return out
}

func leafNodes(vs []rj.Value) []*node {
	out := make([]*node, len(vs))
	for i, v := range vs {
		out[i] = lf(v)
	}
	return out
}

// depth1: every leaf and every container of leaves (the design's depth <= 1).
func depth1() []*node {
	l := leafNodes(allLeaves())
	return append(l, containersOver(l, objKeys)...)
}

// depth1Reduced: the same over the reduced leaves and keys {a, "", __proto__}.
func depth1Reduced() []*node {
	l := leafNodes(reducedLeaves())
	return append(l, containersOver(l, []string{"a", "", "__proto__"})...)
}

// depth2: containers whose members are reduced leaves or containers (arity <= 2,
// keys {a,b}) of three leaves — only the values that really have depth 2.
func depth2() []*node {
	small := leafNodes([]rj.Value{rj.Nul, rj.Num(negZero), rj.Str([]uint16{0xD800})})
	inner := containersOver(small, []string{"a", "b"})
	members := append(leafNodes([]rj.Value{rj.Boolean(true), rj.Num(1.5), rj.StrOf("a")}), inner...)
	all := containersOver(members, []string{"a", "", "__proto__"})
	var out []*node
	for _, n := range all {
		deep := false
		for _, k := range n.kids {
			if k.kind != nLeaf {
				deep = true
			}
		}
		if deep {
			out = append(out, n)
		}
	}
	return out
}

// escText is the ASCII rendering of a text used in keys and reports.
func escText(u []uint16) string { return rj.Esc(u) }

// unesc inverts rj.Esc.
func unesc(s string) []uint16 {
	var out []uint16
	for i := 0; i < len(s); i++ {
		if s[i] == '\\' && i+5 < len(s) && s[i+1] == 'u' {
			v, err := strconv.ParseUint(s[i+2:i+6], 16, 16)
			if err == nil {
				out = append(out, uint16(v))
				i += 5
				continue
			}
		}
		out = append(out, uint16(s[i]))
	}
	return out
}

// jsMembers emits the extra own members of a function or wrapper object.
func (n *node) jsMembers(sb *strings.Builder, cnt *int, labels map[int]string, name string) {
	for i, k := range n.kids {
		e := k.js(sb, cnt, labels)
		fmt.Fprintf(sb, "%s[%s]=%s;", name, jsStr(rj.U(n.keys[i])), e)
	}
}

// with adds a member to a node (object, function or wrapper) and returns it.
func (n *node) with(key string, kid *node) *node {
	n.keys = append(n.keys, key)
	n.kids = append(n.kids, kid)
	return n
}

// hostFn is a host function member value (conversion methods).
func hostFn(mode, beh string) *node { return &node{kind: nHostFn, hostMode: mode, toJSON: beh} }

// patchesPrototypes reports whether constructing n modifies a built-in prototype.
func (n *node) patchesPrototypes() bool {
	if n == nil {
		return false
	}
	if len(n.protoConv) > 0 {
		return true
	}
	for _, k := range n.kids {
		if k.patchesPrototypes() {
			return true
		}
	}
	return false
}
