package c11

import (
	"fmt"
	"strconv"
	"strings"

	"github.com/robertkrimen/otto"

	"verif/mc/engine"
	"verif/mc/ox"
	rj "verif/mc/ref/json"
)

// The reentrant family. The abstract operations of 15.12.2 / 15.12.3 keep their
// state (stack, indent, gap, PropertyList, ReplacerFunction, the reviver) per
// invocation, so user code run by JSON.stringify / JSON.parse — toJSON, the
// replacer function, the reviver, valueOf / toString of a wrapper — may itself
// call JSON.stringify / JSON.parse (on an unrelated value, on the value being
// visited, on an ancestor / the holder) without disturbing the outer call: the
// outer result and the result of every nested call must be what the model, which
// has no shared state, computes. A callback nests only at the outermost level
// (inside a nested call it just returns), so everything terminates.

const nestedText = `[1,{"q":[2,{"r":[]}]},"t"]` // arrays and one-member objects only: the visiting order is fixed

func unrelatedModel() rj.Value {
	v := rj.NewObject()
	v.Put(rj.K("v"), rj.ObjV(rj.NewArray(rj.Num(1), rj.StrOf("s"))))
	u := rj.NewObject()
	u.Put(rj.K("u"), rj.ObjV(v))
	return rj.ObjV(u)
}

const unrelatedJS = `({"u":{"v":[1,"s"]}})`

func renderNested(res rj.StringifyResult) string {
	s, _ := renderStringify(res, nil)
	return s
}

// nested: the model side of a nesting callback.
func (h *hostModel) nested(r ret, val, holder rj.Value) rj.Value {
	if !h.nesting {
		h.nesting = true
		out := ""
		switch r.s {
		case "unrelated":
			out = renderNested(rj.Stringify(unrelatedModel(), rj.Undef, rj.Undef))
		case "self":
			out = renderNested(rj.Stringify(val, rj.Undef, rj.Undef))
		case "target":
			out = renderNested(rj.Stringify(h.nestTarget(holder, val), rj.Undef, rj.Undef))
		case "parse":
			v, t := rj.ParseRevive(rj.U(nestedText), rj.Undef)
			out = renderParse(v, t, nil, false)
		case "parseRevive":
			v, t := rj.ParseRevive(rj.U(nestedText), rj.ObjV(h.fn("reviver", "replNum")))
			out = renderParse(v, t, nil, false)
		}
		h.nesting = false
		h.log = append(h.log, "nested "+r.s+" => "+out)
	}
	if r.n == 1 {
		return h.nestTarget(holder, val)
	}
	return val
}

// nestTarget: the object marked as target in the value description; without one
// the holder of the call (reviver / replacer), else the value.
func (h *hostModel) nestTarget(holder, val rj.Value) rj.Value {
	switch {
	case h.target != nil:
		return rj.ObjV(h.target)
	case holder.Kind == rj.Object:
		return holder
	}
	return val
}

// nested: the implementation side.
func (d *drv) nested(r ret, valV, thisV otto.Value, mode string) otto.Value {
	target := func() otto.Value {
		if t, err := d.vm.Get("__target"); err == nil && t.IsObject() {
			return t
		}
		if !thisMode(mode) && thisV.IsObject() {
			return thisV
		}
		return valV
	}
	if !d.nesting {
		d.nesting = true
		out := ""
		stringify := func(v otto.Value) string {
			res := ox.Guard(func() (otto.Value, error) { return d.stringify.Call(otto.UndefinedValue(), v) })
			var o rj.StringifyResult
			switch {
			case res.Panicked:
				o.Err = &rj.Throw{Class: fmt.Sprint("panic: ", res.PanicVal)}
			case res.Err != nil:
				o.Err = &rj.Throw{Class: ox.ErrClass(res.Err)}
			case res.Value.IsString():
				o.Text = fromOtto(res.Value, 0).S
			default:
				o.Undefined = true
			}
			return renderNested(o)
		}
		parse := func(args ...interface{}) string {
			res := ox.Guard(func() (otto.Value, error) { return d.parse.Call(otto.UndefinedValue(), args...) })
			switch {
			case res.Panicked:
				return fmt.Sprint("throw:panic: ", res.PanicVal)
			case res.Err != nil:
				return "throw:" + ox.ErrClass(res.Err)
			}
			return renderParse(fromOtto(res.Value, 0), nil, nil, false)
		}
		switch r.s {
		case "unrelated":
			u, err := d.vm.Object(unrelatedJS)
			if err != nil {
				panic(err)
			}
			out = stringify(u.Value())
		case "self":
			out = stringify(valV)
		case "target":
			out = stringify(target())
		case "parse":
			out = parse(nestedText)
		case "parseRevive":
			f, _ := d.vm.Get("__rv_replNum")
			out = parse(nestedText, f)
		}
		d.nesting = false
		d.log = append(d.log, "nested "+r.s+" => "+out)
	}
	if r.n == 1 {
		return target()
	}
	return valV
}

var nestBehaviours = []string{"nestUnrelated", "nestSelf", "nestTarget", "nestTargetRet", "nestParse", "nestParseRevive"}

type reentrantCase struct {
	name string
	n    *node
	rep  string // replacer behaviour, "" = none
}

func reentrantStringifyCases() []reentrantCase {
	num := func(f float64) *node { return lf(rj.Num(f)) }
	hidden := func(n, x *node) *node {
		n.keys = append(n.keys, "hid")
		n.kids = append(n.kids, x)
		for len(n.nonEnum) < len(n.kids)-1 {
			n.nonEnum = append(n.nonEnum, false)
		}
		n.nonEnum = append(n.nonEnum, true)
		return n
	}
	mark := func(n *node) *node { n.target = true; return n }
	var out []reentrantCase
	for _, b := range nestBehaviours {
		add := func(name string, n *node, rep string) { out = append(out, reentrantCase{name + ":" + b, n, rep}) }
		// toJSON nests; the target is the root (an ancestor being serialised)
		add("toJSON@root", mark(obj("x", num(1), "y", arr(num(2))).tj(b)), "")
		add("toJSON@member,target=root", mark(obj("a", obj("x", num(1)).tj(b), "b", num(2))), "")
		add("toJSON@element,target=root", mark(arr(num(0), obj("x", num(1)).tj(b), arr(num(1)))), "")
		add("toJSON@deep,target=root", mark(obj("p", obj("q", arr(obj("x", num(1)).tj(b), num(3))), "r", num(1))), "")
		add("toJSON@deep,target=parent", obj("p", mark(obj("q", arr(obj("x", num(1)).tj(b), num(3)))), "r", num(1)), "")
		add("toJSON-twice,target=root", mark(arr(obj("x", num(1)).tj(b), obj("y", num(2)).tj(b))), "")
		// the target is an unrelated object (never part of the outer value, or a later sibling)
		add("toJSON,target=unrelated", arr(hidden(obj(), mark(obj("x", num(1)))).tj(b), num(7)), "")
		add("toJSON,target=later-sibling", obj("a", obj().tj(b), "b", mark(obj("x", arr(num(1))))), "")
		add("toJSON,target=earlier-sibling", arr(mark(obj("x", arr(num(1)))), obj().tj(b)), "")
		// after the nesting callback the outer call still has its ancestor list: real cycle, and sharing
		add("toJSON-then-cycle", obj("a", obj("x", num(1)).tj(b), "self", refTo(1)).lab(1), "")
		add("toJSON-then-deep-cycle", obj("p", arr(obj().tj(b), obj("back", refTo(1)))).lab(1), "")
		add("toJSON-then-sharing", arr(obj("x", num(1)).lab(2), obj("y", num(2)).tj(b), refTo(2), arr(refTo(2))), "")
		// wrapper conversion methods that nest
		add("valueOf-nests", arr(wrap(rj.Num(1)).with("valueOf", hostFn("valueOf", b)), obj("k", num(2))), "")
		add("toString-nests", obj("s", wrap(rj.StrOf("a")).with("toString", hostFn("toString", b)), "k", arr(num(2))), "")
		// the replacer function nests at every call of the outer level
		add("replacer", hidden(obj("a", obj("x", num(1)), "b", arr(num(1), num(2))), mark(obj("t", num(1)))), b)
		add("replacer,no-target", obj("a", obj("x", num(1)), "b", arr(num(1), num(2))), b)
		add("replacer-then-cycle", obj("a", arr(num(1)), "self", refTo(1)).lab(1), b)
	}
	return out
}

var reentrantTexts = []string{`{"a":1,"b":[2,{"c":3}]}`, `[1,[2,3]]`, `{"a":{"b":{"c":1}}}`, `[{"a":1},{"b":2}]`, `7`}

func runReentrant(r *engine.Run) {
	newD := func() *drv {
		d := newDrv()
		d.vm.SetStackDepthLimit(300) // a lost ancestor list ends in RangeError, not in a dead worker
		return d
	}
	d := newD()
	for _, c := range reentrantStringifyCases() {
		for _, sn := range []string{"none", "2"} {
			key := "stringify/" + c.name + "|" + sn
			if !r.MineKey(key) {
				continue
			}
			rep := &argSpec{name: "none", model: func(h *hostModel) rj.Value { return rj.Undef }}
			if c.rep != "" {
				b := c.rep
				rep = &argSpec{name: b, js: "__rp_" + b, model: func(h *hostModel) rj.Value { return rj.ObjV(h.fn("replacer", b)) }}
			}
			d.vm.Set("__target", otto.UndefinedValue()) //nolint:errcheck
			src, val, ok := build(r, d, c.n)
			if !ok {
				continue
			}
			stringifyCase(r, &d, &sCase{key: key, n: c.n, src: src, val: val, rep: rep, sp: specByName(spaces, sn)})
		}
	}
	// revivers that nest
	for ti, t := range reentrantTexts {
		text := rj.U(t)
		for _, b := range nestBehaviours {
			key := fmt.Sprintf("parse/%d|%s", ti, b)
			if !r.MineKey(key) {
				continue
			}
			b := b
			model := func(v rj.Value) (s string) {
				h := &hostModel{}
				defer func() {
					if p := recover(); p != nil {
						if t, ok := p.(*rj.Throw); ok {
							s = "throw:" + t.Class + logTail(h.log, false)
							return
						}
						panic(p)
					}
				}()
				root := rj.NewObject()
				root.Put(rj.K(""), v)
				res := rj.Walk(rj.ObjV(h.fn("reviver", b)), root, rj.K(""), false)
				return renderParse(res, nil, h.log, false)
			}
			d.vm.Set("__target", otto.UndefinedValue()) //nolint:errcheck
			fn, err := d.eval("__rv_"+b, true)
			if err != nil {
				r.HarnessError(err.Error())
				continue
			}
			r.Begin(key)
			out := d.call(d.parse, textValue(text), fn)
			r.End()
			obs := ""
			if out.thrown != "" {
				obs = "throw:" + out.thrown + logTail(d.log, false)
			} else {
				obs = renderParse(fromOtto(out.value, 0), nil, d.log, false)
			}
			exp := ""
			agree := forEachMemberOrder(text, func(v rj.Value) bool {
				s := model(v)
				if exp == "" {
					exp = s
				}
				return s == obs
			})
			r.Eval(true)
			r.Outcome(obs)
			input := "JSON.parse(" + quoteForReport(text) + ", __rv_" + b + ")"
			if r.WantSample() {
				r.Sample(input + " => " + obs)
			}
			if !agree {
				file(r, engine.Mismatch{Key: key, Input: input, Expected: exp + "   (or the same with another member order)", Observed: obs,
					Aux: map[string]string{"op": "parse-reentrant", "text": escText(text), "behaviour": b}})
				if strings.HasPrefix(obs, "throw:panic") {
					d = newD()
				}
			}
		}
	}
	r.Bound("nesting_callbacks", strconv.Itoa(len(nestBehaviours))+" (nested JSON.stringify of an unrelated value / the visited value / the target-or-holder, also returning the target; nested JSON.parse without and with a reviver)")
	r.Bound("stringify_cases", strconv.Itoa(len(reentrantStringifyCases()))+" x space {none, 2}")
	r.Bound("parse_cases", strconv.Itoa(len(reentrantTexts)*len(nestBehaviours)))
}
