package c11

import (
	"strconv"

	"verif/mc/engine"
	rj "verif/mc/ref/json"
)

// The wrappers family. 15.12.3 unwraps Number / String / Boolean objects in four
// places, and not with the same operation:
//   Str step 4       Number -> ToNumber(value), String -> ToString(value), Boolean -> [[PrimitiveValue]]
//   step 4.b.ii      an element of a replacer array that is a Number or String object -> ToString(v)
//   step 5           space: Number object -> ToNumber(space), String object -> ToString(space)
//   (toJSON and replacer-function results flow into Str step 4)
// ToNumber / ToString of an object go through [[DefaultValue]] (8.12.8), i.e. the
// object's valueOf / toString — own or inherited, in hint order, falling through
// on a non-callable method or an object result, TypeError when both fail, and
// propagating what they throw. The family enumerates conversion-method
// configurations x positions; every method is a logging host function.

type wrapperConfig struct {
	name string
	mk   func() *node
}

func wrapperConfigs() []wrapperConfig {
	own := func(w *node, method, beh string) *node { return w.with(method, hostFn(method, beh)) }
	N := func() *node { return wrap(rj.Num(1)) }
	S := func() *node { return wrap(rj.StrOf("a")) }
	B := func() *node { return wrap(rj.Boolean(false)) }
	proto := func(w *node, method, beh string) *node {
		if w.protoConv == nil {
			w.protoConv = map[string]string{}
		}
		w.protoConv[method] = beh
		return w
	}
	var out []wrapperConfig
	add := func(name string, mk func() *node) { out = append(out, wrapperConfig{name, mk}) }
	for _, c := range []struct {
		cls string
		mk  func() *node
	}{{"Number", N}, {"String", S}, {"Boolean", B}} {
		mk := c.mk
		add(c.cls+":default", mk)
		for _, m := range []string{"valueOf", "toString"} {
			m := m
			for _, b := range []string{"toNum", "toStr", "toInf", "toUndef", "toObj", "toThrow"} {
				b := b
				add(c.cls+":own-"+m+"-"+b, func() *node { return own(mk(), m, b) })
			}
			add(c.cls+":own-"+m+"-noncallable", func() *node { return mk().with(m, lf(rj.Num(5))) })
			add(c.cls+":proto-"+m+"-toNum", func() *node { return proto(mk(), m, "toNum") })
			add(c.cls+":proto-"+m+"-toStr", func() *node { return proto(mk(), m, "toStr") })
			add(c.cls+":proto-"+m+"-toObj", func() *node { return proto(mk(), m, "toObj") })
		}
		add(c.cls+":own-both-toObj", func() *node { return own(own(mk(), "valueOf", "toObj"), "toString", "toObj") })
		add(c.cls+":own-valueOf-toObj+toString-toStr", func() *node { return own(own(mk(), "valueOf", "toObj"), "toString", "toStr") })
		add(c.cls+":own-toString-toObj+valueOf-toNum", func() *node { return own(own(mk(), "toString", "toObj"), "valueOf", "toNum") })
		add(c.cls+":own-valueOf-toNum+toString-toStr", func() *node { return own(own(mk(), "valueOf", "toNum"), "toString", "toStr") })
		add(c.cls+":proto-both-toObj", func() *node { return proto(proto(mk(), "valueOf", "toObj"), "toString", "toObj") })
		add(c.cls+":own-valueOf-toNum+toJSON-identity", func() *node { return own(mk(), "valueOf", "toNum").tj("identity") })
	}
	return out
}

type wrapperCase struct {
	name    string
	n       *node    // the value
	rep, sp *argSpec // nil = absent
	fresh   bool     // built-in prototypes are patched: throw-away runtime
}

func nodeArg(name string, n *node) *argSpec {
	return &argSpec{name: name, js: n.toJS(), model: func(h *hostModel) rj.Value { return n.toModel(h) }}
}

func wrapperCases() []wrapperCase {
	num := func(f float64) *node { return lf(rj.Num(f)) }
	var out []wrapperCase
	replTarget := &argSpec{name: "replTarget", js: "__rp_replTarget",
		model: func(h *hostModel) rj.Value { return rj.ObjV(h.fn("replacer", "replTarget")) }}
	hidden := func(n, x *node) *node {
		n.keys = append(n.keys, "hid")
		n.kids = append(n.kids, x)
		for len(n.nonEnum) < len(n.kids)-1 {
			n.nonEnum = append(n.nonEnum, false)
		}
		n.nonEnum = append(n.nonEnum, true)
		return n
	}
	for _, c := range wrapperConfigs() {
		fresh := c.mk().patchesPrototypes()
		add := func(pos string, n *node, rep, sp *argSpec) {
			out = append(out, wrapperCase{c.name + "@" + pos, n, rep, sp, fresh})
		}
		add("root", c.mk(), nil, nil)
		add("element", arr(num(0), c.mk()), nil, nil)
		add("member", obj("a", c.mk(), "b", num(0)), nil, nil)
		add("twice", arr(c.mk().lab(1), refTo(1)), nil, nil)
		t := c.mk()
		t.target = true
		add("toJSON-result", arr(hidden(obj(), t).tj("toTarget")), nil, nil)
		t = c.mk()
		t.target = true
		add("replacer-result", hidden(obj("x", num(1)), t), replTarget, nil)
		add("identity-replacer", obj("a", c.mk()), specByName(replacers, "identity"), nil)
		add("space", obj("a", arr(num(1))), nil, nodeArg("space="+c.name, c.mk()))
		add("list-element", obj("a", num(1), "1", num(2), "J", num(3), "42", num(4), "false", num(5), "undefined", num(6), "Infinity", num(7), "[object Object]", num(8)),
			nodeArg("list=["+c.name+",\"a\"]", arr(c.mk(), lf(rj.StrOf("a")))), nil)
	}
	return out
}

func runWrappers(r *engine.Run) {
	d := newDrv()
	none := &argSpec{name: "none", model: func(h *hostModel) rj.Value { return rj.Undef }}
	cases := wrapperCases()
	for _, c := range cases {
		key := "w:" + c.name
		if !r.MineKey(key) {
			continue
		}
		rep, sp := c.rep, c.sp
		if rep == nil {
			rep = none
		}
		if sp == nil {
			sp = none
		}
		if c.fresh {
			d = newDrv() // the case patches Number/String/Boolean.prototype
		}
		src, val, ok := build(r, d, c.n)
		if ok {
			stringifyCase(r, &d, &sCase{key: key, n: c.n, src: src, val: val, rep: rep, sp: sp})
		}
		if c.fresh {
			d = newDrv()
		}
	}
	r.Bound("configurations", strconv.Itoa(len(wrapperConfigs()))+" (Number/String/Boolean x {default, own/prototype valueOf/toString x result kinds, non-callable, combinations})")
	r.Bound("positions", "root, element, member, twice, toJSON result, replacer-function result, under an identity replacer, space, replacer-array element")
	r.Bound("cases", strconv.Itoa(len(cases)))
}
