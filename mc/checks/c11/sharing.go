package c11

import (
	"strconv"

	"verif/mc/engine"
	rj "verif/mc/ref/json"
)

// The sharing family. 15.12.3 keeps a stack of the objects and arrays that JO/JA
// are currently inside; a value is a cycle only when it is ON that stack, i.e.
// one of its own ancestors. The same object reached twice along different paths
// (siblings, aunt and niece, through two toJSON results, through the replacer)
// is not a cycle — whatever exit the walk takes for it: functions (undefined),
// Number/String/Boolean objects (unboxed), objects whose toJSON yields a
// primitive / undefined / themselves / another object, arrays, plain objects.
// Conversely a genuine cycle through each kind that JO/JA can enter must throw
// TypeError, and a self reference through a kind that is never entered
// (function, wrapper, toJSON yielding a primitive) must not.

type sharedKind struct {
	name string
	mk   func() *node // a fresh description of the value (to be labelled / marked by the caller)
}

func sharedKinds() []sharedKind {
	num := func(f float64) *node { return lf(rj.Num(f)) }
	return []sharedKind{
		{"function", fn},
		{"function+toJSON-num", func() *node { return fn().tj("toNum") }},
		{"function+toJSON-undef", func() *node { return fn().tj("toUndef") }},
		{"NumberObj", func() *node { return wrap(rj.Num(5)) }},
		{"StringObj", func() *node { return wrap(rj.StrOf("s")) }},
		{"BooleanObj", func() *node { return wrap(rj.Boolean(true)) }},
		{"NumberObj+toJSON-undef", func() *node { return wrap(rj.Num(5)).tj("toUndef") }},
		{"object", func() *node { return obj("x", num(1)) }},
		{"empty-object", func() *node { return obj() }},
		{"array", func() *node { return arr(num(1)) }},
		{"empty-array", func() *node { return arr() }},
		{"nested", func() *node { return obj("x", arr(obj("y", num(1)))) }},
		{"toJSON-num", func() *node { return obj("x", num(1)).tj("toNum") }},
		{"toJSON-str", func() *node { return obj("x", num(1)).tj("toStr") }},
		{"toJSON-undef", func() *node { return obj("x", num(1)).tj("toUndef") }},
		{"toJSON-this", func() *node { return obj("x", num(1)).tj("identity") }},
		{"toJSON-object", func() *node { return obj("x", num(1)).tj("toObj") }},
		{"array+toJSON-undef", func() *node { return arr(num(1)).tj("toUndef") }},
		{"object-holding-function", func() *node { return obj("f", fn(), "x", num(1)) }},
	}
}

// sharedShapes: containers in which X (label 1) is reached at least twice and
// never through itself.
func sharedShapes() []struct {
	name string
	mk   func(x *node) *node
} {
	num := func(f float64) *node { return lf(rj.Num(f)) }
	X := func() *node { return refTo(1) }
	return []struct {
		name string
		mk   func(x *node) *node
	}{
		{"[X,X]", func(x *node) *node { return arr(x, X()) }},
		{"[X,1,X]", func(x *node) *node { return arr(x, num(1), X()) }},
		{"[X,X,X]", func(x *node) *node { return arr(x, X(), X()) }},
		{"{a:X,b:X,c:1}", func(x *node) *node { return obj("a", x, "b", X(), "c", num(1)) }},
		{"{c:1,b:X,a:X}", func(x *node) *node { return obj("c", num(1), "b", x, "a", X()) }},
		{"[X,[X]]", func(x *node) *node { return arr(x, arr(X())) }},
		{"[[X],X]", func(x *node) *node { return arr(arr(x), X()) }},
		{"[[X],[X]]", func(x *node) *node { return arr(arr(x), arr(X())) }},
		{"{a:X,b:{c:X}}", func(x *node) *node { return obj("a", x, "b", obj("c", X())) }},
		{"{a:{c:X},b:X}", func(x *node) *node { return obj("a", obj("c", x), "b", X()) }},
		{"{a:{c:X},b:{c:X}}", func(x *node) *node { return obj("a", obj("c", x), "b", obj("c", X())) }},
		{"{a:[X],b:X}", func(x *node) *node { return obj("a", arr(x), "b", X()) }},
		{"[X,{a:X}]", func(x *node) *node { return arr(x, obj("a", X())) }},
		{"[[1],X,X]", func(x *node) *node { return arr(arr(num(1)), x, X()) }},
		{"[[[X]],[[X],X]]", func(x *node) *node { return arr(arr(arr(x)), arr(arr(X()), X())) }},
	}
}

type shareCase struct {
	name string
	n    *node
	reps []string // replacer names to run (global list, or "replTarget")
}

func sharingCases() []shareCase {
	num := func(f float64) *node { return lf(rj.Num(f)) }
	std := []string{"none", "identity"}
	var out []shareCase
	hidden := func(n *node, x *node) *node { // x as a non-enumerable member: constructed, never serialised
		n.keys = append(n.keys, "hid")
		n.kids = append(n.kids, x)
		for len(n.nonEnum) < len(n.kids)-1 {
			n.nonEnum = append(n.nonEnum, false)
		}
		n.nonEnum = append(n.nonEnum, true)
		return n
	}
	for _, k := range sharedKinds() {
		// 1. the same value at two or more places of one container tree
		for _, s := range sharedShapes() {
			out = append(out, shareCase{"dag:" + k.name + ":" + s.name, s.mk(k.mk().lab(1)), std})
		}
		// 2. the same value as the toJSON result of two different objects / of one object reached twice
		t := k.mk()
		t.target = true
		out = append(out, shareCase{"toJSON-results:" + k.name + ":[o1,o2,7]",
			arr(hidden(obj(), t).tj("toTarget"), obj().tj("toTarget"), num(7)), std})
		t = k.mk()
		t.target = true
		out = append(out, shareCase{"toJSON-results:" + k.name + ":{a:o,b:{c:o}}",
			obj("a", hidden(obj(), t).tj("toTarget").lab(2), "b", obj("c", refTo(2))), std})
		// 3. the same value returned by the replacer function for every member
		t = k.mk()
		t.target = true
		out = append(out, shareCase{"replacer-results:" + k.name + ":{x,y}", hidden(obj("x", num(1), "y", num(2)), t), []string{"replTarget"}})
		t = k.mk()
		t.target = true
		out = append(out, shareCase{"replacer-results:" + k.name + ":[1,[2]]", arr(num(1), arr(num(2)), hidden(obj(), t)), []string{"replTarget"}})
		// 4. a reference from the value to itself: a cycle exactly when JO/JA enter the value
		self := k.mk().lab(1)
		if self.kind == nArr {
			self.kids = append(self.kids, refTo(1))
		} else {
			self.with("self", refTo(1))
		}
		out = append(out, shareCase{"self:" + k.name + "@root", self, std})
		self = k.mk().lab(1)
		if self.kind == nArr {
			self.kids = append(self.kids, refTo(1))
		} else {
			self.with("self", refTo(1))
		}
		out = append(out, shareCase{"self:" + k.name + "@[1,X,2]", arr(num(1), self, num(2)), std})
		// 5. a cycle of length two through a plain container: X -> {p: X}
		two := k.mk().lab(1)
		if two.kind == nArr {
			two.kids = append(two.kids, obj("p", refTo(1)))
		} else {
			two.with("back", obj("p", refTo(1)))
		}
		out = append(out, shareCase{"cycle2:" + k.name, obj("q", two), std})
	}
	// toJSON / replacer results that close a cycle: the result contains the object being serialised
	root := arr(obj().tj("toTarget"), num(1))
	root.target = true
	out = append(out, shareCase{"cycle-via-toJSON-result", root, std})
	inner := obj("k", obj().tj("toTarget"))
	inner.target = true
	out = append(out, shareCase{"cycle-via-toJSON-result-nested", arr(num(0), inner), std})
	return out
}

func runSharing(r *engine.Run) {
	d := newDrv()
	cases := sharingCases()
	replTarget := &argSpec{name: "replTarget", js: "__rp_replTarget",
		model: func(h *hostModel) rj.Value { return rj.ObjV(h.fn("replacer", "replTarget")) }}
	for _, c := range cases {
		vkey := "sh:" + c.name
		if !mineValue(r, vkey) {
			continue
		}
		src, val, ok := build(r, d, c.n)
		if !ok {
			continue
		}
		for _, rn := range c.reps {
			rep := replTarget
			if rn != "replTarget" {
				rep = specByName(replacers, rn)
			}
			for _, sn := range []string{"none", "2"} {
				key := vkey + "|" + rep.name + "|" + sn
				if wantCase(r, key) {
					stringifyCase(r, &d, &sCase{key: key, n: c.n, src: src, val: val, rep: rep, sp: specByName(spaces, sn)})
				}
			}
		}
		r.Tree(1, int64(2*len(c.reps)))
	}
	r.Bound("kinds", strconv.Itoa(len(sharedKinds())))
	r.Bound("shapes", strconv.Itoa(len(sharedShapes()))+" DAG shapes + toJSON-result / replacer-result sharing + self references + length-2 cycles per kind")
	r.Bound("descriptions", strconv.Itoa(len(cases)))
}
