package c11

import (
	"strconv"
	"unicode/utf16"

	"verif/mc/engine"
	rj "verif/mc/ref/json"
)

// family: escapelike
//
// Strings whose CONTENT looks like (part of) a JSON escape sequence. The other
// families draw string leaves from single characters; here every string is a
// concatenation of at most three fragments of escFragments, so a literal
// backslash can be followed by the letters of an escape (u003c, u2028, n, /, ")
// and by the raw characters those escapes denote. Each string is used as a
// value, as a property name, as a nested value and as a nested property name,
// without and with indentation. Oracles: stringifyCase (observed text must be in
// the 15.12.3 layout and denote the model's value) and parse(stringify(v)) = v.

var escFragments = [][]uint16{
	{'\\'}, {'"'},
	rj.U("u003c"), rj.U("u003e"), rj.U("u0026"), rj.U("u2028"), rj.U("u0000"),
	{'n'}, {'/'}, {'<'}, {'>'}, {'&'}, {0x2028}, {0x0000}, {'a'},
}

// escStrings: every concatenation of <= maxFrag fragments, without duplicates,
// in enumeration order.
func escStrings(maxFrag int) [][]uint16 {
	seen := map[string]bool{}
	var out [][]uint16
	var rec func(cur []uint16, left int)
	rec = func(cur []uint16, left int) {
		k := escText(cur)
		if !seen[k] {
			seen[k] = true
			out = append(out, append([]uint16{}, cur...))
		}
		if left == 0 {
			return
		}
		for _, f := range escFragments {
			rec(append(append([]uint16{}, cur...), f...), left-1)
		}
	}
	rec(nil, maxFrag)
	return out
}

// escShapes: the positions a string is put in.
func escShapes(s []uint16) ([]*node, []string) {
	k := string(utf16.Decode(s)) // no surrogates in the alphabet
	v := lf(rj.Str(s))
	return []*node{
			v,
			obj(k, lf(rj.Num(1))),
			obj("k", arr(v)),
			arr(obj(k, v)),
		},
		[]string{"value", "key", "nested-value", "nested-key"}
}

func runEscapeLike(r *engine.Run) {
	d := newDrv()
	strs := escStrings(3)
	pairs := namedPairs([]string{"none"}, []string{"none", "2", "dashes"})
	for _, s := range strs {
		skey := escText(s)
		if !mineValue(r, skey) {
			continue
		}
		nodes, names := escShapes(s)
		for i, n := range nodes {
			vkey := skey + "|" + names[i]
			src, val, ok := build(r, d, n)
			if !ok {
				continue
			}
			for _, p := range pairs {
				rep, sp := &replacers[p[0]], &spaces[p[1]]
				key := vkey + "|" + rep.name + "|" + sp.name
				if wantCase(r, key) {
					stringifyCase(r, &d, &sCase{key: key, n: n, src: src, val: val, rep: rep, sp: sp})
				}
			}
			// parse(stringify(v)) gives v back
			if key := vkey + "|ps"; wantCase(r, key) {
				exp := "value:" + rj.Canon(n.toModel(&hostModel{}), true)
				r.Begin(key)
				obs := ""
				o1 := d.call(d.stringify, val)
				if o1.thrown != "" || !o1.value.IsString() {
					obs = "stringify failed: " + o1.thrown
				} else {
					o2 := d.call(d.parse, o1.value)
					if o2.thrown != "" {
						obs = "parse of own output threw " + o2.thrown + ": " + escText(fromOtto(o1.value, 0).S)
					} else {
						obs = "value:" + rj.Canon(fromOtto(o2.value, 0), true)
					}
				}
				r.End()
				r.Eval(true)
				r.Outcome(obs)
				input := "JSON.parse(JSON.stringify(" + src + "))"
				if exp != obs {
					file(r, engine.Mismatch{Key: key, Input: input, Expected: exp, Observed: obs, Aux: map[string]string{"op": "roundtrip-ps", "explained_by": explainRoundtrip(exp, obs)}})
				}
			}
			r.Tree(1, int64(len(pairs)+1))
		}
		if r.Expired() {
			r.Cap("time budget reached")
			return
		}
	}
	r.Bound("fragments", strconv.Itoa(len(escFragments)))
	r.Bound("fragments_per_string", "3")
	r.Bound("strings", strconv.Itoa(len(strs)))
	r.Bound("positions", "value, key, nested value, nested key")
	r.Bound("spaces", "none, 2, \"--\"")
}
