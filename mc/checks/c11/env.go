package c11

import (
	"fmt"
	"strconv"
	"strings"

	"github.com/robertkrimen/otto"

	"verif/mc/engine"
	rj "verif/mc/ref/json"
)

// The env family: JSON.parse / JSON.stringify in a runtime whose built-in
// prototypes have been extended by the program. 15.12.2 creates every member of
// a parsed object, the root holder {"": value} of the reviver walk, and 15.12.3
// step 10 the wrapper {"": value}, with [[DefineOwnProperty]] — an accessor or a
// read-only data property of the same name inherited from Object.prototype must
// not intercept them ([[Put]] would consult it, 8.12.5). Conversely toJSON is
// looked up with [[Get]], so a toJSON on a prototype applies — to objects of that
// class only, never to primitives (15.12.3 Str step 2 requires Type(value) Object).

type protoEnv struct {
	kind  string // setter | readonly | getter  (for toJSON environments see toJSONOwners)
	owner string // Object | Array
	key   string
}

func (e protoEnv) name() string {
	return e.kind + ":" + e.owner + ".prototype[" + strconv.Quote(e.key) + "]"
}

func (e protoEnv) prelude() string {
	desc := map[string]string{
		"setter":   "{set: __env_set, configurable: true}",
		"readonly": `{value: "inherited", writable: false, configurable: true}`,
		"getter":   "{get: __env_get, configurable: true}",
	}[e.kind]
	return fmt.Sprintf("Object.defineProperty(%s.prototype, %s, %s);", e.owner, jsStr(rj.U(e.key)), desc)
}

// inherited is what [[Get]] of the name yields on an object without an own member.
func (e protoEnv) inherited() rj.Value {
	switch e.kind {
	case "readonly":
		return rj.StrOf("inherited")
	case "getter":
		return rj.StrOf("got")
	}
	return rj.Undef
}

func protoEnvs() []protoEnv {
	var out []protoEnv
	for _, kind := range []string{"setter", "readonly", "getter"} {
		for _, k := range []string{"a", "", "0", "b"} {
			out = append(out, protoEnv{kind, "Object", k})
		}
		out = append(out, protoEnv{kind, "Array", "0"}, protoEnv{kind, "Array", "1"})
	}
	return out
}

// envDrv is a throw-away runtime with the environment installed.
func envDrv(prelude string) (*drv, error) {
	d := newDrv()
	d.vm.Set("__env_set", func(call otto.FunctionCall) otto.Value { //nolint:errcheck
		if !observing {
			d.log = append(d.log, "setter("+rj.Canon(fromOtto(call.Argument(0), 0), true)+")")
		}
		return otto.UndefinedValue()
	})
	d.vm.Set("__env_get", func(call otto.FunctionCall) otto.Value { //nolint:errcheck
		if !observing {
			d.log = append(d.log, "getter()")
		}
		v, _ := otto.ToValue("got")
		return v
	})
	if _, err := d.vm.Run(prelude); err != nil {
		return nil, err
	}
	return d, nil
}

var envRevivers = []string{"none", "identity", "dropA", "replNum"}

func envTexts() [][]uint16 {
	var out [][]uint16
	seen := map[string]bool{}
	add := func(t []uint16) {
		if k := escText(t); !seen[k] && !hasLoneSurrogate(t) {
			seen[k] = true
			out = append(out, t)
		}
	}
	for _, s := range []string{`{"a":1,"b":2,"c":3}`, `{"":{"":1,"a":[{"a":2}]}}`, `[{"0":1,"a":2},[3]]`, `{"b":{"a":{"0":null}}}`, `1`, `"a"`, `null`, `[]`, `{}`} {
		add(rj.U(s))
	}
	for _, n := range depth1Reduced() {
		add(canonText(n.tokens()))
	}
	return out
}

// altPutParse: alternative model "put" — members (and the root holder of the
// reviver walk) are created with [[Put]]: a member of a plain object whose name
// has an inherited accessor / read-only property on Object.prototype is not
// created (a setter is called with the value instead), and reading it yields
// what is inherited.
func altPutParse(text []uint16, rv *argSpec, e protoEnv) string {
	unf, err := rj.Parse(text)
	if err != nil {
		return "throw:SyntaxError"
	}
	var log []string
	key := rj.K(e.key)
	var strip func(v rj.Value)
	strip = func(v rj.Value) {
		if v.Kind != rj.Object {
			return
		}
		for _, k := range v.O.OwnEnumKeys() {
			strip(v.O.Props[k].V)
		}
		if v.O.Class == "Object" && e.owner == "Object" {
			if p, ok := v.O.Props[key]; ok {
				if e.kind == "setter" {
					log = append(log, "setter("+rj.Canon(p.V, true)+")")
				}
				v.O.Delete(key)
			}
		}
	}
	strip(unf)
	h := &hostModel{}
	reviver := rv.model(h)
	v := unf
	if reviver.IsCallable() {
		root := rj.NewObject()
		if e.owner == "Object" && e.key == "" {
			if e.kind == "setter" {
				log = append(log, "setter("+rj.Canon(unf, true)+")")
			}
			if e.kind == "getter" {
				log = append(log, "getter()")
			}
			// no own "": the value is what the prototype yields
			root.Proto = rj.NewObject()
			root.Proto.Define(rj.K(""), e.inherited(), false)
		} else {
			root.Put(rj.K(""), unf)
		}
		v = rj.Walk(reviver, root, rj.K(""), false)
	}
	return renderParse(v, nil, append(log, h.log...), true)
}

func runEnv(r *engine.Run) {
	texts := envTexts()
	values := depth1Reduced()
	for _, e := range protoEnvs() {
		ekey := "put/" + e.name()
		if !mineValue(r, ekey) {
			continue
		}
		d, err := envDrv(e.prelude())
		if err != nil {
			r.HarnessError("environment " + e.name() + ": " + err.Error())
			continue
		}
		// --- parse: the result is what the text denotes, whatever is inherited
		for _, t := range texts {
			for _, rn := range envRevivers {
				key := ekey + "|parse|" + escText(t) + "|" + rn
				if !wantCase(r, key) {
					continue
				}
				rv := specByName(revivers, rn)
				exp, macc, _ := expectParse(t, rv)
				unf, _ := rj.Parse(t)
				sortLog := macc && (multiKey(unf) || true) // setter calls happen in member-creation order, which is not fixed
				h := &hostModel{}
				mv, mt := rj.ParseRevive(t, rv.model(h))
				exp = renderParse(mv, mt, h.log, sortLog)
				r.Begin(key)
				obs, oacc, err := observeParse(d, t, rv, sortLog)
				r.End()
				if err != nil {
					r.HarnessError(err.Error())
					continue
				}
				r.Eval(macc || oacc)
				r.Outcome(obs)
				input := e.prelude() + " JSON.parse(" + quoteForReport(t) + reviverSuffix(rv) + ")"
				if r.WantSample() && exp != obs {
					r.Sample(input + " => " + obs)
				}
				if exp != obs {
					eb := ""
					if altPutParse(t, rv, e) == obs {
						eb = "put"
					}
					file(r, engine.Mismatch{Key: key, Input: input, Expected: exp, Observed: obs,
						Aux: map[string]string{"op": "parse-env", "env": e.name(), "text": escText(t), "reviver": rn, "explained_by": eb}})
					if strings.HasPrefix(obs, "throw:panic") {
						if d, err = envDrv(e.prelude()); err != nil {
							break
						}
					}
				}
			}
		}
		// --- stringify: the wrapper {"": value} is created with [[DefineOwnProperty]] too
		none := &argSpec{name: "none", model: func(h *hostModel) rj.Value { return rj.Undef }}
		for _, n := range values {
			if hasLoneSurrogate(canonText(n.tokens())) {
				continue // F-C11-001 territory, covered by the stringify family
			}
			key := ekey + "|stringify|" + escText(canonText(n.tokens()))
			if !wantCase(r, key) {
				continue
			}
			src := n.toJSDefine()
			val, err := d.eval(src, false)
			if err != nil {
				r.HarnessError("value construction failed: " + src + ": " + err.Error())
				continue
			}
			envStringifyCase(r, d, &sCase{key: key, n: n, src: e.prelude() + " " + src, val: val, rep: none, sp: none}, e)
		}
		r.Tree(1, int64(len(texts)*len(envRevivers)+len(values)))
	}
	runEnvToJSON(r)
	r.Bound("environments", strconv.Itoa(len(protoEnvs()))+" ({setter, read-only, getter-only} x Object.prototype[a,\"\",0,b] / Array.prototype[0,1]) + toJSON on 6 built-in prototypes")
	r.Bound("parse", fmt.Sprintf("%d texts x %d revivers per environment", len(texts), len(envRevivers)))
	r.Bound("stringify", strconv.Itoa(len(values))+" values per environment")
}

// envStringifyCase is stringifyCase with the alternative model "put" for the
// wrapper: with an inherited accessor / read-only "" the value is never stored
// and what is serialised is the inherited value.
func envStringifyCase(r *engine.Run, d *drv, c *sCase, e protoEnv) {
	h := &hostModel{}
	res := rj.Stringify(c.n.toModel(h), rj.Undef, rj.Undef)
	exp, _ := renderStringify(res, nil)
	r.Begin(c.key)
	out := d.call(d.stringify, c.val)
	r.End()
	var ores rj.StringifyResult
	switch {
	case out.thrown != "":
		ores.Err = &rj.Throw{Class: out.thrown}
	case out.value.IsUndefined():
		ores.Undefined = true
	case out.value.IsString():
		ores.Text = fromOtto(out.value, 0).S
	default:
		ores.Err = &rj.Throw{Class: "returned a non-string"}
	}
	obs, _ := renderStringify(ores, d.log)
	r.Eval(true)
	r.Outcome(obs)
	if exp != obs {
		eb := ""
		if e.owner == "Object" && e.key == "" {
			alt, _ := renderStringify(rj.Stringify(e.inherited(), rj.Undef, rj.Undef), nil)
			switch e.kind {
			case "setter":
				alt += " ; calls: setter(" + rj.Canon(c.n.toModel(&hostModel{}), true) + ")"
			case "getter":
				alt += " ; calls: getter()"
			}
			if alt == obs {
				eb = "put"
			}
		}
		file(r, engine.Mismatch{Key: c.key, Input: "JSON.stringify(" + c.src + ")", Expected: exp, Observed: obs,
			Aux: map[string]string{"op": "stringify-env", "env": e.name(), "explained_by": eb}})
	}
}

// --- toJSON on built-in prototypes

var toJSONOwners = []string{"Object", "Array", "Number", "String", "Boolean", "Function"}

// inheritsFrom: does an object of class c inherit from owner.prototype?
func inheritsFrom(class, owner string) bool { return owner == "Object" || owner == class }

func setProto(v rj.Value, owner string, p *rj.Obj, seen map[*rj.Obj]bool) {
	if v.Kind != rj.Object || seen[v.O] {
		return
	}
	seen[v.O] = true
	if inheritsFrom(v.O.Class, owner) && v.O.Proto == nil {
		v.O.Proto = p
	}
	for _, k := range v.O.Keys {
		setProto(v.O.Props[k].V, owner, p, seen)
	}
}

func runEnvToJSON(r *engine.Run) {
	num := func(f float64) *node { return lf(rj.Num(f)) }
	values := []struct {
		name string
		n    func() *node
	}{
		{"number", func() *node { return num(1) }}, {"string", func() *node { return lf(rj.StrOf("s")) }}, {"true", func() *node { return lf(rj.Boolean(true)) }},
		{"null", func() *node { return lf(rj.Nul) }}, {"undefined", func() *node { return lf(rj.Undef) }},
		{"object", func() *node { return obj("a", num(1), "b", lf(rj.StrOf("s"))) }}, {"array", func() *node { return arr(num(1), lf(rj.Boolean(false)), lf(rj.StrOf("s"))) }},
		{"nested", func() *node { return obj("a", arr(obj("b", num(1)), num(2)), "c", obj()) }},
		{"wrappers", func() *node { return arr(wrap(rj.Num(1)), wrap(rj.StrOf("s")), wrap(rj.Boolean(false))) }},
		{"function", fn}, {"functions", func() *node { return obj("f", fn(), "g", arr(fn())) }},
		{"own-toJSON", func() *node { return obj("a", obj("x", num(1)).tj("toNum"), "b", arr(num(1))) }},
	}
	for _, owner := range toJSONOwners {
		for _, beh := range []string{"echoKey", "identity", "toUndef"} {
			prelude := fmt.Sprintf("%s.prototype.toJSON = __tj_%s;", owner, beh)
			ekey := "toJSON/" + owner + "/" + beh
			if !mineValue(r, ekey) {
				continue
			}
			d, err := envDrv(prelude)
			if err != nil {
				r.HarnessError(err.Error())
				continue
			}
			for _, v := range values {
				for _, rn := range []string{"none", "identity"} {
					key := ekey + "|" + v.name + "|" + rn
					if !wantCase(r, key) {
						continue
					}
					n := v.n()
					rep := specByName(replacers, rn)
					src, val, ok := build(r, d, n)
					if !ok {
						continue
					}
					// model: every object of the class gets the prototype with the toJSON
					h := &hostModel{}
					mv := n.toModel(h)
					p := rj.NewObject()
					p.Define(rj.K("toJSON"), rj.ObjV(h.fn("toJSON", beh)), false)
					setProto(mv, owner, p, map[*rj.Obj]bool{})
					res := rj.Stringify(mv, rep.model(h), rj.Undef)
					exp, _ := renderStringify(res, h.log)
					args, err := stringifyArgs(d, &sCase{val: val, rep: rep, sp: &spaces[0]})
					if err != nil {
						r.HarnessError(err.Error())
						continue
					}
					r.Begin(key)
					out := d.call(d.stringify, args...)
					r.End()
					var ores rj.StringifyResult
					switch {
					case out.thrown != "":
						ores.Err = &rj.Throw{Class: out.thrown}
					case out.value.IsUndefined():
						ores.Undefined = true
					case out.value.IsString():
						ores.Text = fromOtto(out.value, 0).S
					default:
						ores.Err = &rj.Throw{Class: "returned a non-string"}
					}
					obs, _ := renderStringify(ores, d.log)
					r.Eval(true)
					r.Outcome(obs)
					input := prelude + " JSON.stringify(" + src + argSrc(rep, &spaces[0]) + ")"
					if r.WantSample() {
						r.Sample(input + " => " + obs)
					}
					if exp != obs {
						file(r, engine.Mismatch{Key: key, Input: input, Expected: exp, Observed: obs, Aux: map[string]string{"op": "stringify-env-toJSON"}})
					}
				}
			}
		}
	}
}
