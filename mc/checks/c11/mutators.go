package c11

import (
	"fmt"
	"strconv"
	"strings"

	"github.com/robertkrimen/otto"

	"verif/mc/engine"
	rj "verif/mc/ref/json"
)

// Holder-mutating callbacks. 15.12.2 Walk takes the list of KEYS of an object
// (the length of an array) before visiting its members but reads each member
// with [[Get]] when it is visited; 15.12.3 JO/JA do the same (K / len first,
// Str(P, value) reads value[P] at the visit, toJSON and the replacer run before
// K of the returned value is taken). So what an earlier callback does to
// not-yet-visited members through `this` must be seen by the later visits, a
// member it deletes is visited with undefined, a member it adds is not visited.
//
// A mutator performs its side effect at the first callback invocation that
// satisfies its trigger (trigger "every": at every invocation with a key other
// than ""), and returns — for every key other than "" — the value it was given,
// another value (7) or undefined. The logic is written once over the holderOps
// interface and driven on the model object and on the otto object.

type holderOps interface {
	keys() []string            // own enumerable names in enumeration order
	set(k string, what string) // what: 100 | obj ({"k":1}) | scratch ("scratch") | deep ([1,{"k":[2]}]) | cyc (c with c.self = c)
	lock(k string)             // Object.defineProperty(o, k, {value:"frozen", writable:false, enumerable:true, configurable:false})
	del(k string)
	isArray() bool
	length() int
	// arrayOp acts on the member k when it is an array: hole (a[len+1] = 9), lenUp
	// (a.length = len+2), lenDown (a.length = 1), named (a.name = 9), delIdx (delete a[0])
	arrayOp(k string, what string)
}

type mutator struct {
	trigger string // first: first call with a key other than ""; firstContainer: first such call whose value is an object or array; every: every call with a key other than ""
	op      string
	ret     string // "" (same) | other | undef
}

func (m mutator) name() string {
	if m.ret == "" {
		return m.trigger + "_" + m.op
	}
	return m.trigger + "_" + m.op + "_" + m.ret
}

// sibling ops act on the other members of the holder; self ops on the member the
// callback is called for; val ops act on the value itself (replacer / toJSON
// only: the value is serialised afterwards).
var siblingOps = []string{"setSibs", "objSibs", "delSibs", "delOne", "addSib"}
var valueOps = []string{"valSet", "valDel", "valAdd"}
var reviverOps = []string{"none", "setSelf", "delSelf", "lockSelf", "setSibs", "objSibs", "deepSibs", "lockSibs", "delSibs", "delOne", "addSib",
	"arrHoleSibs", "arrLenUpSibs", "arrLenDownSibs", "arrNamedSibs", "arrDelIdxSibs", "holeHolder"}
var everyOps = []string{"setSelf", "delSelf", "lockSelf", "setSibs", "delSibs", "lockSibs"}

// allMutators: the replacer / toJSON mutators (they return what they were given).
func allMutators() []mutator {
	var out []mutator
	for _, t := range []string{"first", "firstContainer"} {
		for _, o := range siblingOps {
			out = append(out, mutator{t, o, ""})
		}
		for _, o := range valueOps {
			out = append(out, mutator{t, o, ""})
		}
	}
	return out
}

// reviverMutators: trigger x side effect x what is returned (15.12.2 stores the
// result back unconditionally: [[DefineOwnProperty]] of the result, or [[Delete]]
// on undefined, both with Throw false).
func reviverMutators() []mutator {
	var out []mutator
	for _, ret := range []string{"", "other", "undef"} {
		for _, t := range []string{"first", "firstContainer"} {
			for _, o := range reviverOps {
				out = append(out, mutator{t, o, ret})
			}
		}
		for _, o := range everyOps {
			out = append(out, mutator{"every", o, ret})
		}
	}
	return out
}

func mutatorByName(name string) mutator {
	for _, m := range allMutators() {
		if m.name() == name {
			return m
		}
	}
	for _, m := range reviverMutators() {
		if m.name() == name {
			return m
		}
	}
	for _, m := range cyclicMutators() {
		if m.name() == name {
			return m
		}
	}
	panic("unknown mutator " + name)
}

func isValueOp(op string) bool { return strings.HasPrefix(op, "val") }

// applyMutation performs op. key is the name the callback was called with.
func applyMutation(op, key string, h holderOps) {
	others := func() []string {
		var out []string
		for _, k := range h.keys() {
			if k != key || isValueOp(op) {
				out = append(out, k)
			}
		}
		return out
	}
	fresh := "zz"
	if h.isArray() {
		fresh = strconv.Itoa(h.length())
	}
	forOthers := func(what string) {
		for _, k := range others() {
			h.set(k, what)
		}
	}
	switch op {
	case "setSibs", "valSet":
		forOthers("100")
	case "objSibs":
		forOthers("obj")
	case "deepSibs":
		forOthers("deep")
	case "cycSibs":
		forOthers("cyc")
	case "lockSibs":
		for _, k := range others() {
			h.lock(k)
		}
	case "delSibs":
		for _, k := range others() {
			h.del(k)
		}
	case "delOne", "valDel":
		if o := others(); len(o) > 0 {
			h.del(o[0])
		}
	case "addSib", "valAdd":
		h.set(fresh, "100")
	case "setSelf":
		h.set(key, "scratch")
	case "delSelf":
		h.del(key)
	case "lockSelf":
		h.lock(key)
	case "arrHoleSibs", "arrLenUpSibs", "arrLenDownSibs", "arrNamedSibs", "arrDelIdxSibs":
		what := map[string]string{"arrHoleSibs": "hole", "arrLenUpSibs": "lenUp", "arrLenDownSibs": "lenDown", "arrNamedSibs": "named", "arrDelIdxSibs": "delIdx"}[op]
		for _, k := range others() {
			h.arrayOp(k, what)
		}
	case "holeHolder":
		// a write beyond the end of the holder itself (an array): a hole and a new last element
		if h.isArray() {
			h.set(strconv.Itoa(h.length()+1), "100")
		}
	}
}

func (m mutator) fires(key string, valIsContainer bool) bool {
	if key == "" {
		return false
	}
	return m.trigger != "firstContainer" || valIsContainer
}

// --- model side

type modelHolder struct{ o *rj.Obj }

func (h modelHolder) keys() []string {
	var out []string
	for _, k := range h.o.OwnEnumKeys() {
		out = append(out, string(utf16String(k.Units())))
	}
	return out
}
func (h modelHolder) set(k string, what string) {
	var v rj.Value
	switch what {
	case "100":
		v = rj.Num(100)
	case "scratch":
		v = rj.StrOf("scratch")
	case "obj":
		o := rj.NewObject()
		o.Put(rj.K("k"), rj.Num(1))
		v = rj.ObjV(o)
	case "deep":
		in := rj.NewObject()
		in.Put(rj.K("k"), rj.ObjV(rj.NewArray(rj.Num(2))))
		v = rj.ObjV(rj.NewArray(rj.Num(1), rj.ObjV(in)))
	case "cyc":
		o := rj.NewObject()
		o.Put(rj.K("self"), rj.ObjV(o))
		v = rj.ObjV(o)
	}
	h.o.Put(rj.K(k), v)
}
func (h modelHolder) arrayOp(k string, what string) {
	p, ok := h.o.Props[rj.K(k)]
	if !ok || p.V.Kind != rj.Object || p.V.O.Class != "Array" {
		return
	}
	a := p.V.O
	switch what {
	case "hole":
		a.Put(rj.IndexKey(a.Len+1), rj.Num(9))
	case "lenUp":
		a.Len += 2
	case "lenDown":
		for i := a.Len; i > 1; i-- {
			a.Delete(rj.IndexKey(i - 1))
		}
		if a.Len > 1 {
			a.Len = 1
		}
	case "named":
		a.Put(rj.K("name"), rj.Num(9))
	case "delIdx":
		a.Delete(rj.IndexKey(0))
	}
}
func (h modelHolder) lock(k string) { h.o.Lock(rj.K(k), rj.StrOf("frozen")) }
func (h modelHolder) del(k string)  { h.o.Delete(rj.K(k)) }
func (h modelHolder) isArray() bool { return h.o.Class == "Array" }
func (h modelHolder) length() int   { return int(h.o.Len) }

func utf16String(u []uint16) string {
	r := make([]rune, len(u))
	for i, c := range u {
		r[i] = rune(c)
	}
	return string(r)
}

func isContainerModel(v rj.Value) bool {
	return v.Kind == rj.Object && v.O.Call == nil && v.O.Class != "Function"
}

func (h *hostModel) mutFn(mode string, m mutator) *rj.Obj {
	return rj.NewFunction(func(this rj.Value, args []rj.Value) rj.Value {
		var key, val, holder rj.Value
		if thisMode(mode) {
			key, val = arg(args, 0), this
		} else {
			key, val, holder = arg(args, 0), arg(args, 1), this
		}
		h.log = append(h.log, logEntry(mode, key, val, holder, modelGet(holder, key)))
		if (!h.fired || m.trigger == "every") && m.fires(keyString(key), isContainerModel(val) || mode == "toJSON") {
			var target *rj.Obj
			switch {
			case isValueOp(m.op):
				if isContainerModel(val) {
					target = val.O
				}
			case mode == "toJSON":
				target = h.target
			case holder.Kind == rj.Object:
				target = holder.O
			}
			if target != nil {
				h.fired = true
				applyMutation(m.op, keyString(key), modelHolder{target})
			}
		}
		if keyString(key) != "" || mode == "toJSON" {
			switch m.ret {
			case "other":
				return rj.Num(7)
			case "undef":
				return rj.Undef
			}
		}
		return val
	})
}

// --- implementation side

type ottoHolder struct {
	d *drv
	v otto.Value
}

func (h ottoHolder) keys() []string { return h.v.Object().Keys() }
func (h ottoHolder) set(k string, what string) {
	var v interface{}
	switch what {
	case "100":
		v = float64(100)
	case "scratch":
		v = "scratch"
	default:
		src := map[string]string{"obj": `({"k":1})`, "deep": `([1,{"k":[2]}])`, "cyc": `(function(){var c={};c.self=c;return c})()`}[what]
		o, err := h.d.vm.Object(src)
		if err != nil {
			panic(err)
		}
		v = o.Value()
	}
	h.v.Object().Set(k, v) //nolint:errcheck
}
func (h ottoHolder) arrayOp(k string, what string) {
	observing = true
	v, err := h.v.Object().Get(k)
	observing = false
	if err != nil || !v.IsObject() || v.Object().Class() != "Array" {
		return
	}
	a := ottoHolder{h.d, v}
	n := a.length()
	switch what {
	case "hole":
		v.Object().Set(strconv.Itoa(n+1), float64(9)) //nolint:errcheck
	case "lenUp":
		v.Object().Set("length", float64(n+2)) //nolint:errcheck
	case "lenDown":
		if n > 1 {
			v.Object().Set("length", float64(1)) //nolint:errcheck
		}
	case "named":
		v.Object().Set("name", float64(9)) //nolint:errcheck
	case "delIdx":
		a.del("0")
	}
}
func (h ottoHolder) lock(k string) { h.d.lockFn.Call(otto.UndefinedValue(), h.v, k) } //nolint:errcheck
func (h ottoHolder) del(k string)  { h.d.del.Call(otto.UndefinedValue(), h.v, k) }    //nolint:errcheck
func (h ottoHolder) isArray() bool { return h.v.Object().Class() == "Array" }
func (h ottoHolder) length() int {
	l, _ := h.v.Object().Get("length")
	n, _ := l.ToInteger()
	return int(n)
}

func isContainerOtto(v otto.Value) bool { return v.IsObject() && !v.IsFunction() }

func (d *drv) registerMutators() {
	res, err := d.vm.Run(`(function(o, k) { delete o[k] })`)
	if err != nil {
		panic(err)
	}
	d.del = res
	res, err = d.vm.Run(`(function(o, k) { Object.defineProperty(o, k, {value: "frozen", writable: false, enumerable: true, configurable: false}) })`)
	if err != nil {
		panic(err)
	}
	d.lockFn = res
	d.vm.Set("__target", otto.UndefinedValue()) //nolint:errcheck
	for _, mode := range []string{"reviver", "replacer", "toJSON"} {
		prefix := map[string]string{"reviver": "__mrv_", "replacer": "__mrp_", "toJSON": "__mtj_"}[mode]
		list := allMutators()
		if mode == "reviver" {
			list = append(reviverMutators(), cyclicMutators()...)
		}
		for _, m := range list {
			if err := d.vm.Set(prefix+m.name(), d.mutHost(mode, m)); err != nil {
				panic(err)
			}
		}
	}
}

func (d *drv) mutHost(mode string, m mutator) func(call otto.FunctionCall) otto.Value {
	return func(call otto.FunctionCall) otto.Value {
		var keyV, valV, holderV otto.Value
		var holder rj.Value
		if thisMode(mode) {
			keyV, valV = call.Argument(0), call.This
		} else {
			keyV, valV, holderV = call.Argument(0), call.Argument(1), call.This
			holder = fromOtto(holderV, 0)
		}
		key, val := fromOtto(keyV, 0), fromOtto(valV, 0)
		d.log = append(d.log, logEntry(mode, key, val, holder, ottoGet(call.This, keyV, mode)))
		if (!d.fired || m.trigger == "every") && m.fires(keyString(key), isContainerOtto(valV) || mode == "toJSON") {
			var target otto.Value
			switch {
			case isValueOp(m.op):
				if isContainerOtto(valV) {
					target = valV
				}
			case mode == "toJSON":
				target, _ = d.vm.Get("__target")
			case holderV.IsObject():
				target = holderV
			}
			if target.IsObject() {
				d.fired = true
				applyMutation(m.op, keyString(key), ottoHolder{d, target})
			}
		}
		if keyString(key) != "" || mode == "toJSON" {
			switch m.ret {
			case "other":
				v, _ := otto.ToValue(float64(7))
				return v
			case "undef":
				return otto.UndefinedValue()
			}
		}
		return valV
	}
}

// ---------------------------------------------------------------------------
// family: revive-mut

var reviveMutTexts = []string{
	`{"a":1,"b":2,"c":3}`, `{"a":1,"b":2}`, `{"a":1}`, `[1,2,3]`, `[1]`,
	`{"x":{"a":1,"b":2},"y":{"a":3,"b":4}}`, `[[1,2],[3,4]]`, `{"p":[1,2,3],"q":5}`, `[{"a":1,"b":2},7]`,
	`{"a":{"a":1,"b":2},"b":2}`, `{"a":[{"a":1,"b":[2,3]}],"b":{"c":null}}`, `[1,[2,[3,{"a":4,"b":5}]]]`,
	`[[1,2],[3,4],[5]]`, `{"a":[1,2],"b":[3,4]}`, `[[1,2],{"a":[3]},[4,5,6]]`, `[0,[1,2,3]]`,
}

// forEachMemberOrder calls run with a fresh parse of text for every assignment
// of member orders to its objects with two or more members, until run returns
// true. The first assignment is the text order.
func forEachMemberOrder(text []uint16, run func(v rj.Value) bool) bool {
	var collect func(v rj.Value, out *[]*rj.Obj)
	collect = func(v rj.Value, out *[]*rj.Obj) {
		if v.Kind != rj.Object {
			return
		}
		if v.O.Class == "Object" && len(v.O.Keys) >= 2 {
			*out = append(*out, v.O)
		}
		for _, k := range v.O.Keys {
			collect(v.O.Props[k].V, out)
		}
	}
	base, err := rj.Parse(text)
	if err != nil {
		return false
	}
	var objs []*rj.Obj
	collect(base, &objs)
	total := 1
	var perms [][][]int
	for _, o := range objs {
		p := permutations(len(o.Keys))
		perms = append(perms, p)
		total *= len(p)
		if total > 50000 {
			return false
		}
	}
	idx := make([]int, len(objs))
	for n := 0; n < total; n++ {
		v, _ := rj.Parse(text)
		var os []*rj.Obj
		collect(v, &os)
		for i, o := range os {
			p := perms[i][idx[i]]
			nk := make([]rj.S16, len(o.Keys))
			for j, pj := range p {
				nk[j] = o.Keys[pj]
			}
			o.Keys = nk
		}
		if run(v) {
			return true
		}
		for i := len(idx) - 1; i >= 0; i-- {
			idx[i]++
			if idx[i] < len(perms[i]) {
				break
			}
			idx[i] = 0
		}
	}
	return false
}

func runReviveMut(r *engine.Run) {
	d := newDrv()
	for ti, t := range reviveMutTexts {
		text := rj.U(t)
		for _, m := range reviverMutators() {
			key := fmt.Sprintf("%d|%s", ti, m.name())
			if !r.MineKey(key) {
				continue
			}
			model := func(v rj.Value) string {
				h := &hostModel{}
				root := rj.NewObject()
				root.Put(rj.K(""), v)
				res := rj.Walk(rj.ObjV(h.mutFn("reviver", m)), root, rj.K(""), false)
				return renderParse(res, nil, h.log, false)
			}
			fn, err := d.eval("__mrv_"+m.name(), true)
			if err != nil {
				r.HarnessError(err.Error())
				continue
			}
			r.Begin(key)
			out := d.call(d.parse, textValue(text), fn)
			r.End()
			obs := ""
			if out.thrown != "" {
				obs = "throw:" + out.thrown + logTail(d.log, false)
			} else {
				obs = renderParse(fromOtto(out.value, 0), nil, d.log, false)
			}
			// Members come out of the implementation in an order ES5 does not fix
			// (and otto's is random, F-C11-006): the case agrees when SOME member
			// order makes the 15.12.2 transcription produce exactly the observed
			// result and call sequence. The order itself is the order family's job.
			exp := ""
			agree := forEachMemberOrder(text, func(v rj.Value) bool {
				s := model(v)
				if exp == "" {
					exp = s // text order, shown when no order agrees
				}
				return s == obs
			})
			r.Eval(true)
			r.Outcome(obs)
			input := "JSON.parse(" + quoteForReport(text) + ", __mrv_" + m.name() + ")"
			if r.WantSample() {
				r.Sample(input + " => " + obs)
			}
			if !agree {
				file(r, engine.Mismatch{Key: key, Input: input, Expected: exp + "   (or the same with another member order)", Observed: obs,
					Note: "reviver " + m.name() + ": at " + map[string]string{"first": "the first call with a key other than \"\"", "firstContainer": "the first call with a key other than \"\" whose value is an object/array", "every": "every call with a key other than \"\""}[m.trigger] +
						" it performs " + m.op + " on its holder (this); for keys other than \"\" it returns " + map[string]string{"": "the value it was given", "other": "7", "undef": "undefined"}[m.ret],
					Aux: map[string]string{"op": "parse-mutating-reviver", "text": escText(text), "mutator": m.name()}})
				if strings.HasPrefix(obs, "throw:panic") {
					d = newDrv()
				}
			}
		}
	}
	r.Bound("texts", strconv.Itoa(len(reviveMutTexts)))
	r.Bound("mutators", strconv.Itoa(len(reviverMutators()))+": {first, firstContainer} x {none, setSelf, delSelf, lockSelf, setSibs, objSibs, deepSibs, lockSibs, delSibs, delOne, addSib, array siblings: hole beyond length / length up / length down / named property / delete index, hole beyond the holder's length} + every x {setSelf, delSelf, lockSelf, setSibs, delSibs, lockSibs}, each x return {same value, 7, undefined}")
}

// ---------------------------------------------------------------------------
// family: stringify-mut

func stringifyMutNodes() ([]*node, []string, []string) {
	num := func(f float64) *node { return lf(rj.Num(f)) }
	var nodes []*node
	var names, reps []string
	add := func(name, rep string, n *node) {
		nodes, names, reps = append(nodes, n), append(names, name), append(reps, rep)
	}
	// replacer functions that mutate
	values := []struct {
		name string
		n    func() *node
	}{
		{"abc", func() *node { return obj("a", num(1), "b", num(2), "c", num(3)) }},
		{"cba", func() *node { return obj("c", num(1), "b", num(2), "a", num(3)) }},
		{"arr3", func() *node { return arr(num(1), num(2), num(3)) }},
		{"obj-of-objs", func() *node { return obj("x", obj("a", num(1), "b", num(2)), "y", obj("a", num(3), "b", num(4))) }},
		{"arr-of-arrs", func() *node { return arr(arr(num(1), num(2)), arr(num(3), num(4))) }},
		{"obj-arr-num", func() *node { return obj("p", arr(num(1), num(2), num(3)), "q", num(5), "r", num(6)) }},
		{"arr-obj-num", func() *node { return arr(obj("a", num(1), "b", num(2)), num(7), num(8)) }},
		{"num-obj-num", func() *node { return obj("a", num(0), "m", obj("a", num(1), "b", num(2)), "z", num(9)) }},
	}
	for _, v := range values {
		for _, m := range allMutators() {
			add("replacer:"+v.name+":"+m.name(), m.name(), v.n())
		}
	}
	// toJSON that mutates its own object (val ops) or the object holding it (sibling ops on the target)
	for _, m := range allMutators() {
		if m.trigger != "first" {
			continue
		}
		tj := "mut:" + m.name()
		if isValueOp(m.op) {
			add("toJSON:self@root:"+m.name(), "", obj("x", num(1), "y", num(2), "z", num(3)).tj(tj))
			add("toJSON:self@member:"+m.name(), "", obj("a", obj("x", num(1), "y", num(2), "z", num(3)).tj(tj), "b", num(2)))
			add("toJSON:self@element:"+m.name(), "", arr(arr(num(1), num(2), num(3)).tj(tj), num(2)))
			continue
		}
		t := obj("a", obj("x", num(1)).tj(tj), "b", num(2), "c", num(3))
		t.target = true
		add("toJSON:holder-object:"+m.name(), "", t)
		t = arr(obj("x", num(1)).tj(tj), num(2), num(3))
		t.target = true
		add("toJSON:holder-array:"+m.name(), "", t)
		t = obj("a", num(0), "m", obj("x", num(1)).tj(tj), "z", num(9))
		t.target = true
		add("toJSON:holder-middle:"+m.name(), "", obj("w", t, "v", num(4)))
	}
	return nodes, names, reps
}

func runStringifyMut(r *engine.Run) {
	d := newDrv()
	nodes, names, reps := stringifyMutNodes()
	for i, n := range nodes {
		for _, spName := range []string{"none", "2"} {
			key := names[i] + "|" + spName
			if !r.MineKey(key) {
				continue
			}
			sp := specByName(spaces, spName)
			rep := &argSpec{name: "none", model: func(h *hostModel) rj.Value { return rj.Undef }}
			if reps[i] != "" {
				m := mutatorByName(reps[i])
				rep = &argSpec{name: "mut:" + m.name(), js: "__mrp_" + m.name(),
					model: func(h *hostModel) rj.Value { return rj.ObjV(h.mutFn("replacer", m)) }}
			}
			// a fresh value per case: the callbacks mutate it
			src, val, ok := build(r, d, n)
			if !ok {
				continue
			}
			stringifyCase(r, &d, &sCase{key: key, n: n, src: src, val: val, rep: rep, sp: sp})
		}
	}
	r.Bound("descriptions", strconv.Itoa(len(nodes)))
	r.Bound("mutators", "2 triggers x {setSibs, objSibs, delSibs, delOne, addSib, valSet, valDel, valAdd} as replacer; first-call toJSON mutating itself / its holder")
}

// cyclicMutators: revivers that make a not-yet-visited sibling cyclic. Walk then
// never terminates by the letter of 15.12.2; an implementation must stop with an
// exception (RangeError with a stack-depth limit configured), not die. These
// cases run in a child process (family revive-cyclic), because on a defective
// implementation the unbounded native recursion is a fatal Go stack overflow.
func cyclicMutators() []mutator {
	return []mutator{{"first", "cycSibs", ""}, {"firstContainer", "cycSibs", ""}}
}
