package c11

import (
	"fmt"
	"strconv"

	"verif/mc/engine"
	rj "verif/mc/ref/json"
)

// The order family. ES5 leaves the enumeration order of properties to the
// implementation, but (a) 15.12.3 requires JSON.stringify to emit members in
// the order Object.keys uses (or in the order of the property list), and (b)
// 15.12.2 creates the members of a parsed object one after the other in text
// order, so an implementation whose enumeration order is insertion order (as
// otto's is for every other way of creating properties) enumerates them in
// text order. Both are checked only here; every other family compares key sets.
//
// JSON.parse in otto builds objects by ranging over a Go map, so its order
// changes from call to call. To keep the verdict deterministic each parse probe
// is repeated orderRuns times and reports whether ALL runs preserved the order
// (a conforming implementation: always; the map-based one: with probability
// 1/k! per object per run).

const orderRuns = 20

var orderParseTexts = []string{
	`{"d":1,"a":2,"h":3,"c":4,"f":5,"b":6,"g":7,"e":8}`,
	`{"h":1,"g":2,"f":3,"e":4,"d":5,"c":6,"b":7,"a":8}`,
	`{"b":{"z":1,"y":2,"x":3,"w":4,"v":5,"u":6},"a":[{"q":1,"p":2,"o":3,"n":4,"m":5,"l":6}]}`,
	`[{"k8":1,"k1":2,"k7":3,"k2":4,"k6":5,"k3":6,"k5":7,"k4":8}]`,
	`{"":1,"9":2,"__proto__":3,"b":4,"0":5,"a":6,"B":7,"1":8}`,
}

func runOrder(r *engine.Run) {
	d := newDrv()
	// --- parse: enumeration order == text order, every time
	for i, t := range orderParseTexts {
		for _, rvName := range []string{"none", "identity"} {
			key := fmt.Sprintf("parse/%d/%s", i, rvName)
			if !r.MineKey(key) {
				continue
			}
			rv := specByName(revivers, rvName)
			text := rj.U(t)
			h := &hostModel{}
			mv, _ := rj.ParseRevive(text, rv.model(h))
			wantOrdered, wantSet, wantLog := rj.Canon(mv, false), rj.Canon(mv, true), joinLog(h.log, false)
			wantLogSet := joinLog(h.log, true)
			preserved, sameMembers, logPreserved, sameCalls := 0, 0, 0, 0
			r.Begin(key)
			for run := 0; run < orderRuns; run++ {
				args := []interface{}{textValue(text)}
				if rv.js != "" {
					f, _ := d.eval(rv.js, true)
					args = append(args, f)
				}
				out := d.call(d.parse, args...)
				if out.thrown != "" {
					continue
				}
				ov := fromOtto(out.value, 0)
				if rj.Canon(ov, true) == wantSet {
					sameMembers++
				}
				if rj.Canon(ov, false) == wantOrdered {
					preserved++
				}
				if joinLog(d.log, true) == wantLogSet {
					sameCalls++
				}
				if joinLog(d.log, false) == wantLog {
					logPreserved++
				}
			}
			r.End()
			r.EvalN(orderRuns, orderRuns)
			exp := fmt.Sprintf("members and reviver calls in text order in %d of %d parses", orderRuns, orderRuns)
			obs := exp
			switch {
			case sameMembers != orderRuns || sameCalls != orderRuns:
				obs = fmt.Sprintf("WRONG MEMBERS OR CALLS in %d of %d parses", orderRuns-min(sameMembers, sameCalls), orderRuns)
			case preserved != orderRuns || logPreserved != orderRuns:
				obs = fmt.Sprintf("text order NOT preserved in at least one of %d parses (same members and same calls every time)", orderRuns)
			}
			r.Outcome(obs)
			input := fmt.Sprintf("%d x Object.keys order of JSON.parse(%s%s)", orderRuns, quoteForReport(text), reviverSuffix(rv))
			if r.WantSample() {
				r.Sample(input + " => " + obs)
			}
			if exp != obs {
				file(r, engine.Mismatch{Key: key, Input: input, Expected: exp, Observed: obs,
					Aux: map[string]string{"op": "parse-order", "runs": strconv.Itoa(orderRuns), "same_members": strconv.Itoa(sameMembers), "same_calls": strconv.Itoa(sameCalls),
						"members_preserved": strconv.Itoa(preserved), "calls_preserved": strconv.Itoa(logPreserved)}})
			}
		}
	}
	// --- stringify: member order == Object.keys order / property list order
	num := func(f float64) *node { return lf(rj.Num(f)) }
	probes := []struct {
		name string
		n    *node
	}{
		{"b-a", obj("b", num(1), "a", num(2))},
		{"a-b", obj("a", num(1), "b", num(2))},
		{"proto-a", obj("a", num(1), "__proto__", num(2), "", num(3))},
		{"eight", obj("d", num(1), "a", num(2), "h", num(3), "c", num(4), "f", num(5), "b", num(6), "g", num(7), "e", num(8))},
		{"nested", obj("z", obj("y", num(1), "x", num(2)), "m", arr(obj("k", num(1), "j", num(2), "i", num(3))))},
		{"digits", obj("10", num(1), "9", num(2), "1", num(3), "b", num(4), "B", num(5))},
		{"tojson", obj("q", obj("b", num(1), "a", num(2)).tj("toObj"), "p", num(0))},
	}
	pairs := namedPairs([]string{"none", "identity", "list-wrapped", "list-1aa{}"}, []string{"none", "2"})
	for _, p := range probes {
		src, val, ok := build(r, d, p.n)
		if !ok {
			continue
		}
		for _, pr := range pairs {
			rep, sp := &replacers[pr[0]], &spaces[pr[1]]
			key := "stringify/" + p.name + "|" + rep.name + "|" + sp.name
			if !r.MineKey(key) {
				continue
			}
			stringifyCase(r, &d, &sCase{key: key, n: p.n, src: src, val: val, rep: rep, sp: sp, order: true})
		}
	}
	r.Bound("parse_probes", fmt.Sprintf("%d texts x {no reviver, identity reviver} x %d repetitions", len(orderParseTexts), orderRuns))
	r.Bound("stringify_probes", fmt.Sprintf("%d values x %d argument pairs", len(probes), len(pairs)))
}
