// Package c11 checks JSON.parse / JSON.stringify of otto against ref/json, the
// transcription of ES5.1 15.12: acceptance of exactly the JSON grammar, the
// value a text denotes, the reviver walk, the serialisation algorithm with
// toJSON / replacer / property list / gap, cycles, and the round trips — by
// bounded exhaustive enumeration of texts, values and argument tuples.
package c11

import (
	"fmt"
	"math"
	"os"
	"strconv"
	"strings"
	"time"

	"github.com/robertkrimen/otto"

	"verif/mc/engine"
	rj "verif/mc/ref/json"
)

var inf = math.Inf(1)
var nan = math.NaN()

func init() {
	engine.Register(&engine.Check{
		ID:    "C11",
		Title: "JSON.parse / JSON.stringify agree with the JSON grammar and round-trip",
		Rule: "every case is one call of the real JSON.parse / JSON.stringify (through Value.Call) compared with ref/json (ES5.1 15.12.1-15.12.3). " +
			"tokens: every concatenation of <= 5 (quick) / 6 (thorough) tokens of a 19-token alphabet; mutate: every single-character insert/replace/delete (27-character alphabet) at every position of 64 valid texts (thorough: also pairs on short texts); " +
			"ptext: every JSON value of the stated depth rendered as text, canonical and with <= 1 (2) spelling deviations (white space at a token boundary, alternative escape/number spelling); revive: texts x 11 reviver arguments with the call log; " +
			"stringify: values x replacer x space; revive-mut / stringify-mut: revivers, replacer functions and toJSON that overwrite / replace / delete / add not-yet-visited members of their holder (or of the value) through this at their first call; args: script-level calls with non-string / missing arguments and script callbacks; special: toJSON/wrappers/functions/undefined/holes/prototype/attributes/sharing; cycles: cycles of length 1-3; sharing: the same function / wrapper / toJSON-bearing object / array / object reached twice (siblings, aunt-niece, via toJSON or replacer results) must not be a cycle, self references and length-2 cycles through each kind; roundtrip; order: dedicated key-order probes; escapelike: every string of <= 3 fragments over {backslash, quote, u003c, u003e, u0026, u2028, u0000, n, /, <, >, &, U+2028, U+0000, a} (content that looks like an escape sequence) as value / property name / nested value / nested property name x space in {absent, 2, \"--\"}, plus parse(stringify(v)). " +
			"A case is non-trivial when at least one side accepts the text / produces a text (not: both reject with SyntaxError).",
		Families: []engine.Family{
			{Name: "selfcheck", Run: runSelfcheck, Solo: true},
			{Name: "order", Run: runOrder, Solo: true},
			{Name: "args", Run: runArgs, Solo: true},
			{Name: "mutate", Run: runMutate},
			{Name: "revive", Run: runRevive},
			{Name: "revive-mut", Run: runReviveMut},
			{Name: "revive-cyclic", Run: runReviveCyclic},
			{Name: "revive-cyclic-child", Run: runReviveCyclicChild, Solo: true},
			{Name: "stringify-growing", Run: runStringifyGrowing},
			{Name: "stringify-growing-child", Run: runStringifyGrowingChild, Solo: true},
			{Name: "stringify-mut", Run: runStringifyMut},
			{Name: "special", Run: runSpecial},
			{Name: "cycles", Run: runCycles},
			{Name: "sharing", Run: runSharing},
			{Name: "wrappers", Run: runWrappers},
			{Name: "env", Run: runEnv},
			{Name: "reentrant", Run: runReentrant},
			{Name: "roundtrip", Run: runRoundtrip},
			{Name: "escapelike", Run: runEscapeLike},
			{Name: "ptext", Run: runPText},
			{Name: "stringify", Run: runStringify},
			{Name: "tokens", Run: runTokens},
		},
		Assumptions: []string{
			"ref/json is a faithful transcription of ES5.1 15.12.1-15.12.3 (cross-checked against V8 at development time; differences explained by ES2019 well-formed JSON.stringify)",
			"decimal -> double conversion of the reference parser: exact single-operation fast path or math/big rational arithmetic (Rat.Float64 rounds to nearest even)",
			"shortest round-trip digit generation of strconv.FormatFloat is trusted for the model's Number::toString (only the denotation of emitted numbers is compared)",
			"results are observed through otto's Go API (Object.Keys/Get/Class, Value.ToFloat, internal UTF-16 units by reflection), not through scripts of the system under test",
			"ES5 leaves property enumeration order to the implementation; key order is therefore compared only in the 'order' family, against otto's own insertion order (text order for parse, Object.keys order for stringify as 15.12.3 requires)",
		},
		CrashIsViolation: true,
		QuickBudget:      5 * time.Minute,
		ThoroughBudget:   40 * time.Minute,
	})
}

// dev aid: C11_DUMP=<file> appends one line per mismatch (development only).
func dump(m engine.Mismatch) {
	p := os.Getenv("C11_DUMP")
	if p == "" {
		return
	}
	f, err := os.OpenFile(p, os.O_APPEND|os.O_CREATE|os.O_WRONLY, 0o644)
	if err != nil {
		return
	}
	fmt.Fprintf(f, "%s\t%s\t%v\tEXP %s\tOBS %s\tBY %s\n", m.Family, m.Key, m.Input, m.Expected, m.Observed, m.Aux["explained_by"])
	f.Close()
}

func file(r *engine.Run, m engine.Mismatch) {
	m.Family = r.Family()
	dump(m)
	r.Mismatch(m)
}

// ---------------------------------------------------------------------------
// parse

// multiKey reports whether v contains an object with two or more members (the
// reviver call order is then implementation-defined).
func multiKey(v rj.Value) bool {
	if v.Kind != rj.Object {
		return false
	}
	if v.O.Class != "Array" && len(v.O.Keys) >= 2 {
		return true
	}
	for _, k := range v.O.Keys {
		if multiKey(v.O.Props[k].V) {
			return true
		}
	}
	return false
}

func renderParse(v rj.Value, t *rj.Throw, log []string, sortLog bool) string {
	s := ""
	if t != nil {
		s = "throw:" + t.Class
	} else {
		s = "value:" + rj.Canon(v, true)
	}
	if len(log) > 0 {
		s += " ; calls: " + joinLog(log, sortLog)
	}
	return s
}

// expectParse runs the model.
func expectParse(text []uint16, rv *argSpec) (exp string, accepts, sortLog bool) {
	unf, err := rj.Parse(text)
	accepts = err == nil
	sortLog = accepts && multiKey(unf)
	h := &hostModel{}
	v, t := rj.ParseRevive(text, rv.model(h))
	return renderParse(v, t, h.log, sortLog), accepts, sortLog
}

// observeParse runs the implementation.
func observeParse(d *drv, text []uint16, rv *argSpec, sortLog bool) (obs string, accepts bool, err error) {
	args := []interface{}{textValue(text)}
	if rv.js != "" {
		f, err := d.eval(rv.js, true)
		if err != nil {
			return "", false, err
		}
		args = append(args, f)
	}
	out := d.call(d.parse, args...)
	if out.thrown != "" {
		return "throw:" + out.thrown + logTail(d.log, sortLog), false, nil
	}
	return renderParse(fromOtto(out.value, 0), nil, d.log, sortLog), true, nil
}

func logTail(log []string, sortLog bool) string {
	if len(log) == 0 {
		return ""
	}
	return " ; calls: " + joinLog(log, sortLog)
}

// parseCase executes and judges one JSON.parse case.
func parseCase(r *engine.Run, d **drv, key string, text []uint16, rv *argSpec) {
	exp, macc, sortLog := expectParse(text, rv)
	r.Begin(key)
	obs, oacc, err := observeParse(*d, text, rv, sortLog)
	r.End()
	if err != nil {
		r.HarnessError("reviver construction failed: " + err.Error())
		return
	}
	r.Eval(macc || oacc)
	r.Outcome(obs)
	input := "JSON.parse(" + quoteForReport(text) + reviverSuffix(rv) + ")"
	if r.WantSample() && (macc || oacc) {
		r.Sample(input + " => " + obs)
	}
	if exp != obs {
		file(r, engine.Mismatch{Key: key, Input: input, Expected: exp, Observed: obs,
			Aux: map[string]string{"op": "parse", "text": escText(text), "reviver": rv.name, "explained_by": explainParse(text, rv, exp, obs, sortLog),
				"model_accepts": strconv.FormatBool(macc), "impl_accepts": strconv.FormatBool(oacc)}})
		if strings.HasPrefix(obs, "throw:panic") {
			*d = newDrv()
		}
	}
}

func reviverSuffix(rv *argSpec) string {
	if rv.js == "" {
		return ""
	}
	return ", " + rv.js
}

func quoteForReport(u []uint16) string { return "'" + escText(u) + "'" }

var noReviver = &revivers[0]

// ---------------------------------------------------------------------------
// family: tokens

var tokenAlphabet = []string{"[", "]", "{", "}", ",", ":", `"a"`, `""`, "1", "-1", "0", "01", "1.", ".5", "1e2", "-", "true", "null", " "}

func tokenText(length int, idx int64) []uint16 {
	n := int64(len(tokenAlphabet))
	parts := make([]string, length)
	for i := length - 1; i >= 0; i-- {
		parts[i] = tokenAlphabet[idx%n]
		idx /= n
	}
	return rj.U(strings.Join(parts, ""))
}

func runTokens(r *engine.Run) {
	maxLen := 5
	if r.Thorough() {
		maxLen = 6
	}
	d := newDrv()
	one := func(length int, idx int64) {
		key := fmt.Sprintf("L%d:%s", length, strconv.FormatInt(idx, 36))
		text := tokenText(length, idx)
		_, err := rj.Parse(text)
		out := d.call(d.parse, textValue(text))
		if err != nil && out.thrown == "SyntaxError" {
			r.Eval(false)
			return
		}
		// somebody accepted (or threw something else): full comparison
		exp, macc, _ := expectParse(text, noReviver)
		obs := ""
		if out.thrown != "" {
			obs = "throw:" + out.thrown
		} else {
			obs = renderParse(fromOtto(out.value, 0), nil, nil, false)
		}
		r.Eval(true)
		r.Outcome(obs)
		input := "JSON.parse(" + quoteForReport(text) + ")"
		if r.WantSample() {
			r.Sample(input + " => " + obs)
		}
		if exp != obs {
			file(r, engine.Mismatch{Key: key, Input: input, Expected: exp, Observed: obs,
				Aux: map[string]string{"op": "parse", "text": escText(text), "reviver": "none", "explained_by": explainParse(text, noReviver, exp, obs, false),
					"model_accepts": strconv.FormatBool(macc), "impl_accepts": strconv.FormatBool(out.thrown == "")}})
			if strings.HasPrefix(obs, "throw:panic") {
				d = newDrv()
			}
		}
	}
	if r.ReplayKey != "" {
		var length int
		var rest string
		if _, err := fmt.Sscanf(r.ReplayKey, "L%d:%s", &length, &rest); err == nil {
			idx, _ := strconv.ParseInt(rest, 36, 64)
			one(length, idx)
		}
		return
	}
	n := int64(len(tokenAlphabet))
	for length := 0; length <= maxLen; length++ {
		total := int64(1)
		for i := 0; i < length; i++ {
			total *= n
		}
		for idx := int64(0); idx < total; idx++ {
			if !r.Mine() {
				continue
			}
			if idx&0xFFF < int64(r.NShards) { // announce once per block (cheap crash attribution)
				r.Begin(fmt.Sprintf("L%d:%s", length, strconv.FormatInt(idx, 36)))
			}
			one(length, idx)
			if idx&0xFFFF == 0 && r.Expired() {
				r.Cap(fmt.Sprintf("time budget reached in length %d", length))
				r.End()
				return
			}
		}
		r.End()
		r.Bound("token_string_length", strconv.Itoa(length))
	}
	r.Bound("token_alphabet", strconv.Itoa(len(tokenAlphabet)))
}

// ---------------------------------------------------------------------------
// family: mutate

var mutateBases = []string{
	`null`, `true`, `false`, `0`, `-0`, `1`, `-1`, `10`, `1.5`, `-1.5e+2`, `1e2`, `1E-2`, `0.5`, `0e0`, `12.34e56`,
	`""`, `"a"`, `"ab"`, `"\""`, `"\\"`, `"\/"`, `"\b\f\n\r\t"`, `"A"`, `"é😀"`, `"a b"`, `"/"`, `"'"`,
	`[]`, `[1]`, `[1,2]`, `[[]]`, `[[],[]]`, `[{}]`, `["a",1,true,null]`, `[1,[2,[3]]]`, `[ 1 , 2 ]`,
	`{}`, `{"a":1}`, `{"a":1,"b":2}`, `{"":0}`, `{"a":{}}`, `{"a":[]}`, `{"a":{"b":null}}`, `{"a":[1,{"b":2}]}`, `{ "a" : 1 }`, `{"a":"b"}`,
	`{"a":1,"a":2}`, `{"__proto__":1}`, `{"0":"\u0000"}`, `{"a":true,"b":false,"c":null}`,
	` 1`, `1 `, "\t1\n", "\r\n[\r\n]\r\n", ` "a" `, ` { } `, ` [ ] `, `[1, 2]`, `{"a": 1}`, `{"a" :1}`,
	`[-0]`, `[1e2,1E+2,1e-2]`, `[0.1]`, `[" "]`,
}

var mutateAlphabet = []uint16{'{', '}', '[', ']', ':', ',', '"', '\\', '/', '0', '1', '-', '+', '.', 'e', 'E', 't', 'n', 'u', '\'', ' ', '\t', '\n', 0x00A0, 0xFEFF, 0x0000, 'x'}

// mutations calls f for every single-character mutation of text at positions >= from.
func mutations(text []uint16, from int, f func(tag string, pos int, out []uint16)) {
	for pos := from; pos <= len(text); pos++ {
		for ci, c := range mutateAlphabet {
			out := make([]uint16, 0, len(text)+1)
			out = append(out, text[:pos]...)
			out = append(out, c)
			out = append(out, text[pos:]...)
			f(fmt.Sprintf("i%d.%d", pos, ci), pos, out)
		}
	}
	for pos := from; pos < len(text); pos++ {
		for ci, c := range mutateAlphabet {
			if text[pos] == c {
				continue
			}
			out := append([]uint16{}, text...)
			out[pos] = c
			f(fmt.Sprintf("r%d.%d", pos, ci), pos, out)
		}
		out := make([]uint16, 0, len(text))
		out = append(out, text[:pos]...)
		out = append(out, text[pos+1:]...)
		f(fmt.Sprintf("d%d", pos), pos, out)
	}
}

func runMutate(r *engine.Run) {
	d := newDrv()
	for bi, b := range mutateBases {
		base := rj.U(b)
		k0 := fmt.Sprintf("%d/base", bi)
		if r.MineKey(k0) {
			parseCase(r, &d, k0, base, noReviver)
		}
		mutations(base, 0, func(tag string, pos int, out []uint16) {
			key := fmt.Sprintf("%d/%s", bi, tag)
			if r.MineKey(key) {
				parseCase(r, &d, key, out, noReviver)
			}
			if r.Thorough() && len(base) <= 9 {
				mutations(out, pos, func(tag2 string, _ int, out2 []uint16) {
					key2 := key + "+" + tag2
					if r.MineKey(key2) {
						parseCase(r, &d, key2, out2, noReviver)
					}
				})
			}
		})
		if r.Expired() {
			r.Cap("time budget reached")
			return
		}
	}
	r.Bound("base_texts", strconv.Itoa(len(mutateBases)))
	r.Bound("mutation_alphabet", strconv.Itoa(len(mutateAlphabet)))
	if r.Thorough() {
		r.Bound("mutations_per_text", "1 (all texts), 2 (texts of <= 9 characters)")
	} else {
		r.Bound("mutations_per_text", "1")
	}
}

// ---------------------------------------------------------------------------
// family: ptext (values as text, with spelling deviations)

// mineValue shards at the level of a value; in replay mode only the value
// whose key is the prefix of the replay key is processed.
func mineValue(r *engine.Run, vkey string) bool {
	if r.ReplayKey != "" {
		return strings.HasPrefix(r.ReplayKey, vkey+"|")
	}
	return r.Mine()
}

func wantCase(r *engine.Run, key string) bool {
	return r.ReplayKey == "" || r.ReplayKey == key
}

func runPText(r *engine.Run) {
	d := newDrv()
	type set struct {
		name  string
		nodes []*node
		bound int
	}
	sets := []set{{"d1", depth1(), 1}}
	if r.Thorough() {
		sets = append(sets, set{"d1r", depth1Reduced(), 2}, set{"d2", depth2(), 1})
	}
	for _, s := range sets {
		for _, n := range s.nodes {
			toks := n.tokens()
			canon := canonText(toks)
			vkey := s.name + ":" + escText(canon)
			if !mineValue(r, vkey) {
				continue
			}
			// harness self-check: the model parser reads the canonical text back as the described value
			if pv, err := rj.Parse(canon); err != nil || rj.Canon(pv, false) != rj.Canon(n.toModel(&hostModel{}), false) {
				r.HarnessError("model parser does not reproduce the generated value for " + escText(canon))
			}
			spellings(toks, s.bound, func(tag string, text []uint16) {
				key := vkey + "|" + tag
				if wantCase(r, key) {
					parseCase(r, &d, key, text, noReviver)
				}
			})
			r.Tree(1, 1)
			if r.Expired() {
				break
			}
		}
		if r.Expired() {
			r.Cap("time budget reached in set " + s.name)
			return
		}
		r.Bound("values_"+s.name, fmt.Sprintf("%d values, <= %d spelling deviations", len(s.nodes), s.bound))
	}
}

// ---------------------------------------------------------------------------
// family: revive

var reviveTexts = []string{
	`{"a":1,"b":2,"c":3}`, `{"b":1,"a":2,"c":3}`, `{"c":1,"b":2,"a":3}`, `{"a":1,"b":2,"c":3,"d":4}`, `{"d":1,"c":"x","b":3,"a":null}`,
	`[1,2,3]`, `[1,"a",null,[2,{"a":3}]]`, `{"x":{"a":1,"b":2,"c":3},"a":[1,2]}`, `[{"a":1},{"a":2,"b":3}]`, `{"a":{"a":{"a":1}}}`,
	`[[[]]]`, `{"a":[],"b":{}}`, `"a"`, `1`, `null`, `{"":1}`, `{"":{"":1}}`, `[{"a":[{"a":1,"b":2}]}]`, `{"a":[1,2,3],"b":[4,5,6],"c":7}`,
	`{"a":1,}`, ``, `[1,2`, `{"a":1,"a":2,"b":3}`, `[null,1,null]`, `{"b":[1,2,3,4]}`,
}

func runRevive(r *engine.Run) {
	d := newDrv()
	var texts [][]uint16
	for _, t := range reviveTexts {
		texts = append(texts, rj.U(t))
	}
	nodes := depth1Reduced()
	if r.Thorough() {
		nodes = append(depth1(), depth2()...)
	}
	for _, n := range nodes {
		texts = append(texts, canonText(n.tokens()))
	}
	seen := map[string]bool{}
	for _, t := range texts {
		vkey := escText(t)
		if seen[vkey] {
			continue
		}
		seen[vkey] = true
		if !mineValue(r, vkey) {
			continue
		}
		for i := range revivers {
			rv := &revivers[i]
			key := vkey + "|" + rv.name
			if wantCase(r, key) {
				parseCase(r, &d, key, t, rv)
			}
		}
		r.Tree(1, int64(len(revivers)))
		if r.Expired() {
			r.Cap("time budget reached")
			return
		}
	}
	r.Bound("texts", strconv.Itoa(len(texts)))
	r.Bound("revivers", strconv.Itoa(len(revivers)))
}

// ---------------------------------------------------------------------------
// stringify

func renderStringify(res rj.StringifyResult, log []string) (string, string) {
	s := ""
	den := ""
	switch {
	case res.Err != nil:
		s = "throw:" + res.Err.Class
	case res.Undefined:
		s = "undefined"
	default:
		v, err := rj.ReadIndented(res.Text, res.Gap)
		if err != nil {
			s = "text(gap='" + escText(res.Gap) + "') NOT in the 15.12.3 layout (" + err.Error() + "): " + escText(res.Text)
		} else {
			den = rj.Canon(v, false)
			s = "text(gap='" + escText(res.Gap) + "') denoting " + rj.Canon(v, true)
		}
	}
	return s + logTail(log, false), den
}

// sortedDenotation is the denotation of a model result with the members of
// every object sorted by name (the alternative model of an implementation that
// emits members in sorted order).
func sortedDenotation(res rj.StringifyResult) string {
	if res.Err != nil || res.Undefined {
		return ""
	}
	v, err := rj.ReadIndented(res.Text, res.Gap)
	if err != nil {
		return ""
	}
	return rj.Canon(v, true)
}

type sCase struct {
	key   string
	n     *node
	src   string
	val   otto.Value
	rep   *argSpec
	sp    *argSpec
	order bool // compare member order too (order family)
}

func stringifyArgs(d *drv, c *sCase) ([]interface{}, error) {
	args := []interface{}{c.val}
	if c.rep.js != "" || c.sp.js != "" {
		if c.rep.js != "" {
			v, err := d.eval(c.rep.js, true)
			if err != nil {
				return nil, err
			}
			args = append(args, v)
		} else {
			args = append(args, otto.UndefinedValue())
		}
	}
	if c.sp.js != "" {
		v, err := d.eval(c.sp.js, true)
		if err != nil {
			return nil, err
		}
		args = append(args, v)
	}
	return args, nil
}

// stringifyCase executes and judges one JSON.stringify case.
func stringifyCase(r *engine.Run, d **drv, c *sCase) {
	h := &hostModel{}
	mv := c.n.toModel(h)
	res := rj.Stringify(mv, c.rep.model(h), c.sp.model(h))
	exp, expOrdered := renderStringify(res, h.log)
	if strings.Contains(exp, "NOT in the 15.12.3 layout") {
		r.HarnessError("model output is not readable by the layout reader: " + exp)
		return
	}
	args, err := stringifyArgs(*d, c)
	if err != nil {
		r.HarnessError("argument construction failed: " + err.Error())
		return
	}
	r.Begin(c.key)
	out := (*d).call((*d).stringify, args...)
	r.End()
	var ores rj.StringifyResult
	ores.Gap = res.Gap
	obsText := ""
	switch {
	case out.thrown != "":
		ores.Err = &rj.Throw{Class: out.thrown}
	case out.value.IsUndefined():
		ores.Undefined = true
	case out.value.IsString():
		ores.Text = fromOtto(out.value, 0).S
		obsText = escText(ores.Text)
	default:
		ores.Err = &rj.Throw{Class: "returned a non-string: " + rj.Canon(fromOtto(out.value, 0), true)}
	}
	obs, obsOrdered := renderStringify(ores, (*d).log)
	if c.order && exp == obs {
		exp += " ; member order " + expOrdered
		obs += " ; member order " + obsOrdered
	}
	nontrivial := !res.Undefined || !ores.Undefined
	r.Eval(nontrivial)
	r.Outcome(obs)
	input := "JSON.stringify(" + c.src + argSrc(c.rep, c.sp) + ")"
	if r.WantSample() && obsText != "" {
		r.Sample(input + " => " + obsText)
	}
	if exp != obs {
		file(r, engine.Mismatch{Key: c.key, Input: input, Expected: exp, Observed: obs,
			Note: "model text: " + escText(res.Text) + " | observed text: " + obsText,
			Aux: map[string]string{"op": "stringify", "explained_by": explainStringify(c, exp, obs, ores, append([]string{}, (*d).log...)), "exp_text": escText(res.Text), "obs_text": obsText, "gap": escText(res.Gap),
				"replacer": c.rep.name, "space": c.sp.name, "exp_ordered": expOrdered, "obs_ordered": obsOrdered, "exp_sorted": sortedDenotation(res)}})
		if strings.HasPrefix(obs, "throw:panic") {
			*d = newDrv()
		}
	}
}

func argSrc(rep, sp *argSpec) string {
	s := ""
	if rep.js != "" || sp.js != "" {
		if rep.js != "" {
			s += ", " + rep.js
		} else {
			s += ", undefined"
		}
	}
	if sp.js != "" {
		s += ", " + sp.js
	}
	return s
}

// build evaluates the construction code of a value description.
func build(r *engine.Run, d *drv, n *node) (string, otto.Value, bool) {
	src := n.toJS()
	v, err := d.eval(src, false)
	if err != nil {
		r.HarnessError("value construction failed: " + src + ": " + err.Error())
		return src, v, false
	}
	return src, v, true
}

// runProduct runs nodes x argument pairs. pairs decides which (replacer, space)
// combinations are enumerated for a set.
func runProduct(r *engine.Run, d **drv, prefix string, nodes []*node, keyOf func(i int, n *node) string, pairs [][2]int) bool {
	for i, n := range nodes {
		vkey := prefix + ":" + keyOf(i, n)
		if !mineValue(r, vkey) {
			continue
		}
		src, val, ok := build(r, *d, n)
		if !ok {
			continue
		}
		for _, p := range pairs {
			rep, sp := &replacers[p[0]], &spaces[p[1]]
			key := vkey + "|" + rep.name + "|" + sp.name
			if wantCase(r, key) {
				stringifyCase(r, d, &sCase{key: key, n: n, src: src, val: val, rep: rep, sp: sp})
			}
		}
		r.Tree(1, int64(len(pairs)))
		if r.Expired() {
			r.Cap("time budget reached in set " + prefix)
			return false
		}
	}
	return true
}

func fullPairs() [][2]int {
	var out [][2]int
	for i := range replacers {
		for j := range spaces {
			out = append(out, [2]int{i, j})
		}
	}
	return out
}

// axisPairs: at most one of the two arguments deviates from "absent".
func axisPairs() [][2]int {
	out := [][2]int{{0, 0}}
	for i := 1; i < len(replacers); i++ {
		out = append(out, [2]int{i, 0})
	}
	for j := 1; j < len(spaces); j++ {
		out = append(out, [2]int{0, j})
	}
	return out
}

func namedPairs(reps, sps []string) [][2]int {
	var out [][2]int
	for _, rn := range reps {
		for _, sn := range sps {
			ri, si := -1, -1
			for i := range replacers {
				if replacers[i].name == rn {
					ri = i
				}
			}
			for j := range spaces {
				if spaces[j].name == sn {
					si = j
				}
			}
			if ri < 0 || si < 0 {
				panic("namedPairs: " + rn + " / " + sn)
			}
			out = append(out, [2]int{ri, si})
		}
	}
	return out
}

func textKey(_ int, n *node) string { return escText(canonText(n.tokens())) }

func runStringify(r *engine.Run) {
	d := newDrv()
	if r.Thorough() {
		if !runProduct(r, &d, "d1", depth1(), textKey, fullPairs()) {
			return
		}
		if !runProduct(r, &d, "d2", depth2(), textKey, axisPairs()) {
			return
		}
		r.Bound("values", "depth<=1 x all (replacer, space) pairs; depth 2 x pairs with at most one argument present")
	} else {
		if !runProduct(r, &d, "d1r", depth1Reduced(), textKey, fullPairs()) {
			return
		}
		if !runProduct(r, &d, "d1", depth1(), textKey, axisPairs()) {
			return
		}
		r.Bound("values", "depth<=1 over reduced leaves x all (replacer, space) pairs; depth<=1 x pairs with at most one argument present")
	}
	r.Bound("replacers", strconv.Itoa(len(replacers)))
	r.Bound("spaces", strconv.Itoa(len(spaces)))
}

// ---------------------------------------------------------------------------
// family: special

func specialNodes() ([]*node, []string) {
	var nodes []*node
	var names []string
	add := func(name string, n *node) {
		nodes = append(nodes, n)
		names = append(names, name)
	}
	num := func(f float64) *node { return lf(rj.Num(f)) }
	str := func(s string) *node { return lf(rj.StrOf(s)) }
	undef := lf(rj.Undef)
	// leaves that are not JSON values
	for _, l := range []struct {
		name string
		n    func() *node
	}{
		{"undefined", func() *node { return undef }}, {"NaN", func() *node { return num(nan) }}, {"Infinity", func() *node { return num(inf) }},
		{"-Infinity", func() *node { return num(-inf) }}, {"function", fn},
		{"NumberObj", func() *node { return wrap(rj.Num(5)) }}, {"NumberObjNaN", func() *node { return wrap(rj.Num(nan)) }}, {"NumberObj-0", func() *node { return wrap(rj.Num(negZero)) }},
		{"StringObj", func() *node { return wrap(rj.StrOf("s\"")) }}, {"StringObjE9", func() *node { return wrap(rj.Str([]uint16{0xE9, 0x2028})) }},
		{"BooleanObjFalse", func() *node { return wrap(rj.Boolean(false)) }}, {"BooleanObjTrue", func() *node { return wrap(rj.Boolean(true)) }},
	} {
		add(l.name+"@root", l.n())
		add(l.name+"@obj", obj("a", l.n(), "b", num(1)))
		add(l.name+"@objOnly", obj("b", l.n()))
		add(l.name+"@arr", arr(num(0), l.n()))
		add(l.name+"@arrOnly", arr(l.n()))
		add(l.name+"@nested", obj("b", arr(obj("a", l.n(), "c", l.n()))))
	}
	// toJSON: holders x behaviours x positions
	holders := []struct {
		name string
		n    func() *node
	}{
		{"obj", func() *node { return obj("a", num(1), "x", num(2)) }}, {"arr", func() *node { return arr(num(1)) }},
		{"NumberObj", func() *node { return wrap(rj.Num(5)) }}, {"StringObj", func() *node { return wrap(rj.StrOf("s")) }},
		{"BooleanObj", func() *node { return wrap(rj.Boolean(false)) }}, {"function", fn},
	}
	for _, h := range holders {
		for _, b := range []string{"identity", "toNum", "toStr", "toUndef", "echoKey", "toObj"} {
			add("toJSON:"+h.name+":"+b+"@root", h.n().tj(b))
			add("toJSON:"+h.name+":"+b+"@a", obj("a", h.n().tj(b), "b", num(1)))
			add("toJSON:"+h.name+":"+b+"@b", obj("b", h.n().tj(b)))
			add("toJSON:"+h.name+":"+b+"@1", arr(num(0), h.n().tj(b)))
		}
	}
	// toJSON that is not callable, inherited toJSON, inherited and non-enumerable members
	add("toJSON-noncallable", obj("toJSON", num(1), "a", num(2)))
	add("toJSON-inherited", &node{kind: nProto, keys: []string{"", "a"}, kids: []*node{obj().tj("echoKey"), num(1)}})
	add("toJSON-inherited@b", obj("b", &node{kind: nProto, keys: []string{"", "a"}, kids: []*node{obj().tj("echoKey"), num(1)}}))
	add("inherited-enumerable", &node{kind: nProto, keys: []string{"", "own"}, kids: []*node{obj("a", num(1), "inh", num(2)), num(3)}})
	add("inherited-enumerable@arr", arr(&node{kind: nProto, keys: []string{"", "a"}, kids: []*node{obj("b", num(2)), num(3)}}))
	ne := obj("a", num(1), "hidden", num(2), "b", num(3))
	ne.nonEnum = []bool{false, true, false}
	add("non-enumerable", ne)
	ne2 := obj("a", num(1))
	ne2.nonEnum = []bool{true}
	add("non-enumerable-only", ne2)
	// holes
	add("hole", arr(num(1), &node{kind: nHole}, num(3)))
	add("hole-last", arr(num(1), &node{kind: nHole}))
	add("hole@a", obj("a", arr(&node{kind: nHole}, str("x"))))
	// sharing without cycles (must not throw)
	add("shared-arr", arr(obj("x", num(1)).lab(1), refTo(1)))
	add("shared-obj", obj("a", obj("x", num(1)).lab(1), "b", obj("c", refTo(1))))
	add("shared-deep", obj("a", arr(arr().lab(1)), "b", arr(refTo(1), refTo(1))))
	add("shared-after-nesting", arr(arr(obj().lab(1)), refTo(1), arr(arr(refTo(1)))))
	// wider objects and arrays
	add("wide-obj", obj("d", num(1), "a", str("x"), "c", lf(rj.Nul), "b", arr(num(1), num(2), num(3))))
	add("wide-arr", arr(num(1), str("a"), lf(rj.Nul), arr(num(2), obj("a", num(3))), lf(rj.Boolean(false))))
	add("deep", obj("a", obj("a", obj("a", arr(arr(arr(num(1))))))))
	add("keys-needing-escapes", obj("\"", num(1), "\\", num(2), "\n", num(3), "é", num(4), " ", num(5), "<", num(6)))
	return nodes, names
}

func runSpecial(r *engine.Run) {
	d := newDrv()
	nodes, names := specialNodes()
	pairs := namedPairs([]string{"none", "identity", "dropA", "replNum", "list-a", "list-{}a", "list-wrapped"}, []string{"none", "2", "dashes"})
	runProduct(r, &d, "sp", nodes, func(i int, _ *node) string { return names[i] }, pairs)
	r.Bound("descriptions", strconv.Itoa(len(nodes)))
}

// ---------------------------------------------------------------------------
// family: cycles

func cycleNodes() ([]*node, []string) {
	var nodes []*node
	var names []string
	for k := 1; k <= 3; k++ {
		for mask := 0; mask < 1<<k; mask++ {
			mk := func(breaker string) (*node, string) {
				// chain of k containers, the last one points back to the first
				name := ""
				var first, prev *node
				for i := 0; i < k; i++ {
					var c *node
					if mask>>i&1 == 0 {
						c = obj()
						name += "O"
					} else {
						c = arr()
						name += "A"
					}
					if i == 0 {
						c.lab(1)
						first = c
					} else {
						link(prev, c)
					}
					prev = c
				}
				link(prev, refTo(1))
				if breaker != "" {
					prev.tj(breaker)
				}
				return first, name
			}
			c, name := mk("")
			nodes, names = append(nodes, c), append(names, name+"@root")
			c, _ = mk("")
			nodes, names = append(nodes, obj("b", lf(rj.Num(1)), "c", c)), append(names, name+"@member")
			c, _ = mk("")
			nodes, names = append(nodes, arr(c, lf(rj.Num(1)))), append(names, name+"@element")
			// the same structure with a toJSON on the last container that returns a number: no cycle is entered
			c, _ = mk("toNum")
			nodes, names = append(nodes, c), append(names, name+"@root-broken-by-toJSON")
		}
	}
	return nodes, names
}

// link makes child a member ("a") or element (0) of parent.
func link(parent, child *node) {
	if parent.kind == nObj {
		parent.keys = append(parent.keys, "a")
		parent.kids = append(parent.kids, child)
	} else {
		parent.kids = append(parent.kids, child)
	}
}

func runCycles(r *engine.Run) {
	d := newDrv()
	nodes, names := cycleNodes()
	pairs := namedPairs([]string{"none", "identity", "dropA", "list-a", "list-empty", "replNum"}, []string{"none", "2"})
	runProduct(r, &d, "cy", nodes, func(i int, _ *node) string { return names[i] }, pairs)
	r.Bound("cycle_length", "1..3 through objects and arrays, at the root / as member / as element, and broken by toJSON")
}

// ---------------------------------------------------------------------------
// family: roundtrip

func runRoundtrip(r *engine.Run) {
	d := newDrv()
	nodes := depth1()
	if r.Thorough() {
		nodes = append(nodes, depth2()...)
	}
	for _, n := range nodes {
		canon := canonText(n.tokens())
		vkey := escText(canon)
		if !mineValue(r, vkey) {
			continue
		}
		// parse(stringify(v))
		if key := vkey + "|ps"; wantCase(r, key) {
			mres := rj.Stringify(n.toModel(&hostModel{}), rj.Undef, rj.Undef)
			mv, _ := rj.Parse(mres.Text)
			exp := "value:" + rj.Canon(mv, true)
			src, val, ok := build(r, d, n)
			if ok {
				r.Begin(key)
				obs := ""
				o1 := d.call(d.stringify, val)
				if o1.thrown != "" || !o1.value.IsString() {
					obs = "stringify failed: " + o1.thrown
				} else {
					o2 := d.call(d.parse, o1.value)
					if o2.thrown != "" {
						obs = "parse of own output threw " + o2.thrown + ": " + escText(fromOtto(o1.value, 0).S)
					} else {
						obs = "value:" + rj.Canon(fromOtto(o2.value, 0), true)
					}
				}
				r.End()
				r.Eval(true)
				r.Outcome(obs)
				input := "JSON.parse(JSON.stringify(" + src + "))"
				if r.WantSample() {
					r.Sample(input + " => " + obs)
				}
				if exp != obs {
					file(r, engine.Mismatch{Key: key, Input: input, Expected: exp, Observed: obs, Aux: map[string]string{"op": "roundtrip-ps", "explained_by": explainRoundtrip(exp, obs)}})
				}
			}
		}
		// stringify(parse(t)) denotes what t denotes (up to what 15.12.3 itself changes: -0)
		if key := vkey + "|sp"; wantCase(r, key) {
			pv, _ := rj.Parse(canon)
			mres := rj.Stringify(pv, rj.Undef, rj.Undef)
			exp, _ := renderStringify(mres, nil)
			r.Begin(key)
			obs := ""
			o1 := d.call(d.parse, textValue(canon))
			if o1.thrown != "" {
				obs = "parse threw " + o1.thrown
			} else {
				o2 := d.call(d.stringify, o1.value)
				var ores rj.StringifyResult
				switch {
				case o2.thrown != "":
					ores.Err = &rj.Throw{Class: o2.thrown}
				case o2.value.IsString():
					ores.Text = fromOtto(o2.value, 0).S
				default:
					ores.Undefined = true
				}
				obs, _ = renderStringify(ores, nil)
			}
			r.End()
			r.Eval(true)
			r.Outcome(obs)
			input := "JSON.stringify(JSON.parse(" + quoteForReport(canon) + "))"
			if exp != obs {
				file(r, engine.Mismatch{Key: key, Input: input, Expected: exp, Observed: obs, Aux: map[string]string{"op": "roundtrip-sp", "explained_by": explainRoundtrip(exp, obs)}})
			}
		}
		r.Tree(1, 2)
		if r.Expired() {
			r.Cap("time budget reached")
			return
		}
	}
	r.Bound("values", strconv.Itoa(len(nodes)))
}

// ---------------------------------------------------------------------------
// family: selfcheck (the model against itself; failures are harness errors)

func runSelfcheck(r *engine.Run) {
	nodes := append(depth1(), depth2()...)
	for _, n := range nodes {
		mv := n.toModel(&hostModel{})
		for _, gap := range []rj.Value{rj.Undef, rj.Num(3), rj.StrOf("--")} {
			res := rj.Stringify(mv, rj.Undef, gap)
			if res.Err != nil || res.Undefined {
				r.HarnessError("model stringify failed on a JSON value")
				continue
			}
			back, err := rj.ReadIndented(res.Text, res.Gap)
			if err != nil {
				r.HarnessError("layout reader rejects model output " + escText(res.Text) + ": " + err.Error())
				continue
			}
			if gap.Kind != rj.String {
				p, err := rj.Parse(res.Text)
				if err != nil || rj.Canon(p, false) != rj.Canon(back, false) {
					r.HarnessError("recogniser and layout reader disagree on " + escText(res.Text))
				}
			}
			want := strings.ReplaceAll(rj.Canon(mv, false), "d:"+rj.NumCanon(negZero), "d:"+rj.NumCanon(0))
			if rj.Canon(back, false) != want {
				r.HarnessError("model parse(stringify(v)) != v for " + rj.Canon(mv, false))
			}
		}
		r.EvalN(3, 3)
	}
	for _, b := range mutateBases {
		if !rj.Recognise(rj.U(b)) {
			r.HarnessError("base text rejected by the recogniser: " + b)
		}
		r.Eval(true)
	}
	for _, f := range numLeaves {
		if f == 0 {
			continue
		}
		p, err := rj.Parse(rj.NumberToString(f))
		if err != nil || math.Float64bits(p.N) != math.Float64bits(f) {
			r.HarnessError("number text round trip failed for " + strconv.FormatFloat(f, 'g', -1, 64))
		}
	}
	r.Outcome("ok")
	r.Bound("values", strconv.Itoa(len(nodes)))
}
