package c13

import (
	"fmt"
	"strings"

	"verif/mc/engine"
	"verif/mc/ox"
	"verif/mc/ref/uri"
)

// Family "routes": the same string VALUE reaches the six URI / escape functions
// through every route a program can take besides a primitive (families encode,
// passthrough) and a literal (encode-literal): a String wrapper object, an object
// whose toString returns it, a one-element array (join), and a run-time
// concatenation of its code units. ES5 applies ToString and then works on the
// code units, so the result must not depend on the route.

type strRoute struct {
	name string
	src  func(s []uint16) string
}

func fromCharCode(s []uint16) string {
	parts := make([]string, len(s))
	for i, c := range s {
		parts[i] = fmt.Sprint(c)
	}
	return "String.fromCharCode(" + strings.Join(parts, ",") + ")"
}

var strRoutes = []strRoute{
	{"strobj", func(s []uint16) string { return "new String(" + fromCharCode(s) + ")" }},
	{"tostring", func(s []uint16) string {
		return "({toString:function(){return " + fromCharCode(s) + "},valueOf:function(){return 7}})"
	}},
	{"array", func(s []uint16) string { return "[" + fromCharCode(s) + "]" }},
	{"concat", func(s []uint16) string {
		out := `""`
		for _, c := range s {
			out += fmt.Sprintf("+String.fromCharCode(%d)", c)
		}
		return "(" + out + ")"
	}},
}

func runRoutes(r *engine.Run) {
	m := newMachine(r)
	defer r.End()
	maxLen := 2
	if r.Thorough() {
		maxLen = 3
	}
	r.Bound("alphabet", fmt.Sprint(len(encAlphabet)))
	r.Bound("max_len", fmt.Sprint(maxLen))
	r.Bound("routes", "strobj,tostring,array,concat")
	fns := []string{"encodeURI", "encodeURIComponent", "escape", "decodeURI", "decodeURIComponent", "unescape"}
	n := 0
	stop := false
	sequences(len(encAlphabet), maxLen, func(idx []int) {
		n++
		if stop {
			return
		}
		if n%1024 == 0 && r.Expired() {
			r.Cap("time budget")
			stop = true
			return
		}
		s := make([]uint16, len(idx))
		for i, k := range idx {
			s[i] = encAlphabet[k]
		}
		for _, fn := range fns {
			for _, rt := range strRoutes {
				fn, rt := fn, rt
				if !mineLazy(r, func() string { return fn + "/" + rt.name + "/" + hexKey(s) }) {
					continue
				}
				key := fn + "/" + rt.name + "/" + hexKey(s)
				src := fn + "(" + rt.src(s) + ")"
				m.begin(r, key)
				o := m.runSrc(src)
				if o.isNum { // cannot happen for these functions; keep the canonical form honest
					o.canon = "d:" + o.canon
				}
				exp := canonModel(uriFns[fn].model(s))
				r.Eval(exp != ox.Str16(s) || !uri.WellFormed(s))
				r.Outcome(fn + ":" + o.canon)
				if r.WantSample() && n%53 == 17 {
					r.Sample(src + " => " + o.canon)
				}
				if exp != o.canon {
					r.Mismatch(engine.Mismatch{Key: key, Input: src, Expected: exp, Observed: o.canon,
						Aux: map[string]string{"fn": fn, "units": hexKey(s), "route": rt.name}})
				}
			}
		}
	})
}

// Family "hexcase": the hexadecimal digits of an escape may be written in either
// case (15.1.3 Decode steps 4.d.iii, B.2.2): every %XX for all 256 byte values in
// all four case forms, alone and between literals, for decodeURI (which must keep
// reserved escapes as written), decodeURIComponent and unescape; valid multi-byte
// sequences in every case spelling of their letters; %uXXXX in every case spelling.

func caseSpellings(hex string) []string {
	out := []string{""}
	for _, ch := range hex {
		var next []string
		l, u := strings.ToLower(string(ch)), strings.ToUpper(string(ch))
		for _, p := range out {
			next = append(next, p+l)
			if u != l {
				next = append(next, p+u)
			}
		}
		out = next
	}
	return out
}

func runHexCase(r *engine.Run) {
	m := newMachine(r)
	defer r.End()
	var inputs []string
	seen := map[string]bool{}
	add := func(t string) {
		if !seen[t] {
			seen[t] = true
			inputs = append(inputs, t)
		}
	}
	for b := 0; b < 256; b++ {
		for _, sp := range caseSpellings(fmt.Sprintf("%02x", b)) {
			add("%" + sp)
			add("A%" + sp + ";")
			add("%" + sp + "%" + sp)
		}
	}
	// multi-byte sequences (2, 3, 4 octets; boundaries of each length) in every spelling
	for _, seq := range []string{"c2a0", "c3a9", "dfbf", "e0a080", "e282ac", "ed9fbf", "eeb080", "efbfbf", "f0908080", "f09f9880", "f48fbfbf",
		"c0af", "eda080", "f4908080", "e0809f"} {
		for _, sp := range caseSpellings(seq) {
			t := ""
			for i := 0; i < len(sp); i += 2 {
				t += "%" + sp[i:i+2]
			}
			add(t)
			add(t + "%2f")
		}
	}
	// reserved escapes, mixed case, in a URI
	for _, sp := range caseSpellings("3a2f") {
		add("http%" + sp[:2] + "%" + sp[2:] + "%2Fa%20b%3f%3F")
	}
	var unesc []string
	for _, h := range []string{"00e9", "20ac", "abcd", "d83d", "ffff", "00ff"} {
		for _, sp := range caseSpellings(h) {
			unesc = append(unesc, "%u"+sp, "%U"+sp, "a%u"+sp+"%"+sp[2:])
		}
	}
	r.Bound("decode_inputs", fmt.Sprint(len(inputs)))
	r.Bound("unescape_inputs", fmt.Sprint(len(inputs)+len(unesc)))
	n := 0
	run := func(fn, text string) {
		n++
		fn2, t2 := fn, text
		if !mineLazy(r, func() string { return fn2 + "/" + hexKey(u16(t2)) }) {
			return
		}
		uriCase(r, m, fn, "str", u16(text), fn+"/"+hexKey(u16(text)), true, n%397 == 11)
	}
	for _, t := range inputs {
		run("decodeURI", t)
		run("decodeURIComponent", t)
		run("unescape", t)
	}
	for _, t := range unesc {
		run("unescape", t)
	}
}
