package c13

import (
	"fmt"
	"math"
	"strings"

	"verif/mc/engine"
	"verif/mc/ox"
	"verif/mc/ref/mathspec"
	"verif/mc/ref/uri"
)

// ---- helpers ----------------------------------------------------------------

func finite(x float64) bool { return !math.IsNaN(x) && !math.IsInf(x, 0) }

// near: |got - want| <= tol.
func near(got, want, tol float64) bool {
	if !finite(got) || !finite(want) {
		return mathspec.Same(got, want)
	}
	d := got - want
	if d < 0 {
		d = -d
	}
	return d <= tol
}

// leq: a <= b up to slack ulps.
func leq(a, b float64, slack uint64) bool {
	if math.IsNaN(a) || math.IsNaN(b) {
		return false
	}
	return a <= b || mathspec.UlpDiff(a, b) <= slack
}

func ulp(x float64) float64 { return mathspec.Ulp(x) }

type lawCtx struct {
	r   *engine.Run
	m   *machine
	key string
	in  string
	aux map[string]string
}

// f calls Math.<fn> on numbers; anything but a Number result yields NaN.
func (c *lawCtx) f(fn string, xs ...float64) float64 {
	a := make([]interface{}, len(xs))
	src := make([]string, len(xs))
	for i, x := range xs {
		a[i] = x
		src[i] = ox.JSNum(x)
	}
	o := c.m.call("Math."+fn, a...)
	if !o.isNum {
		return math.NaN()
	}
	return o.num
}

func (c *lawCtx) fail(law, expected, observed string) {
	aux := map[string]string{"law": law}
	for k, v := range c.aux {
		aux[k] = v
	}
	c.r.Mismatch(engine.Mismatch{Key: c.key + "#" + law, Input: c.in, Expected: expected, Observed: observed, Note: "law " + law, Aux: aux})
}

func (c *lawCtx) expectNear(law string, got, want, tol float64) {
	if !near(got, want, tol) {
		c.fail(law, fmt.Sprintf("%s within %.3g", mathspec.Num(want), tol), mathspec.Num(got))
	}
}

func (c *lawCtx) expectUlps(law string, got, want float64, n uint64) {
	if math.IsNaN(got) || mathspec.UlpDiff(got, want) > n {
		c.fail(law, fmt.Sprintf("%s within %d ulp", mathspec.Num(want), n), mathspec.Num(got))
	}
}

func (c *lawCtx) expect(law string, ok bool, expected string, got float64) {
	if !ok {
		c.fail(law, expected, mathspec.Num(got))
	}
}

// anchors: values of the mathematical function at ordinary arguments (nearest
// doubles, checked against a second implementation at development time); the
// implementation must be within 2 ulp. They tie each name to the right function.
type anchor struct{ x, want float64 }

var anchors = map[string][]anchor{
	"exp": {{1, mathspec.E}, {-1, 0.36787944117144233}, {0.5, 1.6487212707001282}, {2, 7.38905609893065}, {10, 22026.465794806718}},
	"log": {{mathspec.E, 1}, {2, 0.6931471805599453}, {10, 2.302585092994046}, {0.5, -0.6931471805599453}, {4, 1.3862943611198906}, {maxF, 709.782712893384}},
	"sin": {{mathspec.PiHalf, 1}, {mathspec.Pi, 1.2246467991473532e-16}, {1, 0.8414709848078965}, {0.5, 0.479425538604203}, {mathspec.PiFourth, 0.7071067811865475}, {10, -0.5440211108893698},
		{1e22, -0.8522008497671888}, {p2_53, -0.848925964814655}, {maxF, 0.004961954789184062}},
	"cos":  {{mathspec.Pi, -1}, {mathspec.PiHalf, 6.123233995736766e-17}, {1, 0.5403023058681398}, {0.5, 0.8775825618903728}, {2, -0.4161468365471424}, {10, -0.8390715290764524}, {1e22, 0.5232147853951389}},
	"tan":  {{mathspec.PiFourth, 0.9999999999999999}, {1, 1.5574077246549023}, {0.5, 0.5463024898437905}, {2, -2.185039863261519}, {1e22, -1.628778225606899}},
	"asin": {{1, mathspec.PiHalf}, {-1, -mathspec.PiHalf}, {0.5, 0.5235987755982989}, {0.25, 0.25268025514207865}},
	"acos": {{-1, mathspec.Pi}, {0.5, 1.0471975511965979}, {0.25, 1.318116071652818}, {-0.5, 2.0943951023931957}},
	"atan": {{1, mathspec.PiFourth}, {0.5, 0.4636476090008061}, {2, 1.1071487177940904}, {10, 1.4711276743037347}, {p2_53, mathspec.PiHalf}, {maxF, mathspec.PiHalf}},
	"sqrt": {{2, 1.4142135623730951}, {4, 2}, {0.25, 0.5}, {p2_52, 67108864}},
}

const (
	anchorUlps = 2
	anchorAbs  = 0x1p-54 // sin, cos: a quarter ulp of the amplitude 1 (argument-reduction residue)
)

// monotone functions and the closed interval of S on which the law is asserted.
type monoSpec struct {
	lo, hi float64
	dec    bool
}

var monotone = map[string]monoSpec{
	"exp":   {-maxF, maxF, false},
	"log":   {minNrm, maxF, false},
	"sqrt":  {0, maxF, false},
	"atan":  {-maxF, maxF, false},
	"asin":  {-1, 1, false},
	"acos":  {-1, 1, true},
	"sin":   {-mathspec.PiHalf, mathspec.PiHalf, false},
	"cos":   {0, mathspec.Pi, true},
	"tan":   {-mathspec.PiHalf, mathspec.PiHalf, false},
	"floor": {-maxF, maxF, false},
	"ceil":  {-maxF, maxF, false},
	"round": {-maxF, maxF, false},
}

func normalOrZero(x float64) bool { return x == 0 || mathspec.IsNormal(x) }

// ---- family: unary -----------------------------------------------------------

func runUnary(r *engine.Run) {
	m := newMachine(r)
	set := bindArgs(r, m, allArgs(r.Thorough()))
	nums := numbersS(r.Thorough())
	r.Bound("S", fmt.Sprint(len(nums)))
	r.Bound("non_numbers", fmt.Sprint(len(nonNumbers)))
	r.Bound("table_rows", fmt.Sprint(mathspec.NumRows()))
	for _, fn := range mathspec.Unary {
		for i, a := range set.args {
			key := fn + "/" + a.label
			if !mine(r, key) {
				continue
			}
			in := fmt.Sprintf("Math.%s(%s)", fn, a.src)
			aux := map[string]string{"fn": fn, "args": a.label}
			r.Begin(key)
			o := m.call("Math."+fn, set.vals[i])
			r.End()
			r.Outcome(fn + ":" + o.canon)
			if a.throws != "" {
				r.Eval(true)
				if exp := "throw:" + a.throws; o.canon != exp {
					r.Mismatch(engine.Mismatch{Key: key, Input: in, Expected: exp, Observed: o.canon, Aux: aux})
				}
				continue
			}
			spec, err := mathspec.Lookup(fn, a.num, 0)
			if err != nil {
				r.HarnessError(err.Error())
				continue
			}
			r.Eval(spec.Kind != mathspec.Free)
			if r.WantSample() && i%7 == 3 {
				r.Sample(in + " => " + o.canon + "   [model: " + spec.String() + "]")
			}
			if !o.isNum || !spec.Accepts(o.num) {
				note := spec.Row
				r.Mismatch(engine.Mismatch{Key: key, Input: in, Expected: "d:" + spec.String(), Observed: o.canon, Note: note, Aux: aux})
				continue
			}
			lc := &lawCtx{r: r, m: m, key: key, in: in, aux: aux}
			if !a.isNum {
				// differential twin: the same function on the ToNumber value
				t := lc.f(fn, a.num)
				lc.expect("tonumber-twin", mathspec.Same(t, o.num), fmt.Sprintf("same as Math.%s(%s) = %s", fn, ox.JSNum(a.num), mathspec.Num(t)), o.num)
				continue
			}
			unaryLaws(lc, fn, a.num, o.num)
		}
		// monotonicity on consecutive elements of the ordered S
		if ms, ok := monotone[fn]; ok {
			for i := 0; i+1 < len(nums); i++ {
				x, y := nums[i], nums[i+1]
				if !(x >= ms.lo && y <= ms.hi) || !normalOrZero(x) || !normalOrZero(y) || (x == 0 && y == 0) {
					continue
				}
				key := fn + "/mono/" + ox.JSNum(x)
				if !mine(r, key) {
					continue
				}
				in := fmt.Sprintf("Math.%s(%s) vs Math.%s(%s)", fn, ox.JSNum(x), fn, ox.JSNum(y))
				lc := &lawCtx{r: r, m: m, key: key, in: in, aux: map[string]string{"fn": fn}}
				r.Begin(key)
				fx, fy := lc.f(fn, x), lc.f(fn, y)
				r.End()
				r.Eval(true)
				ok := leq(fx, fy, 2)
				rel := "<="
				if ms.dec {
					ok = leq(fy, fx, 2)
					rel = ">="
				}
				if !ok {
					r.Mismatch(engine.Mismatch{Key: key, Input: in, Expected: "f(a) " + rel + " f(b) (2 ulp slack) for a < b", Observed: mathspec.Num(fx) + " vs " + mathspec.Num(fy), Note: "law monotone"})
				}
			}
		}
	}
}

// unaryLaws: the result of fn(x) passed the table; assert what ES5 leaves to
// "implementation-dependent approximation" by laws. Only normal-range x.
func unaryLaws(c *lawCtx, fn string, x, fx float64) {
	if !mathspec.IsNormal(x) {
		return
	}
	ax := math.Abs(x)
	// anchors
	for _, a := range anchors[fn] {
		if a.x == x && !((fn == "sin" || fn == "cos") && near(fx, a.want, anchorAbs)) {
			// near a zero of sin/cos the result is a cancellation residue: an absolute error far
			// below one ulp of the argument is accepted there, 2 ulp of the result everywhere else
			c.expectUlps("anchor", fx, a.want, anchorUlps)
		}
	}
	switch fn {
	case "sqrt":
		if x > 0 {
			c.expect("sqrt-correctly-rounded", mathspec.SqrtCorrect(x, fx), "the correctly rounded square root", fx)
		}
	case "exp":
		c.expect("range", fx >= 0, ">= 0", fx)
		switch {
		case x > 709.783:
			c.expect("overflow", math.IsInf(fx, 1), "Infinity", fx)
		case x < -745.14:
			c.expect("underflow", fx == 0 && !math.Signbit(fx), "0", fx)
		case ax <= 700:
			// log is the inverse: error of exp (1 ulp relative) shows up as an absolute error 2^-52
			c.expectNear("log(exp(x))=x", c.f("log", fx), x, 2*0x1p-52+2*ulp(x))
			c.expectUlps("exp(x)*exp(-x)=1", fx*c.f("exp", -x), 1, 4)
		}
	case "log":
		if x > 0 && x != 1 {
			c.expect("sign", (x > 1) == (fx > 0) && fx != 0, "sign of log x = sign of (x - 1)", fx)
			if math.Abs(fx) <= 700 {
				c.expectNear("exp(log(x))=x", c.f("exp", fx), x, x*2*ulp(fx)+2*ulp(x))
			}
			if inv := 1 / x; mathspec.IsNormal(inv) && 1/inv == x { // exact reciprocal (powers of two)
				c.expectUlps("log(1/x)=-log(x)", c.f("log", inv), -fx, 2)
			}
		}
	case "sin", "cos", "tan":
		s, co := c.f("sin", x), c.f("cos", x)
		if fn != "tan" {
			c.expect("range", fx >= -1 && fx <= 1, "within [-1, 1]", fx)
			c.expectNear("sin^2+cos^2=1", s*s+co*co, 1, 4*0x1p-52)
		} else if mathspec.IsNormal(co) && mathspec.IsNormal(s) {
			c.expectNear("tan*cos=sin", fx*co, s, 6*ulp(s))
		}
		neg := c.f(fn, -x)
		if fn == "cos" {
			c.expectUlps("even", neg, fx, 2)
		} else {
			c.expectUlps("odd", neg, -fx, 2)
		}
		if ax < 0x1p-27 && fn != "cos" {
			c.expectUlps("small-angle", fx, x, 1)
		}
		if ax < 0x1p-27 && fn == "cos" {
			c.expectUlps("small-angle", fx, 1, 1)
		}
		if ax <= 1.5 {
			switch fn {
			case "sin":
				// asin'(s) = 1/cos(x)
				c.expectNear("asin(sin(x))=x", c.f("asin", fx), x, 2*ulp(fx)/math.Abs(co)+2*ulp(x))
			case "tan":
				c.expectNear("atan(tan(x))=x", c.f("atan", fx), x, 2*ulp(fx)/(1+fx*fx)+2*ulp(x))
			case "cos":
				if x > 0 && x > 0x1p-20 {
					c.expectNear("acos(cos(x))=x", c.f("acos", fx), x, 2*ulp(fx)/math.Abs(s)+2*ulp(x))
				}
			}
		}
	case "asin", "acos":
		if ax > 1 {
			return
		}
		root := math.Sqrt((1 - x) * (1 + x)) // |d/dx| of the inverse is 1/root; d/dy of sin/cos at fx is root
		if fn == "asin" {
			c.expect("range", fx >= -mathspec.PiHalf && fx <= mathspec.PiHalf, "within [-pi/2, pi/2]", fx)
			c.expectUlps("odd", c.f("asin", -x), -fx, 2)
			c.expectNear("sin(asin(x))=x", c.f("sin", fx), x, root*2*ulp(fx)+2*ulp(x))
			c.expectNear("asin+acos=pi/2", fx+c.f("acos", x), mathspec.PiHalf, 0x1p-50)
			if ax < 0x1p-27 {
				c.expectUlps("small-angle", fx, x, 1)
			}
		} else {
			c.expect("range", fx >= 0 && fx <= mathspec.Pi, "within [0, pi]", fx)
			c.expectNear("cos(acos(x))=x", c.f("cos", fx), x, root*2*ulp(fx)+2*ulp(x)+0x1p-53)
			c.expectNear("acos(x)+acos(-x)=pi", fx+c.f("acos", -x), mathspec.Pi, 0x1p-49)
		}
	case "atan":
		c.expect("range", fx >= -mathspec.PiHalf && fx <= mathspec.PiHalf, "within [-pi/2, pi/2]", fx)
		c.expect("sign", (fx > 0) == (x > 0), "sign of x", fx)
		c.expectUlps("odd", c.f("atan", -x), -fx, 2)
		if ax <= 4 {
			c.expectNear("tan(atan(x))=x", c.f("tan", fx), x, (1+x*x)*2*ulp(fx)+2*ulp(x))
		}
		if ax < 0x1p-27 {
			c.expectUlps("small-angle", fx, x, 1)
		}
		if inv := 1 / x; mathspec.IsNormal(inv) && x > 0 {
			// atan(x) + atan(1/x) = pi/2 for x > 0
			c.expectNear("atan(x)+atan(1/x)=pi/2", fx+c.f("atan", inv), mathspec.PiHalf, 0x1p-50)
		}
	}
}

// ---- family: binary ----------------------------------------------------------

func runBinary(r *engine.Run) {
	m := newMachine(r)
	set := bindArgs(r, m, allArgs(r.Thorough()))
	nums := numbersS(r.Thorough())
	nextNum := map[string]float64{}
	for i := 0; i+1 < len(nums); i++ {
		nextNum[ox.JSNum(nums[i])] = nums[i+1]
	}
	r.Bound("S_squared", fmt.Sprintf("%d^2", len(set.args)))
	for _, fn := range mathspec.Binary {
		for i, a := range set.args {
			for j, b := range set.args {
				key := fn + "/" + a.label + "/" + b.label
				if !mine(r, key) {
					continue
				}
				in := fmt.Sprintf("Math.%s(%s, %s)", fn, a.src, b.src)
				aux := map[string]string{"fn": fn, "args": a.label + "," + b.label}
				r.Begin(key)
				o := m.call("Math."+fn, set.vals[i], set.vals[j])
				r.End()
				r.Outcome(fn + ":" + o.canon)
				if th := firstThrow([]arg{a, b}); th != "" {
					r.Eval(true)
					if exp := "throw:" + th; o.canon != exp {
						r.Mismatch(engine.Mismatch{Key: key, Input: in, Expected: exp, Observed: o.canon, Aux: aux,
							Note: "15.8.2: ToNumber is applied to each argument in left-to-right order before the computation"})
					}
					continue
				}
				spec, err := mathspec.Lookup(fn, a.num, b.num)
				if err != nil {
					r.HarnessError(err.Error())
					continue
				}
				r.Eval(spec.Kind != mathspec.Free)
				if r.WantSample() && (i*31+j)%97 == 5 {
					r.Sample(in + " => " + o.canon + "   [model: " + spec.String() + "]")
				}
				if !o.isNum || !spec.Accepts(o.num) {
					r.Mismatch(engine.Mismatch{Key: key, Input: in, Expected: "d:" + spec.String(), Observed: o.canon, Note: spec.Row, Aux: aux})
					continue
				}
				lc := &lawCtx{r: r, m: m, key: key, in: in, aux: aux}
				if !a.isNum || !b.isNum {
					t := lc.f(fn, a.num, b.num)
					lc.expect("tonumber-twin", mathspec.Same(t, o.num), fmt.Sprintf("same as Math.%s(%s, %s) = %s", fn, ox.JSNum(a.num), ox.JSNum(b.num), mathspec.Num(t)), o.num)
					continue
				}
				if spec.Kind != mathspec.Free {
					continue
				}
				if fn == "atan2" {
					atan2Laws(lc, a.num, b.num, o.num)
				} else {
					ny, hasNext := nextNum[b.label]
					powLaws(lc, a.num, b.num, o.num, ny, hasNext)
				}
			}
		}
	}
}

// atan2Laws: y and x finite and nonzero (everything else is in the table).
func atan2Laws(c *lawCtx, y, x, r float64) {
	if math.Signbit(r) != math.Signbit(y) || math.IsNaN(r) {
		// the result has the sign of y in every quadrant (and in every bullet of 15.8.2.5)
		c.fail("sign", "sign of y ("+mathspec.Num(math.Copysign(math.Abs(r), y))+")", mathspec.Num(r))
		return
	}
	c.expect("range", math.Abs(r) <= mathspec.Pi, "within [-pi, pi]", r)
	if x > 0 {
		c.expect("quadrant", math.Abs(r) <= mathspec.PiHalf, "|result| <= pi/2 for x > 0", r)
	} else {
		c.expect("quadrant", math.Abs(r) >= mathspec.PiHalf, "|result| >= pi/2 for x < 0", r)
	}
	if y < 0 {
		c.expectUlps("odd-in-y", r, -c.f("atan2", -y, x), 2)
	}
	if !mathspec.IsNormal(y) || !mathspec.IsNormal(x) {
		return
	}
	q := math.Abs(y) / math.Abs(x) // correctly rounded IEEE division (harness arithmetic)
	if !(q >= 0x1p-1000 && q <= 0x1p1000) {
		return
	}
	at := c.f("atan", q)
	tol := ulp(q)/(1+q*q) + 2*ulp(at) + 2*ulp(mathspec.Pi)
	want := at
	if x < 0 {
		want = mathspec.Pi - at
		// pi (the double) differs from the real pi by 1.2e-16 < ulp(pi)
	}
	if y < 0 {
		want = -want
	}
	if mathspec.IsNormal(r) {
		tol += 2 * ulp(r)
	}
	c.expectNear("atan2(y,x)=atan(y/x) by quadrant", r, want, tol)
}

// powLaws: x, y finite, nonzero x, no table row applies.
func powLaws(c *lawCtx, x, y, r float64, nextY float64, hasNext bool) {
	if v, ok := mathspec.PowExact(x, y); ok {
		c.expect("exact-integer-power", mathspec.Same(v, r), mathspec.Num(v)+" (exactly representable)", r)
	}
	if math.IsNaN(r) {
		c.fail("not-NaN", "a number (x^y is real)", "NaN")
		return
	}
	// sign
	if x > 0 || !mathspec.IsOddInteger(y) {
		c.expect("sign", !math.Signbit(r), "positive sign", r)
	} else {
		c.expect("sign", math.Signbit(r), "negative sign (x < 0, y odd integer)", r)
	}
	ax, ar := math.Abs(x), math.Abs(r)
	// magnitude relative to 1 (1 is representable and rounding is monotone)
	switch {
	case ax == 1:
		c.expect("unit", ar == 1, "magnitude 1", r)
	case (ax > 1) == (y > 0):
		c.expect("magnitude", ar >= 1, "|result| >= 1", r)
	default:
		c.expect("magnitude", ar <= 1, "|result| <= 1", r)
	}
	if !mathspec.IsNormal(x) || !mathspec.IsNormal(y) {
		return
	}
	// identities with exactly computable right-hand sides
	chk := func(law string, want float64, n uint64) {
		if mathspec.IsNormal(want) {
			c.expectUlps(law, r, want, n)
		}
	}
	switch y {
	case 1:
		chk("pow(x,1)=x", x, 1)
	case 2:
		chk("pow(x,2)=x*x", x*x, 2)
	case 3:
		if xx := x * x; mathspec.IsNormal(xx) {
			chk("pow(x,3)=x*x*x", xx*x, 3)
		}
	case -1:
		chk("pow(x,-1)=1/x", 1/x, 2)
	case 0.5:
		if x > 0 {
			chk("pow(x,0.5)=sqrt(x)", c.f("sqrt", x), 2)
		}
	}
	// monotone in y for x > 0 (weak, 2 ulp slack)
	if hasNext && x > 0 && x != 1 && mathspec.IsNormal(nextY) && finite(nextY) {
		r2 := c.f("pow", x, nextY)
		if x > 1 {
			c.expect("monotone-in-y", leq(r, r2, 2), fmt.Sprintf("<= pow(x, %s) = %s", ox.JSNum(nextY), mathspec.Num(r2)), r)
		} else {
			c.expect("monotone-in-y", leq(r2, r, 2), fmt.Sprintf(">= pow(x, %s) = %s", ox.JSNum(nextY), mathspec.Num(r2)), r)
		}
	}
}

// ---- family: maxmin ----------------------------------------------------------

func runMaxMin(r *engine.Run) {
	m := newMachine(r)
	set := bindArgs(r, m, maxMinArgs())
	n := len(set.args)
	r.Bound("values", fmt.Sprint(n))
	maxArity := 3
	if r.Thorough() {
		maxArity = 4
	}
	r.Bound("arity", fmt.Sprintf("0..%d", maxArity))
	for _, fn := range []string{"max", "min"} {
		for arity := 0; arity <= maxArity; arity++ {
			sizes := make([]int, arity)
			for i := range sizes {
				sizes[i] = n
			}
			idx := make([]int, arity)
			for {
				args := make([]arg, arity)
				vals := make([]interface{}, arity)
				labels := make([]string, arity)
				srcs := make([]string, arity)
				for i, k := range idx {
					args[i], vals[i], labels[i], srcs[i] = set.args[k], set.vals[k], set.args[k].label, set.args[k].src
				}
				key := fn + "/" + strings.Join(labels, "/")
				if mine(r, key) {
					in := fmt.Sprintf("Math.%s(%s)", fn, strings.Join(srcs, ", "))
					r.Begin(key)
					o := m.call("Math."+fn, vals...)
					r.End()
					r.Eval(true)
					r.Tree(1, 1)
					r.Outcome(fn + ":" + o.canon)
					var exp string
					if th := firstThrow(args); th != "" {
						exp = "throw:" + th
					} else {
						nums := make([]float64, arity)
						for i, a := range args {
							nums[i] = a.num
						}
						exp = "d:" + mathspec.Num(mathspec.MaxMin(fn == "max", nums))
					}
					if r.WantSample() && (idx2(idx)%211 == 7 || arity == 0) {
						r.Sample(in + " => " + o.canon)
					}
					if exp != o.canon {
						r.Mismatch(engine.Mismatch{Key: key, Input: in, Expected: exp, Observed: o.canon,
							Aux: map[string]string{"fn": fn, "args": strings.Join(labels, ",")}})
					}
				}
				i := arity - 1
				for i >= 0 {
					idx[i]++
					if idx[i] < n {
						break
					}
					idx[i] = 0
					i--
				}
				if i < 0 {
					break
				}
			}
		}
	}
}

func idx2(idx []int) int {
	v := 0
	for _, k := range idx {
		v = v*14 + k
	}
	return v
}

// ---- family: rounding ----------------------------------------------------------

// roundingPoints: every double adjacent to k, k+0.5 and k-0.5 for the listed k.
func roundingPoints(thorough bool) []float64 {
	ks := []float64{-3, -2, -1, 0, 1, 2, 3, p2_51, p2_52 - 1, p2_52, p2_52 + 1, p2_53, -p2_51, -(p2_52 - 1), -p2_52, -(p2_52 + 1), -p2_53}
	if thorough {
		for k := 4.0; k <= 64; k++ {
			ks = append(ks, k, -k)
		}
		for e := 7; e <= 62; e++ {
			p := math.Ldexp(1, e)
			ks = append(ks, p-1, p, p+1, -(p - 1), -p, -(p + 1))
		}
	}
	seen := map[uint64]bool{}
	var out []float64
	add := func(x float64) {
		if !finite(x) {
			return
		}
		b := math.Float64bits(x)
		if !seen[b] {
			seen[b] = true
			out = append(out, x)
		}
	}
	for _, k := range ks {
		for _, c := range []float64{k, k + 0.5, k - 0.5} { // IEEE additions: inexact sums collapse onto a neighbour, which is enumerated anyway
			add(c)
			add(mathspec.Succ(c))
			add(mathspec.Pred(c))
			add(mathspec.Succ(mathspec.Succ(c)))
			add(mathspec.Pred(mathspec.Pred(c)))
		}
		if k != 0 {
			add(k + k*0x1p-53)
			add(k - k*0x1p-53)
		}
	}
	add(negZ)
	add(minF)
	add(-minF)
	return out
}

func runRounding(r *engine.Run) {
	m := newMachine(r)
	pts := roundingPoints(r.Thorough())
	r.Bound("points", fmt.Sprint(len(pts)))
	for _, fn := range []string{"round", "floor", "ceil"} {
		for _, x := range pts {
			key := fn + "/" + ox.JSNum(x)
			if !mine(r, key) {
				continue
			}
			in := fmt.Sprintf("Math.%s(%s)", fn, ox.JSNum(x))
			r.Begin(key)
			o := m.call("Math."+fn, x)
			r.End()
			r.Eval(true)
			r.Outcome(fn + ":" + o.canon)
			spec, err := mathspec.Lookup(fn, x, 0)
			if err != nil {
				r.HarnessError(err.Error())
				continue
			}
			if r.WantSample() && math.Abs(x) > 0.4 && math.Abs(x) < 3 {
				r.Sample(in + " => " + o.canon)
			}
			if exp := "d:" + spec.String(); exp != o.canon {
				r.Mismatch(engine.Mismatch{Key: key, Input: in, Expected: exp, Observed: o.canon, Note: spec.Row,
					Aux: map[string]string{"fn": fn, "args": ox.JSNum(x)}})
			}
		}
	}
}

// ---- family: predicates (isNaN, isFinite) --------------------------------------

func runPredicates(r *engine.Run) {
	m := newMachine(r)
	set := bindArgs(r, m, allArgs(r.Thorough()))
	b := func(v bool) string {
		if v {
			return "b:1"
		}
		return "b:0"
	}
	for _, fn := range []string{"isNaN", "isFinite"} {
		model := uri.IsNaN
		if fn == "isFinite" {
			model = uri.IsFinite
		}
		// no argument: ToNumber(undefined) = NaN
		key := fn + "/no-argument"
		if mine(r, key) {
			o := m.call(fn)
			r.Eval(true)
			r.Outcome(fn + ":" + o.canon)
			r.Check(key, fn+"()", b(model(math.NaN())), o.canon)
		}
		for i, a := range set.args {
			key := fn + "/" + a.label
			if !mine(r, key) {
				continue
			}
			in := fmt.Sprintf("%s(%s)", fn, a.src)
			r.Begin(key)
			o := m.call(fn, set.vals[i])
			r.End()
			r.Eval(true)
			r.Outcome(fn + ":" + o.canon)
			exp := ""
			if a.throws != "" {
				exp = "throw:" + a.throws
			} else {
				exp = b(model(a.num))
			}
			if r.WantSample() && i%9 == 4 {
				r.Sample(in + " => " + o.canon)
			}
			r.Check(key, in, exp, o.canon)
		}
	}
}

// ---- family: random (15.8.2.14) -------------------------------------------------

func runRandom(r *engine.Run) {
	m := newMachine(r)
	// seam: the value of the random source is returned as is
	for i, v := range []float64{0, 0.5, 0.9999999999999999, 5e-324} {
		key := fmt.Sprintf("source/%d", i)
		if !mine(r, key) {
			continue
		}
		vv := v
		m.vm.SetRandomSource(func() float64 { return vv })
		o := m.call("Math.random")
		r.Eval(true)
		r.Outcome(o.canon)
		r.Check(key, fmt.Sprintf("Math.random() with source returning %s", ox.JSNum(v)), "d:"+mathspec.Num(v), o.canon)
	}
	m = newMachine(r)
	if mine(r, "default/range") {
		bad := ""
		for i := 0; i < 2000; i++ {
			o := m.call("Math.random")
			if !o.isNum || !(o.num >= 0 && o.num < 1) || math.Signbit(o.num) {
				bad = o.canon
				break
			}
		}
		r.Eval(true)
		r.Outcome("in-range:" + fmt.Sprint(bad == ""))
		if bad != "" {
			r.Mismatch(engine.Mismatch{Key: "default/range", Input: "Math.random() x 2000", Expected: "a Number with positive sign, >= 0 and < 1", Observed: bad})
		}
	}
}
