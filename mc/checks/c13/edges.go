package c13

import (
	"fmt"
	"math"

	"verif/mc/engine"
	"verif/mc/ox"
	"verif/mc/ref/mathspec"
)

// Family "edges": the overflow / underflow neighbourhoods of the
// implementation-approximated functions, where the inverse-pair and monotonicity
// laws of the unary/binary families are silent (exp above 700, everything on
// subnormal arguments). Oracle: the correctly rounded value of the mathematical
// function from the 320-bit series in ref/mathspec (RefExp, RefLog, RefPow),
// correctly rounded sqrt (SqrtCorrect), with the stated tolerances
//
//	exp, log : 2 ulp            (fdlibm-class implementations are < 1 ulp)
//	pow      : 16 + |y ln x| ulp (error propagation of exp(y ln x) built from 1-ulp parts; Go's Pow is
//	                             not 1-ulp accurate: pow(10, 308) is 3 ulp off, pow(e, 709.7) 85 ulp)
//	sqrt     : 0 ulp            (IEEE 754: correctly rounded)
//
// which include the hard law "finite exactly when the true result is finite, zero
// exactly when it rounds to zero" (an infinity or a zero is never within N ulp of
// a finite nonzero reference). ES5 15.8.2 only demands "implementation-dependent
// approximations"; the property statement asks for consistency with the
// mathematical function (inverse relations): exp(x) = Infinity for a finite
// e^x 8% below MAX_VALUE, or a logarithm 5% off, break log(exp(x)) = x and
// exp(log(x)) = x by any tolerance.

const (
	edgeUlpsExpLog = 2
	edgeUlpsPow    = 16
)

func edgeExpArgs(thorough bool) []float64 {
	l := []float64{700, 705, 708, 709, 709.1, 709.2, 709.3, 709.4, 709.43, 709.44, 709.5, 709.6, 709.7, 709.78, 709.782712893383,
		709.782712893384, mathspec.Succ(709.782712893384), 709.79, 710, 745.2,
		-700, -708, -708.3964185322641, -708.4, -709, -710, -720, -740, -744, -744.4400719213812, -745, -745.1, -745.13,
		-745.1332191019411, mathspec.Pred(-745.1332191019412), -745.14, -745.2, -746, -750}
	if thorough {
		for x := 709.0; x < 709.8; x += 0.001 {
			l = append(l, x)
		}
		for x := -745.2; x < -708.3; x += 0.01 {
			l = append(l, x)
		}
	}
	return l
}

// edgeSmallArgs: the subnormal range and its two borders, in BOTH tiers: MIN_VALUE,
// every power of two 2^-1074 .. 2^-1021 with its two neighbours and 3*2^-k (two
// mantissa bits), the largest subnormal, the smallest normal and its successor,
// a few decimal subnormals, and the top of the range. Every function whose result
// is well defined there is held to the reference on all of them (the platform
// math.Log reads subnormals wrongly on amd64; otto carries a rescaling guard whose
// threshold and scale are only exercised by this range).
func edgeSmallArgs(thorough bool) []float64 {
	l := []float64{5e-324, 1e-323, 1.5e-323, 2e-323, 1e-320, 1e-315, 1e-310, 1.1125369292536007e-308 /* 2^-1023 */, 2e-308,
		2.225073858507201e-308, minNrm, mathspec.Succ(minNrm), 2.3e-308, 4.450147717014403e-308, 1e-300,
		0x1p1023, mathspec.Pred(maxF), maxF}
	for k := 1021; k <= 1074; k++ {
		p := math.Ldexp(1, -k)
		l = append(l, p, 3*p, mathspec.Succ(p))
		if q := mathspec.Pred(p); q > 0 {
			l = append(l, q)
		}
	}
	seen := map[uint64]bool{}
	out := l[:0]
	for _, x := range l {
		if b := math.Float64bits(x); !seen[b] {
			seen[b] = true
			out = append(out, x)
		}
	}
	return out
}

// tinyIdentity: functions with f(x) = x + O(x^3); on |x| <= 2^-1021 the cubic term is
// below 2^-3000, so the correctly rounded result is x itself (tolerance 1 ulp as in the
// small-angle law of the unary family). tinyConst: f(x) = c + O(x).
var tinyIdentity = []string{"sin", "tan", "asin", "atan"}

var edgePowArgs = [][2]float64{
	{2, 1023}, {2, 1023.9}, {2, 1023.9999999999999}, {2, 1024}, {2, 1024.0000000000002}, {10, 308}, {10, 308.2}, {10, 308.25}, {10, 308.3},
	{maxF, 1}, {maxF, 1.0000000000000002}, {maxF, 0.9999999999999999}, {maxF, 0.5}, {maxF, -1}, {maxF, -1.0000000000000002},
	{mathspec.E, 709.78}, {mathspec.E, 709.7}, {mathspec.E, 709.79}, {mathspec.E, -745.1}, {mathspec.E, -745.14},
	{2, -1022}, {2, -1074}, {2, -1074.5}, {2, -1074.9999999999998}, {2, -1075}, {2, -1075.1}, {10, -323}, {10, -323.3}, {10, -324}, {0.5, 1074}, {0.5, 1075},
	{5e-324, 0.5}, {5e-324, 1}, {5e-324, 0.9999999999999999}, {5e-324, 1.0000000000000002}, {5e-324, -1}, {5e-324, 0.001}, {1e-310, 0.5}, {1e-310, -1}, {1e-310, 2}, {1e-310, 1},
	{5e-324, 0.25}, {1e-310, 0.3}, {1e-310, 0.001}, {2e-308, 0.4},
	{minNrm, 1}, {minNrm, -1}, {minNrm, 2}, {minNrm, 0.3}, {1e154, 2}, {1e155, 2}, {1e-162, 2}, {1e-163, 2},
}

func runEdges(r *engine.Run) {
	m := newMachine(r)
	defer r.End()
	type ecase struct {
		fn   string
		args []float64
	}
	var cases []ecase
	for _, x := range edgeExpArgs(r.Thorough()) {
		cases = append(cases, ecase{"exp", []float64{x}})
	}
	for _, x := range edgeSmallArgs(r.Thorough()) {
		cases = append(cases, ecase{"log", []float64{x}}, ecase{"sqrt", []float64{x}})
		if x > 0x1p-1020 {
			continue
		}
		// the subnormal range and its border: every function that is defined there, both signs
		for _, sx := range []float64{x, -x} {
			for _, fn := range tinyIdentity {
				cases = append(cases, ecase{fn, []float64{sx}})
			}
			cases = append(cases, ecase{"cos", []float64{sx}}, ecase{"acos", []float64{sx}}, ecase{"exp", []float64{sx}},
				ecase{"atan2", []float64{sx, 1}}, ecase{"pow", []float64{sx, 1}})
		}
	}
	for _, p := range edgePowArgs {
		cases = append(cases, ecase{"pow", []float64{p[0], p[1]}})
	}
	{ // the explicit pow list and the lattice overlap in a few (x, 1) tuples: keep the first occurrence
		seen := map[string]bool{}
		out := cases[:0]
		for _, c := range cases {
			k := c.fn + fmt.Sprint(c.args)
			for _, a := range c.args {
				k += fmt.Sprintf("/%016x", math.Float64bits(a))
			}
			if !seen[k] {
				seen[k] = true
				out = append(out, c)
			}
		}
		cases = out
	}
	r.Bound("cases", fmt.Sprint(len(cases)))
	r.Bound("subnormal_lattice", fmt.Sprint(len(edgeSmallArgs(r.Thorough()))))
	for i, c := range cases {
		key := c.fn
		in := "Math." + c.fn + "("
		vals := make([]interface{}, len(c.args))
		for j, a := range c.args {
			key += "/" + ox.JSNum(a)
			if j > 0 {
				in += ", "
			}
			in += ox.JSNum(a)
			vals[j] = a
		}
		in += ")"
		if !mine(r, key) {
			continue
		}
		r.Begin(key)
		o := m.call("Math."+c.fn, vals...)
		r.End()
		r.Eval(true)
		r.Outcome(c.fn + ":" + o.canon)
		if r.WantSample() && i%9 == 2 {
			r.Sample(in + " => " + o.canon)
		}
		aux := map[string]string{"fn": c.fn, "args": fmt.Sprint(c.args), "family": "edges"}
		for j, a := range c.args {
			aux[fmt.Sprintf("x%d", j)] = fmt.Sprintf("%016x", math.Float64bits(a))
		}
		if c.fn == "sqrt" {
			if !o.isNum || !mathspec.SqrtCorrect(c.args[0], o.num) {
				r.Mismatch(engine.Mismatch{Key: key, Input: in, Expected: "the correctly rounded square root", Observed: o.canon, Aux: aux})
			}
			continue
		}
		var ref float64
		tol := uint64(edgeUlpsExpLog)
		how := "320-bit reference"
		switch c.fn {
		case "sin", "tan", "asin", "atan", "atan2":
			ref, tol, how = c.args[0], 1, "f(x) = x - O(x^3) rounds to x"
		case "cos":
			ref, tol, how = 1, 1, "1 - x^2/2 rounds to 1"
		case "acos":
			ref, tol, how = mathspec.PiHalf, 1, "pi/2 - x rounds to pi/2"
		case "exp":
			ref = mathspec.RefExp(c.args[0])
		case "log":
			ref = mathspec.RefLog(c.args[0])
		case "pow":
			if c.args[1] == 1 {
				ref, tol, how = c.args[0], 0, "x^1 = x exactly"
				break
			}
			ref = mathspec.RefPow(c.args[0], c.args[1])
			tol = edgeUlpsPow + uint64(math.Abs(c.args[1]*mathspec.RefLog(c.args[0])))
		}
		if !o.isNum || math.IsNaN(o.num) || mathspec.UlpDiff(ref, o.num) > tol || (ref != 0 && o.num != 0 && math.Signbit(ref) != math.Signbit(o.num)) {
			r.Mismatch(engine.Mismatch{Key: key, Input: in, Expected: fmt.Sprintf("d:%s within %d ulp (%s)", mathspec.Num(ref), tol, how), Observed: o.canon, Aux: aux})
		}
	}
}
