// Package c13 checks property C13: Math and the global utility functions
// (isNaN, isFinite, encodeURI, encodeURIComponent, decodeURI,
// decodeURIComponent, escape, unescape) honour ES5.1 15.8 and 15.1 / Annex B.2.
//
// Every family enumerates a stated finite space completely; every case calls
// the real built-in of a real otto runtime and compares with ref/mathspec or
// ref/uri (transcriptions of the clauses, independent of Go's math, net/url and
// unicode/utf8|utf16 packages).
package c13

import (
	"fmt"
	"strings"
	"time"

	"github.com/robertkrimen/otto"

	"verif/mc/engine"
	"verif/mc/ox"
	"verif/mc/ref/mathspec"
)

func init() {
	engine.Register(&engine.Check{
		ID:    "C13",
		Title: "Math and global utility functions honour ES5 15.8 and 15.1",
		Rule: "Math: every ES5 Math function x every tuple over the boundary set S (IEEE specials and neighbours) united with non-number values that exercise ToNumber " +
			"(unary x S, pow/atan2 x S^2, every function x a lattice of kind extremes carried in every Number representation otto has - int32 from bitwise operators, uint32 from >>>, int/int64/uint16 from built-ins and literals, float64 from arithmetic, Go int8..uint64/float32/float64 from the embedder -  max/min arity 0..3 over a 14-value subset, round/floor/ceil over the neighbours of k and k+-0.5; every function that is defined on subnormals x the subnormal lattice - MIN_VALUE, every 2^-k for k = 1021..1074 with predecessor, successor and 3*2^-k, largest subnormal, smallest normal - in both signs); a case is non-trivial when a 15.8.2 bullet or an exact definition fixes its result " +
			"(otherwise only the tolerance laws apply). URI: every code-unit string up to the stated length over the 42-unit alphabet (the 30 units of the design plus 12 UTF-8 / %uXXXX / surrogate-range boundary units) for the encoders/escape (both string representations: UTF-16 payload from String.fromCharCode and Go-string payload) plus the source-literal route, " +
			"every sequence of decode units (literals, %XX escapes, broken escapes) for the decoders and unescape; a case is non-trivial when the input contains at least one unit the function must transform or reject. " +
			"Cases are distinct by key (function + argument labels / code units).",
		Families: []engine.Family{
			{Name: "unary", Run: runUnary},
			{Name: "binary", Run: runBinary},
			{Name: "maxmin", Run: runMaxMin},
			{Name: "rounding", Run: runRounding},
			{Name: "kinds", Run: runKinds},
			{Name: "carriers", Run: runCarriers},
			{Name: "edges", Run: runEdges},
			{Name: "predicates", Run: runPredicates, Solo: true},
			{Name: "random", Run: runRandom, Solo: true},
			{Name: "encode", Run: runEncode},
			{Name: "encode-literal", Run: runEncodeLiteral},
			{Name: "decode", Run: runDecode},
			{Name: "unescape", Run: runUnescape},
			{Name: "passthrough", Run: runPassthrough},
			{Name: "routes", Run: runRoutes},
			{Name: "hexcase", Run: runHexCase},
		},
		Assumptions: []string{
			"ref/mathspec is a faithful transcription of the bullets of ES5.1 15.8.2 (self-check: bullets that apply to the same tuple must agree, exact definitions must agree with bullets)",
			"ref/uri is a faithful transcription of ES5.1 15.1.3 Encode/Decode and B.2.1/B.2.2 (self-check: model decode(encode(s)) = s, unescape(escape(s)) = s on every enumerated string)",
			"tolerance laws assume an implementation within 1 ulp of the mathematical function on normal-range arguments (ES5: implementation-dependent approximation); subnormal arguments are held to the special-case table there and, in the edges family, to the 320-bit reference (log, exp, pow; 2 ulp), the correctly rounded sqrt and the small-argument identities f(x) = x / 1 / pi/2 (sin, tan, asin, atan, atan2(x,1), pow(x,1), cos, acos; 1 ulp) on the whole subnormal lattice 2^-1074..2^-1021 with neighbours, both signs",
			"ToNumber of the non-number argument values is a trusted table (ES5 9.3); inputs reach the built-ins as otto Values (numbers via otto.ToValue(float64), strings with lone surrogates via String.fromCharCode), results are read back as IEEE bits / UTF-16 code units",
			"ES2015+ extensions of Math present in otto (acosh, cbrt, trunc, ...) are outside ES5 15.8 and are not checked",
		},
		CrashIsViolation: true,
		QuickBudget:      90 * time.Second,
		ThoroughBudget:   15 * time.Minute,
	})
}

// mine is MineKey that also lets a replay of a sub-check key ("base#law")
// re-execute the base case.
func mine(r *engine.Run, key string) bool {
	if r.ReplayKey != "" {
		rk := r.ReplayKey
		if i := strings.IndexByte(rk, '#'); i >= 0 {
			rk = rk[:i]
		}
		return rk == key
	}
	return r.Mine()
}

// machine wraps a runtime with the built-ins under test pre-resolved.
type machine struct {
	vm     *otto.Otto
	fns    map[string]otto.Value
	nbegin int

	throwSamples int
	twins        map[string]float64
}

func newMachine(r *engine.Run) *machine {
	m := &machine{vm: otto.New(), fns: map[string]otto.Value{}}
	for _, name := range mathspec.Unary {
		m.resolve(r, "Math."+name)
	}
	for _, name := range mathspec.Binary {
		m.resolve(r, "Math."+name)
	}
	for _, name := range []string{"Math.max", "Math.min", "Math.random", "isNaN", "isFinite", "encodeURI", "encodeURIComponent",
		"decodeURI", "decodeURIComponent", "escape", "unescape", "String.fromCharCode"} {
		m.resolve(r, name)
	}
	return m
}

func (m *machine) resolve(r *engine.Run, expr string) {
	res := ox.Run(m.vm, expr)
	if res.Panicked || res.Err != nil || !res.Value.IsFunction() {
		r.HarnessError(fmt.Sprintf("cannot resolve %s: %v %v", expr, res.Err, res.PanicVal))
		return
	}
	m.fns[expr] = res.Value
}

// outcome of one guarded call
type outcome struct {
	val   otto.Value
	canon string // "d:<num>", "s:<units>", "throw:<Class>", "panic:<text>", ...
	num   float64
	isNum bool
}

func (m *machine) call(fn string, args ...interface{}) outcome {
	f, ok := m.fns[fn]
	if !ok {
		return outcome{canon: "harness:unresolved " + fn}
	}
	res := ox.Guard(func() (otto.Value, error) { return f.Call(otto.UndefinedValue(), args...) })
	switch {
	case res.Panicked:
		return outcome{canon: fmt.Sprintf("panic:%v", res.PanicVal)}
	case res.Err != nil:
		return outcome{canon: "throw:" + ox.ErrClass(res.Err)}
	}
	o := outcome{val: res.Value, canon: ox.Canon(res.Value)}
	if res.Value.IsNumber() {
		o.isNum = true
		o.num, _ = res.Value.ToFloat()
		o.canon = "d:" + mathspec.Num(o.num)
	}
	return o
}

// eval evaluates an expression to a Value (used to build non-number arguments).
func (m *machine) eval(r *engine.Run, src string) otto.Value {
	res := ox.Run(m.vm, src)
	if res.Panicked || res.Err != nil {
		r.HarnessError(fmt.Sprintf("cannot evaluate %s: %v %v", src, res.Err, res.PanicVal))
		return otto.UndefinedValue()
	}
	return res.Value
}
