package c13

import (
	"math"
	"sort"

	"github.com/robertkrimen/otto"

	"verif/mc/engine"
	"verif/mc/ox"
	"verif/mc/ref/mathspec"
)

// arg is one argument value of the Math / predicate enumerations.
type arg struct {
	label  string  // key-safe, unique
	src    string  // JavaScript source of the value (rendered input, and evaluated for non-numbers)
	num    float64 // ToNumber(value) when it does not throw
	throws string  // error class thrown by ToNumber ("" = none)
	isNum  bool    // a Number primitive
}

func numArg(f float64) arg {
	s := ox.JSNum(f)
	return arg{label: s, src: s, num: f, isNum: true}
}

var (
	nan    = math.NaN()
	inf    = math.Inf(1)
	negZ   = math.Copysign(0, -1)
	p2_31  = float64(1 << 31)
	p2_51  = float64(1 << 51)
	p2_52  = float64(1 << 52)
	p2_53  = float64(1 << 53)
	p2_63  = 9223372036854775808.0
	maxF   = math.MaxFloat64
	minF   = 5e-324
	minNrm = 2.2250738585072014e-308
)

// positives of the boundary set S (each also appears negated).
var sPos = []float64{
	minF, 3 * minF, 2.225073858507201e-308 /* largest subnormal */, minNrm, 1e-8,
	0.25, 0.49999999999999994, 0.5, 0.5000000000000001, math.Pi / 4, 0.9999999999999999, 1, 1.0000000000000002, 1.5, math.Pi / 2, 2, 2.5,
	math.E, 3, math.Pi, 3.5, 4, 10, 709.78, 710, 745.14,
	p2_31, 1e22, p2_52 - 0.5, p2_52, p2_52 + 1, p2_53 - 1, p2_53, p2_63, maxF,
}

// sExtra extends S in the thorough tier (more magnitudes, thresholds of exp/log/sqrt/pow).
var sExtra = []float64{
	1e-300, 0x1p-537, 0x1p-52, 0x1p-27, 1e-3, 0.1, 1 / 3.0, 0.75, 1.25, 7, 33, 53, 100, 255.5, 1023, 1024, 1074, 1e10, 0x1p127, 1e300, 0x1p1023,
}

// numbersS is S in ascending order: -Inf .. -0, +0 .. +Inf, then NaN.
func numbersS(thorough bool) []float64 {
	var l []float64
	for _, p := range sPos {
		l = append(l, p, -p)
	}
	if thorough {
		for _, p := range sExtra {
			l = append(l, p, -p)
		}
	}
	l = append(l, inf, -inf)
	sort.Float64s(l)
	// insert the zeros between the negatives and the positives
	var out []float64
	for _, f := range l {
		if f > 0 && (len(out) == 0 || out[len(out)-1] < 0) {
			out = append(out, negZ, 0)
		}
		out = append(out, f)
	}
	return append(out, nan)
}

// nonNumbers exercise ToNumber (ES5 9.3, 9.3.1, 8.12.8). Trusted table.
var nonNumbers = []arg{
	{label: "undefined", src: "undefined", num: nan},
	{label: "null", src: "null", num: 0},
	{label: "true", src: "true", num: 1},
	{label: "false", src: "false", num: 0},
	{label: "str-empty", src: `""`, num: 0},
	{label: "str-ws2.5", src: `"  2.5\n"`, num: 2.5},
	{label: "str-0x10", src: `"0x10"`, num: 16},
	{label: "str-neg0", src: `"-0"`, num: negZ},
	{label: "str-1e3", src: `"1e3"`, num: 1000},
	{label: "str-abc", src: `"abc"`, num: nan},
	{label: "str-Infinity", src: `"Infinity"`, num: inf},
	{label: "str-negInfinity", src: `"-Infinity"`, num: -inf},
	{label: "arr-empty", src: `[]`, num: 0},
	{label: "arr-3", src: `[3]`, num: 3},
	{label: "arr-1-2", src: `[1,2]`, num: nan},
	{label: "obj-empty", src: `({})`, num: nan},
	{label: "obj-valueOf-0.5", src: `({valueOf:function(){return 0.5}})`, num: 0.5},
	{label: "obj-toString-4", src: `({valueOf:function(){return {}},toString:function(){return "4"}})`, num: 4},
	{label: "obj-Number-neg1", src: `new Number(-1)`, num: -1},
	{label: "function", src: `(function(){})`, num: nan},
	{label: "obj-throws", src: `({valueOf:function(){throw new EvalError("vo")}})`, throws: "EvalError"},
}

// argSet binds the argument table to one runtime (non-numbers are evaluated once).
type argSet struct {
	args []arg
	vals []interface{}
}

func bindArgs(r *engine.Run, m *machine, args []arg) *argSet {
	s := &argSet{args: args, vals: make([]interface{}, len(args))}
	for i, a := range args {
		if a.isNum {
			s.vals[i] = a.num
		} else {
			s.vals[i] = m.eval(r, a.src)
		}
	}
	return s
}

func allArgs(thorough bool) []arg {
	var l []arg
	for _, f := range numbersS(thorough) {
		l = append(l, numArg(f))
	}
	return append(l, nonNumbers...)
}

// maxMinArgs is the 14-value subset for max/min.
func maxMinArgs() []arg {
	l := []arg{numArg(nan), numArg(0), numArg(negZ), numArg(1), numArg(-1), numArg(2.5), numArg(inf), numArg(-inf), numArg(maxF), numArg(-minF)}
	for _, a := range nonNumbers {
		switch a.label {
		case "undefined", "null", "str-0x10", "obj-throws":
			l = append(l, a)
		}
	}
	return l
}

var argByLabel = func() map[string]arg {
	m := map[string]arg{}
	for _, a := range allArgs(true) {
		m[a.label] = a
	}
	for _, a := range maxMinArgs() {
		m[a.label] = a
	}
	return m
}()

// firstThrow returns the error class of the first argument whose ToNumber throws.
func firstThrow(args []arg) string {
	for _, a := range args {
		if a.throws != "" {
			return a.throws
		}
	}
	return ""
}

var _ = otto.Value{}
var _ = mathspec.Free
