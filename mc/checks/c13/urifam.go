package c13

import (
	"fmt"
	"strconv"
	"strings"
	"unicode/utf16"

	"github.com/robertkrimen/otto"

	"verif/mc/engine"
	"verif/mc/ox"
	"verif/mc/ref/uri"
)

// the 30-unit alphabet of the encoder side (DESIGN.md C13) followed by 12 boundary
// units: the 1/2/3-byte UTF-8 boundaries, the %XX/%uXXXX boundary of escape, and the
// edges of the two surrogate ranges.
var encAlphabet = []uint16{'A', 'a', '0', '-', '_', '.', '!', '~', '*', '\'', '(', ')', ';', '/', '?', ':', '@', '&', '=', '+', '$', ',', '#',
	'%', ' ', 0xE9, 0x20AC, 0xD83D, 0xDE00, 0xFFFF,
	0x7F, 0x80, 0xFF, 0x100, 0x7FF, 0x800, 0xD7FF, 0xD800, 0xDBFF, 0xDC00, 0xDFFF, 0xE000}

// decode units: literals, escapes %XX, broken escapes
var decUnits = func() []string {
	l := []string{"A", ";", "%", "+"}
	for _, x := range []string{"00", "20", "23", "24", "25", "2B", "2F", "3B", "41", "7F", "80", "8F", "90", "9F", "A0", "BF", "C0", "C1", "C2",
		"DF", "E0", "E2", "ED", "EF", "F0", "F4", "F5", "FF", "c3", "a9", "2f", "2b"} {
		l = append(l, "%"+x)
	}
	return append(l, "%A", "%G1", "%1G")
}()

// unescape units: literals (ASCII, Latin-1, BMP, a lone surrogate), %XX, %uXXXX, broken forms
var unescUnits = [][]uint16{
	u16("A"), u16("%"), u16("u"), {0xE9}, {0x20AC}, {0xD83D},
	u16("%41"), u16("%e9"), u16("%E9"), u16("%00"), u16("%FF"), u16("%7f"),
	u16("%u0041"), u16("%u00e9"), u16("%u00E9"), u16("%u20AC"), u16("%uD83D"), u16("%uDE00"), u16("%uFFFF"), u16("%uffff"),
	u16("%u00"), u16("%u00G1"), u16("%uD83"), u16("%G1"), u16("%1"), u16("%U0041"),
}

func u16(s string) []uint16 { return utf16.Encode([]rune(s)) }

func hexKey(s []uint16) string {
	if len(s) == 0 {
		return "empty"
	}
	var sb strings.Builder
	for i, c := range s {
		if i > 0 {
			sb.WriteByte('.')
		}
		fmt.Fprintf(&sb, "%04X", c)
	}
	return sb.String()
}

// idxKey renders a unit-index vector (unique key of a decode-side case).
func idxKey(idx []int) string {
	if len(idx) == 0 {
		return "empty"
	}
	var sb strings.Builder
	for i, k := range idx {
		if i > 0 {
			sb.WriteByte('.')
		}
		sb.WriteString(strconv.FormatInt(int64(k), 36))
	}
	return sb.String()
}

func parseHexKey(k string) []uint16 {
	if k == "empty" || k == "" {
		return []uint16{}
	}
	var out []uint16
	for _, p := range strings.Split(k, ".") {
		var v uint16
		fmt.Sscanf(p, "%04X", &v)
		out = append(out, v)
	}
	return out
}

// jsLit renders units as a JavaScript string literal (\uXXXX for everything
// that is not printable ASCII) — the source-text route.
func jsLit(s []uint16) string {
	var sb strings.Builder
	sb.WriteByte('"')
	for _, c := range s {
		switch {
		case c == '"' || c == '\\':
			sb.WriteByte('\\')
			sb.WriteByte(byte(c))
		case c >= 0x20 && c < 0x7f:
			sb.WriteByte(byte(c))
		default:
			fmt.Fprintf(&sb, "\\u%04X", c)
		}
	}
	sb.WriteByte('"')
	return sb.String()
}

// value builds the argument string in the requested representation:
// "u16" = the []uint16 payload String.fromCharCode produces (the only one that
// can carry a lone surrogate), "str" = the Go-string payload literals produce.
func (m *machine) value(s []uint16, route string) (otto.Value, string) {
	if route == "str" {
		v, _ := otto.ToValue(string(utf16.Decode(s)))
		return v, jsLit(s)
	}
	args := make([]interface{}, len(s))
	parts := make([]string, len(s))
	for i, c := range s {
		args[i] = int(c)
		parts[i] = fmt.Sprint(c)
	}
	o := m.call("String.fromCharCode", args...)
	return o.val, "String.fromCharCode(" + strings.Join(parts, ",") + ")"
}

// best representation for a string: literal payload when well-formed, else u16.
func routeFor(s []uint16) string {
	if uri.WellFormed(s) {
		return "str"
	}
	return "u16"
}

type uriFn struct {
	name  string
	model func([]uint16) ([]uint16, bool)
}

func total(f func([]uint16) []uint16) func([]uint16) ([]uint16, bool) {
	return func(s []uint16) ([]uint16, bool) { return f(s), true }
}

var uriFns = map[string]uriFn{
	"encodeURI":          {"encodeURI", uri.EncodeURI},
	"encodeURIComponent": {"encodeURIComponent", uri.EncodeURIComponent},
	"decodeURI":          {"decodeURI", uri.DecodeURI},
	"decodeURIComponent": {"decodeURIComponent", uri.DecodeURIComponent},
	"escape":             {"escape", total(uri.Escape)},
	"unescape":           {"unescape", total(uri.Unescape)},
}

var inverseOf = map[string]string{"encodeURI": "decodeURI", "encodeURIComponent": "decodeURIComponent", "escape": "unescape"}

func canonModel(out []uint16, ok bool) string {
	if !ok {
		return "throw:URIError"
	}
	return ox.Str16(out)
}

func eqUnits(a, b []uint16) bool {
	if len(a) != len(b) {
		return false
	}
	for i := range a {
		if a[i] != b[i] {
			return false
		}
	}
	return true
}

// strings enumerates all sequences of 0..maxLen indices into an alphabet of n symbols, shortest first.
func sequences(n, maxLen int, f func(idx []int)) {
	for l := 0; l <= maxLen; l++ {
		idx := make([]int, l)
		for {
			f(idx)
			i := l - 1
			for i >= 0 {
				idx[i]++
				if idx[i] < n {
					break
				}
				idx[i] = 0
				i--
			}
			if i < 0 {
				break
			}
		}
	}
}

// mineLazy avoids building keys for cases other shards own.
func mineLazy(r *engine.Run, key func() string) bool {
	if r.ReplayKey != "" {
		return mine(r, key())
	}
	return r.Mine()
}

// begin announces a case for crash attribution. The URI families run millions of
// microsecond cases, so the announcement (a pipe write) is made once per batch of
// 32 executed cases: a fatal crash or hang is attributed to the first key of the
// batch it happened in (ordinary Go panics are caught per case by ox.Guard and
// reported for the exact case).
func (m *machine) begin(r *engine.Run, key string) {
	if m.nbegin%32 == 0 {
		r.Begin(key)
	}
	m.nbegin++
}

// uriCase runs fn on s in the given representation and compares with the model.
// It returns the observed outcome and whether it agreed.
func uriCase(r *engine.Run, m *machine, fn, route string, s []uint16, key string, nontrivial bool, sampleOK bool) (outcome, bool) {
	f := uriFns[fn]
	v, src := m.value(s, route)
	in := fn + "(" + src + ")"
	m.begin(r, key)
	o := m.call(fn, v)
	r.Eval(nontrivial)
	r.Outcome(fn + ":" + o.canon)
	exp := canonModel(f.model(s))
	if sampleOK && r.WantSample() {
		// keep the samples varied: at most two URIError cases per family and worker
		if isThrow := strings.HasPrefix(o.canon, "throw:"); !isThrow || m.throwSamples < 2 {
			if isThrow {
				m.throwSamples++
			}
			r.Sample(in + " => " + o.canon)
		}
	}
	if exp != o.canon {
		r.Mismatch(engine.Mismatch{Key: key, Input: in, Expected: exp, Observed: o.canon,
			Aux: map[string]string{"fn": fn, "units": hexKey(s), "route": route}})
		return o, false
	}
	return o, true
}

// ---- family: encode -----------------------------------------------------------

func runEncode(r *engine.Run) {
	m := newMachine(r)
	defer r.End()
	maxLen := 3
	if r.Thorough() {
		maxLen = 4
	}
	r.Bound("alphabet", fmt.Sprint(len(encAlphabet)))
	r.Bound("max_len", fmt.Sprint(maxLen))
	fns := []string{"encodeURI", "encodeURIComponent", "escape"}
	n := 0
	stop := false
	sequences(len(encAlphabet), maxLen, func(idx []int) {
		n++
		s := make([]uint16, len(idx))
		for i, k := range idx {
			s[i] = encAlphabet[k]
		}
		wf := uri.WellFormed(s)
		if stop {
			return
		}
		if n%4096 == 0 && r.Expired() {
			r.Cap("time budget")
			stop = true
			return
		}
		for _, fn := range fns {
			for _, route := range []string{"u16", "str"} {
				if route == "str" && !wf {
					continue
				}
				fn, route := fn, route
				if !mineLazy(r, func() string { return fn + "/" + route + "/" + hexKey(s) }) {
					continue
				}
				key := fn + "/" + route + "/" + hexKey(s)
				f := uriFns[fn]
				expUnits, expOK := f.model(s)
				nontrivial := !expOK || !eqUnits(expUnits, s)
				o, agreed := uriCase(r, m, fn, route, s, key, nontrivial, n%977 == 5)
				if !expOK {
					continue
				}
				// oracle self-check: the model's decoder inverts the model's encoder
				inv := uriFns[inverseOf[fn]]
				if back, ok := inv.model(expUnits); !ok || !eqUnits(back, s) {
					r.HarnessError(fmt.Sprintf("model %s(%s(%s)) != identity", inv.name, fn, hexKey(s)))
				}
				if !agreed {
					continue
				}
				// round-trip law on the implementation's own output value
				o2 := m.call(inv.name, o.val)
				r.Eval(true)
				if exp := ox.Str16(s); o2.canon != exp {
					r.Mismatch(engine.Mismatch{Key: key + "#roundtrip", Input: fmt.Sprintf("%s(%s(%s))", inv.name, fn, jsLit(s)), Expected: exp, Observed: o2.canon,
						Note: "law decode(encode(s)) = s", Aux: map[string]string{"fn": inv.name, "units": hexKey(expUnits), "route": "str", "roundtrip": "1"}})
				}
			}
		}
	})
}

// ---- family: encode-literal (source-text route) -------------------------------------

func runEncodeLiteral(r *engine.Run) {
	m := newMachine(r)
	maxLen := 2
	if r.Thorough() {
		maxLen = 3
	}
	r.Bound("alphabet", fmt.Sprint(len(encAlphabet)))
	r.Bound("max_len", fmt.Sprint(maxLen))
	fns := []string{"encodeURI", "encodeURIComponent", "escape", "decodeURI", "decodeURIComponent", "unescape"}
	n := 0
	sequences(len(encAlphabet), maxLen, func(idx []int) {
		n++
		s := make([]uint16, len(idx))
		for i, k := range idx {
			s[i] = encAlphabet[k]
		}
		for _, fn := range fns {
			fn := fn
			if !mineLazy(r, func() string { return fn + "/literal/" + hexKey(s) }) {
				continue
			}
			key := fn + "/literal/" + hexKey(s)
			src := fn + "(" + jsLit(s) + ")"
			r.Begin(key)
			res := ox.Run(m.vm, src)
			r.End()
			obs := ""
			switch {
			case res.Panicked:
				obs = fmt.Sprintf("panic:%v", res.PanicVal)
			case res.Err != nil:
				obs = "throw:" + ox.ErrClass(res.Err)
			default:
				obs = ox.Canon(res.Value)
			}
			exp := canonModel(uriFns[fn].model(s))
			r.Eval(exp != ox.Str16(s))
			r.Outcome(fn + ":" + obs)
			if r.WantSample() && n%37 == 11 {
				r.Sample(src + " => " + obs)
			}
			if exp != obs {
				r.Mismatch(engine.Mismatch{Key: key, Input: src, Expected: exp, Observed: obs,
					Aux: map[string]string{"fn": fn, "units": hexKey(s), "route": "literal"}})
			}
		}
	})
}

// ---- family: decode --------------------------------------------------------------

func runDecode(r *engine.Run) {
	m := newMachine(r)
	defer r.End()
	maxLen := 4
	if r.Thorough() {
		maxLen = 5
	}
	r.Bound("units", fmt.Sprint(len(decUnits)))
	r.Bound("max_units", fmt.Sprint(maxLen))
	fns := []string{"decodeURI", "decodeURIComponent"}
	n := 0
	stop := false
	sequences(len(decUnits), maxLen, func(idx []int) {
		n++
		if stop {
			return
		}
		if n%4096 == 0 && r.Expired() {
			r.Cap("time budget")
			stop = true
			return
		}
		var text string
		build := func() {
			if text != "" || len(idx) == 0 {
				return
			}
			var sb strings.Builder
			for _, k := range idx {
				sb.WriteString(decUnits[k])
			}
			text = sb.String()
		}
		for _, fn := range fns {
			fn := fn
			keyf := func() string { return fn + "/" + idxKey(idx) }
			if !mineLazy(r, keyf) {
				continue
			}
			build()
			s := u16(text)
			uriCase(r, m, fn, "str", s, keyf(), strings.Contains(text, "%"), n%1009 == 17)
		}
	})
}

// ---- family: unescape --------------------------------------------------------------

func runUnescape(r *engine.Run) {
	m := newMachine(r)
	defer r.End()
	maxLen := 4
	if r.Thorough() {
		maxLen = 5
	}
	r.Bound("units", fmt.Sprint(len(unescUnits)))
	r.Bound("max_units", fmt.Sprint(maxLen))
	n := 0
	stop := false
	sequences(len(unescUnits), maxLen, func(idx []int) {
		n++
		if stop {
			return
		}
		if n%4096 == 0 && r.Expired() {
			r.Cap("time budget")
			stop = true
			return
		}
		build := func() []uint16 {
			s := []uint16{}
			for _, k := range idx {
				s = append(s, unescUnits[k]...)
			}
			return s
		}
		if !mineLazy(r, func() string { return "unescape/" + idxKey(idx) }) {
			return
		}
		s := build()
		nontrivial := false
		for _, c := range s {
			if c == '%' {
				nontrivial = true
			}
		}
		uriCase(r, m, "unescape", routeFor(s), s, "unescape/"+idxKey(idx), nontrivial, n%9973 == 21)
	})
}

// ---- family: passthrough (decoders and unescape on the encoder alphabet) ----------------

func runPassthrough(r *engine.Run) {
	m := newMachine(r)
	defer r.End()
	maxLen := 3
	if r.Thorough() {
		maxLen = 4
	}
	r.Bound("alphabet", fmt.Sprint(len(encAlphabet)))
	r.Bound("max_len", fmt.Sprint(maxLen))
	fns := []string{"decodeURI", "decodeURIComponent", "unescape"}
	n := 0
	stop := false
	sequences(len(encAlphabet), maxLen, func(idx []int) {
		n++
		if stop {
			return
		}
		if n%4096 == 0 && r.Expired() {
			r.Cap("time budget")
			stop = true
			return
		}
		s := make([]uint16, len(idx))
		for i, k := range idx {
			s[i] = encAlphabet[k]
		}
		wf := uri.WellFormed(s)
		for _, fn := range fns {
			for _, route := range []string{"u16", "str"} {
				if route == "str" && !wf {
					continue
				}
				fn, route := fn, route
				if !mineLazy(r, func() string { return fn + "/" + route + "/" + hexKey(s) }) {
					continue
				}
				key := fn + "/" + route + "/" + hexKey(s)
				hasPct := false
				for _, c := range s {
					if c == '%' {
						hasPct = true
					}
				}
				uriCase(r, m, fn, route, s, key, hasPct || !wf, n%457 == 3)
			}
		}
	})
}
