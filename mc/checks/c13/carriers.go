package c13

import (
	"fmt"
	"math"
	"strconv"
	"strings"

	"github.com/robertkrimen/otto"

	"verif/mc/engine"
	"verif/mc/ox"
	"verif/mc/ref/mathspec"
	"verif/mc/ref/uri"
)

// Family "carriers": the argument is an OBJECT whose two conversion methods
// disagree (or are missing, not callable, return objects, throw). The numeric
// functions (Math.*, isNaN, isFinite, the radix of parseInt) must apply ToNumber
// = ToPrimitive with hint Number (valueOf first), the string functions (the six
// URI/escape functions, parseInt, parseFloat) ToString = ToPrimitive with hint
// String (toString first), ES5 9.3, 9.8, 8.12.8. Every conversion method logs its
// call, so the oracle also fixes which methods run and in which order (left to
// right over the arguments, 15.8.2).

const (
	mAbsent = iota
	mNotCallable
	mNum
	mStr
	mObj
	mThrow
	mTrue
	mNull
	mUndef
)

type cmeth struct {
	mode int
	num  float64
	str  string
}

func (c cmeth) js() string {
	switch c.mode {
	case mAbsent:
		return "undefined"
	case mNotCallable:
		return `["x"]`
	case mNum:
		return `["n",` + ox.JSNum(c.num) + `]`
	case mStr:
		return `["s",` + strconv.Quote(c.str) + `]`
	case mObj:
		return `["o"]`
	case mThrow:
		return `["t"]`
	case mTrue:
		return `["n",true]`
	case mNull:
		return `["null"]`
	}
	return `["u"]`
}

// prim is a primitive result of [[DefaultValue]].
type prim struct {
	kind int // mNum, mStr, mTrue, mNull, mUndef
	num  float64
	str  string
}

func (p prim) toNumber() float64 {
	switch p.kind {
	case mNum:
		return p.num
	case mStr: // only digit strings and obvious non-numbers are used
		if f, err := strconv.ParseFloat(p.str, 64); err == nil && strings.Trim(p.str, "-0123456789") == "" && p.str != "" && p.str != "-" {
			return f
		}
		if p.str == "" {
			return 0
		}
		return math.NaN()
	case mTrue:
		return 1
	case mNull:
		return 0
	}
	return math.NaN()
}

func (p prim) toString() string {
	switch p.kind {
	case mNum:
		switch {
		case math.IsNaN(p.num):
			return "NaN"
		case p.num == 0:
			return "0"
		}
		return strconv.FormatFloat(p.num, 'f', -1, 64) // small integers only
	case mStr:
		return p.str
	case mTrue:
		return "true"
	case mNull:
		return "null"
	}
	return "undefined"
}

// carrier is one argument object.
type carrier struct {
	label    string
	base     string // "null" (Object.create(null)) or "date" (new Date(5)) for logging carriers
	accessor bool   // methods installed as logging getters
	v, s     cmeth
	// built-in carriers: fixed source, no log
	src     string
	bnum    float64
	bstr    string
	strTwin bool // ToString is implementation-defined text: take it from src.toString()
}

func (c carrier) logging() bool { return c.src == "" }

func (c carrier) js(i int) string {
	if !c.logging() {
		return c.src
	}
	return fmt.Sprintf("__c(%d,%q,%v,%s,%s)", i, c.base, c.accessor, c.v.js(), c.s.js())
}

// defaultValue is ES5 8.12.8 for a logging carrier. hintString: toString first.
func (c carrier) defaultValue(i int, hintString bool) (p prim, throws string, log []string) {
	type step struct {
		tag string
		m   cmeth
	}
	order := []step{{"v", c.v}, {"s", c.s}}
	if hintString {
		order = []step{{"s", c.s}, {"v", c.v}}
	}
	for _, st := range order {
		if st.m.mode == mAbsent {
			continue // [[Get]] gives undefined: not callable
		}
		if c.accessor {
			log = append(log, fmt.Sprintf("%dg%s", i, st.tag))
		}
		if st.m.mode == mNotCallable {
			continue
		}
		log = append(log, fmt.Sprintf("%d%s", i, st.tag))
		switch st.m.mode {
		case mThrow:
			return prim{}, "EvalError", log
		case mObj:
			continue
		case mNum:
			return prim{kind: mNum, num: st.m.num}, "", log
		case mStr:
			return prim{kind: mStr, str: st.m.str}, "", log
		default:
			return prim{kind: st.m.mode}, "", log
		}
	}
	return prim{}, "TypeError", log
}

func cN(f float64) cmeth { return cmeth{mode: mNum, num: f} }
func cS(t string) cmeth  { return cmeth{mode: mStr, str: t} }

var loggingCarriers = []carrier{
	{label: "v1-s2", base: "null", v: cN(1), s: cS("2")},
	{label: "vobj-s3", base: "null", v: cmeth{mode: mObj}, s: cS("3")},
	{label: "v4-sobj", base: "null", v: cN(4), s: cmeth{mode: mObj}},
	{label: "vobj-sobj", base: "null", v: cmeth{mode: mObj}, s: cmeth{mode: mObj}},
	{label: "vstr5-snum6", base: "null", v: cS("5"), s: cN(6)},
	{label: "vnc-s7", base: "null", v: cmeth{mode: mNotCallable}, s: cS("7")},
	{label: "v8-snc", base: "null", v: cN(8), s: cmeth{mode: mNotCallable}},
	{label: "none", base: "null"},
	{label: "vthrow-s9", base: "null", v: cmeth{mode: mThrow}, s: cS("9")},
	{label: "v10-sthrow", base: "null", v: cN(10), s: cmeth{mode: mThrow}},
	{label: "acc-v11-s12", base: "null", accessor: true, v: cN(11), s: cS("12")},
	{label: "vNaN-s13", base: "null", v: cN(math.NaN()), s: cS("13")},
	{label: "vabc-s14", base: "null", v: cS("abc"), s: cS("14")},
	{label: "vneg0-s15", base: "null", v: cN(math.Copysign(0, -1)), s: cS("15")},
	{label: "vtrue-snull", base: "null", v: cmeth{mode: mTrue}, s: cmeth{mode: mNull}},
	{label: "vundef-sundef", base: "null", v: cmeth{mode: mUndef}, s: cmeth{mode: mUndef}},
	{label: "date-v17-s18", base: "date", v: cN(17), s: cS("18")},
	{label: "date-vobj-s19", base: "date", v: cmeth{mode: mObj}, s: cS("19")},
	{label: "date-acc-v20-s21", base: "date", accessor: true, v: cN(20), s: cS("21")},
}

var builtinCarriers = []carrier{
	{label: "Date5", src: "new Date(5)", bnum: 5, strTwin: true},
	{label: "Date0", src: "new Date(0)", bnum: 0, strTwin: true},
	{label: "DateNaN", src: "new Date(NaN)", bnum: math.NaN(), strTwin: true},
	{label: "Number11-s12", src: `(function(){var o=new Number(11);o.toString=function(){return "12"};return o})()`, bnum: 11, bstr: "12"},
	{label: "String13-v14", src: `(function(){var o=new String("13");o.valueOf=function(){return 14};return o})()`, bnum: 14, bstr: "13"},
	{label: "Number7", src: "new Number(7)", bnum: 7, bstr: "7"},
	{label: "String21", src: `new String("21")`, bnum: 21, bstr: "21"},
	{label: "BooleanTrue", src: "new Boolean(true)", bnum: 1, bstr: "true"},
	{label: "BooleanFalse", src: "new Boolean(false)", bnum: 0, bstr: "false"},
	{label: "arr15", src: "[15]", bnum: 15, bstr: "15"},
	{label: "arr1-2", src: "[1,2]", bnum: math.NaN(), bstr: "1,2"},
	{label: "arrEmpty", src: "[]", bnum: 0, bstr: ""},
	{label: "arrNested7", src: "[[7]]", bnum: 7, bstr: "7"},
	{label: "arr3-v16", src: `(function(){var a=[3];a.valueOf=function(){return 16};return a})()`, bnum: 16, bstr: "3"},
	{label: "plainObject", src: "({})", bnum: math.NaN(), bstr: "[object Object]"},
	{label: "regexp", src: "/a/g", bnum: math.NaN(), bstr: "/a/g"},
	{label: "error", src: `new Error("m")`, bnum: math.NaN(), bstr: "Error: m"},
	{label: "Math", src: "Math", bnum: math.NaN(), bstr: "[object Math]"},
	{label: "function", src: "(function(){})", bnum: math.NaN(), strTwin: true},
}

const carrierPrelude = `
var __log = [];
function __m(i, tag, spec) {
  return function() {
    __log.push(i + tag);
    switch (spec[0]) {
      case "t": throw new EvalError("c");
      case "o": return {};
      case "null": return null;
      case "u": return undefined;
      default: return spec[1];
    }
  };
}
function __c(i, base, acc, v, s) {
  var o = base === "date" ? new Date(5) : Object.create(null);
  function def(name, tag, spec) {
    if (spec === undefined) { if (base === "date") o[name] = undefined; return; }
    var f = spec[0] === "x" ? 1 : __m(i, tag, spec);
    if (acc) Object.defineProperty(o, name, {get: function() { __log.push(i + "g" + tag); return f; }, configurable: true});
    else o[name] = f;
  }
  def("valueOf", "v", v); def("toString", "s", s);
  return o;
}
function __run(f, a) {
  __log.length = 0;
  var r, t = "";
  try { r = f.apply(undefined, a); } catch (e) { t = (e && e.name) || "Thrown"; }
  return [r, t, __log.join(",")];
}
`

// conversion of one argument: Number value or string, or throw, plus log
type conv struct {
	num    float64
	str    string
	throws string
	log    []string
}

// twin caches Math.<fn> on float64 arguments (the route the unary/binary families hold to the laws).
func (m *machine) twin(fn string, nums ...float64) float64 {
	if m.twins == nil {
		m.twins = map[string]float64{}
	}
	k := fn
	a := make([]interface{}, len(nums))
	for i, x := range nums {
		k += fmt.Sprintf("/%016x", math.Float64bits(x))
		a[i] = x
	}
	if t, ok := m.twins[k]; ok {
		return t
	}
	o := m.call("Math."+fn, a...)
	t := math.NaN()
	if o.isNum {
		t = o.num
	}
	m.twins[k] = t
	return t
}

// simple prefix model of parseInt(string) / parseFloat(string) for the strings the carriers yield
// (optional '-', decimal digits; anything else at the start gives NaN).
func parseIntPrefix(t string) float64 {
	t = strings.TrimLeft(t, " ")
	neg := strings.HasPrefix(t, "-")
	if neg {
		t = t[1:]
	}
	i := 0
	for i < len(t) && t[i] >= '0' && t[i] <= '9' {
		i++
	}
	if i == 0 {
		return math.NaN()
	}
	f, _ := strconv.ParseFloat(t[:i], 64)
	if neg {
		f = -f
	}
	return f
}

// parseIntRadix is 15.1.2.2 for strings without white space or 0x prefix and small integer radixes.
func parseIntRadix(t string, rad float64) float64 {
	R := 10
	if !math.IsNaN(rad) && rad != 0 {
		R = int(rad)
		if R < 2 || R > 36 {
			return math.NaN()
		}
	}
	neg := strings.HasPrefix(t, "-")
	if neg {
		t = t[1:]
	}
	v, nd := 0.0, 0
	for _, ch := range strings.ToLower(t) {
		d := 99
		switch {
		case ch >= '0' && ch <= '9':
			d = int(ch - '0')
		case ch >= 'a' && ch <= 'z':
			d = int(ch-'a') + 10
		}
		if d >= R {
			break
		}
		v = v*float64(R) + float64(d)
		nd++
	}
	if nd == 0 {
		return math.NaN()
	}
	if neg {
		v = -v
	}
	return v
}

var numericFns = append(append([]string{}, mathspec.Unary...), "max", "min", "isNaN", "isFinite")
var stringFns = []string{"encodeURI", "encodeURIComponent", "decodeURI", "decodeURIComponent", "escape", "unescape", "parseInt", "parseFloat"}

func jsName(fn string) string {
	switch fn {
	case "isNaN", "isFinite", "encodeURI", "encodeURIComponent", "decodeURI", "decodeURIComponent", "escape", "unescape", "parseInt", "parseFloat":
		return fn
	}
	return "Math." + fn
}

// carg is one argument of a carrier case: a carrier or a plain primitive.
type carg struct {
	c      *carrier
	lit    string  // primitive literal source when c == nil
	num    float64 // its Number value
	str    string  // its String value
	wantSt bool    // converted with ToString (else ToNumber)
}

func runCarriers(r *engine.Run) {
	m := newMachine(r)
	defer r.End()
	if res := ox.Run(m.vm, carrierPrelude); res.Err != nil || res.Panicked {
		r.HarnessError(fmt.Sprintf("carrier prelude: %v %v", res.Err, res.PanicVal))
		return
	}
	all := make([]*carrier, 0, len(loggingCarriers)+len(builtinCarriers))
	for i := range loggingCarriers {
		all = append(all, &loggingCarriers[i])
	}
	nlog := len(all)
	for i := range builtinCarriers {
		c := builtinCarriers[i]
		if c.strTwin {
			res := ox.Run(m.vm, "("+c.src+").toString()")
			if res.Err != nil || res.Panicked {
				r.HarnessError("cannot take toString of " + c.src)
				continue
			}
			c.bstr, _ = res.Value.ToString()
		}
		all = append(all, &c)
	}
	r.Bound("logging_carriers", fmt.Sprint(nlog))
	r.Bound("builtin_carriers", fmt.Sprint(len(all)-nlog))

	convert := func(i int, a carg) conv {
		if a.c == nil {
			return conv{num: a.num, str: a.str}
		}
		if !a.c.logging() {
			return conv{num: a.c.bnum, str: a.c.bstr}
		}
		p, th, log := a.c.defaultValue(i, a.wantSt)
		if th != "" {
			return conv{throws: th, log: log}
		}
		return conv{num: p.toNumber(), str: p.toString(), log: log}
	}

	ncase := 0
	do := func(fn string, args []carg) {
		ncase++
		keyf := func() string {
			parts := make([]string, len(args))
			for i, a := range args {
				if a.c != nil {
					parts[i] = a.c.label
				} else {
					parts[i] = "lit:" + a.lit
				}
			}
			return fn + "/" + strings.Join(parts, "/")
		}
		if !mineLazy(r, keyf) {
			return
		}
		key := keyf()
		srcs := make([]string, len(args))
		labels := make([]string, len(args))
		for i, a := range args {
			if a.c != nil {
				srcs[i] = a.c.js(i)
				labels[i] = a.c.label
			} else {
				srcs[i] = a.lit
				labels[i] = "lit:" + a.lit
			}
		}
		src := fmt.Sprintf("__run(%s, [%s])", jsName(fn), strings.Join(srcs, ", "))
		m.begin(r, key)
		res := ox.Run(m.vm, src)
		obs := ""
		var rv otto.Value
		switch {
		case res.Panicked:
			obs = fmt.Sprintf("panic:%v", res.PanicVal)
		case res.Err != nil:
			obs = "error:" + res.Err.Error()
		default:
			arr := res.Value.Object()
			rv, _ = arr.Get("0")
			tv, _ := arr.Get("1")
			lv, _ := arr.Get("2")
			t, _ := tv.ToString()
			l, _ := lv.ToString()
			if t != "" {
				obs = "throw:" + t
			} else if rv.IsNumber() {
				f, _ := rv.ToFloat()
				obs = "d:" + mathspec.Num(f)
			} else {
				obs = ox.Canon(rv)
			}
			obs += "|log:" + l
		}
		r.Eval(true)
		r.Outcome(fn + ":" + obs)
		if r.WantSample() && ncase%211 == 5 {
			r.Sample(src + " => " + obs)
		}
		// model: convert the arguments left to right
		var log []string
		throws := ""
		convs := make([]conv, len(args))
		for i, a := range args {
			convs[i] = convert(i, a)
			log = append(log, convs[i].log...)
			if convs[i].throws != "" {
				throws = convs[i].throws
				break
			}
		}
		aux := map[string]string{"fn": fn, "carriers": strings.Join(labels, ",")}
		fail := func(exp, note string) {
			r.Mismatch(engine.Mismatch{Key: key, Input: src, Expected: exp, Observed: obs, Note: note, Aux: aux})
		}
		logs := "|log:" + strings.Join(log, ",")
		if throws != "" {
			if exp := "throw:" + throws + logs; exp != obs {
				fail(exp, "ES5 8.12.8 [[DefaultValue]]")
			}
			return
		}
		exp := ""
		switch fn {
		case "isNaN", "isFinite":
			v := uri.IsNaN(convs[0].num)
			if fn == "isFinite" {
				v = uri.IsFinite(convs[0].num)
			}
			exp = "b:0"
			if v {
				exp = "b:1"
			}
		case "max", "min":
			nums := make([]float64, len(convs))
			for i := range convs {
				nums[i] = convs[i].num
			}
			exp = "d:" + mathspec.Num(mathspec.MaxMin(fn == "max", nums))
		case "parseInt":
			rad := 0.0
			if len(convs) > 1 { // ToInt32(ToNumber(radix)); the carriers yield small integers or NaN
				rad = convs[1].num
			}
			exp = "d:" + mathspec.Num(parseIntRadix(convs[0].str, rad))
		case "parseFloat":
			exp = "d:" + mathspec.Num(parseIntPrefix(convs[0].str))
		case "encodeURI", "encodeURIComponent", "decodeURI", "decodeURIComponent", "escape", "unescape":
			exp = canonModel(uriFns[fn].model(ox.Units(convs[0].str)))
			if exp == "throw:URIError" {
				// thrown by the function after the conversion: log stays
				if e := exp + logs; e != obs {
					fail(e, "")
				}
				return
			}
		default:
			b := 0.0
			nums := []float64{convs[0].num}
			if len(convs) > 1 {
				b = convs[1].num
				nums = append(nums, b)
			}
			spec, err := mathspec.Lookup(fn, convs[0].num, b)
			if err != nil {
				r.HarnessError(err.Error())
				return
			}
			want := spec
			if spec.Kind == mathspec.Free {
				want = mathspec.Spec{Kind: mathspec.Exact, Val: m.twin(fn, nums...)}
			}
			f, _ := rv.ToFloat()
			if !strings.HasPrefix(obs, "d:") || !want.Accepts(f) || !strings.HasSuffix(obs, logs) {
				fail("d:"+want.String()+logs, spec.Row)
			}
			return
		}
		if exp+logs != obs {
			fail(exp+logs, "")
		}
	}

	two := carg{lit: "2", num: 2, str: "2"}
	for _, c := range all {
		for _, fn := range numericFns {
			do(fn, []carg{{c: c}})
		}
		for _, fn := range stringFns {
			do(fn, []carg{{c: c, wantSt: true}})
		}
		for _, fn := range []string{"pow", "atan2", "max", "min"} {
			do(fn, []carg{{c: c}, two})
			do(fn, []carg{two, {c: c}})
		}
		do("parseInt", []carg{{lit: `"10"`, str: "10"}, {c: c}})
	}
	// two logging carriers: conversions run left to right
	for _, fn := range []string{"pow", "atan2", "max", "min"} {
		for i := 0; i < nlog; i++ {
			for j := 0; j < nlog; j++ {
				do(fn, []carg{{c: all[i]}, {c: all[j]}})
			}
		}
	}
	for i := 0; i < nlog; i++ {
		for j := 0; j < nlog; j++ {
			do("parseInt", []carg{{c: all[i], wantSt: true}, {c: all[j]}})
		}
	}
	// max/min with three carriers over a subset (a NaN carrier among ordinary ones)
	sub := []*carrier{all[0], all[4], all[8], all[11], all[13], all[16]}
	for _, fn := range []string{"max", "min"} {
		for _, a := range sub {
			for _, b := range sub {
				for _, c := range sub {
					do(fn, []carg{{c: a}, {c: b}, {c: c}})
				}
			}
		}
	}
}
