package c13

import (
	"fmt"
	"math"
	"math/big"
	"strings"

	"verif/mc/engine"
	"verif/mc/ox"
	"verif/mc/ref/mathspec"
	"verif/mc/ref/uri"
)

// Family "kinds": otto carries Numbers in several Go representations (int from
// string/array built-ins, int32 from the bitwise and shift operators, uint32 from
// >>>, uint16 from charCodeAt, int64 from integer literals / parseInt / array
// lengths, float64 from arithmetic, and whatever Go type the embedder hands over:
// int8..int64, uint8..uint64, float32, float64). ES5 knows one Number type, so
// every Math function (and isNaN / isFinite) must give the result of the model on
// the Number value of the argument whatever representation carries it. Each point
// of a lattice that contains the extremes of every kind is presented in every
// representation that can hold it.

// latv is one lattice point: an integer (n != nil) or a non-integer/special double.
type latv struct {
	n   *big.Int
	num float64 // the Number value: n rounded to nearest (exact for |n| <= 2^53), or the double itself
}

func (v latv) label() string {
	if v.n != nil {
		return v.n.String()
	}
	return ox.JSNum(v.num)
}

// lit is the source text of the value as a parenthesised literal.
func (v latv) lit() string { return "(" + v.label() + ")" }

func bigOf(s string) *big.Int {
	n, ok := new(big.Int).SetString(s, 10)
	if !ok {
		panic(s)
	}
	return n
}

func intLat(n *big.Int) latv {
	f, _ := new(big.Float).SetInt(n).Float64() // round to nearest even
	return latv{n: n, num: f}
}

func kindLattice(thorough bool) []latv {
	var out []latv
	seen := map[string]bool{}
	add := func(n *big.Int) {
		if !seen[n.String()] {
			seen[n.String()] = true
			out = append(out, intLat(n))
		}
	}
	for _, s := range []string{
		"0", "1", "-1", "2", "-2", "3", "-3", "10", "31", "32", "63", "64", "65",
		"127", "128", "-127", "-128", "-129", "255", "256", "-255", "-256",
		"32767", "32768", "-32767", "-32768", "-32769", "65535", "65536", "-65535",
		"16777216", "16777217", // float32 exactness boundary
		"2147483647", "2147483648", "-2147483647", "-2147483648", "-2147483649",
		"4294967295", "4294967296", "-4294967295", "-4294967296",
		"9007199254740991", "9007199254740992", "9007199254740993", "-9007199254740991", "-9007199254740992", "-9007199254740993",
		"9223372036854775807", "9223372036854775808", "-9223372036854775807", "-9223372036854775808",
		"18446744073709551615", "18446744073709551616",
	} {
		add(bigOf(s))
	}
	if thorough {
		for e := uint(1); e <= 64; e++ {
			p := new(big.Int).Lsh(big.NewInt(1), e)
			for _, d := range []int64{-1, 0, 1} {
				q := new(big.Int).Add(p, big.NewInt(d))
				add(q)
				add(new(big.Int).Neg(q))
			}
		}
	}
	for _, f := range []float64{negZ, 0.5, -0.5, 1.5, -1.5, 2.5, -2.5, 0.49999999999999994, 0.10000000149011612 /* float32(0.1) */, 0.1,
		3.4028234663852886e+38 /* max float32 */, 1.401298464324817e-45 /* min float32 */, -3.4028234663852886e+38,
		1e300, 5e-324, inf, -inf, nan} {
		out = append(out, latv{num: f})
	}
	return out
}

// pres is one way of carrying a Number to a built-in.
type pres struct {
	name string
	// ok reports whether the representation can hold the point.
	ok func(v latv) bool
	// src renders a JavaScript expression evaluating to the point (script side) ...
	src func(v latv) string
	// ... or val yields the Go value handed to the function (embedder side).
	val func(v latv) interface{}
}

var (
	bMinI32 = big.NewInt(math.MinInt32)
	bMaxI32 = big.NewInt(math.MaxInt32)
	bMaxU32 = big.NewInt(math.MaxUint32)
	bMinI64 = big.NewInt(math.MinInt64)
	bMaxI64 = big.NewInt(math.MaxInt64)
	bMaxU64 = new(big.Int).SetUint64(math.MaxUint64)
	bZero   = big.NewInt(0)
)

func inRange(v latv, lo, hi *big.Int) bool {
	return v.n != nil && v.n.Cmp(lo) >= 0 && v.n.Cmp(hi) <= 0
}
func isI32(v latv) bool { return inRange(v, bMinI32, bMaxI32) }
func isU32(v latv) bool { return inRange(v, bZero, bMaxU32) }
func isI64(v latv) bool { return inRange(v, bMinI64, bMaxI64) }
func anyV(latv) bool    { return true }

func wrap(format string) func(latv) string {
	return func(v latv) string { return fmt.Sprintf(format, v.lit()) }
}

func goInt(bits int, signed bool, conv func(n *big.Int) interface{}) (func(latv) bool, func(latv) interface{}) {
	lo, hi := new(big.Int), new(big.Int)
	if signed {
		lo.Neg(new(big.Int).Lsh(big.NewInt(1), uint(bits-1)))
		hi.Sub(new(big.Int).Lsh(big.NewInt(1), uint(bits-1)), big.NewInt(1))
	} else {
		hi.Sub(new(big.Int).Lsh(big.NewInt(1), uint(bits)), big.NewInt(1))
	}
	return func(v latv) bool { return inRange(v, lo, hi) }, func(v latv) interface{} { return conv(v.n) }
}

var presentations = func() []pres {
	l := []pres{
		// script side ---------------------------------------------------------
		{name: "literal", ok: func(v latv) bool { return v.n == nil || v.n.Sign() >= 0 }, src: latv.lit},
		{name: "neg-literal", ok: func(v latv) bool { return v.n != nil && v.n.Sign() != 0 }, // -(M) with M = -n
			src: func(v latv) string { return "(-(" + new(big.Int).Neg(v.n).String() + "))" }},
		{name: "hex-literal", ok: func(v latv) bool { return inRange(v, bZero, bMaxI64) },
			src: func(v latv) string { return "(0x" + v.n.Text(16) + ")" }},
		{name: "or0", ok: isI32, src: wrap("(%s|0)")},
		{name: "xor0", ok: isI32, src: wrap("(%s^0)")},
		{name: "and-1", ok: isI32, src: wrap("(%s&-1)")},
		{name: "shl0", ok: isI32, src: wrap("(%s<<0)")},
		{name: "sar0", ok: isI32, src: wrap("(%s>>0)")},
		{name: "notnot", ok: isI32, src: wrap("(~~%s)")},
		{name: "not", ok: isI32, src: func(v latv) string { // ~M with M = -n-1
			m := new(big.Int).Neg(v.n)
			m.Sub(m, big.NewInt(1))
			return "(~(" + m.String() + "))"
		}},
		{name: "shr0", ok: isU32, src: wrap("(%s>>>0)")},
		{name: "mul1", ok: anyV, src: wrap("(%s*1)")},
		{name: "div1", ok: anyV, src: wrap("(%s/1)")},
		{name: "sub0", ok: anyV, src: wrap("(%s-0)")},
		{name: "plus", ok: anyV, src: wrap("(+%s)")},
		{name: "negneg", ok: anyV, src: wrap("(-(-%s))")},
		{name: "postinc", ok: func(v latv) bool { return v.n != nil && v.n.IsInt64() && v.n.CmpAbs(big.NewInt(1<<53)) < 0 },
			src: func(v latv) string {
				return "(function(t){t++;return t})(" + new(big.Int).Sub(v.n, big.NewInt(1)).String() + ")"
			}},
		{name: "parseInt", ok: isI64, src: func(v latv) string { return `parseInt("` + v.n.String() + `")` }},
		{name: "string-length", ok: func(v latv) bool { return inRange(v, bZero, big.NewInt(3)) },
			src: func(v latv) string { return `"` + strings.Repeat("a", int(v.n.Int64())) + `".length` }},
		{name: "array-length", ok: func(v latv) bool { return inRange(v, bZero, big.NewInt(256)) },
			src: func(v latv) string { return "new Array(" + v.n.String() + ").length" }},
		{name: "indexOf", ok: func(v latv) bool { return inRange(v, big.NewInt(-1), big.NewInt(1)) },
			src: func(v latv) string { return `"ab".indexOf("` + []string{"c", "a", "b"}[v.n.Int64()+1] + `")` }},
		{name: "array-indexOf", ok: func(v latv) bool { return inRange(v, big.NewInt(-1), big.NewInt(1)) },
			src: func(v latv) string { return `[7,8].indexOf(` + []string{"9", "7", "8"}[v.n.Int64()+1] + `)` }},
		{name: "charCodeAt", ok: func(v latv) bool {
			return inRange(v, bZero, big.NewInt(65535)) && !(v.n.Int64() >= 0xD800 && v.n.Int64() <= 0xDFFF) && v.n.Int64() != 0xFFFD
		}, src: func(v latv) string { return fmt.Sprintf(`"\u%04X".charCodeAt(0)`, v.n.Int64()) }},
	}
	// embedder side: the Go value is passed as the argument ----------------------
	type gk struct {
		name   string
		bits   int
		signed bool
		conv   func(n *big.Int) interface{}
	}
	for _, k := range []gk{
		{"go-int", 64, true, func(n *big.Int) interface{} { return int(n.Int64()) }},
		{"go-int8", 8, true, func(n *big.Int) interface{} { return int8(n.Int64()) }},
		{"go-int16", 16, true, func(n *big.Int) interface{} { return int16(n.Int64()) }},
		{"go-int32", 32, true, func(n *big.Int) interface{} { return int32(n.Int64()) }},
		{"go-int64", 64, true, func(n *big.Int) interface{} { return n.Int64() }},
		{"go-uint", 64, false, func(n *big.Int) interface{} { return uint(n.Uint64()) }},
		{"go-uint8", 8, false, func(n *big.Int) interface{} { return uint8(n.Uint64()) }},
		{"go-uint16", 16, false, func(n *big.Int) interface{} { return uint16(n.Uint64()) }},
		{"go-uint32", 32, false, func(n *big.Int) interface{} { return uint32(n.Uint64()) }},
		{"go-uint64", 64, false, func(n *big.Int) interface{} { return n.Uint64() }},
	} {
		ok, val := goInt(k.bits, k.signed, k.conv)
		l = append(l, pres{name: k.name, ok: ok, val: val})
	}
	l = append(l,
		pres{name: "go-float32", ok: func(v latv) bool {
			if v.n != nil && !v.n.IsInt64() && !v.n.IsUint64() {
				return false
			}
			if v.n != nil { // the integer itself must survive float32
				f, acc := new(big.Float).SetInt(v.n).Float32()
				return acc == big.Exact && !math.IsInf(float64(f), 0)
			}
			return math.IsNaN(v.num) || float64(float32(v.num)) == v.num
		}, val: func(v latv) interface{} { return float32(v.num) }},
		pres{name: "go-float64", ok: anyV, val: func(v latv) interface{} { return v.num }},
	)
	return l
}()

// shown renders the presented argument for the Input of a case.
func (p pres) shown(v latv) string {
	if p.src != nil {
		return p.src(v)
	}
	return fmt.Sprintf("<%s %s>", strings.TrimPrefix(p.name, "go-"), v.label())
}

// runSrc evaluates a complete expression (script-side presentations).
func (m *machine) runSrc(src string) outcome {
	res := ox.Run(m.vm, src)
	switch {
	case res.Panicked:
		return outcome{canon: fmt.Sprintf("panic:%v", res.PanicVal)}
	case res.Err != nil:
		return outcome{canon: "throw:" + ox.ErrClass(res.Err)}
	}
	o := outcome{val: res.Value, canon: ox.Canon(res.Value)}
	if res.Value.IsNumber() {
		o.isNum = true
		o.num, _ = res.Value.ToFloat()
		o.canon = "d:" + mathspec.Num(o.num)
	}
	return o
}

// partner values for the second position of binary / variadic functions
var kindPartners = []float64{negZ, 0, 0.5, 2, 3, -1, math.Inf(-1), nan}

// small square on which both arguments are carried in the same representation
var kindSquare = []string{"0", "1", "-1", "2", "-2", "3", "10", "31", "32", "62", "63", "64", "127", "-128", "255", "65535",
	"2147483647", "-2147483648", "4294967295", "9007199254740992", "-9223372036854775808", "9223372036854775807", "18446744073709551615"}

type kindArg struct {
	p pres
	v latv
}

// kindCall runs fn on the presented arguments: wholly in script when the first
// presentation is script-side (partners are rendered as literals), otherwise
// through Value.Call with Go values.
func kindCall(m *machine, jsFn string, args []kindArg) (outcome, string) {
	shown := make([]string, len(args))
	script := len(args) > 0 && args[0].p.src != nil
	for i, a := range args {
		shown[i] = a.p.shown(a.v)
	}
	in := jsFn + "(" + strings.Join(shown, ", ") + ")"
	if script {
		return m.runSrc(in), in
	}
	vals := make([]interface{}, len(args))
	for i, a := range args {
		vals[i] = a.p.val(a.v)
	}
	return m.call(jsFn, vals...), in
}

func runKinds(r *engine.Run) {
	m := newMachine(r)
	defer r.End()
	lat := kindLattice(r.Thorough())
	r.Bound("lattice", fmt.Sprint(len(lat)))
	r.Bound("representations", fmt.Sprint(len(presentations)))
	var f64P pres
	for _, p := range presentations {
		if p.name == "go-float64" {
			f64P = p
		}
	}
	// partner in the same world as the presentation under test
	partner := func(p pres, f float64) kindArg {
		if p.src != nil {
			return kindArg{pres{name: "literal", src: latv.lit}, latv{num: f}}
		}
		return kindArg{f64P, latv{num: f}}
	}
	twins := map[string]float64{}
	twin := func(fn string, nums ...float64) float64 {
		k := fn
		a := make([]interface{}, len(nums))
		for i, x := range nums {
			k += fmt.Sprintf("/%016x", math.Float64bits(x))
			a[i] = x
		}
		if t, ok := twins[k]; ok {
			return t
		}
		o := m.call("Math."+fn, a...)
		t := math.NaN()
		if o.isNum {
			t = o.num
		}
		twins[k] = t
		return t
	}
	n := 0
	// one case: fn applied to presented arguments; expected from the model on the Number values
	do := func(fn string, args []kindArg) {
		n++
		keyf := func() string {
			parts := make([]string, len(args))
			for i, a := range args {
				parts[i] = a.p.name + ":" + a.v.label()
			}
			return fn + "/" + strings.Join(parts, "/")
		}
		if !mineLazy(r, keyf) {
			return
		}
		key := keyf()
		jsFn := "Math." + fn
		if fn == "isNaN" || fn == "isFinite" {
			jsFn = fn
		}
		m.begin(r, key)
		o, in := kindCall(m, jsFn, args)
		r.Outcome(fn + ":" + o.canon)
		nums := make([]float64, len(args))
		labels := make([]string, len(args))
		for i, a := range args {
			nums[i] = a.v.num
			labels[i] = a.p.name + ":" + a.v.label()
		}
		aux := map[string]string{"fn": fn, "kinds": strings.Join(labels, ","), "nums": fmt.Sprint(nums)}
		if r.WantSample() && n%1013 == 7 {
			r.Sample(in + " => " + o.canon)
		}
		fail := func(exp, note string) {
			r.Mismatch(engine.Mismatch{Key: key, Input: in, Expected: exp, Observed: o.canon, Note: note, Aux: aux})
		}
		switch fn {
		case "isNaN", "isFinite":
			r.Eval(true)
			want := uri.IsNaN(nums[0])
			if fn == "isFinite" {
				want = uri.IsFinite(nums[0])
			}
			exp := "b:0"
			if want {
				exp = "b:1"
			}
			if o.canon != exp {
				fail(exp, "")
			}
			return
		case "max", "min":
			r.Eval(true)
			if exp := "d:" + mathspec.Num(mathspec.MaxMin(fn == "max", nums)); o.canon != exp {
				fail(exp, "")
			}
			return
		}
		b := 0.0
		if len(nums) > 1 {
			b = nums[1]
		}
		spec, err := mathspec.Lookup(fn, nums[0], b)
		if err != nil {
			r.HarnessError(err.Error())
			return
		}
		if spec.Kind == mathspec.Free && fn == "pow" {
			if v, ok := mathspec.PowExact(nums[0], b); ok {
				spec = mathspec.Spec{Kind: mathspec.Exact, Val: v, Row: "exactly representable integer power"}
			}
		}
		r.Eval(true)
		if !o.isNum || !spec.Accepts(o.num) {
			fail("d:"+spec.String(), spec.Row)
			return
		}
		if spec.Kind != mathspec.Free {
			return
		}
		// implementation-approximated result: must be the very result the function gives for the
		// same Number carried as a float64 (that route is held to the laws by unary/binary)
		t := twin(fn, nums...)
		if !mathspec.Same(t, o.num) {
			fail("d:"+mathspec.Num(t), "same Number carried as float64 gives a different result")
			return
		}
		if len(args) == 1 && args[0].p.name == "go-float64" {
			unaryLaws(&lawCtx{r: r, m: m, key: key, in: in, aux: aux}, fn, nums[0], o.num)
		}
	}

	unaryFns := append(append([]string{}, mathspec.Unary...), "max", "min", "isNaN", "isFinite")
	sq := map[string]bool{}
	for _, s := range kindSquare {
		sq[s] = true
	}
	for _, p := range presentations {
		var held, square []latv
		for _, v := range lat {
			if p.ok(v) {
				held = append(held, v)
				if v.n != nil && sq[v.n.String()] {
					square = append(square, v)
				}
			}
		}
		if r.Expired() {
			r.Cap("time budget")
			return
		}
		for _, v := range held {
			a := kindArg{p, v}
			for _, fn := range unaryFns {
				do(fn, []kindArg{a})
			}
			for _, fn := range []string{"pow", "atan2", "max", "min"} {
				for _, q := range kindPartners {
					do(fn, []kindArg{a, partner(p, q)})
					do(fn, []kindArg{partner(p, q), a}) // the partner is rendered in the same world (script / Go)
				}
			}
		}
		for _, fn := range []string{"pow", "atan2", "max", "min"} {
			for _, x := range square {
				for _, y := range square {
					do(fn, []kindArg{{p, x}, {p, y}})
				}
			}
		}
		// variadic with three arguments of the same representation: extremes and zero
		if len(held) >= 2 {
			ext := []latv{held[0], held[len(held)-1]}
			lo, hi := held[0], held[0]
			for _, v := range held {
				if v.n == nil {
					continue
				}
				if lo.n == nil || v.n.Cmp(lo.n) < 0 {
					lo = v
				}
				if hi.n == nil || v.n.Cmp(hi.n) > 0 {
					hi = v
				}
			}
			if lo.n != nil {
				ext = []latv{lo, hi}
			}
			for _, v := range held {
				if v.n != nil && v.n.Sign() == 0 {
					ext = append(ext, v)
				}
			}
			for _, fn := range []string{"max", "min"} {
				for _, x := range ext {
					for _, y := range ext {
						for _, z := range ext {
							do(fn, []kindArg{{p, x}, {p, y}, {p, z}})
						}
					}
				}
			}
		}
	}
}
