package c13

import (
	"math"
	"strconv"
	"strings"

	"verif/mc/engine"
	"verif/mc/ox"
	"verif/mc/ref/mathspec"
	"verif/mc/ref/uri"
)

// Signature predicates of the known findings of C13. Each one is an
// alternative model of a failure mode: it recomputes what the defective
// algorithm yields for the recorded input and accepts the mismatch only when
// the observed result is exactly that (and the input is in the class).

func init() {
	engine.RegisterSignature("c13-round-fp-add", sigRoundFP)
	engine.RegisterSignature("c13-pow-one-nan", sigPowOneNaN)
	engine.RegisterSignature("c13-tonumber-short-circuit", sigShortCircuit)
	engine.RegisterSignature("c13-atan2-underflow-sign", sigAtan2Underflow)
	engine.RegisterSignature("c13-escape-at", func(m *engine.Mismatch) bool { return sigEscape(m, escAt) })
	engine.RegisterSignature("c13-escape-utf16", func(m *engine.Mismatch) bool { return sigEscape(m, escAstral) || sigEscape(m, escLose) })
	engine.RegisterSignature("c13-unescape-latin1-bytes", func(m *engine.Mismatch) bool { return sigUnescape(m, unLatin1) })
	engine.RegisterSignature("c13-unescape-surrogates", func(m *engine.Mismatch) bool { return sigUnescape(m, unNoPair) || sigUnescape(m, unLose) })
	engine.RegisterSignature("c13-decode-input-surrogate-lost", sigDecodeLost)
	engine.RegisterSignature("c13-literal-surrogate-lost", sigLiteralLost)
	engine.RegisterSignature("c13-route-surrogate-lost", sigRouteLost)
	engine.RegisterSignature("c13-exp-early-overflow", sigExpEarlyOverflow)
	engine.RegisterSignature("c13-log-subnormal", sigLogSubnormal)
	engine.RegisterSignature("c13-tostring-surrogate-lost", sigToStringLost)
}

func argsOf(m *engine.Mismatch) ([]arg, bool) {
	if m.Aux == nil {
		return nil, false
	}
	var out []arg
	if m.Aux["args"] == "" {
		return out, true
	}
	for _, l := range strings.Split(m.Aux["args"], ",") {
		a, ok := argByLabel[l]
		if !ok {
			// rounding family: labels are ox.JSNum renderings of arbitrary doubles
			f, ok2 := parseJSNum(l)
			if !ok2 {
				return nil, false
			}
			a = numArg(f)
		}
		out = append(out, a)
	}
	return out, true
}

func parseJSNum(s string) (float64, bool) {
	switch s {
	case "NaN":
		return math.NaN(), true
	case "Infinity":
		return math.Inf(1), true
	case "-Infinity":
		return math.Inf(-1), true
	}
	var f float64
	var err error
	f, err = parseFloatStrict(s)
	return f, err == nil
}

// F-C13-001: Math.round computed as floor(x + 0.5) with the addition rounded to
// double (plus the sign-of-zero patch): wrong exactly where x + 0.5 is inexact.
func sigRoundFP(m *engine.Mismatch) bool {
	args, ok := argsOf(m)
	if !ok || m.Aux["fn"] != "round" || len(args) != 1 || args[0].throws != "" {
		return false
	}
	x := args[0].num
	if !finite(x) {
		return false
	}
	sum := x + 0.5 // IEEE addition, round-to-nearest-even
	alt := mathspec.Floor(sum)
	if alt == 0 {
		alt = math.Copysign(0, x)
	}
	want := mathspec.Round(x)
	return !mathspec.Same(alt, want) && m.Expected == "d:"+mathspec.Num(want) && m.Observed == "d:"+mathspec.Num(alt)
}

// F-C13-002: Math.pow(1, NaN) is 1 (C pow / Go math.Pow convention) instead of NaN.
func sigPowOneNaN(m *engine.Mismatch) bool {
	args, ok := argsOf(m)
	if !ok || m.Aux["fn"] != "pow" || len(args) != 2 || args[0].throws != "" || args[1].throws != "" {
		return false
	}
	return args[0].num == 1 && math.IsNaN(args[1].num) && m.Expected == "d:NaN" && m.Observed == "d:1"
}

// F-C13-003: max/min/atan2 return NaN as soon as one argument converts to NaN,
// without applying ToNumber to the remaining arguments (whose valueOf throws).
func sigShortCircuit(m *engine.Mismatch) bool {
	if m.Aux != nil && m.Aux["carriers"] != "" {
		return sigShortCircuitCarriers(m)
	}
	args, ok := argsOf(m)
	if !ok {
		return false
	}
	switch m.Aux["fn"] {
	case "max", "min", "atan2":
	default:
		return false
	}
	alt := ""
	for _, a := range args {
		if a.throws != "" {
			alt = "throw:" + a.throws
			break
		}
		if math.IsNaN(a.num) {
			alt = "d:NaN"
			break
		}
	}
	return alt == "d:NaN" && m.Observed == alt && strings.HasPrefix(m.Expected, "throw:")
}

// The same failure mode seen through logging carriers: the conversion log (and the
// result) equals the model that stops converting at the first NaN.
func sigShortCircuitCarriers(m *engine.Mismatch) bool {
	if fn := m.Aux["fn"]; fn != "max" && fn != "min" {
		return false
	}
	byLabel := map[string]*carrier{}
	for i := range loggingCarriers {
		byLabel[loggingCarriers[i].label] = &loggingCarriers[i]
	}
	for i := range builtinCarriers {
		byLabel[builtinCarriers[i].label] = &builtinCarriers[i]
	}
	var log []string
	labels := strings.Split(m.Aux["carriers"], ",")
	for i, l := range labels {
		num := math.NaN()
		switch c := byLabel[l]; {
		case c == nil:
			f, ok := parseJSNum(strings.TrimPrefix(l, "lit:"))
			if !ok {
				return false
			}
			num = f
		case c.logging():
			p, th, lg := c.defaultValue(i, false)
			log = append(log, lg...)
			if th != "" {
				return false // the alternative model throws like the specification: not this failure mode
			}
			num = p.toNumber()
		default:
			num = c.bnum
		}
		if math.IsNaN(num) {
			return i < len(labels)-1 && m.Observed == "d:NaN|log:"+strings.Join(log, ",") && m.Observed != m.Expected
		}
	}
	return false
}

// F-C13-004: atan2(y, x) for y < 0, x < 0 where the quotient y/x underflows to +0:
// Go's math.Atan2 computes atan(y/x) = +0 and adds pi, giving +pi instead of -pi.
func sigAtan2Underflow(m *engine.Mismatch) bool {
	args, ok := argsOf(m)
	if !ok || m.Aux["fn"] != "atan2" || m.Aux["law"] != "sign" || len(args) != 2 || args[0].throws != "" || args[1].throws != "" {
		return false
	}
	y, x := args[0].num, args[1].num
	if !(y < 0 && x < 0 && finite(y) && finite(x)) {
		return false
	}
	return y/x == 0 && m.Observed == mathspec.Num(mathspec.Pi)
}

// ---- escape ---------------------------------------------------------------------

const (
	escAt     = 1 << iota // '@' is percent-escaped (missing from the B.2.1 keep set)
	escAstral             // a surrogate pair yields only the escape of its high unit
	escLose               // unpaired surrogates were replaced by U+FFFD before escaping
)

func hasPair(s []uint16) bool {
	for i := 0; i+1 < len(s); i++ {
		if s[i] >= 0xD800 && s[i] <= 0xDBFF && s[i+1] >= 0xDC00 && s[i+1] <= 0xDFFF {
			return true
		}
	}
	return false
}

func has(s []uint16, c uint16) bool {
	for _, x := range s {
		if x == c {
			return true
		}
	}
	return false
}

// lose is what the input looks like once surrogates are lost: a string built at
// run time loses its unpaired surrogates (UTF-16 payload decoded to UTF-8); in a
// source literal every \uXXXX escape is decoded on its own, so even the two
// halves of a pair written as escapes become U+FFFD each.
func lose(s []uint16, route string) []uint16 {
	if route != "literal" && route != "concat" {
		return uri.LoseSurrogates(s)
	}
	out := make([]uint16, len(s))
	for i, c := range s {
		if c >= 0xD800 && c <= 0xDFFF {
			c = 0xFFFD
		}
		out[i] = c
	}
	return out
}

func loses(s []uint16, route string) bool {
	if route != "literal" && route != "concat" {
		return !uri.WellFormed(s)
	}
	for _, c := range s {
		if c >= 0xD800 && c <= 0xDFFF {
			return true
		}
	}
	return false
}

func altEscape(s []uint16, flags int, route string) []uint16 {
	if flags&escLose != 0 {
		s = lose(s, route)
	}
	var out []uint16
	for i := 0; i < len(s); i++ {
		c := s[i]
		if flags&escAstral != 0 && c >= 0xD800 && c <= 0xDBFF && i+1 < len(s) && s[i+1] >= 0xDC00 && s[i+1] <= 0xDFFF {
			out = append(out, uri.Escape([]uint16{c})...)
			i++
			continue
		}
		if flags&escAt != 0 && c == '@' {
			out = append(out, '%', '4', '0')
			continue
		}
		out = append(out, uri.Escape([]uint16{c})...)
	}
	return out
}

// sigEscape accepts when the observed string equals B.2.1 run with a set F of the
// known deviations such that `mine` is in F and is necessary (without it the
// alternative model gives something else).
func sigEscape(m *engine.Mismatch, mine int) bool {
	if m.Aux == nil || m.Aux["fn"] != "escape" || !strings.HasPrefix(m.Observed, "s:") {
		return false
	}
	route := m.Aux["route"]
	if mine == escLose && upstreamLoss(route) {
		return false // surrogate loss upstream of escape (parser, String object, concatenation, join) has its own findings
	}
	s := parseHexKey(m.Aux["units"])
	for f := 1; f < 8; f++ {
		if f&mine == 0 {
			continue
		}
		if ox.Str16(altEscape(s, f, route)) == m.Observed && ox.Str16(altEscape(s, f&^mine, route)) != m.Observed {
			return true
		}
	}
	return false
}

// ---- unescape -------------------------------------------------------------------

const (
	unLatin1 = 1 << iota // literal non-ASCII characters are copied as their UTF-8 bytes, one char per byte
	unNoPair             // surrogate code units produced by %uXXXX become U+FFFD each
	unLose               // unpaired surrogates in the input were replaced by U+FFFD before unescaping
)

func altUnescape(s []uint16, flags int, route string) []uint16 {
	if flags&unLose != 0 {
		s = lose(s, route)
	}
	type tok struct {
		c   uint16
		esc bool
	}
	var toks []tok
	n := len(s)
	for k := 0; k < n; k++ {
		c := s[k]
		if c == '%' {
			// B.2.2 via the model on the shortest prefixes
			if k <= n-6 && s[k+1] == 'u' {
				if out := uri.Unescape(s[k : k+6]); len(out) == 1 {
					toks = append(toks, tok{out[0], true})
					k += 5
					continue
				}
			}
			if k <= n-3 {
				if out := uri.Unescape(s[k : k+3]); len(out) == 1 {
					toks = append(toks, tok{out[0], true})
					k += 2
					continue
				}
			}
		}
		toks = append(toks, tok{c, false})
	}
	var out []uint16
	for i := 0; i < len(toks); i++ {
		t := toks[i]
		switch {
		case t.esc:
			if flags&unNoPair != 0 && t.c >= 0xD800 && t.c <= 0xDFFF {
				out = append(out, 0xFFFD)
			} else {
				out = append(out, t.c)
			}
		case flags&unLatin1 != 0 && t.c >= 0x80:
			cp := uint32(t.c)
			if t.c >= 0xD800 && t.c <= 0xDBFF && i+1 < len(toks) && !toks[i+1].esc && toks[i+1].c >= 0xDC00 && toks[i+1].c <= 0xDFFF {
				cp = (uint32(t.c)-0xD800)*0x400 + (uint32(toks[i+1].c) - 0xDC00) + 0x10000
				i++
			}
			for _, b := range []byte(string(rune(cp))) { // UTF-8 bytes, each copied as one Latin-1 character
				out = append(out, uint16(b))
			}
		default:
			out = append(out, t.c)
		}
	}
	return out
}

func sigUnescape(m *engine.Mismatch, mine int) bool {
	if m.Aux == nil || m.Aux["fn"] != "unescape" || !strings.HasPrefix(m.Observed, "s:") {
		return false
	}
	route := m.Aux["route"]
	if mine == unLose && upstreamLoss(route) {
		return false
	}
	s := parseHexKey(m.Aux["units"])
	for f := 1; f < 8; f++ {
		if f&mine == 0 {
			continue
		}
		if ox.Str16(altUnescape(s, f, route)) == m.Observed && ox.Str16(altUnescape(s, f&^mine, route)) != m.Observed {
			return true
		}
	}
	return false
}

// ---- surrogate loss before the URI coder runs ------------------------------------

// lostModel: the function's own 15.1.3 / B.2 algorithm on the input with the
// surrogates lost (see lose).
func lostModel(m *engine.Mismatch) (string, bool) {
	if m.Aux == nil {
		return "", false
	}
	f, ok := uriFns[m.Aux["fn"]]
	if !ok {
		return "", false
	}
	s := parseHexKey(m.Aux["units"])
	if !loses(s, m.Aux["route"]) {
		return "", false
	}
	return canonModel(f.model(lose(s, m.Aux["route"]))), true
}

// F: decodeURI / decodeURIComponent convert their argument to a UTF-8 Go string
// first; a lone surrogate in the input (which Decode must copy through) arrives
// as U+FFFD.
func sigDecodeLost(m *engine.Mismatch) bool {
	fn := m.Aux["fn"]
	if (fn != "decodeURI" && fn != "decodeURIComponent") || (m.Aux["route"] != "u16" && m.Aux["route"] != "tostring") {
		return false
	}
	alt, ok := lostModel(m)
	return ok && alt == m.Observed
}

// upstreamLoss: routes on which the string has lost its surrogates before the
// built-in is even called.
func upstreamLoss(route string) bool {
	switch route {
	case "literal", "strobj", "array", "concat":
		return true
	}
	return false
}

// F-C13-011: String wrapper objects, Array join and string concatenation store /
// build their text as UTF-8: unpaired surrogates (concatenation: every surrogate
// operand) are U+FFFD before the URI function runs.
func sigRouteLost(m *engine.Mismatch) bool {
	switch m.Aux["route"] {
	case "strobj", "array", "concat":
	default:
		return false
	}
	alt, ok := lostModel(m)
	return ok && alt == m.Observed
}

// F-C13-012: encodeURI / encodeURIComponent convert an object argument with
// Value.string(): the UTF-16 payload returned by its toString is decoded to UTF-8
// and a lone surrogate is encoded as U+FFFD instead of raising URIError.
func sigToStringLost(m *engine.Mismatch) bool {
	fn := m.Aux["fn"]
	if m.Aux["route"] != "tostring" || (fn != "encodeURI" && fn != "encodeURIComponent") {
		return false
	}
	alt, ok := lostModel(m)
	return ok && alt == m.Observed
}

// F (#28): a string literal "\uD800" loses the lone surrogate when the parser
// stores it as UTF-8; every function then sees U+FFFD.
func sigLiteralLost(m *engine.Mismatch) bool {
	if m.Aux["route"] != "literal" {
		return false
	}
	alt, ok := lostModel(m)
	return ok && alt == m.Observed
}

func parseFloatStrict(s string) (float64, error) { return strconv.ParseFloat(s, 64) }

func auxFloat(m *engine.Mismatch, name string) (float64, bool) {
	if m.Aux == nil || m.Aux[name] == "" {
		return 0, false
	}
	b, err := strconv.ParseUint(m.Aux[name], 16, 64)
	return math.Float64frombits(b), err == nil
}

// F-C13-013: the amd64 assembly math.Exp rounds x*log2(e) to the nearest integer n
// and overflows when n = 1024, although e^x is finite up to x = 709.7827...
func sigExpEarlyOverflow(m *engine.Mismatch) bool {
	x, ok := auxFloat(m, "x0")
	if !ok || m.Aux["fn"] != "exp" || m.Aux["family"] != "edges" || m.Observed != "d:Infinity" {
		return false
	}
	return finite(mathspec.RefExp(x)) && math.Floor(x*1.4426950408889634+0.5) >= 1024
}

// F-C13-014: the amd64 assembly math.Log reads a subnormal m * 2^-1074 as the
// normal number (1 + m/2^52) * 2^-1023 (exponent field 0 taken literally, implicit
// bit added); Math.pow(subnormal, fractional y) = Exp(y * that logarithm).
func sigLogSubnormal(m *engine.Mismatch) bool {
	x, ok := auxFloat(m, "x0")
	if !ok || m.Aux["family"] != "edges" || !(x > 0 && x < minNrm) || !strings.HasPrefix(m.Observed, "d:") {
		return false
	}
	mant := math.Float64bits(x)                                                                   // exponent field is 0: the bits are the mantissa
	altLog := mathspec.RefLog(math.Float64frombits(0x0010000000000000|mant)) - 0.6931471805599453 // (1+m/2^52)*2^-1022, then one more halving
	obs, err := strconv.ParseFloat(strings.TrimPrefix(m.Observed, "d:"), 64)
	if err != nil {
		return false
	}
	// Math.log itself was repaired in otto (b1ed913: subnormal arguments are scaled into the normal
	// range before math.Log); the signature no longer accepts fn = "log", so a regression of that
	// guard is a VIOLATION. Only the Math.pow form, which calls math.Pow directly, stays open.
	if m.Aux["fn"] != "pow" {
		return false
	}
	// math.Pow computes x^y for a fractional 0 < y <= 0.5 as Exp(y * Log(x)): the same logarithm
	y, ok := auxFloat(m, "x1")
	return ok && y > 0 && y <= 0.5 && mathspec.UlpDiff(mathspec.RefExp(y*altLog), obs) <= 8+uint64(math.Abs(y*altLog))
}
