package c07

import (
	"fmt"
	"strings"

	om "verif/mc/ref/objmodel"
)

// dspec is one descriptor of the 3^6 alphabet: fields value, writable,
// enumerable, configurable, get, set; 0 = absent.
//
//	value: 1,2 = the numbers 1,2        writable/enumerable/configurable: 1 = true, 2 = false
//	get:   1 = undefined, 2 = g1        set: 1 = undefined, 2 = s1
type dspec [6]uint8

var fieldNames = [6]string{"value", "writable", "enumerable", "configurable", "get", "set"}

func allDescs() []dspec {
	var out []dspec
	for i := 0; i < 729; i++ {
		var d dspec
		n := i
		for f := 0; f < 6; f++ {
			d[f] = uint8(n % 3)
			n /= 3
		}
		out = append(out, d)
	}
	return out
}

func (d dspec) id() string {
	b := []byte("D000000")
	for i, x := range d {
		b[1+i] = '0' + x
	}
	return string(b)
}

func parseDspec(s string) (dspec, bool) {
	var d dspec
	if len(s) != 7 || s[0] != 'D' {
		return d, false
	}
	for i := 0; i < 6; i++ {
		if s[1+i] < '0' || s[1+i] > '2' {
			return d, false
		}
		d[i] = s[1+i] - '0'
	}
	return d, true
}

func (d dspec) js() string {
	var parts []string
	for f, x := range d {
		if x == 0 {
			continue
		}
		var v string
		switch f {
		case 0:
			v = fmt.Sprint(x)
		case 1, 2, 3:
			v = map[uint8]string{1: "true", 2: "false"}[x]
		case 4:
			v = map[uint8]string{1: "undefined", 2: "g1"}[x]
		case 5:
			v = map[uint8]string{1: "undefined", 2: "s1"}[x]
		}
		parts = append(parts, fieldNames[f]+":"+v)
	}
	return "{" + strings.Join(parts, ",") + "}"
}

// contradictory: accessor field together with value/writable (8.10.5 step 9).
func (d dspec) contradictory() bool { return (d[4] != 0 || d[5] != 0) && (d[0] != 0 || d[1] != 0) }

// object builds the descriptor as a model object (the argument of Object.defineProperty).
func (d dspec) object(w *world) om.Value {
	o := w.r.NewObject()
	all := func(v om.Value) om.Desc { return om.DataDesc(v, true, true, true) }
	for f, x := range d {
		if x == 0 {
			continue
		}
		var v om.Value
		switch f {
		case 0:
			v = om.Num(float64(x))
		case 1, 2, 3:
			v = om.Boolean(x == 1)
		case 4:
			if x == 2 {
				v = om.ObjV(w.g1)
			}
		case 5:
			if x == 2 {
				v = om.ObjV(w.s1)
			}
		}
		o.Set(fieldNames[f], all(v))
	}
	return om.ObjV(o)
}

// op is one operation of a history.
type op struct {
	kind string // def put del pe seal freeze defs create
	obj  string // variable holding the receiver
	name string
	d    dspec
	v    int
	// second (name, descriptor) pair of defs/create
	name2 string
	d2    dspec
}

func (o op) id() string {
	switch o.kind {
	case "def":
		return fmt.Sprintf("%s.%s:%s", o.obj, o.name, o.d.id())
	case "put":
		return fmt.Sprintf("%s.%s=%d", o.obj, o.name, o.v)
	case "del":
		return fmt.Sprintf("%s.%s-", o.obj, o.name)
	case "pe", "seal", "freeze":
		return o.obj + "!" + o.kind
	case "defs", "create":
		return fmt.Sprintf("%s!%s(%s:%s,%s:%s)", o.obj, o.kind, o.name, o.d.id(), o.name2, o.d2.id())
	case "create0":
		return o.obj + "!create0"
	}
	panic("op kind " + o.kind)
}

func q(s string) string { return `"` + s + `"` }

// js renders the operation as an expression whose value is canonicalised by __c.
func (o op) js() string {
	switch o.kind {
	case "def":
		return fmt.Sprintf("Object.defineProperty(%s,%s,%s) === %s", o.obj, q(o.name), o.d.js(), o.obj)
	case "put":
		return fmt.Sprintf("(%s[%s] = %d)", o.obj, q(o.name), o.v)
	case "del":
		return fmt.Sprintf("delete %s[%s]", o.obj, q(o.name))
	case "pe":
		return fmt.Sprintf("Object.preventExtensions(%s) === %s", o.obj, o.obj)
	case "seal":
		return fmt.Sprintf("Object.seal(%s) === %s", o.obj, o.obj)
	case "freeze":
		return fmt.Sprintf("Object.freeze(%s) === %s", o.obj, o.obj)
	case "defs":
		return fmt.Sprintf("Object.defineProperties(%s,{%s:%s,%s:%s}) === %s", o.obj, q(o.name), o.d.js(), q(o.name2), o.d2.js(), o.obj)
	case "create":
		// the new object replaces o only when Object.create returns normally
		return fmt.Sprintf("(%s = Object.create(p,{%s:%s,%s:%s}), true)", o.obj, q(o.name), o.d.js(), q(o.name2), o.d2.js())
	case "create0":
		return fmt.Sprintf("(%s = Object.create(p), true)", o.obj)
	}
	panic("op kind " + o.kind)
}

// world is the model side of a history: a realm, the named objects, g1/s1.
type world struct {
	r      *om.Realm
	objs   map[string]*om.Obj
	g1, s1 *om.Obj
	global *om.Obj
	// formal parameter binding aliased by an arguments object (exotic family)
	formal *om.Value
}

var baseRealm = om.NewRealm()

func newWorld() *world {
	w := &world{r: baseRealm.Fork(), objs: map[string]*om.Obj{}}
	w.r.Quirk = quirks
	w.global = w.r.NewObject()
	w.global.Label = "global"
	thisOf := func(this om.Value) om.Value {
		// 10.4.3: undefined/null this -> global object; primitives -> ToObject
		if this.K == om.Undefined || this.K == om.Null {
			return om.ObjV(w.global)
		}
		return this
	}
	w.g1 = w.r.NewScriptFunction("g1", 0, func(r *om.Realm, this om.Value, _ []om.Value) om.Value {
		r.Log = append(r.Log, "g1:"+r.Render(thisOf(this)))
		return om.Str("G")
	})
	w.s1 = w.r.NewScriptFunction("s1", 1, func(r *om.Realm, this om.Value, args []om.Value) om.Value {
		v := om.Undef
		if len(args) > 0 {
			v = args[0]
		}
		r.Log = append(r.Log, "s1:"+r.Render(thisOf(this))+":"+r.Render(v))
		return om.Undef
	})
	return w
}

func (w *world) set(name string, o *om.Obj) *om.Obj {
	o.Label = name
	w.objs[name] = o
	return o
}

// exec performs the operation on the model and returns the value of the JS expression.
func (w *world) exec(o op) om.Value {
	r := w.r
	recv := om.ObjV(w.objs[o.obj])
	switch o.kind {
	case "def":
		return om.Boolean(om.SameValue(r.ObjectDefineProperty(recv, om.Str(o.name), o.d.object(w)), recv))
	case "put":
		// 11.13.1 + 8.7.2 PutValue on a property reference in non-strict code: [[Put]](P, V, false)
		v := om.Num(float64(o.v))
		r.Put(recv.O, o.name, v, false)
		return v
	case "del":
		// 11.4.1 step 4 in non-strict code: [[Delete]](P, false)
		return om.Boolean(r.Delete(recv.O, o.name, false))
	case "pe":
		return om.Boolean(om.SameValue(r.ObjectPreventExtensions(recv), recv))
	case "seal":
		return om.Boolean(om.SameValue(r.ObjectSeal(recv), recv))
	case "freeze":
		return om.Boolean(om.SameValue(r.ObjectFreeze(recv), recv))
	case "defs", "create":
		props := r.NewObject()
		props.Set(o.name, om.DataDesc(o.d.object(w), true, true, true))
		props.Set(o.name2, om.DataDesc(o.d2.object(w), true, true, true))
		if o.kind == "defs" {
			return om.Boolean(om.SameValue(r.ObjectDefineProperties(recv, om.ObjV(props)), recv))
		}
		n := r.ObjectCreate(om.ObjV(w.objs["p"]), om.ObjV(props))
		w.set(o.obj, n.O)
		return om.TrueV
	case "create0":
		n := r.ObjectCreate(om.ObjV(w.objs["p"]), om.Undef)
		w.set(o.obj, n.O)
		return om.TrueV
	}
	panic("op kind " + o.kind)
}

// apply runs the operation and renders its outcome: "ok:<value>" or the error class.
func (w *world) apply(o op) string {
	var ret om.Value
	if t := om.Try(func() { ret = w.exec(o) }); t != nil {
		return t.Class
	}
	return "ok:" + w.r.Render(ret)
}

// key is the canonical model state: ordered dump of every named object.
func (w *world) key(objs []string) string {
	var sb strings.Builder
	for _, n := range objs {
		sb.WriteString(n + "{" + w.r.DumpOrdered(w.objs[n]) + "}")
	}
	if w.formal != nil {
		sb.WriteString("formal=" + w.r.Render(*w.formal))
	}
	return sb.String()
}
