package c07

import (
	"fmt"
	"strings"

	"verif/mc/checks/c07/objdrv"
	"verif/mc/engine"
	om "verif/mc/ref/objmodel"
)

func ds(s string) dspec {
	d, ok := parseDspec("D" + s)
	if !ok {
		panic("bad dspec " + s)
	}
	return d
}

// field order: value writable enumerable configurable get set
var (
	dValue1   = ds("100000")                                           // {value:1}  (all attributes default false)
	dDataAll  = ds("111100")                                           // {value:1,writable:true,enumerable:true,configurable:true}
	dDataRO   = ds("221100")                                           // {value:2,writable:false,enumerable:true,configurable:true}
	dAccAll   = ds("001122")                                           // {enumerable:true,configurable:true,get:g1,set:s1}
	dGetOnly  = ds("001120")                                           // {enumerable:true,configurable:true,get:g1}
	dGetDflt  = ds("000020")                                           // {get:g1}
	dContra   = ds("100020")                                           // {value:1,get:g1}  contradictory
	dEnumOff  = ds("002000")                                           // {enumerable:false}
	dWriteOff = ds("020000")                                           // {writable:false}
	dConfOff  = ds("000200")                                           // {configurable:false}
	_         = []dspec{dValue1, dDataAll, dDataRO, dAccAll, dGetOnly} // keep
)

// chainDescs is the descriptor alphabet applied to name x on o and p: every
// descriptor with at most one field, the eight fully specified data descriptors
// (value 1), the fully specified accessors, a setter-less accessor and one
// contradictory descriptor.
func chainDescs() []dspec {
	var out []dspec
	seen := map[dspec]bool{}
	add := func(d dspec) {
		if !seen[d] {
			seen[d] = true
			out = append(out, d)
		}
	}
	add(dspec{})
	for f := 0; f < 6; f++ {
		for v := uint8(1); v <= 2; v++ {
			var d dspec
			d[f] = v
			add(d)
		}
	}
	for w := uint8(1); w <= 2; w++ {
		for e := uint8(1); e <= 2; e++ {
			for c := uint8(1); c <= 2; c++ {
				add(dspec{1, w, e, c, 0, 0})
			}
		}
	}
	for e := uint8(1); e <= 2; e++ {
		for c := uint8(1); c <= 2; c++ {
			add(dspec{0, 0, e, c, 2, 2})
		}
	}
	add(dGetOnly)
	add(dContra)
	return out
}

// exoticDescs: quick = every descriptor with at most two fields, the fully
// specified data (value 1) and accessor (g1, s1) descriptors and one
// contradictory one; thorough = all 729.
func exoticDescs(thorough bool) []dspec {
	if thorough {
		return allDescs()
	}
	var out []dspec
	seen := map[dspec]bool{}
	contra := false
	for _, d := range allDescs() {
		n := 0
		for _, x := range d {
			if x != 0 {
				n++
			}
		}
		if n > 2 {
			continue
		}
		if d.contradictory() {
			if contra {
				continue
			}
			contra = true
		}
		seen[d] = true
		out = append(out, d)
	}
	for _, d := range chainDescs() {
		if !seen[d] && !d.contradictory() {
			seen[d] = true
			out = append(out, d)
		}
	}
	return out
}

// ---- family 2: chains o -> p -> Object.prototype, names x, y, "0" ----

func chainWorld() *world {
	w := newWorld()
	p := w.set("p", w.r.NewObject())
	o := w.r.NewObject()
	o.Proto = p
	w.set("o", o)
	return w
}

func chainOps() []op {
	var ops []op
	small := []dspec{dValue1, dDataAll, dGetDflt, dAccAll}
	for _, obj := range []string{"o", "p"} {
		for _, d := range chainDescs() {
			ops = append(ops, op{kind: "def", obj: obj, name: "x", d: d})
		}
		for _, name := range []string{"y", "0"} {
			for _, d := range small {
				ops = append(ops, op{kind: "def", obj: obj, name: name, d: d})
			}
		}
		ops = append(ops, op{kind: "put", obj: obj, name: "x", v: 1}, op{kind: "put", obj: obj, name: "x", v: 2},
			op{kind: "put", obj: obj, name: "y", v: 1}, op{kind: "put", obj: obj, name: "0", v: 1})
		for _, name := range []string{"x", "y", "0"} {
			ops = append(ops, op{kind: "del", obj: obj, name: name})
		}
		ops = append(ops, op{kind: "pe", obj: obj}, op{kind: "seal", obj: obj}, op{kind: "freeze", obj: obj})
		// defineProperties with two names: both fine / second contradictory (nothing may be defined) / second rejected by state
		ops = append(ops,
			op{kind: "defs", obj: obj, name: "x", d: dDataAll, name2: "y", d2: dAccAll},
			op{kind: "defs", obj: obj, name: "y", d: dValue1, name2: "x", d2: dContra},
			op{kind: "defs", obj: obj, name: "0", d: dDataAll, name2: "x", d2: dDataRO})
	}
	ops = append(ops,
		op{kind: "create0", obj: "o"},
		op{kind: "create", obj: "o", name: "x", d: dDataAll, name2: "y", d2: dGetDflt},
		op{kind: "create", obj: "o", name: "0", d: dValue1, name2: "x", d2: dContra})
	return ops
}

// chainOps4 is the reduced alphabet of the depth-4 search of the thorough tier.
func chainOps4() []op {
	var ops []op
	for _, obj := range []string{"o", "p"} {
		for _, d := range []dspec{dValue1, dDataAll, dDataRO, dAccAll, dGetOnly, dEnumOff, dConfOff, dWriteOff} {
			ops = append(ops, op{kind: "def", obj: obj, name: "x", d: d})
		}
		ops = append(ops, op{kind: "def", obj: obj, name: "y", d: dDataAll}, op{kind: "def", obj: obj, name: "y", d: dAccAll},
			op{kind: "def", obj: obj, name: "0", d: dDataAll})
		ops = append(ops, op{kind: "put", obj: obj, name: "x", v: 1}, op{kind: "put", obj: obj, name: "x", v: 2},
			op{kind: "put", obj: obj, name: "y", v: 1}, op{kind: "put", obj: obj, name: "0", v: 1})
		for _, name := range []string{"x", "y", "0"} {
			ops = append(ops, op{kind: "del", obj: obj, name: name})
		}
		ops = append(ops, op{kind: "pe", obj: obj}, op{kind: "seal", obj: obj}, op{kind: "freeze", obj: obj})
		ops = append(ops,
			op{kind: "defs", obj: obj, name: "x", d: dDataAll, name2: "y", d2: dAccAll},
			op{kind: "defs", obj: obj, name: "y", d: dValue1, name2: "x", d2: dContra})
	}
	return append(ops, op{kind: "create0", obj: "o"}, op{kind: "create", obj: "o", name: "x", d: dDataAll, name2: "y", d2: dGetDflt})
}

func runChains(r *engine.Run) {
	const setup = `p = {}; o = Object.create(p); __extra = null; __log = []; 0`
	if r.ReplayKey == "" || strings.HasPrefix(r.ReplayKey, "chains/") {
		m := &machine{r: r, tag: "chains", setup: setup, model: chainWorld, objs: []string{"o", "p"}, names: []string{"x", "y", "0"}, ops: chainOps(), maxDepth: 3}
		m.run()
	}
	if r.Thorough() && (r.ReplayKey == "" || strings.HasPrefix(r.ReplayKey, "chains4/")) {
		m := &machine{r: r, tag: "chains4", setup: setup, model: chainWorld, objs: []string{"o", "p"}, names: []string{"x", "y", "0"}, ops: chainOps4(), maxDepth: 4}
		m.run()
	}
}

// ---- insertion order: one object, three names, only put / delete / one non-enumerable definition, deeper histories ----

func runOrder(r *engine.Run) {
	depth := 5
	if r.Thorough() {
		depth = 6
	}
	var ops []op
	for _, n := range []string{"x", "y", "0"} {
		ops = append(ops, op{kind: "put", obj: "o", name: n, v: 1}, op{kind: "del", obj: "o", name: n})
	}
	ops = append(ops, op{kind: "def", obj: "o", name: "x", d: dValue1})
	m := &machine{r: r, tag: "order", setup: `o = {}; __extra = null; __log = []; 0`, model: plainWorld,
		objs: []string{"o"}, names: []string{"x", "y", "0"}, ops: ops, maxDepth: depth,
		// states are also split by the implementation's raw table and order list, so that a
		// state reached through a deletion is explored separately from the same table built directly
		hidden: true, known: knownPointers}
	m.run()
}

// ---- family 3: the slot machine on receivers with other object classes ----

type receiver struct {
	id       string
	setup    string
	model    func() *world
	names    []string // first name is the one operated on
	skip     map[string]bool
	freshVM  bool
	noHidden bool // state lives outside the property table (parameter map): dedup on the model state only
}

var skipFS = map[string]bool{"frozen": true, "sealed": true}

func receivers() []receiver {
	arr := func() *world {
		w := newWorld()
		w.set("o", w.r.NewArrayFrom([]om.Value{om.Num(5), om.Num(6)}))
		return w
	}
	str := func() *world {
		w := newWorld()
		w.set("o", w.r.NewStringObject("ab"))
		return w
	}
	args := func() *world {
		w := newWorld()
		a, b := om.Num(5), om.Num(6)
		callee := w.r.NewScriptFunction("callee", 2, nil)
		o := w.r.NewArguments([]om.Value{a, b}, []*om.Value{&a, &b}, callee)
		w.set("o", o)
		w.formal = &a
		return w
	}
	fn := func() *world {
		w := newWorld()
		f := w.r.NewScriptFunction("o", 2, func(*om.Realm, om.Value, []om.Value) om.Value { return om.Undef })
		w.set("o", f)
		return w
	}
	glob := func() *world {
		w := newWorld()
		g := w.global
		g.Set("v", om.DataDesc(om.Undef, true, true, false)) // 10.5 step 8: var in global code, configurableBindings false
		g.Set("g", om.DataDesc(om.Num(7), true, true, true)) // created by assignment: [[Put]] 8.12.5 step 6
		w.set("o", g)
		return w
	}
	const argsSetup = `o = (function (a, b) { __extra = function () { return a; }; return arguments; })(5, 6); __log = []; 0`
	const fnSetup = `o = function (a, b) {}; __extra = null; __log = []; 0`
	const globSetup = `o = __global; g = 7; __extra = null; __log = []; 0`
	return []receiver{
		{id: "array-index", setup: `o = [5, 6]; __extra = null; __log = []; 0`, model: arr, names: []string{"1", "length"}},
		{id: "array-length", setup: `o = [5, 6]; __extra = null; __log = []; 0`, model: arr, names: []string{"length", "1"}},
		{id: "string-index", setup: `o = new String("ab"); __extra = null; __log = []; 0`, model: str, names: []string{"0", "length"}},
		{id: "string-length", setup: `o = new String("ab"); __extra = null; __log = []; 0`, model: str, names: []string{"length", "0"}},
		{id: "arguments-index", setup: argsSetup, model: args, names: []string{"0", "length"}, noHidden: true},
		{id: "function-length", setup: fnSetup, model: fn, names: []string{"length", "prototype"}, skip: skipFS},
		{id: "function-prototype", setup: fnSetup, model: fn, names: []string{"prototype", "length"}, skip: skipFS},
		{id: "global-var", setup: globSetup, model: glob, names: []string{"v", "g"}, skip: skipFS, freshVM: true},
		{id: "global-assigned", setup: globSetup, model: glob, names: []string{"g", "v"}, skip: skipFS, freshVM: true},
	}
}

const prelude7global = prelude7 + "\nvar v;\n"

func runExotic(r *engine.Run) {
	for _, rc := range receivers() {
		if r.ReplayKey != "" && !strings.HasPrefix(r.ReplayKey, rc.id+"/") {
			continue
		}
		descs := exoticDescs(r.Thorough())
		if rc.freshVM && !r.Thorough() {
			descs = chainDescs()
		}
		m := &machine{r: r, tag: rc.id, setup: rc.setup, model: rc.model, objs: []string{"o"}, names: rc.names,
			ops: slotOps("o", rc.names[0], descs), exotic: true, skip: rc.skip, freshVM: rc.freshVM, hidden: r.Thorough() && !rc.freshVM && !rc.noHidden, known: knownPointers}
		if rc.freshVM {
			m.im = objdrv.New(prelude7global)
			m.maxDepth = 3
			if r.Thorough() {
				m.maxDepth = 4
			}
		}
		m.run()
	}
	r.Bound("receivers", fmt.Sprint(len(receivers())))
}
