package c07

import (
	"fmt"
	"os"
	"sort"
	"strings"

	"verif/mc/checks/c07/objdrv"
	"verif/mc/engine"
)

// machine is one explicit-state search (E2): breadth-first over model states,
// every transition replayed on fresh real objects (path + 1 operation) and the
// full observation compared part by part.
type machine struct {
	r        *engine.Run
	tag      string          // key prefix
	setup    string          // JS program that builds fresh objects in globals
	model    func() *world   // the same on the model
	objs     []string        // observed objects
	names    []string        // observed property names
	ops      []op            // operation alphabet
	maxDepth int             // 0 = run to fixpoint
	freshVM  bool            // new runtime for every path (global object as receiver)
	hidden   bool            // split model states by the implementation's raw property table and explore the splits
	exotic   bool            // keys/names/forin compared as sets restricted to names
	skip     map[string]bool // part kinds not compared (e.g. frozen/sealed on receivers with extension properties)
	known    func(im *objdrv.Impl) map[uintptr]string

	im     *objdrv.Impl
	labels []string
	opByID map[string]op

	nStates, nUnreached int
}

type mstate struct {
	path []op
	ikey string
	mkey string
}

func pathID(path []op) string {
	ids := make([]string, len(path))
	for i, o := range path {
		ids[i] = o.id()
	}
	return strings.Join(ids, ";")
}

func (m *machine) source(path []op, last *op) string {
	var sb strings.Builder
	sb.WriteString(m.setup + "\n")
	for _, o := range path {
		sb.WriteString(o.js() + ";\n")
	}
	if last != nil {
		sb.WriteString(last.js() + ";   // <- operation under test\n")
	}
	return sb.String()
}

func (m *machine) replayModel(path []op) *world {
	w := m.model()
	for _, o := range path {
		w.apply(o)
	}
	w.r.Log = nil
	return w
}

func (m *machine) rebuild(path []op) bool {
	if _, oc := m.im.Run(m.setup); oc != "ok" {
		return false
	}
	for _, o := range path {
		if _, oc := m.im.Run("__c(" + o.js() + ")"); strings.HasPrefix(oc, "GO-PANIC") {
			return false
		}
	}
	m.im.Run("__log = []; 0")
	return true
}

// normalise applies the exotic-receiver list policy to an observation.
func (m *machine) normalise(parts []string) []string {
	if !m.exotic {
		return parts
	}
	want := map[string]bool{}
	for _, n := range m.names {
		want[n] = true
	}
	out := append([]string(nil), parts...)
	for i, l := range m.labels {
		if i >= len(out) {
			break
		}
		k := l[strings.IndexByte(l, '.')+1:]
		if k == "keys" || k == "names" || k == "forin" {
			if strings.HasPrefix(out[i], "GO-PANIC") || strings.HasPrefix(out[i], "ERR:") {
				continue
			}
			var keep []string
			for _, n := range strings.Split(out[i], ",") {
				if want[n] {
					keep = append(keep, n)
				}
			}
			sort.Strings(keep)
			out[i] = strings.Join(keep, ",")
		}
	}
	return out
}

// runImpl replays path + op on the implementation.
func (m *machine) runImpl(path []op, o op) (outcome string, parts []string, ikey string) {
	im := m.im
	im.Ensure()
	if m.freshVM {
		im.Fresh()
	}
	if !m.rebuild(path) {
		im.Fresh()
		if !m.rebuild(path) {
			return "REBUILD-FAILED", nil, ""
		}
	}
	val, oc := im.Run("__c(" + o.js() + ")")
	if oc == "ok" {
		outcome = "ok:" + val
	} else {
		outcome = oc
	}
	if strings.HasPrefix(oc, "GO-PANIC") {
		parts = make([]string, len(m.labels))
		for i := range parts {
			parts[i] = "n/a"
		}
		return outcome, parts, "PANIC"
	}
	if m.hidden {
		ikey = im.InternalKey(m.objs[0], m.known(im))
	}
	full := append(append([]op(nil), path...), o)
	parts = m.normalise(observeImpl(im, func() bool { return m.rebuild(full) }, m.objs, m.names))
	return outcome, parts, ikey
}

func partKind(label string) string {
	k := label[strings.IndexByte(label, '.')+1:]
	if i := strings.IndexByte(k, ':'); i >= 0 {
		k = k[:i]
	}
	return k
}

var nonCore = map[string]bool{"forin": true, "frozen": true, "sealed": true, "log": true}

// transition evaluates one (state, operation) pair on the implementation against the model.
// It returns the successor's model key, whether the implementation agreed on the
// core parts, and the implementation's internal key.
func (m *machine) transition(path []op, o op, compare bool, prevImpl []string) (mkey string, agree bool, ikey string) {
	r := m.r
	w := m.replayModel(path)
	prevKey := ""
	if compare {
		prevKey = w.key(m.objs)
	}
	expOutcome := w.apply(o)
	expParts := m.normalise(w.observe(m.objs, m.names))
	mkey = w.key(m.objs)

	key := m.tag + "/" + pathID(path) + "/" + o.id()
	objdrv.Begin(r, key)
	obsOutcome, obsParts, ikey := m.runImpl(path, o)
	objdrv.End()

	agree = expOutcome == obsOutcome
	type diff struct{ label, exp, obs string }
	var diffs []diff
	if !agree {
		diffs = append(diffs, diff{"op", expOutcome, obsOutcome})
	}
	for i, l := range m.labels {
		if i >= len(obsParts) || i >= len(expParts) {
			break
		}
		k := partKind(l)
		if m.skip[k] || obsParts[i] == "n/a" {
			continue
		}
		if expParts[i] != obsParts[i] {
			diffs = append(diffs, diff{l, expParts[i], obsParts[i]})
			if !nonCore[k] {
				agree = false
			}
		}
	}
	if !compare {
		return mkey, agree, ikey
	}
	r.Eval(!(o.kind == "def" && o.d.contradictory()))
	r.Tree(0, 1)
	r.Outcome(obsOutcome + "|" + strings.Join(obsParts, "|"))
	if r.WantSample() && len(path) >= 2 {
		r.Sample(fmt.Sprintf("%s => %s ; %s", strings.ReplaceAll(m.source(path, &o), "\n", " "), obsOutcome, strings.Join(obsParts, " | ")))
	}
	src := ""
	if len(diffs) > 0 {
		src = m.source(path, &o)
	}
	for _, d := range diffs {
		aux := map[string]string{"part": partKind(d.label), "label": d.label, "op": o.id(), "opkind": o.kind,
			"prev": prevKey, "next": mkey, "tag": m.tag, "expOutcome": expOutcome, "obsOutcome": obsOutcome}
		m.altModels(aux, w, path, o, d.label)
		debugDump(key+"#"+d.label, aux["part"], d.exp, d.obs)
		r.Mismatch(engine.Mismatch{Key: key + "#" + d.label, Input: src + "observe: " + d.label,
			Expected: d.exp, Observed: d.obs, Aux: aux})
	}
	// invariants on the implementation trace
	replaced := map[string]bool{}
	deleted := map[string]string{}
	if o.kind == "create" || o.kind == "create0" {
		replaced[o.obj] = true
	}
	if o.kind == "del" && obsOutcome == "ok:b:1" {
		deleted[o.obj] = o.name
	}
	if obsParts != nil && obsParts[0] != "n/a" {
		for _, b := range invariants(m.labels, prevImpl, obsParts, replaced, deleted) {
			aux := map[string]string{"part": "invariant", "op": o.id(), "opkind": o.kind, "prev": prevKey, "next": mkey, "tag": m.tag, "invariant": b}
			m.altModels(aux, w, path, o, "invariant")
			debugDump(key+"#invariant", "invariant", "holds", b)
			r.Mismatch(engine.Mismatch{Key: key + "#invariant", Input: m.source(path, &o) + "invariant on the implementation trace",
				Expected: "invariant holds", Observed: b, Aux: aux})
		}
	}
	return mkey, agree, ikey
}

// prevObservation observes the implementation in the state reached by path.
func (m *machine) prevObservation(path []op) []string {
	im := m.im
	im.Ensure()
	if m.freshVM {
		im.Fresh()
	}
	if !m.rebuild(path) {
		return nil
	}
	parts := m.normalise(observeImpl(im, func() bool { return m.rebuild(path) }, m.objs, m.names))
	for _, p := range parts {
		if strings.HasPrefix(p, "GO-PANIC") {
			return nil
		}
	}
	return parts
}

func (m *machine) parseKey(key string) (path []op, o op, ok bool) {
	if i := strings.IndexByte(key, '#'); i >= 0 {
		key = key[:i]
	}
	f := strings.Split(key, "/")
	if len(f) != 3 || f[0] != m.tag {
		return nil, op{}, false
	}
	if f[1] != "" {
		for _, id := range strings.Split(f[1], ";") {
			x, ok := m.opByID[id]
			if !ok {
				return nil, op{}, false
			}
			path = append(path, x)
		}
	}
	o, ok = m.opByID[f[2]]
	return path, o, ok
}

// run performs the search.
func (m *machine) run() {
	r := m.r
	m.labels = partNames(m.objs, m.names)
	m.opByID = map[string]op{}
	for _, o := range m.ops {
		m.opByID[o.id()] = o
	}
	if m.known == nil {
		m.known = func(*objdrv.Impl) map[uintptr]string { return nil }
	}
	if m.im == nil {
		m.im = objdrv.New(prelude7)
	}
	if r.ReplayKey != "" {
		if path, o, ok := m.parseKey(r.ReplayKey); ok {
			m.transition(path, o, true, m.prevObservation(path))
		}
		return
	}
	// root: the initial state must agree before anything else is believed
	{
		w := m.model()
		exp := m.normalise(w.observe(m.objs, m.names))
		obs := m.prevObservation(nil)
		ok := obs != nil
		for i := range exp {
			if !ok {
				break
			}
			if m.skip[partKind(m.labels[i])] {
				continue
			}
			if exp[i] != obs[i] {
				ok = false
				if r.Shard == 0 {
					r.Mismatch(engine.Mismatch{Key: m.tag + "/root#" + m.labels[i], Input: m.setup + "\nobserve: " + m.labels[i],
						Expected: exp[i], Observed: obs[i], Aux: map[string]string{"part": partKind(m.labels[i]), "label": m.labels[i], "tag": m.tag, "opkind": "root"}})
				}
			}
		}
		if obs == nil && r.Shard == 0 {
			r.Mismatch(engine.Mismatch{Key: m.tag + "/root", Input: m.setup, Expected: "initial observation", Observed: "GO-PANIC or setup failure"})
		}
		if !ok {
			return
		}
	}
	idOf := func(mkey, ikey string) string {
		if m.hidden {
			return mkey + "\x00" + ikey
		}
		return mkey
	}
	w0 := m.model()
	root := &mstate{mkey: w0.key(m.objs)}
	if m.hidden {
		m.im.Ensure()
		m.rebuild(nil)
		root.ikey = m.im.InternalKey(m.objs[0], m.known(m.im))
	}
	states := []*mstate{root}
	seen := map[string]int{idOf(root.mkey, root.ikey): 0}
	rejected := map[string]bool{} // identities reached only through disagreeing transitions
	r.Tree(1, 0)
	expired := false
	for si := 0; si < len(states) && !expired; si++ {
		S := states[si]
		if m.maxDepth > 0 && len(S.path) >= m.maxDepth {
			continue
		}
		var prevImpl []string
		havePrev := false
		live := false // the runtime currently holds the objects in state S (identity pass only)
		leaf := m.maxDepth > 0 && len(S.path)+1 >= m.maxDepth
		for _, o := range m.ops {
			if r.Expired() {
				r.Cap("time budget reached in " + m.tag)
				expired = true
				break
			}
			mine := r.Mine()
			// successor identity: model state, and (slot families) the implementation's raw property table
			w := m.replayModel(S.path)
			w.apply(o)
			mk := w.key(m.objs)
			ik := ""
			if m.hidden && !(leaf && !mine) {
				if !live {
					m.im.Ensure()
					if m.freshVM {
						m.im.Fresh()
					}
					live = m.rebuild(S.path)
				}
				if live {
					_, oc := m.im.Run("__c(" + o.js() + ")")
					if strings.HasPrefix(oc, "GO-PANIC") {
						ik, live = "PANIC", false
					} else {
						ik = m.im.InternalKey(m.objs[0], m.known(m.im))
						if ik == "" || ik != S.ikey || mk != S.mkey {
							live = false
						}
					}
				}
			}
			id := idOf(mk, ik)
			_, known := seen[id]
			if leaf {
				known = true // successors at the depth bound are not expanded: no need to register them
			}
			if !mine && (known || rejected[id]) {
				continue
			}
			if mine && !havePrev {
				prevImpl = m.prevObservation(S.path)
				havePrev = true
			}
			mkey, agree, ikey := m.transition(S.path, o, mine, prevImpl)
			live = false
			if m.hidden && idOf(mkey, ikey) != id {
				r.HarnessError(fmt.Sprintf("%s: successor identity of %s / %s differs between two executions", m.tag, pathID(S.path), o.id()))
			}
			if !known && !rejected[id] {
				if agree {
					seen[id] = len(states)
					states = append(states, &mstate{path: append(append([]op(nil), S.path...), o), ikey: ikey, mkey: mkey})
					if r.Shard == 0 || r.NShards <= 1 {
						r.Tree(1, 0)
					}
				} else {
					rejected[id] = true
				}
			}
		}
	}
	m.nStates = len(states)
	m.nUnreached = len(rejected)
	mstates := map[string]bool{}
	for _, s := range states {
		mstates[s.mkey] = true
	}
	if r.Shard == 0 || r.NShards <= 1 {
		depth := "fixpoint"
		if m.maxDepth > 0 {
			depth = fmt.Sprint(m.maxDepth)
		}
		r.Bound(m.tag+".depth", depth)
		r.Bound(m.tag+".model_states", fmt.Sprint(len(mstates)))
		r.Bound(m.tag+".states", fmt.Sprint(len(states)))
		r.Bound(m.tag+".operations", fmt.Sprint(len(m.ops)))
		if len(rejected) > 0 {
			r.Note(fmt.Sprintf("%s: %d states were reached only through transitions on which the implementation disagrees (reported / known findings); their outgoing transitions are not explored", m.tag, len(rejected)))
		}
		if len(states) > len(mstates) {
			r.Note(fmt.Sprintf("%s: %d model states split into %d states by the implementation's raw property table (hidden tri-state attribute bits)", m.tag, len(mstates), len(states)))
		}
	}
}

// debugDump appends every mismatch to the file named by MC_C07_DUMP (development aid).
var dumpFile *os.File

func debugDump(key, part, exp, obs string) {
	if dumpFile == nil {
		p := os.Getenv("MC_C07_DUMP")
		if p == "" {
			return
		}
		f, err := os.OpenFile(p, os.O_APPEND|os.O_CREATE|os.O_WRONLY, 0o644)
		if err != nil {
			return
		}
		dumpFile = f
	}
	fmt.Fprintf(dumpFile, "%s\t%s\t%s\t%s\n", part, exp, obs, key)
}
