package c07

import (
	"fmt"
	"strings"

	"verif/mc/checks/c07/objdrv"
	"verif/mc/engine"
)

// forin-mutate: a for-in loop whose body mutates the object once, at a chosen
// iteration. ES5 12.6.4 leaves the mechanics open but fixes: a property deleted
// before it is visited is not visited; no property is visited twice; (property
// statement) nothing is enumerated after it was deleted. Every property that
// exists from start to end and is enumerable and not shadowed is visited once.
const preludeForIn = `
function __fim(x, step, act) {
  var seq = [], i = 0;
  for (var k in x) { seq[seq.length] = k; if (i === step) act(x); i++; }
  return __list(seq);
}
`

func runForInMutate(r *engine.Run) {
	im := objdrv.New(preludeForIn)
	type shape struct {
		id, js       string
		own, proto   []string
		nonEnumProto string
	}
	shapes := []shape{
		{"abc", `{a:1,b:2,c:3}`, []string{"a", "b", "c"}, nil, ""},
		{"abc-de", `(function(){ var p = {d:4,e:5}; var x = Object.create(p); x.a=1; x.b=2; x.c=3; x.__p = p; Object.defineProperty(x,"__p",{enumerable:false}); return x; })()`,
			[]string{"a", "b", "c"}, []string{"d", "e"}, ""},
	}
	type action struct {
		id, js  string
		deletes string // name deleted ("" none)
		adds    string
		onProto bool
	}
	actions := []action{{id: "none", js: `function(x){}`}}
	for _, n := range []string{"a", "b", "c"} {
		actions = append(actions, action{id: "delete-" + n, js: fmt.Sprintf(`function(x){ delete x.%s; }`, n), deletes: n})
	}
	actions = append(actions,
		action{id: "add-z", js: `function(x){ x.z = 9; }`, adds: "z"},
		action{id: "delete-add-a", js: `function(x){ delete x.a; x.a = 9; }`, deletes: "a", adds: "a"},
		action{id: "proto-delete-d", js: `function(x){ delete x.__p.d; }`, deletes: "d", onProto: true},
		action{id: "proto-delete-e", js: `function(x){ delete x.__p.e; }`, deletes: "e", onProto: true},
	)
	for _, sh := range shapes {
		total := len(sh.own) + len(sh.proto)
		for step := 0; step < total; step++ {
			for _, a := range actions {
				if a.onProto && sh.proto == nil {
					continue
				}
				key := fmt.Sprintf("%s/%d/%s", sh.id, step, a.id)
				if !r.MineKey(key) {
					continue
				}
				src := fmt.Sprintf("__fim(%s, %d, %s)", sh.js, step, a.js)
				objdrv.Begin(r, key)
				im.Ensure()
				val, oc := im.Run(src)
				objdrv.End()
				obs := oc
				if oc == "ok" {
					obs = judgeForIn(val, append(append([]string(nil), sh.own...), sh.proto...), step, a.deletes, a.adds)
				}
				r.Eval(a.id != "none")
				r.Tree(1, 1)
				r.Outcome(val)
				if r.WantSample() {
					r.Sample(src + " => " + val)
				}
				if obs != "ok" {
					r.Mismatch(engine.Mismatch{Key: key, Input: src, Expected: "ok (each surviving property once, nothing twice, nothing after its deletion)",
						Observed: obs + " (visited: " + val + ")", Aux: map[string]string{"part": "forin-mutate", "visited": val, "deletes": a.deletes, "adds": a.adds, "step": fmt.Sprint(step),
							"alt":  liveOrderForIn(sh.own, sh.proto, step, a.deletes, a.adds, a.onProto, true),
							"alt0": liveOrderForIn(sh.own, sh.proto, step, a.deletes, a.adds, a.onProto, false)}})
				}
			}
		}
	}
	r.Bound("shapes", "own {a,b,c}; own {a,b,c} + prototype {d,e}")
	r.Bound("mutation", "one of delete own/inherited name, add a name, delete+re-add, at every iteration index")
}

func judgeForIn(visited string, initial []string, step int, deletes, adds string) string {
	var seq []string
	if visited != "" {
		seq = strings.Split(visited, ",")
	}
	count := map[string]int{}
	for _, n := range seq {
		count[n]++
		if count[n] > 1 {
			return fmt.Sprintf("%q enumerated twice", n)
		}
	}
	for i, n := range seq {
		if n == deletes && i > step && adds != deletes {
			return fmt.Sprintf("%q enumerated after it was deleted", n)
		}
	}
	for _, n := range initial {
		if n == deletes {
			continue
		}
		if count[n] != 1 {
			return fmt.Sprintf("%q was never deleted but was not enumerated", n)
		}
	}
	for _, n := range seq {
		ok := n == adds
		for _, i := range initial {
			if i == n {
				ok = true
			}
		}
		if !ok {
			return fmt.Sprintf("%q enumerated but never a property", n)
		}
	}
	return "ok"
}

// liveOrderForIn is the alternative model of the known finding "for-in ranges
// over the live propertyOrder slice": the enumeration of each object of the
// chain is a Go range over the object's order slice taken when its turn starts,
// deletions shift the backing array in place (append(s[:i], s[i+1:]...)),
// additions append; a name missing from the table counts as not enumerable.
// visitedSet selects the for-in loop after the shadowing repair (/repo 4f98aff:
// every own name, enumerable or not, is looked at once; names already seen or
// without an own property are skipped) or before it (enumerable names only, no
// shadowing, finding c07-forin-ignores-shadowing). Real Go slices are used so
// that capacity effects are reproduced by construction.
func liveOrderForIn(own, proto []string, step int, deletes, adds string, onProto bool, visitedSet bool) string {
	type lobj struct {
		order []string
		enum  map[string]bool
		proto *lobj
	}
	put := func(o *lobj, n string, enumerable bool) {
		if _, ok := o.enum[n]; !ok {
			o.order = append(o.order, n)
		}
		o.enum[n] = enumerable
	}
	del := func(o *lobj, name string) {
		if _, ok := o.enum[name]; !ok {
			return
		}
		delete(o.enum, name)
		for index, prop := range o.order {
			if name == prop {
				if index == len(o.order)-1 {
					o.order = o.order[:index]
				} else {
					o.order = append(o.order[:index], o.order[index+1:]...)
				}
			}
		}
	}
	x := &lobj{enum: map[string]bool{}}
	var p *lobj
	if proto != nil {
		p = &lobj{enum: map[string]bool{}}
		for _, n := range proto {
			put(p, n, true)
		}
		x.proto = p
	}
	for _, n := range own {
		put(x, n, true)
	}
	if proto != nil {
		put(x, "__p", true)
		put(x, "__p", false)
	}
	var seq []string
	i := 0
	visited := map[string]bool{}
	for o := x; o != nil; o = o.proto {
		for _, name := range o.order {
			if visitedSet {
				if visited[name] {
					continue
				}
				visited[name] = true
			}
			if !o.enum[name] {
				continue
			}
			seq = append(seq, name)
			if i == step {
				target := x
				if onProto {
					target = p
				}
				if deletes != "" {
					del(target, deletes)
				}
				if adds != "" {
					put(target, adds, true)
				}
			}
			i++
		}
	}
	return strings.Join(seq, ",")
}
