package c07

import (
	"fmt"
	"regexp"
	"strings"

	"verif/mc/engine"
	om "verif/mc/ref/objmodel"
)

// Known findings of C07 are matched by ALTERNATIVE MODELS: for a mismatching
// transition the check re-runs the reference model with exactly one known
// defect of otto injected ("hypothesis world") and stores what that world
// would show for the mismatching part in Mismatch.Aux. A signature accepts a
// mismatch only when the observed value equals the value of its hypothesis
// world (input class = the hypothesis applies to this transition; relation =
// equality with the defect-injected model). Anything else stays a VIOLATION.
//
// Hypothesis worlds (state defects):
//
//	H2  accessor -> data conversion without a value keeps the getter/setter payload (defect #30)
//	H3  a generic descriptor applied to a writable data property clears writable
//	H5  defineProperties/create define the leading properties although a later descriptor is malformed
//	H7  defineProperty on an index of a String object does not see the implicit property
//	H8  [[DefineOwnProperty]] on non-writable array length with the current length throws
//
// Observation defects are applied on top of every world (clean or hypothesis):
//
//	noshadow   for-in lists the enumerable own names of every object of the chain (no shadowing, duplicates)
//	malformed  getOwnPropertyDescriptor of an accessor whose get and set are undefined has neither get nor set
const panic30 = "GO-PANIC:interface conversion: interface {} is otto.propertyGetSet, not otto.Value"

type hypo struct {
	name    string
	w       *world
	outcome string
	// per-part overrides (label -> value), applied after observing w
	override map[string]string
}

func (m *machine) hypotheses(path []op, o op) []hypo {
	before := m.replayModel(path)
	clean := m.replayModel(path)
	cleanOutcome := clean.apply(o)
	clean.r.Log = nil
	hs := []hypo{{name: "clean", w: clean, outcome: cleanOutcome}}
	recv := before.objs[o.obj]
	if recv == nil {
		return hs
	}
	pd := before.r.GetOwnProperty(recv, o.name)

	if o.kind == "def" && !o.d.contradictory() && strings.HasPrefix(cleanOutcome, "ok") {
		d := o.d
		// H2: accessor property, data descriptor without value
		if pd != nil && pd.IsAccessor() && d[0] == 0 && d[1] != 0 && d[4] == 0 && d[5] == 0 {
			w := m.replayModel(path)
			w.apply(o)
			w.r.Log = nil
			after := w.r.GetOwnProperty(w.objs[o.obj], o.name)
			w.objs[o.obj].Set(o.name, om.Desc{Get: pd.Get, HasGet: true, Set: pd.Set, HasSet: true,
				Enumerable: after.Enumerable, HasEnumerable: true, Configurable: after.Configurable, HasConfigurable: true})
			out := cleanOutcome
			if _, isIdx := om.IsArrayIndex(o.name); recv.IsArray && isIdx && d[3] == 2 {
				// arrayDefineOwnProperty applies the descriptor to an existing index twice; the second
				// application meets the broken property (accessor payload, now non-configurable) and rejects
				out = "TypeError"
			}
			hs = append(hs, hypo{name: "H2", w: w, outcome: out, override: map[string]string{o.obj + ".desc:" + o.name: panic30}})
		}
		// H3: writable data property, non-empty generic descriptor
		if pd != nil && pd.IsData() && pd.Writable && d[0] == 0 && d[1] == 0 && d[4] == 0 && d[5] == 0 && (d[2] != 0 || d[3] != 0) {
			w := m.replayModel(path)
			w.apply(o)
			w.r.Log = nil
			after := w.r.GetOwnProperty(w.objs[o.obj], o.name)
			after.Writable = false
			if !w.objs[o.obj].IsString {
				w.objs[o.obj].Set(o.name, *after)
				hs = append(hs, hypo{name: "H3", w: w, outcome: cleanOutcome})
			}
		}
	}
	// H5: defineProperties / create whose second descriptor is malformed
	if (o.kind == "defs" || o.kind == "create") && o.d2.contradictory() && !o.d.contradictory() {
		w := m.replayModel(path)
		out := cleanOutcome
		if o.kind == "defs" {
			first := op{kind: "def", obj: o.obj, name: o.name, d: o.d}
			if r := w.apply(first); !strings.HasPrefix(r, "ok") {
				out = r
			}
		}
		w.r.Log = nil
		hs = append(hs, hypo{name: "H5", w: w, outcome: out})
	}
	// H7: String object, defineProperty on an implicit index property
	if o.kind == "def" && recv.IsString && !o.d.contradictory() {
		if _, isIdx := om.IsArrayIndex(o.name); isIdx && pd != nil {
			w := m.replayModel(path)
			x := w.objs[o.obj]
			x.IsString = false // the implicit index properties are invisible to [[DefineOwnProperty]]
			if w.r.GetOwnProperty(x, o.name) == nil {
				out := w.apply(o)
				x.IsString = true
				w.r.Log = nil
				hs = append(hs, hypo{name: "H7", w: w, outcome: out})
			}
		}
	}
	// H9: arguments object, the whole history replayed with otto's arguments semantics
	if recv.IsArguments {
		w := m.modelQuirk(om.Quirks{ArgumentsKeepMapping: true})
		for _, x := range path {
			w.apply(x)
		}
		w.r.Log = nil
		out := w.apply(o)
		w.r.Log = nil
		hs = append(hs, hypo{name: "H9", w: w, outcome: out})
	}
	// H8: array, defineProperty("length", {value: current length, ...}) while length is not writable
	if o.kind == "def" && recv.IsArray && o.name == "length" && o.d[0] != 0 && pd != nil && !pd.Writable && pd.Value.N == float64(o.d[0]) {
		w := m.replayModel(path)
		w.r.Log = nil
		hs = append(hs, hypo{name: "H8", w: w, outcome: "TypeError"})
	}
	return hs
}

// noShadow is for-in without the shadowing rule of 12.6.4.
func noShadow(w *world, x *om.Obj) string {
	var out []string
	for ; x != nil; x = x.Proto {
		out = append(out, w.r.ObjectKeys(om.ObjV(x))...)
	}
	return strings.Join(out, ",")
}

var descAcc = regexp.MustCompile(`^(.*)=get\(u\)set\(u\):a([01])([01])$`)

// altModels fills Aux with what every hypothesis world shows for the mismatching part.
func (m *machine) altModels(aux map[string]string, _ *world, path []op, o op, label string) {
	idx := -1
	for i, l := range m.labels {
		if l == label {
			idx = i
		}
	}
	kind := ""
	if idx >= 0 {
		kind = partKind(label)
	}
	for _, h := range m.hypotheses(path, o) {
		aux["h:"+h.name] = "1"
		// observation defects that need the world before observe() consumes the log
		for _, on := range m.objs {
			list := noShadow(h.w, h.w.objs[on])
			if m.exotic {
				list = m.normalise(fillLists(m.labels, on+".forin", list))[indexOf(m.labels, on+".forin")]
			}
			aux["w:"+h.name+":noshadow:"+on] = list
		}
		parts := m.normalise(h.w.observe(m.objs, m.names))
		for l, v := range h.override {
			if i := indexOf(m.labels, l); i >= 0 {
				parts[i] = v
			}
		}
		switch {
		case label == "op":
			aux["w:"+h.name] = h.outcome
		case idx >= 0:
			aux["w:"+h.name] = parts[idx]
			if kind == "desc" {
				if mm := descAcc.FindStringSubmatch(parts[idx]); mm != nil {
					aux["w:"+h.name+":malformed"] = fmt.Sprintf("%s=malformed-descriptor(e=%s,c=%s)", mm[1], mm[2], mm[3])
				}
			}
		}
	}
}

func indexOf(labels []string, l string) int {
	for i, x := range labels {
		if x == l {
			return i
		}
	}
	return -1
}

func fillLists(labels []string, label, v string) []string {
	out := make([]string, len(labels))
	if i := indexOf(labels, label); i >= 0 {
		out[i] = v
	}
	return out
}

func worldsOf(m *engine.Mismatch, suffix string) []string {
	var out []string
	for k, v := range m.Aux {
		if strings.HasPrefix(k, "w:") && strings.HasSuffix(k, suffix) {
			rest := strings.TrimSuffix(strings.TrimPrefix(k, "w:"), suffix)
			if !strings.Contains(rest, ":") {
				out = append(out, v)
			}
		}
	}
	return out
}

var forinDup = regexp.MustCompile(`^(\w+)\.forin lists "[^"]*" twice \((.*)\)$`)

func init() {
	// a state hypothesis: observed equals that world's value and differs from the clean model
	state := func(h string, also func(m *engine.Mismatch) bool) engine.Signature {
		return func(m *engine.Mismatch) bool {
			if m.Aux == nil {
				return false
			}
			v, ok := m.Aux["w:"+h]
			if ok && m.Aux["part"] != "invariant" && m.Observed == v && m.Observed != m.Expected {
				return true
			}
			return also != nil && m.Aux["h:"+h] == "1" && also(m)
		}
	}
	engine.RegisterSignature("c07-accessor-payload-under-data-mode", state("H2", nil))
	engine.RegisterSignature("c07-generic-descriptor-clears-writable", state("H3", nil))
	engine.RegisterSignature("c07-defineproperties-not-atomic", state("H5", nil))
	engine.RegisterSignature("c07-string-index-define", state("H7", func(m *engine.Mismatch) bool {
		// the shadowing own property shows up as a re-shaped non-configurable property and a name listed twice
		if m.Aux["part"] != "invariant" {
			return false
		}
		return strings.Contains(m.Observed, "non-configurable property was re-shaped") ||
			strings.Contains(m.Observed, "non-writable non-configurable value changed") ||
			strings.Contains(m.Observed, "twice")
	}))
	engine.RegisterSignature("c07-gopn-non-object", func(m *engine.Mismatch) bool {
		return m.Aux["part"] == "objectfn" && m.Aux["fn"] == "getOwnPropertyNames" && m.Expected == "TypeError" &&
			m.Observed == "ok:{Array|ext=1|length=d:0:100}"
	})
	engine.RegisterSignature("c07-property-map-late-filter", func(m *engine.Mismatch) bool {
		v, ok := m.Aux["alt:late-filter"]
		return ok && m.Aux["tag"] == "descshape" && m.Observed == v && m.Observed != m.Expected
	})
	engine.RegisterSignature("c07-descriptor-value-read-last", func(m *engine.Mismatch) bool {
		v, ok := m.Aux["alt:value-last"]
		return ok && m.Aux["tag"] == "descshape" && m.Observed == v && m.Observed != m.Expected
	})
	engine.RegisterSignature("c07-arguments-keep-mapping", state("H9", nil))
	engine.RegisterSignature("c07-array-length-same-value", func(m *engine.Mismatch) bool {
		return m.Aux != nil && m.Aux["label"] == "op" && m.Aux["w:H8"] == "TypeError" && m.Observed == "TypeError" && m.Expected == "ok:b:1"
	})
	engine.RegisterSignature("c07-forin-ignores-shadowing", func(m *engine.Mismatch) bool {
		if m.Aux == nil {
			return false
		}
		switch m.Aux["part"] {
		case "forin":
			obj := strings.SplitN(m.Aux["label"], ".", 2)[0]
			for k, v := range m.Aux {
				if strings.HasPrefix(k, "w:") && strings.HasSuffix(k, ":noshadow:"+obj) && v == m.Observed {
					return true
				}
			}
		case "invariant":
			mm := forinDup.FindStringSubmatch(m.Observed)
			if mm == nil {
				return false
			}
			for k, v := range m.Aux {
				if strings.HasPrefix(k, "w:") && strings.HasSuffix(k, ":noshadow:"+mm[1]) && v == mm[2] {
					return true
				}
			}
		}
		return false
	})
	engine.RegisterSignature("c07-gopd-undefined-accessor", func(m *engine.Mismatch) bool {
		if m.Aux == nil || m.Aux["part"] != "desc" {
			return false
		}
		for _, v := range worldsOf(m, ":malformed") {
			if v == m.Observed {
				return true
			}
		}
		return false
	})
	// for-in with a mutating body (family forin-mutate): otto ranges over the live propertyOrder slice
	engine.RegisterSignature("c07-forin-live-order", func(m *engine.Mismatch) bool {
		return m.Aux != nil && m.Aux["part"] == "forin-mutate" && m.Aux["alt"] != "" && (m.Aux["alt"] == m.Aux["visited"] || m.Aux["alt0"] == m.Aux["visited"])
	})
}

// modelQuirk builds the initial model world with defect-injection switches on.
func (m *machine) modelQuirk(q om.Quirks) *world {
	quirks = q
	defer func() { quirks = om.Quirks{} }()
	return m.model()
}

var quirks om.Quirks
