package c07

import (
	"fmt"
	"strings"

	"verif/mc/checks/c07/objdrv"
	"verif/mc/engine"
)

// creators: own-property CREATION by syntax and built-ins under a polluted
// prototype. ES5 creates the properties of object/array literals (11.1.4,
// 11.1.5), JSON.parse results (15.12.2), Object.create/defineProperties maps
// (15.2.3.5-7), function objects (13.2), arguments objects (10.6), the result
// arrays of Array/String/RegExp/Object built-ins (15.4.4, 15.5.4.14, 15.10.6.2,
// 15.2.3.4/14) and descriptor objects (8.10.4) with [[DefineOwnProperty]]: the
// prototype chain is never consulted. Every creator is run once on the clean
// runtime and once with an obstacle of the same name on Object.prototype or
// Array.prototype (setter-only accessor, getter+setter accessor, non-writable
// data property); the created object must show the explicit own descriptor the
// clause prescribes, the whole observation must equal the clean twin's, and the
// obstacle's setter must never have run.
const preludeCreators = `
var __dp = Object.defineProperty, __cnt = 0;
function __tv(v) { var t = typeof v; if (v === null) return "null"; return (t === "object" || t === "function") ? t : t + ":" + v; }
function __ownr(x, n) {
  var d = __gopd(x, n);
  if (d === undefined) return "absent";
  if (__hop.call(d, "value")) return "data:" + __tv(d.value) + ":" + __bit(d.writable) + __bit(d.enumerable) + __bit(d.configurable);
  return "acc:" + typeof d.get + "," + typeof d.set + ":" + __bit(d.enumerable) + __bit(d.configurable);
}
function __cr(site, n, obst, mk) {
  var S = site === "A" ? Array.prototype : Object.prototype;
  var saved = __gopd(S, n), dsc = null;
  __cnt = 0;
  if (obst === 1) dsc = {set: function (v) { __cnt++; }, configurable: true};
  if (obst === 2) dsc = {get: function () { return "inh"; }, set: function (v) { __cnt++; }, enumerable: true, configurable: true};
  if (obst === 3) dsc = {value: "ro", writable: false, enumerable: true, configurable: true};
  if (dsc !== null) { delete S[n]; __dp(S, n, dsc); }
  var x = mk();
  if (dsc !== null) { delete S[n]; if (saved !== undefined) __dp(S, n, saved); }
  return __ownr(x, n) + "|read=" + __tv(x[n]) + "|in=" + __bit(n in x) + "|keys=" + __list(__keys(x)) +
    "|names=" + __list(__sortNames(__gopn(x))) + "|forin=" + __forin(x) + "|setter-calls=" + __cnt;
}
`

type creator struct {
	id    string
	sites string   // "O", "A" or "OA"
	names []string // names observed (and obstructed)
	expr  string   // JS expression; %N is replaced by the name
	own   func(n string) string
}

func constOwn(s string) func(string) string { return func(string) string { return s } }

func creatorList() []creator {
	xs := []string{"x", "0"}
	idx := []string{"0", "1"}
	cs := []creator{
		{"objlit-data", "O", xs, `({a:1, %N:2, b:3})`, constOwn("data:number:2:111")},
		{"objlit-strkey", "O", xs, `({"%N":2})`, constOwn("data:number:2:111")},
		{"objlit-dup", "O", xs, `({%N:1, a:3, %N:2})`, constOwn("data:number:2:111")},
		{"objlit-get", "O", xs, `({get %N(){ return 5; }})`, constOwn("acc:function,undefined:11")},
		{"objlit-set", "O", xs, `({set %N(v){}})`, constOwn("acc:undefined,function:11")},
		{"objlit-nested", "O", xs, `({q:{%N:2}}).q`, constOwn("data:number:2:111")},
		{"json-member", "O", xs, `JSON.parse('{"%N":2}')`, constOwn("data:number:2:111")},
		{"json-reviver", "O", xs, `JSON.parse('{"%N":2}', function(k, v){ return v; })`, constOwn("data:number:2:111")},
		{"create-map", "O", xs, `Object.create({}, {%N:{value:2,writable:true,enumerable:true,configurable:true}})`, constOwn("data:number:2:111")},
		{"create-map-default", "O", xs, `Object.create({}, {%N:{value:2}})`, constOwn("data:number:2:000")},
		{"defineProperties", "O", xs, `Object.defineProperties({}, {%N:{value:2,enumerable:true}})`, constOwn("data:number:2:010")},
		{"defineProperty", "O", xs, `Object.defineProperty({}, "%N", {value:2})`, constOwn("data:number:2:000")},
		{"function-expr", "O", []string{"prototype", "length"}, `(function(a, b){})`, func(n string) string {
			if n == "length" {
				return "data:number:2:000"
			}
			return "data:object:100"
		}},
		{"function-decl", "O", []string{"prototype", "length"}, `(function(){ function f(a, b){} return f; })()`, func(n string) string {
			if n == "length" {
				return "data:number:2:000"
			}
			return "data:object:100"
		}},
		{"function-prototype-object", "O", []string{"constructor"}, `(function(){}).prototype`, constOwn("data:function:101")},
		{"arguments", "O", []string{"0", "1", "length", "callee"}, `(function(){ return arguments; })(7, 8)`, func(n string) string {
			switch n {
			case "0":
				return "data:number:7:111"
			case "1":
				return "data:number:8:111"
			case "length":
				return "data:number:2:101"
			}
			return "data:function:101"
		}},
		{"arguments-mapped", "O", idx, `(function(a, b){ return arguments; })(7, 8)`, func(n string) string {
			if n == "0" {
				return "data:number:7:111"
			}
			return "data:number:8:111"
		}},
		{"gopd-data", "O", []string{"value", "writable", "enumerable", "configurable"}, `__gopd({q:2}, "q")`, func(n string) string {
			if n == "value" {
				return "data:number:2:111"
			}
			return "data:boolean:true:111"
		}},
		{"gopd-accessor", "O", []string{"get", "set", "enumerable", "configurable"}, `__gopd({get q(){ return 1; }}, "q")`, func(n string) string {
			switch n {
			case "get":
				return "data:function:111"
			case "set":
				return "data:undefined:undefined:111"
			}
			return "data:boolean:true:111"
		}},
		{"match-props", "O", []string{"index", "input"}, `"78".match(/8/)`, func(n string) string {
			if n == "index" {
				return "data:number:1:111"
			}
			return "data:string:78:111"
		}},
	}
	arr := func(id, expr, v0, v1 string) {
		cs = append(cs, creator{id, "OA", idx, expr, func(n string) string {
			if n == "0" {
				return "data:" + v0 + ":111"
			}
			return "data:" + v1 + ":111"
		}})
	}
	arr("arrlit", `[7, 8]`, "number:7", "number:8")
	arr("array-ctor", `new Array(7, 8)`, "number:7", "number:8")
	arr("array-call", `Array(7, 8)`, "number:7", "number:8")
	arr("map", `[1, 2].map(function(v){ return v + 6; })`, "number:7", "number:8")
	arr("filter", `[7, 0, 8].filter(function(v){ return v > 0; })`, "number:7", "number:8")
	arr("slice", `[6, 7, 8].slice(1)`, "number:7", "number:8")
	arr("concat", `[7].concat([8])`, "number:7", "number:8")
	arr("concat-scalar", `[7].concat(8)`, "number:7", "number:8")
	arr("splice-result", `[7, 8, 9].splice(0, 2)`, "number:7", "number:8")
	arr("split", `"7,8".split(",")`, "string:7", "string:8")
	arr("match", `"78".match(/7(8)/)`, "string:78", "string:8")
	arr("match-global", `"7878".match(/78/g)`, "string:78", "string:78")
	arr("exec", `/7(8)/.exec("78")`, "string:78", "string:8")
	arr("keys", `Object.keys({q:1, r:2})`, "string:q", "string:r")
	arr("getOwnPropertyNames", `Object.getOwnPropertyNames({q:1, r:2})`, "string:q", "string:r")
	arr("json-array", `JSON.parse('[7,8]')`, "number:7", "number:8")
	return cs
}

var obstacleNames = []string{"none", "setter-only", "getter+setter", "non-writable-data"}

func runCreators(r *engine.Run) {
	im := objdrv.New(preludeCreators)
	run := func(key, src string) string {
		objdrv.Begin(r, key)
		im.Ensure()
		val, oc := im.Run(src)
		objdrv.End()
		if oc != "ok" {
			// the program was interrupted between installing and removing the obstacle
			im.Fresh()
			return "outcome=" + oc
		}
		return val
	}
	n := 0
	for _, c := range creatorList() {
		for _, site := range strings.Split(c.sites, "") {
			for _, name := range c.names {
				for ob, obName := range obstacleNames {
					key := fmt.Sprintf("%s/%s/%s/%s", c.id, site, name, obName)
					n++
					if !r.MineKey(key) {
						continue
					}
					expr := strings.ReplaceAll(c.expr, "%N", name)
					mk := "function(){ return " + expr + "; }"
					twinSrc := fmt.Sprintf("__cr(%q, %q, 0, %s)", site, name, mk)
					src := fmt.Sprintf("__cr(%q, %q, %d, %s)", site, name, ob, mk)
					twin := run(key, twinSrc)
					obs := twin
					if ob != 0 {
						obs = run(key, src)
					}
					r.Eval(ob != 0)
					r.Tree(1, 1)
					r.Outcome(obs)
					if r.WantSample() {
						r.Sample(src + " => " + obs)
					}
					siteName := map[string]string{"O": "Object.prototype", "A": "Array.prototype"}[site]
					input := fmt.Sprintf("obstacle %s %q on %s; x = %s; observe x[%q]", obName, name, siteName, expr, name)
					aux := map[string]string{"part": "creators", "creator": c.id, "site": site, "name": name, "obstacle": obName, "twin": twin}
					wantOwn := c.own(name)
					if own := strings.SplitN(obs, "|", 2)[0]; own != wantOwn || !strings.HasSuffix(obs, "|setter-calls=0") {
						r.Mismatch(engine.Mismatch{Key: key, Input: input, Expected: wantOwn + "|...|setter-calls=0 (own property created with [[DefineOwnProperty]])", Observed: obs, Aux: aux})
						continue
					}
					r.Check(key, input, twin, obs)
				}
			}
		}
	}
	r.Bound("creators", fmt.Sprintf("%d creator expressions (object/array literals, JSON.parse, Object.create/defineProperties/defineProperty, function and arguments objects, descriptor objects, result arrays of Array/String/RegExp/Object built-ins)", len(creatorList())))
	r.Bound("obstacles", "none, setter-only accessor, getter+setter accessor, non-writable data property; same name on Object.prototype (and Array.prototype for array results)")
	r.Bound("cases", fmt.Sprint(n))
}
