package c07

import (
	"fmt"
	"os"
	"sort"
	"strings"
	"testing"

	"verif/mc/checks/c07/objdrv"
)

// TestNodeGen is a development-time aid (second opinion, never an oracle): with
// C07_NODEGEN=<file> it writes a JS program that replays every transition of the
// slot machine (model BFS to fixpoint) and a sample of the chain histories under
// another engine and prints the transitions whose observation differs from the
// reference model. Lists are compared as sets for the chain histories (ES2015
// orders integer-like keys first). Skipped otherwise.
func TestNodeGen(t *testing.T) {
	out := os.Getenv("C07_NODEGEN")
	if out == "" {
		t.Skip("development aid")
	}
	var sb strings.Builder
	sb.WriteString("(function(){\n" + objdrv.Prelude + prelude7 + `
var __n = 0, __bad = 0;
function __sortList(s) { if (s === "") return s; var a = s.split(","); a.sort(); return a.join(","); }
function __case(key, setup, f, objs, names, sortLists, exp) {
  __n++;
  setup();
  __log = [];
  var oc;
  try { oc = "ok:" + __c(f()); } catch (e) { oc = (e instanceof TypeError) ? "TypeError" : "Other:" + e; }
  var parts = __obs7(objs(), names).split("` + partSep + `");
  if (sortLists) {
    var per = names.length * 5 + 6;
    for (var i = 0; i < parts.length - 2; i++) { var k = i % per - names.length * 5; if (k >= 0 && k <= 2) parts[i] = __sortList(parts[i]); }
  }
  var obs = oc + "` + partSep + `" + parts.join("` + partSep + `");
  if (obs !== exp) { __bad++; if (__bad < 300) console.log(key + "\n   model: " + exp + "\n   node:  " + obs); }
}
`)
	gen := func(m *machine, sample int, sortLists bool) {
		m.labels = partNames(m.objs, m.names)
		type st struct{ path []op }
		states := []st{{}}
		seen := map[string]bool{m.model().key(m.objs): true}
		n := 0
		for si := 0; si < len(states); si++ {
			S := states[si]
			if m.maxDepth > 0 && len(S.path) >= m.maxDepth {
				continue
			}
			for _, o := range m.ops {
				w := m.replayModel(S.path)
				outcome := w.apply(o)
				parts := w.observe(m.objs, m.names)
				k := w.key(m.objs)
				if !seen[k] {
					seen[k] = true
					states = append(states, st{append(append([]op(nil), S.path...), o)})
				}
				n++
				if n%sample != 0 {
					continue
				}
				if sortLists {
					per := len(m.names)*5 + 6
					for i := 0; i < len(parts)-2; i++ {
						if kk := i%per - len(m.names)*5; kk >= 0 && kk <= 2 && parts[i] != "" {
							l := strings.Split(parts[i], ",")
							sort.Strings(l)
							parts[i] = strings.Join(l, ",")
						}
					}
				}
				var pre strings.Builder
				pre.WriteString(m.setup + "; ")
				for _, x := range S.path {
					pre.WriteString("try { " + x.js() + "; } catch (e) {} ")
				}
				fmt.Fprintf(&sb, "__case(%q, function(){ %s }, function(){ return %s; }, function(){ return %s; }, %s, %v, %q);\n",
					m.tag+"/"+pathID(S.path)+"/"+o.id(), pre.String(), o.js(), jsList(m.objs, false), jsList(m.names, true), sortLists,
					outcome+partSep+strings.Join(parts, partSep))
			}
		}
	}
	gen(&machine{tag: "slot", setup: `o = {}; __extra = null; __log = []`, model: plainWorld, objs: []string{"o"}, names: []string{"x"},
		ops: slotOps("o", "x", allDescs())}, 1, false)
	gen(&machine{tag: "chains", setup: `p = {}; o = Object.create(p); __extra = null; __log = []`, model: chainWorld, objs: []string{"o", "p"},
		names: []string{"x", "y", "0"}, ops: chainOps(), maxDepth: 3}, 5, true)
	sb.WriteString(`console.log("cases: " + __n + ", different: " + __bad);` + "\n}).call(globalThis);\n")
	if err := os.WriteFile(out, []byte(sb.String()), 0o644); err != nil {
		t.Fatal(err)
	}
}
