package c07

import (
	"fmt"
	"strings"

	"verif/mc/checks/c07/objdrv"
	"verif/mc/engine"
	om "verif/mc/ref/objmodel"
)

// samevalue: 8.12.9 compares with SameValue (9.12), not with ===: +0 and -0
// differ, NaN equals NaN, two distinct objects differ, "1" differs from 1, and
// getters/setters are compared by identity. The family redefines a property that
// holds each value of the alphabet with each value of the alphabet, for every
// attribute combination that matters (frozen, read-only but configurable,
// writable but non-configurable), through defineProperty, defineProperties, the
// descriptor round trip and assignment; accessors likewise over {undefined, g1,
// g2} x {undefined, s1, s2} with g2/s2 distinct functions with the same body.
// The sign of zero and NaN are visible in the canonical rendering (d:-0, d:NaN).

const preludeSame = `
var A = __label({}, "A"), B = __label({}, "B");
var g2 = __label(function () { __log[__log.length] = "g1:" + __c(this); return "G"; }, "g2");
var s2 = __label(function (v) { __log[__log.length] = "s1:" + __c(this) + ":" + __c(v); }, "s2");
`

type sval struct {
	id, js string
	m      func(x *sameWorld) om.Value
}

type sameWorld struct {
	w            *world
	A, B, g2, s2 *om.Obj
}

func newSameWorld(w *world) *sameWorld {
	x := &sameWorld{w: w}
	x.A = w.r.NewObject()
	x.A.Label = "A"
	x.B = w.r.NewObject()
	x.B.Label = "B"
	x.g2 = w.r.NewScriptFunction("g2", 0, w.g1.Call)
	x.s2 = w.r.NewScriptFunction("s2", 1, w.s1.Call)
	return x
}

func sameValues() []sval {
	return []sval{
		{"+0", "0", func(*sameWorld) om.Value { return om.Num(0) }},
		{"-0", "-0", func(*sameWorld) om.Value { return om.Value{K: om.Number, N: negZeroF()} }},
		{"NaN", "NaN", func(*sameWorld) om.Value { return om.NaNV }},
		{"1", "1", func(*sameWorld) om.Value { return om.Num(1) }},
		{"'1'", `"1"`, func(*sameWorld) om.Value { return om.Str("1") }},
		{"A", "A", func(x *sameWorld) om.Value { return om.ObjV(x.A) }},
		{"B", "B", func(x *sameWorld) om.Value { return om.ObjV(x.B) }},
		{"undefined", "undefined", func(*sameWorld) om.Value { return om.Undef }},
		{"null", "null", func(*sameWorld) om.Value { return om.NullV }},
		{"false", "false", func(*sameWorld) om.Value { return om.FalseV }},
	}
}

func negZeroF() float64 {
	z := 0.0
	return -z
}

func runSameValue(r *engine.Run) {
	im := objdrv.New(prelude7 + preludeSame)
	vals := sameValues()
	type attr struct {
		id   string
		w, c bool
	}
	attrs := []attr{{"frozen", false, false}, {"readonly-configurable", false, true}, {"writable-nonconfigurable", true, false}}
	type recv struct{ id, js, name string }
	recvs := []recv{{"object", "o = {};", "x"}, {"array", "o = [];", "0"}}
	mkRecv := func(w *world, rc recv) *om.Obj {
		if rc.id == "array" {
			return w.r.NewArrayFrom(nil)
		}
		return w.r.NewObject()
	}
	dataDesc := func(x *sameWorld, fields map[string]om.Value) om.Value {
		d := x.w.r.NewObject()
		for _, f := range []string{"value", "writable", "enumerable", "configurable", "get", "set"} {
			if v, ok := fields[f]; ok {
				x.w.r.Put(d, f, v, false)
			}
		}
		return om.ObjV(d)
	}
	for _, rc := range recvs {
		rc := rc
		names := []string{rc.name}
		if rc.id == "array" {
			names = []string{"0", "length"}
		}
		for _, at := range attrs {
			at := at
			for _, init := range vals {
				init := init
				setup := fmt.Sprintf(`%s Object.defineProperty(o,%q,{value:%s,writable:%v,enumerable:true,configurable:%v});`, rc.js, rc.name, init.js, at.w, at.c)
				build := func(w *world) (*sameWorld, *om.Obj) {
					x := newSameWorld(w)
					o := w.set("o", mkRecv(w, rc))
					w.r.ObjectDefineProperty(om.ObjV(o), om.Str(rc.name), dataDesc(x, map[string]om.Value{
						"value": init.m(x), "writable": om.Boolean(at.w), "enumerable": om.TrueV, "configurable": om.Boolean(at.c)}))
					return x, o
				}
				prefix := fmt.Sprintf("data/%s/%s/%s/", rc.id, at.id, init.id)
				for _, b := range vals {
					b := b
					runShapeCase(r, im, shapeCase{key: prefix + "define/" + b.id, setup: setup, names: names,
						expr: fmt.Sprintf(`Object.defineProperty(o,%q,{value:%s}) === o`, rc.name, b.js),
						model: func(w *world) func() om.Value {
							x, o := build(w)
							return func() om.Value {
								return om.Boolean(om.SameValue(w.r.ObjectDefineProperty(om.ObjV(o), om.Str(rc.name), dataDesc(x, map[string]om.Value{"value": b.m(x)})), om.ObjV(o)))
							}
						}}, nil)
					runShapeCase(r, im, shapeCase{key: prefix + "defineProperties/" + b.id, setup: setup, names: names,
						expr: fmt.Sprintf(`Object.defineProperties(o,{%q:{value:%s,writable:%v}}) === o`, rc.name, b.js, at.w),
						model: func(w *world) func() om.Value {
							x, o := build(w)
							return func() om.Value {
								m := w.r.NewObject()
								w.r.Put(m, rc.name, dataDesc(x, map[string]om.Value{"value": b.m(x), "writable": om.Boolean(at.w)}), false)
								return om.Boolean(om.SameValue(w.r.ObjectDefineProperties(om.ObjV(o), om.ObjV(m)), om.ObjV(o)))
							}
						}}, nil)
					runShapeCase(r, im, shapeCase{key: prefix + "assign/" + b.id, setup: setup, names: names,
						expr: fmt.Sprintf(`(o[%q] = %s, 0)`, rc.name, b.js),
						model: func(w *world) func() om.Value {
							x, o := build(w)
							return func() om.Value {
								w.r.Put(o, rc.name, b.m(x), false)
								return om.Num(0)
							}
						}}, nil)
				}
				runShapeCase(r, im, shapeCase{key: prefix + "roundtrip", setup: setup, names: names,
					expr: fmt.Sprintf(`Object.defineProperty(o,%q,Object.getOwnPropertyDescriptor(o,%q)) === o`, rc.name, rc.name),
					model: func(w *world) func() om.Value {
						_, o := build(w)
						return func() om.Value {
							d := w.r.ObjectGetOwnPropertyDescriptor(om.ObjV(o), om.Str(rc.name))
							return om.Boolean(om.SameValue(w.r.ObjectDefineProperty(om.ObjV(o), om.Str(rc.name), d), om.ObjV(o)))
						}
					}}, nil)
			}
		}
	}
	// accessors: identity of getter/setter
	type fn struct {
		id, js string
		m      func(x *sameWorld) om.Value
	}
	gets := []fn{{"u", "undefined", func(*sameWorld) om.Value { return om.Undef }}, {"g1", "g1", func(x *sameWorld) om.Value { return om.ObjV(x.w.g1) }}, {"g2", "g2", func(x *sameWorld) om.Value { return om.ObjV(x.g2) }}}
	sets := []fn{{"u", "undefined", func(*sameWorld) om.Value { return om.Undef }}, {"s1", "s1", func(x *sameWorld) om.Value { return om.ObjV(x.w.s1) }}, {"s2", "s2", func(x *sameWorld) om.Value { return om.ObjV(x.s2) }}}
	for _, conf := range []bool{false, true} {
		for _, g0 := range gets {
			for _, s0 := range sets {
				conf, g0, s0 := conf, g0, s0
				setup := fmt.Sprintf(`o = {}; Object.defineProperty(o,"x",{get:%s,set:%s,enumerable:true,configurable:%v});`, g0.js, s0.js, conf)
				build := func(w *world) (*sameWorld, *om.Obj) {
					x := newSameWorld(w)
					o := w.set("o", w.r.NewObject())
					w.r.ObjectDefineProperty(om.ObjV(o), om.Str("x"), dataDesc(x, map[string]om.Value{
						"get": g0.m(x), "set": s0.m(x), "enumerable": om.TrueV, "configurable": om.Boolean(conf)}))
					return x, o
				}
				prefix := fmt.Sprintf("accessor/configurable=%v/%s,%s/", conf, g0.id, s0.id)
				type redef struct {
					id, js string
					f      func(x *sameWorld) map[string]om.Value
				}
				var redefs []redef
				for _, g := range gets {
					g := g
					redefs = append(redefs, redef{"get:" + g.id, "{get:" + g.js + "}", func(x *sameWorld) map[string]om.Value { return map[string]om.Value{"get": g.m(x)} }})
					for _, s := range sets {
						s := s
						redefs = append(redefs, redef{"get:" + g.id + ",set:" + s.id, "{get:" + g.js + ",set:" + s.js + "}", func(x *sameWorld) map[string]om.Value {
							return map[string]om.Value{"get": g.m(x), "set": s.m(x)}
						}})
					}
				}
				for _, s := range sets {
					s := s
					redefs = append(redefs, redef{"set:" + s.id, "{set:" + s.js + "}", func(x *sameWorld) map[string]om.Value { return map[string]om.Value{"set": s.m(x)} }})
				}
				for _, rd := range redefs {
					rd := rd
					runShapeCase(r, im, shapeCase{key: prefix + "define/" + rd.id, setup: setup, names: []string{"x"},
						expr: `Object.defineProperty(o,"x",` + rd.js + `) === o`,
						model: func(w *world) func() om.Value {
							x, o := build(w)
							return func() om.Value {
								return om.Boolean(om.SameValue(w.r.ObjectDefineProperty(om.ObjV(o), om.Str("x"), dataDesc(x, rd.f(x))), om.ObjV(o)))
							}
						}}, nil)
				}
				runShapeCase(r, im, shapeCase{key: prefix + "roundtrip", setup: setup, names: []string{"x"},
					expr: `Object.defineProperty(o,"x",Object.getOwnPropertyDescriptor(o,"x")) === o`,
					model: func(w *world) func() om.Value {
						_, o := build(w)
						return func() om.Value {
							d := w.r.ObjectGetOwnPropertyDescriptor(om.ObjV(o), om.Str("x"))
							return om.Boolean(om.SameValue(w.r.ObjectDefineProperty(om.ObjV(o), om.Str("x"), d), om.ObjV(o)))
						}
					}}, nil)
			}
		}
	}
	r.Bound("values", "+0, -0, NaN, 1, \"1\", object A, object B, undefined, null, false (every ordered pair)")
	r.Bound("attributes", "frozen; read-only configurable; writable non-configurable; on a plain object and on an array index")
	r.Bound("accessors", "{undefined,g1,g2} x {undefined,s1,s2}, configurable and not, redefined with every get / set / get+set")
}

// ---- objectfn-args: every function of 15.2.3 rejects a first argument that is not an object ----

func runObjectFnArgs(r *engine.Run) {
	im := objdrv.New(prelude7)
	fns := []struct{ name, rest string }{
		{"getPrototypeOf", ""}, {"getOwnPropertyDescriptor", `,"x"`}, {"getOwnPropertyNames", ""}, {"create", ""},
		{"defineProperty", `,"x",{}`}, {"defineProperties", ",{}"}, {"seal", ""}, {"freeze", ""}, {"preventExtensions", ""},
		{"isSealed", ""}, {"isFrozen", ""}, {"isExtensible", ""}, {"keys", ""},
	}
	args := []string{"1", `"s"`, "true", "undefined", "null", ""}
	for _, f := range fns {
		for _, a := range args {
			if f.name == "create" && a == "null" {
				continue // null is a legal prototype
			}
			key := "objectfn/" + f.name + "(" + a + ")"
			if !r.MineKey(key) {
				continue
			}
			rest := f.rest
			if a == "" {
				rest = ""
			}
			src := "__c(Object." + f.name + "(" + a + rest + "))"
			objdrv.Begin(r, key)
			im.Ensure()
			val, oc := im.Run(src)
			objdrv.End()
			obs := oc
			if oc == "ok" {
				obs = "ok:" + val
			}
			r.Eval(true)
			r.Tree(1, 1)
			r.Outcome(obs)
			if r.WantSample() {
				r.Sample(src + " => " + obs)
			}
			if obs != "TypeError" {
				debugDump(key, "objectfn", "TypeError", obs)
				r.Mismatch(engine.Mismatch{Key: key, Input: src, Expected: "TypeError", Observed: obs,
					Aux: map[string]string{"part": "objectfn", "fn": f.name, "arg": a}})
			}
		}
	}
	r.Bound("functions", fmt.Sprint(len(fns)))
	r.Bound("non_object_arguments", strings.Join(args, " | ")+"(omitted)")
}
