package objdrv

import (
	"fmt"
	"os"
	"sync"
	"sync/atomic"
	"syscall"
	"time"

	"verif/mc/engine"
)

// The engine's per-case watchdog measures wall-clock time. The cases of C07/C08
// take about a millisecond, so the only way to exceed a wall-clock limit is a
// stall of the whole machine (observed twice during development on the shared,
// overloaded VM: the kernel logged "workqueue lockup - stuck for 99s" and every
// worker that happened to be inside a case was reported as hung). A stall is not
// a property violation. Begin/End therefore announce the case to the supervisor
// (crash attribution) but bound the case by the CPU time the worker process
// consumes: an interpreter that really loops burns CPU and is still reported as
// a hang for the announced case, with the same protocol the engine uses
// ("WATCHDOG family=... key=..." on stderr, exit status 3).

const cpuLimit = 45 * time.Second

var (
	wdStart  atomic.Int64 // process CPU time (ns) at Begin; 0 = no case running
	wdKey    atomic.Value
	wdFamily atomic.Value
	wdOnce   sync.Once
)

func cpuNow() int64 {
	var ru syscall.Rusage
	if err := syscall.Getrusage(syscall.RUSAGE_SELF, &ru); err != nil {
		return 1
	}
	return ru.Utime.Nano() + ru.Stime.Nano() + 1
}

// Begin announces the case and starts the CPU-time watchdog for it.
func Begin(r *engine.Run, key string) {
	r.Begin(key) // announce (crash attribution)
	r.End()      // but do not arm the wall-clock watchdog
	wdFamily.Store(r.Family())
	wdKey.Store(key)
	wdStart.Store(cpuNow())
	wdOnce.Do(func() {
		go func() {
			for {
				time.Sleep(500 * time.Millisecond)
				st := wdStart.Load()
				if st != 0 && time.Duration(cpuNow()-st) > cpuLimit {
					fam, _ := wdFamily.Load().(string)
					key, _ := wdKey.Load().(string)
					fmt.Fprintf(os.Stderr, "WATCHDOG family=%s key=%s\n", fam, key)
					os.Exit(3)
				}
			}
		}()
	})
}

// End marks the end of the current case.
func End() { wdStart.Store(0) }
