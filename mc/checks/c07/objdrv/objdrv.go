// Package objdrv drives the real otto implementation for the C07 and C08
// checks: a JS prelude that renders values and objects in the canonical form of
// ref/objmodel (Render/Dump), and a runner that executes one statement at a time
// under ox.Guard. No JS try/catch is used anywhere: otto's catch clause also
// catches foreign Go panics, and a Go panic must surface as the observation
// "GO-PANIC", not as a JS exception.
package objdrv

import (
	"fmt"
	"reflect"
	"sort"
	"strings"

	"github.com/robertkrimen/otto"

	"verif/mc/ox"
)

// Prelude defines the rendering helpers. It relies only on basic language
// features plus Object.getOwnPropertyDescriptor/getOwnPropertyNames/isExtensible
// and Object.prototype.toString of the runtime under test.
const Prelude = `
var __global = this, __log = [], __lab = [], o, p;
function __label(o, l) { __lab[__lab.length] = [o, l]; return o; }
function __id(v) {
  if (v === o) return "o";
  if (v === p) return "p";
  for (var i = 0; i < __lab.length; i++) if (__lab[i][0] === v) return __lab[i][1];
  return null;
}
function __isIdx(s) {
  if (s === "0") return true;
  if (s.length === 0 || s.length > 10) return false;
  var c0 = s.charCodeAt(0);
  if (c0 < 49 || c0 > 57) return false;
  var n = 0;
  for (var i = 0; i < s.length; i++) { var c = s.charCodeAt(i); if (c < 48 || c > 57) return false; n = n * 10 + (c - 48); }
  return n < 4294967295;
}
function __less(a, b) {
  var ia = __isIdx(a), ib = __isIdx(b);
  if (ia && ib) return Number(a) < Number(b);
  if (ia !== ib) return ia;
  return a < b;
}
function __sortNames(a) {
  var r = [];
  for (var i = 0; i < a.length; i++) r[i] = a[i];
  for (var i = 1; i < r.length; i++) {
    var x = r[i], j = i;
    while (j > 0 && __less(x, r[j - 1])) { r[j] = r[j - 1]; j--; }
    r[j] = x;
  }
  return r;
}
function __c(v, depth) {
  var t = typeof v;
  if (t === "number") return "d:" + (v !== v ? "NaN" : (v === 0 && 1 / v < 0) ? "-0" : v);
  if (t === "undefined") return "u";
  if (t === "string") return "s:" + v;
  if (t === "boolean") return v ? "b:1" : "b:0";
  if (v === null) return "n";
  var l = __id(v);
  if (l !== null) return "o:" + l;
  depth = depth || 0;
  if (depth > 2) return "o:?";
  return "{" + __dump(v, depth + 1) + "}";
}
function __bit(b) { return b ? "1" : "0"; }
var __gopd = Object.getOwnPropertyDescriptor, __gopn = Object.getOwnPropertyNames, __keys = Object.keys, __isExt = Object.isExtensible,
    __isFrozen = Object.isFrozen, __isSealed = Object.isSealed, __hop = Object.prototype.hasOwnProperty, __pie = Object.prototype.propertyIsEnumerable,
    __ots = Object.prototype.toString;
function __prop(o, p, depth) {
  var d = __gopd(o, p);
  if (d === undefined) return p + "=absent";
  var hv = "value" in d, hw = "writable" in d, hg = "get" in d, hs = "set" in d;
  if (hv && hw && !hg && !hs)
    return p + "=" + __c(d.value, depth) + ":" + (d.writable ? "1" : "0") + (d.enumerable ? "1" : "0") + (d.configurable ? "1" : "0");
  if (hg && hs && !hv && !hw)
    return p + "=get(" + __c(d.get, depth) + ")set(" + __c(d.set, depth) + "):a" + (d.enumerable ? "1" : "0") + (d.configurable ? "1" : "0");
  return p + "=malformed-descriptor(" + (hv ? "value," : "") + (hw ? "writable," : "") + (hg ? "get," : "") + (hs ? "set," : "") +
    "e=" + __bit(d.enumerable) + ",c=" + __bit(d.configurable) + ")";
}
function __cls(o) { var s = __ots.call(o); return s.substring(8, s.length - 1); }
function __dump(o, depth) {
  depth = depth || 0;
  var names = __sortNames(__gopn(o));
  var s = __cls(o) + "|ext=" + __bit(__isExt(o)) + "|";
  for (var i = 0; i < names.length; i++) s += (i > 0 ? "," : "") + __prop(o, names[i], depth);
  return s;
}
function __list(a) { var s = ""; for (var i = 0; i < a.length; i++) s += (i > 0 ? "," : "") + a[i]; return s; }
function __forin(o) { var s = "", first = true; for (var k in o) { s += (first ? "" : ",") + k; first = false; } return s; }
function __takelog() { var s = __list(__log); __log = []; return s; }
`

// Impl is one otto runtime with the prelude loaded and a compiled-script cache.
type Impl struct {
	VM      *otto.Otto
	Extra   string // extra prelude of the check
	scripts map[string]*otto.Script
	Dirty   bool // a Go panic escaped: the runtime must be replaced
	News    int
}

// New creates a runtime with Prelude + extra loaded.
func New(extra string) *Impl {
	im := &Impl{Extra: extra, scripts: map[string]*otto.Script{}}
	im.Fresh()
	return im
}

// Fresh replaces the runtime by a new one.
func (im *Impl) Fresh() {
	im.VM = otto.New()
	im.Dirty = false
	im.News++
	if res := ox.Run(im.VM, Prelude+im.Extra); res.Err != nil || res.Panicked {
		panic(fmt.Sprintf("objdrv: prelude failed: %v %v", res.Err, res.PanicVal))
	}
}

// Ensure replaces the runtime when a Go panic escaped from it earlier.
func (im *Impl) Ensure() {
	if im.Dirty {
		im.Fresh()
	}
}

// Run executes one program and returns its completion value as a Go string
// (programs end in an expression that evaluates to a string) and the outcome:
// "ok", a JS error class name, or "GO-PANIC:<first line of the panic value>".
func (im *Impl) Run(src string) (val string, outcome string) {
	sc := im.scripts[src]
	if sc == nil {
		var err error
		sc, err = im.VM.Compile("", src)
		if err != nil {
			return "", "COMPILE:" + err.Error()
		}
		// finite operation alphabets repeat their sources; enumerations with unique sources must not pile up
		if len(im.scripts) < 4096 {
			im.scripts[src] = sc
		}
	}
	res := ox.Run(im.VM, sc)
	switch {
	case res.Panicked:
		im.Dirty = true
		msg := fmt.Sprint(res.PanicVal)
		if i := strings.IndexByte(msg, '\n'); i >= 0 {
			msg = msg[:i]
		}
		return "", "GO-PANIC:" + msg
	case res.Err != nil:
		class := ox.ErrClass(res.Err)
		if _, isOtto := res.Err.(*otto.Error); !isOtto || class == "Thrown" {
			// a thrown non-Error value
			class = "Thrown(" + res.Err.Error() + ")"
		}
		return "", class
	}
	if res.Value.IsString() {
		s, _ := res.Value.ToString()
		return s, "ok"
	}
	return ox.Canon(res.Value), "ok"
}

// InternalKey renders the implementation's raw property table of the object
// held in global variable name (mode bits incl. the tri-state 0o2xx bits,
// payload kind, property order, extensible flag) by read-only reflection. It is
// only ever used as a state-dedup key, never by an oracle; when otto's
// representation changes it degrades to "".
func (im *Impl) InternalKey(name string, known map[uintptr]string) string {
	v, err := im.VM.Get(name)
	if err != nil || !v.IsObject() {
		return ""
	}
	return internalKey(v, known)
}

// ObjectPointer returns the address of the *object behind a global variable
// (for naming getter/setter payloads in InternalKey).
func (im *Impl) ObjectPointer(name string) uintptr {
	v, err := im.VM.Get(name)
	if err != nil || !v.IsObject() {
		return 0
	}
	defer func() { recover() }()
	f := reflect.ValueOf(v).FieldByName("value")
	if !f.IsValid() || f.Kind() != reflect.Interface || f.IsNil() {
		return 0
	}
	e := f.Elem()
	if e.Kind() != reflect.Ptr {
		return 0
	}
	return e.Pointer()
}

func internalKey(v otto.Value, known map[uintptr]string) (key string) {
	defer func() {
		if recover() != nil {
			key = ""
		}
	}()
	f := reflect.ValueOf(v).FieldByName("value")
	if !f.IsValid() || f.Kind() != reflect.Interface || f.IsNil() {
		return ""
	}
	p := f.Elem()
	if p.Kind() != reflect.Ptr || p.IsNil() {
		return ""
	}
	o := p.Elem()
	props := o.FieldByName("property")
	order := o.FieldByName("propertyOrder")
	ext := o.FieldByName("extensible")
	if !props.IsValid() || !order.IsValid() || !ext.IsValid() || props.Kind() != reflect.Map {
		return ""
	}
	var sb strings.Builder
	fmt.Fprintf(&sb, "ext=%v;", ext.Bool())
	names := make([]string, 0, order.Len())
	for i := 0; i < order.Len(); i++ {
		names = append(names, order.Index(i).String())
	}
	// properties present in the map but missing from the order (or vice versa) are part of the key
	inMap := map[string]bool{}
	for _, k := range props.MapKeys() {
		inMap[k.String()] = true
	}
	var extra []string
	for k := range inMap {
		found := false
		for _, n := range names {
			if n == k {
				found = true
			}
		}
		if !found {
			extra = append(extra, k)
		}
	}
	sort.Strings(extra)
	for _, n := range append(names, extra...) {
		pv := props.MapIndex(reflect.ValueOf(n))
		if !pv.IsValid() {
			fmt.Fprintf(&sb, "%s:ORDER-ONLY;", n)
			continue
		}
		mode := pv.FieldByName("mode").Int()
		val := pv.FieldByName("value")
		kind := "nil"
		if val.IsValid() && !val.IsNil() {
			e := val.Elem()
			kind = e.Type().Name()
			if e.Kind() == reflect.Struct {
				if k, pv := e.FieldByName("kind"), e.FieldByName("value"); k.IsValid() && pv.IsValid() && pv.Kind() == reflect.Interface {
					kind += fmt.Sprintf("(%d", k.Int())
					if !pv.IsNil() {
						x := pv.Elem()
						switch x.Kind() {
						case reflect.Float32, reflect.Float64:
							kind += fmt.Sprintf(",%v", x.Float())
						case reflect.Int, reflect.Int8, reflect.Int16, reflect.Int32, reflect.Int64:
							kind += fmt.Sprintf(",%d", x.Int())
						case reflect.Uint, reflect.Uint8, reflect.Uint16, reflect.Uint32, reflect.Uint64:
							kind += fmt.Sprintf(",%d", x.Uint())
						case reflect.String:
							kind += "," + x.String()
						case reflect.Bool:
							kind += fmt.Sprintf(",%v", x.Bool())
						case reflect.Ptr:
							if l := known[x.Pointer()]; l != "" {
								kind += "," + l
							} else {
								kind += ",ptr"
							}
						default:
							kind += "," + x.Type().String()
						}
					}
					kind += ")"
				}
			}
			if e.Kind() == reflect.Array && e.Len() == 2 {
				kind += "["
				for i := 0; i < 2; i++ {
					ptr := e.Index(i)
					switch {
					case ptr.IsNil():
						kind += "nil"
					case known[ptr.Pointer()] != "":
						kind += known[ptr.Pointer()]
					default:
						kind += "other"
					}
					if i == 0 {
						kind += ","
					}
				}
				kind += "]"
			}
		}
		fmt.Fprintf(&sb, "%s:%o:%s;", n, mode, kind)
	}
	return sb.String()
}
