package objdrv

import (
	"os"
	"testing"
	"time"
)

// TestWatchdogSleepIsNotAHang: a stalled (sleeping) case consumes no CPU and must not trip the watchdog.
func TestWatchdogSleepIsNotAHang(t *testing.T) {
	if os.Getenv("OBJDRV_WD") == "" {
		t.Skip("development aid")
	}
	wdKey.Store("k")
	wdFamily.Store("f")
	wdStart.Store(cpuNow())
	time.Sleep(2 * time.Second)
	if d := time.Duration(cpuNow() - wdStart.Load()); d > 500*time.Millisecond {
		t.Fatalf("sleep consumed %v CPU", d)
	}
	start := cpuNow()
	for x := 0; time.Duration(cpuNow()-start) < 300*time.Millisecond; x++ {
	}
	if d := time.Duration(cpuNow() - wdStart.Load()); d < 250*time.Millisecond {
		t.Fatalf("busy loop not accounted: %v", d)
	}
}
