package c07

import (
	"fmt"
	"sort"
	"strings"

	"verif/mc/checks/c07/objdrv"
	om "verif/mc/ref/objmodel"
)

// extra prelude of C07: the getter/setter of the descriptor alphabet and the
// observation function. Parts are joined with partSep.
const partSep = " ;; "

const prelude7 = `
var g1 = __label(function () { __log[__log.length] = "g1:" + __c(this); return "G"; }, "g1");
var s1 = __label(function (v) { __log[__log.length] = "s1:" + __c(this) + ":" + __c(v); }, "s1");
__label(__global, "global");
__label(Object.prototype, "Object.prototype");
__label(Function.prototype, "Function.prototype");
__label(Array.prototype, "Array.prototype");
var __extra = null;
function __npart(x, n, j) {
  switch (j) {
  case 0: return __prop(x, n);
  case 1: return __c(x[n]);
  case 2: return (n in x) ? "1" : "0";
  case 3: return __hop.call(x, n) ? "1" : "0";
  case 4: return __pie.call(x, n) ? "1" : "0";
  }
}
function __tpart(x, j) {
  switch (j) {
  case 0: return __list(__keys(x));
  case 1: return __list(__gopn(x));
  case 2: return __forin(x);
  case 3: return __isFrozen(x) ? "1" : "0";
  case 4: return __isSealed(x) ? "1" : "0";
  case 5: return __isExt(x) ? "1" : "0";
  }
}
// part i of the observation of objects objs (array) over names (array)
function __part7(objs, names, i) {
  var per = names.length * 5 + 6;
  var x = objs[(i - i % per) / per], k = i % per;
  if (k < names.length * 5) return __npart(x, names[(k - k % 5) / 5], k % 5);
  return __tpart(x, k - names.length * 5);
}
// the whole observation, straight-line (same parts, same order as __part7)
function __obs7(objs, names) {
  var s = "", S = "` + partSep + `";
  for (var i = 0; i < objs.length; i++) {
    var x = objs[i];
    for (var j = 0; j < names.length; j++) {
      var n = names[j];
      s += __prop(x, n) + S + __c(x[n]) + S + ((n in x) ? "1" : "0") + S + (__hop.call(x, n) ? "1" : "0") + S + (__pie.call(x, n) ? "1" : "0") + S;
    }
    s += __list(__keys(x)) + S + __list(__gopn(x)) + S + __forin(x) + S + (__isFrozen(x) ? "1" : "0") + S + (__isSealed(x) ? "1" : "0") + S + (__isExt(x) ? "1" : "0") + S;
  }
  return s + (__extra ? __c(__extra()) : "-") + S + __takelog();
}
`

var perName = [5]string{"desc", "get", "in", "own", "enum"}
var perObj = [6]string{"keys", "names", "forin", "frozen", "sealed", "ext"}

// partNames lists the labels of the observation parts in order; the last part is the log.
func partNames(objs, names []string) []string {
	var out []string
	for _, o := range objs {
		for _, n := range names {
			for _, k := range perName {
				out = append(out, o+"."+k+":"+n)
			}
		}
		for _, k := range perObj {
			out = append(out, o+"."+k)
		}
	}
	return append(out, "extra", "log")
}

func bit(b bool) string {
	if b {
		return "1"
	}
	return "0"
}

// observe is the model's observation: the same parts in the same order (the
// order matters: reading a value may run a getter that writes the log).
func (w *world) observe(objs, names []string) []string {
	r := w.r
	var out []string
	for _, on := range objs {
		x := w.objs[on]
		xv := om.ObjV(x)
		for _, n := range names {
			out = append(out, r.PropString(x, n))
			out = append(out, r.Render(r.Get(x, n)))
			out = append(out, bit(r.HasProperty(x, n)))
			out = append(out, bit(r.HasOwnProperty(xv, om.Str(n))))
			out = append(out, bit(r.PropertyIsEnumerable(xv, om.Str(n))))
		}
		out = append(out, strings.Join(r.ObjectKeys(xv), ","))
		out = append(out, strings.Join(r.ObjectGetOwnPropertyNames(xv), ","))
		out = append(out, strings.Join(r.ForIn(x), ","))
		out = append(out, bit(r.ObjectIsFrozen(xv)), bit(r.ObjectIsSealed(xv)), bit(r.ObjectIsExtensible(xv)))
	}
	if w.formal != nil {
		out = append(out, r.Render(*w.formal))
	} else {
		out = append(out, "-")
	}
	out = append(out, strings.Join(r.Log, ","))
	r.Log = nil
	return out
}

func jsList(xs []string, quote bool) string {
	ys := make([]string, len(xs))
	for i, x := range xs {
		if quote {
			ys[i] = q(x)
		} else {
			ys[i] = x
		}
	}
	return "[" + strings.Join(ys, ",") + "]"
}

// observeImpl observes the real objects. When the observation program dies with
// a Go panic, rebuild is used to recreate the state for every single part so
// that the panicking parts are pinned down ("GO-PANIC:..." as the part's value).
func observeImpl(im *objdrv.Impl, rebuild func() bool, objs, names []string) []string {
	n := len(partNames(objs, names))
	src := fmt.Sprintf("__obs7(%s,%s)", jsList(objs, false), jsList(names, true))
	val, outcome := im.Run(src)
	if outcome == "ok" {
		parts := strings.Split(val, partSep)
		if len(parts) == n {
			return parts
		}
		out := make([]string, n)
		for i := range out {
			out[i] = "MALFORMED-OBSERVATION:" + val
		}
		return out
	}
	out := make([]string, n)
	if !strings.HasPrefix(outcome, "GO-PANIC") {
		for i := range out {
			out[i] = "ERR:" + outcome
		}
		return out
	}
	ready := false
	for i := 0; i < n-2; i++ {
		if !ready {
			im.Fresh()
			if !rebuild() {
				out[i] = "REBUILD-FAILED"
				continue
			}
			ready = true
		}
		v, oc := im.Run(fmt.Sprintf("__part7(%s,%s,%d)", jsList(objs, false), jsList(names, true), i))
		if oc == "ok" {
			out[i] = v
		} else {
			out[i] = oc
			if strings.HasPrefix(oc, "GO-PANIC") {
				ready = false // the runtime cannot be trusted after a Go panic
			}
		}
	}
	out[n-2], out[n-1] = "n/a", "n/a"
	im.Dirty = true
	return out
}

// ---- invariants asserted directly on the implementation trace ----

type pdesc struct {
	absent, accessor bool
	payload          string // value or get(..)set(..)
	w, e, c          bool
	malformed        bool
}

func parseDesc(s string) pdesc {
	i := strings.IndexByte(s, '=')
	if i < 0 {
		return pdesc{malformed: true}
	}
	s = s[i+1:]
	if s == "absent" {
		return pdesc{absent: true}
	}
	j := strings.LastIndexByte(s, ':')
	if j < 0 || len(s)-j-1 != 3 {
		return pdesc{malformed: true}
	}
	a := s[j+1:]
	d := pdesc{payload: s[:j], e: a[1] == '1', c: a[2] == '1'}
	if a[0] == 'a' {
		d.accessor = true
	} else {
		d.w = a[0] == '1'
	}
	return d
}

func dup(list string) string {
	if list == "" {
		return ""
	}
	seen := map[string]bool{}
	for _, n := range strings.Split(list, ",") {
		if seen[n] {
			return n
		}
		seen[n] = true
	}
	return ""
}

func subset(a, b string) bool {
	in := map[string]bool{}
	for _, n := range strings.Split(b, ",") {
		in[n] = true
	}
	if a == "" {
		return true
	}
	for _, n := range strings.Split(a, ",") {
		if !in[n] {
			return false
		}
	}
	return true
}

// invariants checks the statements of the property directly between two
// consecutive observations of the implementation (prev may be nil). replaced
// lists objects that were replaced by a new object in this step.
func invariants(labels []string, prev, next []string, replaced map[string]bool, deleted map[string]string) []string {
	var bad []string
	get := func(parts []string, label string) (string, bool) {
		for i, l := range labels {
			if l == label && i < len(parts) {
				return parts[i], true
			}
		}
		return "", false
	}
	for i, l := range labels {
		if i >= len(next) {
			break
		}
		dot := strings.IndexByte(l, '.')
		if dot < 0 {
			continue
		}
		obj, kind := l[:dot], l[dot+1:]
		switch {
		case kind == "keys" || kind == "names" || kind == "forin":
			if strings.HasPrefix(next[i], "GO-PANIC") || strings.HasPrefix(next[i], "ERR:") {
				continue
			}
			if d := dup(next[i]); d != "" {
				bad = append(bad, fmt.Sprintf("%s lists %q twice (%s)", l, d, next[i]))
			}
			if kind == "keys" {
				if names, ok := get(next, obj+".names"); ok && !strings.HasPrefix(names, "GO-PANIC") && !subset(next[i], names) {
					bad = append(bad, fmt.Sprintf("%s [%s] not a subset of getOwnPropertyNames [%s]", l, next[i], names))
				}
			}
			if dn, ok := deleted[obj]; ok && kind != "forin" {
				for _, n := range strings.Split(next[i], ",") {
					if n == dn {
						bad = append(bad, fmt.Sprintf("%s still lists %q after delete returned true", l, dn))
					}
				}
			}
		}
		if prev == nil || replaced[obj] || i >= len(prev) {
			continue
		}
		switch {
		case strings.HasPrefix(kind, "desc:"):
			a, b := parseDesc(prev[i]), parseDesc(next[i])
			if a.malformed || b.malformed || a.absent {
				continue
			}
			if a.c {
				continue
			}
			// non-configurable before
			switch {
			case b.absent:
				bad = append(bad, fmt.Sprintf("%s: non-configurable property was deleted (%s -> %s)", l, prev[i], next[i]))
			case a.accessor != b.accessor, a.e != b.e, b.c:
				bad = append(bad, fmt.Sprintf("%s: non-configurable property was re-shaped (%s -> %s)", l, prev[i], next[i]))
			case a.accessor && a.payload != b.payload:
				bad = append(bad, fmt.Sprintf("%s: get/set of a non-configurable accessor changed (%s -> %s)", l, prev[i], next[i]))
			case !a.accessor && !a.w && (b.w || a.payload != b.payload):
				bad = append(bad, fmt.Sprintf("%s: non-writable non-configurable value changed (%s -> %s)", l, prev[i], next[i]))
			}
		case kind == "ext":
			if prev[i] == "0" && next[i] == "1" {
				bad = append(bad, l+": non-extensible object became extensible")
			}
		case kind == "names":
			if e, ok := get(prev, obj+".ext"); ok && e == "0" && !strings.HasPrefix(next[i], "GO-PANIC") && !strings.HasPrefix(prev[i], "GO-PANIC") {
				if !subset(next[i], prev[i]) {
					bad = append(bad, fmt.Sprintf("%s: non-extensible object gained a property ([%s] -> [%s])", l, prev[i], next[i]))
				}
			}
		}
	}
	sort.Strings(bad)
	return bad
}
