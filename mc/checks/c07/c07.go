// Package c07 checks that objects obey the ES5 property model (8.10, 8.12,
// 15.2.3): explicit-state search over REAL otto objects against the reference
// model ref/objmodel. See DESIGN.md section 3, C07.
package c07

import (
	"fmt"
	"os"
	"sort"
	"strings"
	"time"

	"verif/mc/checks/c07/objdrv"
	"verif/mc/engine"
	om "verif/mc/ref/objmodel"
)

// budget returns the internal deadline; MC_BUDGET (a Go duration) overrides it
// during development on a loaded machine.
func budget(d time.Duration) time.Duration {
	if v, err := time.ParseDuration(os.Getenv("MC_BUDGET")); err == nil && v > 0 {
		return v
	}
	return d
}

func init() {
	engine.Register(&engine.Check{
		ID:    "C07",
		Title: "Objects obey the ES5 property model: attributes, inheritance, extensibility",
		Rule: "E2 explicit-state BFS: a case is one transition (model state, operation), executed by replaying the shortest agreeing path on fresh real objects plus the operation, " +
			"then comparing the operation's outcome and the full observation (own descriptor, value read, in, hasOwnProperty, propertyIsEnumerable, keys, getOwnPropertyNames, for-in, isFrozen/isSealed/isExtensible, getter/setter log) part by part with ref/objmodel. " +
			"States are deduplicated on the model state (ordered property table + extensible flag of every object) and, in the order family and (thorough tier) the slot/exotic families, additionally on the implementation's raw property table and order list read by reflection (a key only, never an oracle). " +
			"Families: samevalue (redefinition of read-only / non-configurable properties over +0, -0, NaN, 1, \"1\", two objects, ... and getter/setter identity: 8.12.9 uses SameValue), objectfn-args (non-object first argument of every 15.2.3 function), descshape (shape of the descriptor object / property map: own, inherited, getter-provided fields, non-objects; 8.10.5 and 15.2.3.7 read them with [[HasProperty]]/[[Get]]), forin-mutate (for-in whose body mutates once), creators (every syntax form / built-in that creates own properties x an obstacle of the same name on Object.prototype / Array.prototype: the own property must be defined regardless, equal to the clean twin, setter never called), order (one object, three names, put/delete histories to depth 5/6), slot (one name, all 729 descriptors, fixpoint), exotic (the slot machine on array/String/arguments/function/global receivers), chains (o -> p -> Object.prototype, names x y 0, depth 3; thorough adds depth 4 over a reduced alphabet). " +
			"A transition is trivial only when its descriptor is contradictory (accessor field together with value/writable: TypeError before the object is touched).",
		Families: []engine.Family{
			// cheap families first: when the time budget runs out the largest search is the one cut short
			{Name: "forin-mutate", Run: runForInMutate},
			{Name: "creators", Run: runCreators},
			{Name: "order", Run: runOrder},
			{Name: "descshape", Run: runDescShape},
			{Name: "objectfn-args", Run: runObjectFnArgs},
			{Name: "samevalue", Run: runSameValue},
			{Name: "slot", Run: runSlot},
			{Name: "exotic", Run: runExotic},
			{Name: "chains", Run: runChains},
		},
		Assumptions: []string{
			"ref/objmodel is a faithful transcription of ES5.1 8.10, 8.12, 10.6, 15.2.3, 15.4.5.1, 15.5.5.2 (trusted; validated against V8 at development time)",
			"enumeration order of keys/getOwnPropertyNames/for-in on ordinary objects is property creation order, own properties before inherited ones (fixed by the property statement, not by ES5)",
			"observations go through the runtime's own Object.getOwnPropertyDescriptor, in, hasOwnProperty, ... (that is the property); the harness JS uses only basic statements, no try/catch",
			"the implementation is deterministic: every worker re-derives the same BFS tree",
		},
		CrashIsViolation: true,
		QuickBudget:      budget(80 * time.Second),
		ThoroughBudget:   budget(14 * time.Minute),
	})
}

func knownPointers(im *objdrv.Impl) map[uintptr]string {
	m := map[uintptr]string{}
	if p := im.ObjectPointer("g1"); p != 0 {
		m[p] = "g1"
	}
	if p := im.ObjectPointer("s1"); p != 0 {
		m[p] = "s1"
	}
	return m
}

// slotOps is the full alphabet of the property-slot machine on (obj, name).
func slotOps(obj, name string, descs []dspec) []op {
	var ops []op
	for _, d := range descs {
		ops = append(ops, op{kind: "def", obj: obj, name: name, d: d})
	}
	ops = append(ops,
		op{kind: "put", obj: obj, name: name, v: 1}, op{kind: "put", obj: obj, name: name, v: 2},
		op{kind: "del", obj: obj, name: name},
		op{kind: "pe", obj: obj}, op{kind: "seal", obj: obj}, op{kind: "freeze", obj: obj})
	return ops
}

func plainWorld() *world {
	w := newWorld()
	w.set("o", w.r.NewObject())
	return w
}

// ---- family 1: property-slot machine, closed to fixpoint ----

func runSlot(r *engine.Run) {
	m := &machine{r: r, tag: "slot", setup: `o = {}; __extra = null; __log = []; 0`, model: plainWorld,
		objs: []string{"o"}, names: []string{"x"}, ops: slotOps("o", "x", allDescs()), hidden: r.Thorough(), known: knownPointers}
	m.run()
	r.Bound("descriptors", "3^6 = 729 (all, including contradictory)")
	r.Bound("history_length", "unbounded (fixpoint)")
	if r.Thorough() {
		r.Bound("state_identity", "model state x implementation raw property table (hidden tri-state attribute bits)")
	} else {
		r.Bound("state_identity", "model state")
	}
}

// ---- reduced descriptor alphabet: descriptors with pairwise distinct transition behaviour on the slot machine (model-only) ----

var reducedCache []dspec

func reducedDescs() []dspec {
	if reducedCache != nil {
		return reducedCache
	}
	all := allDescs()
	ops := slotOps("o", "x", all)
	type st struct{ path []op }
	states := []st{{}}
	seen := map[string]int{plainWorld().key([]string{"o"}): 0}
	sig := make([]strings.Builder, len(all))
	replay := func(path []op) *world {
		w := plainWorld()
		for _, o := range path {
			w.apply(o)
		}
		return w
	}
	for si := 0; si < len(states); si++ {
		for oi, o := range ops {
			w := replay(states[si].path)
			out := w.apply(o)
			k := w.key([]string{"o"})
			idx, ok := seen[k]
			if !ok {
				idx = len(states)
				seen[k] = idx
				states = append(states, st{append(append([]op(nil), states[si].path...), o)})
			}
			if oi < len(all) {
				fmt.Fprintf(&sig[oi], "%d:%s:%d;", si, out, idx)
			}
		}
	}
	first := map[string]int{}
	var keep []int
	for i := range all {
		s := sig[i].String()
		if _, dup := first[s]; !dup {
			first[s] = i
			keep = append(keep, i)
		}
	}
	sort.Ints(keep)
	for _, i := range keep {
		reducedCache = append(reducedCache, all[i])
	}
	return reducedCache
}

var _ = om.Undef
