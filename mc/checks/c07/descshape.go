package c07

import (
	"fmt"
	"strings"

	"verif/mc/checks/c07/objdrv"
	"verif/mc/engine"
	om "verif/mc/ref/objmodel"
)

// descshape: the SHAPE of the descriptor object handed to Object.defineProperty /
// defineProperties / create. ToPropertyDescriptor (8.10.5) reads the six fields
// with [[HasProperty]] and [[Get]]: inherited fields count, getters are called
// once each in the order enumerable, configurable, value, writable, get, set, a
// non-object is a TypeError, any object (function, array) will do. The property
// map of defineProperties/create contributes only its OWN ENUMERABLE members
// (15.2.3.7 step 3), each read with [[Get]].

var shapeFields = [6]string{"enumerable", "configurable", "value", "writable", "get", "set"}

// fieldSpec: where a field of the descriptor object lives and how it is provided.
type fieldSpec struct {
	where  int  // 0 absent, 1 own, 2 inherited from the descriptor's prototype
	getter bool // provided by a logging getter instead of a data property
	alt    bool // second value set (false / undefined) instead of (true / 1 / g1 / s1)
}

type shape [6]fieldSpec

func (s shape) id() string {
	var sb strings.Builder
	for _, f := range s {
		c := byte('-')
		switch {
		case f.where == 1 && !f.getter:
			c = 'o'
		case f.where == 2 && !f.getter:
			c = 'i'
		case f.where == 1:
			c = 'O'
		case f.where == 2:
			c = 'I'
		}
		sb.WriteByte(c)
		if f.where != 0 && f.alt {
			sb.WriteByte('~')
		}
	}
	return sb.String()
}

func fieldJS(i int, alt bool) string {
	switch shapeFields[i] {
	case "value":
		if alt {
			return "undefined"
		}
		return "1"
	case "get":
		if alt {
			return "undefined"
		}
		return "g1"
	case "set":
		if alt {
			return "undefined"
		}
		return "s1"
	}
	if alt {
		return "false"
	}
	return "true"
}

func fieldModel(w *world, i int, alt bool) om.Value {
	switch shapeFields[i] {
	case "value":
		if alt {
			return om.Undef
		}
		return om.Num(1)
	case "get":
		if alt {
			return om.Undef
		}
		return om.ObjV(w.g1)
	case "set":
		if alt {
			return om.Undef
		}
		return om.ObjV(w.s1)
	}
	return om.Boolean(!alt)
}

// js builds the descriptor object in global __d (prototype __dp).
func (s shape) js() string {
	var sb strings.Builder
	sb.WriteString("__dp = {}; __d = Object.create(__dp); ")
	for i, f := range s {
		if f.where == 0 {
			continue
		}
		holder := "__d"
		if f.where == 2 {
			holder = "__dp"
		}
		if f.getter {
			fmt.Fprintf(&sb, `Object.defineProperty(%s,%q,{get:function(){ __log[__log.length] = "d:%s"; return %s; },enumerable:true,configurable:true}); `,
				holder, shapeFields[i], shapeFields[i], fieldJS(i, f.alt))
		} else {
			fmt.Fprintf(&sb, "%s.%s = %s; ", holder, shapeFields[i], fieldJS(i, f.alt))
		}
	}
	return sb.String()
}

func (s shape) model(w *world) om.Value {
	dp := w.r.NewObject()
	d := w.r.NewObject()
	d.Proto = dp
	for i, f := range s {
		if f.where == 0 {
			continue
		}
		holder := d
		if f.where == 2 {
			holder = dp
		}
		name, v := shapeFields[i], fieldModel(w, i, f.alt)
		if f.getter {
			getter := w.r.NewFunction("", func(r *om.Realm, _ om.Value, _ []om.Value) om.Value {
				r.Log = append(r.Log, "d:"+name)
				return v
			})
			holder.Set(name, om.Desc{Get: om.ObjV(getter), HasGet: true, Set: om.Undef, HasSet: true, Enumerable: true, HasEnumerable: true, Configurable: true, HasConfigurable: true})
		} else {
			holder.Set(name, om.DataDesc(v, true, true, true))
		}
	}
	return om.ObjV(d)
}

// shapeCase is one call with its model counterpart.
type shapeCase struct {
	key   string
	setup string // JS statements: build o (and helpers)
	expr  string // JS expression under test
	names []string
	model func(w *world) func() om.Value // builds the model objects, returns the call
}

// shapeModel runs the case on the reference model (optionally with a defect-injection switch).
func shapeModel(c shapeCase, q om.Quirks) (outcome, opLog string, parts []string) {
	quirks = q
	w := newWorld()
	quirks = om.Quirks{}
	call := c.model(w)
	w.r.Log = nil
	var ret om.Value
	if t := om.Try(func() { ret = call() }); t != nil {
		outcome = t.Class
	} else {
		outcome = "ok:" + w.r.Render(ret)
	}
	opLog = strings.Join(w.r.Log, ",")
	w.r.Log = nil
	return outcome, opLog, w.observe([]string{"o"}, c.names)
}

func runShapeCase(r *engine.Run, im *objdrv.Impl, c shapeCase, fill func(aux map[string]string, w func() *world)) {
	if !r.MineKey(c.key) {
		return
	}
	objs := []string{"o"}
	labels := partNames(objs, c.names)
	expOutcome, opLog, expParts := shapeModel(c, om.Quirks{})
	// implementation
	objdrv.Begin(r, c.key)
	im.Ensure()
	_, soc := im.Run(c.setup + " __extra = null; __log = []; 0")
	val, oc := im.Run("__c(" + c.expr + ")")
	obsOutcome := oc
	if oc == "ok" {
		obsOutcome = "ok:" + val
	}
	if soc != "ok" {
		obsOutcome = "SETUP:" + soc
	}
	obsOpLog, _ := im.Run("__takelog()")
	var obsParts []string
	if strings.HasPrefix(oc, "GO-PANIC") {
		obsParts = make([]string, len(labels))
		for i := range obsParts {
			obsParts[i] = "n/a"
		}
	} else {
		obsParts = observeImpl(im, func() bool {
			if _, x := im.Run(c.setup + " __extra = null; __log = []; 0"); x != "ok" {
				return false
			}
			im.Run("__c(" + c.expr + ")")
			im.Run("__log = []; 0")
			return true
		}, objs, c.names)
	}
	objdrv.End()
	src := c.setup + "\n" + c.expr + ";   // <- operation under test\n"
	r.Eval(true)
	r.Tree(1, 1)
	r.Outcome(obsOutcome + "|" + obsOpLog + "|" + strings.Join(obsParts, "|"))
	if r.WantSample() {
		r.Sample(strings.ReplaceAll(src, "\n", " ") + " => " + obsOutcome + " ; oplog=" + obsOpLog + " ; " + strings.Join(obsParts, " | "))
	}
	type diff struct{ label, exp, obs string }
	var diffs []diff
	if expOutcome != obsOutcome {
		diffs = append(diffs, diff{"op", expOutcome, obsOutcome})
	}
	if opLog != obsOpLog && !strings.HasPrefix(oc, "GO-PANIC") {
		diffs = append(diffs, diff{"oplog", opLog, obsOpLog})
	}
	for i, l := range labels {
		if i < len(obsParts) && obsParts[i] != "n/a" && expParts[i] != obsParts[i] {
			diffs = append(diffs, diff{l, expParts[i], obsParts[i]})
		}
	}
	for _, d := range diffs {
		aux := map[string]string{"part": partKind2(d.label), "label": d.label, "tag": "descshape", "expOutcome": expOutcome, "obsOutcome": obsOutcome}
		if fill != nil {
			fill(aux, nil)
		}
		// alternative model of the known finding c07-descriptor-value-read-last
		ao, al, ap := shapeModel(c, om.Quirks{DescriptorValueLast: true})
		switch {
		case d.label == "op":
			aux["alt:value-last"] = ao
		case d.label == "oplog":
			aux["alt:value-last"] = al
		default:
			if i := indexOf(labels, d.label); i >= 0 {
				aux["alt:value-last"] = ap[i]
			}
		}
		// alternative model of the known finding c07-property-map-late-filter
		bo, bl, bp := shapeModel(c, om.Quirks{PropertyMapLateFilter: true})
		switch {
		case d.label == "op":
			aux["alt:late-filter"] = bo
		case d.label == "oplog":
			aux["alt:late-filter"] = bl
		default:
			if i := indexOf(labels, d.label); i >= 0 {
				aux["alt:late-filter"] = bp[i]
			}
		}
		debugDump(c.key+"#"+d.label, aux["part"], d.exp, d.obs)
		r.Mismatch(engine.Mismatch{Key: c.key + "#" + d.label, Input: src + "observe: " + d.label, Expected: d.exp, Observed: d.obs, Aux: aux})
	}
}

func partKind2(label string) string {
	if !strings.Contains(label, ".") {
		return label
	}
	return partKind(label)
}

func runDescShape(r *engine.Run) {
	im := objdrv.New(prelude7 + "\nvar __d, __dp, __m, __mp;\n")
	type target struct {
		id, js string
		m      func(w *world) *om.Obj
	}
	mkX := func(w *world) *om.Obj {
		o := w.r.NewObject()
		w.r.Put(o, "x", om.Num(1), false)
		return o
	}
	targets := []target{
		{"fresh", "o = {};", func(w *world) *om.Obj { return w.r.NewObject() }},
		{"data-x", "o = {x:1};", mkX},
		{"sealed-x", "o = {x:1}; Object.seal(o);", func(w *world) *om.Obj { o := mkX(w); w.r.ObjectSeal(om.ObjV(o)); return o }},
	}
	defCase := func(t target, id, djs string, dm func(w *world) om.Value) shapeCase {
		return shapeCase{key: "define/" + t.id + "/" + id, setup: t.js + " " + djs, expr: `Object.defineProperty(o,"x",__d) === o`, names: []string{"x"},
			model: func(w *world) func() om.Value {
				o := w.set("o", t.m(w))
				d := dm(w)
				return func() om.Value {
					return om.Boolean(om.SameValue(w.r.ObjectDefineProperty(om.ObjV(o), om.Str("x"), d), om.ObjV(o)))
				}
			}}
	}
	// (1) placement of the six fields: absent / own / inherited, two value sets
	n := 0
	for _, alt := range []bool{false, true} {
		for code := 0; code < 729; code++ {
			var s shape
			c := code
			for i := range s {
				s[i] = fieldSpec{where: c % 3, alt: alt}
				c /= 3
			}
			for _, t := range targets {
				s := s
				runShapeCase(r, im, defCase(t, s.id(), s.js(), s.model), nil)
				n++
			}
		}
	}
	// (2) fields provided by getters (own / inherited / alternating), for the chain descriptor alphabet
	for _, d := range chainDescs() {
		for variant := 0; variant < 3; variant++ {
			for _, alt := range []bool{false, true} {
				var s shape
				// dspec field order: value writable enumerable configurable get set
				pos := map[string]int{"value": 0, "writable": 1, "enumerable": 2, "configurable": 3, "get": 4, "set": 5}
				for i, f := range shapeFields {
					if d[pos[f]] == 0 {
						continue
					}
					where := 1
					if variant == 1 || (variant == 2 && i%2 == 1) {
						where = 2
					}
					s[i] = fieldSpec{where: where, getter: true, alt: alt}
				}
				for _, t := range targets {
					s := s
					runShapeCase(r, im, defCase(t, "getters:"+s.id(), s.js(), s.model), nil)
					n++
				}
			}
		}
	}
	// (3) descriptors that are not plain objects
	type odd struct {
		id, js string
		m      func(w *world) om.Value
	}
	odds := []odd{
		{"undefined", "__d = undefined;", func(w *world) om.Value { return om.Undef }},
		{"null", "__d = null;", func(w *world) om.Value { return om.NullV }},
		{"number", "__d = 1;", func(w *world) om.Value { return om.Num(1) }},
		{"string", `__d = "value";`, func(w *world) om.Value { return om.Str("value") }},
		{"boolean", "__d = true;", func(w *world) om.Value { return om.TrueV }},
		{"function", "__d = function(){}; __d.value = 3; __d.enumerable = true;", func(w *world) om.Value {
			f := w.r.NewScriptFunction("", 0, func(*om.Realm, om.Value, []om.Value) om.Value { return om.Undef })
			w.r.Put(f, "value", om.Num(3), false)
			w.r.Put(f, "enumerable", om.TrueV, false)
			return om.ObjV(f)
		}},
		{"function-plain", "__d = function(){};", func(w *world) om.Value {
			return om.ObjV(w.r.NewScriptFunction("", 0, func(*om.Realm, om.Value, []om.Value) om.Value { return om.Undef }))
		}},
		{"array", "__d = [7]; __d.value = 3; __d.writable = true;", func(w *world) om.Value {
			a := w.r.NewArrayFrom([]om.Value{om.Num(7)})
			w.r.Put(a, "value", om.Num(3), false)
			w.r.Put(a, "writable", om.TrueV, false)
			return om.ObjV(a)
		}},
		{"array-inherited-from-Array.prototype", "__d = [];", func(w *world) om.Value { return om.ObjV(w.r.NewArrayFrom(nil)) }},
		{"String-object", `__d = new String("ab"); __d.get = g1;`, func(w *world) om.Value {
			s := w.r.NewStringObject("ab")
			w.r.Put(s, "get", om.ObjV(w.g1), false)
			return om.ObjV(s)
		}},
		{"get-not-callable", "__d = {get:1};", func(w *world) om.Value {
			d := w.r.NewObject()
			w.r.Put(d, "get", om.Num(1), false)
			return om.ObjV(d)
		}},
		{"set-not-callable-inherited", "__d = Object.create({set:{}});", func(w *world) om.Value {
			p := w.r.NewObject()
			w.r.Put(p, "set", om.ObjV(w.r.NewObject()), false)
			d := w.r.NewObject()
			d.Proto = p
			return om.ObjV(d)
		}},
	}
	for _, o := range odds {
		for _, t := range targets {
			o := o
			runShapeCase(r, im, defCase(t, "odd:"+o.id, o.js, o.m), nil)
			n++
		}
	}
	// (4) the property map of defineProperties / create: only own enumerable members, read with [[Get]]
	type pmap struct {
		id, js string
		m      func(w *world) om.Value
	}
	lit := func(w *world, fields map[string]om.Value) om.Value {
		d := w.r.NewObject()
		for _, f := range []string{"value", "writable", "enumerable", "configurable", "get", "set"} {
			if v, ok := fields[f]; ok {
				w.r.Put(d, f, v, false)
			}
		}
		return om.ObjV(d)
	}
	val := func(n float64) map[string]om.Value {
		return map[string]om.Value{"value": om.Num(n), "enumerable": om.TrueV}
	}
	// a property map whose member a is read through a getter that mutates the map before b's turn
	mutatingMap := func(w *world, mutate func(m *om.Obj)) om.Value {
		m := w.r.NewObject()
		getter := w.r.NewFunction("", func(r *om.Realm, _ om.Value, _ []om.Value) om.Value {
			r.Log = append(r.Log, "m:a")
			mutate(m)
			return lit(w, val(1))
		})
		m.Set("a", om.Desc{Get: om.ObjV(getter), HasGet: true, HasSet: true, Enumerable: true, HasEnumerable: true, Configurable: true, HasConfigurable: true})
		w.r.Put(m, "b", lit(w, val(2)), false)
		return om.ObjV(m)
	}
	maps := []pmap{
		{"own", "__m = {a:{value:1,enumerable:true}, b:{value:2,enumerable:true}};", func(w *world) om.Value {
			m := w.r.NewObject()
			w.r.Put(m, "a", lit(w, val(1)), false)
			w.r.Put(m, "b", lit(w, val(2)), false)
			return om.ObjV(m)
		}},
		{"inherited-member-ignored", "__mp = {b:{value:2,enumerable:true}}; __m = Object.create(__mp); __m.a = {value:1,enumerable:true};", func(w *world) om.Value {
			mp := w.r.NewObject()
			w.r.Put(mp, "b", lit(w, val(2)), false)
			m := w.r.NewObject()
			m.Proto = mp
			w.r.Put(m, "a", lit(w, val(1)), false)
			return om.ObjV(m)
		}},
		{"non-enumerable-member-ignored", `__m = {a:{value:1,enumerable:true}}; Object.defineProperty(__m,"b",{value:{value:2,enumerable:true},enumerable:false});`, func(w *world) om.Value {
			m := w.r.NewObject()
			w.r.Put(m, "a", lit(w, val(1)), false)
			m.Set("b", om.DataDesc(lit(w, val(2)), false, false, false))
			return om.ObjV(m)
		}},
		{"malformed-non-enumerable-member-ignored", `__m = {a:{value:1,enumerable:true}}; Object.defineProperty(__m,"b",{value:{value:2,get:g1},enumerable:false});`, func(w *world) om.Value {
			m := w.r.NewObject()
			w.r.Put(m, "a", lit(w, val(1)), false)
			m.Set("b", om.DataDesc(lit(w, map[string]om.Value{"value": om.Num(2), "get": om.ObjV(w.g1)}), false, false, false))
			return om.ObjV(m)
		}},
		{"member-descriptor-with-inherited-fields", `__dp = {enumerable:true, writable:true}; __d = Object.create(__dp); __d.value = 1; __m = {a:__d, b:Object.create({get:g1, enumerable:true})};`, func(w *world) om.Value {
			dp := w.r.NewObject()
			w.r.Put(dp, "enumerable", om.TrueV, false)
			w.r.Put(dp, "writable", om.TrueV, false)
			d := w.r.NewObject()
			d.Proto = dp
			w.r.Put(d, "value", om.Num(1), false)
			bp := w.r.NewObject()
			w.r.Put(bp, "get", om.ObjV(w.g1), false)
			w.r.Put(bp, "enumerable", om.TrueV, false)
			b := w.r.NewObject()
			b.Proto = bp
			m := w.r.NewObject()
			w.r.Put(m, "a", om.ObjV(d), false)
			w.r.Put(m, "b", om.ObjV(b), false)
			return om.ObjV(m)
		}},
		{"member-read-through-getter", `__m = {}; Object.defineProperty(__m,"a",{get:function(){ __log[__log.length] = "m:a"; return {value:1,enumerable:true}; },enumerable:true}); __m.b = {value:2,enumerable:true};`, func(w *world) om.Value {
			m := w.r.NewObject()
			getter := w.r.NewFunction("", func(r *om.Realm, _ om.Value, _ []om.Value) om.Value {
				r.Log = append(r.Log, "m:a")
				return lit(w, val(1))
			})
			m.Set("a", om.Desc{Get: om.ObjV(getter), HasGet: true, HasSet: true, Enumerable: true, HasEnumerable: true, HasConfigurable: true})
			w.r.Put(m, "b", lit(w, val(2)), false)
			return om.ObjV(m)
		}},
		{"member-not-an-object", `__m = {a:{value:1,enumerable:true}, b:1};`, func(w *world) om.Value {
			m := w.r.NewObject()
			w.r.Put(m, "a", lit(w, val(1)), false)
			w.r.Put(m, "b", om.Num(1), false)
			return om.ObjV(m)
		}},
		{"getter-deletes-later-name", `__m = {}; Object.defineProperty(__m,"a",{get:function(){ __log[__log.length] = "m:a"; delete __m.b; return {value:1,enumerable:true}; },enumerable:true,configurable:true}); __m.b = {value:2,enumerable:true};`, func(w *world) om.Value {
			return mutatingMap(w, func(m *om.Obj) { w.r.Delete(m, "b", false) })
		}},
		{"getter-adds-a-name", `__m = {}; Object.defineProperty(__m,"a",{get:function(){ __log[__log.length] = "m:a"; __m.c = {value:3,enumerable:true}; return {value:1,enumerable:true}; },enumerable:true,configurable:true}); __m.b = {value:2,enumerable:true};`, func(w *world) om.Value {
			return mutatingMap(w, func(m *om.Obj) {
				w.r.Put(m, "c", lit(w, map[string]om.Value{"value": om.Num(3), "enumerable": om.TrueV}), false)
			})
		}},
		{"getter-hides-later-name", `__m = {}; Object.defineProperty(__m,"a",{get:function(){ __log[__log.length] = "m:a"; Object.defineProperty(__m,"b",{enumerable:false}); return {value:1,enumerable:true}; },enumerable:true,configurable:true}); __m.b = {value:2,enumerable:true};`, func(w *world) om.Value {
			return mutatingMap(w, func(m *om.Obj) {
				w.r.DefineOwnProperty(m, "b", om.Desc{Enumerable: false, HasEnumerable: true}, false)
			})
		}},
		{"map-is-array", `__m = [{value:1,enumerable:true}]; __m.a = {value:2,enumerable:true};`, func(w *world) om.Value {
			m := w.r.NewArrayFrom([]om.Value{lit(w, val(1))})
			w.r.Put(m, "a", lit(w, val(2)), false)
			return om.ObjV(m)
		}},
		{"map-is-string", `__m = "ab";`, func(w *world) om.Value { return om.Str("ab") }},
		{"map-undefined", `__m = undefined;`, func(w *world) om.Value { return om.Undef }},
		{"map-null", `__m = null;`, func(w *world) om.Value { return om.NullV }},
		{"map-number", `__m = 1;`, func(w *world) om.Value { return om.Num(1) }},
	}
	mapNames := []string{"a", "b", "c", "0", "length"}
	for _, pm := range maps {
		pm := pm
		runShapeCase(r, im, shapeCase{key: "defineProperties/" + pm.id, setup: "o = {}; " + pm.js, expr: "Object.defineProperties(o,__m) === o", names: mapNames,
			model: func(w *world) func() om.Value {
				o := w.set("o", w.r.NewObject())
				m := pm.m(w)
				return func() om.Value {
					return om.Boolean(om.SameValue(w.r.ObjectDefineProperties(om.ObjV(o), m), om.ObjV(o)))
				}
			}}, nil)
		for _, proto := range []string{"null", "p"} {
			proto := proto
			runShapeCase(r, im, shapeCase{key: "create(" + proto + ")/" + pm.id, setup: "p = {}; o = {}; " + pm.js, expr: "(o = Object.create(" + proto + ",__m), true)", names: mapNames,
				model: func(w *world) func() om.Value {
					p := w.set("p", w.r.NewObject())
					w.set("o", w.r.NewObject())
					m := pm.m(w)
					return func() om.Value {
						pv := om.NullV
						if proto == "p" {
							pv = om.ObjV(p)
						}
						w.set("o", w.r.ObjectCreate(pv, m).O)
						return om.TrueV
					}
				}}, nil)
			n += 2
		}
	}
	r.Bound("descriptor_shapes", "3^6 placements (absent/own/inherited) x 2 value sets; getter-provided fields (own/inherited/alternating) for the 27 chain descriptors x 2 value sets; 12 non-plain descriptors; 12 property maps x defineProperties/create(null)/create(p)")
	r.Bound("targets", "fresh {}, {x:1}, sealed {x:1}")
	_ = n
}
