package c05

import (
	"fmt"
	"sort"
	"strings"

	"github.com/robertkrimen/otto"

	"verif/mc/engine"
	"verif/mc/ox"
	"verif/mc/ref/conv"
)

var sides = []string{"a", "b", "c"}

// harness owns one reused runtime with every value of V instantiated in it.
// Nothing the cases do mutates global state (operands are arguments of
// precompiled pure functions; scripted methods only append to the Go-side log),
// so the runtime is reused; it is replaced after a Go panic or an error the
// model did not predict.
type harness struct {
	thorough bool
	V        []*val
	shared   *sharedModel
	models   map[string][]conv.Value // side -> model value per V index
	vm       *otto.Otto
	real     map[string][]otto.Value // side -> real value per V index
	fns      map[string]otto.Value
	log      []string
	out      []string
	rebuilds int
	buildErr string
}

func newHarness(thorough bool) *harness {
	h := &harness{thorough: thorough, V: buildV(thorough)}
	h.shared = &sharedModel{p0: &conv.Obj{ID: "P0", Class: "Object"}}
	h.models = map[string][]conv.Value{}
	for _, side := range sides {
		l := make([]conv.Value, len(h.V))
		var fn *conv.Obj
		for i, v := range h.V {
			if !v.isObj() {
				l[i] = v.m
				continue
			}
			o := v.obj.model(side, h.shared)
			if v.obj.special == "fn" {
				fn = o
			}
			if v.obj.special == "bound" {
				o.BoundTarget = fn
			}
			l[i] = conv.ObjectOf(o)
		}
		h.models[side] = l
	}
	h.rebuild()
	return h
}

const prelude = `var __P0 = {}; var __F_a, __F_b, __F_c;`

// rebuild replaces the runtime and re-instantiates every value.
func (h *harness) rebuild() {
	h.rebuilds++
	h.buildErr = ""
	vm := otto.New()
	h.vm = vm
	h.fns = map[string]otto.Value{}
	vm.Set("__log", func(call otto.FunctionCall) otto.Value {
		h.log = append(h.log, call.Argument(0).String())
		return otto.Value{}
	})
	vm.Set("__out", func(call otto.FunctionCall) otto.Value {
		h.out = append(h.out, h.canon(call.Argument(0)))
		return otto.Value{}
	})
	if _, err := vm.Run(prelude + dynPrelude); err != nil {
		h.buildErr = "prelude: " + err.Error()
		return
	}
	h.real = map[string][]otto.Value{}
	prims := make([]otto.Value, len(h.V))
	for i, v := range h.V {
		if v.isObj() {
			continue
		}
		rv, err := h.inject(v)
		if err != nil {
			h.buildErr = fmt.Sprintf("inject %s: %v", v.name, err)
			return
		}
		prims[i] = rv
	}
	for _, side := range sides {
		l := make([]otto.Value, len(h.V))
		copy(l, prims)
		for i, v := range h.V {
			if !v.isObj() {
				continue
			}
			res := ox.Run(vm, v.obj.js(side))
			if res.Panicked || res.Err != nil {
				h.buildErr = fmt.Sprintf("object %s.%s: %v %v", side, v.name, res.Err, res.PanicVal)
				return
			}
			l[i] = res.Value
		}
		h.real[side] = l
	}
}

// inject delivers a primitive of V to the runtime by its carrier.
func (h *harness) inject(v *val) (otto.Value, error) {
	switch {
	case v.name == "undefined":
		return otto.UndefinedValue(), nil
	case v.name == "null":
		return otto.NullValue(), nil
	case v.carrier == "lit" || v.carrier == "u16":
		res := ox.Run(h.vm, v.src)
		if res.Panicked {
			return otto.Value{}, fmt.Errorf("panic: %v", res.PanicVal)
		}
		return res.Value, res.Err
	}
	// through Otto.Set (the embedding API the property names), read back with Otto.Get
	if err := h.vm.Set("__t", v.goVal); err != nil {
		return otto.Value{}, err
	}
	return h.vm.Get("__t")
}

// fn returns the compiled function for a source text (compiled once per runtime).
func (h *harness) fn(src string) otto.Value {
	if f, ok := h.fns[src]; ok {
		return f
	}
	res := ox.Run(h.vm, "("+src+")")
	if res.Panicked || res.Err != nil || !res.Value.IsFunction() {
		panic(fmt.Sprintf("c05: cannot compile %q: %v %v", src, res.Err, res.PanicVal))
	}
	h.fns[src] = res.Value
	return res.Value
}

// canon renders a real value canonically (objects by their __id tag).
func (h *harness) canon(v otto.Value) string {
	if v.IsObject() {
		id, err := v.Object().Get("__id")
		if err == nil && id.IsString() {
			return "o:" + id.String()
		}
		return "o:?" + v.Class()
	}
	return ox.Canon(v)
}

// outcome is what one execution produced.
type outcome struct {
	text     string // canonical rendering: result or throw class, log, extra outputs
	panicked bool
	threw    string
}

func render(result string, log []string, out []string) string {
	s := result + " log=[" + strings.Join(log, ",") + "]"
	if len(out) > 0 {
		s += " out=[" + strings.Join(out, ",") + "]"
	}
	return s
}

// run executes f guarded and renders the outcome.
func (h *harness) run(f func() (otto.Value, error)) outcome {
	h.log = h.log[:0]
	h.out = h.out[:0]
	res := ox.Guard(f)
	switch {
	case res.Panicked:
		return outcome{text: render(fmt.Sprintf("panic:%v", res.PanicVal), h.log, h.out), panicked: true}
	case res.Err != nil:
		cls := ox.ErrClass(res.Err)
		return outcome{text: render("throw:"+cls, h.log, h.out), threw: cls}
	}
	return outcome{text: render(h.canon(res.Value), h.log, h.out)}
}

// call applies a compiled function to arguments.
func (h *harness) call(src string, args ...otto.Value) outcome {
	f := h.fn(src)
	ia := make([]interface{}, len(args))
	for i, a := range args {
		ia[i] = a
	}
	return h.run(func() (otto.Value, error) { return f.Call(otto.UndefinedValue(), ia...) })
}

// expected renders a model outcome the same way.
func expected(v conv.Value, th *conv.Thrown, c *conv.Ctx, out ...string) string {
	if th != nil {
		return render("throw:"+th.Class, c.Log, out)
	}
	return render(canonModel(v), c.Log, out)
}

// ---- known-finding quirks ----------------------------------------------------

type quirk struct {
	sig string
	set func(q *conv.Quirks)
}

var allQuirks = []quirk{
	{"c05-int32-via-int64", func(q *conv.Quirks) { q.Int32ViaInt64 = true }},
	{"c05-tonumber-strconv", func(q *conv.Quirks) { q.StrconvNumber = true }},
	{"c05-exact-int-string", func(q *conv.Quirks) { q.ExactIntString = true }},
	{"c05-plus-left-first", func(q *conv.Quirks) { q.PlusLeftFirst = true }},
	{"c05-compound-late-left", func(q *conv.Quirks) { q.CompoundLateLeft = true }},
	{"c05-string-less-codepoint", func(q *conv.Quirks) { q.StringLessByCodePoint = true }},
	{"c05-bound-own-prototype", func(q *conv.Quirks) { q.BoundOwnPrototype = true }},
	{"c05-string-index-parseint", func(q *conv.Quirks) { q.StringIndexParseInt = true }},
	{"c05-lone-surrogate-fffd", func(q *conv.Quirks) { q.LoneSurrogateFFFD = true }},
}

// openQuirks: the alternative behaviours that have an open known finding.
func openQuirks() []quirk {
	open := map[string]bool{}
	for _, f := range engine.KnownFor("C05") {
		if f.Status == "open" && f.Signature != "" {
			open[f.Signature] = true
		}
	}
	var l []quirk
	for _, q := range allQuirks {
		if open[q.sig] {
			l = append(l, q)
		}
	}
	return l
}

// explain looks for the smallest set of open quirks under which the model
// reproduces the observation; the result goes to Mismatch.Aux for the signatures.
func explain(obs string, eval func(q conv.Quirks) string) map[string]string {
	qs := openQuirks()
	n := len(qs)
	var masks []int
	for m := 1; m < 1<<n; m++ {
		masks = append(masks, m)
	}
	sort.SliceStable(masks, func(i, j int) bool { return popcount(masks[i]) < popcount(masks[j]) })
	for _, m := range masks {
		if popcount(m) > 3 {
			break
		}
		var q conv.Quirks
		var names []string
		for i := 0; i < n; i++ {
			if m&(1<<i) != 0 {
				qs[i].set(&q)
				names = append(names, qs[i].sig)
			}
		}
		if alt := eval(q); alt == obs {
			return map[string]string{"quirks": strings.Join(names, "+"), "alt": alt}
		}
	}
	return nil
}

func popcount(m int) int {
	n := 0
	for ; m != 0; m &= m - 1 {
		n++
	}
	return n
}

func init() {
	for _, q := range allQuirks {
		sig := q.sig
		// Accepts exactly: the observation equals the reference model run with this
		// deviation switched on (possibly together with other deviations that have an
		// open finding of their own) and differs from the ES5 expectation.
		engine.RegisterSignature(sig, func(m *engine.Mismatch) bool {
			if m.Aux == nil || m.Aux["alt"] != m.Observed || m.Observed == m.Expected {
				return false
			}
			for _, n := range strings.Split(m.Aux["quirks"], "+") {
				if n == sig {
					return true
				}
			}
			return false
		})
	}
}

// report files a case: compares, and on mismatch attaches the explanation.
func report(r *engine.Run, h *harness, key, input, exp string, obs outcome, eval func(q conv.Quirks) string) {
	r.Outcome(obs.text)
	if r.WantSample() {
		r.Sample(input + " => " + obs.text)
	}
	if exp == obs.text {
		return
	}
	m := engine.Mismatch{Key: key, Input: input, Expected: exp, Observed: obs.text}
	if eval != nil {
		m.Aux = explain(obs.text, eval)
	}
	r.Mismatch(m)
	// replace the runtime after a panic or an error the model did not predict
	if obs.panicked || (obs.threw != "" && !strings.HasPrefix(exp, "throw:"+obs.threw+" ")) {
		h.rebuild()
	}
}
