package c05

import (
	"fmt"
	"strings"

	"github.com/robertkrimen/otto"

	"verif/mc/engine"
	"verif/mc/ox"
	"verif/mc/ref/conv"
)

// Dynamic conversion methods (second half of the toprim family): valueOf/toString
// defined as accessor properties (logging getters returning a function, undefined,
// a non-callable value, or throwing), defined on the prototype (data or accessor), and
// method bodies that replace / delete / blank / re-define as accessor the OTHER
// method (or themselves) while the conversion is running. 8.12.8 performs
// [[Get]] of the second method only if and when the first one was not callable or
// returned an object, so the log shows exactly which reads happened and a stale
// pre-fetched method is visible in the result.

type dynSlot struct {
	name  string
	proto bool
	m     conv.Method
}

var effNames = map[conv.Effect]string{conv.EffNone: "", conv.EffReplaceOther: "+replaceOther", conv.EffDeleteOther: "+deleteOther",
	conv.EffUndefOther: "+undefOther", conv.EffAccessorOther: "+accessorOther", conv.EffReplaceSelf: "+replaceSelf", conv.EffDeleteSelf: "+deleteSelf"}

// dynSlots enumerates the slot shapes for one method name. withEffects selects the
// shapes whose function body mutates the object; reduced is the quick-tier subset
// used for the non-plain carriers; protoOK says whether the carrier's prototype may
// carry a slot (not for arguments objects, whose prototype is Object.prototype itself).
func dynSlots(method string, withEffects, reduced, protoOK bool) []dynSlot {
	pv := conv.Num(7)
	if method == "toString" {
		pv = conv.Str("12")
	}
	var out []dynSlot
	type access struct {
		name       string
		proto, acc bool
	}
	accesses := []access{{"data", false, false}, {"getter", false, true}, {"protodata", true, false}, {"protogetter", true, true}}
	if !withEffects {
		// "default": no slot anywhere, the built-in conversion method of the carrier's class runs
		out = append(out, dynSlot{name: "default"})
	}
	for _, a := range accesses {
		if a.proto && !protoOK {
			continue
		}
		label := ""
		if a.proto {
			label = "@proto"
		}
		mk := func(n string, m conv.Method) {
			m.Acc, m.Label = a.acc, label
			out = append(out, dynSlot{name: a.name + ":" + n, proto: a.proto, m: m})
		}
		if !withEffects {
			mk("prim", conv.Method{R: conv.RetPrim, V: pv})
			if reduced && a.acc {
				continue
			}
			mk("obj", conv.Method{R: conv.RetObj})
			mk("throw", conv.Method{R: conv.Throws})
			mk("undefined", conv.Method{R: conv.Absent})
			mk("noncallable", conv.Method{R: conv.NonCallable})
			if a.acc {
				mk("getthrows", conv.Method{R: conv.Absent, GetThrows: true})
			}
			continue
		}
		if reduced {
			if !a.proto && !a.acc {
				mk("obj"+effNames[conv.EffDeleteOther], conv.Method{R: conv.RetObj, Eff: conv.EffDeleteOther})
				mk("obj"+effNames[conv.EffReplaceOther], conv.Method{R: conv.RetObj, Eff: conv.EffReplaceOther})
			}
			continue
		}
		for _, e := range []conv.Effect{conv.EffReplaceOther, conv.EffDeleteOther, conv.EffUndefOther, conv.EffAccessorOther, conv.EffReplaceSelf, conv.EffDeleteSelf} {
			mk("obj"+effNames[e], conv.Method{R: conv.RetObj, Eff: e})
			mk("prim"+effNames[e], conv.Method{R: conv.RetPrim, V: pv, Eff: e})
		}
	}
	return out
}

// dynCarrier is the kind of object that carries the conversion methods.
type dynCarrier struct {
	name    string
	class   string
	ctor    string // creates o; may use P (the private prototype of the plain carriers)
	proto   string // expression of the object's prototype ("" = no prototype slots); shared built-in prototypes are saved and restored
	shared  bool
	prim    *conv.Value // built-in valueOf result (nil: the object itself)
	str     string      // built-in toString result
	unknown bool        // built-in toString is implementation-defined text: cases that reach it are skipped
	none    bool        // no built-in conversion methods at all (Object.create(null) chain)
}

func dynCarriers() []dynCarrier {
	n1, sx, bf, d0 := conv.Num(1), conv.Str("x"), conv.Boolean(false), conv.Num(0)
	return []dynCarrier{
		{name: "Object", class: "Object", ctor: "Object.create(P)", proto: "P", str: "[object Object]"},
		{name: "Null", class: "Object", ctor: "Object.create(P)", proto: "P", none: true},
		{name: "Array", class: "Array", ctor: "[5]", proto: "Array.prototype", shared: true, str: "5"},
		{name: "Function", class: "Function", ctor: "function(){}", proto: "Function.prototype", shared: true, unknown: true},
		{name: "Date", class: "Date", ctor: "new Date(0)", proto: "Date.prototype", shared: true, prim: &d0, unknown: true},
		{name: "Number", class: "Number", ctor: "new Number(1)", proto: "Number.prototype", shared: true, prim: &n1, str: "1"},
		{name: "String", class: "String", ctor: "new String(\"x\")", proto: "String.prototype", shared: true, prim: &sx, str: "x"},
		{name: "Boolean", class: "Boolean", ctor: "new Boolean(false)", proto: "Boolean.prototype", shared: true, prim: &bf, str: "false"},
		{name: "RegExp", class: "RegExp", ctor: "/a/", proto: "RegExp.prototype", shared: true, str: "/a/"},
		{name: "Error", class: "Error", ctor: "new Error(\"m\")", proto: "Error.prototype", shared: true, str: "Error: m"},
		{name: "Arguments", class: "Arguments", ctor: "(function(){ return arguments })(1)", str: "[object Arguments]"},
	}
}

type dynSpec struct {
	name   string
	car    *dynCarrier
	vo, ts dynSlot
}

// restores reports whether the case installs a slot on a shared built-in prototype.
func (s *dynSpec) restores() bool { return s.car.shared && (s.vo.proto || s.ts.proto) }

func (s *dynSpec) model(id string) *conv.Obj {
	o := &conv.Obj{ID: id, Class: s.car.class, Prim: s.car.prim, BuiltinStr: s.car.str, UnknownStr: s.car.unknown, NoBuiltin: s.car.none,
		Names: map[string]bool{"__id": true}}
	if s.vo.proto {
		o.ProtoValueOf = s.vo.m
	} else {
		o.ValueOf = s.vo.m
	}
	if s.ts.proto {
		o.ProtoToString = s.ts.m
	} else {
		o.ToString = s.ts.m
	}
	return o
}

func lateFn(id, name string) string {
	return fmt.Sprintf("function(){ __log(%q); return \"late\" }", id+"."+name+"*")
}

func effectJS(id, name string, e conv.Effect) string {
	oth := "toString"
	if name == "toString" {
		oth = "valueOf"
	}
	data := func(target, val string) string {
		return fmt.Sprintf("Object.defineProperty(this, %q, {value: %s, writable: true, enumerable: true, configurable: true});", target, val)
	}
	switch e {
	case conv.EffReplaceOther:
		return data(oth, lateFn(id, oth))
	case conv.EffDeleteOther:
		return fmt.Sprintf("delete this[%q];", oth)
	case conv.EffUndefOther:
		return data(oth, "undefined")
	case conv.EffAccessorOther:
		return fmt.Sprintf("Object.defineProperty(this, %q, {get: function(){ __log(%q); return %s }, enumerable: true, configurable: true});", oth, id+".get "+oth+"*", lateFn(id, oth))
	case conv.EffReplaceSelf:
		return data(name, lateFn(id, name))
	case conv.EffDeleteSelf:
		return fmt.Sprintf("delete this[%q];", name)
	}
	return ""
}

func slotJS(id, name string, sl dynSlot, car *dynCarrier) string {
	if sl.name == "default" {
		return ""
	}
	target, save := "o", ""
	if sl.proto {
		target = "Q"
		if car.shared {
			save = fmt.Sprintf("__save(Q, %q);", name)
		}
	}
	m := sl.m
	var val string
	switch m.R {
	case conv.Absent:
		val = "undefined"
	case conv.NonCallable:
		val = "1"
	default:
		body := fmt.Sprintf("__log(%q); %s ", id+"."+name+m.Label, effectJS(id, name, m.Eff))
		switch m.R {
		case conv.RetPrim:
			body += "return " + jsPrim(m.V)
		case conv.RetObj:
			body += "return {}"
		case conv.Throws:
			body += "throw new EvalError(\"user\")"
		}
		val = "function(){ " + body + " }"
	}
	if !m.Acc {
		return save + fmt.Sprintf("Object.defineProperty(%s, %q, {value: %s, writable: true, enumerable: true, configurable: true});", target, name, val)
	}
	get := fmt.Sprintf("__log(%q); ", id+".get "+name+m.Label)
	if m.GetThrows {
		get += "throw new EvalError(\"user\")"
	} else {
		get += "return " + val
	}
	return save + fmt.Sprintf("Object.defineProperty(%s, %q, {get: function(){ %s }, enumerable: true, configurable: true});", target, name, get)
}

func (s *dynSpec) js(id string) string {
	var sb strings.Builder
	sb.WriteString("(function(){ var P = ")
	if s.car.none {
		sb.WriteString("Object.create(null);")
	} else {
		sb.WriteString("{};")
	}
	sb.WriteString(" var o = " + s.car.ctor + ";")
	if s.car.proto != "" {
		sb.WriteString(" var Q = " + s.car.proto + ";")
	}
	fmt.Fprintf(&sb, "o.__id = %q;", id)
	sb.WriteString(slotJS(id, "valueOf", s.vo, s.car))
	sb.WriteString(slotJS(id, "toString", s.ts, s.car))
	sb.WriteString("return o })()")
	return sb.String()
}

// dynPrelude: save/restore of properties of shared built-in prototypes.
const dynPrelude = `var __saved = [];
function __save(T, n){ __saved.push([T, n, Object.getOwnPropertyDescriptor(T, n)]) }
function __restore(){ while (__saved.length) { var s = __saved.pop(); if (s[2]) Object.defineProperty(s[0], s[1], s[2]); else delete s[0][s[1]] } return "ok" }
`

// dynSpecs: per carrier (all plain shapes)^2, plus every mutating shape of one method
// against every plain shape of the other. The quick tier enumerates the plain-object
// carrier in full and the other carriers with the reduced shape set.
func dynSpecs(thorough bool) []dynSpec {
	var out []dynSpec
	cars := dynCarriers()
	for ci := range cars {
		car := &cars[ci]
		reduced := !thorough && car.name != "Object"
		protoOK := car.proto != ""
		voPlain, tsPlain := dynSlots("valueOf", false, reduced, protoOK), dynSlots("toString", false, reduced, protoOK)
		voEff, tsEff := dynSlots("valueOf", true, reduced, protoOK), dynSlots("toString", true, reduced, protoOK)
		add := func(vo, ts dynSlot) {
			out = append(out, dynSpec{name: "dyn/" + car.name + "/" + vo.name + "/" + ts.name, car: car, vo: vo, ts: ts})
		}
		for _, vo := range voPlain {
			for _, ts := range tsPlain {
				add(vo, ts)
			}
		}
		for _, vo := range voEff {
			for _, ts := range tsPlain {
				add(vo, ts)
			}
		}
		for _, vo := range voPlain {
			for _, ts := range tsEff {
				add(vo, ts)
			}
		}
	}
	return out
}

func runToPrimDyn(r *engine.Run, h *harness, plainIdx int) {
	specs := dynSpecs(r.Thorough())
	r.Bound("dynamic_objects", fmt.Sprint(len(specs)))
	r.Bound("carriers", fmt.Sprint(len(dynCarriers())))
	for si := range specs {
		spec := &specs[si]
		if r.Expired() {
			r.Cap("time budget reached in toprim (dynamic methods)")
			return
		}
		for ci := range primContexts {
			pc := &primContexts[ci]
			key := spec.name + "|" + pc.name
			if !r.MineKey(key) {
				continue
			}
			r.Tree(1, 1)
			pm := h.models["b"][plainIdx]
			unknown := false
			eval := func(q conv.Quirks) string {
				c := &conv.Ctx{Q: q}
				v, th := pc.f(c, conv.ObjectOf(spec.model("a")), pm)
				unknown = c.Unknown
				return expected(v, th, c)
			}
			exp := eval(conv.Quirks{})
			if unknown {
				r.Skip() // the conversion reaches implementation-defined text (Function/Date toString)
				continue
			}
			// a fresh object per case: the methods mutate it
			res := ox.Run(h.vm, spec.js("a"))
			if res.Panicked || res.Err != nil {
				r.Mismatch(engine.Mismatch{Key: key, Input: spec.js("a"), Expected: "object is created", Observed: fmt.Sprintf("%v %v", res.Err, res.PanicVal)})
				h.rebuild()
				continue
			}
			var ar otto.Value = res.Value
			r.Begin(key)
			obs := h.call(pc.src, ar, h.real["b"][plainIdx])
			if spec.restores() {
				if rr := ox.Run(h.vm, "__restore()"); rr.Panicked || rr.Err != nil {
					obs.text += " restore failed"
					obs.panicked = true
				}
			}
			r.End()
			r.Eval(true)
			report(r, h, key, fmt.Sprintf("(%s)(%s)", pc.src, spec.name), exp, obs, eval)
		}
	}
}
