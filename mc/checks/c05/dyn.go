package c05

import (
	"fmt"
	"strings"

	"github.com/robertkrimen/otto"

	"verif/mc/engine"
	"verif/mc/ox"
	"verif/mc/ref/conv"
)

// Dynamic conversion methods (second half of the toprim family): valueOf/toString
// defined as accessor properties (logging getters returning a function, undefined,
// a non-callable value, or throwing), defined on the prototype (data or accessor), and
// method bodies that replace / delete / blank / re-define as accessor the OTHER
// method (or themselves) while the conversion is running. 8.12.8 performs
// [[Get]] of the second method only if and when the first one was not callable or
// returned an object, so the log shows exactly which reads happened and a stale
// pre-fetched method is visible in the result.

type dynSlot struct {
	name  string
	proto bool
	m     conv.Method
}

var effNames = map[conv.Effect]string{conv.EffNone: "", conv.EffReplaceOther: "+replaceOther", conv.EffDeleteOther: "+deleteOther",
	conv.EffUndefOther: "+undefOther", conv.EffAccessorOther: "+accessorOther", conv.EffReplaceSelf: "+replaceSelf", conv.EffDeleteSelf: "+deleteSelf"}

// dynSlots enumerates the slot shapes for one method name. withEffects selects
// the shapes whose function body mutates the object.
func dynSlots(method string, date bool, withEffects bool) []dynSlot {
	pv := conv.Num(7)
	if method == "toString" {
		pv = conv.Str("12")
	}
	var out []dynSlot
	type access struct {
		name       string
		proto, acc bool
	}
	accesses := []access{{"data", false, false}, {"getter", false, true}, {"protodata", true, false}, {"protogetter", true, true}}
	if date {
		accesses = accesses[:2] // a Date's prototype is Date.prototype (built-in conversions are implementation-defined text)
	}
	for _, a := range accesses {
		label := ""
		if a.proto {
			label = "@proto"
		}
		mk := func(n string, m conv.Method) {
			m.Acc, m.Label = a.acc, label
			out = append(out, dynSlot{name: a.name + ":" + n, proto: a.proto, m: m})
		}
		if !withEffects {
			mk("prim", conv.Method{R: conv.RetPrim, V: pv})
			mk("obj", conv.Method{R: conv.RetObj})
			mk("throw", conv.Method{R: conv.Throws})
			mk("undefined", conv.Method{R: conv.Absent})
			mk("noncallable", conv.Method{R: conv.NonCallable})
			if a.acc {
				mk("getthrows", conv.Method{R: conv.Absent, GetThrows: true})
			}
			continue
		}
		effs := []conv.Effect{conv.EffReplaceOther, conv.EffDeleteOther, conv.EffUndefOther, conv.EffAccessorOther, conv.EffReplaceSelf, conv.EffDeleteSelf}
		if date {
			effs = []conv.Effect{conv.EffReplaceOther, conv.EffUndefOther, conv.EffAccessorOther, conv.EffReplaceSelf}
		}
		for _, e := range effs {
			mk("obj"+effNames[e], conv.Method{R: conv.RetObj, Eff: e})
			mk("prim"+effNames[e], conv.Method{R: conv.RetPrim, V: pv, Eff: e})
		}
	}
	return out
}

type dynSpec struct {
	name   string
	class  string
	vo, ts dynSlot
}

func (s *dynSpec) model(id string) *conv.Obj {
	o := &conv.Obj{ID: id, Class: s.class, BuiltinStr: "[object Object]", Names: map[string]bool{"__id": true}}
	if s.vo.proto {
		o.ProtoValueOf = s.vo.m
	} else {
		o.ValueOf = s.vo.m
	}
	if s.ts.proto {
		o.ProtoToString = s.ts.m
	} else {
		o.ToString = s.ts.m
	}
	return o
}

func lateFn(id, name string) string {
	return fmt.Sprintf("function(){ __log(%q); return \"late\" }", id+"."+name+"*")
}

func effectJS(id, name string, e conv.Effect) string {
	oth := "toString"
	if name == "toString" {
		oth = "valueOf"
	}
	data := func(target, val string) string {
		return fmt.Sprintf("Object.defineProperty(this, %q, {value: %s, writable: true, enumerable: true, configurable: true});", target, val)
	}
	switch e {
	case conv.EffReplaceOther:
		return data(oth, lateFn(id, oth))
	case conv.EffDeleteOther:
		return fmt.Sprintf("delete this[%q];", oth)
	case conv.EffUndefOther:
		return data(oth, "undefined")
	case conv.EffAccessorOther:
		return fmt.Sprintf("Object.defineProperty(this, %q, {get: function(){ __log(%q); return %s }, enumerable: true, configurable: true});", oth, id+".get "+oth+"*", lateFn(id, oth))
	case conv.EffReplaceSelf:
		return data(name, lateFn(id, name))
	case conv.EffDeleteSelf:
		return fmt.Sprintf("delete this[%q];", name)
	}
	return ""
}

func slotJS(id, name string, sl dynSlot) string {
	target := "o"
	if sl.proto {
		target = "P"
	}
	m := sl.m
	var val string
	switch m.R {
	case conv.Absent:
		val = "undefined"
	case conv.NonCallable:
		val = "1"
	default:
		body := fmt.Sprintf("__log(%q); %s ", id+"."+name+m.Label, effectJS(id, name, m.Eff))
		switch m.R {
		case conv.RetPrim:
			body += "return " + jsPrim(m.V)
		case conv.RetObj:
			body += "return {}"
		case conv.Throws:
			body += "throw new EvalError(\"user\")"
		}
		val = "function(){ " + body + " }"
	}
	if !m.Acc {
		return fmt.Sprintf("Object.defineProperty(%s, %q, {value: %s, writable: true, enumerable: true, configurable: true});", target, name, val)
	}
	get := fmt.Sprintf("__log(%q); ", id+".get "+name+m.Label)
	if m.GetThrows {
		get += "throw new EvalError(\"user\")"
	} else {
		get += "return " + val
	}
	return fmt.Sprintf("Object.defineProperty(%s, %q, {get: function(){ %s }, enumerable: true, configurable: true});", target, name, get)
}

func (s *dynSpec) js(id string) string {
	var sb strings.Builder
	sb.WriteString("(function(){ var P = {}; var o = ")
	if s.class == "Date" {
		sb.WriteString("new Date(0);")
	} else {
		sb.WriteString("Object.create(P);")
	}
	fmt.Fprintf(&sb, "o.__id = %q;", id)
	sb.WriteString(slotJS(id, "valueOf", s.vo))
	sb.WriteString(slotJS(id, "toString", s.ts))
	sb.WriteString("return o })()")
	return sb.String()
}

// dynSpecs: (all plain shapes)^2, plus every mutating shape of one method against every plain shape of the other.
func dynSpecs() []dynSpec {
	var out []dynSpec
	for _, class := range []string{"Object", "Date"} {
		date := class == "Date"
		voPlain, tsPlain := dynSlots("valueOf", date, false), dynSlots("toString", date, false)
		voEff, tsEff := dynSlots("valueOf", date, true), dynSlots("toString", date, true)
		add := func(vo, ts dynSlot) {
			out = append(out, dynSpec{name: "dyn/" + class + "/" + vo.name + "/" + ts.name, class: class, vo: vo, ts: ts})
		}
		for _, vo := range voPlain {
			for _, ts := range tsPlain {
				add(vo, ts)
			}
		}
		for _, vo := range voEff {
			for _, ts := range tsPlain {
				add(vo, ts)
			}
		}
		for _, vo := range voPlain {
			for _, ts := range tsEff {
				add(vo, ts)
			}
		}
	}
	return out
}

func runToPrimDyn(r *engine.Run, h *harness, plainIdx int) {
	specs := dynSpecs()
	r.Bound("dynamic_objects", fmt.Sprint(len(specs)))
	for si := range specs {
		spec := &specs[si]
		if r.Expired() {
			r.Cap("time budget reached in toprim (dynamic methods)")
			return
		}
		for ci := range primContexts {
			pc := &primContexts[ci]
			key := spec.name + "|" + pc.name
			if !r.MineKey(key) {
				continue
			}
			r.Tree(1, 1)
			// a fresh object per case: the methods mutate it
			res := ox.Run(h.vm, spec.js("a"))
			if res.Panicked || res.Err != nil {
				r.Mismatch(engine.Mismatch{Key: key, Input: spec.js("a"), Expected: "object is created", Observed: fmt.Sprintf("%v %v", res.Err, res.PanicVal)})
				if res.Panicked {
					h.rebuild()
				}
				continue
			}
			var ar otto.Value = res.Value
			pm := h.models["b"][plainIdx]
			eval := func(q conv.Quirks) string {
				c := &conv.Ctx{Q: q}
				v, th := pc.f(c, conv.ObjectOf(spec.model("a")), pm)
				return expected(v, th, c)
			}
			exp := eval(conv.Quirks{})
			r.Begin(key)
			obs := h.call(pc.src, ar, h.real["b"][plainIdx])
			r.End()
			r.Eval(true)
			report(r, h, key, fmt.Sprintf("(%s)(%s)", pc.src, spec.name), exp, obs, eval)
		}
	}
}
