package c05

import (
	"bufio"
	"fmt"
	"io"
	"math"
	"strings"

	"verif/mc/ox"
	"verif/mc/ref/conv"
)

// DumpNode writes a self-contained JavaScript program that replays the
// in-language cases of the quick tier (binary, unary, toprim, ternary, order)
// against whatever engine runs it and prints every case whose outcome differs
// from the model's expectation. Development-time aid only (second opinion for
// the reference model, see AUTHORING.md); no registered command uses it.
func DumpNode(w io.Writer) {
	bw := bufio.NewWriter(w)
	defer bw.Flush()
	numRender = func(f float64) string {
		if math.IsNaN(f) {
			return "NaN"
		}
		return fmt.Sprintf("%016x", math.Float64bits(f))
	}
	defer func() { numRender = ox.Num }()
	V := buildV(false)
	shared := &sharedModel{p0: &conv.Obj{ID: "P0", Class: "Object"}}
	models := map[string][]conv.Value{}
	fmt.Fprint(bw, `"use strict"; // (function code below is sloppy: built with Function)
var LOG = [], OUT = [];
var G = (0, eval)("this");
G.__log = function (s) { LOG.push(s) };
G.__out = function (x) { OUT.push(canon(x)) };
G.__P0 = {}; G.__F_a = undefined; G.__F_b = undefined; G.__F_c = undefined;
var n2s = Function.prototype.call.bind(Number.prototype.toString); // the cases patch Number.prototype
function bits(x) { var d = new DataView(new ArrayBuffer(8)); d.setFloat64(0, x); var h = ""; for (var i = 0; i < 8; i++) h += ("0" + n2s(d.getUint8(i), 16)).slice(-2); return h }
function canon(v) {
  if (v === undefined) return "u"; if (v === null) return "n";
  if (typeof v === "boolean") return v ? "b:1" : "b:0";
  if (typeof v === "number") return "d:" + (v !== v ? "NaN" : bits(v));
  if (typeof v === "string") { var s = "s:"; for (var i = 0; i < v.length; i++) { var c = v.charCodeAt(i); if (c >= 0x20 && c < 0x7f && c !== 92) s += v.charAt(i); else s += "\\u" + ("0000" + n2s(c, 16).toUpperCase()).slice(-4) } return s }
  return "o:" + (typeof v.__id === "string" ? v.__id : "?");
}
var F = {}, bad = 0, total = 0;
function fn(src) { if (!F[src]) F[src] = (0, eval)("(" + src + ")"); return F[src] }
function T(src, args, exp, key) {
  LOG = []; OUT = []; total++;
  var r; try { r = canon(fn(src).apply(undefined, args)) } catch (e) { r = "throw:" + (e && e.name) }
  r += " log=[" + LOG.join(",") + "]"; if (OUT.length) r += " out=[" + OUT.join(",") + "]";
  if (r !== exp) { bad++; console.log(key + "\n   model: " + exp + "\n   here:  " + r) }
}
var S = {a: [], b: [], c: []};
`)
	for _, side := range sides {
		l := make([]conv.Value, len(V))
		var fnObj *conv.Obj
		for i, v := range V {
			if !v.isObj() {
				l[i] = v.m
				switch {
				case v.name == "undefined":
					fmt.Fprintf(bw, "S.%s[%d] = undefined;\n", side, i)
				case v.name == "null":
					fmt.Fprintf(bw, "S.%s[%d] = null;\n", side, i)
				default:
					fmt.Fprintf(bw, "S.%s[%d] = %s;\n", side, i, jsPrim(v.m))
				}
				continue
			}
			o := v.obj.model(side, shared)
			if v.obj.special == "fn" {
				fnObj = o
			}
			if v.obj.special == "bound" {
				o.BoundTarget = fnObj
			}
			l[i] = conv.ObjectOf(o)
			fmt.Fprintf(bw, "S.%s[%d] = (0, eval)(%s);\n", side, i, ox.JSLit(v.obj.js(side)))
		}
		models[side] = l
	}
	emit := func(src string, args []string, exp, key string) {
		fmt.Fprintf(bw, "T(%s, [%s], %s, %s);\n", ox.JSLit(src), strings.Join(args, ","), ox.JSLit(exp), ox.JSLit(key))
	}
	ref := func(side string, i int) string { return fmt.Sprintf("S.%s[%d]", side, i) }
	// binary
	for _, op := range conv.BinaryOps {
		for i, a := range V {
			if a.carrier != "" && a.carrier != "u16" {
				continue
			}
			for j, b := range V {
				if b.carrier != "" && b.carrier != "u16" {
					continue
				}
				c := &conv.Ctx{}
				v, th := c.Binary(op, models["a"][i], models["b"][j])
				emit(binarySrc(op), []string{ref("a", i), ref("b", j)}, expected(v, th, c), "binary "+op+"|"+a.name+"|"+b.name)
			}
			if a.isObj() {
				c := &conv.Ctx{}
				v, th := c.Binary(op, models["a"][i], models["a"][i])
				emit(binarySrc(op), []string{ref("a", i), ref("a", i)}, expected(v, th, c), "binary "+op+"|"+a.name+"|=same")
			}
		}
	}
	// unary
	for _, op := range conv.UnaryOps {
		for i, a := range V {
			if a.carrier != "" && a.carrier != "u16" {
				continue
			}
			c := &conv.Ctx{}
			v, after, th := c.Unary(op, models["a"][i])
			exp := expected(v, th, c)
			if th == nil && (strings.HasSuffix(op, "++") || strings.HasSuffix(op, "--")) {
				exp = expected(v, th, c, canonModel(after))
			}
			emit(unarySrc(op), []string{ref("a", i)}, exp, "unary "+op+"|"+a.name)
		}
	}
	// in-language conversion observers
	for oi := range observers {
		o := &observers[oi]
		if o.src == "" || o.name == "fromCharCode(a)" {
			continue
		}
		for i, a := range V {
			if a.carrier != "" && a.carrier != "u16" {
				continue
			}
			c := &conv.Ctx{}
			s, th := o.model(c, models["a"][i])
			exp := render(s, c.Log, nil)
			if th != nil {
				exp = render("throw:"+th.Class, c.Log, nil)
			}
			emit(o.src, []string{ref("a", i)}, exp, "conv "+o.name+"|"+a.name)
		}
	}
	// toprim
	plainIdx := 0
	for i, v := range V {
		if v.name == "o:plain" {
			plainIdx = i
		}
	}
	n := 0
	for _, class := range []string{"Object", "Date"} {
		for _, vo := range methodShapes {
			for _, ts := range methodShapes {
				spec := objSpec{name: class + "/" + vo.name + "/" + ts.name, class: class, valueOf: vo.m, toString: ts.m, builtin: "[object Object]"}
				if class == "Date" {
					spec.ctor = "new Date(0)"
					if ts.m.R == conv.Inherit || vo.m.R == conv.Inherit {
						continue
					}
				}
				n++
				fmt.Fprintf(bw, "var X%d = (0, eval)(%s);\n", n, ox.JSLit(spec.js("a")))
				am := conv.ObjectOf(spec.model("a", shared))
				for ci := range primContexts {
					pc := &primContexts[ci]
					c := &conv.Ctx{}
					v, th := pc.f(c, am, models["b"][plainIdx])
					emit(pc.src, []string{fmt.Sprintf("X%d", n), ref("b", plainIdx)}, expected(v, th, c), "toprim "+spec.name+"|"+pc.name)
				}
			}
		}
	}
	// toprim, dynamic methods: a fresh object per case
	fmt.Fprint(bw, "(0, eval)("+ox.JSLit(dynPrelude)+"); G.__save = __save; G.__restore = __restore; G.__saved = __saved;\n")
	dyn := dynSpecs(false)
	for si := range dyn {
		spec := &dyn[si]
		for ci := range primContexts {
			pc := &primContexts[ci]
			c := &conv.Ctx{}
			v, th := pc.f(c, conv.ObjectOf(spec.model("a")), models["b"][plainIdx])
			if c.Unknown {
				continue
			}
			emit(pc.src, []string{"(0, eval)(" + ox.JSLit(spec.js("a")) + ")", ref("b", plainIdx)}, expected(v, th, c), "toprim "+spec.name+"|"+pc.name)
			if spec.restores() {
				fmt.Fprint(bw, "__restore();\n")
			}
		}
	}
	// order
	var vals []int
	for i, v := range V {
		switch v.name {
		case "o:vN", "o:vS", "o:vT", "o:vOtS", "o:date", "o:fn", "o:plain", "n:0", "n:1", "s:\"abc\"", "undefined":
			vals = append(vals, i)
		}
	}
	forms := []conv.Form{conv.FormArg, conv.FormCall, conv.FormGetter, conv.FormCallGetter}
	for _, op := range conv.BinaryOps {
		for _, lf := range forms {
			for _, rf := range forms {
				expr := operandText(lf, "l") + " " + op + " " + operandText(rf, "r")
				for _, li := range vals {
					for _, ri := range vals {
						c := &conv.Ctx{}
						v, th := c.EvalBinary(op, conv.Operand{Form: lf, Label: "l", V: models["a"][li]}, conv.Operand{Form: rf, Label: "r", V: models["b"][ri]})
						emit(orderPrologue+expr+" }", []string{ref("a", li), ref("b", ri), "undefined"}, expected(v, th, c), "order "+expr+"|"+V[li].name+"|"+V[ri].name)
					}
				}
			}
		}
	}
	for _, op := range compoundOps {
		for _, lf := range []conv.Form{conv.FormArg, conv.FormGetter, conv.FormCallGetter} {
			for _, rf := range forms {
				expr := operandText(lf, "l") + " " + op + "= " + operandText(rf, "r")
				for _, li := range vals {
					for _, ri := range vals {
						c := &conv.Ctx{}
						v, th := c.EvalCompound(op, conv.Operand{Form: lf, Label: "l", V: models["a"][li]}, conv.Operand{Form: rf, Label: "r", V: models["b"][ri]})
						exp := expected(v, th, c)
						if th == nil && lf != conv.FormArg {
							exp = expected(v, th, c, canonModel(v))
						}
						emit(orderPrologue+expr+" }", []string{ref("a", li), ref("b", ri), "undefined"}, exp, "order "+expr+"|"+V[li].name+"|"+V[ri].name)
					}
				}
			}
		}
	}
	fmt.Fprint(bw, "console.log('cases ' + total + ' differences ' + bad);\n")
}
