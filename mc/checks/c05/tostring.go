package c05

import (
	"fmt"
	"math"
	"strconv"

	"github.com/robertkrimen/otto"

	"verif/mc/engine"
	"verif/mc/ox"
	"verif/mc/ref/conv"
)

// ToString(Number) on "kind twins": every number of V plus a band lattice
// (2^k and neighbours for k = 50..65, 10^k and neighbours for k = 15..22, both
// signs) reaches every ToString context in each internal representation otto
// can hold it in — injected float64, the lexer's literal in exponent form
// (float64) and in plain integer digits (int64 when it fits), and float64 results
// of COMPUTATION (a*1, -(-a), a-0, a/1, +a, Number(text), +text, parseFloat(text),
// text*1, text-0). ES5 9.8.1 knows only the double: the expected text is the
// model's shortest-round-trip layout in every case.

type tsNumber struct {
	name string
	f    float64
}

func tostringNumbers() []tsNumber {
	var l []tsNumber
	seen := map[uint64]bool{}
	add := func(name string, f float64) {
		for _, s := range []float64{1, -1} {
			g := s * f
			b := math.Float64bits(g)
			if math.IsNaN(g) {
				b = 1
			}
			if seen[b] {
				continue
			}
			seen[b] = true
			n := name
			if s < 0 {
				n = "-(" + name + ")"
			}
			l = append(l, tsNumber{n, g})
		}
	}
	for _, n := range numbers() {
		if n.f >= 0 || math.IsNaN(n.f) {
			add(n.name, n.f)
		}
	}
	for _, n := range numbers() {
		if n.f < 0 {
			add(n.name, -n.f) // negatives whose magnitude was not listed (e.g. -129)
		}
	}
	for k := 50; k <= 65; k++ {
		p := math.Pow(2, float64(k))
		add(fmt.Sprintf("2^%d", k), p)
		add(fmt.Sprintf("2^%d+ulp", k), math.Nextafter(p, math.Inf(1)))
		add(fmt.Sprintf("2^%d-ulp", k), math.Nextafter(p, 0))
	}
	for k := 15; k <= 22; k++ {
		p, _ := strconv.ParseFloat("1e"+strconv.Itoa(k), 64)
		add(fmt.Sprintf("10^%d", k), p)
		add(fmt.Sprintf("10^%d+ulp", k), math.Nextafter(p, math.Inf(1)))
		add(fmt.Sprintf("10^%d-ulp", k), math.Nextafter(p, 0))
	}
	return l
}

type tsTransform struct {
	name string
	expr string // over a
	str  bool   // argument is the number's text
}

var tsTransforms = []tsTransform{
	{"a", "a", false}, {"a*1", "a*1", false}, {"-(-a)", "-(-a)", false}, {"a-0", "a-0", false}, {"a/1", "a/1", false}, {"+a", "+a", false},
	{"Number(s)", "Number(a)", true}, {"+s", "+a", true}, {"parseFloat(s)", "parseFloat(a)", true}, {"s*1", "a*1", true}, {"s-0", "a-0", true},
}

type tsContext struct {
	name   string
	expr   string // over e; "" = Go-side Value.ToString of e
	suffix string
}

var tsContexts = []tsContext{
	{"e+''", "e+''", ""}, {"''+e", "''+e", ""}, {"String(e)", "String(e)", ""}, {"[e].join()", "[e].join()", ""},
	{"key", "(function(k){ var o = {}; o[k] = 1; for (var p in o) return p })(e)", ""},
	{"e+'x'", "e+'x'", "x"}, {"e.toString()", "(e).toString()", ""}, {"e.toString(10)", "(e).toString(10)", ""},
	{"''.concat(e)", "''.concat(e)", ""}, {"new String(e)", "new String(e).valueOf()", ""},
	{"Value.ToString", "", ""},
}

func runToString(r *engine.Run) {
	h := setup(r)
	if h == nil {
		return
	}
	nums := tostringNumbers()
	r.Bound("numbers", strconv.Itoa(len(nums)))
	r.Bound("transforms", strconv.Itoa(len(tsTransforms)))
	r.Bound("contexts", strconv.Itoa(len(tsContexts)))
	type arg struct {
		name string
		m    conv.Value
		mk   func() (otto.Value, error)
	}
	for _, n := range nums {
		n := n
		if r.Expired() {
			r.Cap("time budget reached in tostring")
			return
		}
		short := conv.NumberToString(n.f)
		var numArgs, strArgs []arg
		numArgs = append(numArgs, arg{"set", conv.Num(n.f), func() (otto.Value, error) { return h.inject(&val{goVal: n.f}) }})
		numArgs = append(numArgs, arg{"lit", conv.Num(n.f), func() (otto.Value, error) { return h.inject(&val{carrier: "lit", src: ox.JSNum(n.f)}) }})
		strArgs = append(strArgs, arg{"str", conv.Str(short), func() (otto.Value, error) { return h.vm.ToValue(short) }})
		if !math.IsNaN(n.f) && !math.IsInf(n.f, 0) && n.f == math.Trunc(n.f) && math.Abs(n.f) < 1e25 && !(n.f == 0 && math.Signbit(n.f)) {
			digits := strconv.FormatFloat(n.f, 'f', 0, 64) // the exact integer
			lm := conv.Num(n.f)
			lm.IntText = litIntText(n.f) // the lexer keeps a non-negative integer literal below 2^63 as int64
			numArgs = append(numArgs, arg{"litint", lm, func() (otto.Value, error) { return h.inject(&val{carrier: "lit", src: digits}) }})
			if digits != short {
				strArgs = append(strArgs, arg{"strx", conv.Str(digits), func() (otto.Value, error) { return h.vm.ToValue(digits) }})
			}
		}
		for ti := range tsTransforms {
			t := &tsTransforms[ti]
			args := numArgs
			if t.str {
				args = strArgs
			}
			for _, a := range args {
				a := a
				var real otto.Value
				made := -1
				for ci := range tsContexts {
					cx := &tsContexts[ci]
					key := n.name + "|" + a.name + "|" + t.name + "|" + cx.name
					if !r.MineKey(key) {
						continue
					}
					r.Tree(1, 1)
					if made != h.rebuilds {
						v, err := a.mk()
						if err != nil {
							r.Mismatch(engine.Mismatch{Key: key, Input: "inject " + a.name + " " + n.name, Expected: "value injected", Observed: err.Error()})
							break
						}
						real, made = v, h.rebuilds
					}
					eval := func(q conv.Quirks) string {
						c := &conv.Ctx{Q: q}
						e := a.m
						if t.str {
							e = conv.Num(conv.StringToNumber(a.m.S)) // plain decimal text: the same for Number, unary +, parseFloat, *1, -0
						} else if t.name != "a" {
							e = conv.Num(a.m.N) // a computed result is a plain Number
						}
						s, _ := c.ToString(e)
						return render(ox.Str16(ox.Units(s+cx.suffix)), c.Log, nil)
					}
					exp := eval(conv.Quirks{})
					var obs outcome
					r.Begin(key)
					if cx.expr != "" {
						obs = h.call("function(a){ var e = "+t.expr+"; return "+cx.expr+" }", real)
					} else {
						f := h.fn("function(a){ return " + t.expr + " }")
						obs = h.run(func() (otto.Value, error) {
							e, err := f.Call(otto.UndefinedValue(), real)
							if err != nil {
								return e, err
							}
							s, err := e.ToString()
							if err != nil {
								return e, err
							}
							return otto.ToValue(s)
						})
					}
					r.End()
					r.Eval(true)
					report(r, h, key, fmt.Sprintf("%s with e = %s, a = %s (%s, %s)", cx.name, t.name, n.name, a.name, ox.JSNum(n.f)), exp, obs, eval)
				}
			}
		}
	}
}
