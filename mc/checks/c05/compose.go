package c05

import (
	"fmt"
	"math"
	"strconv"
	"strings"

	"verif/mc/engine"
	"verif/mc/ox"
	"verif/mc/ref/conv"
)

// Operator composition: an operator applied to the RESULT of another operation.
// otto's operations leave their result in different Go representations (int32
// from | & ^ << >> ~, uint32 from >>> and array lengths, uint16 from charCodeAt,
// int from string lengths / indexOf / Date getters, int64 from getTime / parseInt /
// push, float64 from arithmetic and Math), so op2(op1(x)) exercises op2 on every
// internal kind at that kind's boundary values. The composition is written
// in-language; ES5 knows only the Number, so the model ignores the carrier.

type producer struct {
	name  string
	src   string // expression over $ (the parameter); constant producers have no $
	f     func(c *conv.Ctx, x conv.Value) (conv.Value, *conv.Thrown)
	valid func(x conv.Value) bool
}

func (p *producer) constant() bool { return !strings.Contains(p.src, "$") }
func (p *producer) text(param string) string {
	return "(" + strings.ReplaceAll(p.src, "$", param) + ")"
}

func viaBinary(op string, other conv.Value) func(c *conv.Ctx, x conv.Value) (conv.Value, *conv.Thrown) {
	return func(c *conv.Ctx, x conv.Value) (conv.Value, *conv.Thrown) { return c.Binary(op, x, other) }
}

func viaUnary(op string) func(c *conv.Ctx, x conv.Value) (conv.Value, *conv.Thrown) {
	return func(c *conv.Ctx, x conv.Value) (conv.Value, *conv.Thrown) {
		v, _, th := c.Unary(op, x)
		return v, th
	}
}

func viaNumber(g func(f float64) float64) func(c *conv.Ctx, x conv.Value) (conv.Value, *conv.Thrown) {
	return func(c *conv.Ctx, x conv.Value) (conv.Value, *conv.Thrown) {
		f, th := c.ToNumber(x)
		if th != nil {
			return conv.Value{}, th
		}
		return conv.Num(g(f)), nil
	}
}

func constant(f float64) func(c *conv.Ctx, x conv.Value) (conv.Value, *conv.Thrown) {
	return func(c *conv.Ctx, x conv.Value) (conv.Value, *conv.Thrown) { return conv.Num(f), nil }
}

func isNum(x conv.Value) bool { return x.K == conv.Number }

var producers = []producer{
	// int32 results
	{name: "|0", src: "$|0", f: viaBinary("|", conv.Num(0))},
	{name: "<<0", src: "$<<0", f: viaBinary("<<", conv.Num(0))},
	{name: "~", src: "~$", f: viaUnary("~")},
	{name: "^-1", src: "$^-1", f: viaBinary("^", conv.Num(-1))},
	// uint32
	{name: ">>>0", src: "$>>>0", f: viaBinary(">>>", conv.Num(0))},
	// float64
	{name: "unary+", src: "+$", f: viaUnary("+")},
	{name: "unary-", src: "-$", f: viaUnary("-")},
	{name: "*1", src: "$*1", f: viaBinary("*", conv.Num(1))},
	{name: "-0", src: "$-0", f: viaBinary("-", conv.Num(0))},
	{name: "%2^32", src: "$%4294967296", f: viaBinary("%", conv.Num(4294967296))},
	{name: "Number", src: "Number($)", f: viaNumber(func(f float64) float64 { return f })},
	{name: "Math.abs", src: "Math.abs($)", f: viaNumber(math.Abs)},
	{name: "Math.floor", src: "Math.floor($)", f: viaNumber(math.Floor)},
	// uint16
	{name: "charCodeAt", src: "String.fromCharCode($).charCodeAt(0)", f: func(c *conv.Ctx, x conv.Value) (conv.Value, *conv.Thrown) {
		f, th := c.ToNumber(x)
		if th != nil {
			return conv.Value{}, th
		}
		return conv.Num(float64(c.ToUint16Q(f))), nil
	}},
	// int
	{name: "String.length", src: "String($).length", f: func(c *conv.Ctx, x conv.Value) (conv.Value, *conv.Thrown) {
		s, th := c.ToString(x)
		if th != nil {
			return conv.Value{}, th
		}
		return conv.Num(float64(len(conv.Units(s)))), nil
	}},
	// int64: the time value of a Date made from a Number inside the TimeClip range (15.9.3.2, 15.9.1.14)
	{name: "getTime", src: "new Date($).getTime()", valid: func(x conv.Value) bool {
		return isNum(x) && (math.IsNaN(x.N) || math.Abs(x.N) <= 8.64e15)
	}, f: func(c *conv.Ctx, x conv.Value) (conv.Value, *conv.Thrown) {
		if math.IsNaN(x.N) {
			return conv.Num(math.NaN()), nil
		}
		return conv.Num(conv.ToIntegerF(x.N) + 0), nil // TimeClip: ToInteger, and -0 becomes +0
	}},
	// constants: results of library operations at boundary values
	{name: "array.length", src: "[1,2,3].length", f: constant(3)},
	{name: "array.length.max", src: "(function(){ var a = []; a.length = 4294967295; return a.length })()", f: constant(4294967295)},
	{name: "string.length", src: "\"abc\".length", f: constant(3)},
	{name: "string.length.0", src: "\"\".length", f: constant(0)},
	{name: "indexOf.miss", src: "\"abc\".indexOf(\"z\")", f: constant(-1)},
	{name: "indexOf.hit", src: "\"abc\".indexOf(\"a\")", f: constant(0)},
	{name: "array.indexOf", src: "[5].indexOf(5)", f: constant(0)},
	{name: "push", src: "[5].push(1)", f: constant(2)},
	{name: "getUTCMilliseconds", src: "new Date(-1).getUTCMilliseconds()", f: constant(999)},
	{name: "getUTCFullYear", src: "new Date(0).getUTCFullYear()", f: constant(1970)},
	{name: "getTime.min32", src: "new Date(-2147483648).getTime()", f: constant(-2147483648)},
	{name: "function.length", src: "(function(a,b){}).length", f: constant(2)},
	{name: "arguments.length", src: "(function(){ return arguments.length })(1,2,3)", f: constant(3)},
	{name: "parseInt.min32", src: "parseInt(\"-2147483648\")", f: constant(-2147483648)},
	{name: "parseInt.hex", src: "parseInt(\"80000000\", 16)", f: constant(2147483648)},
	{name: "parseInt.max32", src: "parseInt(\"4294967295\")", f: constant(4294967295)},
	{name: "parseFloat", src: "parseFloat(\"-2147483648\")", f: constant(-2147483648)},
	{name: "Math.pow", src: "Math.pow(2,31)", f: constant(2147483648)},
	{name: "Math.max", src: "Math.max(-2147483648,-2147483649)", f: constant(-2147483648)},
	{name: "Math.ceil.-0", src: "Math.ceil(-0.5)", f: constant(math.Copysign(0, -1))},
	{name: "literal.min32", src: "-2147483648", f: constant(-2147483648)},
	{name: "literal.hex", src: "0x80000000", f: constant(2147483648)},
}

var composeX = []string{
	"n:0", "n:-0", "n:1", "n:-1", "n:2^31-1", "n:2^31", "n:2^31+1", "n:-(2^31-1)", "n:-(2^31)", "n:-(2^31+1)", "n:2^32-1", "n:2^32", "n:2^32+1",
	"n:-(2^32-1)", "n:-(2^32)", "n:2^53", "n:2^63", "n:-(2^63)", "n:0.5", "n:-0.5", "n:1.5", "n:NaN", "n:Inf", "n:-Inf",
	"n:65535", "n:65536", "n:32767", "n:32768", "n:-32768", "n:255", "n:256", "n:127", "n:128", "n:-128", "n:-129", "n:31", "n:33", "n:MIN", "n:1e21",
	"undefined", "null", "true", "s:\" 12 \"", "s:\"abc\"", "s:\"\"", "s:\"1\"", "o:vN", "o:vS", "o:vT",
}

// a composed operand: producer applied to a value of V.
type operand struct {
	p     *producer
	vi    int    // index into V
	key   string // producer/value
	bound bool   // result is a boundary value of some internal kind
}

// boundary values of the internal integer kinds (int32, uint32, uint16; -1 for the signed/unsigned views)
var boundary = map[float64]bool{-2147483648: true, 2147483647: true, 2147483648: true, 4294967295: true, -1: true, 65535: true}

// composeOperands enumerates (producer, x) and keeps one representative per
// distinct (producer, model outcome): two inputs that make op1 return the same
// Number leave the same internal value behind.
func composeOperands(h *harness) []operand {
	idx := map[string]int{}
	for i, v := range h.V {
		idx[v.name] = i
	}
	var out []operand
	seen := map[string]bool{}
	for pi := range producers {
		p := &producers[pi]
		for _, xn := range composeX {
			vi, ok := idx[xn]
			if !ok {
				panic("c05: compose value not in V: " + xn)
			}
			xm := h.models["a"][vi]
			if p.valid != nil && !p.valid(xm) {
				continue
			}
			c := &conv.Ctx{}
			v, th := p.f(c, xm)
			sig := p.name + "|" + expected(v, th, c)
			if seen[sig] {
				continue
			}
			seen[sig] = true
			b := th == nil && v.K == conv.Number && boundary[v.N]
			out = append(out, operand{p: p, vi: vi, key: p.name + "/" + xn, bound: b})
			if p.constant() {
				break
			}
		}
	}
	return out
}

func composeUnarySrc(op string, p *producer) string {
	e := p.text("x")
	switch op {
	case "++", "--":
		return "function(x){ var r = " + e + "; var s = " + op + "r; __out(r); return s }"
	case "p++", "p--":
		return "function(x){ var r = " + e + "; var s = r" + op[1:] + "; __out(r); return s }"
	case "typeof", "void":
		return "function(x){ return " + op + " " + e + " }"
	}
	return "function(x){ return " + op + e + " }"
}

func runCompose(r *engine.Run) {
	h := setup(r)
	if h == nil {
		return
	}
	ops := composeOperands(h)
	nb := 0
	for _, o := range ops {
		if o.bound {
			nb++
		}
	}
	r.Bound("producers", strconv.Itoa(len(producers)))
	r.Bound("inputs", strconv.Itoa(len(composeX)))
	r.Bound("distinct_operands", strconv.Itoa(len(ops)))
	r.Bound("boundary_operands", strconv.Itoa(nb))
	if r.Thorough() {
		r.Bound("binary_pairs", "all operands x all operands")
	} else {
		r.Bound("binary_pairs", "boundary x boundary, and boundary x every 7th operand in both positions")
	}

	// op2(op1(x))
	for _, op := range conv.UnaryOps {
		if op == "delete" {
			continue // `delete (expr)` is not an operator on the value
		}
		for _, o := range ops {
			key := "u|" + op + "|" + o.key
			if !r.MineKey(key) {
				continue
			}
			r.Tree(1, 1)
			o := o
			xm := h.models["a"][o.vi]
			src := composeUnarySrc(op, o.p)
			eval := func(q conv.Quirks) string {
				c := &conv.Ctx{Q: q}
				v, th := o.p.f(c, xm)
				if th != nil {
					return expected(v, th, c)
				}
				res, after, th := c.Unary(op, v)
				if th == nil && (strings.HasSuffix(op, "++") || strings.HasSuffix(op, "--")) {
					return expected(res, th, c, canonModel(after))
				}
				return expected(res, th, c)
			}
			exp := eval(conv.Quirks{})
			r.Begin(key)
			obs := h.call(src, h.real["a"][o.vi])
			r.End()
			r.Eval(true)
			report(r, h, key, fmt.Sprintf("(%s)(%s)", src, h.V[o.vi].name), exp, obs, eval)
		}
	}

	// op2(op1(x), op1'(y))
	for _, op := range conv.BinaryOps {
		if r.Expired() {
			r.Cap("time budget reached in compose at operator " + op)
			return
		}
		for li, l := range ops {
			for ri, rr := range ops {
				if !r.Thorough() && !(l.bound && rr.bound) && !(l.bound && ri%7 == 0) && !(rr.bound && li%7 == 0) {
					continue
				}
				key := "b|" + op + "|" + l.key + "|" + rr.key
				if !r.MineKey(key) {
					continue
				}
				r.Tree(1, 1)
				l, rr := l, rr
				xm, ym := h.models["a"][l.vi], h.models["b"][rr.vi]
				src := "function(x,y){ return " + l.p.text("x") + " " + op + " " + rr.p.text("y") + " }"
				eval := func(q conv.Quirks) string {
					c := &conv.Ctx{Q: q}
					lv, th := l.p.f(c, xm)
					if th != nil {
						return expected(lv, th, c)
					}
					if (op == "&&" && !conv.ToBoolean(lv)) || (op == "||" && conv.ToBoolean(lv)) {
						return expected(lv, nil, c) // the right operand is not evaluated
					}
					rv, th := rr.p.f(c, ym)
					if th != nil {
						return expected(rv, th, c)
					}
					res, th := c.Binary(op, lv, rv)
					return expected(res, th, c)
				}
				exp := eval(conv.Quirks{})
				r.Begin(key)
				obs := h.call(src, h.real["a"][l.vi], h.real["b"][rr.vi])
				r.End()
				r.Eval(!trivial(exp))
				report(r, h, key, fmt.Sprintf("(%s)(%s, %s)", src, h.V[l.vi].name, h.V[rr.vi].name), exp, obs, eval)
			}
		}
	}
	_ = ox.Num
}
