package c05

import (
	"fmt"
	"strconv"

	"github.com/robertkrimen/otto"

	"verif/mc/engine"
	"verif/mc/ox"
	"verif/mc/ref/conv"
)

// String order discriminators for the relational operators (11.8.5 step 4
// compares UTF-16 code units): well-formed strings around the places where code
// unit order and code point (= UTF-8 byte) order disagree — a supplementary
// character (lead unit 0xD800..0xDBFF) against a BMP character in U+E000..U+FFFF —
// alone and with an "a" before / after, as PAIRS in every combination
// (astral x BMP-high, astral x astral, BMP x BMP), in both operand orders, as
// primitive strings in both internal representations (Go string, UTF-16 units from
// String.fromCharCode) and as results of valueOf / toString of objects.

func strorderStrings() []string {
	core := []rune{0xD7FF, 0xE000, 0xFFFD, 0xFFFF, 0x10000, 0x1F600, 0x10FFFF}
	out := []string{"", "a"}
	for _, r := range core {
		out = append(out, string(r), "a"+string(r), string(r)+"a")
	}
	return out
}

var strorderCarriers = []string{"string", "units", "valueOf", "toString"}

var strorderOps = []string{"<", ">", "<=", ">=", "==", "===", "sort"}

func runStrOrder(r *engine.Run) {
	h := setup(r)
	if h == nil {
		return
	}
	strs := strorderStrings()
	r.Bound("strings", strconv.Itoa(len(strs)))
	r.Bound("carriers", fmt.Sprint(strorderCarriers))
	r.Bound("operators", fmt.Sprint(strorderOps))

	// real and model values per (side, carrier, string); rebuilt with the runtime
	type cell struct {
		real otto.Value
		m    conv.Value
	}
	var cells map[string]cell
	built := -1
	build := func() bool {
		cells = map[string]cell{}
		for _, side := range []string{"a", "b"} {
			for si, s := range strs {
				for _, car := range strorderCarriers {
					id := fmt.Sprintf("%s.%s%d", side, car, si)
					var src string
					var m conv.Value
					lit := ox.JSString(conv.Units(s))
					switch car {
					case "string":
						v, err := h.vm.ToValue(s)
						if err != nil {
							return false
						}
						cells[side+car+strconv.Itoa(si)] = cell{v, conv.Str(s)}
						continue
					case "units":
						u := conv.Units(s)
						parts := ""
						for i, c := range u {
							if i > 0 {
								parts += ","
							}
							parts += strconv.Itoa(int(c))
						}
						src, m = "String.fromCharCode("+parts+")", conv.Str(s)
					case "valueOf":
						o := &conv.Obj{ID: id, Class: "Object", ValueOf: prim(conv.Str(s)), ToString: mThrow, Names: map[string]bool{}}
						src = fmt.Sprintf("({__id: %q, valueOf: function(){ __log(%q); return %s }, toString: function(){ __log(%q); throw new EvalError(\"user\") }})", id, id+".valueOf", lit, id+".toString")
						m = conv.ObjectOf(o)
					case "toString":
						o := &conv.Obj{ID: id, Class: "Object", ValueOf: mAbsent, ToString: prim(conv.Str(s)), Names: map[string]bool{}}
						src = fmt.Sprintf("({__id: %q, valueOf: undefined, toString: function(){ __log(%q); return %s }})", id, id+".toString", lit)
						m = conv.ObjectOf(o)
					}
					res := ox.Run(h.vm, src)
					if res.Panicked || res.Err != nil {
						return false
					}
					cells[side+car+strconv.Itoa(si)] = cell{res.Value, m}
				}
			}
		}
		built = h.rebuilds
		return true
	}

	for _, op := range strorderOps {
		src := binarySrc(op)
		if op == "sort" {
			src = "function(a,b){ return [a,b].sort()[0] }" // 15.4.4.11 SortCompare: ToString, then the same code unit order
		}
		for _, ca := range strorderCarriers {
			for _, cb := range strorderCarriers {
				if op == "sort" && (ca == "valueOf" || cb == "valueOf" || ca == "toString" || cb == "toString") {
					continue
				}
				for ai := range strs {
					for bi := range strs {
						key := fmt.Sprintf("%s|%s:%s|%s:%s", op, ca, strconv.QuoteToASCII(strs[ai]), cb, strconv.QuoteToASCII(strs[bi]))
						if !r.MineKey(key) {
							continue
						}
						r.Tree(1, 1)
						if built != h.rebuilds {
							if !build() {
								r.Mismatch(engine.Mismatch{Key: key, Input: "build the string operands", Expected: "values created", Observed: "creation failed"})
								return
							}
						}
						a, b := cells["a"+ca+strconv.Itoa(ai)], cells["b"+cb+strconv.Itoa(bi)]
						eval := func(q conv.Quirks) string {
							c := &conv.Ctx{Q: q}
							if op == "sort" {
								lt, _, _ := c.Less(b.m, a.m, true)
								if lt {
									return expected(b.m, nil, c)
								}
								return expected(a.m, nil, c)
							}
							v, th := c.Binary(op, a.m, b.m)
							return expected(v, th, c)
						}
						exp := eval(conv.Quirks{})
						r.Begin(key)
						obs := h.call(src, a.real, b.real)
						r.End()
						r.Eval(true)
						report(r, h, key, fmt.Sprintf("(%s)(%s %s, %s %s)", src, ca, strconv.QuoteToASCII(strs[ai]), cb, strconv.QuoteToASCII(strs[bi])), exp, obs, eval)
					}
				}
			}
		}
	}
}
