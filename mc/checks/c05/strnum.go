package c05

import (
	"fmt"
	"sort"
	"strconv"

	"github.com/robertkrimen/otto"

	"verif/mc/engine"
	"verif/mc/ref/conv"
)

// ToNumber(String) on systematic mutations of every StringNumericLiteral form
// (9.3.1): each of a small alphabet of characters is inserted at EVERY position
// of each base form (up to two insertions; 8 characters in the quick tier, 16 in the thorough tier);
// the expected Number comes from the model's own grammar recogniser. The strings
// reach ToNumber through every operator family that applies it.

var strnumBases = []string{
	"", "0", "1", "12", "1.5", ".5", "5.", "1e3", "1E+3", "1.5e-3", "0x10", "0X1F", "0xE", "Infinity", "-Infinity", "+Infinity",
	"+1", "-1.5", "-0", " 12 ", "010", "1e21",
}

var strnumInsert = []string{"+", "-", " ", "_", ".", "e", "x", "0"}
var strnumInsertThorough = []string{"E", "X", "p", "I", "\t", "\uFEFF", "1", "f"}

func strnumStrings(thorough bool) []string {
	alpha := strnumInsert
	if thorough {
		alpha = append(append([]string{}, strnumInsert...), strnumInsertThorough...)
	}
	set := map[string]bool{}
	var level []string
	for _, b := range strnumBases {
		if !set[b] {
			set[b] = true
			level = append(level, b)
		}
	}
	insertAll := func(src []string, alpha []string) []string {
		var out []string
		for _, s := range src {
			rs := []rune(s)
			for p := 0; p <= len(rs); p++ {
				for _, c := range alpha {
					m := string(rs[:p]) + c + string(rs[p:])
					if !set[m] {
						set[m] = true
						out = append(out, m)
					}
				}
			}
		}
		return out
	}
	one := insertAll(level, alpha)
	all := append(append([]string{}, level...), one...)
	all = append(all, insertAll(one, alpha)...) // second insertion
	sort.SliceStable(all, func(i, j int) bool { return len(all[i]) < len(all[j]) })
	return all
}

// White space boundary set (single insertion at every position, both tiers): every
// StrWhiteSpaceChar of 9.3.1 (WhiteSpace 7.2 incl. Zs of Unicode 3.0, LineTerminator
// 7.3) and the near misses that must NOT be trimmed or skipped.
var strnumWhite = []rune{0x0009, 0x000B, 0x000C, 0x0020, 0x00A0, 0xFEFF, 0x1680, 0x180E, 0x2000, 0x2001, 0x2002, 0x2003, 0x2004, 0x2005,
	0x2006, 0x2007, 0x2008, 0x2009, 0x200A, 0x202F, 0x205F, 0x3000, 0x000A, 0x000D, 0x2028, 0x2029}
var strnumNearMiss = []rune{0x0085, 0x200B, 0x200C, 0x200D, 0x2060, 0x001C, 0x001D, 0x001E, 0x001F, 0x0008, 0x00AD, 0xFFFE, 0x0000, 0x180F, 0x2027, 0x202A, 0x303F}

func strnumWhiteStrings(have map[string]bool) []string {
	var out []string
	for _, b := range strnumBases {
		rs := []rune(b)
		for p := 0; p <= len(rs); p++ {
			for _, c := range append(append([]rune{}, strnumWhite...), strnumNearMiss...) {
				m := string(rs[:p]) + string(c) + string(rs[p:])
				if !have[m] {
					have[m] = true
					out = append(out, m)
				}
			}
		}
	}
	return out
}

type strnumCtx struct {
	name string
	src  string
	f    func(c *conv.Ctx, s conv.Value) (conv.Value, *conv.Thrown)
}

var strnumContexts = []strnumCtx{
	{"Number(s)", "function(a){ return Number(a) }", func(c *conv.Ctx, s conv.Value) (conv.Value, *conv.Thrown) {
		f, th := c.ToNumber(s)
		return conv.Num(f), th
	}},
	{"+s", "function(a){ return +a }", func(c *conv.Ctx, s conv.Value) (conv.Value, *conv.Thrown) {
		v, _, th := c.Unary("+", s)
		return v, th
	}},
	{"s-0", "function(a){ return a-0 }", func(c *conv.Ctx, s conv.Value) (conv.Value, *conv.Thrown) { return c.Binary("-", s, conv.Num(0)) }},
	{"1/s", "function(a){ return 1/a }", func(c *conv.Ctx, s conv.Value) (conv.Value, *conv.Thrown) { return c.Binary("/", conv.Num(1), s) }},
	{"s|0", "function(a){ return a|0 }", func(c *conv.Ctx, s conv.Value) (conv.Value, *conv.Thrown) { return c.Binary("|", s, conv.Num(0)) }},
	{"s==16", "function(a){ return a==16 }", func(c *conv.Ctx, s conv.Value) (conv.Value, *conv.Thrown) { return c.Binary("==", s, conv.Num(16)) }},
	{"s<1", "function(a){ return a<1 }", func(c *conv.Ctx, s conv.Value) (conv.Value, *conv.Thrown) { return c.Binary("<", s, conv.Num(1)) }},
	{"Value.ToFloat", "", func(c *conv.Ctx, s conv.Value) (conv.Value, *conv.Thrown) {
		f, th := c.ToNumber(s)
		return conv.Num(f), th
	}},
}

func runStrNum(r *engine.Run) {
	h := setup(r)
	if h == nil {
		return
	}
	strs := strnumStrings(r.Thorough())
	r.Bound("base_forms", strconv.Itoa(len(strnumBases)))
	r.Bound("strings", strconv.Itoa(len(strs)))
	if r.Thorough() {
		r.Bound("insertions", "up to 2, each from 16 characters")
	} else {
		r.Bound("insertions", "up to 2, each from 8 characters (+ - space _ . e x 0)")
	}
	type item struct {
		s     string
		units bool // held as UTF-16 units (String.fromCharCode) instead of a Go string
	}
	var items []item
	have := map[string]bool{}
	for _, s := range strs {
		have[s] = true
		items = append(items, item{s, false})
	}
	white := strnumWhiteStrings(have)
	r.Bound("white_space_strings", strconv.Itoa(len(white))+" (x 2 internal representations)")
	for _, s := range white {
		items = append(items, item{s, false}, item{s, true})
	}
	for _, it := range items {
		s := it.s
		if r.Expired() {
			r.Cap("time budget reached in strnum")
			return
		}
		sm := conv.Str(s)
		var real otto.Value
		made := -1
		suffix := ""
		if it.units {
			suffix = "#units"
		}
		for ci := range strnumContexts {
			cx := &strnumContexts[ci]
			key := cx.name + "|" + strconv.QuoteToASCII(s) + suffix
			if !r.MineKey(key) {
				continue
			}
			r.Tree(1, 1)
			if made != h.rebuilds {
				if it.units {
					parts := ""
					for i, c := range conv.Units(s) {
						if i > 0 {
							parts += ","
						}
						parts += strconv.Itoa(int(c))
					}
					res, err := h.vm.Run("String.fromCharCode(" + parts + ")")
					if err != nil {
						r.HarnessError("cannot build units string: " + err.Error())
						return
					}
					real = res
				} else {
					real, _ = h.vm.ToValue(s)
				}
				made = h.rebuilds
			}
			eval := func(q conv.Quirks) string {
				c := &conv.Ctx{Q: q}
				v, th := cx.f(c, sm)
				return expected(v, th, c)
			}
			exp := eval(conv.Quirks{})
			var obs outcome
			r.Begin(key)
			if cx.src != "" {
				obs = h.call(cx.src, real)
			} else {
				obs = h.run(func() (otto.Value, error) {
					f, err := real.ToFloat()
					if err != nil {
						return otto.Value{}, err
					}
					return otto.ToValue(f)
				})
			}
			r.End()
			r.Eval(true)
			report(r, h, key, fmt.Sprintf("%s with s = %s%s", cx.name, strconv.QuoteToASCII(s), suffix), exp, obs, eval)
		}
	}
}
