package c05

import (
	"fmt"
	"sort"
	"strconv"

	"github.com/robertkrimen/otto"

	"verif/mc/engine"
	"verif/mc/ref/conv"
)

// ToNumber(String) on systematic mutations of every StringNumericLiteral form
// (9.3.1): each of a small alphabet of characters is inserted at EVERY position
// of each base form (up to two insertions; 8 characters in the quick tier, 16 in the thorough tier);
// the expected Number comes from the model's own grammar recogniser. The strings
// reach ToNumber through every operator family that applies it.

var strnumBases = []string{
	"", "0", "1", "12", "1.5", ".5", "5.", "1e3", "1E+3", "1.5e-3", "0x10", "0X1F", "0xE", "Infinity", "-Infinity", "+Infinity",
	"+1", "-1.5", "-0", " 12 ", "010", "1e21",
}

var strnumInsert = []string{"+", "-", " ", "_", ".", "e", "x", "0"}
var strnumInsertThorough = []string{"E", "X", "p", "I", "\t", "\uFEFF", "1", "f"}

func strnumStrings(thorough bool) []string {
	alpha := strnumInsert
	if thorough {
		alpha = append(append([]string{}, strnumInsert...), strnumInsertThorough...)
	}
	set := map[string]bool{}
	var level []string
	for _, b := range strnumBases {
		if !set[b] {
			set[b] = true
			level = append(level, b)
		}
	}
	insertAll := func(src []string, alpha []string) []string {
		var out []string
		for _, s := range src {
			rs := []rune(s)
			for p := 0; p <= len(rs); p++ {
				for _, c := range alpha {
					m := string(rs[:p]) + c + string(rs[p:])
					if !set[m] {
						set[m] = true
						out = append(out, m)
					}
				}
			}
		}
		return out
	}
	one := insertAll(level, alpha)
	all := append(append([]string{}, level...), one...)
	all = append(all, insertAll(one, alpha)...) // second insertion
	sort.SliceStable(all, func(i, j int) bool { return len(all[i]) < len(all[j]) })
	return all
}

type strnumCtx struct {
	name string
	src  string
	f    func(c *conv.Ctx, s conv.Value) (conv.Value, *conv.Thrown)
}

var strnumContexts = []strnumCtx{
	{"Number(s)", "function(a){ return Number(a) }", func(c *conv.Ctx, s conv.Value) (conv.Value, *conv.Thrown) {
		f, th := c.ToNumber(s)
		return conv.Num(f), th
	}},
	{"+s", "function(a){ return +a }", func(c *conv.Ctx, s conv.Value) (conv.Value, *conv.Thrown) {
		v, _, th := c.Unary("+", s)
		return v, th
	}},
	{"s-0", "function(a){ return a-0 }", func(c *conv.Ctx, s conv.Value) (conv.Value, *conv.Thrown) { return c.Binary("-", s, conv.Num(0)) }},
	{"1/s", "function(a){ return 1/a }", func(c *conv.Ctx, s conv.Value) (conv.Value, *conv.Thrown) { return c.Binary("/", conv.Num(1), s) }},
	{"s|0", "function(a){ return a|0 }", func(c *conv.Ctx, s conv.Value) (conv.Value, *conv.Thrown) { return c.Binary("|", s, conv.Num(0)) }},
	{"s==16", "function(a){ return a==16 }", func(c *conv.Ctx, s conv.Value) (conv.Value, *conv.Thrown) { return c.Binary("==", s, conv.Num(16)) }},
	{"s<1", "function(a){ return a<1 }", func(c *conv.Ctx, s conv.Value) (conv.Value, *conv.Thrown) { return c.Binary("<", s, conv.Num(1)) }},
	{"Value.ToFloat", "", func(c *conv.Ctx, s conv.Value) (conv.Value, *conv.Thrown) {
		f, th := c.ToNumber(s)
		return conv.Num(f), th
	}},
}

func runStrNum(r *engine.Run) {
	h := setup(r)
	if h == nil {
		return
	}
	strs := strnumStrings(r.Thorough())
	r.Bound("base_forms", strconv.Itoa(len(strnumBases)))
	r.Bound("strings", strconv.Itoa(len(strs)))
	if r.Thorough() {
		r.Bound("insertions", "up to 2, each from 16 characters")
	} else {
		r.Bound("insertions", "up to 2, each from 8 characters (+ - space _ . e x 0)")
	}
	for _, s := range strs {
		if r.Expired() {
			r.Cap("time budget reached in strnum")
			return
		}
		sm := conv.Str(s)
		var real otto.Value
		made := false
		for ci := range strnumContexts {
			cx := &strnumContexts[ci]
			key := cx.name + "|" + strconv.QuoteToASCII(s)
			if !r.MineKey(key) {
				continue
			}
			r.Tree(1, 1)
			if !made {
				real, _ = h.vm.ToValue(s)
				made = true
			}
			eval := func(q conv.Quirks) string {
				c := &conv.Ctx{Q: q}
				v, th := cx.f(c, sm)
				return expected(v, th, c)
			}
			exp := eval(conv.Quirks{})
			var obs outcome
			r.Begin(key)
			if cx.src != "" {
				obs = h.call(cx.src, real)
			} else {
				obs = h.run(func() (otto.Value, error) {
					f, err := real.ToFloat()
					if err != nil {
						return otto.Value{}, err
					}
					return otto.ToValue(f)
				})
			}
			r.End()
			r.Eval(true)
			report(r, h, key, fmt.Sprintf("%s with s = %s", cx.name, strconv.QuoteToASCII(s)), exp, obs, eval)
		}
	}
}
