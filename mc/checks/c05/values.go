package c05

import (
	"fmt"
	"math"
	"strconv"
	"strings"

	"verif/mc/ox"
	"verif/mc/ref/conv"
)

// carrier says how a value reaches the runtime.
//
//	""        the canonical Go type (float64 for numbers, string, bool, otto.Value for undefined/null)
//	"lit"     the Value produced by running the value's source text (lexer-chosen Go kind)
//	"int8"... the named Go kind through Otto.ToValue (the conversion Otto.Set applies)
type val struct {
	name    string
	carrier string
	m       conv.Value // model value for primitives
	goVal   interface{}
	src     string   // source text for carrier "lit"
	obj     *objSpec // objects
	base    string   // name of the value without carrier (for the representation differential)
}

func (v *val) isObj() bool { return v.obj != nil }

var p2 = math.Pow

// numbers of V: name -> value (order = simplest first).
type numv struct {
	name string
	f    float64
}

func numbers() []numv {
	l := []numv{
		{"0", 0}, {"-0", math.Copysign(0, -1)}, {"1", 1}, {"-1", -1}, {"NaN", math.NaN()},
		{"Inf", math.Inf(1)}, {"-Inf", math.Inf(-1)},
		{"0.5", 0.5}, {"-0.5", -0.5}, {"1.5", 1.5}, {"-1.5", -1.5}, {"0.1", 0.1},
	}
	big := []numv{
		{"2^31-1", p2(2, 31) - 1}, {"2^31", p2(2, 31)}, {"2^31+1", p2(2, 31) + 1},
		{"2^32-1", p2(2, 32) - 1}, {"2^32", p2(2, 32)}, {"2^32+1", p2(2, 32) + 1},
		{"2^53-1", p2(2, 53) - 1}, {"2^53", p2(2, 53)}, {"2^53+2", p2(2, 53) + 2},
		{"2^63", p2(2, 63)}, {"2^63+2048", p2(2, 63) + 2048}, {"2^64", p2(2, 64)},
	}
	l = append(l, big...)
	for _, b := range big {
		l = append(l, numv{"-(" + b.name + ")", -b.f})
	}
	l = append(l,
		numv{"123456789", 123456789}, numv{"31", 31}, numv{"33", 33}, numv{"65537", 65537},
		// boundaries of the narrow Go integer kinds (int8, uint8, int16, uint16)
		numv{"127", 127}, numv{"128", 128}, numv{"255", 255}, numv{"256", 256}, numv{"32767", 32767}, numv{"32768", 32768},
		numv{"65535", 65535}, numv{"65536", 65536}, numv{"-128", -128}, numv{"-129", -129}, numv{"-32768", -32768}, numv{"-32769", -32769},
		numv{"1e21", 1e21}, numv{"1.2345678901234568e20", 1.2345678901234568e20}, numv{"1e-6", 1e-6}, numv{"1e-7", 1e-7},
		numv{"1e300", 1e300},
		numv{"MIN", math.SmallestNonzeroFloat64}, numv{"MAX", math.MaxFloat64},
	)
	return l
}

// strings of V.
func stringsV() []string {
	return []string{
		"", " ", "0", "-0", "1", " 12 ", "1.5", ".5", "5.", "1e3", "0x10", "0X1F", "-0x10", "0b1", "0o7", "010",
		"Infinity", "-Infinity", "+Infinity", "infinity", "inf", "NaN", "1_0", "0x1p3", "0x1.8p1", "0x1_0", "1,2", "abc",
		"\n1\t", "\u00A01\uFEFF", "\u20281\u2029\u3000", "9007199254740993", "0x8000000000000000", "1e1000", "-1e-1000", "x", "12", "D",
	}
}

// exotic strings (thorough tier): astral vs BMP ordering by UTF-16 code units.
func stringsExotic() []string {
	return []string{"\uFF5E", "\U0001F600",
		// more spellings of the Go-only number syntax and of out-of-range hex (same classes as the quick-tier representatives)
		"-inf", "+Inf", "INFINITY", "iNfInItY", "nan", "1e1_0", "1_0.5", "0_1", "0X.1P8", "-0x1.8p1", "0x.8p1", "0xffffffffffffffff", "0xFFFFFFFFFFFFFFFFFFFF", "0x7fffffffffffffff"}
}

func primName(s string) string { return "s:" + strconv.QuoteToASCII(s) }

var goKinds = []string{"int", "int8", "int16", "int32", "int64", "uint", "uint8", "uint16", "uint32", "uint64", "float32"}

// inKind converts f to the Go kind k when f is exactly representable there.
func inKind(f float64, k string) (interface{}, string, bool) {
	if k == "float32" {
		g := float32(f)
		if math.IsNaN(f) {
			return g, "", true
		}
		if float64(g) == f && math.Signbit(float64(g)) == math.Signbit(f) {
			return g, "", true
		}
		return nil, "", false
	}
	if math.IsNaN(f) || math.IsInf(f, 0) || f != math.Trunc(f) || (f == 0 && math.Signbit(f)) {
		return nil, "", false
	}
	lim := map[string][2]float64{
		"int": {-p2(2, 63), p2(2, 63)}, "int8": {-128, 128}, "int16": {-32768, 32768}, "int32": {-p2(2, 31), p2(2, 31)}, "int64": {-p2(2, 63), p2(2, 63)},
		"uint": {0, p2(2, 64)}, "uint8": {0, 256}, "uint16": {0, 65536}, "uint32": {0, p2(2, 32)}, "uint64": {0, p2(2, 64)},
	}[k]
	if f < lim[0] || f >= lim[1] {
		return nil, "", false
	}
	if strings.HasPrefix(k, "u") {
		u := uint64(f)
		t := strconv.FormatUint(u, 10)
		switch k {
		case "uint":
			return uint(u), t, true
		case "uint8":
			return uint8(u), t, true
		case "uint16":
			return uint16(u), t, true
		case "uint32":
			return uint32(u), t, true
		}
		return u, t, true
	}
	i := int64(f)
	t := strconv.FormatInt(i, 10)
	switch k {
	case "int":
		return int(i), t, true
	case "int8":
		return int8(i), t, true
	case "int16":
		return int16(i), t, true
	case "int32":
		return int32(i), t, true
	}
	return i, t, true
}

// quickCarrier: the reduced set of Go-kind carriers the quick tier injects through
// Otto.Set (kind/number): the boundaries of the kinds otto also uses internally.
var quickCarrier = map[string]bool{
	"int32/-(2^31)": true, "int32/2^31-1": true, "int32/-1": true, "int32/0": true, "int32/1": true,
	"uint32/2^32-1": true, "uint32/2^31": true, "uint32/0": true,
	"int8/-128": true, "int8/127": true, "uint8/255": true, "uint8/128": true,
	"int16/-32768": true, "uint16/65535": true,
	"int64/-(2^63)": true, "int64/2^53": true, "int64/-(2^31)": true, "int64/2^31": true, "int64/2^32-1": true,
	"int/-1": true, "int/-(2^31)": true, "uint64/2^63": true, "float32/-0": true, "float32/2^31": true,
}

// litIntText: the lexer carries a decimal integer literal that fits int64 as int64.
func litIntText(f float64) string {
	if math.IsNaN(f) || math.IsInf(f, 0) || f != math.Trunc(f) || f < 0 || f >= p2(2, 63) || (f == 0 && math.Signbit(f)) {
		return ""
	}
	return strconv.FormatInt(int64(f), 10)
}

// buildV returns the value universe of a tier (objects are per side and are
// appended by the harness; here only their specs).
func buildV(thorough bool) []*val {
	var out []*val
	add := func(v *val) {
		if v.base == "" {
			v.base = v.name
		}
		out = append(out, v)
	}
	add(&val{name: "undefined", m: conv.Undef()})
	add(&val{name: "null", m: conv.Nul()})
	add(&val{name: "true", m: conv.Boolean(true), goVal: true})
	add(&val{name: "false", m: conv.Boolean(false), goVal: false})
	for _, n := range numbers() {
		base := "n:" + n.name
		add(&val{name: base, m: conv.Num(n.f), goVal: n.f})
		// the same number as the lexer delivers it (quick tier too: "V x V with literals")
		lm := conv.Num(n.f)
		lm.IntText = litIntText(n.f)
		add(&val{name: base + "#lit", base: base, carrier: "lit", m: lm, src: ox.JSNum(n.f)})
		for _, k := range goKinds {
			if !thorough && !quickCarrier[k+"/"+n.name] {
				continue
			}
			g, txt, ok := inKind(n.f, k)
			if !ok {
				continue
			}
			m := conv.Num(n.f)
			m.IntText = txt
			add(&val{name: base + "#" + k, base: base, carrier: k, m: m, goVal: g})
		}
	}
	// integers no double can hold: only as integer carriers / literals; the Number is the nearest double
	inexact := []struct {
		name string
		i    int64
		u    uint64
		lit  string
	}{
		{"2^53+1", 1<<53 + 1, 1<<53 + 1, "9007199254740993"},
		{"2^63-1", math.MaxInt64, math.MaxInt64, "9223372036854775807"},
		{"2^64-1", 0, math.MaxUint64, ""},
		{"-(2^53+1)", -(1<<53 + 1), 0, ""},
	}
	for _, x := range inexact {
		base := "n:" + x.name
		if x.lit != "" {
			f, _ := strconv.ParseFloat(x.lit, 64)
			m := conv.Num(f)
			m.IntText = x.lit
			add(&val{name: base + "#lit", base: base, carrier: "lit", m: m, src: x.lit})
		}
		if !thorough {
			continue
		}
		if x.i != 0 {
			m := conv.Num(float64(x.i))
			m.IntText = strconv.FormatInt(x.i, 10)
			add(&val{name: base + "#int64", base: base, carrier: "int64", m: m, goVal: x.i})
			add(&val{name: base + "#int", base: base, carrier: "int", m: m, goVal: int(x.i)})
		}
		if x.u != 0 {
			m := conv.Num(float64(x.u))
			m.IntText = strconv.FormatUint(x.u, 10)
			add(&val{name: base + "#uint64", base: base, carrier: "uint64", m: m, goVal: x.u})
			add(&val{name: base + "#uint", base: base, carrier: "uint", m: m, goVal: uint(x.u)})
		}
	}
	ss := stringsV()
	if thorough {
		ss = append(ss, stringsExotic()...)
	}
	for _, s := range ss {
		add(&val{name: primName(s), m: conv.Str(s), goVal: s})
	}
	// strings with lone surrogates (no Go string can carry them: built in-language from code units)
	lone := [][]uint16{{0xD800}, {0xD801}, {0xDC00}, {0xFFFD}}
	if thorough {
		lone = append(lone, []uint16{0xD83D}, []uint16{0xDE00}, []uint16{'a', 0xD800}, []uint16{0xDC00, 0xD800})
	}
	for _, u := range lone {
		name := "s16:"
		for _, c := range u {
			name += fmt.Sprintf("%04X", c)
		}
		add(&val{name: name, carrier: "u16", m: conv.Str(conv.FromUnits(u)), src: ox.JSString(u)})
	}
	for _, o := range objectSpecs() {
		o := o
		add(&val{name: "o:" + o.name, obj: &o})
	}
	return out
}

// ---- objects ---------------------------------------------------------------

// objSpec describes an object of V; it is instantiated once per operand side
// ("a", "b", ...) both as a model object and as a real object.
type objSpec struct {
	name     string
	class    string // Object, Date, Array, Function, Number, String, Boolean
	ctor     string // JS expression creating the bare object ("" = {})
	valueOf  conv.Method
	toString conv.Method
	callable bool
	prim     *conv.Value
	builtin  string
	names    []string
	special  string // "fn", "inst", "bound", "badproto"
}

func prim(v conv.Value) conv.Method { return conv.Method{R: conv.RetPrim, V: v} }

var (
	mAbsent = conv.Method{R: conv.Absent}
	mObj    = conv.Method{R: conv.RetObj}
	mThrow  = conv.Method{R: conv.Throws}
)

// plainNames are the own properties of the plain object `o:plain` (the right operand of `in`).
var plainNames = []string{"0", "1", "abc", "NaN", "undefined", "null", "true", "Infinity", "-Infinity", "1.5", "0.5", "0.1",
	"1e+21", "1e-7", "0.000001", "4294967296", "2147483648", "-1", "", "x", "D", "12", "[object Object]", "9007199254740992",
	"9223372036854776000", "5e-324", "F", "123456789012345680000", "\uFFFD"}

func objectSpecs() []objSpec {
	negZero := conv.Num(math.Copysign(0, -1))
	w31 := conv.Num(2147483648)
	w1 := conv.Str("1")
	wf := conv.Boolean(false)
	return []objSpec{
		{name: "vN", class: "Object", valueOf: prim(conv.Num(7)), toString: prim(conv.Str("x"))},
		{name: "vS", class: "Object", valueOf: prim(conv.Str("12")), toString: prim(conv.Num(3))},
		{name: "vOtS", class: "Object", valueOf: mObj, toString: prim(conv.Str("0x10"))},
		{name: "vOtO", class: "Object", valueOf: mObj, toString: mObj},
		{name: "vT", class: "Object", valueOf: mThrow, toString: prim(conv.Str("s"))},
		{name: "vAtS", class: "Object", valueOf: mAbsent, toString: prim(conv.Str(" 12 "))},
		{name: "vAtA", class: "Object", valueOf: mAbsent, toString: mAbsent},
		{name: "vOtT", class: "Object", valueOf: mObj, toString: mThrow},
		{name: "vZtT", class: "Object", valueOf: prim(negZero), toString: mThrow},
		{name: "date", class: "Date", ctor: "new Date(0)", valueOf: prim(conv.Num(5)), toString: prim(conv.Str("D"))},
		{name: "plain", class: "Object", builtin: "[object Object]", names: plainNames},
		{name: "arr0", class: "Array", ctor: "[]", builtin: "", names: []string{"length"}},
		{name: "arr1", class: "Array", ctor: "[5]", builtin: "5", names: []string{"0", "length"}},
		{name: "fn", class: "Function", ctor: "function(){}", toString: prim(conv.Str("F")), callable: true, special: "fn", names: []string{"length", "prototype"}},
		{name: "inst", class: "Object", ctor: "Object.create(__P0)", builtin: "[object Object]", special: "inst"},
		{name: "bound", class: "Function", toString: prim(conv.Str("B")), callable: true, special: "bound", names: []string{"length"}},
		{name: "badproto", class: "Function", ctor: "function(){}", toString: prim(conv.Str("G")), callable: true, special: "badproto", names: []string{"length", "prototype"}},
		{name: "wNum", class: "Number", ctor: "new Number(2147483648)", prim: &w31, builtin: "2147483648"},
		{name: "wStr", class: "String", ctor: "new String(\"1\")", prim: &w1, builtin: "1", names: []string{"0", "length"}},
		{name: "wBool", class: "Boolean", ctor: "new Boolean(false)", prim: &wf, builtin: "false"},
	}
}

// model instantiates the spec as a model object for an operand side.
func (s *objSpec) model(side string, shared *sharedModel) *conv.Obj {
	o := &conv.Obj{ID: side + "." + s.name, Class: s.class, Callable: s.callable,
		ValueOf: s.valueOf, ToString: s.toString, Prim: s.prim, BuiltinStr: s.builtin, Names: map[string]bool{}}
	for _, n := range s.names {
		o.Names[n] = true
	}
	o.Names["__id"] = true
	switch s.special {
	case "fn":
		pv := conv.ObjectOf(shared.p0)
		o.PrototypeProp = &pv
	case "inst":
		o.Proto = shared.p0
	case "badproto":
		pv := conv.Num(1)
		o.PrototypeProp = &pv
	}
	return o
}

type sharedModel struct{ p0 *conv.Obj }

func methodJS(id, name string, m conv.Method) string {
	switch m.R {
	case conv.Inherit:
		return ""
	case conv.Absent:
		return fmt.Sprintf("o.%s = undefined;", name)
	case conv.NonCallable:
		return fmt.Sprintf("o.%s = 1;", name)
	case conv.RetObj:
		return fmt.Sprintf("o.%s = function(){ __log(%q); return {} };", name, id+"."+name)
	case conv.Throws:
		return fmt.Sprintf("o.%s = function(){ __log(%q); throw new EvalError(\"user\") };", name, id+"."+name)
	}
	return fmt.Sprintf("o.%s = function(){ __log(%q); return %s };", name, id+"."+name, jsPrim(m.V))
}

func jsPrim(v conv.Value) string {
	switch v.K {
	case conv.Undefined:
		return "undefined"
	case conv.Null:
		return "null"
	case conv.Bool:
		if v.B {
			return "true"
		}
		return "false"
	case conv.Number:
		return ox.JSNum(v.N)
	case conv.String:
		return ox.JSString(conv.Units(v.S)) // a literal for printable ASCII, String.fromCharCode(...) otherwise
	}
	panic("jsPrim: object")
}

// js renders the creation of the real object for an operand side. Objects of
// side X may refer to __F_X (the side's function object) and __P0.
func (s *objSpec) js(side string) string {
	id := side + "." + s.name
	ctor := s.ctor
	if ctor == "" {
		ctor = "{}"
	}
	if s.special == "bound" {
		ctor = "__F_" + side + ".bind(null)"
	}
	var sb strings.Builder
	sb.WriteString("(function(){ var o = " + ctor + ";")
	fmt.Fprintf(&sb, "o.__id = %q;", id)
	for _, n := range s.names {
		if s.class == "Object" && s.special == "" {
			fmt.Fprintf(&sb, "o[%s] = 1;", ox.JSLit(n))
		}
	}
	sb.WriteString(methodJS(id, "valueOf", s.valueOf))
	sb.WriteString(methodJS(id, "toString", s.toString))
	switch s.special {
	case "fn":
		sb.WriteString("o.prototype = __P0; __F_" + side + " = o;")
	case "badproto":
		sb.WriteString("o.prototype = 1;")
	}
	sb.WriteString("return o })()")
	return sb.String()
}

// canonical rendering of model values (must match harness.canon on real values)
func canonModel(v conv.Value) string {
	switch v.K {
	case conv.Undefined:
		return "u"
	case conv.Null:
		return "n"
	case conv.Bool:
		if v.B {
			return "b:1"
		}
		return "b:0"
	case conv.Number:
		return "d:" + numRender(v.N)
	case conv.String:
		return ox.Str16(conv.Units(v.S))
	}
	return "o:" + v.O.ID
}

// numRender renders result numbers (ox.Num; the development-time dump for a
// second opinion switches to raw bits).
var numRender = ox.Num
