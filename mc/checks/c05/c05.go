// Package c05 checks that type conversions (ES5 section 9) and the operators of
// section 11 produce the ES5 result on a dense boundary set of values, in every
// Go representation a number can arrive in, with the operand evaluation and
// coercion order observed through logging valueOf/toString methods.
// The oracle is the reference model verif/mc/ref/conv.
package c05

import (
	"fmt"
	"math"
	"strconv"
	"strings"
	"time"

	"github.com/robertkrimen/otto"

	"verif/mc/engine"
	"verif/mc/ox"
	"verif/mc/ref/conv"
)

func init() {
	engine.Register(&engine.Check{
		ID:    "C05",
		Title: "Type conversions and operators follow ES5 sections 9 and 11 on every value",
		Rule: "full products over the value set V (undefined, null, booleans, boundary doubles, numeric-looking strings, objects with scripted valueOf/toString; " +
			"thorough tier: every integral number additionally in every Go integer/float kind and as the lexer's literal): V x V x 24 binary operators, V x 11 unary forms, " +
			"V x conversion observers (Number, String, !!, |0, >>>0, fromCharCode, slice, Value.ToFloat/ToInteger/ToString/ToBoolean), all valueOf/toString behaviour pairs x hint contexts, " +
			"operand forms (call, accessor, call+accessor, variable) x operators for evaluation order, exponent x mantissa sweep for ToInt32/ToUint32/ToUint16, " +
			"operator composition op2(op1(x)) and op2(op1(x), op1'(y)) over every result-kind-producing operation (bitwise, >>>, charCodeAt, lengths, indexOf, Date getters, parseInt, Math, arithmetic) at boundary inputs, " +
			"ToString(Number) kind twins: V numbers and a 2^k / 10^k neighbour lattice x argument forms (injected float64, exponent literal, integer literal, text) x computations (a*1, -(-a), a-0, a/1, +a, Number, parseFloat) x 11 ToString contexts. " +
			"ToNumber(String): every single and double insertion of + - space _ . e x 0 (thorough: 16 characters) at every position of each StringNumericLiteral form x 8 ToNumber contexts. " +
			"String order: all pairs of well-formed strings around U+D7FF/U+E000/U+FFFD/U+FFFF/U+10000/U+1F600/U+10FFFF (alone, a-prefixed, a-suffixed) x 4 carriers per side x < > <= >= == === and default sort. " +
			"Each case compares result (IEEE class / exact bits, string, boolean, object identity), thrown class and the coercion log with the model. " +
			"A case is trivial when the model throws a TypeError before any coercion (e.g. `x in 1`); everything else is non-trivial.",
		Families: []engine.Family{
			{Name: "binary", Run: runBinary},
			{Name: "unary", Run: runUnary},
			{Name: "conv", Run: runConv},
			{Name: "toprim", Run: runToPrim},
			{Name: "ternary", Run: runTernary},
			{Name: "order", Run: runOrder},
			{Name: "compose", Run: runCompose},
			{Name: "tostring", Run: runToString},
			{Name: "strnum", Run: runStrNum},
			{Name: "strorder", Run: runStrOrder},
			{Name: "intsweep", Run: runIntSweep},
			{Name: "arith", Run: runArith},
			{Name: "compound", Run: runCompound, ThoroughOnly: true},
			{Name: "repr", Run: runRepr, ThoroughOnly: true},
		},
		Assumptions: []string{
			"ref/conv is a faithful transcription of ES5.1 sections 8.12.8, 9.1-9.8, 11.4-11.14 (trusted model; validated against V8 at development time)",
			"strconv.ParseFloat/FormatFloat give correctly rounded / shortest digits for plain decimal literals (the grammar and the 9.8.1 layout are the model's own)",
			"Go float64 + - * / are IEEE-754 binary64 round-to-nearest-even operations",
			"operands injected through Otto.Set/Get or as arguments of Value.Call behave like operands written in source (the lexer's literal representation is covered separately by the #lit carriers)",
		},
		CrashIsViolation: true,
		QuickBudget:      150 * time.Second,
		ThoroughBudget:   25 * time.Minute,
	})
}

func setup(r *engine.Run) *harness {
	h := newHarness(r.Thorough())
	if h.buildErr != "" {
		r.Mismatch(engine.Mismatch{Key: "build", Input: "instantiate the value set in a fresh runtime", Expected: "all values injected", Observed: h.buildErr})
		return nil
	}
	return h
}

func trivial(exp string) bool { return strings.HasPrefix(exp, "throw:TypeError log=[]") }

// ---- binary ------------------------------------------------------------------

func binarySrc(op string) string { return "function(a,b){ return a " + op + " b }" }

func binaryCase(r *engine.Run, h *harness, key, op string, am, bm conv.Value, ar, br otto.Value, an, bn string) {
	src := binarySrc(op)
	eval := func(q conv.Quirks) string {
		c := &conv.Ctx{Q: q}
		v, th := c.Binary(op, am, bm)
		return expected(v, th, c)
	}
	exp := eval(conv.Quirks{})
	r.Begin(key)
	obs := h.call(src, ar, br)
	r.End()
	r.Eval(!trivial(exp))
	report(r, h, key, fmt.Sprintf("(%s)(%s, %s)", src, an, bn), exp, obs, eval)
}

func runBinary(r *engine.Run) {
	h := setup(r)
	if h == nil {
		return
	}
	n := len(h.V)
	r.Bound("values", strconv.Itoa(n))
	r.Bound("operators", strings.Join(conv.BinaryOps, " "))
	for _, op := range conv.BinaryOps {
		if r.Expired() {
			r.Cap("time budget reached in binary at operator " + op)
			return
		}
		for i, a := range h.V {
			for j, b := range h.V {
				key := op + "|" + a.name + "|" + b.name
				if !r.MineKey(key) {
					continue
				}
				r.Tree(1, 1)
				binaryCase(r, h, key, op, h.models["a"][i], h.models["b"][j], h.real["a"][i], h.real["b"][j], a.name, b.name)
			}
			if a.isObj() { // the same object on both sides
				key := op + "|" + a.name + "|=same"
				if r.MineKey(key) {
					r.Tree(1, 1)
					binaryCase(r, h, key, op, h.models["a"][i], h.models["a"][i], h.real["a"][i], h.real["a"][i], a.name, "the same object")
				}
			}
		}
	}
}

// ---- compound assignment values (11.13.2) -------------------------------------------

// runCompound: `a op= b` on plain variables must yield (and store) the value of `a op b`.
func runCompound(r *engine.Run) {
	h := setup(r)
	if h == nil {
		return
	}
	var base []int
	for i, v := range h.V {
		if v.carrier == "" {
			base = append(base, i)
		}
	}
	r.Bound("values", strconv.Itoa(len(base)))
	r.Bound("operators", strings.Join(compoundOps, "= ")+"=")
	for _, op := range compoundOps {
		src := "function(a,b){ var r = (a " + op + "= b); __out(a); return r }"
		for _, i := range base {
			for _, j := range base {
				a, b := h.V[i], h.V[j]
				key := op + "=|" + a.name + "|" + b.name
				if !r.MineKey(key) {
					continue
				}
				r.Tree(1, 1)
				am, bm := h.models["a"][i], h.models["b"][j]
				eval := func(q conv.Quirks) string {
					c := &conv.Ctx{Q: q}
					v, th := c.Binary(op, am, bm)
					if th != nil {
						return expected(v, th, c)
					}
					return expected(v, th, c, canonModel(v))
				}
				exp := eval(conv.Quirks{})
				r.Begin(key)
				obs := h.call(src, h.real["a"][i], h.real["b"][j])
				r.End()
				r.Eval(true)
				report(r, h, key, fmt.Sprintf("(%s)(%s, %s)", src, a.name, b.name), exp, obs, eval)
			}
		}
	}
}

// ---- unary -------------------------------------------------------------------

func unarySrc(op string) string {
	switch op {
	case "++", "--":
		return "function(a){ var r = " + op + "a; __out(a); return r }"
	case "p++", "p--":
		return "function(a){ var r = a" + op[1:] + "; __out(a); return r }"
	case "typeof", "void", "delete":
		return "function(a){ return " + op + " a }"
	}
	return "function(a){ return " + op + "a }"
}

func unaryCase(r *engine.Run, h *harness, key, op string, am conv.Value, ar otto.Value, an string) {
	src := unarySrc(op)
	eval := func(q conv.Quirks) string {
		c := &conv.Ctx{Q: q}
		v, after, th := c.Unary(op, am)
		if strings.HasSuffix(op, "++") || strings.HasSuffix(op, "--") {
			if th != nil {
				return expected(v, th, c)
			}
			return expected(v, th, c, canonModel(after))
		}
		return expected(v, th, c)
	}
	exp := eval(conv.Quirks{})
	r.Begin(key)
	obs := h.call(src, ar)
	r.End()
	r.Eval(!trivial(exp))
	report(r, h, key, fmt.Sprintf("(%s)(%s)", src, an), exp, obs, eval)
}

func runUnary(r *engine.Run) {
	h := setup(r)
	if h == nil {
		return
	}
	r.Bound("values", strconv.Itoa(len(h.V)))
	r.Bound("operators", strings.Join(conv.UnaryOps, " "))
	for _, op := range conv.UnaryOps {
		for i, a := range h.V {
			key := op + "|" + a.name
			if !r.MineKey(key) {
				continue
			}
			r.Tree(1, 1)
			unaryCase(r, h, key, op, h.models["a"][i], h.real["a"][i], a.name)
		}
	}
}

// ---- conversions ---------------------------------------------------------------

// inexactCarrier: the value is an integer carrier holding an integer no double can hold.
func inexactCarrier(a conv.Value) bool {
	return a.K == conv.Number && a.IntText != "" && strconv.FormatFloat(a.N, 'f', 0, 64) != a.IntText
}

// toIntegerGo models Value.ToInteger: ToInteger (9.4) of the Number, saturated to
// the int64 range. (Integer carriers that no double can hold are not observed through
// it: whether the Go API answers with the exact carrier or with the double is outside
// ES5 and belongs to the Go round-trip property C15.)
func toIntegerGo(c *conv.Ctx, a conv.Value) (string, *conv.Thrown) {
	f, th := c.ToNumber(a)
	if th != nil {
		return "", th
	}
	f = conv.ToIntegerF(f)
	switch {
	case f >= 9223372036854775808.0:
		return "i:" + strconv.FormatInt(math.MaxInt64, 10), nil
	case f <= -9223372036854775808.0:
		return "i:" + strconv.FormatInt(math.MinInt64, 10), nil
	}
	return "i:" + strconv.FormatInt(int64(f), 10), nil
}

type observer struct {
	name  string
	src   string // in-language observer: function(a){...}; "" = Go-side
	model func(c *conv.Ctx, a conv.Value) (string, *conv.Thrown)
	goObs func(v otto.Value) (string, error)
}

func mv(v conv.Value, th *conv.Thrown) (string, *conv.Thrown) {
	if th != nil {
		return "", th
	}
	return canonModel(v), nil
}

var observers = []observer{
	{name: "Number(a)", src: "function(a){ return Number(a) }", model: func(c *conv.Ctx, a conv.Value) (string, *conv.Thrown) {
		f, th := c.ToNumber(a)
		return mv(conv.Num(f), th)
	}},
	{name: "String(a)", src: "function(a){ return String(a) }", model: func(c *conv.Ctx, a conv.Value) (string, *conv.Thrown) {
		s, th := c.ToString(a)
		return mv(conv.Str(s), th)
	}},
	{name: "!!a", src: "function(a){ return !!a }", model: func(c *conv.Ctx, a conv.Value) (string, *conv.Thrown) {
		return mv(conv.Boolean(conv.ToBoolean(a)), nil)
	}},
	{name: "Boolean(a)", src: "function(a){ return Boolean(a) }", model: func(c *conv.Ctx, a conv.Value) (string, *conv.Thrown) {
		return mv(conv.Boolean(conv.ToBoolean(a)), nil)
	}},
	{name: "a|0", src: "function(a){ return a|0 }", model: func(c *conv.Ctx, a conv.Value) (string, *conv.Thrown) {
		f, th := c.ToNumber(a)
		return mv(conv.Num(float64(c.ToInt32Q(f))), th)
	}},
	{name: "a>>>0", src: "function(a){ return a>>>0 }", model: func(c *conv.Ctx, a conv.Value) (string, *conv.Thrown) {
		f, th := c.ToNumber(a)
		return mv(conv.Num(float64(c.ToUint32Q(f))), th)
	}},
	{name: "fromCharCode(a)", src: "function(a){ return String.fromCharCode(a) }", model: func(c *conv.Ctx, a conv.Value) (string, *conv.Thrown) {
		f, th := c.ToNumber(a)
		if th != nil {
			return "", th
		}
		return ox.Str16([]uint16{c.ToUint16Q(f)}), nil // the one code unit, read back Go-side (no charCodeAt in the path)
	}},
	{name: "slice(a)", src: "function(a){ return [0,1,2].slice(a).length }", model: func(c *conv.Ctx, a conv.Value) (string, *conv.Thrown) {
		f, th := c.ToNumber(a)
		if th != nil {
			return "", th
		}
		rel := conv.ToIntegerF(f) // 15.4.4.10 step 5-6
		k := math.Min(rel, 3)
		if rel < 0 {
			k = math.Max(3+rel, 0)
		}
		return mv(conv.Num(3-k), nil)
	}},
	{name: "Value.ToFloat", model: func(c *conv.Ctx, a conv.Value) (string, *conv.Thrown) {
		f, th := c.ToNumber(a)
		return mv(conv.Num(f), th)
	}, goObs: func(v otto.Value) (string, error) {
		f, err := v.ToFloat()
		return "d:" + ox.Num(f), err
	}},
	{name: "Value.ToInteger", model: toIntegerGo, goObs: func(v otto.Value) (string, error) {
		i, err := v.ToInteger()
		return "i:" + strconv.FormatInt(i, 10), err
	}},
	{name: "Value.ToString", model: func(c *conv.Ctx, a conv.Value) (string, *conv.Thrown) {
		s, th := c.ToString(a)
		return mv(conv.Str(s), th)
	}, goObs: func(v otto.Value) (string, error) {
		s, err := v.ToString()
		return ox.Str16(ox.Units(s)), err
	}},
	{name: "Value.ToBoolean", model: func(c *conv.Ctx, a conv.Value) (string, *conv.Thrown) {
		return mv(conv.Boolean(conv.ToBoolean(a)), nil)
	}, goObs: func(v otto.Value) (string, error) {
		b, err := v.ToBoolean()
		if b {
			return "b:1", err
		}
		return "b:0", err
	}},
}

func observe(h *harness, o *observer, ar otto.Value) outcome {
	if o.src != "" {
		return h.call(o.src, ar)
	}
	h.log = h.log[:0]
	h.out = h.out[:0]
	var s string
	var err error
	res := ox.Guard(func() (otto.Value, error) {
		s, err = o.goObs(ar)
		return otto.Value{}, nil
	})
	switch {
	case res.Panicked:
		return outcome{text: render(fmt.Sprintf("panic:%v", res.PanicVal), h.log, nil), panicked: true}
	case err != nil:
		cls := ox.ErrClass(err)
		return outcome{text: render("throw:"+cls, h.log, nil), threw: cls}
	}
	return outcome{text: render(s, h.log, nil)}
}

func convCase(r *engine.Run, h *harness, key string, o *observer, am conv.Value, ar otto.Value, an string) {
	eval := func(q conv.Quirks) string {
		c := &conv.Ctx{Q: q}
		s, th := o.model(c, am)
		if th != nil {
			return render("throw:"+th.Class, c.Log, nil)
		}
		return render(s, c.Log, nil)
	}
	exp := eval(conv.Quirks{})
	r.Begin(key)
	obs := observe(h, o, ar)
	r.End()
	r.Eval(true)
	report(r, h, key, o.name+" with a = "+an, exp, obs, eval)
}

func runConv(r *engine.Run) {
	h := setup(r)
	if h == nil {
		return
	}
	r.Bound("values", strconv.Itoa(len(h.V)))
	for oi := range observers {
		o := &observers[oi]
		for i, a := range h.V {
			key := o.name + "|" + a.name
			if !r.MineKey(key) {
				continue
			}
			r.Tree(1, 1)
			if o.name == "Value.ToInteger" && inexactCarrier(h.models["a"][i]) {
				r.Skip()
				continue
			}
			if am := h.models["a"][i]; o.name == "Value.ToString" && am.K == conv.String && conv.HasLoneSurrogate(am.S) {
				r.Skip() // a Go string cannot carry a lone surrogate: outside ES5 (Go API, C15)
				continue
			}
			convCase(r, h, key, o, h.models["a"][i], h.real["a"][i], a.name)
		}
	}
}

// ---- ToPrimitive / [[DefaultValue]] ----------------------------------------------

type methodShape struct {
	name string
	m    conv.Method
}

var methodShapes = []methodShape{
	{"inherit", conv.Method{R: conv.Inherit}},
	{"absent", conv.Method{R: conv.Absent}},
	{"noncallable", conv.Method{R: conv.NonCallable}},
	{"num", prim(conv.Num(7))},
	{"str", prim(conv.Str("12"))},
	{"bool", prim(conv.Boolean(true))},
	{"undef", prim(conv.Undef())},
	{"null", prim(conv.Nul())},
	{"obj", mObj},
	{"throw", mThrow},
}

type primContext struct {
	name string
	src  string // function(a, b): b is the plain object of side b
	f    func(c *conv.Ctx, a, p conv.Value) (conv.Value, *conv.Thrown)
}

func bin(op string, other conv.Value, objLeft bool) func(c *conv.Ctx, a, p conv.Value) (conv.Value, *conv.Thrown) {
	return func(c *conv.Ctx, a, p conv.Value) (conv.Value, *conv.Thrown) {
		if objLeft {
			return c.Binary(op, a, other)
		}
		return c.Binary(op, other, a)
	}
}

var primContexts = []primContext{
	{"Number(a)", "function(a,b){ return Number(a) }", func(c *conv.Ctx, a, p conv.Value) (conv.Value, *conv.Thrown) {
		f, th := c.ToNumber(a)
		return conv.Num(f), th
	}},
	{"String(a)", "function(a,b){ return String(a) }", func(c *conv.Ctx, a, p conv.Value) (conv.Value, *conv.Thrown) {
		s, th := c.ToString(a)
		return conv.Str(s), th
	}},
	{"+a", "function(a,b){ return +a }", func(c *conv.Ctx, a, p conv.Value) (conv.Value, *conv.Thrown) {
		v, _, th := c.Unary("+", a)
		return v, th
	}},
	{"a-0", "function(a,b){ return a-0 }", bin("-", conv.Num(0), true)},
	{"a*1", "function(a,b){ return a*1 }", bin("*", conv.Num(1), true)},
	{"a|0", "function(a,b){ return a|0 }", bin("|", conv.Num(0), true)},
	{"a<0", "function(a,b){ return a<0 }", bin("<", conv.Num(0), true)},
	{"a<'2'", "function(a,b){ return a<'2' }", bin("<", conv.Str("2"), true)},
	{"'2'>=a", "function(a,b){ return '2'>=a }", bin(">=", conv.Str("2"), false)},
	{"a+''", "function(a,b){ return a+'' }", bin("+", conv.Str(""), true)},
	{"a+1", "function(a,b){ return a+1 }", bin("+", conv.Num(1), true)},
	{"''+a", "function(a,b){ return ''+a }", bin("+", conv.Str(""), false)},
	{"a==7", "function(a,b){ return a==7 }", bin("==", conv.Num(7), true)},
	{"a=='12'", "function(a,b){ return a=='12' }", bin("==", conv.Str("12"), true)},
	{"7==a", "function(a,b){ return 7==a }", bin("==", conv.Num(7), false)},
	{"a==true", "function(a,b){ return a==true }", bin("==", conv.Boolean(true), true)},
	{"a==null", "function(a,b){ return a==null }", bin("==", conv.Nul(), true)},
	{"a in b", "function(a,b){ return a in b }", func(c *conv.Ctx, a, p conv.Value) (conv.Value, *conv.Thrown) {
		return c.Binary("in", a, p)
	}},
	{"b[a]", "function(a,b){ return b[a] }", func(c *conv.Ctx, a, p conv.Value) (conv.Value, *conv.Thrown) {
		s, th := c.ToString(a) // 11.2.1 step 6
		if th != nil {
			return conv.Value{}, th
		}
		if c.HasProperty(p.O, s) {
			return conv.Num(1), nil
		}
		return conv.Undef(), nil
	}},
}

func runToPrim(r *engine.Run) {
	h := setup(r)
	if h == nil {
		return
	}
	plainIdx := -1
	for i, v := range h.V {
		if v.name == "o:plain" {
			plainIdx = i
		}
	}
	r.Bound("method_shapes", strconv.Itoa(len(methodShapes)))
	r.Bound("contexts", strconv.Itoa(len(primContexts)))
	for _, class := range []string{"Object", "Date"} {
		for _, vo := range methodShapes {
			for _, ts := range methodShapes {
				spec := objSpec{name: class + "/" + vo.name + "/" + ts.name, class: class, valueOf: vo.m, toString: ts.m, builtin: "[object Object]"}
				if class == "Date" {
					spec.ctor = "new Date(0)"
					if ts.m.R == conv.Inherit || vo.m.R == conv.Inherit {
						continue // the built-in Date conversions are implementation-defined text / belong to C12
					}
				}
				am := conv.ObjectOf(spec.model("a", h.shared))
				var ar otto.Value
				builtAt := -1
				for ci := range primContexts {
					pc := &primContexts[ci]
					key := spec.name + "|" + pc.name
					if !r.MineKey(key) {
						continue
					}
					r.Tree(1, 1)
					if builtAt != h.rebuilds {
						res := ox.Run(h.vm, spec.js("a"))
						if res.Panicked || res.Err != nil {
							r.HarnessError(fmt.Sprintf("cannot build %s: %v %v", spec.name, res.Err, res.PanicVal))
							return
						}
						ar, builtAt = res.Value, h.rebuilds
					}
					pm := h.models["b"][plainIdx]
					eval := func(q conv.Quirks) string {
						c := &conv.Ctx{Q: q}
						v, th := pc.f(c, am, pm)
						return expected(v, th, c)
					}
					exp := eval(conv.Quirks{})
					r.Begin(key)
					obs := h.call(pc.src, ar, h.real["b"][plainIdx])
					r.End()
					r.Eval(true)
					report(r, h, key, fmt.Sprintf("(%s)(%s)", pc.src, spec.name), exp, obs, eval)
				}
			}
		}
	}
	runToPrimDyn(r, h, plainIdx)
}

// ---- conditional -----------------------------------------------------------------

func runTernary(r *engine.Run) {
	h := setup(r)
	if h == nil {
		return
	}
	src := "function(a,b,c){ return a ? b : c }"
	var alts []int
	for i, v := range h.V {
		switch v.name {
		case "n:1", "o:vT", "o:vN", "undefined":
			alts = append(alts, i)
		}
	}
	for i, a := range h.V {
		for _, bi := range alts {
			for _, ci := range alts {
				key := a.name + "|" + h.V[bi].name + "|" + h.V[ci].name
				if !r.MineKey(key) {
					continue
				}
				r.Tree(1, 1)
				am, bm, cm := h.models["a"][i], h.models["b"][bi], h.models["c"][ci]
				eval := func(q conv.Quirks) string {
					c := &conv.Ctx{Q: q}
					v := c.EvalConditional(conv.Operand{V: am}, conv.Operand{V: bm}, conv.Operand{V: cm})
					return expected(v, nil, c)
				}
				exp := eval(conv.Quirks{})
				r.Begin(key)
				obs := h.call(src, h.real["a"][i], h.real["b"][bi], h.real["c"][ci])
				r.End()
				r.Eval(true)
				report(r, h, key, fmt.Sprintf("(%s)(%s, %s, %s)", src, a.name, h.V[bi].name, h.V[ci].name), exp, obs, eval)
			}
		}
	}
}

// ---- operand evaluation order ---------------------------------------------------------

var formNames = []string{"var", "call", "getter", "callgetter"}

func operandText(f conv.Form, label string) string {
	switch f {
	case conv.FormCall:
		return label + "()"
	case conv.FormGetter:
		return "o." + label
	case conv.FormCallGetter:
		return label + "o()." + label
	}
	return label + "v"
}

const orderPrologue = `function(lv, rv, tv){
  var o = { get l(){ __log("get l"); return lv }, set l(x){ __log("set l"); __out(x) },
            get r(){ __log("get r"); return rv }, set r(x){ __log("set r"); __out(x) },
            get t(){ __log("get t"); return tv }, set t(x){ __log("set t"); __out(x) } };
  function l(){ __log("l()"); return lv }
  function r(){ __log("r()"); return rv }
  function t(){ __log("t()"); return tv }
  function lo(){ __log("lo()"); return o }
  function ro(){ __log("ro()"); return o }
  function to(){ __log("to()"); return o }
  return `

var compoundOps = []string{"+", "-", "*", "/", "%", "<<", ">>", ">>>", "&", "|", "^"}

func runOrder(r *engine.Run) {
	h := setup(r)
	if h == nil {
		return
	}
	var vals []int
	for i, v := range h.V {
		switch v.name {
		case "o:vN", "o:vS", "o:vT", "o:vOtS", "o:date", "o:fn", "o:plain", "n:0", "n:1", "s:\"abc\"", "undefined":
			vals = append(vals, i)
		case "null", "true", "n:NaN", "s:\"1\"", "s:\"\"", "n:2^32+1", "n:-0":
			if r.Thorough() {
				vals = append(vals, i)
			}
		default:
			if r.Thorough() && v.isObj() {
				vals = append(vals, i)
			}
		}
	}
	forms := []conv.Form{conv.FormArg, conv.FormCall, conv.FormGetter, conv.FormCallGetter}
	r.Bound("operand_values", strconv.Itoa(len(vals)))
	r.Bound("operand_forms", strings.Join(formNames, ","))
	undef := otto.UndefinedValue()

	one := func(key, src, input string, eval func(q conv.Quirks) string, args ...otto.Value) {
		exp := eval(conv.Quirks{})
		r.Begin(key)
		obs := h.call(src, args...)
		r.End()
		r.Eval(true)
		report(r, h, key, input, exp, obs, eval)
	}

	// binary operators
	for _, op := range conv.BinaryOps {
		if r.Expired() {
			r.Cap("time budget reached in order")
			return
		}
		for _, lf := range forms {
			for _, rf := range forms {
				expr := operandText(lf, "l") + " " + op + " " + operandText(rf, "r")
				src := orderPrologue + expr + " }"
				for _, li := range vals {
					for _, ri := range vals {
						key := "bin|" + expr + "|" + h.V[li].name + "|" + h.V[ri].name
						if !r.MineKey(key) {
							continue
						}
						r.Tree(1, 1)
						lm, rm := h.models["a"][li], h.models["b"][ri]
						eval := func(q conv.Quirks) string {
							c := &conv.Ctx{Q: q}
							v, th := c.EvalBinary(op, conv.Operand{Form: lf, Label: "l", V: lm}, conv.Operand{Form: rf, Label: "r", V: rm})
							return expected(v, th, c)
						}
						one(key, src, fmt.Sprintf("%s with l=%s r=%s", expr, h.V[li].name, h.V[ri].name), eval, h.real["a"][li], h.real["b"][ri], undef)
					}
				}
			}
		}
	}
	// compound assignment (11.13.2): lhs is a variable, an accessor property, or an accessor of a call result
	for _, op := range compoundOps {
		for _, lf := range []conv.Form{conv.FormArg, conv.FormGetter, conv.FormCallGetter} {
			for _, rf := range forms {
				expr := operandText(lf, "l") + " " + op + "= " + operandText(rf, "r")
				src := orderPrologue + expr + " }"
				for _, li := range vals {
					for _, ri := range vals {
						key := "asg|" + expr + "|" + h.V[li].name + "|" + h.V[ri].name
						if !r.MineKey(key) {
							continue
						}
						r.Tree(1, 1)
						lm, rm := h.models["a"][li], h.models["b"][ri]
						eval := func(q conv.Quirks) string {
							c := &conv.Ctx{Q: q}
							v, th := c.EvalCompound(op, conv.Operand{Form: lf, Label: "l", V: lm}, conv.Operand{Form: rf, Label: "r", V: rm})
							if th == nil && lf != conv.FormArg {
								return expected(v, th, c, canonModel(v)) // the setter received the result
							}
							return expected(v, th, c)
						}
						one(key, src, fmt.Sprintf("%s with l=%s r=%s", expr, h.V[li].name, h.V[ri].name), eval, h.real["a"][li], h.real["b"][ri], undef)
					}
				}
			}
		}
	}
	// conditional (11.12)
	for _, f := range forms {
		expr := operandText(f, "t") + " ? " + operandText(f, "l") + " : " + operandText(f, "r")
		src := orderPrologue + expr + " }"
		for _, ti := range vals {
			key := "cond|" + expr + "|" + h.V[ti].name
			if !r.MineKey(key) {
				continue
			}
			r.Tree(1, 1)
			var li, ri int
			for i, v := range h.V {
				if v.name == "o:vN" {
					li = i
				}
				if v.name == "o:vT" {
					ri = i
				}
			}
			tm, lm, rm := h.models["c"][ti], h.models["a"][li], h.models["b"][ri]
			eval := func(q conv.Quirks) string {
				c := &conv.Ctx{Q: q}
				v := c.EvalConditional(conv.Operand{Form: f, Label: "t", V: tm}, conv.Operand{Form: f, Label: "l", V: lm}, conv.Operand{Form: f, Label: "r", V: rm})
				return expected(v, nil, c)
			}
			one(key, src, fmt.Sprintf("%s with t=%s", expr, h.V[ti].name), eval, h.real["a"][li], h.real["b"][ri], h.real["c"][ti])
		}
	}
}

// ---- ToInt32 / ToUint32 / ToUint16 sweep ---------------------------------------------

var sweepMantissas = []uint64{0, 1, 1 << 51, 1<<52 - 1, 0x5555555555555, 0xAAAAAAAAAAAAA, 1<<20 | 1<<40, 0x000FFFFF00001}

type sweepCtx struct {
	name string
	src  string
	f    func(c *conv.Ctx, x float64) string
}

func dnum(f float64) string { return "d:" + ox.Num(f) }

var sweepContexts = []sweepCtx{
	{"a|0", "function(a){ return a|0 }", func(c *conv.Ctx, x float64) string { return dnum(float64(c.ToInt32Q(x))) }},
	{"a>>>0", "function(a){ return a>>>0 }", func(c *conv.Ctx, x float64) string { return dnum(float64(c.ToUint32Q(x))) }},
	{"~a", "function(a){ return ~a }", func(c *conv.Ctx, x float64) string { return dnum(float64(^c.ToInt32Q(x))) }},
	{"1<<a", "function(a){ return 1<<a }", func(c *conv.Ctx, x float64) string { return dnum(float64(int32(1) << (c.ToUint32Q(x) & 31))) }},
	{"a>>1", "function(a){ return a>>1 }", func(c *conv.Ctx, x float64) string { return dnum(float64(c.ToInt32Q(x) >> 1)) }},
	{"fromCharCode(a)", "function(a){ return String.fromCharCode(a) }", func(c *conv.Ctx, x float64) string { return ox.Str16([]uint16{c.ToUint16Q(x)}) }},
}

func runIntSweep(r *engine.Run) {
	h := setup(r)
	if h == nil {
		return
	}
	step := 1
	mans := sweepMantissas
	if !r.Thorough() {
		mans = sweepMantissas[:4]
	}
	r.Bound("exponents", "biased 1000..1140 step 1, 1..2046 step 7 (quick) / every biased exponent 0..2046 (thorough)")
	r.Bound("mantissas", strconv.Itoa(len(mans)))
	for e := 0; e <= 2046; e += step {
		if !r.Thorough() && !(e >= 1000 && e <= 1140) && e%7 != 0 {
			continue
		}
		if r.Expired() {
			r.Cap("time budget reached in intsweep")
			return
		}
		for _, man := range mans {
			for sign := uint64(0); sign < 2; sign++ {
				x := math.Float64frombits(sign<<63 | uint64(e)<<52 | man)
				name := fmt.Sprintf("%016x", math.Float64bits(x))
				var ar otto.Value
				made := false
				for ci := range sweepContexts {
					sc := &sweepContexts[ci]
					key := sc.name + "|" + name
					if !r.MineKey(key) {
						continue
					}
					r.Tree(1, 1)
					if !made {
						ar, _ = h.vm.ToValue(x)
						made = true
					}
					eval := func(q conv.Quirks) string {
						c := &conv.Ctx{Q: q}
						return render(sc.f(c, x), nil, nil)
					}
					exp := eval(conv.Quirks{})
					r.Begin(key)
					obs := h.call(sc.src, ar)
					r.End()
					r.Eval(true)
					report(r, h, key, fmt.Sprintf("%s with a = %s (bits %s)", sc.name, ox.JSNum(x), name), exp, obs, eval)
					if obs.panicked {
						made = false
					}
				}
			}
		}
	}
}

// ---- arithmetic on an extended numeric set ------------------------------------------------

func arithNumbers(thorough bool) []float64 {
	var l []float64
	for _, n := range numbers() {
		l = append(l, n.f)
	}
	extra := []float64{3, -3, 7, -7, 10, 5.5, -5.5, 0.2, 0.3, 1.0 / 3, math.Pi, -math.E, 255, 256, 65535, 65536,
		p2(2, 52) + 0.5, p2(2, 52) + 1, p2(2, 53) + 4, 1e15 + 0.5, 1e16, 1e308, -1e308, 1e-300, p2(2, 1023), p2(2, -1022),
		p2(2, -1022) - p2(2, -1074), 3 * p2(2, -1074), -p2(2, -1074), p2(2, 127), p2(2, -149), 4294967295.5, -2147483648.5, 1e21 + 1e5, 9.999999999999999e20}
	if thorough {
		l = append(l, extra...)
		for k := 1; k <= 1023; k += 37 {
			l = append(l, p2(2, float64(k))+p2(2, float64(k-52)), -p2(2, float64(-k)))
		}
	} else {
		l = append(l, extra[:12]...)
	}
	return l
}

func runArith(r *engine.Run) {
	h := setup(r)
	if h == nil {
		return
	}
	nums := arithNumbers(r.Thorough())
	r.Bound("numbers", strconv.Itoa(len(nums)))
	real := make([]otto.Value, len(nums))
	mk := func() {
		for i, f := range nums {
			real[i], _ = h.vm.ToValue(f)
		}
	}
	mk()
	reb := h.rebuilds
	ops := []string{"+", "-", "*", "/", "%"}
	if r.Thorough() {
		ops = append(ops, "<", ">", "<=", ">=", "==", "!=", "===", "!==", "&", "|", "^", "<<", ">>", ">>>")
	}
	r.Bound("operators", strings.Join(ops, " "))
	for _, op := range ops {
		src := binarySrc(op)
		for i, a := range nums {
			for j, b := range nums {
				key := op + "|" + strconv.FormatUint(math.Float64bits(a), 16) + "|" + strconv.FormatUint(math.Float64bits(b), 16)
				if !r.MineKey(key) {
					continue
				}
				r.Tree(1, 1)
				if h.rebuilds != reb {
					mk()
					reb = h.rebuilds
				}
				eval := func(q conv.Quirks) string {
					c := &conv.Ctx{Q: q}
					v, th := c.Binary(op, conv.Num(a), conv.Num(b))
					return expected(v, th, c)
				}
				exp := eval(conv.Quirks{})
				r.Begin(key)
				obs := h.call(src, real[i], real[j])
				r.End()
				r.Eval(true)
				report(r, h, key, fmt.Sprintf("%s %s %s", ox.JSNum(a), op, ox.JSNum(b)), exp, obs, eval)
			}
		}
	}
}

// ---- representation independence (differential, no model) -------------------------------------

func runRepr(r *engine.Run) {
	h := setup(r)
	if h == nil {
		return
	}
	baseIdx := map[string]int{}
	var partners []int
	for i, v := range h.V {
		if v.carrier == "" {
			baseIdx[v.name] = i
			partners = append(partners, i)
		}
	}
	ncar := 0
	for i, v := range h.V {
		if v.carrier == "" {
			continue
		}
		bi, ok := baseIdx[v.base]
		if !ok {
			continue // integers no double holds have no float64 twin
		}
		ncar++
		diff := func(key, input string, twin, mine outcome, eval func(q conv.Quirks) string) {
			r.Eval(true)
			report(r, h, key, input, twin.text, mine, eval)
		}
		for _, op := range conv.BinaryOps {
			src := binarySrc(op)
			for _, pj := range partners {
				p := h.V[pj]
				for side := 0; side < 2; side++ {
					key := fmt.Sprintf("%s|%s|%s|%d", op, v.name, p.name, side)
					if !r.MineKey(key) {
						continue
					}
					r.Tree(1, 1)
					var twin, mine outcome
					var eval func(q conv.Quirks) string
					r.Begin(key)
					if side == 0 {
						twin = h.call(src, h.real["a"][bi], h.real["b"][pj])
						mine = h.call(src, h.real["a"][i], h.real["b"][pj])
						am, bm := h.models["a"][i], h.models["b"][pj]
						eval = func(q conv.Quirks) string {
							c := &conv.Ctx{Q: q}
							x, th := c.Binary(op, am, bm)
							return expected(x, th, c)
						}
					} else {
						twin = h.call(src, h.real["a"][pj], h.real["b"][bi])
						mine = h.call(src, h.real["a"][pj], h.real["b"][i])
						am, bm := h.models["a"][pj], h.models["b"][i]
						eval = func(q conv.Quirks) string {
							c := &conv.Ctx{Q: q}
							x, th := c.Binary(op, am, bm)
							return expected(x, th, c)
						}
					}
					r.End()
					diff(key, fmt.Sprintf("(%s) with %s where the float64 twin gives the expected outcome; partner %s, carrier on side %d", src, v.name, p.name, side), twin, mine, eval)
				}
			}
		}
		for _, op := range conv.UnaryOps {
			key := "unary|" + op + "|" + v.name
			if !r.MineKey(key) {
				continue
			}
			r.Tree(1, 1)
			src := unarySrc(op)
			r.Begin(key)
			twin := h.call(src, h.real["a"][bi])
			mine := h.call(src, h.real["a"][i])
			r.End()
			am := h.models["a"][i]
			diff(key, fmt.Sprintf("(%s)(%s) versus its float64 twin", src, v.name), twin, mine, func(q conv.Quirks) string {
				c := &conv.Ctx{Q: q}
				x, after, th := c.Unary(op, am)
				if th == nil && (strings.HasSuffix(op, "++") || strings.HasSuffix(op, "--")) {
					return expected(x, th, c, canonModel(after))
				}
				return expected(x, th, c)
			})
		}
		for oi := range observers {
			o := &observers[oi]
			if o.name == "Value.ToInteger" {
				continue // exact int64 round trip of integer carriers is by design (belongs to C15)
			}
			key := "conv|" + o.name + "|" + v.name
			if !r.MineKey(key) {
				continue
			}
			r.Tree(1, 1)
			r.Begin(key)
			twin := observe(h, o, h.real["a"][bi])
			mine := observe(h, o, h.real["a"][i])
			r.End()
			am := h.models["a"][i]
			diff(key, o.name+" with a = "+v.name+" versus its float64 twin", twin, mine, func(q conv.Quirks) string {
				c := &conv.Ctx{Q: q}
				s, th := o.model(c, am)
				if th != nil {
					return render("throw:"+th.Class, c.Log, nil)
				}
				return render(s, c.Log, nil)
			})
		}
	}
	r.Bound("carriers", strconv.Itoa(ncar))
	r.Bound("partners", strconv.Itoa(len(partners)))
}
