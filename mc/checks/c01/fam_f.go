package c01

import (
	"fmt"
	"strings"

	"verif/mc/engine"
	"verif/mc/ref/js"
)

// Family F - for-in over objects with two or three enumerable properties.
// ES5 12.6.4 leaves the visiting ORDER implementation-defined; this family
// assumes the order otto (and every current engine, and property C07) uses for
// the objects generated here: own properties in creation order (array / string
// indices ascending), then the prototype's, shadowed names once. Only
// non-index names are used on plain objects. What 12.6.4 does fix is checked:
// the left-hand side is evaluated on EVERY iteration (probe keys, probe
// objects, identifiers whose resolution changes while the loop runs because a
// with object gains or loses the name or eval declares a variable), the object
// expression once, a property deleted before it is visited is not visited.
// Properties are never added during enumeration (not guaranteed to be visited).
//
// Full product: LHS form x with-wrapping x object kind x two body operations.

var lhsFormsF = []string{"var k", "k", "r[t(i++)]", "t(r).k", "z", "var z", "u", "var k = t(init)"}
var withKindsF = []string{"none", "with-empty", "with-z"}
var objKindsF = []string{"xy", "xyw", "own-xy+proto-w", "own-x+proto-xy", "array2", "string2", "empty"}
var bodyOpsF = []string{"none", "delete-y", "delete-x", "continue-first", "break-second", "scope-gains-z", "scope-loses-z", "eval-var-z"}

func bodyOpF(p *js.Program, k int) js.Stmt {
	c := js.Id("c")
	switch k {
	case 0:
		return &js.Empty{}
	case 1:
		return js.Log(str("del-y"), &js.Unary{Op: "delete", X: js.Dot(js.Id("obj"), "y")})
	case 2:
		return js.Log(str("del-x"), &js.Unary{Op: "delete", X: js.Dot(js.Id("obj"), "x")})
	case 3:
		return &js.If{Test: bin("==", c, js.N(1)), Then: &js.Continue{}}
	case 4:
		return &js.If{Test: bin("==", c, js.N(2)), Then: &js.Break{}}
	case 5:
		return assign(js.Dot(js.Id("scope"), "z"), str("shadow"))
	case 6:
		return js.Log(str("lose"), &js.Unary{Op: "delete", X: js.Dot(js.Id("scope"), "z")})
	case 7:
		return js.ES(js.CallE(js.Id("eval"), p.EvalCode(js.Var("z", nil))))
	}
	panic("bad body op")
}

func programF(lhs, with, objKind, op1, op2 int) *js.Program {
	p := &js.Program{Body: preludeE()}
	id := js.Id
	objV := id("obj")
	var setup []js.Stmt
	switch objKind {
	case 0:
		setup = []js.Stmt{assign(objV, obj("x", js.N(1), "y", js.N(2)))}
	case 1:
		setup = []js.Stmt{assign(objV, obj("x", js.N(1), "y", js.N(2), "w", js.N(3)))}
	case 2:
		setup = []js.Stmt{assign(objV, js.CallE(js.Dot(id("Object"), "create"), obj("w", js.N(1)))),
			assign(js.Dot(objV, "x"), js.N(1)), assign(js.Dot(objV, "y"), js.N(2))}
	case 3:
		setup = []js.Stmt{assign(objV, js.CallE(js.Dot(id("Object"), "create"), obj("x", js.N(9), "y", js.N(2)))),
			assign(js.Dot(objV, "x"), js.N(1))}
	case 4:
		setup = []js.Stmt{assign(objV, &js.ArrayLit{Elems: []js.Expr{str("p"), str("q")}})}
	case 5:
		setup = []js.Stmt{assign(objV, str("ab"))}
	case 6:
		setup = []js.Stmt{assign(objV, &js.ObjectLit{})}
	}
	r := id("r")
	state := func(tag string) js.Stmt {
		return &js.Try{Body: js.Blk(js.Log(str(tag), id("c"), id("i"), id("k"), js.Idx(r, js.N(0)), js.Idx(r, js.N(1)), js.Idx(r, js.N(2)),
			js.Dot(r, "k"), js.Dot(id("scope"), "z"), js.CallE(id("outerZ")), id("z"))),
			Param: "e", Catch: js.Blk(js.Log(str("E"), js.Dot(id("e"), "name")))}
	}
	body := js.Blk(js.ES(postInc("c")), state("it"), bodyOpF(p, op1), bodyOpF(p, op2), js.Log(str("it-end"), id("c")))
	loop := &js.ForIn{Obj: tp("obj", objV), Body: body}
	switch lhs {
	case 0:
		loop.Var = "k"
	case 1:
		loop.LHS = id("k")
	case 2:
		loop.LHS = js.Idx(r, tp("l", postInc("i")))
	case 3:
		loop.LHS = js.Dot(tp("o", r), "k")
	case 4:
		loop.LHS = id("z")
	case 5:
		loop.Var = "z"
	case 6:
		loop.LHS = id("u")
	case 7:
		// 12.6.4, production with VariableDeclarationNoIn: the initialiser runs once, before the object expression
		loop.Var = "k"
		loop.VarInit = tp("init", js.N(7))
	}
	var st js.Stmt = loop
	scopeInit := &js.ObjectLit{}
	if with == 2 {
		scopeInit = obj("z", str("sz"))
	}
	if with != 0 {
		st = &js.With{Obj: id("scope"), Body: js.Blk(loop)}
	}
	decls := &js.VarDecl{Decls: []js.VarD{{Name: "i", Init: js.N(0)}, {Name: "c", Init: js.N(0)}, {Name: "k"},
		{Name: "r", Init: &js.ObjectLit{}}, {Name: "scope", Init: scopeInit}, {Name: "obj"}}}
	fb := []js.Stmt{decls}
	fb = append(fb, setup...)
	fb = append(fb, st, state("fin"), ret(js.N(9)))
	p.Body = append(p.Body,
		js.Var("z", str("gz")),
		&js.FuncDecl{Fn: js.Fn("outerZ", nil, ret(id("z")))},
		&js.FuncDecl{Fn: js.Fn("main", nil, fb...)},
		js.Log(str("ret"), js.CallE(id("main"))),
		js.Log(str("globals"), &js.Unary{Op: "typeof", X: id("u")}, id("z")),
		tryLog(js.Log(str("u"), id("u"))))
	return p
}

func runF(r *engine.Run) {
	selfCheck(r)
	for lhs := range lhsFormsF {
		for with := range withKindsF {
			for ok := range objKindsF {
				for op1 := range bodyOpsF {
					for op2 := range bodyOpsF {
						key := fmt.Sprintf("%s/%s/%s/%s/%s", lhsFormsF[lhs], withKindsF[with], objKindsF[ok], bodyOpsF[op1], bodyOpsF[op2])
						if !r.MineKey(key) {
							continue
						}
						if r.Expired() {
							r.Cap("time budget reached")
							return
						}
						r.Tree(1, 1)
						checkProgram(r, key, programF(lhs, with, ok, op1, op2))
					}
				}
			}
		}
	}
	r.Bound("lhs_forms", strings.Join(lhsFormsF, " | "))
	r.Bound("with", strings.Join(withKindsF, ","))
	r.Bound("objects", strings.Join(objKindsF, ","))
	r.Bound("body_operations", "two of "+strings.Join(bodyOpsF, ","))
}
