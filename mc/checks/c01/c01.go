// Package c01 checks property C01: programs evaluate to the result ES5
// prescribes, on all five submission routes. Generated programs (families A-D)
// are evaluated by the reference interpreter ref/js and executed on the real
// otto on six fresh runtimes; the sequence of host calls with canonical
// argument values, the completion value and the uncaught-exception class are
// compared.
package c01

import (
	"encoding/json"
	"errors"
	"fmt"
	"os"
	"sort"
	"strings"
	"time"

	"github.com/robertkrimen/otto"
	"github.com/robertkrimen/otto/parser"

	"verif/mc/engine"
	"verif/mc/ox"
	"verif/mc/ref/js"
)

const stepBudget = 20000

func init() {
	engine.Register(&engine.Check{
		ID:    "C01",
		Title: "Programs evaluate to the result ECMAScript 5 prescribes",
		Rule: "every program of the generator families (A control skeletons, B binding histories, H collisions of the declaration kinds of 10.5 (parameter, function declaration, arguments object, var, own name, catch parameter, eval-declared) on one name, C/Cnew/Cnative calls, arguments, constructors, built-in callees, " +
			"D evaluation order, E conditionally evaluated statement-head expressions, L label-name reuse, F for-in over multi-key objects, R scope mutation between resolution and use of a Reference, " +
			"S leaving scope-introducing constructs, G arguments-object histories, K bind chains and re-entrant bound calls, P accessors reached through the prototype chain, hand-written witnesses) is enumerated completely within its bound (choice vectors of engine.Explore / full products); each " +
			"program text is distinct; it is run on otto through Run(string), Compile+Run, ParseFile+Run(*ast.Program), Eval, and a " +
			"Script compiled on runtime A run on fresh runtimes B and C, and compared with ref/js evaluating it as global code on EVERY " +
			"route (route independence; that Otto.Eval instantiates it as eval code is a known finding): host-call sequence with canonical arguments, completion value, uncaught-exception class. A case is non-trivial " +
			"when the model execution makes at least one host call, throws, or completes with a value other than undefined.",
		Families: []engine.Family{
			{Name: "A", Run: runA},
			{Name: "A3", Run: runA3, ThoroughOnly: true},
			{Name: "D", Run: runD},
			{Name: "D2", Run: runD2},
			{Name: "B", Run: runB},
			{Name: "H", Run: runH},
			{Name: "C", Run: runC},
			{Name: "Cnew", Run: runCnew},
			{Name: "Cnative", Run: runCnative},
			{Name: "E", Run: runE},
			{Name: "L", Run: runL},
			{Name: "F", Run: runF},
			{Name: "R", Run: runR},
			{Name: "S", Run: runS},
			{Name: "G", Run: runG},
			{Name: "K", Run: runK},
			{Name: "P", Run: runP},
			{Name: "witness", Run: runWitness, Solo: true},
		},
		Assumptions: []string{
			"ref/js is a faithful transcription of ES5.1 clauses 8.6-8.12, 9, 10, 11, 12, 13 and the listed natives of 15 (trusted model; validated against the spec text and, at development time only, against V8 modulo the ES2015 differences listed in DESIGN.md Appendix B)",
			"switch with no matching case runs the default clause and then every clause after it (the ES2015 clarification of the ambiguous step 8 of ES5.1 12.11)",
			"observation through a host function registered with Otto.Set; otto.Value.Class/ToFloat/string representation are trusted for canonicalisation",
			"generators never produce implementation-defined behaviour (Function.prototype.toString, error messages, properties added during enumeration); for-in over several keys (family F and three witnesses only) assumes own properties in creation order (indices ascending) before inherited ones, the order property C07 fixes",
		},
		CrashIsViolation: true,
		QuickBudget:      10 * time.Minute,
		ThoroughBudget:   60 * time.Minute,
	})
	for i := 0; i < js.NAlt; i++ {
		name := js.AltNames[i]
		engine.RegisterSignature("c01-"+name, altSignature(name))
	}
	engine.RegisterSignature("c01-"+evalRouteSwitch, altSignature(evalRouteSwitch))
}

// altSignature accepts a mismatch exactly when the check established (and
// recorded in Aux["alt"]) that every route's observation equals the prediction
// of ref/js run with a minimal set of alternative-model switches containing
// `name`, and every other switch of that set is itself an open known finding.
func altSignature(name string) engine.Signature {
	return func(m *engine.Mismatch) bool {
		alt := m.Aux["alt"]
		if alt == "" {
			return false
		}
		open := map[string]bool{}
		for _, f := range engine.KnownFor("C01") {
			if f.Status == "open" {
				open[f.Signature] = true
			}
		}
		has := false
		for _, n := range strings.Split(alt, "+") {
			if n == name {
				has = true
			}
			if !open["c01-"+n] {
				return false
			}
		}
		return has
	}
}

// ---- observation

var routeNames = []string{"run", "compile", "ast", "eval", "xrtB", "xrtC"}

// routeEval[i] reports whether route i submits the program as eval code.
var routeEval = []bool{false, false, false, true, false, false}

type recorder struct{ log []string }

func newVM(rec *recorder) *otto.Otto {
	vm := otto.New()
	vm.Set("log", func(call otto.FunctionCall) otto.Value {
		parts := make([]string, len(call.ArgumentList))
		for i, a := range call.ArgumentList {
			parts[i] = ox.Canon(a)
		}
		rec.log = append(rec.log, strings.Join(parts, ","))
		if len(call.ArgumentList) > 0 {
			return call.ArgumentList[0]
		}
		return otto.Value{}
	})
	n := 0.0
	vm.Set("tick", func(call otto.FunctionCall) otto.Value {
		n++
		v, _ := otto.ToValue(n)
		return v
	})
	return vm
}

func excClass(err error) string {
	if err == nil {
		return ""
	}
	var oe *otto.Error
	if errors.As(err, &oe) {
		s := oe.Error()
		if i := strings.Index(s, ":"); i > 0 {
			return s[:i]
		}
		return s
	}
	var pl *parser.ErrorList
	if errors.As(err, &pl) {
		return "ParseError(" + err.Error() + ")"
	}
	return "Thrown"
}

func render(log []string, val, exc string) string {
	return "log=[" + strings.Join(log, " | ") + "] value=" + val + " exc=" + exc
}

func finish(rec *recorder, res ox.Result) string {
	if res.Panicked {
		return render(rec.log, "?", fmt.Sprintf("GOPANIC(%v)", res.PanicVal))
	}
	val := "u"
	if res.Err == nil {
		val = ox.Canon(res.Value)
	}
	return render(rec.log, val, excClass(res.Err))
}

// observe runs src on otto through the five routes (six executions), each on a
// fresh runtime.
func observe(src string) [6]string {
	var out [6]string
	{ // 1: Run(string)
		rec := &recorder{}
		vm := newVM(rec)
		out[0] = finish(rec, ox.Run(vm, src))
	}
	var script *otto.Script
	{ // 2: Compile + Run(script) on the compiling runtime
		rec := &recorder{}
		vm := newVM(rec)
		res := ox.Guard(func() (otto.Value, error) {
			s, err := vm.Compile("", src)
			if err != nil {
				return otto.Value{}, err
			}
			script = s
			return vm.Run(s)
		})
		out[1] = finish(rec, res)
	}
	{ // 3: parser.ParseFile + Run(*ast.Program)
		rec := &recorder{}
		vm := newVM(rec)
		res := ox.Guard(func() (otto.Value, error) {
			prog, err := parser.ParseFile(nil, "", src, 0)
			if err != nil {
				return otto.Value{}, err
			}
			return vm.Run(prog)
		})
		out[2] = finish(rec, res)
	}
	{ // 4: Eval(string)
		rec := &recorder{}
		vm := newVM(rec)
		out[3] = finish(rec, ox.Guard(func() (otto.Value, error) { return vm.Eval(src) }))
	}
	// 5: the Script compiled on runtime A (and already run there) on B, then on C
	for i := 4; i < 6; i++ {
		rec := &recorder{}
		vm := newVM(rec)
		if script == nil {
			out[i] = render(nil, "?", "no script")
			continue
		}
		out[i] = finish(rec, ox.Run(vm, script))
	}
	return out
}

// ---- comparison

const maxAltSet = 3

func popcount(x uint32) int {
	n := 0
	for ; x != 0; x &= x - 1 {
		n++
	}
	return n
}

var altOrder []js.Flags

func init() {
	for size := 1; size <= maxAltSet; size++ {
		for m := uint32(1); m < 1<<uint(js.NAlt); m++ {
			if popcount(m) == size {
				altOrder = append(altOrder, js.Flags(m))
			}
		}
	}
}

func altName(f js.Flags) string {
	var names []string
	for i := 0; i < js.NAlt; i++ {
		if f&(1<<uint(i)) != 0 {
			names = append(names, js.AltNames[i])
		}
	}
	return strings.Join(names, "+")
}

// explain searches the smallest set of alternative-model switches whose
// prediction equals the observation on every route.
// evalRouteSwitch names the pseudo-switch "the Otto.Eval route instantiates the
// program as eval code (10.4.2: deletable declaration bindings)" - a route
// dependence, since every other route runs it as global code.
const evalRouteSwitch = "otto-eval-route-is-eval-code"

func explain(p *js.Program, obs [6]string) string {
	// smallest explanation first: the pseudo-switch alone, then every set of
	// model switches (by size) without and with it
	if name := explainWith(p, obs, 0, true); name != "" {
		return name
	}
	for _, f := range altOrder {
		for _, evalRoute := range []bool{false, true} {
			if name := explainWith(p, obs, f, evalRoute); name != "" {
				return name
			}
		}
	}
	return ""
}

func explainWith(p *js.Program, obs [6]string, f js.Flags, evalRoute bool) string {
	{
		g := js.Run(p, false, f, stepBudget)
		if g.Budget || g.Poison {
			return ""
		}
		gs := g.String()
		ok := true
		for i := range obs {
			if !routeEval[i] && obs[i] != gs {
				ok = false
				break
			}
		}
		if !ok {
			return ""
		}
		e := js.Run(p, evalRoute, f, stepBudget)
		if e.Budget || e.Poison {
			return ""
		}
		es := e.String()
		for i := range obs {
			if routeEval[i] && obs[i] != es {
				ok = false
				break
			}
		}
		if ok {
			name := altName(f)
			if evalRoute {
				if name != "" {
					name += "+"
				}
				name += evalRouteSwitch
			}
			return name
		}
	}
	return ""
}

func describeObs(obs [6]string) string {
	groups := map[string][]string{}
	var order []string
	for i, o := range obs {
		if _, ok := groups[o]; !ok {
			order = append(order, o)
		}
		groups[o] = append(groups[o], routeNames[i])
	}
	if len(order) == 1 {
		return "all routes: " + order[0]
	}
	var parts []string
	for _, o := range order {
		parts = append(parts, strings.Join(groups[o], ",")+": "+o)
	}
	return strings.Join(parts, " ;; ")
}

// checkProgram runs one generated program through the model and otto and files
// a mismatch when they disagree. It returns false when the case was discarded.
func checkProgram(r *engine.Run, key string, p *js.Program) bool {
	var src string
	var expG, expE js.Result
	if msg := guardModel(func() {
		src = js.Render(p)
		expG = js.Run(p, false, 0, stepBudget)
		expE = js.Run(p, true, 0, stepBudget)
	}); msg != "" {
		// the generator left the modelled subset: an oracle failure, never a violation
		r.HarnessError("reference model failed on case " + key + ": " + msg)
		return false
	}
	if expG.Budget || expE.Budget {
		r.Skip()
		return false
	}
	dumpCase(r, key, src, expG, expE)
	// announce the case (crash attribution) without arming the engine's
	// wall-clock watchdog; the CPU-time guard covers a looping implementation
	r.Begin(key)
	r.End()
	armGuard(r.Family(), key)
	obs := observe(src)
	disarmGuard()
	gs, es := expG.String(), expE.String()
	nontrivial := len(expG.Log) > 0 || expG.Exc != "" || expG.Completion != "u"
	r.Eval(nontrivial)
	r.Outcome(obs[0])
	if r.WantSample() && nontrivial {
		r.Sample(src + "  =>  " + obs[0])
	}
	agree := true
	for i := range obs {
		// route independence: every route, Otto.Eval included, must behave as global code
		if obs[i] != gs {
			agree = false
		}
	}
	if agree {
		return true
	}
	exp := "every route (global code): " + gs
	_ = es
	m := engine.Mismatch{Key: key, Input: src, Expected: exp, Observed: describeObs(obs), Aux: map[string]string{}}
	if alt := explain(p, obs); alt != "" {
		m.Aux["alt"] = alt
		m.Note = "observed equals ref/js with alternative-model switches: " + alt
	} else if os.Getenv("C01_DEBUG") != "" {
		for _, f := range altOrder {
			if popcount(uint32(f)) <= 2 {
				g := js.Run(p, false, f, stepBudget)
				fmt.Fprintf(os.Stderr, "  alt %-60s %s poison=%v\n", altName(f), g.String(), g.Poison)
			}
		}
	}
	r.Mismatch(m)
	return true
}

// guardModel runs f and reports a Go panic of the reference model or renderer.
func guardModel(f func()) (msg string) {
	defer func() {
		if p := recover(); p != nil {
			msg = fmt.Sprint(p)
		}
	}()
	f()
	return ""
}

// selfCheck verifies harness invariants once per family run.
func selfCheck(r *engine.Run) {
	names := append([]string(nil), js.AltNames...)
	sort.Strings(names)
	for i := 1; i < len(names); i++ {
		if names[i] == names[i-1] {
			r.HarnessError("duplicate alternative-model name " + names[i])
		}
	}
	if len(js.AltNames) != js.NAlt {
		r.HarnessError("AltNames out of sync with flags")
	}
}

// dumpCase is a development aid: with C01_DUMP=<dir> every executed case is
// appended (family, key, source, model prediction) to <dir>/<family>-<shard>.jsonl
// so that the reference model can be cross-examined offline. Nothing reads
// these files; no registered command depends on them.
var dumpFiles = map[string]*os.File{}

func dumpCase(r *engine.Run, key, src string, g, e js.Result) {
	dir := os.Getenv("C01_DUMP")
	if dir == "" {
		return
	}
	name := fmt.Sprintf("%s/%s-%d.jsonl", dir, r.Family(), r.Shard)
	f := dumpFiles[name]
	if f == nil {
		var err error
		f, err = os.OpenFile(name, os.O_CREATE|os.O_WRONLY|os.O_APPEND, 0o644)
		if err != nil {
			return
		}
		dumpFiles[name] = f
	}
	b, _ := json.Marshal(map[string]interface{}{"family": r.Family(), "key": key, "src": src,
		"log": g.Log, "value": g.Completion, "exc": g.Exc, "evalvalue": e.Completion, "evallog": e.Log})
	f.Write(append(b, '\n'))
}
