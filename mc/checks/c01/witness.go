package c01

import (
	"verif/mc/engine"
	"verif/mc/ref/js"
)

// Family witness - hand-written programs: the witnesses of DESIGN.md section 5
// (so that each listed defect is re-found by name) and witnesses of defects seen
// while building the check that lie just outside the generator alphabets
// (for-in over an object with an enumerable inherited property, a switch whose
// case expression assigns to the discriminant variable, eval called through a
// member expression, a loop body that is a bare reference).

type witnessCase struct {
	key  string
	prog func() *js.Program
}

func lit(kv ...interface{}) *js.ObjectLit { return obj(kv...) }

func logFn(tag string, result js.Expr) *js.FuncLit {
	return js.Fn("", nil, js.Log(str(tag)), ret(result))
}

// unresolvablePut: var G = this; w = (Object.defineProperty(G, "w", desc), 2); then the value and attributes of w.
func unresolvablePut(desc *js.ObjectLit) *js.Program {
	G, w := js.Id("G"), js.Id("w")
	def := js.CallE(js.Dot(js.Id("Object"), "defineProperty"), G, str("w"), desc)
	d := js.CallE(js.Dot(js.Id("Object"), "getOwnPropertyDescriptor"), G, str("w"))
	return &js.Program{Body: []js.Stmt{js.Var("G", &js.This{}),
		js.Log(str("assign"), &js.Assign{Op: "=", L: w, R: &js.Seq{List: []js.Expr{def, js.N(2)}}}),
		js.Log(str("w"), w, js.Dot(d, "writable"), js.Dot(d, "enumerable"), js.Dot(d, "configurable"), &js.Unary{Op: "typeof", X: js.Dot(d, "set")})}}
}

func witnesses() []witnessCase {
	x, z, o, k, i := js.Id("x"), js.Id("z"), js.Id("o"), js.Id("k"), js.Id("i")
	forLoop := func(update js.Expr, body js.Stmt) js.Stmt {
		return &js.For{Init: js.Var("i", js.N(0)), Test: lt(i, 1), Update: update, Body: body}
	}
	return []witnessCase{
		{"design-2-compound-assign", func() *js.Program {
			return &js.Program{Body: []js.Stmt{js.Var("x", js.N(1)),
				js.ES(&js.Assign{Op: "+=", L: x, R: &js.Seq{List: []js.Expr{&js.Assign{Op: "=", L: x, R: js.N(5)}, js.N(1)}}}), js.ES(x)}}
		}},
		{"design-3-add-order", func() *js.Program {
			l := lit("valueOf", logFn("lv", js.N(1)))
			oo := &js.ObjectLit{Props: []js.PropDef{{Key: "a", Kind: "get", Val: logFn("ga", js.N(2))}}}
			return &js.Program{Body: []js.Stmt{js.Var("l", l), js.Var("o", oo), js.ES(bin("+", js.Id("l"), js.Dot(o, "a")))}}
		}},
		{"design-4-block-break-value", func() *js.Program {
			return &js.Program{Body: []js.Stmt{&js.Labelled{Label: "a", Body: js.Blk(js.ES(js.N(1)), &js.Break{Label: "a"})}}}
		}},
		{"design-4-switch-break-value", func() *js.Program {
			return &js.Program{Body: []js.Stmt{&js.Switch{Disc: js.N(1), Clauses: []js.Clause{
				{Test: js.N(1), Body: []js.Stmt{js.ES(str("c")), &js.Break{}}}}}}}
		}},
		{"design-5-label-try-finally", func() *js.Program {
			body := &js.Labelled{Label: "l", Body: &js.Try{Body: js.Blk(ret(js.N(1))), Finally: js.Blk(&js.Break{Label: "l"})}}
			return &js.Program{Body: []js.Stmt{js.ES(js.CallE(js.Fn("", nil, body, js.Log(js.N(2))))), js.Log(js.N(3))}}
		}},
		{"design-5-label-if", func() *js.Program {
			return &js.Program{Body: []js.Stmt{
				&js.Labelled{Label: "a", Body: &js.If{Test: &js.Bool{V: true}, Then: &js.Break{Label: "a"}}}, js.Log(js.N(1))}}
		}},
		{"design-6-nfe-binding", func() *js.Program {
			g := js.Fn("g", nil, assign(js.Id("g"), js.N(1)), ret(&js.Unary{Op: "typeof", X: js.Id("g")}))
			return &js.Program{Body: []js.Stmt{js.Var("f", g), js.ES(js.CallE(js.Id("f")))}}
		}},
		{"design-7-eval-var-delete", func() *js.Program {
			p := &js.Program{}
			p.Body = []js.Stmt{js.ES(js.CallE(js.Id("eval"), p.EvalCode(js.Var("z", js.N(1))))), js.ES(&js.Unary{Op: "delete", X: z})}
			return p
		}},
		{"empty-block-value", func() *js.Program {
			return &js.Program{Body: []js.Stmt{js.ES(js.N(1)), js.Blk()}}
		}},
		{"conditional-callee-this", func() *js.Program {
			m := js.Fn("", nil, ret(bin("===", &js.This{}, o)))
			return &js.Program{Body: []js.Stmt{js.Var("o", lit("f", m)),
				js.ES(js.CallE(&js.Cond{C: &js.Bool{V: true}, A: js.Dot(o, "f"), B: js.N(0)}))}}
		}},
		{"conditional-typeof-unresolvable", func() *js.Program {
			return &js.Program{Body: []js.Stmt{js.ES(&js.Unary{Op: "typeof", X: &js.Cond{C: &js.Bool{V: true}, A: js.Id("zzz"), B: js.N(0)}})}}
		}},
		// ---- beyond the generator alphabets
		{"forin-return-continues-in-prototype", func() *js.Program {
			f := js.Fn("f", nil,
				js.Var("P", lit("b", js.N(2))),
				js.Var("o", js.CallE(js.Dot(js.Id("Object"), "create"), js.Id("P"))),
				assign(js.Dot(o, "a"), js.N(1)),
				&js.ForIn{Var: "k", Obj: o, Body: js.Blk(js.Log(k), ret(k))})
			return &js.Program{Body: []js.Stmt{&js.FuncDecl{Fn: f}, js.Log(str("ret"), js.CallE(js.Id("f")))}}
		}},
		{"forin-outer-break-continues-in-prototype", func() *js.Program {
			return &js.Program{Body: []js.Stmt{
				js.Var("P", lit("b", js.N(2))),
				js.Var("o", js.CallE(js.Dot(js.Id("Object"), "create"), js.Id("P"))),
				assign(js.Dot(o, "a"), js.N(1)),
				&js.Labelled{Label: "x", Body: js.Blk(&js.ForIn{Var: "k", Obj: o, Body: js.Blk(js.Log(k), &js.Break{Label: "x"})})},
				js.Log(str("after"))}}
		}},
		{"forin-shadowed-property-once", func() *js.Program {
			return &js.Program{Body: []js.Stmt{
				js.Var("P", lit("a", js.N(2))),
				js.Var("o", js.CallE(js.Dot(js.Id("Object"), "create"), js.Id("P"))),
				assign(js.Dot(o, "a"), js.N(1)),
				&js.ForIn{Var: "k", Obj: o, Body: js.Log(k, js.Idx(o, k))}}}
		}},
		{"switch-discriminant-evaluated-once", func() *js.Program {
			first := &js.Seq{List: []js.Expr{&js.Assign{Op: "=", L: x, R: js.N(2)}, js.N(1)}}
			return &js.Program{Body: []js.Stmt{js.Var("x", js.N(1)), &js.Switch{Disc: x, Clauses: []js.Clause{
				{Test: first, Body: []js.Stmt{js.Log(str("first")), &js.Break{}}},
				{Test: js.N(2), Body: []js.Stmt{js.Log(str("second"))}}}}}}
		}},
		{"member-eval-is-indirect", func() *js.Program {
			p := &js.Program{}
			code := p.EvalCode(js.Var("q2", js.N(5)))
			f := js.Fn("", nil, js.ES(js.CallE(js.Dot(o, "eval"), code)), js.Log(str("in"), &js.Unary{Op: "typeof", X: js.Id("q2")}))
			p.Body = []js.Stmt{js.Var("o", lit("eval", js.Id("eval"))), js.ES(js.CallE(f)),
				js.Log(str("out"), &js.Unary{Op: "typeof", X: js.Id("q2")})}
			return p
		}},
		{"this-eval-is-indirect", func() *js.Program {
			p := &js.Program{}
			code := p.EvalCode(js.Var("q3", js.N(5)))
			f := js.Fn("", nil, js.Var("loc", js.N(1)), js.ES(js.CallE(js.Dot(&js.This{}, "eval"), code)),
				js.Log(str("in"), &js.Unary{Op: "typeof", X: js.Id("q3")}))
			p.Body = []js.Stmt{js.ES(js.CallE(f)), js.Log(str("out"), &js.Unary{Op: "typeof", X: js.Id("q3")})}
			return p
		}},
		{"loop-body-reference-value", func() *js.Program {
			upd := &js.Seq{List: []js.Expr{postInc("i"), &js.Assign{Op: "=", L: x, R: js.N(7)}}}
			return &js.Program{Body: []js.Stmt{js.Var("x", js.N(1)), forLoop(upd, js.ES(x))}}
		}},
		{"loop-body-unresolvable-reference", func() *js.Program {
			return &js.Program{Body: []js.Stmt{forLoop(postInc("i"), js.Blk(js.ES(js.Id("u")), js.Log(js.N(1))))}}
		}},
		{"loop-body-getter-timing", func() *js.Program {
			oo := &js.ObjectLit{Props: []js.PropDef{{Key: "a", Kind: "get", Val: logFn("ga", js.N(2))}}}
			return &js.Program{Body: []js.Stmt{js.Var("o", oo), forLoop(postInc("i"), js.Blk(js.ES(js.Dot(o, "a")), js.Log(js.N(1))))}}
		}},
		// 8.7.2 step 3.b: PutValue on an unresolvable Reference is [[Put]] on the global
		// object; the right-hand side creates the property after the reference was resolved
		{"unresolvable-put-nonconfigurable", func() *js.Program {
			return unresolvablePut(lit("value", js.N(1), "writable", &js.Bool{V: true}, "configurable", &js.Bool{V: false}, "enumerable", &js.Bool{V: true}))
		}},
		{"unresolvable-put-nonenumerable", func() *js.Program {
			return unresolvablePut(lit("value", js.N(1), "writable", &js.Bool{V: true}, "configurable", &js.Bool{V: true}, "enumerable", &js.Bool{V: false}))
		}},
		{"unresolvable-put-readonly", func() *js.Program {
			return unresolvablePut(lit("value", js.N(1), "writable", &js.Bool{V: false}, "configurable", &js.Bool{V: true}, "enumerable", &js.Bool{V: true}))
		}},
		{"unresolvable-put-setter", func() *js.Program {
			return unresolvablePut(lit("set", js.Fn("", []string{"v"}, js.Log(str("setter"), js.Id("v"))), "get", js.Fn("", nil, ret(str("from-getter"))), "configurable", &js.Bool{V: true}))
		}},
		{"with-call-this", func() *js.Program {
			m := js.Fn("", nil, ret(bin("===", &js.This{}, o)))
			return &js.Program{Body: []js.Stmt{js.Var("o", lit("m", m)), js.Var("r", nil),
				&js.With{Obj: o, Body: assign(js.Id("r"), js.CallE(js.Id("m")))}, js.ES(js.Id("r"))}}
		}},
	}
}

// witnessObserved: exact wrong observations (identical on all six executions)
// of the witnesses that no alternative-model switch covers; used by the
// signature c01-witness-exact together with the key lists in known.d/C01.json.
var witnessObserved = map[string]string{
	"unresolvable-put-nonconfigurable":         "all routes: log=[s:assign,d:2 | s:w,d:1,b:1,b:1,b:0,s:undefined] value=s:w exc=",
	"unresolvable-put-nonenumerable":           "all routes: log=[s:assign,d:2 | s:w,d:2,b:1,b:1,b:1,s:undefined] value=s:w exc=",
	"unresolvable-put-readonly":                "all routes: log=[s:assign,d:2 | s:w,d:2,b:1,b:1,b:1,s:undefined] value=s:w exc=",
	"unresolvable-put-setter":                  "all routes: log=[s:assign,d:2 | s:w,d:2,b:1,b:1,b:1,s:undefined] value=s:w exc=",
	"forin-return-continues-in-prototype":      "all routes: log=[s:a | s:b | s:ret,s:b] value=s:ret exc=",
	"forin-outer-break-continues-in-prototype": "all routes: log=[s:a | s:b | s:after] value=s:after exc=",
	"forin-shadowed-property-once":             "all routes: log=[s:a,d:1 | s:a,d:1] value=s:a exc=",
	"switch-discriminant-evaluated-once":       "all routes: log=[s:second] value=s:second exc=",
	"member-eval-is-indirect":                  "all routes: log=[s:in,s:number | s:out,s:undefined] value=s:out exc=",
	"this-eval-is-indirect":                    "all routes: log=[s:in,s:number | s:out,s:undefined] value=s:out exc=",
	"loop-body-reference-value":                "all routes: log=[] value=d:7 exc=",
	"loop-body-unresolvable-reference":         "all routes: log=[d:1] value=d:1 exc=",
	"loop-body-getter-timing":                  "all routes: log=[d:1] value=d:1 exc=",
}

func init() {
	engine.RegisterSignature("c01-witness-exact", func(m *engine.Mismatch) bool {
		want, ok := witnessObserved[m.Key]
		return ok && m.Family == "witness" && m.Observed == want
	})
}

func runWitness(r *engine.Run) {
	selfCheck(r)
	for _, w := range witnesses() {
		if !r.MineKey(w.key) {
			continue
		}
		r.Tree(1, 1)
		checkProgram(r, w.key, w.prog())
	}
}
