package c01

import (
	"fmt"

	"verif/mc/engine"
	"verif/mc/ref/js"
)

// Family Cnew - constructors x prototype shapes. Full product of
//   what the constructor returns x prototype shape x how it is constructed,
// followed by instanceof / isPrototypeOf / constructor / property-lookup probes.

var retKindsCnew = []string{"none", "primitive", "object", "null", "this"}
var protoShapesCnew = []string{"default", "replaced-before", "replaced-after", "chain2", "shadowed", "non-object", "create-chain"}
var newKindsCnew = []string{"new F(1)", "new F()", "new bound()", "new bound1(3)", "F.call(obj)", "new o.F(1)"}

func tryStmt(s ...js.Stmt) js.Stmt { return tryLog(s...) }

func programCnew(rk, ps, nk int) *js.Program {
	p := &js.Program{Body: preludeC()}
	this := &js.This{}
	F := js.Id("F")
	proto := js.Dot(F, "prototype")
	body := []js.Stmt{
		js.Log(str("ctor"), js.CallE(js.Id("T"), this), js.Id("a"), bin("instanceof", this, F)),
		assign(js.Dot(this, "p"), js.Id("a")),
	}
	switch rk {
	case 1:
		body = append(body, ret(js.N(5)))
	case 2:
		body = append(body, ret(obj("q", js.N(1))))
	case 3:
		body = append(body, ret(&js.NullLit{}))
	case 4:
		body = append(body, ret(this))
	}
	p.Body = append(p.Body, &js.FuncDecl{Fn: js.Fn("F", []string{"a"}, body...)},
		&js.FuncDecl{Fn: js.Fn("B", nil)},
		assign(js.Dot(js.Dot(js.Id("B"), "prototype"), "k"), str("fromB")))
	replace := assign(proto, obj("k", str("fromNew")))
	switch ps {
	case 1:
		p.Body = append(p.Body, replace)
	case 3:
		p.Body = append(p.Body, assign(proto, &js.New{Callee: js.Id("B")}))
	case 4:
		p.Body = append(p.Body, assign(js.Dot(proto, "p"), str("protoP")), assign(js.Dot(proto, "k"), str("protoK")))
	case 5:
		p.Body = append(p.Body, assign(proto, js.N(5)))
	case 6:
		p.Body = append(p.Body, assign(proto, js.CallE(js.Dot(js.Id("Object"), "create"), js.Dot(js.Id("B"), "prototype"))))
	}
	var cons js.Expr
	switch nk {
	case 0:
		cons = &js.New{Callee: F, Args: []js.Expr{js.N(1)}}
	case 1:
		cons = &js.New{Callee: F}
	case 2:
		p.Body = append(p.Body, js.Var("bound", js.CallE(js.Dot(F, "bind"), js.Id("o"), js.N(2))))
		cons = &js.New{Callee: js.Id("bound")}
	case 3:
		p.Body = append(p.Body, js.Var("bound", js.CallE(js.Dot(F, "bind"), js.Id("o"))))
		cons = &js.New{Callee: js.Id("bound"), Args: []js.Expr{js.N(3)}}
	case 4:
		p.Body = append(p.Body, js.Var("obj", &js.ObjectLit{}))
		cons = js.CallE(js.Dot(F, "call"), js.Id("obj"), js.N(4))
	case 5:
		p.Body = append(p.Body, assign(js.Dot(js.Id("o"), "F"), F))
		cons = &js.New{Callee: js.Dot(js.Id("o"), "F"), Args: []js.Expr{js.N(1)}}
	}
	p.Body = append(p.Body, js.Var("i", nil), tryStmt(assign(js.Id("i"), cons)))
	if ps == 2 {
		p.Body = append(p.Body, replace)
	}
	i := js.Id("i")
	p.Body = append(p.Body,
		js.Log(str("type"), &js.Unary{Op: "typeof", X: i}, i),
		tryStmt(js.Log(str("instanceof"), bin("instanceof", i, F), bin("instanceof", i, js.Id("B")), bin("instanceof", i, js.Id("Object")))),
		tryStmt(js.Log(str("isProto"), js.CallE(js.Dot(js.Dot(js.Id("Object"), "prototype"), "isPrototypeOf"), i),
			js.CallE(js.Dot(js.Dot(js.Id("B"), "prototype"), "isPrototypeOf"), i))),
		tryStmt(js.Log(str("isProtoF"), js.CallE(js.Dot(proto, "isPrototypeOf"), i))),
		tryStmt(js.Log(str("getproto"), bin("===", js.CallE(js.Dot(js.Id("Object"), "getPrototypeOf"), i), proto))),
		tryStmt(js.Log(str("ctor"), bin("===", js.Dot(i, "constructor"), F), bin("===", js.Dot(i, "constructor"), js.Id("B")),
			bin("===", js.Dot(i, "constructor"), js.Id("Object")))),
		tryStmt(js.Log(str("props"), js.Dot(i, "p"), js.Dot(i, "k"), js.Dot(i, "q"),
			js.CallE(js.Dot(i, "hasOwnProperty"), str("p")), bin("in", str("k"), i))),
		tryStmt(js.Log(str("del"), &js.Unary{Op: "delete", X: js.Dot(i, "p")}, js.Dot(i, "p"))),
		js.Log(str("o"), js.Dot(js.Id("o"), "p")),
	)
	// objects that ARE (or sit beside) the prototype: F.prototype itself, Object.prototype, an object whose
	// prototype is F.prototype's prototype, a null-prototype object, primitives; F plain / bound / native
	inst := func(l, r js.Expr) js.Expr { return bin("instanceof", l, r) }
	oproto := js.Dot(js.Id("Object"), "prototype")
	bproto := js.Dot(js.Id("B"), "prototype")
	create := func(x js.Expr) js.Expr { return js.CallE(js.Dot(js.Id("Object"), "create"), x) }
	getproto := func(x js.Expr) js.Expr { return js.CallE(js.Dot(js.Id("Object"), "getPrototypeOf"), x) }
	p.Body = append(p.Body,
		js.Var("bf", js.CallE(js.Dot(F, "bind"), &js.NullLit{})),
		tryStmt(js.Log(str("proto-self"), inst(proto, F), inst(bproto, js.Id("B")), inst(oproto, js.Id("Object")),
			inst(js.Dot(js.Id("Function"), "prototype"), js.Id("Function")), inst(js.Dot(js.Id("Array"), "prototype"), js.Id("Array")),
			inst(js.Dot(js.Id("Error"), "prototype"), js.Id("Error")), inst(js.Dot(js.Id("TypeError"), "prototype"), js.Id("Error")))),
		tryStmt(js.Log(str("proto-bound"), inst(proto, js.Id("bf")), inst(i, js.Id("bf")), inst(oproto, js.Id("bf")))),
		tryStmt(js.Log(str("sibling"), inst(create(getproto(proto)), F), inst(create(proto), F), inst(create(&js.NullLit{}), F),
			inst(create(&js.NullLit{}), js.Id("Object")))),
		tryStmt(js.Log(str("prims"), inst(js.N(5), F), inst(str("s"), F), inst(&js.Bool{V: true}, F), inst(&js.NullLit{}, F),
			inst(js.Id("undefined"), F), inst(js.N(5), js.Id("Number")), inst(str("s"), js.Id("String")))),
		tryStmt(js.Log(str("isProto-self"), js.CallE(js.Dot(proto, "isPrototypeOf"), proto), js.CallE(js.Dot(oproto, "isPrototypeOf"), oproto),
			js.CallE(js.Dot(oproto, "isPrototypeOf"), proto), js.CallE(js.Dot(proto, "isPrototypeOf"), create(proto)),
			js.CallE(js.Dot(oproto, "isPrototypeOf"), create(&js.NullLit{})), js.CallE(js.Dot(proto, "isPrototypeOf"), js.N(5)))),
	)
	if nk == 2 || nk == 3 {
		p.Body = append(p.Body, tryStmt(js.Log(str("boundinst"), bin("instanceof", i, js.Id("bound")))))
	}
	return p
}

func runCnew(r *engine.Run) {
	selfCheck(r)
	for rk := range retKindsCnew {
		for ps := range protoShapesCnew {
			for nk := range newKindsCnew {
				key := fmt.Sprintf("%s/%s/%s", retKindsCnew[rk], protoShapesCnew[ps], newKindsCnew[nk])
				if !r.MineKey(key) {
					continue
				}
				r.Tree(1, 1)
				checkProgram(r, key, programCnew(rk, ps, nk))
			}
		}
	}
	r.Bound("returns", fmt.Sprint(retKindsCnew))
	r.Bound("prototype_shapes", fmt.Sprint(protoShapesCnew))
	r.Bound("construct_kinds", fmt.Sprint(newKindsCnew))
}
