package c01

import (
	"fmt"

	"verif/mc/engine"
	"verif/mc/ref/js"
)

// Family H - collisions of the declaration kinds of ES5 10.5 on ONE name.
// Declaration binding instantiation binds, in this order, the formal parameters
// (step 4), the function declarations (step 5, overriding), the arguments
// object (steps 6-7, only when no binding named `arguments` exists yet) and the
// variables (step 8, never overriding); a named function expression adds the
// binding of its own name one scope further out (13), a catch clause one scope
// further in (12.14), eval code instantiates its declarations late in the same
// variable environment (10.4.2). The family is the full product of
//
//	code kind   function declaration f | named function expression f | global code
//	name N      x | arguments | f (the function's own name)
//	parameters  () (a) (N) (a,N) (N,N) (N,a)           (function code only)
//	actuals     0 | 1 | 2                              (function code only)
//	inner function declarations N   none | one | two (the later one wins)
//	var N       none | var N | var N = 7
//	catch (N)   none | catch (N) {observe} | catch (N) {var N = 8; observe}
//	direct eval none | eval("var N = 9") | eval("function N(..){}")
//
// and every program observes typeof N, N, N.length, typeof arguments,
// arguments.length and arguments[0] before the declarations' positions, between
// them and after them (all functions involved have pairwise different arities,
// so N.length identifies which declaration's value N holds).

var namesH = []string{"x", "arguments", "f"}

var kindsH = []string{"decl", "nfe", "global"}

func paramsH(cfg int, n string) []string {
	switch cfg {
	case 0:
		return nil
	case 1:
		return []string{"a"}
	case 2:
		return []string{n}
	case 3:
		return []string{"a", n}
	case 4:
		return []string{n, n}
	case 5:
		return []string{n, "a"}
	}
	panic("bad parameter configuration")
}

const nParamsH = 6

// obsH observes the bindings N and arguments. Every part that may throw (N
// unresolvable in global code, N undefined, arguments unresolvable) is guarded
// separately so that one throw does not hide the other observations.
func obsH(tag, n string) []js.Stmt {
	args := js.Id("arguments")
	return []js.Stmt{
		js.Log(js.S(tag+"t"), &js.Unary{Op: "typeof", X: js.Id(n)}, &js.Unary{Op: "typeof", X: args}),
		tryLog(js.Log(js.S(tag+"v"), js.Id(n))),
		tryLog(js.Log(js.S(tag+"l"), js.Dot(js.Id(n), "length"))),
		tryLog(js.Log(js.S(tag+"a"), js.Dot(args, "length"), js.Idx(args, js.N(0)))),
	}
}

func arityH(k int) []string { return []string{"p", "q", "r", "s", "t", "u"}[:k] }

func programH(kind int, n string, pcfg, nact, nfd, vr, ct, ev int) *js.Program {
	p := &js.Program{}
	var body []js.Stmt
	if nfd == 2 {
		// the first of two declarations stands before every observation
		body = append(body, &js.FuncDecl{Fn: js.Fn(n, arityH(3), ret(js.N(1)))})
	}
	body = append(body, obsH("pre", n)...)
	switch vr {
	case 1:
		body = append(body, js.Var(n, nil))
	case 2:
		body = append(body, js.Var(n, js.N(7)))
	}
	if vr != 0 {
		body = append(body, obsH("var", n)...)
	}
	if ct != 0 {
		var cb []js.Stmt
		if ct == 2 {
			cb = append(cb, js.Var(n, js.N(8)))
		}
		cb = append(cb, obsH("catch", n)...)
		body = append(body, &js.Try{Body: js.Blk(&js.Throw{X: js.S("exc")}), Param: n, Catch: js.Blk(cb...)})
		body = append(body, obsH("aftercatch", n)...)
	}
	switch ev {
	case 1:
		body = append(body, js.ES(js.CallE(js.Id("eval"), p.EvalCode(js.Var(n, js.N(9))))))
	case 2:
		body = append(body, js.ES(js.CallE(js.Id("eval"), p.EvalCode(&js.FuncDecl{Fn: js.Fn(n, arityH(6), ret(js.N(3)))}))))
	}
	if ev != 0 {
		body = append(body, obsH("eval", n)...)
	}
	if nfd >= 1 {
		// hoisted from behind the observations
		body = append(body, &js.FuncDecl{Fn: js.Fn(n, arityH(4+nfd-1), ret(js.N(2)))})
	}
	global := []js.Stmt{
		js.Log(js.S("Gt"), &js.Unary{Op: "typeof", X: js.Id("f")}, &js.Unary{Op: "typeof", X: js.Id(n)}),
		tryLog(js.Log(js.S("Gl"), js.Dot(js.Id(n), "length"))),
	}
	if kindsH[kind] == "global" {
		p.Body = append(p.Body, body...)
		p.Body = append(p.Body, global...)
		return p
	}
	body = append(body, ret(&js.Unary{Op: "typeof", X: js.Id(n)}))
	fn := js.Fn("f", paramsH(pcfg, n), body...)
	var actuals []js.Expr
	for i := 0; i < nact; i++ {
		actuals = append(actuals, js.N(float64(100*(i+1))))
	}
	if kindsH[kind] == "decl" {
		p.Body = append(p.Body, &js.FuncDecl{Fn: fn}, tryLog(js.Log(js.S("ret"), js.CallE(js.Id("f"), actuals...))))
	} else {
		p.Body = append(p.Body, tryLog(js.Log(js.S("ret"), js.CallE(fn, actuals...))))
	}
	p.Body = append(p.Body, global...)
	return p
}

func runH(r *engine.Run) {
	selfCheck(r)
	for kind := range kindsH {
		isGlobal := kindsH[kind] == "global"
		for _, n := range namesH {
			if isGlobal && n == "f" {
				continue // no function: the own-name column does not exist
			}
			for pcfg := 0; pcfg < nParamsH; pcfg++ {
				for nact := 0; nact < 3; nact++ {
					if isGlobal && (pcfg != 0 || nact != 0) {
						continue
					}
					for nfd := 0; nfd < 3; nfd++ {
						for vr := 0; vr < 3; vr++ {
							for ct := 0; ct < 3; ct++ {
								for ev := 0; ev < 3; ev++ {
									key := fmt.Sprintf("%s/%s/p%d/a%d/fd%d/var%d/catch%d/eval%d", kindsH[kind], n, pcfg, nact, nfd, vr, ct, ev)
									if !r.MineKey(key) {
										continue
									}
									if r.Expired() {
										r.Cap("time budget reached")
										return
									}
									r.Tree(1, 1)
									checkProgram(r, key, programH(kind, n, pcfg, nact, nfd, vr, ct, ev))
								}
							}
						}
					}
				}
			}
		}
	}
	r.Bound("code_kinds", "function declaration, named function expression, global code")
	r.Bound("names", "x, arguments, the function's own name")
	r.Bound("parameter_lists", "(), (a), (N), (a,N), (N,N), (N,a) x 0..2 actuals")
	r.Bound("declarations_of_N", "0..2 function declarations x {none, var, var=} x {none, catch, catch+var=} x {none, eval var=, eval function}")
}
