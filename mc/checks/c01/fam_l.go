package c01

import (
	"fmt"
	"strings"

	"verif/mc/engine"
	"verif/mc/ref/js"
)

// Family L - label-name reuse. Label sets are per function (and per eval
// Program), so the same identifier may label a statement in a caller and in a
// callee, or two sibling statements. The family crosses
//
//	inner: a statement labelled LBL (a or b) of every body kind (if, try, with,
//	       bare statement, block, do-while, for, switch, expression that calls)
//	       that is left by throw / ReferenceError / return / break LBL /
//	       continue LBL / normally, reached by a function call, by direct eval
//	       code, or inline,
//	outer: the statement labelled `a` (block, do-while, for, switch, if, none)
//	       that contains the try statement running the inner one,
//	handler shape and position of the jump (catch, finally, after the try),
//	jump: none, break a, continue a, break a nested in a block, a sibling
//	      statement labelled a again, return.
//
// Everything runs inside a function whose result is logged (completion values
// play no role). Full product, inapplicable combinations left out.

var innerKindsL = []string{"if", "try-finally", "with", "bare", "block", "do-while", "for", "switch", "call"}
var actsL = []string{"throw", "reference-error", "return", "break", "normal", "continue"}
var mechsL = []string{"call", "eval", "inline"}
var outerKindsL = []string{"do-while", "block", "for", "switch", "if", "none"}
var handlersL = []string{"catch", "catch+finally/catch", "catch+finally/finally", "finally", "after-try"}
var jumpsL = []string{"none", "break-a", "continue-a", "block-break-a", "sibling-a", "return"}

func actStmtL(act int, lbl string) js.Stmt {
	switch act {
	case 0:
		return &js.Throw{X: js.N(1)}
	case 1:
		return js.ES(js.CallE(js.Id("undeclared")))
	case 2:
		return ret(js.N(5))
	case 3:
		return &js.Break{Label: lbl}
	case 4:
		return js.Log(str("act"))
	case 5:
		return &js.Continue{Label: lbl}
	}
	panic("bad act")
}

// innerStmtL builds the labelled statement; extra holds helper declarations.
func innerStmtL(kind, act int, lbl string) (s js.Stmt, extra []js.Stmt, ok bool) {
	loop := kind == 5 || kind == 6
	if act == 5 && !loop {
		return nil, nil, false
	}
	if kind == 8 {
		// L: g2(); the action happens inside g2 (break/continue cannot cross it)
		if act == 3 || act == 5 {
			return nil, nil, false
		}
		g2 := &js.FuncDecl{Fn: js.Fn("g2", nil, js.Log(str("g2")), actStmtL(act, lbl))}
		return &js.Labelled{Label: lbl, Body: js.ES(js.CallE(js.Id("g2")))}, []js.Stmt{g2}, true
	}
	a := actStmtL(act, lbl)
	var body js.Stmt
	switch kind {
	case 0:
		body = &js.If{Test: &js.Bool{V: true}, Then: a}
	case 1:
		body = &js.Try{Body: js.Blk(a), Finally: js.Blk(js.Log(str("ff")))}
	case 2:
		body = &js.With{Obj: &js.ObjectLit{}, Body: a}
	case 3:
		body = a
	case 4:
		body = js.Blk(js.Log(str("ib")), a)
	case 5:
		body = &js.DoWhile{Body: js.Blk(js.Log(str("ib")), a), Test: lt(postInc("q"), 1)}
	case 6:
		body = &js.For{Init: &js.Assign{Op: "=", L: js.Id("q"), R: js.N(0)}, Test: lt(js.Id("q"), 2), Update: postInc("q"),
			Body: js.Blk(js.Log(str("ib")), a)}
	case 7:
		body = &js.Switch{Disc: js.N(1), Clauses: []js.Clause{{Test: js.N(1), Body: []js.Stmt{js.Log(str("ib")), a}}}}
	}
	return &js.Labelled{Label: lbl, Body: body}, nil, true
}

func jumpStmtL(j int) js.Stmt {
	switch j {
	case 0:
		return &js.Empty{}
	case 1:
		return &js.Break{Label: "a"}
	case 2:
		return &js.Continue{Label: "a"}
	case 3:
		return js.Blk(js.Log(str("jb")), &js.Break{Label: "a"})
	case 4:
		return &js.Labelled{Label: "a", Body: &js.DoWhile{Body: js.Blk(js.Log(str("s")), js.Blk(&js.Break{Label: "a"}), js.Log(str("never"))),
			Test: &js.Bool{V: false}}}
	case 5:
		return ret(js.N(7))
	}
	panic("bad jump")
}

func programL(kind, act, lblI, mech, outer, handler, jump int) (*js.Program, bool) {
	lbl := []string{"a", "b"}[lblI]
	outerLabelled := outer != 5
	// validity of the jump in its context
	switch jump {
	case 1, 3:
		if !outerLabelled {
			return nil, false
		}
	case 2:
		if outer != 0 && outer != 2 {
			return nil, false
		}
	case 4:
		if outerLabelled {
			return nil, false // nested statements may not reuse a label of their label set
		}
	}
	if mech == 1 && act == 2 {
		return nil, false // no return in eval code
	}
	if mech == 2 && lbl == "a" && outerLabelled {
		return nil, false // inline: same name nested in the same function is a SyntaxError
	}
	inner, extra, ok := innerStmtL(kind, act, lbl)
	if !ok {
		return nil, false
	}
	p := &js.Program{}
	var decls []js.Stmt
	decls = append(decls, extra...)
	var run js.Stmt
	switch mech {
	case 0:
		decls = append(decls, &js.FuncDecl{Fn: js.Fn("f", nil, js.Log(str("f")), inner, js.Log(str("f-end")), ret(js.N(6)))})
		run = js.Log(str("f="), js.CallE(js.Id("f")))
	case 1:
		run = js.Log(str("ev="), js.CallE(js.Id("eval"), p.EvalCode(js.Log(str("ev")), inner, js.Log(str("ev-end")))))
	case 2:
		run = inner
	}
	j := jumpStmtL(jump)
	caught := js.Log(str("caught"), &js.Unary{Op: "typeof", X: js.Id("e")})
	t := &js.Try{Body: js.Blk(js.Log(str("try")), run, js.Log(str("try-end")))}
	var after []js.Stmt
	switch handler {
	case 0:
		t.Param, t.Catch = "e", js.Blk(caught, j)
	case 1:
		t.Param, t.Catch, t.Finally = "e", js.Blk(caught, j), js.Blk(js.Log(str("fin")))
	case 2:
		t.Param, t.Catch, t.Finally = "e", js.Blk(caught), js.Blk(js.Log(str("fin")), j)
	case 3:
		t.Finally = js.Blk(js.Log(str("fin")), j)
	case 4:
		t.Param, t.Catch = "e", js.Blk(caught)
		after = []js.Stmt{j}
	}
	inside := append([]js.Stmt{js.Log(str("in"))}, t)
	inside = append(inside, after...)
	inside = append(inside, js.Log(str("after-try")))
	var st js.Stmt
	switch outer {
	case 0:
		st = &js.Labelled{Label: "a", Body: &js.DoWhile{Body: js.Blk(inside...), Test: lt(postInc("n"), 1)}}
	case 1:
		st = &js.Labelled{Label: "a", Body: js.Blk(inside...)}
	case 2:
		st = &js.Labelled{Label: "a", Body: &js.For{Init: &js.Assign{Op: "=", L: js.Id("n"), R: js.N(0)}, Test: lt(js.Id("n"), 2),
			Update: postInc("n"), Body: js.Blk(inside...)}}
	case 3:
		st = &js.Labelled{Label: "a", Body: &js.Switch{Disc: js.N(1), Clauses: []js.Clause{{Test: js.N(1), Body: inside},
			{Test: js.N(2), Body: []js.Stmt{js.Log(str("case2"))}}}}}
	case 4:
		st = &js.Labelled{Label: "a", Body: &js.If{Test: &js.Bool{V: true}, Then: js.Blk(inside...)}}
	case 5:
		st = js.Blk(inside...)
	}
	// main: the whole scenario inside a function; an escaping exception is logged
	main := js.Fn("main", nil, &js.VarDecl{Decls: []js.VarD{{Name: "n", Init: js.N(0)}, {Name: "q", Init: js.N(0)}}},
		st, js.Log(str("end")), ret(js.N(9)))
	p.Body = append(p.Body, decls...)
	p.Body = append(p.Body, &js.FuncDecl{Fn: main}, js.Var("q", js.N(0)),
		&js.Try{Body: js.Blk(js.Log(str("ret"), js.CallE(js.Id("main")))), Param: "x",
			Catch: js.Blk(js.Log(str("escaped"), &js.Unary{Op: "typeof", X: js.Id("x")}))},
		// a label of the same name once more at program level, after everything
		&js.Labelled{Label: "a", Body: js.Blk(js.Log(str("tail")), js.Blk(&js.Break{Label: "a"}), js.Log(str("never")))},
		js.Log(str("done")))
	return p, true
}

func runL(r *engine.Run) {
	selfCheck(r)
	nlbl := 1
	mechs := []int{0, 2} // quick: function call and inline; thorough adds direct eval code and label b
	if r.Thorough() {
		nlbl = 2
		mechs = []int{0, 1, 2}
	}
	for kind := range innerKindsL {
		for act := range actsL {
			for lbl := 0; lbl < nlbl; lbl++ {
				for _, mech := range mechs {
					for outer := range outerKindsL {
						for handler := range handlersL {
							for jump := range jumpsL {
								p, ok := programL(kind, act, lbl, mech, outer, handler, jump)
								if !ok {
									continue
								}
								key := fmt.Sprintf("%s/%s/%s/%s/%s/%s/%s", innerKindsL[kind], actsL[act], []string{"a", "b"}[lbl],
									mechsL[mech], outerKindsL[outer], handlersL[handler], jumpsL[jump])
								if !r.MineKey(key) {
									continue
								}
								if r.Expired() {
									r.Cap("time budget reached")
									return
								}
								r.Tree(1, 1)
								checkProgram(r, key, p)
							}
						}
					}
				}
			}
		}
	}
	r.Bound("inner_kinds", strings.Join(innerKindsL, ","))
	r.Bound("actions", strings.Join(actsL, ","))
	r.Bound("inner_label", "a"+map[bool]string{true: ",b", false: ""}[r.Thorough()])
	var mn []string
	for _, m := range mechs {
		mn = append(mn, mechsL[m])
	}
	r.Bound("mechanisms", strings.Join(mn, ","))
	r.Bound("outer_kinds", strings.Join(outerKindsL, ","))
	r.Bound("handlers", strings.Join(handlersL, ","))
	r.Bound("jumps", strings.Join(jumpsL, ","))
}
