package c01

import (
	"fmt"

	"verif/mc/engine"
	"verif/mc/ref/js"
)

// Family D - evaluation order. One expression statement whose operands are
// probes:
//
//	p(i)  logs ("p", i) when evaluated and returns an object whose valueOf logs
//	      ("v", i) and returns i and whose toString logs ("s", i) and returns "a"
//	q(i)  logs ("q", i) and returns the shared object o, whose properties a
//	      (getter/setter) and m (getter returning a logging method) log
//	f(i)  logs ("f", i) and returns a function logging ("c", i, #arguments)
//	x     a plain variable, u an undeclared identifier
//
// Every operator form is a root; every value operand slot is a DEVIATION point
// that may be replaced by any operator form whose own operands are probes
// (expression depth <= 2).

type genD struct {
	c       *engine.Chooser
	forms   []formD
	maxLvl  int
	repOnly bool
	probe   int
	ndev    int
}

type formD struct {
	name  string
	rep   bool // member of the representative subset used for two deviations
	build func(g *genD, v func() js.Expr) js.Expr
}

func (g *genD) p(fn string) js.Expr {
	g.probe++
	return js.CallE(js.Id(fn), js.N(float64(g.probe)))
}

func (g *genD) slot(level int) js.Expr {
	if level >= g.maxLvl {
		return g.p("p")
	}
	var alts []formD
	if g.repOnly {
		for _, f := range g.forms {
			if f.rep {
				alts = append(alts, f)
			}
		}
	} else {
		alts = g.forms
	}
	k := g.c.Deviate(1 + len(alts))
	if k == 0 {
		return g.p("p")
	}
	g.ndev++
	return alts[k-1].build(g, func() js.Expr { return g.slot(level + 1) })
}

// reference forms; each returns a reference-producing expression
var refNames = []string{"x", "o.a", "q[k]", "q.a", "u"}

func (g *genD) ref(kind int, v func() js.Expr) js.Expr {
	switch kind {
	case 0:
		return js.Id("x")
	case 1:
		return js.Dot(js.Id("o"), "a")
	case 2:
		base := g.p("q")
		return js.Idx(base, v())
	case 3:
		return js.Dot(g.p("q"), "a")
	}
	return js.Id("u")
}

func formsD() []formD {
	var fs []formD
	rep := map[string]bool{"+": true, "<": true, "&&": true, ",": true, "typeof u": true, "?:": true, "o.a = v": true,
		"x += v": true, "o.a++": true, "get q[k]": true, "call q.m(v)": true, "new f(v)": true}
	add := func(name string, b func(g *genD, v func() js.Expr) js.Expr) {
		fs = append(fs, formD{name: name, rep: rep[name], build: b})
	}
	for _, op := range []string{"+", "-", "*", "/", "%", "<<", ">>", ">>>", "<", ">", "<=", ">=", "==", "!=", "===", "!==",
		"&", "^", "|", "&&", "||", "in", "instanceof"} {
		op := op
		add(op, func(g *genD, v func() js.Expr) js.Expr {
			l := v()
			return &js.Binary{Op: op, L: l, R: v()}
		})
	}
	add(",", func(g *genD, v func() js.Expr) js.Expr {
		l := v()
		return &js.Seq{List: []js.Expr{l, v()}}
	})
	for _, op := range []string{"typeof", "void", "+", "-", "~", "!"} {
		op := op
		add("unary "+op, func(g *genD, v func() js.Expr) js.Expr { return &js.Unary{Op: op, X: v()} })
	}
	for k, rn := range refNames {
		k := k
		for _, op := range []string{"delete", "typeof"} {
			op := op
			add(op+" "+rn, func(g *genD, v func() js.Expr) js.Expr { return &js.Unary{Op: op, X: g.ref(k, v)} })
		}
	}
	add("?:", func(g *genD, v func() js.Expr) js.Expr {
		c := v()
		a := v()
		return &js.Cond{C: c, A: a, B: v()}
	})
	for k, rn := range refNames {
		k := k
		for _, op := range []string{"=", "+=", "-=", "*=", "/=", "%=", "<<=", ">>=", ">>>=", "&=", "^=", "|="} {
			op := op
			add(rn+" "+op+" v", func(g *genD, v func() js.Expr) js.Expr {
				l := g.ref(k, v)
				return &js.Assign{Op: op, L: l, R: v()}
			})
		}
	}
	for k, rn := range refNames {
		k := k
		for _, op := range []string{"++", "--"} {
			op := op
			add(op+rn, func(g *genD, v func() js.Expr) js.Expr { return &js.Unary{Op: op, X: g.ref(k, v)} })
			add(rn+op, func(g *genD, v func() js.Expr) js.Expr { return &js.Postfix{Op: op, X: g.ref(k, v)} })
		}
	}
	for k, rn := range refNames {
		k := k
		add("get "+rn, func(g *genD, v func() js.Expr) js.Expr { return g.ref(k, v) })
	}
	// calls
	add("call f(v,v)", func(g *genD, v func() js.Expr) js.Expr {
		callee := g.p("f")
		a := v()
		return js.CallE(callee, a, v())
	})
	add("call q.m(v)", func(g *genD, v func() js.Expr) js.Expr {
		callee := js.Dot(g.p("q"), "m")
		return js.CallE(callee, v())
	})
	add("call q[k](v)", func(g *genD, v func() js.Expr) js.Expr {
		base := g.p("q")
		callee := js.Idx(base, v())
		return js.CallE(callee, v())
	})
	add("call x(v)", func(g *genD, v func() js.Expr) js.Expr { return js.CallE(js.Id("x"), v()) })
	add("call u(v)", func(g *genD, v func() js.Expr) js.Expr { return js.CallE(js.Id("u"), v()) })
	add("new f(v)", func(g *genD, v func() js.Expr) js.Expr {
		callee := g.p("f")
		return &js.New{Callee: callee, Args: []js.Expr{v()}}
	})
	add("new q.m(v)", func(g *genD, v func() js.Expr) js.Expr {
		callee := js.Dot(g.p("q"), "m")
		return &js.New{Callee: callee, Args: []js.Expr{v()}}
	})
	add("new x(v)", func(g *genD, v func() js.Expr) js.Expr { return &js.New{Callee: js.Id("x"), Args: []js.Expr{v()}} })
	add("new u(v)", func(g *genD, v func() js.Expr) js.Expr { return &js.New{Callee: js.Id("u"), Args: []js.Expr{v()}} })
	return fs
}

func ret(x js.Expr) js.Stmt { return &js.Return{X: x} }

// preludeD builds the probe definitions.
func preludeD() []js.Stmt {
	i := js.Id("i")
	method := js.Fn("", []string{"y"},
		js.Log(js.S("m"), &js.Binary{Op: "===", L: &js.This{}, R: js.Id("o")}, js.Id("y")), ret(js.N(3)))
	o := &js.ObjectLit{Props: []js.PropDef{
		{Key: "a", Kind: "get", Val: js.Fn("", nil, js.Log(js.S("ga")), ret(js.N(2)))},
		{Key: "a", Kind: "set", Val: js.Fn("", []string{"w"}, js.Log(js.S("sa"), js.Id("w")))},
		{Key: "m", Kind: "get", Val: js.Fn("", nil, js.Log(js.S("gm")), ret(method))},
	}}
	pobj := &js.ObjectLit{Props: []js.PropDef{
		{Key: "valueOf", Kind: "value", Val: js.Fn("", nil, js.Log(js.S("v"), i), ret(i))},
		{Key: "toString", Kind: "value", Val: js.Fn("", nil, js.Log(js.S("s"), i), ret(js.S("a")))},
	}}
	called := js.Fn("", []string{"y", "z"}, js.Log(js.S("c"), i, js.Dot(js.Id("arguments"), "length")), ret(i))
	return []js.Stmt{
		js.Var("x", js.N(1)),
		js.Var("o", o),
		&js.FuncDecl{Fn: js.Fn("p", []string{"i"}, js.Log(js.S("p"), i), ret(pobj))},
		&js.FuncDecl{Fn: js.Fn("q", []string{"i"}, js.Log(js.S("q"), i), ret(js.Id("o")))},
		&js.FuncDecl{Fn: js.Fn("f", []string{"i"}, js.Log(js.S("f"), i), ret(called))},
	}
}

func exploreD(r *engine.Run, bound int, repOnly bool, exactDev int) {
	selfCheck(r)
	forms := formsD()
	engine.Explore(r, bound, func(c *engine.Chooser) {
		if r.Expired() {
			r.Cap("time budget reached")
			return
		}
		g := &genD{c: c, forms: forms, maxLvl: 2, repOnly: repOnly}
		root := forms[c.Pick(len(forms))]
		e := root.build(g, func() js.Expr { return g.slot(1) })
		if exactDev >= 0 && g.ndev != exactDev {
			return
		}
		key := c.Key()
		if !r.MineKey(key) {
			return
		}
		p := &js.Program{Body: append(preludeD(), js.ES(e))}
		checkProgram(r, key, p)
	})
	r.Bound("forms", fmt.Sprint(len(forms)))
	r.Bound("expression_depth", "2")
	r.Bound("deviations", fmt.Sprint(bound))
	if repOnly {
		n := 0
		for _, f := range forms {
			if f.rep {
				n++
			}
		}
		r.Bound("nested_forms", fmt.Sprintf("%d representative forms", n))
	}
}

// runD: every root form, at most one operand replaced by any nested form.
func runD(r *engine.Run) { exploreD(r, 1, false, -1) }

// runD2: every root form, exactly two operands replaced by representative forms.
func runD2(r *engine.Run) { exploreD(r, 2, true, 2) }
