package c01

import (
	"fmt"
	"os"
	"sync"
	"sync/atomic"
	"syscall"
	"time"
)

// cpuGuard is the per-case termination guard of this check. Non-termination is
// not what C01 measures, so no wall-clock oracle is used: the engine's
// wall-clock watchdog is not armed (a paused or starved machine must not turn
// into a VIOLATION); instead a case that consumes more than cpuLimit of
// *process CPU time* is reported the way the engine reports a hang (line
// "WATCHDOG family=.. key=.." on stderr, exit status 3), which the supervisor
// attributes to the announced case. Generated programs terminate by
// construction and take milliseconds, so the limit is only reached when the
// implementation under test loops.
const cpuLimit = 45 * time.Second

var guard struct {
	once   sync.Once
	mu     sync.Mutex
	family string
	key    string
	start  atomic.Int64 // CPU nanoseconds at arm time; 0 = disarmed
}

func processCPU() int64 {
	var ru syscall.Rusage
	if err := syscall.Getrusage(syscall.RUSAGE_SELF, &ru); err != nil {
		return 0
	}
	return ru.Utime.Nano() + ru.Stime.Nano()
}

func armGuard(family, key string) {
	guard.once.Do(func() {
		go func() {
			for {
				time.Sleep(500 * time.Millisecond)
				st := guard.start.Load()
				if st != 0 && processCPU()-st > int64(cpuLimit) {
					guard.mu.Lock()
					fmt.Fprintf(os.Stderr, "WATCHDOG family=%s key=%s\n", guard.family, guard.key)
					os.Exit(3)
				}
			}
		}()
	})
	guard.mu.Lock()
	guard.family, guard.key = family, key
	guard.mu.Unlock()
	cpu := processCPU()
	if cpu == 0 {
		cpu = 1
	}
	guard.start.Store(cpu)
}

func disarmGuard() { guard.start.Store(0) }
