package c01

import (
	"fmt"
	"strings"

	"verif/mc/engine"
	"verif/mc/ref/js"
)

// Family R - resolution time of identifier References (8.7, 10.2.2.1). A
// Reference's base is fixed when the identifier is resolved; a sub-expression
// that runs after the resolution and before the Reference is used may change
// which environment binds the name, and must not redirect the pending use.
//
//	form:  x = (M, v) | x += (M, v) | var x = (M, v) | x((M, 1))   (M in the operand)
//	       x++ | x -= 1   (M inside the valueOf of the value bound to x)
//	M:     nothing, eval("var x"), eval("var x = l"), (0,eval)("var x = ig"),
//	       the with object gains x, the with object loses x
//	shape: function with/without a local var x  x  catch (x) layer or not  x
//	       with (o) layer: none, o without x, o with x   (global x always exists)
//
// After the statement every binding is logged (visible x at three depths, o.x,
// the global x through a closure). Values are strings, functions carrying a tag
// (call form) or objects with a tag and a valueOf. Full product.

var formsR = []string{"assign", "compound", "var-init", "call", "postfix-incr", "compound-sub"}
var mutsR = []string{"none", "eval-var", "eval-var-init", "indirect-eval-var-init", "with-gains", "with-loses"}
var withsR = []string{"none", "empty", "has-x"}

// valR renders the value tagged tag in the value mode of the form.
func valR(mode int, tag string, m js.Stmt) js.Expr {
	switch mode {
	case 1: // function
		return js.CallE(js.Id("mk"), str(tag))
	case 2: // object whose valueOf performs the mutation
		body := []js.Stmt{js.Log(str("valueOf"), str(tag))}
		if m != nil {
			body = append(body, m)
		}
		body = append(body, ret(js.N(5)))
		return obj("tag", str(tag), "valueOf", js.Fn("", nil, body...))
	}
	return str(tag)
}

func programR(form, mut, local, catch, with int) (*js.Program, bool) {
	p := &js.Program{}
	mode := 0
	switch form {
	case 3:
		mode = 1
	case 4, 5:
		mode = 2
		if mut == 1 || mut == 2 || mut == 3 {
			return nil, false // eval inside valueOf would act on valueOf's own scope
		}
	}
	if (mut == 4 || mut == 5) && with == 0 {
		return nil, false
	}
	o := js.Id("o")
	x := js.Id("x")
	// the mutation as an expression (operand position) and as a statement (inside valueOf)
	var mExpr js.Expr
	switch mut {
	case 0:
		mExpr = js.N(0)
	case 1:
		mExpr = js.CallE(js.Id("eval"), p.EvalCode(js.Var("x", nil)))
	case 2:
		mExpr = js.CallE(js.Id("eval"), p.EvalCode(js.Var("x", valR(mode, "l", nil))))
	case 3:
		mExpr = js.CallE(&js.Seq{List: []js.Expr{js.N(0), js.Id("eval")}}, p.EvalCode(js.Var("x", valR(mode, "ig", nil))))
	case 4:
		mExpr = &js.Assign{Op: "=", L: js.Dot(o, "x"), R: valR(mode, "ox2", nil)}
	case 5:
		mExpr = &js.Unary{Op: "delete", X: js.Dot(o, "x")}
	}
	var mStmt js.Stmt
	if mode == 2 && mut != 0 {
		mStmt = js.ES(mExpr)
	}
	v := func(tag string) js.Expr { return valR(mode, tag, mStmt) }
	tg := func(e js.Expr) js.Expr { return js.CallE(js.Id("tg"), e) }
	var stmt []js.Stmt
	operand := func(val js.Expr) js.Expr {
		return &js.Seq{List: []js.Expr{js.CallE(js.Id("log"), str("M")), mExpr, val}}
	}
	switch form {
	case 0:
		stmt = []js.Stmt{js.Log(str("r"), tg(&js.Assign{Op: "=", L: x, R: operand(v("v"))}))}
	case 1:
		stmt = []js.Stmt{js.Log(str("r"), &js.Assign{Op: "+=", L: x, R: operand(str("+v"))})}
	case 2:
		stmt = []js.Stmt{js.Var("x", operand(v("v")))}
	case 3:
		stmt = []js.Stmt{js.Log(str("r"), js.CallE(x, operand(js.N(1))))}
	case 4:
		stmt = []js.Stmt{js.Log(str("r"), &js.Postfix{Op: "++", X: x})}
	case 5:
		stmt = []js.Stmt{js.Log(str("r"), &js.Assign{Op: "-=", L: x, R: js.N(1)})}
	}
	show := func(tag string) js.Stmt {
		return js.Log(str(tag), tg(x), tg(js.Dot(o, "x")), tg(js.CallE(js.Id("gx"))))
	}
	inner := append(stmt, show("in"))
	var body []js.Stmt
	if with != 0 {
		body = []js.Stmt{&js.With{Obj: o, Body: js.Blk(inner...)}, show("after-with")}
	} else {
		body = inner
	}
	if catch == 1 {
		body = []js.Stmt{&js.Try{Body: js.Blk(&js.Throw{X: v("cx")}), Param: "x", Catch: js.Blk(body...)}, show("after-catch")}
	}
	var fb []js.Stmt
	if local == 1 {
		fb = append(fb, js.Var("x", v("fl")))
	}
	oinit := &js.ObjectLit{}
	if with == 2 {
		oinit = obj("x", v("ox"))
	}
	fb = append(fb, assign(o, oinit))
	fb = append(fb, body...)
	fb = append(fb, show("f-end"))
	mkBody := js.Fn("", []string{"a"}, js.Log(str("called"), js.Id("t"), bin("===", &js.This{}, o), bin("===", &js.This{}, js.Id("G")), js.Id("a")),
		ret(bin("+", str("ret-"), js.Id("t"))))
	tgBody := []js.Stmt{
		&js.If{Test: bin("||", bin("===", &js.Unary{Op: "typeof", X: js.Id("w")}, str("function")),
			bin("&&", bin("===", &js.Unary{Op: "typeof", X: js.Id("w")}, str("object")), bin("!==", js.Id("w"), &js.NullLit{}))),
			Then: ret(bin("+", str("#"), js.Dot(js.Id("w"), "tag")))},
		ret(js.Id("w")),
	}
	p.Body = append(p.Body,
		js.Var("G", &js.This{}), js.Var("o", nil),
		&js.FuncDecl{Fn: js.Fn("mk", []string{"t"}, js.Var("fn", mkBody), assign(js.Dot(js.Id("fn"), "tag"), js.Id("t")), ret(js.Id("fn")))},
		&js.FuncDecl{Fn: js.Fn("tg", []string{"w"}, tgBody...)},
		&js.FuncDecl{Fn: js.Fn("gx", nil, ret(x))},
		&js.FuncDecl{Fn: js.Fn("f", nil, fb...)},
		js.Var("x", v("g")),
		tryLog(js.ES(js.CallE(js.Id("f")))),
		js.Log(str("G"), tg(x)))
	return p, true
}

func runR(r *engine.Run) {
	selfCheck(r)
	for form := range formsR {
		for mut := range mutsR {
			for local := 0; local < 2; local++ {
				for catch := 0; catch < 2; catch++ {
					for with := range withsR {
						p, ok := programR(form, mut, local, catch, with)
						if !ok {
							continue
						}
						key := fmt.Sprintf("%s/%s/local%d/catch%d/with-%s", formsR[form], mutsR[mut], local, catch, withsR[with])
						if !r.MineKey(key) {
							continue
						}
						r.Tree(1, 1)
						checkProgram(r, key, p)
					}
				}
			}
		}
	}
	r.Bound("forms", strings.Join(formsR, ","))
	r.Bound("mutations", strings.Join(mutsR, ","))
	r.Bound("shapes", "local var x {no,yes} x catch (x) {no,yes} x with {"+strings.Join(withsR, ",")+"}")
}
