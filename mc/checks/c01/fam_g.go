package c01

import (
	"fmt"
	"strings"

	"verif/mc/engine"
	"verif/mc/ref/js"
)

// Family G - histories of the arguments object (ES5 10.6 exotic [[Get]],
// [[GetOwnProperty]], [[DefineOwnProperty]], [[Delete]] with the parameter
// map). A function of one of four parameter shapes runs a sequence of
// operations on index 0 / 1: attribute changes (defineProperty with
// configurable:false, enumerable:false, a value, a read-only value, a getter;
// Object.seal / freeze / preventExtensions on the arguments object), delete,
// assignment through arguments, assignment through the formal parameter. After
// every operation both views are read back: the formals, arguments[0..1],
// length, and the attributes of both indices; at the end a link probe writes
// through every formal and then through arguments[0..1] and reads both views. Full product of shapes x
// operation sequences (<= 2 quick, <= 3 thorough).
//
// Not generated: defineProperty {writable:false} without a value (ES5.1 leaves
// the stale slot value, ES2015 refreshes it first - the two editions differ).

type shapeG struct {
	name   string
	params []string
	nargs  int
}

var shapesG = []shapeG{
	{"f(a,b)/2", []string{"a", "b"}, 2},
	{"f(a,b)/1", []string{"a", "b"}, 1},
	{"f(a,a)/2", []string{"a", "a"}, 2},
	{"f(a)/2", []string{"a"}, 2},
	{"f(a,b,a)/3", []string{"a", "b", "a"}, 3},
}

var opsG = []string{"cfg-false", "enum-false", "value", "value-readonly", "getter", "delete", "assign-arguments", "assign-formal"}
var wholeOpsG = []string{"seal", "freeze", "preventExtensions"}

// opG renders operation k (per-index ops first, then the whole-object ops).
func opG(sh shapeG, k, pos int) (js.Stmt, string, bool) {
	args := js.Id("arguments")
	v := js.N(float64(10*(pos+1) + 1))
	n := len(opsG)
	if k >= 2*n {
		name := wholeOpsG[k-2*n]
		return js.ES(js.CallE(js.Dot(js.Id("Object"), name), args)), name, true
	}
	idx, op := k/n, k%n
	at := js.Idx(args, js.N(float64(idx)))
	def := func(d *js.ObjectLit) js.Stmt {
		return js.ES(js.CallE(js.Dot(js.Id("Object"), "defineProperty"), args, str(fmt.Sprint(idx)), d))
	}
	name := fmt.Sprintf("%s%d", opsG[op], idx)
	switch op {
	case 0:
		return def(obj("configurable", &js.Bool{V: false})), name, true
	case 1:
		return def(obj("enumerable", &js.Bool{V: false})), name, true
	case 2:
		return def(obj("value", v)), name, true
	case 3:
		return def(obj("value", v, "writable", &js.Bool{V: false})), name, true
	case 4:
		return def(obj("get", js.Fn("", nil, ret(str("getter"))))), name, true
	case 5:
		return js.Log(str("del"), &js.Unary{Op: "delete", X: at}), name, true
	case 6:
		return assign(at, v), name, true
	case 7:
		if idx >= len(sh.params) {
			return nil, "", false
		}
		return assign(js.Id(sh.params[idx]), v), name, true
	}
	panic("bad op")
}

func programG(sh shapeG, ops []int) (*js.Program, []string, bool) {
	args := js.Id("arguments")
	distinct := []string{}
	seen := map[string]bool{}
	for _, p := range sh.params {
		if !seen[p] {
			seen[p] = true
			distinct = append(distinct, p)
		}
	}
	state := func(tag string) js.Stmt {
		list := []js.Expr{str(tag)}
		for _, p := range distinct {
			list = append(list, js.Id(p))
		}
		list = append(list, js.Idx(args, js.N(0)), js.Idx(args, js.N(1)), js.Idx(args, js.N(2)), js.Dot(args, "length"),
			js.CallE(js.Id("D"), args, js.N(0)), js.CallE(js.Id("D"), args, js.N(1)), js.CallE(js.Dot(js.Id("Object"), "isExtensible"), args))
		return js.Log(list...)
	}
	body := []js.Stmt{state("s0")}
	var names []string
	for pos, k := range ops {
		s, name, ok := opG(sh, k, pos)
		if !ok {
			return nil, nil, false
		}
		names = append(names, name)
		body = append(body, tryLog(s), state(fmt.Sprintf("s%d", pos+1)))
	}
	// final link probe: write through every formal, read arguments; write through
	// arguments, read the formals - shows which indices are still mapped
	for i, pn := range distinct {
		body = append(body, assign(js.Id(pn), str(fmt.Sprintf("f%d", i))))
	}
	body = append(body, state("link-formals"),
		tryLog(assign(js.Idx(args, js.N(0)), str("a0"))), tryLog(assign(js.Idx(args, js.N(1)), str("a1"))), state("link-arguments"))
	body = append(body, ret(js.N(0)))
	// D(args, i): kind and attributes of an own property
	d := js.Id("d")
	flag := func(n string) js.Expr { return &js.Cond{C: js.Dot(d, n), A: str("1"), B: str("0")} }
	dBody := []js.Stmt{
		js.Var("d", js.CallE(js.Dot(js.Id("Object"), "getOwnPropertyDescriptor"), js.Id("o"), js.CallE(js.Id("String"), js.Id("i")))),
		&js.If{Test: &js.Unary{Op: "!", X: d}, Then: ret(str("-"))},
		ret(bin("+", bin("+", bin("+", &js.Cond{C: bin("in", str("get"), d), A: str("A"), B: str("D")}, flag("writable")), flag("enumerable")), flag("configurable"))),
	}
	p := &js.Program{Body: []js.Stmt{
		&js.FuncDecl{Fn: js.Fn("D", []string{"o", "i"}, dBody...)},
		&js.FuncDecl{Fn: js.Fn("f", sh.params, body...)},
	}}
	var call []js.Expr
	for i := 0; i < sh.nargs; i++ {
		call = append(call, js.N(float64(i+1)))
	}
	p.Body = append(p.Body, js.ES(js.CallE(js.Id("f"), call...)))
	return p, names, true
}

func runG(r *engine.Run) {
	selfCheck(r)
	maxOps := 2
	if r.Thorough() {
		maxOps = 3
	}
	nops := 2*len(opsG) + len(wholeOpsG)
	for _, sh := range shapesG {
		for l := 0; l <= maxOps; l++ {
			total := 1
			for i := 0; i < l; i++ {
				total *= nops
			}
			for n := 0; n < total; n++ {
				ops := make([]int, l)
				x := n
				for i := l - 1; i >= 0; i-- {
					ops[i] = x % nops
					x /= nops
				}
				p, names, ok := programG(sh, ops)
				if !ok {
					continue
				}
				key := sh.name + "/" + strings.Join(names, ",")
				if !r.MineKey(key) {
					continue
				}
				if r.Expired() {
					r.Cap("time budget reached")
					return
				}
				r.Tree(1, 1)
				checkProgram(r, key, p)
			}
		}
	}
	var sn []string
	for _, s := range shapesG {
		sn = append(sn, s.name)
	}
	r.Bound("shapes", strings.Join(sn, " "))
	r.Bound("operations", "index {0,1} x "+strings.Join(opsG, ",")+" + "+strings.Join(wholeOpsG, ","))
	r.Bound("max_sequence_length", fmt.Sprint(maxOps))
}
