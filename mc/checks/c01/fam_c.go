package c01

import (
	"fmt"
	"strings"

	"verif/mc/engine"
	"verif/mc/ref/js"
)

// Family C - calls. Full product of
//   callee kind x this-argument x (#params, #args) in {0..3}^2 x <= 2 operations on `arguments`.
// The callee F logs its this value (classified by the helper T), performs the
// operations, logs its parameters and the arguments object, and returns 7.

func assign(l, r js.Expr) js.Stmt { return js.ES(&js.Assign{Op: "=", L: l, R: r}) }
func str(s string) js.Expr        { return js.S(s) }
func bin(op string, l, r js.Expr) js.Expr {
	return &js.Binary{Op: op, L: l, R: r}
}
func obj(kv ...interface{}) *js.ObjectLit {
	o := &js.ObjectLit{}
	for i := 0; i+1 < len(kv); i += 2 {
		o.Props = append(o.Props, js.PropDef{Key: kv[i].(string), Kind: "value", Val: kv[i+1]})
	}
	return o
}

// preludeC: var G = this; var o = {}; function T(t) {...}
func preludeC() []js.Stmt {
	t := js.Id("t")
	ots := js.CallE(js.Dot(js.Dot(js.Dot(js.Id("Object"), "prototype"), "toString"), "call"), t)
	tBody := []js.Stmt{
		&js.If{Test: bin("===", t, js.Id("G")), Then: ret(str("global"))},
		&js.If{Test: bin("===", t, js.Id("o")), Then: ret(str("o"))},
		&js.If{Test: bin("===", t, &js.Ident{Name: "undefined"}), Then: ret(str("undefined"))},
		&js.If{Test: bin("===", t, &js.NullLit{}), Then: ret(str("null"))},
		ret(bin("+", bin("+", bin("+", &js.Unary{Op: "typeof", X: t}, str("/")), ots), bin("+", str("/"), js.CallE(js.Id("String"), t)))),
	}
	return []js.Stmt{
		js.Var("G", &js.This{}),
		js.Var("o", &js.ObjectLit{}),
		&js.FuncDecl{Fn: js.Fn("T", []string{"t"}, tBody...)},
	}
}

var paramNames = []string{"a", "b", "c"}

var argOpsC = []string{"read0", "read1", "write0", "write1", "wparam0", "wparam1", "del0", "del1", "setlength",
	"callee", "defvalue0", "defreadonly0", "defgetter1"}

// argOp renders operation k; ok is false when it is not applicable (writing a
// parameter that does not exist).
func argOp(k, nparams int) (js.Stmt, bool) {
	args := js.Id("arguments")
	at := func(i int) js.Expr { return js.Idx(args, js.N(float64(i))) }
	defprop := func(i int, d *js.ObjectLit) js.Stmt {
		return js.ES(js.CallE(js.Dot(js.Id("Object"), "defineProperty"), args, str(fmt.Sprint(i)), d))
	}
	switch k {
	case 0, 1:
		return js.Log(str("r"), at(k)), true
	case 2, 3:
		return assign(at(k-2), js.N(float64(50+k-2))), true
	case 4, 5:
		i := k - 4
		if i >= nparams {
			return nil, false
		}
		return assign(js.Id(paramNames[i]), js.N(float64(60+i))), true
	case 6, 7:
		return js.Log(str("d"), &js.Unary{Op: "delete", X: at(k - 6)}), true
	case 8:
		return assign(js.Dot(args, "length"), js.N(1)), true
	case 9:
		return js.Log(str("c"), bin("===", js.Dot(args, "callee"), js.Id("F"))), true
	case 10:
		return defprop(0, obj("value", js.N(70))), true
	case 11:
		return defprop(0, obj("value", js.N(71), "writable", &js.Bool{V: false})), true
	case 12:
		return defprop(1, obj("get", js.Fn("", nil, ret(js.N(72))), "configurable", &js.Bool{V: true})), true
	}
	panic("bad arguments op")
}

func calleeBody(nparams int, ops []int) ([]js.Stmt, bool) {
	args := js.Id("arguments")
	body := []js.Stmt{js.Log(str("this"), js.CallE(js.Id("T"), &js.This{}))}
	for _, k := range ops {
		s, ok := argOp(k, nparams)
		if !ok {
			return nil, false
		}
		body = append(body, s)
	}
	end := []js.Expr{str("end")}
	for i := 0; i < nparams; i++ {
		end = append(end, js.Id(paramNames[i]))
	}
	end = append(end, js.Dot(args, "length"), js.Idx(args, js.N(0)), js.Idx(args, js.N(1)), js.Idx(args, js.N(2)))
	body = append(body, js.Log(end...), ret(js.N(7)))
	return body, true
}

var thisArgsC = []string{"absent", "undefined", "null", "0", `"s"`, "true", "o"}

func thisExpr(t int) js.Expr {
	switch t {
	case 1:
		return &js.Ident{Name: "undefined"}
	case 2:
		return &js.NullLit{}
	case 3:
		return js.N(0)
	case 4:
		return str("s")
	case 5:
		return &js.Bool{V: true}
	case 6:
		return js.Id("o")
	}
	return nil
}

// kinds of callee; explicitThis marks those crossed with the this-argument.
type kindC struct {
	name         string
	explicitThis bool
}

var kindsC = []kindC{
	{"declaration", false}, {"expression", false}, {"method", false}, {"getter", false},
	{"conditional", false}, {"comma", false}, {"computed-member", false}, {"logical-or", false},
	{"with-object", false}, {"catch-parameter", false},
	{"call", true}, {"apply-array", true}, {"apply-arguments", true}, {"apply-null", true},
	{"bind0", true}, {"bind1", true},
}

func argList(n int) []js.Expr {
	out := make([]js.Expr, n)
	for i := range out {
		out[i] = js.N(float64(i + 1))
	}
	return out
}

// programC builds one program; ok=false for inapplicable combinations.
func programC(kind, this, nparams, nargs int, ops []int) (*js.Program, bool) {
	body, ok := calleeBody(nparams, ops)
	if !ok {
		return nil, false
	}
	k := kindsC[kind]
	if k.explicitThis {
		if this == 0 && nargs != 0 {
			return nil, false // an absent this-argument leaves no room for arguments
		}
	} else if this != 0 {
		return nil, false
	}
	if k.name == "apply-null" && nargs != 0 {
		return nil, false
	}
	p := &js.Program{Body: preludeC()}
	fn := js.Fn("F", paramNames[:nparams], body...)
	if k.name == "expression" {
		fe := js.Fn("", paramNames[:nparams], body...)
		p.Body = append(p.Body, js.Var("F", fe))
	} else {
		p.Body = append(p.Body, &js.FuncDecl{Fn: fn})
	}
	F := js.Id("F")
	om := js.Dot(js.Id("o"), "m")
	args := argList(nargs)
	withThis := func(rest ...js.Expr) []js.Expr {
		if this == 0 {
			return nil
		}
		return append([]js.Expr{thisExpr(this)}, rest...)
	}
	var call js.Expr
	switch k.name {
	case "declaration", "expression":
		call = js.CallE(F, args...)
	case "method":
		p.Body = append(p.Body, assign(om, F))
		call = js.CallE(om, args...)
	case "getter":
		getter := js.Fn("", nil, js.Log(str("getter")), ret(F))
		p.Body = append(p.Body, js.ES(js.CallE(js.Dot(js.Id("Object"), "defineProperty"), js.Id("o"), str("g"), obj("get", getter))))
		call = js.CallE(js.Dot(js.Id("o"), "g"), args...)
	case "conditional":
		p.Body = append(p.Body, assign(om, F))
		call = js.CallE(&js.Cond{C: &js.Bool{V: true}, A: om, B: js.N(0)}, args...)
	case "comma":
		p.Body = append(p.Body, assign(om, F))
		call = js.CallE(&js.Seq{List: []js.Expr{js.N(0), om}}, args...)
	case "computed-member":
		// o["m"](...): property reference through a computed member expression

		p.Body = append(p.Body, assign(om, F))
		call = js.CallE(js.Idx(js.Id("o"), str("m")), args...)
	case "logical-or":
		p.Body = append(p.Body, assign(om, F))
		call = js.CallE(bin("||", om, js.N(0)), args...)
	case "with-object":
		// with (o) log("ret", m(...)): the callee resolves in an object environment
		// record with provideThis, so this = o (10.2.1.2.6, 11.2.3 step 6.b)
		p.Body = append(p.Body, assign(om, F),
			&js.With{Obj: js.Id("o"), Body: js.Log(str("ret"), js.CallE(js.Id("m"), args...))})
		return p, true
	case "catch-parameter":
		// the callee resolves in the declarative record of a catch clause:
		// ImplicitThisValue is undefined, so this = the global object
		p.Body = append(p.Body, &js.Try{Body: js.Blk(&js.Throw{X: F}), Param: "e",
			Catch: js.Blk(js.Log(str("ret"), js.CallE(js.Id("e"), args...)))})
		return p, true
	case "call":
		call = js.CallE(js.Dot(F, "call"), withThis(args...)...)
	case "apply-array":
		call = js.CallE(js.Dot(F, "apply"), withThis(&js.ArrayLit{Elems: args})...)
	case "apply-arguments":
		inner := js.CallE(js.Dot(F, "apply"), withThis(js.Id("arguments"))...)
		call = js.CallE(js.Fn("", nil, ret(inner)), args...)
	case "apply-null":
		call = js.CallE(js.Dot(F, "apply"), withThis(&js.NullLit{})...)
	case "bind0":
		call = js.CallE(js.CallE(js.Dot(F, "bind"), withThis()...), args...)
	case "bind1":
		call = js.CallE(js.CallE(js.Dot(F, "bind"), withThis(js.N(90))...), args...)
	}
	p.Body = append(p.Body, js.Log(str("ret"), call))
	return p, true
}

func runC(r *engine.Run) {
	selfCheck(r)
	maxN, maxOps := 2, 1
	if r.Thorough() {
		maxN, maxOps = 3, 2
	}
	nops := len(argOpsC)
	var seqs [][]int
	seqs = append(seqs, nil)
	for a := 0; a < nops; a++ {
		seqs = append(seqs, []int{a})
	}
	if maxOps >= 2 {
		for a := 0; a < nops; a++ {
			for b := 0; b < nops; b++ {
				seqs = append(seqs, []int{a, b})
			}
		}
	}
	for kind := range kindsC {
		for this := range thisArgsC {
			for np := 0; np <= maxN; np++ {
				for na := 0; na <= maxN; na++ {
					for _, ops := range seqs {
						p, ok := programC(kind, this, np, na, ops)
						if !ok {
							continue
						}
						var ob strings.Builder
						for _, k := range ops {
							ob.WriteByte("0123456789abc"[k])
						}
						key := fmt.Sprintf("%s/%s/p%d/a%d/%s", kindsC[kind].name, thisArgsC[this], np, na, ob.String())
						if !r.MineKey(key) {
							continue
						}
						if r.Expired() {
							r.Cap("time budget reached")
							return
						}
						r.Tree(1, 1)
						checkProgram(r, key, p)
					}
				}
			}
		}
	}
	r.Bound("params_args", fmt.Sprintf("{0..%d}^2", maxN))
	r.Bound("arguments_operations", fmt.Sprintf("<=%d of %s", maxOps, strings.Join(argOpsC, ",")))
	var kn []string
	for _, k := range kindsC {
		kn = append(kn, k.name)
	}
	r.Bound("callee_kinds", strings.Join(kn, ","))
	r.Bound("this_arguments", strings.Join(thisArgsC, ","))
}
