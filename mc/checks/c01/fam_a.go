package c01

import (
	"fmt"

	"verif/mc/engine"
	"verif/mc/ref/js"
)

// Family A - control skeletons. A program is
//
//	var <loop counters>; log(0); ROOT; log(n)
//
// where ROOT is a statement tree: every construct template has one hole (the
// nested tree) and fixed leaves around it. A leaf is log(i) (i = leaf position;
// the host function returns i, so order and completion values are observable)
// and is a DEVIATION point: it may be replaced by break, continue, break L,
// continue L (every label in scope, continue only for loop labels), return v
// (inside a function), throw v. Only syntactically valid programs are generated.

type labelInfo struct {
	name string
	loop bool
}

type scopeA struct {
	labels    []labelInfo
	inLoop    bool // unlabelled continue allowed
	breakable bool // unlabelled break allowed
	inFunc    bool // return allowed
}

func (s scopeA) with(pending []string, loop bool) scopeA {
	out := s
	out.labels = append([]labelInfo(nil), s.labels...)
	for _, l := range pending {
		out.labels = append(out.labels, labelInfo{l, loop})
	}
	return out
}

type genA struct {
	c        *engine.Chooser
	tmpl     []tmplA
	leaf     int
	node     int
	counters []string
	devs     []js.Stmt
	invalid  bool
	thorough bool
	depth    int // deepest nesting produced
}

// tmplA builds one construct: hole(scope, pending) generates the nested tree.
type tmplA struct {
	name  string
	quick bool
	build func(g *genA, sc scopeA, pending []string, hole func(scopeA, []string) js.Stmt) js.Stmt
}

func (g *genA) leafStmt(sc scopeA, pending []string) js.Stmt {
	if g.invalid {
		return &js.Empty{} // the case is discarded: stop branching
	}
	sc = sc.with(pending, false)
	i := g.leaf
	g.leaf++
	var alts []js.Stmt
	if sc.breakable {
		alts = append(alts, &js.Break{})
	}
	if sc.inLoop {
		alts = append(alts, &js.Continue{})
	}
	for _, l := range sc.labels {
		alts = append(alts, &js.Break{Label: l.name})
	}
	for _, l := range sc.labels {
		if l.loop {
			alts = append(alts, &js.Continue{Label: l.name})
		}
	}
	if sc.inFunc {
		alts = append(alts, &js.Return{X: js.N(float64(200 + i))})
	}
	alts = append(alts, &js.Throw{X: js.N(float64(100 + i))})
	alts = append(alts, &js.Block{}) // a statement with an empty completion value
	k := g.c.Deviate(1 + len(alts))
	var s js.Stmt
	if k == 0 {
		s = js.Log(js.N(float64(i)))
	} else {
		s = alts[k-1]
		g.devs = append(g.devs, s)
	}
	return wrapLabels(pending, s)
}

func wrapLabels(pending []string, s js.Stmt) js.Stmt {
	for i := len(pending) - 1; i >= 0; i-- {
		s = &js.Labelled{Label: pending[i], Body: s}
	}
	return s
}

func (g *genA) id() int { g.node++; return g.node }

// stmt generates a statement tree of nesting depth <= depth.
func (g *genA) stmt(depth, level int, sc scopeA, pending []string) js.Stmt {
	if depth == 0 || g.invalid {
		return g.leafStmt(sc, pending)
	}
	k := g.c.Pick(1 + len(g.tmpl))
	if k == 0 {
		return g.leafStmt(sc, pending)
	}
	if level+1 > g.depth {
		g.depth = level + 1
	}
	t := g.tmpl[k-1]
	if !t.quick && !g.thorough {
		g.invalid = true // thorough-only template: same choice encoding in both tiers
		return &js.Empty{}
	}
	return t.build(g, sc, pending, func(inner scopeA, p []string) js.Stmt {
		return g.stmt(depth-1, level+1, inner, p)
	})
}

func loopScope(sc scopeA, pending []string) scopeA {
	in := sc.with(pending, true)
	in.inLoop, in.breakable = true, true
	return in
}

func funcScope() scopeA { return scopeA{inFunc: true} }

func (g *genA) counter() string {
	n := fmt.Sprintf("c%d", g.id())
	g.counters = append(g.counters, n)
	return n
}

func lt(a js.Expr, n float64) js.Expr { return &js.Binary{Op: "<", L: a, R: js.N(n)} }
func postInc(n string) js.Expr        { return &js.Postfix{Op: "++", X: js.Id(n)} }

func tryTmpl(name string, quick bool, hasCatch, hasFinally bool, holeAt string) tmplA {
	return tmplA{name, quick, func(g *genA, sc scopeA, pending []string, hole func(scopeA, []string) js.Stmt) js.Stmt {
		in := sc.with(pending, false)
		t := &js.Try{}
		if holeAt == "try" {
			t.Body = js.Blk(g.leafStmt(in, nil), hole(in, nil), g.leafStmt(in, nil))
		} else if holeAt == "catch" {
			t.Body = js.Blk(g.leafStmt(in, nil), &js.Throw{X: js.N(float64(50 + g.id()))})
		} else {
			t.Body = js.Blk(g.leafStmt(in, nil))
		}
		if hasCatch {
			t.Param = "e"
			if holeAt == "catch" {
				t.Catch = js.Blk(js.Log(js.Id("e")), hole(in, nil), g.leafStmt(in, nil))
			} else {
				t.Catch = js.Blk(js.Log(js.Id("e")), g.leafStmt(in, nil))
			}
		}
		if hasFinally {
			if holeAt == "finally" {
				t.Finally = js.Blk(g.leafStmt(in, nil), hole(in, nil), g.leafStmt(in, nil))
			} else {
				t.Finally = js.Blk(g.leafStmt(in, nil))
			}
		}
		return wrapLabels(pending, t)
	}}
}

func switchTmpl(defPos, match int, quick bool) tmplA {
	name := fmt.Sprintf("switch-d%d-m%d", defPos, match)
	return tmplA{name, quick, func(g *genA, sc scopeA, pending []string, hole func(scopeA, []string) js.Stmt) js.Stmt {
		in := sc.with(pending, false)
		in.breakable = true
		sw := &js.Switch{Disc: js.N(float64(match + 1))}
		caseNo := 1
		for pos := 0; pos < 3; pos++ {
			var cl js.Clause
			if pos == defPos {
				cl.Default = true
			} else {
				cl.Test = js.N(float64(caseNo))
				caseNo++
			}
			if pos == 1 {
				cl.Body = []js.Stmt{hole(in, nil)}
			} else {
				cl.Body = []js.Stmt{g.leafStmt(in, nil)}
			}
			sw.Clauses = append(sw.Clauses, cl)
		}
		return wrapLabels(pending, sw)
	}}
}

func templatesA() []tmplA {
	return []tmplA{
		{"block", true, func(g *genA, sc scopeA, pending []string, hole func(scopeA, []string) js.Stmt) js.Stmt {
			in := sc.with(pending, false)
			return wrapLabels(pending, js.Blk(g.leafStmt(in, nil), hole(in, nil), g.leafStmt(in, nil)))
		}},
		{"if-then", true, func(g *genA, sc scopeA, pending []string, hole func(scopeA, []string) js.Stmt) js.Stmt {
			in := sc.with(pending, false)
			then := hole(in, nil)
			els := g.leafStmt(in, nil)
			s := &js.If{Test: &js.Bool{V: true}, Then: then, Else: els}
			if jsEndsOpenIf(then) {
				g.invalid = true
				s.Then = js.Blk(then)
			}
			return wrapLabels(pending, s)
		}},
		{"if-else", false, func(g *genA, sc scopeA, pending []string, hole func(scopeA, []string) js.Stmt) js.Stmt {
			in := sc.with(pending, false)
			then := g.leafStmt(in, nil)
			return wrapLabels(pending, &js.If{Test: &js.Bool{V: false}, Then: then, Else: hole(in, nil)})
		}},
		{"if-noelse", true, func(g *genA, sc scopeA, pending []string, hole func(scopeA, []string) js.Stmt) js.Stmt {
			in := sc.with(pending, false)
			return wrapLabels(pending, &js.If{Test: &js.Bool{V: true}, Then: hole(in, nil)})
		}},
		{"for", true, func(g *genA, sc scopeA, pending []string, hole func(scopeA, []string) js.Stmt) js.Stmt {
			in := loopScope(sc, pending)
			v := fmt.Sprintf("i%d", g.id())
			return wrapLabels(pending, &js.For{Init: js.Var(v, js.N(0)), Test: lt(js.Id(v), 2), Update: postInc(v),
				Body: js.Blk(g.leafStmt(in, nil), hole(in, nil), g.leafStmt(in, nil))})
		}},
		{"for-bare", false, func(g *genA, sc scopeA, pending []string, hole func(scopeA, []string) js.Stmt) js.Stmt {
			in := loopScope(sc, pending)
			v := fmt.Sprintf("i%d", g.id())
			return wrapLabels(pending, &js.For{Init: js.Var(v, js.N(0)), Test: lt(js.Id(v), 2), Update: postInc(v), Body: hole(in, nil)})
		}},
		{"while", true, func(g *genA, sc scopeA, pending []string, hole func(scopeA, []string) js.Stmt) js.Stmt {
			in := loopScope(sc, pending)
			cn := g.counter()
			return wrapLabels(pending, &js.While{Test: lt(postInc(cn), 2), Body: js.Blk(g.leafStmt(in, nil), hole(in, nil), g.leafStmt(in, nil))})
		}},
		{"do-while", true, func(g *genA, sc scopeA, pending []string, hole func(scopeA, []string) js.Stmt) js.Stmt {
			in := loopScope(sc, pending)
			cn := g.counter()
			return wrapLabels(pending, &js.DoWhile{Body: js.Blk(g.leafStmt(in, nil), hole(in, nil), g.leafStmt(in, nil)), Test: lt(postInc(cn), 1)})
		}},
		{"for-in", true, func(g *genA, sc scopeA, pending []string, hole func(scopeA, []string) js.Stmt) js.Stmt {
			in := loopScope(sc, pending)
			v := fmt.Sprintf("k%d", g.id())
			obj := &js.ObjectLit{Props: []js.PropDef{{Key: "a", Kind: "value", Val: js.N(1)}}}
			return wrapLabels(pending, &js.ForIn{Var: v, Obj: obj, Body: js.Blk(g.leafStmt(in, nil), hole(in, nil), g.leafStmt(in, nil))})
		}},
		{"labelled", true, func(g *genA, sc scopeA, pending []string, hole func(scopeA, []string) js.Stmt) js.Stmt {
			l := fmt.Sprintf("l%d", g.id())
			return hole(sc, append(append([]string(nil), pending...), l))
		}},
		switchTmpl(2, 0, true), switchTmpl(0, 2, true), switchTmpl(1, 1, true),
		switchTmpl(0, 0, false), switchTmpl(0, 1, false), switchTmpl(1, 0, false),
		switchTmpl(1, 2, false), switchTmpl(2, 1, false), switchTmpl(2, 2, false),
		tryTmpl("try-catch/try", true, true, false, "try"),
		tryTmpl("try-catch/catch", false, true, false, "catch"),
		tryTmpl("try-finally/try", true, false, true, "try"),
		tryTmpl("try-finally/finally", true, false, true, "finally"),
		tryTmpl("try-catch-finally/try", true, true, true, "try"),
		tryTmpl("try-catch-finally/catch", false, true, true, "catch"),
		tryTmpl("try-catch-finally/finally", false, true, true, "finally"),
		{"with", true, func(g *genA, sc scopeA, pending []string, hole func(scopeA, []string) js.Stmt) js.Stmt {
			in := sc.with(pending, false)
			return wrapLabels(pending, &js.With{Obj: &js.ObjectLit{}, Body: hole(in, nil)})
		}},
		{"iife", true, func(g *genA, sc scopeA, pending []string, hole func(scopeA, []string) js.Stmt) js.Stmt {
			in := funcScope()
			f := js.Fn("", nil, g.leafStmt(in, nil), hole(in, nil), g.leafStmt(in, nil))
			return wrapLabels(pending, js.ES(js.CallE(f)))
		}},
		{"forEach", true, func(g *genA, sc scopeA, pending []string, hole func(scopeA, []string) js.Stmt) js.Stmt {
			in := funcScope()
			f := js.Fn("", []string{"x"}, g.leafStmt(in, nil), hole(in, nil), g.leafStmt(in, nil))
			arr := &js.ArrayLit{Elems: []js.Expr{js.N(1), js.N(2)}}
			return wrapLabels(pending, js.ES(js.CallE(js.Dot(arr, "forEach"), f)))
		}},
	}
}

// jsEndsOpenIf mirrors the renderer's dangling-else test.
func jsEndsOpenIf(s js.Stmt) bool {
	switch s := s.(type) {
	case *js.If:
		if s.Else == nil {
			return true
		}
		return jsEndsOpenIf(s.Else)
	case *js.For:
		return jsEndsOpenIf(s.Body)
	case *js.ForIn:
		return jsEndsOpenIf(s.Body)
	case *js.While:
		return jsEndsOpenIf(s.Body)
	case *js.With:
		return jsEndsOpenIf(s.Body)
	case *js.Labelled:
		return jsEndsOpenIf(s.Body)
	}
	return false
}

// programA generates one family-A program from the chooser.
func programA(c *engine.Chooser, tmpl []tmplA, depth int, thorough bool) (*js.Program, *genA) {
	g := &genA{c: c, tmpl: tmpl, thorough: thorough}
	top := scopeA{}
	first := g.leafStmt(top, nil)
	root := g.stmt(depth, 0, top, nil)
	// the trailing leaf is a variable statement (empty completion value), so
	// that the completion value of ROOT is the completion value of the program
	last := g.leafStmt(top, nil)
	if es, ok := last.(*js.ExprStmt); ok {
		last = js.Var("z", es.X)
	}
	p := &js.Program{}
	if len(g.counters) > 0 {
		vd := &js.VarDecl{}
		for _, cn := range g.counters {
			vd.Decls = append(vd.Decls, js.VarD{Name: cn, Init: js.N(0)})
		}
		p.Body = append(p.Body, vd)
	}
	p.Body = append(p.Body, first, root, last)
	return p, g
}

// exploreA enumerates depth<=depth trees with <= bound deviations. onlyDepth>0
// restricts execution to trees of exactly that nesting depth.
func exploreA(r *engine.Run, depth, bound, onlyDepth int) {
	selfCheck(r)
	tmpl := templatesA()
	engine.Explore(r, bound, func(c *engine.Chooser) {
		if r.Expired() {
			r.Cap("time budget reached")
			return
		}
		p, g := programA(c, tmpl, depth, r.Thorough())
		if g.invalid || (onlyDepth > 0 && g.depth != onlyDepth) {
			return
		}
		key := c.Key()
		if !r.MineKey(key) {
			return
		}
		// A deviation that the reference execution never reaches makes the program
		// behave like one with fewer deviations, which is enumerated separately:
		// with two or more deviations such programs are discarded as redundant.
		if len(g.devs) >= 2 {
			trace := map[js.Stmt]bool{}
			js.RunTraced(p, false, 0, stepBudget, trace)
			for _, d := range g.devs {
				if !trace[d] {
					r.Skip()
					return
				}
			}
		}
		checkProgram(r, key, p)
	})
	names := ""
	for _, t := range tmpl {
		if !t.quick && !r.Thorough() {
			continue
		}
		if names != "" {
			names += ","
		}
		names += t.name
	}
	r.Bound("templates", names)
	r.Bound("depth", fmt.Sprint(depth))
	r.Bound("deviations", fmt.Sprint(bound))
}

func runA(r *engine.Run) { exploreA(r, 2, 2, 0) }

// runA3: depth exactly 3 with at most one deviation (thorough only).
func runA3(r *engine.Run) { exploreA(r, 3, 1, 3) }
