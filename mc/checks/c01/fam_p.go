package c01

import (
	"fmt"
	"strings"

	"verif/mc/engine"
	"verif/mc/ref/js"
)

// Family P - accessor properties reached through the prototype chain (8.12.3
// [[Get]] step: the getter is called with the ORIGINAL object as this; 8.12.5
// [[Put]] likewise for an inherited setter; 8.7.1/8.7.2 for primitive bases).
// receiver (object one or two levels below the prototype holding the accessor;
// number / string / boolean primitive, array, function, arguments object with
// the accessor on the built-in prototype) x way the accessor is defined
// (object literal get/set, Object.defineProperty) x operation (read, computed
// read, write, compound assignment, ++, delete then read, in, for-in, call of a
// method returned by an inherited getter, read and write through with). Getter
// and setter log a description of their this value; the setter stores into
// this.w and the program logs on which object w landed. Full product.

var receiversP = []string{"child", "grandchild", "number", "string", "boolean", "array", "function", "arguments"}
var definersP = []string{"literal", "defineProperty"}
var opsP = []string{"read", "computed-read", "write", "compound", "increment", "delete-then-read", "in", "for-in", "method-call", "with-read", "with-write"}

func programP(recv, definer, op int) *js.Program {
	id := js.Id
	this := &js.This{}
	// W(t): which object is t
	wBody := []js.Stmt{
		&js.If{Test: bin("===", id("t"), id("G")), Then: ret(str("global"))},
		&js.If{Test: bin("===", id("t"), id("proto")), Then: ret(str("PROTO"))},
		&js.If{Test: bin("===", id("t"), id("r")), Then: ret(str("receiver"))},
		ret(bin("+", bin("+", &js.Unary{Op: "typeof", X: id("t")}, str(":")), js.CallE(id("String"), js.CallE(js.Dot(js.Dot(js.Dot(id("Object"), "prototype"), "toString"), "call"), id("t"))))),
	}
	getter := js.Fn("", nil, js.Log(str("get"), js.CallE(id("W"), this), js.Dot(this, "v")), ret(js.N(5)))
	setter := js.Fn("", []string{"x"}, js.Log(str("set"), js.CallE(id("W"), this), js.Dot(this, "v"), id("x")), assign(js.Dot(this, "w"), id("x")))
	method := js.Fn("", nil, js.Log(str("getm"), js.CallE(id("W"), this)),
		ret(js.Fn("", []string{"a"}, js.Log(str("method"), js.CallE(id("W"), this), js.Dot(this, "v"), id("a")), ret(str("mr")))))
	p := &js.Program{Body: []js.Stmt{js.Var("G", this), js.Var("r", nil), js.Var("proto", nil),
		&js.FuncDecl{Fn: js.Fn("W", []string{"t"}, wBody...)}}}
	// the object that holds the accessor
	var protoExpr js.Expr
	switch recv {
	case 0, 1:
		protoExpr = obj("v", str("proto"))
	case 2:
		protoExpr = js.Dot(id("Number"), "prototype")
	case 3:
		protoExpr = js.Dot(id("String"), "prototype")
	case 4:
		protoExpr = js.Dot(id("Boolean"), "prototype")
	case 5:
		protoExpr = js.Dot(id("Array"), "prototype")
	case 6:
		protoExpr = js.Dot(id("Function"), "prototype")
	case 7:
		protoExpr = js.Dot(id("Object"), "prototype")
	}
	if definer == 0 && recv <= 1 {
		protoExpr = &js.ObjectLit{Props: []js.PropDef{{Key: "v", Kind: "value", Val: str("proto")},
			{Key: "g", Kind: "get", Val: getter}, {Key: "g", Kind: "set", Val: setter}, {Key: "m", Kind: "get", Val: method}}}
		p.Body = append(p.Body, assign(id("proto"), protoExpr))
	} else {
		// built-in prototypes cannot be written as literals: both definers use defineProperty there,
		// the "literal" one through a literal descriptor source object
		p.Body = append(p.Body, assign(id("proto"), protoExpr))
		def := func(name string, d *js.ObjectLit) js.Stmt {
			return js.ES(js.CallE(js.Dot(id("Object"), "defineProperty"), id("proto"), str(name), d))
		}
		enumerable := &js.Bool{V: definer == 0}
		p.Body = append(p.Body,
			def("g", obj("get", getter, "set", setter, "configurable", &js.Bool{V: true}, "enumerable", enumerable)),
			def("m", obj("get", method, "configurable", &js.Bool{V: true}, "enumerable", &js.Bool{V: false})))
	}
	// the receiver
	switch recv {
	case 0:
		p.Body = append(p.Body, assign(id("r"), js.CallE(js.Dot(id("Object"), "create"), id("proto"))), assign(js.Dot(id("r"), "v"), str("own")))
	case 1:
		p.Body = append(p.Body, js.Var("mid", js.CallE(js.Dot(id("Object"), "create"), id("proto"))), assign(js.Dot(id("mid"), "v"), str("mid")),
			assign(id("r"), js.CallE(js.Dot(id("Object"), "create"), id("mid"))), assign(js.Dot(id("r"), "v"), str("own")))
	case 2:
		p.Body = append(p.Body, assign(id("r"), js.N(5)))
	case 3:
		p.Body = append(p.Body, assign(id("r"), str("s")))
	case 4:
		p.Body = append(p.Body, assign(id("r"), &js.Bool{V: true}))
	case 5:
		p.Body = append(p.Body, assign(id("r"), &js.ArrayLit{Elems: []js.Expr{js.N(1)}}), assign(js.Dot(id("r"), "v"), str("own")))
	case 6:
		p.Body = append(p.Body, assign(id("r"), js.Fn("", nil)), assign(js.Dot(id("r"), "v"), str("own")))
	case 7:
		p.Body = append(p.Body, assign(id("r"), js.CallE(js.Fn("", nil, ret(id("arguments"))), js.N(1))), assign(js.Dot(id("r"), "v"), str("own")))
	}
	r := id("r")
	rg := js.Dot(r, "g")
	var stmts []js.Stmt
	switch op {
	case 0:
		stmts = []js.Stmt{js.Log(str("read"), rg)}
	case 1:
		stmts = []js.Stmt{js.Log(str("read"), js.Idx(r, str("g")))}
	case 2:
		stmts = []js.Stmt{js.Log(str("write"), &js.Assign{Op: "=", L: rg, R: js.N(7)})}
	case 3:
		stmts = []js.Stmt{js.Log(str("compound"), &js.Assign{Op: "+=", L: rg, R: js.N(1)})}
	case 4:
		stmts = []js.Stmt{js.Log(str("incr"), &js.Postfix{Op: "++", X: rg})}
	case 5:
		stmts = []js.Stmt{js.Log(str("delete"), &js.Unary{Op: "delete", X: rg}), js.Log(str("read"), rg)}
	case 6:
		stmts = []js.Stmt{js.Log(str("in"), bin("in", str("g"), js.CallE(id("Object"), r)), js.CallE(js.Dot(js.CallE(id("Object"), r), "hasOwnProperty"), str("g")))}
	case 7:
		// only the accessor's own visit is logged: the set of other names depends on the receiver kind
		stmts = []js.Stmt{&js.ForIn{Var: "k", Obj: r, Body: &js.If{Test: bin("===", id("k"), str("g")), Then: js.Log(str("for-in"), id("k"), js.Idx(r, id("k")))}}}
	case 8:
		stmts = []js.Stmt{js.Log(str("call"), js.CallE(js.Dot(r, "m"), js.N(1)))}
	case 9:
		stmts = []js.Stmt{&js.With{Obj: r, Body: js.Log(str("with-read"), id("g"))}}
	case 10:
		stmts = []js.Stmt{&js.With{Obj: r, Body: js.Log(str("with-write"), &js.Assign{Op: "=", L: id("g"), R: js.N(8)})}}
	}
	for _, s := range stmts {
		p.Body = append(p.Body, tryLog(s))
	}
	p.Body = append(p.Body, tryLog(js.Log(str("w"), js.Dot(r, "w"), js.Dot(id("proto"), "w"),
		js.CallE(js.Dot(js.Dot(js.Dot(id("Object"), "prototype"), "hasOwnProperty"), "call"), id("proto"), str("w")), js.Dot(id("G"), "w"))))
	return p
}

func runP(r *engine.Run) {
	selfCheck(r)
	for recv := range receiversP {
		for d := range definersP {
			for op := range opsP {
				key := fmt.Sprintf("%s/%s/%s", receiversP[recv], definersP[d], opsP[op])
				if !r.MineKey(key) {
					continue
				}
				r.Tree(1, 1)
				checkProgram(r, key, programP(recv, d, op))
			}
		}
	}
	r.Bound("receivers", strings.Join(receiversP, ","))
	r.Bound("definers", strings.Join(definersP, ","))
	r.Bound("operations", strings.Join(opsP, ","))
}
