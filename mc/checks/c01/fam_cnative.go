package c01

import (
	"fmt"
	"strings"

	"verif/mc/engine"
	"verif/mc/ref/js"
)

// Family Cnative - this-argument handed to BUILT-IN callees. 15.3.4.3-5 pass
// thisArg unchanged; the substitution of the global object for undefined/null
// (10.4.3) belongs to entering non-strict function code only. Full product of
// built-in callee x via {call, apply, bind, bind+call} x this-argument
// {absent, undefined, null, 0, "s", true, o}, plus forEach with a thisArg for a
// script and a built-in callback.

var nativeCalleesC = []string{"Object.prototype.toString", "Object.prototype.valueOf", "Object.prototype.hasOwnProperty",
	"Array.prototype.join", "String.prototype.valueOf", "Object.prototype.isPrototypeOf"}
var viaC = []string{"call", "apply", "bind", "bind-then-call"}

func nativeExpr(k int) (js.Expr, []js.Expr) {
	path := strings.Split(nativeCalleesC[k], ".")
	var e js.Expr = js.Id(path[0])
	for _, p := range path[1:] {
		e = js.Dot(e, p)
	}
	switch k {
	case 2:
		return e, []js.Expr{str("G")}
	case 3:
		return e, []js.Expr{str("-")}
	case 5:
		return e, []js.Expr{js.Id("o")}
	}
	return e, nil
}

func programCnative(k, via, this int) *js.Program {
	p := &js.Program{Body: preludeC()}
	callee, args := nativeExpr(k)
	var call js.Expr
	thisList := func(rest ...js.Expr) []js.Expr {
		if this == 0 {
			return nil
		}
		return append([]js.Expr{thisExpr(this)}, rest...)
	}
	switch via {
	case 0:
		if this == 0 {
			call = js.CallE(js.Dot(callee, "call"))
		} else {
			call = js.CallE(js.Dot(callee, "call"), thisList(args...)...)
		}
	case 1:
		if this == 0 {
			call = js.CallE(js.Dot(callee, "apply"))
		} else {
			call = js.CallE(js.Dot(callee, "apply"), thisList(&js.ArrayLit{Elems: args})...)
		}
	case 2:
		call = js.CallE(js.CallE(js.Dot(callee, "bind"), thisList()...), args...)
	case 3:
		// the bound this wins over the this of the later call
		call = js.CallE(js.Dot(js.CallE(js.Dot(callee, "bind"), thisList()...), "call"), append([]js.Expr{js.Id("o")}, args...)...)
	}
	p.Body = append(p.Body, tryLog(js.Log(str("r"), js.CallE(js.Id("T"), call))))
	return p
}

func runCnative(r *engine.Run) {
	selfCheck(r)
	for k := range nativeCalleesC {
		for via := range viaC {
			for this := range thisArgsC {
				key := fmt.Sprintf("%s/%s/%s", nativeCalleesC[k], viaC[via], thisArgsC[this])
				if !r.MineKey(key) {
					continue
				}
				r.Tree(1, 1)
				checkProgram(r, key, programCnative(k, via, this))
			}
		}
	}
	// forEach with an explicit thisArg: script callback (10.4.3 applies) and built-in callback
	for this := range thisArgsC {
		key := "forEach/" + thisArgsC[this]
		if !r.MineKey(key) {
			continue
		}
		p := &js.Program{Body: preludeC()}
		cb := js.Fn("", []string{"v"}, js.Log(str("cb"), js.CallE(js.Id("T"), &js.This{}), js.Id("v")))
		arr := &js.ArrayLit{Elems: []js.Expr{js.N(1)}}
		a1 := []js.Expr{cb}
		a2 := []js.Expr{js.Dot(js.Dot(js.Id("Object"), "prototype"), "valueOf")}
		if this != 0 {
			a1 = append(a1, thisExpr(this))
			a2 = append(a2, thisExpr(this))
		}
		p.Body = append(p.Body, tryLog(js.ES(js.CallE(js.Dot(arr, "forEach"), a1...))),
			tryLog(js.Log(str("native-cb"), js.CallE(js.Dot(arr, "forEach"), a2...))))
		r.Tree(1, 1)
		checkProgram(r, key, p)
	}
	r.Bound("callees", strings.Join(nativeCalleesC, ","))
	r.Bound("via", strings.Join(viaC, ","))
	r.Bound("this_arguments", strings.Join(thisArgsC, ","))
}
