package c01

import (
	"fmt"
	"strings"

	"verif/mc/engine"
	"verif/mc/ref/js"
)

// Family K - chains of Function.prototype.bind (15.3.4.5). A target (script
// function reading this and arguments, script constructor, built-in
// Object.prototype.valueOf, built-in Math.max) is bound one to three times,
// every level with its own this (an object carrying its level number, or
// undefined) and 0-2 bound arguments, and then invoked directly, through call /
// apply with yet another this, with new, and as a forEach callback with a
// thisArg. The innermost bound this wins, bound arguments accumulate innermost
// first, new ignores every bound this. The length of every chain is logged.
//
// Sub-family "reenter": a bound function is called again from inside its own
// call - from the valueOf of one of its (bound or call) arguments while a
// built-in target converts them, or from the script target's body - with other
// arguments; the outer call's argument list must not change.

var targetsK = []string{"who", "P", "Object.prototype.valueOf", "Math.max"}
var invokesK = []string{"direct", "call", "apply", "new", "forEach"}

func preludeK() []js.Stmt {
	this := &js.This{}
	args := js.Id("arguments")
	name := &js.Cond{C: bin("===", this, js.Id("G")), A: str("global"),
		B: &js.Cond{C: bin("==", this, &js.NullLit{}), A: str("nullish"), B: js.Dot(this, "n")}}
	at := func(i int) js.Expr { return js.Idx(args, js.N(float64(i))) }
	return []js.Stmt{
		js.Var("G", this),
		&js.FuncDecl{Fn: js.Fn("O", []string{"n"}, assign(js.Dot(this, "n"), js.Id("n")))},
		&js.FuncDecl{Fn: js.Fn("who", []string{"a", "b"}, js.Log(str("who"), name, js.Dot(args, "length"), at(0), at(1), at(2), at(3), at(4)), ret(str("r")))},
		&js.FuncDecl{Fn: js.Fn("P", []string{"a", "b", "c"},
			js.Log(str("P"), bin("instanceof", this, js.Id("P")), name, js.Dot(args, "length"), js.Id("a"), js.Id("b"), js.Id("c")),
			assign(js.Dot(this, "a"), js.Id("a")), assign(js.Dot(this, "n"), str("instance")))},
	}
}

func targetExprK(t int) js.Expr {
	switch t {
	case 0:
		return js.Id("who")
	case 1:
		return js.Id("P")
	case 2:
		return js.Dot(js.Dot(js.Id("Object"), "prototype"), "valueOf")
	}
	return js.Dot(js.Id("Math"), "max")
}

// levelK: this choice (0 = object of that level, 1 = undefined) and number of bound arguments.
type levelK struct{ undef, nargs int }

func programK(target int, levels []levelK, invoke int) *js.Program {
	p := &js.Program{Body: preludeK()}
	cur := targetExprK(target)
	argNo := 0
	for li, lv := range levels {
		var bargs []js.Expr
		if lv.undef == 1 {
			bargs = append(bargs, js.Id("undefined"))
		} else {
			bargs = append(bargs, &js.New{Callee: js.Id("O"), Args: []js.Expr{js.N(float64(li + 1))}})
		}
		for k := 0; k < lv.nargs; k++ {
			argNo++
			bargs = append(bargs, js.N(float64(10*(li+1)+k)))
		}
		name := fmt.Sprintf("c%d", li+1)
		p.Body = append(p.Body, js.Var(name, js.CallE(js.Dot(cur, "bind"), bargs...)), js.Log(str("len"), js.Dot(js.Id(name), "length")))
		cur = js.Id(name)
	}
	other := &js.New{Callee: js.Id("O"), Args: []js.Expr{js.N(9)}}
	show := func(e js.Expr) js.Stmt {
		// the result: a primitive as it is, an object by its level mark
		return tryLog(js.Var("res", e), js.Log(str("res"), &js.Unary{Op: "typeof", X: js.Id("res")},
			&js.Cond{C: bin("&&", bin("===", &js.Unary{Op: "typeof", X: js.Id("res")}, str("object")), bin("!==", js.Id("res"), &js.NullLit{})),
				A: &js.Cond{C: bin("===", js.Id("res"), js.Id("G")), A: str("global"), B: js.Dot(js.Id("res"), "n")}, B: js.Id("res")}))
	}
	switch invoke {
	case 0:
		p.Body = append(p.Body, show(js.CallE(cur, js.N(71), js.N(72))))
	case 1:
		p.Body = append(p.Body, show(js.CallE(js.Dot(cur, "call"), other, js.N(71))))
	case 2:
		p.Body = append(p.Body, show(js.CallE(js.Dot(cur, "apply"), other, &js.ArrayLit{Elems: []js.Expr{js.N(71), js.N(72)}})))
	case 3:
		p.Body = append(p.Body, show(&js.New{Callee: cur, Args: []js.Expr{js.N(71)}}),
			tryLog(js.Log(str("inst"), bin("instanceof", js.Id("res"), js.Id("P")), bin("instanceof", js.Id("res"), cur), js.Dot(js.Id("res"), "a"))))
	case 4:
		arr := &js.ArrayLit{Elems: []js.Expr{js.N(7)}}
		p.Body = append(p.Body, show(js.CallE(js.Dot(arr, "forEach"), cur, other)))
	}
	return p
}

// ---- re-entrant calls

var reTargetsK = []string{"Math.max", "who-reenters"}

// programReenter: nbound bound arguments, the re-entering probe at position
// probeAt (0..nbound-1 among the bound ones, nbound = first call argument),
// outerExtra / innerExtra further call arguments.
func programReenter(target, nbound, probeAt, outerExtra, innerExtra int) *js.Program {
	p := &js.Program{Body: preludeK()}
	b := js.Id("bf")
	var inner []js.Expr
	for k := 0; k < innerExtra; k++ {
		inner = append(inner, js.N(float64(100+k)))
	}
	reenter := &js.If{Test: &js.Unary{Op: "!", X: js.Id("busy")}, Then: js.Blk(
		assign(js.Id("busy"), js.N(1)), js.Log(str("inner="), js.CallE(b, inner...)), assign(js.Id("busy"), js.N(2)))}
	p.Body = append(p.Body, js.Var("busy", js.N(0)))
	var callee js.Expr
	var probe js.Expr = js.N(0)
	if target == 0 {
		callee = js.Dot(js.Id("Math"), "max")
		probe = obj("valueOf", js.Fn("", nil, js.Log(str("valueOf")), reenter, ret(js.N(0))))
	} else {
		// the script target itself calls the bound function again, then reads its own arguments
		args := js.Id("arguments")
		at := func(i int) js.Expr { return js.Idx(args, js.N(float64(i))) }
		body := []js.Stmt{js.Log(str("enter"), js.Dot(args, "length"), at(0), at(1), at(2), at(3), at(4), at(5)), reenter,
			js.Log(str("leave"), js.Dot(args, "length"), at(0), at(1), at(2), at(3), at(4), at(5), js.Id("a"), js.Id("b")),
			ret(js.CallE(js.Dot(js.Dot(js.Dot(js.Id("Array"), "prototype"), "join"), "call"), args, str("+")))}
		p.Body = append(p.Body, &js.FuncDecl{Fn: js.Fn("target", []string{"a", "b"}, body...)})
		callee = js.Id("target")
	}
	bargs := []js.Expr{&js.NullLit{}}
	for k := 0; k < nbound; k++ {
		if k == probeAt {
			bargs = append(bargs, probe)
		} else {
			bargs = append(bargs, js.N(float64(k+1)))
		}
	}
	var outer []js.Expr
	if probeAt == nbound {
		outer = append(outer, probe)
	}
	for k := 0; k < outerExtra; k++ {
		outer = append(outer, js.N(float64(5+k)))
	}
	p.Body = append(p.Body, js.Var("bf", js.CallE(js.Dot(callee, "bind"), bargs...)),
		tryLog(js.Log(str("outer="), js.CallE(b, outer...))),
		tryLog(js.Log(str("again="), js.CallE(b, js.N(3)))))
	return p
}

func runK(r *engine.Run) {
	selfCheck(r)
	var chains [][]levelK
	var rec func(cur []levelK, depth int)
	rec = func(cur []levelK, depth int) {
		if len(cur) > 0 {
			chains = append(chains, append([]levelK(nil), cur...))
		}
		if depth == 3 {
			return
		}
		for u := 0; u < 2; u++ {
			for n := 0; n < 3; n++ {
				rec(append(cur, levelK{u, n}), depth+1)
			}
		}
	}
	rec(nil, 0)
	for t := range targetsK {
		for _, ch := range chains {
			var cs []string
			for _, l := range ch {
				cs = append(cs, fmt.Sprintf("%s%d", []string{"o", "u"}[l.undef], l.nargs))
			}
			for inv := range invokesK {
				key := fmt.Sprintf("chain/%s/%s/%s", targetsK[t], strings.Join(cs, "."), invokesK[inv])
				if !r.MineKey(key) {
					continue
				}
				r.Tree(1, 1)
				checkProgram(r, key, programK(t, ch, inv))
			}
		}
	}
	for t := range reTargetsK {
		for nb := 0; nb <= 6; nb++ {
			for at := 0; at <= nb; at++ {
				for oe := 0; oe <= 2; oe++ {
					for ie := 0; ie <= 3; ie++ {
						key := fmt.Sprintf("reenter/%s/bound%d/probe%d/outer%d/inner%d", reTargetsK[t], nb, at, oe, ie)
						if !r.MineKey(key) {
							continue
						}
						r.Tree(1, 1)
						checkProgram(r, key, programReenter(t, nb, at, oe, ie))
					}
				}
			}
		}
	}
	r.Bound("targets", strings.Join(targetsK, ","))
	r.Bound("chains", fmt.Sprintf("%d chains: depth 1..3, per level this {object of that level, undefined} x 0..2 bound arguments", len(chains)))
	r.Bound("invocations", strings.Join(invokesK, ","))
	r.Bound("reenter", "targets "+strings.Join(reTargetsK, ",")+" x 0..6 bound arguments x probe position x 0..2 outer x 0..3 inner call arguments")
}
