package c01

import (
	"fmt"
	"strings"

	"verif/mc/engine"
	"verif/mc/ref/js"
)

// Family B - binding histories. A sequence of operations on one name (x, or
// `arguments` inside the parameter-named-arguments shape) is placed in a scope
// shape; afterwards the state is observed at every level. Full product of
// shapes x operation sequences.

var opNamesB = []string{"var", "var=", "fundecl", "assign", "read", "typeof", "delete", "capture", "callcap",
	"eval-var", "indirect-eval-var", "eval-fundecl"}

func tryLog(stmts ...js.Stmt) js.Stmt {
	return &js.Try{Body: js.Blk(stmts...), Param: "e",
		Catch: js.Blk(js.Log(js.S("E"), js.Dot(js.Id("e"), "name")))}
}

// opB renders operation k at position pos on name n. Function declarations are
// returned separately: they belong to the enclosing function/program level.
func opB(p *js.Program, k, pos int, n string) (stmt js.Stmt, hoisted js.Stmt) {
	v := js.N(float64(10 * (pos + 1)))
	g := fmt.Sprintf("g%d", pos)
	switch k {
	case 0:
		return js.Var(n, nil), nil
	case 1:
		return js.Var(n, v), nil
	case 2:
		return nil, &js.FuncDecl{Fn: js.Fn(n, nil, &js.Return{X: v})}
	case 3:
		return js.ES(&js.Assign{Op: "=", L: js.Id(n), R: v}), nil
	case 4:
		return tryLog(js.Log(js.S("r"), js.Id(n))), nil
	case 5:
		return js.Log(js.S("t"), &js.Unary{Op: "typeof", X: js.Id(n)}), nil
	case 6:
		return js.Log(js.S("d"), &js.Unary{Op: "delete", X: js.Id(n)}), nil
	case 7:
		return js.ES(&js.Assign{Op: "=", L: js.Id("g"), R: js.Fn("", nil, &js.Return{X: &js.Unary{Op: "typeof", X: js.Id(n)}})}), nil
	case 8:
		_ = g
		return tryLog(js.Log(js.S("g"), js.CallE(js.Id("g")))), nil
	case 9:
		return js.ES(js.CallE(js.Id("eval"), p.EvalCode(js.Var(n, v)))), nil
	case 10:
		return js.ES(js.CallE(&js.Seq{List: []js.Expr{js.N(0), js.Id("eval")}}, p.EvalCode(js.Var(n, v)))), nil
	case 11:
		return js.ES(js.CallE(js.Id("eval"), p.EvalCode(&js.FuncDecl{Fn: js.Fn(n, nil, &js.Return{X: v})}))), nil
	}
	panic("bad op")
}

// wrapB is one scope wrapper: it encloses body (with function declarations
// `hoisted` that must sit at function/program level) and returns the statements
// and the still-pending hoisted declarations. name is the name the operations
// inside act on.
type wrapB struct {
	name  string
	quick bool
	inner string // name the operations use inside ("" = unchanged)
	wrap  func(id int, body, hoisted []js.Stmt) (out, pending []js.Stmt)
}

func observeName(tag string, n string) js.Stmt {
	return tryLog(js.Log(js.S(tag), &js.Unary{Op: "typeof", X: js.Id(n)}, js.Id(n)))
}

func iife(f *js.FuncLit, args ...js.Expr) js.Stmt { return js.ES(js.CallE(f, args...)) }

func wrappersB() []wrapB {
	fnBody := func(body, hoisted []js.Stmt) []js.Stmt {
		return append(append([]js.Stmt(nil), body...), hoisted...)
	}
	return []wrapB{
		{"function", true, "", func(id int, body, hoisted []js.Stmt) ([]js.Stmt, []js.Stmt) {
			return []js.Stmt{iife(js.Fn("", nil, fnBody(body, hoisted)...))}, nil
		}},
		{"nested-function", true, "", func(id int, body, hoisted []js.Stmt) ([]js.Stmt, []js.Stmt) {
			inner := iife(js.Fn("", nil, fnBody(body, hoisted)...))
			outer := js.Fn("", nil, js.Var("x", js.S("outer")), inner, observeName("outer", "x"))
			return []js.Stmt{iife(outer)}, nil
		}},
		{"catch-x", true, "", func(id int, body, hoisted []js.Stmt) ([]js.Stmt, []js.Stmt) {
			t := &js.Try{Body: js.Blk(&js.Throw{X: js.S("exc")}), Param: "x", Catch: js.Blk(body...)}
			return []js.Stmt{t, observeName("aftercatch", "x")}, hoisted
		}},
		{"with-x", true, "", func(id int, body, hoisted []js.Stmt) ([]js.Stmt, []js.Stmt) {
			o := fmt.Sprintf("o%d", id)
			obj := &js.ObjectLit{Props: []js.PropDef{{Key: "x", Kind: "value", Val: js.S("prop")}}}
			w := &js.With{Obj: js.Id(o), Body: js.Blk(body...)}
			return []js.Stmt{js.Var(o, obj), w, js.Log(js.S("o.x"), js.Dot(js.Id(o), "x")), observeName("afterwith", "x")}, hoisted
		}},
		{"with-empty", true, "", func(id int, body, hoisted []js.Stmt) ([]js.Stmt, []js.Stmt) {
			o := fmt.Sprintf("o%d", id)
			w := &js.With{Obj: js.Id(o), Body: js.Blk(body...)}
			return []js.Stmt{js.Var(o, &js.ObjectLit{}), w, js.Log(js.S("o.x"), js.Dot(js.Id(o), "x")), observeName("afterwith", "x")}, hoisted
		}},
		{"nfe-x", true, "", func(id int, body, hoisted []js.Stmt) ([]js.Stmt, []js.Stmt) {
			return []js.Stmt{iife(js.Fn("x", nil, fnBody(body, hoisted)...))}, nil
		}},
		{"fundecl-x", true, "", func(id int, body, hoisted []js.Stmt) ([]js.Stmt, []js.Stmt) {
			// function x() { OPS }  x();  - a FunctionDeclaration creates no binding of
			// its own name inside itself: the operations act on the enclosing x
			decl := &js.FuncDecl{Fn: js.Fn("x", nil, fnBody(body, hoisted)...)}
			return []js.Stmt{tryLog(js.Log(js.S("call-x"), js.CallE(js.Id("x")))), observeName("afterdecl", "x")}, []js.Stmt{decl}
		}},
		{"param-x", true, "", func(id int, body, hoisted []js.Stmt) ([]js.Stmt, []js.Stmt) {
			return []js.Stmt{iife(js.Fn("", []string{"x"}, fnBody(body, hoisted)...), js.S("arg"))}, nil
		}},
		{"param-arguments", true, "arguments", func(id int, body, hoisted []js.Stmt) ([]js.Stmt, []js.Stmt) {
			return []js.Stmt{iife(js.Fn("", []string{"arguments"}, fnBody(body, hoisted)...), js.S("arg"))}, nil
		}},
	}
}

// shapeB is a list of wrappers, outermost first (empty = global code).
type shapeB []int

func shapesB(thorough bool) []shapeB {
	ws := wrappersB()
	out := []shapeB{{}}
	for i := range ws {
		out = append(out, shapeB{i})
	}
	if thorough {
		for i := range ws {
			for j := range ws {
				out = append(out, shapeB{i, j})
			}
		}
	}
	return out
}

func (s shapeB) String() string {
	ws := wrappersB()
	if len(s) == 0 {
		return "global"
	}
	var parts []string
	for _, i := range s {
		parts = append(parts, ws[i].name)
	}
	return strings.Join(parts, ">")
}

func programB(shape shapeB, ops []int) *js.Program {
	ws := wrappersB()
	p := &js.Program{}
	name := "x"
	for _, i := range shape {
		if ws[i].inner != "" {
			name = ws[i].inner
		}
	}
	var body, hoisted []js.Stmt
	for pos, k := range ops {
		s, h := opB(p, k, pos, name)
		if s != nil {
			body = append(body, s)
		}
		if h != nil {
			hoisted = append(hoisted, h)
		}
	}
	body = append(body, observeName("in", name))
	for d := len(shape) - 1; d >= 0; d-- {
		body, hoisted = ws[shape[d]].wrap(d, body, hoisted)
	}
	p.Body = append(p.Body, js.Var("g", nil))
	p.Body = append(p.Body, body...)
	p.Body = append(p.Body, hoisted...)
	// global observation: binding present? deletable?
	p.Body = append(p.Body, observeName("G", "x"),
		js.Log(js.S("Gd"), &js.Unary{Op: "delete", X: js.Id("x")}, &js.Unary{Op: "typeof", X: js.Id("x")}))
	return p
}

func runB(r *engine.Run) {
	selfCheck(r)
	maxOps := 3
	if r.Thorough() {
		maxOps = 4
	}
	nops := len(opNamesB)
	for _, shape := range shapesB(r.Thorough()) {
		lim := maxOps
		if len(shape) == 2 {
			lim = 3 // composed shapes: sequences of at most three operations
		}
		for l := 0; l <= lim; l++ {
			total := 1
			for i := 0; i < l; i++ {
				total *= nops
			}
			for n := 0; n < total; n++ {
				ops := make([]int, l)
				x := n
				for i := l - 1; i >= 0; i-- {
					ops[i] = x % nops
					x /= nops
				}
				var kb strings.Builder
				kb.WriteString(shape.String())
				kb.WriteByte('/')
				for _, k := range ops {
					kb.WriteByte("0123456789ab"[k])
				}
				key := kb.String()
				if !r.MineKey(key) {
					continue
				}
				if r.Expired() {
					r.Cap("time budget reached")
					return
				}
				r.Tree(1, 1)
				checkProgram(r, key, programB(shape, ops))
			}
		}
	}
	r.Bound("operations", strings.Join(opNamesB, ","))
	r.Bound("max_sequence_length", fmt.Sprint(maxOps))
	r.Bound("shapes", fmt.Sprint(len(shapesB(r.Thorough()))))
}
