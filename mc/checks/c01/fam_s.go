package c01

import (
	"fmt"
	"strings"

	"verif/mc/engine"
	"verif/mc/ref/js"
)

// Family S - leaving scope-introducing constructs. Every construct that puts an
// environment on the scope chain (with, catch, a function call with a
// parameter, a named function expression; also two of them nested) binds the
// name x; its body is left in every way (normally, break, continue, return
// through finally, throw from the body, from a callee, from a getter of the
// with object, from a finally inside it); the exception is handled inside the
// construct, in the same activation, or in the calling activation. At every
// observation point afterwards (rest of the try block, catch handler, finally
// block, after the try statement, the caller) the name x is read, captured by a
// new closure and assigned, and the program logs where the assignment went
// (global x through a closure created before, o.x). Full product.

var constructsS = []string{"with", "catch", "call-param", "nfe", "with>catch", "catch>with", "call-param>with", "nfe>catch", "with>with"}
var exitsS = []string{"normal", "break", "continue", "return-through-finally", "throw", "throw-from-callee", "throw-from-getter", "throw-from-inner-finally"}
var handlersS = []string{"inside", "same-activation", "outer-activation"}

func obsS(tag string) []js.Stmt {
	x := js.Id("x")
	return []js.Stmt{
		tryLog(js.Log(str(tag), js.CallE(js.Id("tg"), x), js.CallE(js.Id("tg"), js.CallE(js.Fn("", nil, ret(x)))))),
		assign(x, str(tag+"!")),
		js.Log(str(tag+"-w"), js.CallE(js.Id("tg"), js.CallE(js.Id("gx"))), js.Dot(js.Id("o"), "x"), js.Dot(js.Id("o2"), "x")),
	}
}

func exitStmtS(exit int) js.Stmt {
	switch exit {
	case 0:
		return js.Log(str("body-end"))
	case 1:
		return &js.Break{Label: "lp"}
	case 2:
		return &js.Continue{Label: "lp"}
	case 3:
		return &js.Try{Body: js.Blk(ret(str("returned"))), Finally: js.Blk(js.Log(str("ret-finally"), js.CallE(js.Id("tg"), js.Id("x"))))}
	case 4:
		return &js.Throw{X: str("thrown")}
	case 5:
		return js.ES(js.CallE(js.Id("thrower")))
	case 6:
		return js.ES(js.Dot(js.Id("og"), "boom"))
	case 7:
		return &js.Try{Body: js.Blk(js.Log(str("inner-try"))), Finally: js.Blk(&js.Throw{X: str("from-finally")})}
	}
	panic("bad exit")
}

// wrapConstructS wraps body in one scope-introducing construct.
func wrapConstructS(kind string, level int, body []js.Stmt) js.Stmt {
	switch kind {
	case "with":
		obj := "o"
		if level > 0 {
			obj = "o2"
		}
		return &js.With{Obj: js.Id(obj), Body: js.Blk(body...)}
	case "catch":
		// the construct's own finally block runs outside the catch environment (12.14)
		return &js.Try{Body: js.Blk(&js.Throw{X: str(fmt.Sprintf("cx%d", level))}), Param: "x", Catch: js.Blk(body...),
			Finally: js.Blk(obsS(fmt.Sprintf("k%d", level))...)}
	case "call-param":
		return js.ES(js.CallE(js.Fn("", []string{"x"}, body...), str(fmt.Sprintf("px%d", level))))
	case "nfe":
		return js.ES(js.CallE(js.Fn("x", nil, body...)))
	}
	panic("bad construct " + kind)
}

func programS(construct, exit, handler int) (*js.Program, bool) {
	kinds := strings.Split(constructsS[construct], ">")
	crossesFunction := false
	for _, k := range kinds {
		if k == "call-param" || k == "nfe" {
			crossesFunction = true
		}
	}
	innermostFunction := kinds[len(kinds)-1] == "call-param" || kinds[len(kinds)-1] == "nfe"
	if (exit == 1 || exit == 2) && crossesFunction {
		return nil, false // break/continue cannot leave a function
	}
	if exit == 3 && !innermostFunction && crossesFunction {
		// return inside with/catch nested in the function construct: leaves both; fine
	}
	throws := exit >= 4
	if handler == 0 && !throws {
		return nil, false // nothing to handle inside
	}
	tg := func(e js.Expr) js.Expr { return js.CallE(js.Id("tg"), e) }
	// innermost body
	body := []js.Stmt{js.Log(str("body"), tg(js.Id("x")))}
	ex := exitStmtS(exit)
	if handler == 0 {
		// the exception is handled inside the construct, which then goes on
		ex = &js.Try{Body: js.Blk(ex), Param: "e", Catch: js.Blk(js.Log(str("caught-inside"), js.Id("e")))}
		body = append(body, ex)
		body = append(body, obsIn("inside")...)
	} else {
		body = append(body, ex, js.Log(str("body-after-exit")))
	}
	var st js.Stmt
	for i := len(kinds) - 1; i >= 0; i-- {
		st = wrapConstructS(kinds[i], i, body)
		body = []js.Stmt{js.Log(str("level"), js.N(float64(i)), tg(js.Id("x"))), st, js.Log(str("level-end"), js.N(float64(i)), tg(js.Id("x")))}
	}
	// after the outermost construct (same list)
	seq := append([]js.Stmt{}, body...)
	seq = append(seq, js.Log(str("after-construct")))
	seq = append(seq, obsS("t")...)
	var region js.Stmt = js.Blk(seq...)
	if exit == 1 || exit == 2 {
		region = &js.Labelled{Label: "lp", Body: &js.For{Init: &js.Assign{Op: "=", L: js.Id("n"), R: js.N(0)}, Test: lt(js.Id("n"), 2), Update: postInc("n"),
			Body: js.Blk(seq...)}}
	}
	handlerStmts := func(inner js.Stmt) js.Stmt {
		return &js.Try{Body: js.Blk(inner), Param: "e",
			Catch:   js.Blk(append([]js.Stmt{js.Log(str("caught"), js.Id("e"))}, obsS("c")...)...),
			Finally: js.Blk(obsS("f")...)}
	}
	var mainBody []js.Stmt
	mainBody = append(mainBody, js.Var("n", js.N(0)))
	var decls []js.Stmt
	if handler == 2 {
		innerFn := js.Fn("inner", nil, js.Var("n", js.N(0)), region, js.Log(str("inner-end")), ret(str("inner-result")))
		decls = append(decls, &js.FuncDecl{Fn: innerFn})
		mainBody = append(mainBody, handlerStmts(js.Log(str("inner="), js.CallE(js.Id("inner")))))
	} else {
		mainBody = append(mainBody, handlerStmts(region))
	}
	mainBody = append(mainBody, obsS("a")...)
	mainBody = append(mainBody, ret(str("main-result")))
	boom := js.Fn("", nil, &js.Throw{X: str("getter")})
	tgBody := []js.Stmt{
		&js.If{Test: bin("===", &js.Unary{Op: "typeof", X: js.Id("w")}, str("function")), Then: ret(str("#fn"))},
		ret(js.Id("w")),
	}
	p := &js.Program{}
	p.Body = append(p.Body,
		js.Var("x", str("g")),
		js.Var("o", obj("x", str("wx"))), js.Var("o2", obj("x", str("wx2"))),
		js.Var("og", &js.ObjectLit{Props: []js.PropDef{{Key: "boom", Kind: "get", Val: boom}}}),
		&js.FuncDecl{Fn: js.Fn("gx", nil, ret(js.Id("x")))},
		&js.FuncDecl{Fn: js.Fn("tg", []string{"w"}, tgBody...)},
		&js.FuncDecl{Fn: js.Fn("thrower", nil, &js.Throw{X: str("callee")})})
	p.Body = append(p.Body, decls...)
	p.Body = append(p.Body, &js.FuncDecl{Fn: js.Fn("main", nil, mainBody...)},
		tryLog(js.Log(str("main="), js.CallE(js.Id("main")))))
	p.Body = append(p.Body, obsS("G")...)
	return p, true
}

// obsIn observes inside the construct without assigning through gx-visible names only.
func obsIn(tag string) []js.Stmt {
	x := js.Id("x")
	return []js.Stmt{
		js.Log(str(tag), js.CallE(js.Id("tg"), x), js.CallE(js.Id("tg"), js.CallE(js.Fn("", nil, ret(x))))),
		assign(x, str(tag+"!")),
		js.Log(str(tag+"-w"), js.CallE(js.Id("tg"), js.CallE(js.Id("gx"))), js.Dot(js.Id("o"), "x"), js.Dot(js.Id("o2"), "x"), js.CallE(js.Id("tg"), x)),
	}
}

func runS(r *engine.Run) {
	selfCheck(r)
	for c := range constructsS {
		for e := range exitsS {
			for h := range handlersS {
				p, ok := programS(c, e, h)
				if !ok {
					continue
				}
				key := fmt.Sprintf("%s/%s/%s", constructsS[c], exitsS[e], handlersS[h])
				if !r.MineKey(key) {
					continue
				}
				r.Tree(1, 1)
				checkProgram(r, key, p)
			}
		}
	}
	r.Bound("constructs", strings.Join(constructsS, ","))
	r.Bound("exits", strings.Join(exitsS, ","))
	r.Bound("handlers", strings.Join(handlersS, ","))
}
