package c01

import (
	"fmt"
	"strings"

	"verif/mc/engine"
	"verif/mc/ref/js"
)

// Family E - conditionally evaluated sub-expressions of statements. Every
// expression in a statement head is a logging probe
//
//	t(n, v)  logs ("t", n) and returns v
//
// so that the programs observe WHICH head expressions are evaluated, how often
// and in what order: switch case tests (duplicates, a matching case after
// default, no test after the first match, discriminant before tests and once),
// for init/test/update around break and continue (plain, labelled, through
// try/finally, out of with and switch), the do-while test after continue, the
// for-in / with object expression once per entry, short-circuit operators and
// ToBoolean in if / while / do-while / for heads. Everything runs inside a
// function whose result is logged, so completion values play no role here.
// Three sub-families, each a full product: "switch", "loop", "cond" (+ "misc").

func tp(n interface{}, v js.Expr) js.Expr {
	var tag js.Expr
	switch x := n.(type) {
	case int:
		tag = js.N(float64(x))
	case string:
		tag = str(x)
	}
	return js.CallE(js.Id("t"), tag, v)
}

func preludeE() []js.Stmt {
	return []js.Stmt{&js.FuncDecl{Fn: js.Fn("t", []string{"n", "v"}, js.Log(str("t"), js.Id("n")), ret(js.Id("v")))}}
}

// wrapE: log("ret", (function () { var i = 0, o = 0; BODY; log("after"); return 9; })());
func wrapE(pre []js.Stmt, body ...js.Stmt) *js.Program {
	fb := []js.Stmt{&js.VarDecl{Decls: []js.VarD{{Name: "i", Init: js.N(0)}, {Name: "o", Init: js.N(0)},
		{Name: "r", Init: &js.ObjectLit{}}}}}
	fb = append(fb, body...)
	fb = append(fb, js.Log(str("after"), js.Id("i"), js.Id("o")), ret(js.N(9)))
	p := &js.Program{Body: preludeE()}
	p.Body = append(p.Body, pre...)
	p.Body = append(p.Body, js.Log(str("ret"), js.CallE(js.Fn("", nil, fb...))))
	return p
}

// ---- switch

// programSwitch: vals are the case values (in clause order, default excluded),
// disc the discriminant value, defPos the position of the default clause (-1
// none), breaks a bit set (bit k: clause k ends in break), discKind 0 = probe,
// 1 = variable x that the first case test increments before yielding its value.
func programSwitch(vals []int, disc, defPos, breaks, discKind int) *js.Program {
	sw := &js.Switch{}
	var pre []js.Stmt
	if discKind == 0 {
		sw.Disc = tp("d", js.N(float64(disc)))
	} else {
		pre = append(pre, js.Var("x", js.N(float64(disc))))
		sw.Disc = js.Id("x")
	}
	n := len(vals)
	if defPos >= 0 {
		n++
	}
	vi := 0
	for pos := 0; pos < n; pos++ {
		var cl js.Clause
		if pos == defPos {
			cl.Default = true
		} else {
			test := tp(vi+1, js.N(float64(vals[vi])))
			if discKind == 1 && vi == 0 {
				test = &js.Seq{List: []js.Expr{&js.Assign{Op: "=", L: js.Id("x"), R: bin("+", js.Id("x"), js.N(1))}, test}}
			}
			cl.Test = test
			vi++
		}
		cl.Body = []js.Stmt{js.Log(str("b"), js.N(float64(pos)))}
		if breaks&(1<<uint(pos)) != 0 {
			cl.Body = append(cl.Body, &js.Break{})
		}
		sw.Clauses = append(sw.Clauses, cl)
	}
	return wrapE(pre, sw)
}

func runESwitch(r *engine.Run) {
	nvals, ndisc := 2, 3
	if r.Thorough() {
		nvals, ndisc = 3, 4
	}
	// the quick alphabet {1,2} x discriminants {1,2,3} is a subset of the thorough one
	for v0 := 1; v0 <= nvals; v0++ {
		for v1 := 1; v1 <= nvals; v1++ {
			for v2 := 1; v2 <= nvals; v2++ {
				for disc := 1; disc <= ndisc; disc++ {
					for defPos := -1; defPos <= 3; defPos++ {
						n := 3
						if defPos >= 0 {
							n = 4
						}
						for breaks := 0; breaks < 1<<uint(n); breaks++ {
							for dk := 0; dk < 2; dk++ {
								key := fmt.Sprintf("switch/v%d%d%d/d%d/def%d/b%x/k%d", v0, v1, v2, disc, defPos, breaks, dk)
								if !r.MineKey(key) {
									continue
								}
								r.Tree(1, 1)
								checkProgram(r, key, programSwitch([]int{v0, v1, v2}, disc, defPos, breaks, dk))
							}
						}
					}
				}
			}
		}
	}
}

// ---- loops

var loopKindsE = []string{"for", "while", "do-while", "for-in-var", "for-in-member"}

var bodyStmtsE = []string{"empty", "break", "continue", "if-break", "if-continue", "try-break-finally", "try-continue-finally",
	"try-throw-catch-finally", "try-return-finally", "with", "with-continue", "switch-continue", "switch-break",
	"break-outer", "continue-outer", "try-continue-outer-finally"}

const nPlainBodyE = 13 // entries usable without an enclosing labelled loop

func bodyStmtE(k int) js.Stmt {
	i := js.Id("i")
	fin := js.Blk(js.Log(str("f")))
	wobj := tp("w", obj("v", js.N(7)))
	switch k {
	case 0:
		return &js.Empty{}
	case 1:
		return &js.Break{}
	case 2:
		return &js.Continue{}
	case 3:
		return &js.If{Test: tp("i", bin("==", i, js.N(1))), Then: &js.Break{}}
	case 4:
		return &js.If{Test: tp("i", bin("==", i, js.N(1))), Then: &js.Continue{}}
	case 5:
		return &js.Try{Body: js.Blk(&js.Break{}), Finally: fin}
	case 6:
		return &js.Try{Body: js.Blk(&js.Continue{}), Finally: fin}
	case 7:
		return &js.Try{Body: js.Blk(&js.Throw{X: tp("th", js.N(1))}), Param: "e", Catch: js.Blk(js.Log(str("c"), js.Id("e"))), Finally: fin}
	case 8:
		return &js.Try{Body: js.Blk(ret(tp("r", js.N(5)))), Finally: fin}
	case 9:
		return &js.With{Obj: wobj, Body: js.Blk(js.Log(str("v"), js.Id("v")))}
	case 10:
		return &js.With{Obj: wobj, Body: &js.Continue{}}
	case 11:
		return &js.Switch{Disc: tp("s", js.N(1)), Clauses: []js.Clause{{Test: tp("k", js.N(1)), Body: []js.Stmt{&js.Continue{}}}}}
	case 12:
		return &js.Switch{Disc: tp("s", js.N(1)), Clauses: []js.Clause{{Test: tp("k", js.N(1)), Body: []js.Stmt{&js.Break{}}},
			{Test: tp("k2", js.N(1)), Body: []js.Stmt{js.Log(str("never"))}}}}
	case 13:
		return &js.Break{Label: "outer"}
	case 14:
		return &js.Continue{Label: "outer"}
	case 15:
		return &js.Try{Body: js.Blk(&js.Continue{Label: "outer"}), Finally: fin}
	}
	panic("bad body statement")
}

func programLoop(kind int, nested bool, x1, x2 int) *js.Program {
	i := js.Id("i")
	body := js.Blk(js.Log(str("b"), js.N(1), i), bodyStmtE(x1), bodyStmtE(x2), js.Log(str("b"), js.N(2), i))
	var loop js.Stmt
	switch kind {
	case 0:
		init := &js.Seq{List: []js.Expr{tp("in", js.N(0)), &js.Assign{Op: "=", L: i, R: js.N(0)}}}
		loop = &js.For{Init: init, Test: tp("c", lt(i, 2)), Update: tp("u", postInc("i")), Body: body}
	case 1:
		loop = &js.While{Test: tp("c", lt(postInc("i"), 2)), Body: body}
	case 2:
		loop = &js.DoWhile{Body: body, Test: tp("c", lt(postInc("i"), 1))}
	case 3:
		loop = &js.ForIn{Var: "k", Obj: tp("obj", obj("a", js.N(1))), Body: body}
	case 4:
		loop = &js.ForIn{LHS: js.Idx(js.Id("r"), tp("l", str("p"))), Obj: tp("obj", obj("a", js.N(1))), Body: body}
	}
	reset := assign(i, js.N(0))
	if !nested {
		return wrapE(nil, reset, loop)
	}
	o := js.Id("o")
	outer := &js.Labelled{Label: "outer", Body: &js.For{Init: &js.Assign{Op: "=", L: o, R: js.N(0)}, Test: tp("oc", lt(o, 2)),
		Update: tp("ou", postInc("o")), Body: js.Blk(js.Log(str("ob"), o), reset, loop, js.Log(str("oe"), o))}}
	return wrapE(nil, outer)
}

func runELoop(r *engine.Run) {
	for kind := range loopKindsE {
		for nested := 0; nested < 2; nested++ {
			nb := nPlainBodyE
			if nested == 1 {
				nb = len(bodyStmtsE)
			}
			for x1 := 0; x1 < nb; x1++ {
				for x2 := 0; x2 < nb; x2++ {
					key := fmt.Sprintf("loop/%s/n%d/%s/%s", loopKindsE[kind], nested, bodyStmtsE[x1], bodyStmtsE[x2])
					if !r.MineKey(key) {
						continue
					}
					r.Tree(1, 1)
					checkProgram(r, key, programLoop(kind, nested == 1, x1, x2))
				}
			}
		}
	}
}

// ---- short-circuit operators and ToBoolean in statement heads

var truthE = []string{"0", "1", `""`, `"a"`, "null", "undefined", "NaN", "{}"}

func truthExpr(k int) js.Expr {
	switch k {
	case 0:
		return js.N(0)
	case 1:
		return js.N(1)
	case 2:
		return str("")
	case 3:
		return str("a")
	case 4:
		return &js.NullLit{}
	case 5:
		return js.Id("undefined")
	case 6:
		return js.Id("NaN")
	}
	return &js.ObjectLit{}
}

var headKindsE = []string{"and", "or", "cond", "not", "comma", "plain"}
var ctxKindsE = []string{"if-else", "while", "do-while", "for-test", "return"}

// headExpr builds head form h from operand choices a, b, c; ok=false when the
// combination repeats another one.
func headExpr(h, a, b, c int) (js.Expr, bool) {
	A, B, C := tp(1, truthExpr(a)), tp(2, truthExpr(b)), tp(3, truthExpr(c))
	switch h {
	case 0:
		return bin("&&", A, B), c == 0
	case 1:
		return bin("||", A, B), c == 0
	case 2:
		return &js.Cond{C: A, A: B, B: C}, b < 2 && c < 2
	case 3:
		return &js.Unary{Op: "!", X: A}, b == 0 && c == 0
	case 4:
		return &js.Seq{List: []js.Expr{A, B}}, b < 2 && c == 0
	}
	return A, b == 0 && c == 0
}

func programCond(ctx int, head js.Expr) *js.Program {
	i := js.Id("i")
	yes, no := js.Log(str("yes")), js.Log(str("no"))
	switch ctx {
	case 0:
		return wrapE(nil, &js.If{Test: head, Then: yes, Else: no})
	case 1:
		return wrapE(nil, &js.While{Test: head, Body: js.Blk(yes, &js.Break{})})
	case 2:
		// runs again only while the head is truthy and i < 1
		return wrapE(nil, &js.DoWhile{Body: js.Blk(js.Log(str("b"), i)), Test: bin("&&", lt(postInc("i"), 1), head)})
	case 3:
		return wrapE(nil, &js.For{Test: head, Update: tp("u", postInc("i")), Body: js.Blk(yes, &js.If{Test: bin(">=", i, js.N(1)), Then: &js.Break{}})})
	}
	return wrapE(nil, js.Log(str("val"), js.CallE(js.Fn("", nil, ret(head)))))
}

func runECond(r *engine.Run) {
	n := len(truthE)
	for ctx := range ctxKindsE {
		for h := range headKindsE {
			for a := 0; a < n; a++ {
				for b := 0; b < n; b++ {
					for c := 0; c < n; c++ {
						head, ok := headExpr(h, a, b, c)
						if !ok {
							continue
						}
						key := fmt.Sprintf("cond/%s/%s/%d%d%d", ctxKindsE[ctx], headKindsE[h], a, b, c)
						if !r.MineKey(key) {
							continue
						}
						r.Tree(1, 1)
						checkProgram(r, key, programCond(ctx, head))
					}
				}
			}
		}
	}
}

// ---- miscellaneous fixed programs in the same spirit

func miscE() []witnessCase {
	i, k := js.Id("i"), js.Id("k")
	forin := func(o js.Expr) *js.Program {
		return wrapE(nil, &js.ForIn{Var: "k", Obj: tp("obj", o), Body: js.Blk(js.Log(str("b"), k))})
	}
	return []witnessCase{
		{"misc/forin-null", func() *js.Program { return forin(&js.NullLit{}) }},
		{"misc/forin-undefined", func() *js.Program { return forin(js.Id("undefined")) }},
		{"misc/forin-string", func() *js.Program { return forin(str("x")) }},
		{"misc/forin-number", func() *js.Program { return forin(js.N(5)) }},
		{"misc/var-list-order", func() *js.Program {
			return wrapE(nil, &js.VarDecl{Decls: []js.VarD{{Name: "a", Init: tp(1, js.N(1))}, {Name: "b", Init: tp(2, js.Id("a"))}}},
				js.Log(str("ab"), js.Id("a"), js.Id("b")))
		}},
		{"misc/for-var-list", func() *js.Program {
			init := &js.VarDecl{Decls: []js.VarD{{Name: "a", Init: tp(1, js.N(0))}, {Name: "b", Init: tp(2, js.N(2))}}}
			return wrapE(nil, &js.For{Init: init, Test: tp("c", bin("<", js.Id("a"), js.Id("b"))), Update: tp("u", postInc("a")),
				Body: js.Blk(js.Log(str("b"), js.Id("a")))})
		}},
		{"misc/two-labels-continue", func() *js.Program {
			loop := &js.For{Init: &js.Assign{Op: "=", L: i, R: js.N(0)}, Test: tp("c", lt(i, 2)), Update: tp("u", postInc("i")),
				Body: js.Blk(js.Log(str("b"), i), &js.Continue{Label: "m"}, js.Log(str("never")))}
			return wrapE(nil, &js.Labelled{Label: "l", Body: &js.Labelled{Label: "m", Body: loop}})
		}},
		{"misc/two-labels-break-outer-label", func() *js.Program {
			loop := &js.While{Test: tp("c", lt(postInc("i"), 2)), Body: js.Blk(js.Log(str("b"), i), &js.Break{Label: "l"}, js.Log(str("never")))}
			return wrapE(nil, &js.Labelled{Label: "l", Body: &js.Labelled{Label: "m", Body: loop}})
		}},
		{"misc/with-in-loop-object-per-iteration", func() *js.Program {
			w := &js.With{Obj: tp("w", obj("v", i)), Body: js.Blk(js.Log(str("v"), js.Id("v")))}
			return wrapE(nil, &js.For{Init: &js.Assign{Op: "=", L: i, R: js.N(0)}, Test: lt(i, 2), Update: postInc("i"), Body: w})
		}},
		{"misc/throw-expression-then-finally", func() *js.Program {
			t := &js.Try{Body: js.Blk(&js.Try{Body: js.Blk(&js.Throw{X: tp("th", js.N(1))}), Finally: js.Blk(js.Log(str("f")))}),
				Param: "e", Catch: js.Blk(js.Log(str("c"), js.Id("e")))}
			return wrapE(nil, t)
		}},
		{"misc/return-overridden-by-finally", func() *js.Program {
			f := js.Fn("", nil, &js.Try{Body: js.Blk(ret(tp("r1", js.N(1)))), Finally: js.Blk(ret(tp("r2", js.N(2))))})
			return wrapE(nil, js.Log(str("val"), js.CallE(f)))
		}},
		{"misc/switch-no-clause-evaluates-discriminant", func() *js.Program {
			return wrapE(nil, &js.Switch{Disc: tp("d", js.N(1))})
		}},
		{"misc/switch-default-only", func() *js.Program {
			return wrapE(nil, &js.Switch{Disc: tp("d", js.N(1)), Clauses: []js.Clause{{Default: true, Body: []js.Stmt{js.Log(str("b"))}}}})
		}},
		{"misc/switch-strict-equality", func() *js.Program {
			return wrapE(nil, &js.Switch{Disc: tp("d", str("1")), Clauses: []js.Clause{
				{Test: tp(1, js.N(1)), Body: []js.Stmt{js.Log(str("number"))}},
				{Test: tp(2, str("1")), Body: []js.Stmt{js.Log(str("string")), &js.Break{}}},
				{Test: tp(3, str("1")), Body: []js.Stmt{js.Log(str("again"))}}}})
		}},
	}
}

func runE(r *engine.Run) {
	selfCheck(r)
	runESwitch(r)
	runELoop(r)
	runECond(r)
	for _, w := range miscE() {
		if !r.MineKey(w.key) {
			continue
		}
		r.Tree(1, 1)
		checkProgram(r, w.key, w.prog())
	}
	r.Bound("switch", "3 case clauses with values from {1,2} (thorough {1,2,3}) x discriminant {1..3} (thorough {1..4}) x default position {none,0..3} x every break pattern x discriminant kind {probe, variable mutated by the first test}")
	r.Bound("loop", strings.Join(loopKindsE, ",")+" x {plain, inside labelled outer for} x two body statements from: "+strings.Join(bodyStmtsE, ","))
	r.Bound("cond", strings.Join(ctxKindsE, ",")+" x "+strings.Join(headKindsE, ",")+" x operands from "+strings.Join(truthE, ","))
}
