// Package ox holds small helpers for driving the real otto implementation from
// the checks: panic-safe execution, canonical value strings, JS source rendering.
package ox

import (
	"fmt"
	"math"
	"reflect"
	"runtime/debug"
	"strconv"
	"strings"
	"unicode/utf16"

	"github.com/robertkrimen/otto"
)

// Result is the outcome of a guarded API call.
type Result struct {
	Value    otto.Value
	Err      error
	Panicked bool
	PanicVal interface{}
	Stack    string
}

// Guard runs f and converts an escaping Go panic into a Result.
func Guard(f func() (otto.Value, error)) (res Result) {
	defer func() {
		if p := recover(); p != nil {
			res.Panicked = true
			res.PanicVal = p
			res.Stack = string(debug.Stack())
		}
	}()
	v, err := f()
	res.Value, res.Err = v, err
	return
}

// Run runs source on vm, guarded.
func Run(vm *otto.Otto, src interface{}) Result {
	return Guard(func() (otto.Value, error) { return vm.Run(src) })
}

// ErrClass extracts the JS error class name from an error returned by otto
// ("TypeError: x" -> "TypeError"). Thrown non-Error values give "Thrown".
func ErrClass(err error) string {
	if err == nil {
		return ""
	}
	if oe, ok := err.(*otto.Error); ok {
		s := oe.Error()
		if i := strings.Index(s, ":"); i > 0 {
			name := s[:i]
			if isIdent(name) {
				return name
			}
		}
		if isIdent(s) {
			return s
		}
		return "Thrown"
	}
	s := err.Error()
	if strings.HasPrefix(s, "(anonymous): Line") || strings.Contains(s, "Line ") && strings.Contains(s, ":") && !strings.Contains(s, "Error") {
		return "SyntaxError"
	}
	return "GoError"
}

func isIdent(s string) bool {
	if s == "" {
		return false
	}
	for _, r := range s {
		if !(r >= 'A' && r <= 'Z' || r >= 'a' && r <= 'z') {
			return false
		}
	}
	return true
}

// Num renders a float64 canonically: the bit pattern class (all NaNs equal,
// signed zeros distinct) in a readable form.
func Num(f float64) string {
	switch {
	case math.IsNaN(f):
		return "NaN"
	case f == 0 && math.Signbit(f):
		return "-0"
	case f == 0:
		return "0"
	case math.IsInf(f, 1):
		return "Infinity"
	case math.IsInf(f, -1):
		return "-Infinity"
	}
	return strconv.FormatFloat(f, 'g', 17, 64)
}

// Str16 renders a UTF-16 string canonically ("s:" + printable ASCII kept,
// everything else as \uXXXX).
func Str16(u []uint16) string {
	var sb strings.Builder
	sb.WriteString("s:")
	for _, c := range u {
		if c >= 0x20 && c < 0x7f && c != '\\' {
			sb.WriteByte(byte(c))
		} else {
			fmt.Fprintf(&sb, "\\u%04X", c)
		}
	}
	return sb.String()
}

// Units converts a Go (UTF-8) string to UTF-16 code units.
func Units(s string) []uint16 { return utf16.Encode([]rune(s)) }

// Canon renders a primitive otto value canonically; objects render as
// "o:<Class>". Numbers are normalised through ToFloat.
func Canon(v otto.Value) string {
	switch {
	case v.IsUndefined():
		return "u"
	case v.IsNull():
		return "n"
	case v.IsBoolean():
		b, _ := v.ToBoolean()
		if b {
			return "b:1"
		}
		return "b:0"
	case v.IsNumber():
		f, _ := v.ToFloat()
		return "d:" + Num(f)
	case v.IsString():
		return Str16(StringUnits(v))
	case v.IsObject():
		return "o:" + v.Class()
	}
	return "?"
}

// StringUnits returns the UTF-16 units of a string Value. otto holds strings
// either as Go strings or as []uint16; Export decodes the latter lossily, so
// the internal representation is read by reflection where present.
func StringUnits(v otto.Value) []uint16 {
	rv := reflect.ValueOf(v).FieldByName("value")
	if rv.IsValid() && rv.Kind() == reflect.Interface && !rv.IsNil() {
		e := rv.Elem()
		if e.Kind() == reflect.Slice && e.Type().Elem().Kind() == reflect.Uint16 {
			out := make([]uint16, e.Len())
			for i := range out {
				out[i] = uint16(e.Index(i).Uint())
			}
			return out
		}
		if e.Kind() == reflect.String {
			return Units(e.String())
		}
	}
	s, _ := v.ToString()
	return Units(s)
}

// JSString renders UTF-16 units as a JavaScript expression that evaluates to
// exactly that string. Well-formed printable ASCII becomes a literal; anything
// else goes through String.fromCharCode so that lone surrogates survive.
func JSString(u []uint16) string {
	plain := true
	for _, c := range u {
		if c < 0x20 || c >= 0x7f || c == '"' || c == '\\' {
			plain = false
			break
		}
	}
	if plain {
		b := make([]byte, len(u))
		for i, c := range u {
			b[i] = byte(c)
		}
		return `"` + string(b) + `"`
	}
	parts := make([]string, len(u))
	for i, c := range u {
		parts[i] = strconv.Itoa(int(c))
	}
	return "String.fromCharCode(" + strings.Join(parts, ",") + ")"
}

// JSLit renders a Go string as a JS double-quoted literal using only ASCII
// (\uXXXX escapes for everything else; surrogate pairs for astral).
func JSLit(s string) string {
	var sb strings.Builder
	sb.WriteByte('"')
	for _, c := range Units(s) {
		switch {
		case c == '"' || c == '\\':
			sb.WriteByte('\\')
			sb.WriteByte(byte(c))
		case c >= 0x20 && c < 0x7f:
			sb.WriteByte(byte(c))
		default:
			fmt.Fprintf(&sb, "\\u%04X", c)
		}
	}
	sb.WriteByte('"')
	return sb.String()
}

// JSNum renders a float64 as a JS expression with exactly that value.
func JSNum(f float64) string {
	switch {
	case math.IsNaN(f):
		return "NaN"
	case math.IsInf(f, 1):
		return "Infinity"
	case math.IsInf(f, -1):
		return "-Infinity"
	case f == 0 && math.Signbit(f):
		return "-0"
	}
	return strconv.FormatFloat(f, 'g', -1, 64)
}
