// Command mc-c09 is the development binary of check C09 (engine + this check only).
package main

import (
	"verif/mc/engine"

	_ "verif/mc/checks/c09"
)

func main() { engine.Main() }
