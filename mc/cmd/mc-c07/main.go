package main

import (
	"verif/mc/engine"

	_ "verif/mc/checks/c07"
)

func main() { engine.Main() }
