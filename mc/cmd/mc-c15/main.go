package main

import (
	"verif/mc/engine"

	_ "verif/mc/checks/c15"
)

func main() { engine.Main() }
