package main

import (
	"verif/mc/engine"

	_ "verif/mc/checks/c20"
)

func main() { engine.Main() }
