package main

import (
	"verif/mc/engine"

	_ "verif/mc/checks/c04"
)

func main() { engine.Main() }
