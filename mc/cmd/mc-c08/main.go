package main

import (
	"verif/mc/engine"

	_ "verif/mc/checks/c08"
)

func main() { engine.Main() }
