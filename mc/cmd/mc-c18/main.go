package main

import (
	"verif/mc/engine"

	_ "verif/mc/checks/c18"
)

func main() { engine.Main() }
