// throw-away development tool (removed before delivery)
package main

import (
	"bufio"
	"encoding/json"
	"fmt"
	"os"

	"github.com/robertkrimen/otto/parser"
	"verif/mc/ref/syntax"
)

func main() {
	mode := "both"
	if len(os.Args) > 1 {
		mode = os.Args[1]
	}
	sc := bufio.NewScanner(os.Stdin)
	sc.Buffer(make([]byte, 1<<20), 1<<20)
	w := bufio.NewWriter(os.Stdout)
	defer w.Flush()
	for sc.Scan() {
		var s string
		if err := json.Unmarshal(sc.Bytes(), &s); err != nil {
			fmt.Fprintln(w, "bad", err)
			continue
		}
		res := syntax.Parse(s, syntax.Options{})
		switch mode {
		case "acc":
			if res.Accepted() {
				fmt.Fprintln(w, "1")
			} else {
				fmt.Fprintln(w, "0")
			}
		default:
			o := "?"
			func() {
				defer func() {
					if p := recover(); p != nil {
						o = fmt.Sprint("PANIC ", p)
					}
				}()
				_, err := parser.ParseFile(nil, "", s, 0)
				if err != nil {
					o = "ERR " + err.Error()
				} else {
					o = "OK"
				}
			}()
			if res.Accepted() {
				fmt.Fprintf(w, "%q\n   ref: %s\n  otto: %s\n", s, res.Tree.Dump(), o)
			} else {
				fmt.Fprintf(w, "%q\n   ref: REJECT %v\n  otto: %s\n", s, res.Err, o)
			}
		}
	}
}
