package main

import (
	"verif/mc/engine"

	_ "verif/mc/checks/c14"
)

func main() { engine.Main() }
