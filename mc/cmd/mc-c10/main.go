package main

import (
	"verif/mc/engine"

	_ "verif/mc/checks/c10"
)

func main() { engine.Main() }
