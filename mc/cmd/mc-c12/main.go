package main

import (
	"verif/mc/engine"

	_ "verif/mc/checks/c12"
)

func main() { engine.Main() }
