package main

import (
	"verif/mc/engine"

	_ "verif/mc/checks/c11"
)

func main() { engine.Main() }
