package main

import (
	"verif/mc/engine"

	_ "verif/mc/checks/c02"
)

func main() { engine.Main() }
