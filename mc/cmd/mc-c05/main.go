package main

import (
	"os"

	"verif/mc/checks/c05"
	"verif/mc/engine"
)

func main() {
	// development-time aid: `mc-c05 dump-node > cases.js` writes the in-language cases with the
	// model's expectations as a script for a second JavaScript engine (never used by a registered command)
	if len(os.Args) > 1 && os.Args[1] == "dump-node" {
		c05.DumpNode(os.Stdout)
		return
	}
	engine.Main()
}
