package main

import _ "verif/mc/checks/c04"
