package main

import _ "verif/mc/checks/c03"
