// Command mc is the otto model-checking harness: `mc check <ID> --tier quick|thorough`.
// Each check registers itself from a reg_<id>.go file in this directory.
package main

import "verif/mc/engine"

func main() { engine.Main() }
