// Command mc is the otto model-checking harness: `mc check <ID> --tier quick|thorough`.
package main

import (
	"verif/mc/engine"

	_ "verif/mc/checks/c14"
)

func main() { engine.Main() }
