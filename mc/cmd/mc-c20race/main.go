// Command mc-c20race is the free-running half of check C20: the harness bodies
// of verif/mc/checks/c20 run on real goroutines without the cooperative
// scheduler. Build with `go build -race -tags verif` and run with
// GORACE="halt_on_error=1 exitcode=66": a data race makes the detector print
// its report and exit with status 66; a log that differs from the solo log
// gives exit status 3.
package main

import "verif/mc/checks/c20"

func main() { c20.RaceMain() }
