package main

import (
	"verif/mc/engine"

	_ "verif/mc/checks/c13"
)

func main() { engine.Main() }
