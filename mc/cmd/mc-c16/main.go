package main

import (
	"verif/mc/engine"

	_ "verif/mc/checks/c16"
)

func main() { engine.Main() }
