package main

import (
	"verif/mc/engine"

	_ "verif/mc/checks/c06"
)

func main() { engine.Main() }
