package main

import (
	"verif/mc/engine"

	_ "verif/mc/checks/c03"
)

func main() { engine.Main() }
