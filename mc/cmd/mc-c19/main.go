package main

import (
	"verif/mc/engine"

	_ "verif/mc/checks/c19"
)

func main() { engine.Main() }
