// Command mc-c17 is the development binary of check C17 (engine + this check only).
package main

import (
	"verif/mc/engine"

	_ "verif/mc/checks/c17"
)

func main() { engine.Main() }
