package main

import (
	"verif/mc/engine"

	_ "verif/mc/checks/c01"
)

func main() { engine.Main() }
