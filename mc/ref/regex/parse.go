// Package regex is the reference model for property C10: the ES5.1 15.10.1
// pattern grammar (validity + classifier), the 15.10.2 backtracking matcher in
// continuation style, 15.10.6.2/3 exec/test with the lastIndex protocol and the
// string side 15.5.4.10/11/12/14 — everything in UTF-16 code units.
package regex

import (
	"errors"
	"fmt"
)

// Kind of an AST node.
type Kind int

const (
	KEmpty    Kind = iota // matches the empty string
	KChar                 // one pattern character (Ch)
	KDot                  // .
	KClass                // character class / class escape (Set, Invert)
	KBol                  // ^
	KEol                  // $
	KWordB                // \b
	KNotWordB             // \B
	KSeq                  // Alternative: Kids in order
	KAlt                  // Disjunction: Kids are the alternatives
	KGroup                // ( Disjunction ), capture index Cap (1-based)
	KNCGroup              // (?: Disjunction )
	KLook                 // (?= ) / (?! ) (Neg)
	KBackRef              // \n (Cap)
	KQuant                // Kids[0] quantified Min..Max (Max -1 = infinity), Greedy
)

// Node is a node of the pattern AST.
type Node struct {
	Kind   Kind
	Ch     uint16
	Set    *CharSet
	Kids   []*Node
	Cap    int
	Neg    bool
	Min    int
	Max    int
	Greedy bool
	// ParenIndex / ParenCount as in 15.10.2.5 (captures to the left of this
	// quantified atom / inside it).
	ParenIndex, ParenCount int
}

// CharSet is a set of UTF-16 code units given as inclusive ranges plus an
// inversion flag (the inversion is applied after case canonicalisation, as
// 15.10.2.8 CharacterSetMatcher prescribes).
type CharSet struct {
	Ranges [][2]uint16
	Invert bool
}

func (s *CharSet) add(lo, hi uint16) { s.Ranges = append(s.Ranges, [2]uint16{lo, hi}) }
func (s *CharSet) addSet(o *CharSet) {
	// o is never inverted when merged (class escapes \D \S \W are expanded)
	s.Ranges = append(s.Ranges, o.Ranges...)
}

// Has reports plain (case-sensitive) membership ignoring Invert.
func (s *CharSet) Has(c uint16) bool {
	for _, r := range s.Ranges {
		if r[0] <= c && c <= r[1] {
			return true
		}
	}
	return false
}

// Class is the classifier verdict for a pattern.
type Class int

const (
	// Portable: valid by the strict ES5.1 15.10.1 grammar, no look-ahead, no
	// back-reference. Must be accepted and must match exactly as the model.
	Portable Class = iota
	// Unsupported: valid (strictly or by the Annex B web grammar) but uses
	// look-ahead or a back-reference. Must be rejected.
	Unsupported
	// Lenient: malformed by the strict ES5.1 grammar but given a meaning by the
	// web-compatibility grammar every browser implements (ES2015 Annex B.1.4:
	// literal ] { }, identity escapes of identifier characters, legacy octal
	// escapes, \c without a control letter). The property statement says
	// "malformed patterns are rejected, never mis-translated": rejection is
	// always acceptable; acceptance is acceptable only with exactly the Annex B
	// meaning.
	Lenient
	// Malformed: rejected by both grammars. Must be rejected.
	Malformed
)

func (c Class) String() string {
	return [...]string{"portable", "unsupported", "lenient", "malformed"}[c]
}

// Pattern is a parsed pattern.
type Pattern struct {
	Source   []uint16
	Root     *Node
	NCap     int // number of capturing parentheses
	Class    Class
	Err      error // why it is not Portable (nil for Portable)
	HasLook  bool
	HasBack  bool
	UsesSExt bool // uses \s \S (outside the portable subset: README documents the RE2 deviation)
}

// Classify parses src by the strict grammar, then by the Annex B grammar.
func Classify(src []uint16) *Pattern {
	p, err := parse(src, false)
	if err == nil {
		if p.HasLook || p.HasBack {
			p.Class = Unsupported
			p.Err = errors.New("look-ahead or back-reference")
		}
		return p
	}
	q, err2 := parse(src, true)
	if err2 != nil {
		return &Pattern{Source: src, Class: Malformed, Err: err}
	}
	q.Err = err
	if q.HasLook || q.HasBack {
		q.Class = Unsupported
	} else {
		q.Class = Lenient
	}
	return q
}

// ClassifyString is Classify for an ASCII/BMP Go string.
func ClassifyString(s string) *Pattern { return Classify(Units(s)) }

type parser struct {
	src    []uint16
	pos    int
	annexB bool
	ncap   int // capturing groups seen so far (left to right)
	total  int // total capturing groups in the pattern (pre-scan)
	p      *Pattern
	// back-references seen (strict mode checks them against total at the end)
	maxBack int
	// quantAssert lets ^ $ \b \B take a quantifier (NOT part of either grammar;
	// used only to characterise the input class of a known finding).
	quantAssert bool
}

type syntaxError struct{ msg string }

func (e *syntaxError) Error() string { return "SyntaxError: " + e.msg }

func (p *parser) fail(format string, a ...interface{}) {
	panic(&syntaxError{fmt.Sprintf(format, a...)})
}

// ParseQuantifiedAssertions parses src by the strict grammar extended with
// "Assertion Quantifier". It exists to characterise one known finding (patterns
// that are malformed only because an assertion is quantified); it is not used
// by the oracle.
func ParseQuantifiedAssertions(src []uint16) (*Pattern, error) {
	p, err := parseOpt(src, false, true)
	if err != nil {
		return parseOpt(src, true, true)
	}
	return p, nil
}

func parse(src []uint16, annexB bool) (pat *Pattern, err error) { return parseOpt(src, annexB, false) }

func parseOpt(src []uint16, annexB, quantAssert bool) (pat *Pattern, err error) {
	ps := &parser{src: src, annexB: annexB, quantAssert: quantAssert, p: &Pattern{Source: src}}
	ps.total = countGroups(src)
	defer func() {
		if r := recover(); r != nil {
			if se, ok := r.(*syntaxError); ok {
				pat, err = nil, se
				return
			}
			panic(r)
		}
	}()
	root := ps.disjunction()
	if ps.pos < len(src) {
		// only ')' can stop a top-level disjunction
		ps.fail("unmatched ) at %d", ps.pos)
	}
	if ps.maxBack > ps.total {
		ps.fail("back-reference \\%d beyond %d groups", ps.maxBack, ps.total)
	}
	ps.p.Root = root
	ps.p.NCap = ps.ncap
	return ps.p, nil
}

// countGroups counts capturing left parentheses (NcapturingParens): '(' not
// followed by '?', outside classes, not escaped.
func countGroups(src []uint16) int {
	n := 0
	inClass := false
	for i := 0; i < len(src); i++ {
		switch c := src[i]; {
		case c == '\\':
			i++
		case inClass:
			if c == ']' {
				inClass = false
			}
		case c == '[':
			inClass = true
		case c == '(':
			if !(i+1 < len(src) && src[i+1] == '?') {
				n++
			}
		}
	}
	return n
}

func (p *parser) eof() bool    { return p.pos >= len(p.src) }
func (p *parser) peek() uint16 { return p.src[p.pos] }
func (p *parser) peekAt(k int) (uint16, bool) {
	if p.pos+k < len(p.src) {
		return p.src[p.pos+k], true
	}
	return 0, false
}
func (p *parser) eat(c uint16) bool {
	if !p.eof() && p.src[p.pos] == c {
		p.pos++
		return true
	}
	return false
}

// Disjunction :: Alternative | Alternative '|' Disjunction
func (p *parser) disjunction() *Node {
	alts := []*Node{p.alternative()}
	for p.eat('|') {
		alts = append(alts, p.alternative())
	}
	if len(alts) == 1 {
		return alts[0]
	}
	return &Node{Kind: KAlt, Kids: alts}
}

// Alternative :: [empty] | Alternative Term
func (p *parser) alternative() *Node {
	var terms []*Node
	for !p.eof() && p.peek() != '|' && p.peek() != ')' {
		terms = append(terms, p.term())
	}
	switch len(terms) {
	case 0:
		return &Node{Kind: KEmpty}
	case 1:
		return terms[0]
	}
	return &Node{Kind: KSeq, Kids: terms}
}

// Term :: Assertion | Atom | Atom Quantifier
func (p *parser) term() *Node {
	c := p.peek()
	switch c {
	case '^':
		p.pos++
		return p.noQuantifier(&Node{Kind: KBol})
	case '$':
		p.pos++
		return p.noQuantifier(&Node{Kind: KEol})
	case '\\':
		if n, ok := p.peekAt(1); ok && (n == 'b' || n == 'B') {
			p.pos += 2
			k := KWordB
			if n == 'B' {
				k = KNotWordB
			}
			return p.noQuantifier(&Node{Kind: k})
		}
	case '(':
		if a, ok := p.peekAt(1); ok && a == '?' {
			if b, ok := p.peekAt(2); ok && (b == '=' || b == '!') {
				p.pos += 3
				d := p.disjunction()
				if !p.eat(')') {
					p.fail("unterminated look-ahead")
				}
				p.p.HasLook = true
				n := &Node{Kind: KLook, Neg: b == '!', Kids: []*Node{d}}
				if p.annexB {
					// B.1.4: QuantifiableAssertion Quantifier
					before := p.ncap
					return p.quantifier(n, before, before)
				}
				return p.noQuantifier(n)
			}
		}
	}
	before := p.ncap
	atom := p.atom()
	return p.quantifier(atom, before, p.ncap)
}

// noQuantifier: an Assertion cannot take a Quantifier (Term :: Assertion); a
// quantifier character here would have to start an Atom, which it cannot.
func (p *parser) noQuantifier(n *Node) *Node {
	if p.quantAssert && n.Kind != KQuant {
		return p.quantifier(n, p.ncap, p.ncap)
	}
	if !p.eof() {
		switch p.peek() {
		case '*', '+', '?':
			p.fail("nothing to repeat at %d", p.pos)
		case '{':
			if !p.annexB || p.bracedQuantifierAhead() {
				p.fail("nothing to repeat at %d", p.pos)
			}
		}
	}
	return n
}

// bracedQuantifierAhead reports whether the input at pos is { DecimalDigits },
// { DecimalDigits , } or { DecimalDigits , DecimalDigits }.
func (p *parser) bracedQuantifierAhead() bool {
	_, _, n := p.scanBraces(p.pos)
	return n > 0
}

func (p *parser) scanBraces(at int) (min, max, length int) {
	i := at
	if i >= len(p.src) || p.src[i] != '{' {
		return 0, 0, 0
	}
	i++
	d := func() (int, bool) {
		v, any := 0, false
		for i < len(p.src) && p.src[i] >= '0' && p.src[i] <= '9' {
			if v < 1<<20 {
				v = v*10 + int(p.src[i]-'0')
			}
			i++
			any = true
		}
		return v, any
	}
	mn, ok := d()
	if !ok {
		return 0, 0, 0
	}
	mx := mn
	if i < len(p.src) && p.src[i] == ',' {
		i++
		v, ok := d()
		if ok {
			mx = v
		} else {
			mx = -1
		}
	}
	if i < len(p.src) && p.src[i] == '}' {
		return mn, mx, i + 1 - at
	}
	return 0, 0, 0
}

func (p *parser) quantifier(atom *Node, parenIndex, parenAfter int) *Node {
	if p.eof() {
		return atom
	}
	min, max := 0, 0
	switch p.peek() {
	case '*':
		min, max = 0, -1
		p.pos++
	case '+':
		min, max = 1, -1
		p.pos++
	case '?':
		min, max = 0, 1
		p.pos++
	case '{':
		mn, mx, n := p.scanBraces(p.pos)
		if n == 0 {
			if p.annexB {
				return atom // '{' will be taken as ExtendedPatternCharacter
			}
			p.fail("malformed quantifier at %d", p.pos)
		}
		if mx != -1 && mx < mn {
			p.fail("quantifier range out of order") // 15.10.2.5
		}
		min, max = mn, mx
		p.pos += n
	default:
		return atom
	}
	greedy := true
	if p.eat('?') {
		greedy = false
	}
	q := &Node{Kind: KQuant, Kids: []*Node{atom}, Min: min, Max: max, Greedy: greedy,
		ParenIndex: parenIndex, ParenCount: parenAfter - parenIndex}
	// a second quantifier cannot follow: it would have to start an Atom
	return p.noQuantifier(q)
}

// Atom :: PatternCharacter | . | \ AtomEscape | CharacterClass | ( Disjunction ) | (?: Disjunction )
func (p *parser) atom() *Node {
	c := p.peek()
	switch c {
	case '.':
		p.pos++
		return &Node{Kind: KDot}
	case '(':
		p.pos++
		if p.eat('?') {
			if !p.eat(':') {
				p.fail("invalid group")
			}
			d := p.disjunction()
			if !p.eat(')') {
				p.fail("unterminated group")
			}
			return &Node{Kind: KNCGroup, Kids: []*Node{d}}
		}
		p.ncap++
		idx := p.ncap
		d := p.disjunction()
		if !p.eat(')') {
			p.fail("unterminated group")
		}
		return &Node{Kind: KGroup, Cap: idx, Kids: []*Node{d}}
	case '[':
		p.pos++
		return p.class()
	case '\\':
		p.pos++
		return p.atomEscape()
	case '*', '+', '?':
		p.fail("nothing to repeat at %d", p.pos)
	case ')', '|':
		p.fail("unexpected %c", rune(c))
	case '{':
		if !p.annexB {
			p.fail("{ is not a PatternCharacter")
		}
		if p.bracedQuantifierAhead() {
			p.fail("nothing to repeat (InvalidBracedQuantifier)")
		}
	case '}', ']':
		if !p.annexB {
			p.fail("%c is not a PatternCharacter", rune(c))
		}
	}
	p.pos++
	return &Node{Kind: KChar, Ch: c}
}

func isDigit(c uint16) bool { return c >= '0' && c <= '9' }
func hexVal(c uint16) int {
	switch {
	case c >= '0' && c <= '9':
		return int(c - '0')
	case c >= 'a' && c <= 'f':
		return int(c-'a') + 10
	case c >= 'A' && c <= 'F':
		return int(c-'A') + 10
	}
	return -1
}
func isLetter(c uint16) bool { return c >= 'a' && c <= 'z' || c >= 'A' && c <= 'Z' }

// isIdentifierPart for the units that can appear in the explored alphabets:
// ASCII letters, digits, $ and _, plus (conservatively) every non-ASCII unit
// that is a Unicode letter in the Latin-1/Latin Extended range. Anything the
// model is unsure about is reported through the Lenient class by the caller.
func isIdentifierPart(c uint16) bool {
	switch {
	case isLetter(c), isDigit(c), c == '$', c == '_':
		return true
	case c == 0x200C || c == 0x200D:
		return true
	case c == 0xAA || c == 0xB5 || c == 0xBA:
		return true
	case c >= 0xC0 && c <= 0x24F && c != 0xD7 && c != 0xF7:
		return true
	}
	return false
}

// atomEscape: after the backslash, outside a class.
func (p *parser) atomEscape() *Node {
	if p.eof() {
		p.fail("\\ at end of pattern")
	}
	c := p.peek()
	// DecimalEscape
	if isDigit(c) {
		if c == '0' {
			if n, ok := p.peekAt(1); !ok || !isDigit(n) {
				p.pos++
				return &Node{Kind: KChar, Ch: 0}
			}
			if !p.annexB {
				p.fail("\\0 followed by a digit")
			}
			return &Node{Kind: KChar, Ch: p.legacyOctal()}
		}
		// DecimalIntegerLiteral
		start := p.pos
		v := 0
		for !p.eof() && isDigit(p.peek()) {
			if v < 1<<20 {
				v = v*10 + int(p.peek()-'0')
			}
			p.pos++
		}
		if !p.annexB {
			if v > p.maxBack {
				p.maxBack = v
			}
			p.p.HasBack = true
			return &Node{Kind: KBackRef, Cap: v}
		}
		if v <= p.total {
			p.p.HasBack = true
			return &Node{Kind: KBackRef, Cap: v}
		}
		p.pos = start
		if c >= '8' {
			p.pos++
			return &Node{Kind: KChar, Ch: c} // identity escape \8 \9
		}
		return &Node{Kind: KChar, Ch: p.legacyOctal()}
	}
	if s := p.classEscapeSet(c); s != nil {
		p.pos++
		return &Node{Kind: KClass, Set: s}
	}
	ch, ok := p.characterEscape(false)
	if !ok {
		// Annex B: \c not followed by a control letter matches the backslash
		return &Node{Kind: KChar, Ch: '\\'}
	}
	return &Node{Kind: KChar, Ch: ch}
}

// legacyOctal (B.1.4 LegacyOctalEscapeSequence): up to 3 octal digits, value <= 0377.
func (p *parser) legacyOctal() uint16 {
	v := 0
	n := 0
	for !p.eof() && p.peek() >= '0' && p.peek() <= '7' && n < 3 {
		d := int(p.peek() - '0')
		if v*8+d > 0377 {
			break
		}
		v = v*8 + d
		p.pos++
		n++
	}
	return uint16(v)
}

var (
	setDigit = &CharSet{Ranges: [][2]uint16{{'0', '9'}}}
	setWord  = &CharSet{Ranges: [][2]uint16{{'a', 'z'}, {'A', 'Z'}, {'0', '9'}, {'_', '_'}}}
	// WhiteSpace (7.2) and LineTerminator (7.3) units, Zs of Unicode 3.0+
	setSpace = &CharSet{Ranges: [][2]uint16{{9, 13}, {0x20, 0x20}, {0xA0, 0xA0}, {0x1680, 0x1680}, {0x180E, 0x180E},
		{0x2000, 0x200A}, {0x2028, 0x2029}, {0x202F, 0x202F}, {0x205F, 0x205F}, {0x3000, 0x3000}, {0xFEFF, 0xFEFF}}}
)

func complement(s *CharSet) *CharSet {
	out := &CharSet{}
	next := 0
	// ranges of the three base sets are sorted and disjoint except setWord
	rs := append([][2]uint16(nil), s.Ranges...)
	for i := 0; i < len(rs); i++ {
		for j := i + 1; j < len(rs); j++ {
			if rs[j][0] < rs[i][0] {
				rs[i], rs[j] = rs[j], rs[i]
			}
		}
	}
	for _, r := range rs {
		if int(r[0]) > next {
			out.add(uint16(next), r[0]-1)
		}
		next = int(r[1]) + 1
	}
	if next <= 0xFFFF {
		out.add(uint16(next), 0xFFFF)
	}
	return out
}

// classEscapeSet: CharacterClassEscape d D s S w W.
func (p *parser) classEscapeSet(c uint16) *CharSet {
	switch c {
	case 'd':
		return setDigit
	case 'D':
		return complement(setDigit)
	case 'w':
		return setWord
	case 'W':
		return complement(setWord)
	case 's':
		p.p.UsesSExt = true
		return setSpace
	case 'S':
		p.p.UsesSExt = true
		return complement(setSpace)
	}
	return nil
}

// characterEscape: ControlEscape | c ControlLetter | HexEscapeSequence |
// UnicodeEscapeSequence | IdentityEscape. pos is at the character after '\'.
// ok=false only for the Annex B "\c without control letter" case (pos then
// stays on the 'c').
func (p *parser) characterEscape(inClass bool) (uint16, bool) {
	c := p.peek()
	switch c {
	case 't':
		p.pos++
		return 9, true
	case 'n':
		p.pos++
		return 10, true
	case 'v':
		p.pos++
		return 11, true
	case 'f':
		p.pos++
		return 12, true
	case 'r':
		p.pos++
		return 13, true
	case 'c':
		if n, ok := p.peekAt(1); ok && isLetter(n) {
			p.pos += 2
			return n % 32, true
		}
		if p.annexB {
			if n, ok := p.peekAt(1); ok && inClass && (isDigit(n) || n == '_') {
				p.pos += 2
				return n % 32, true
			}
			return 0, false
		}
		p.fail("\\c without control letter")
	case 'x', 'u':
		n := 2
		if c == 'u' {
			n = 4
		}
		v := 0
		ok := true
		for k := 1; k <= n; k++ {
			h, in := p.peekAt(k)
			if !in || hexVal(h) < 0 {
				ok = false
				break
			}
			v = v*16 + hexVal(h)
		}
		if ok {
			p.pos += n + 1
			return uint16(v), true
		}
		if !p.annexB {
			p.fail("incomplete \\%c escape", rune(c))
		}
		p.pos++
		return c, true
	}
	// IdentityEscape :: SourceCharacter but not IdentifierPart | ZWJ | ZWNJ
	if !p.annexB && isIdentifierPart(c) && c != 0x200C && c != 0x200D {
		p.fail("invalid identity escape \\%c", rune(c))
	}
	p.pos++
	return c, true
}

// class parses after '['.
func (p *parser) class() *Node {
	set := &CharSet{}
	if p.eat('^') {
		set.Invert = true
	}
	for {
		if p.eof() {
			p.fail("unterminated character class")
		}
		if p.eat(']') {
			break
		}
		a, aset := p.classAtom()
		if !p.eof() && p.peek() == '-' {
			if n, ok := p.peekAt(1); ok && n != ']' {
				p.pos++ // '-'
				b, bset := p.classAtom()
				if aset != nil || bset != nil {
					if !p.annexB {
						p.fail("class escape as range endpoint") // 15.10.2.15/16
					}
					p.addAtom(set, a, aset)
					set.add('-', '-')
					p.addAtom(set, b, bset)
					continue
				}
				if a > b {
					p.fail("class range out of order") // 15.10.2.15
				}
				set.add(a, b)
				continue
			}
		}
		p.addAtom(set, a, aset)
	}
	return &Node{Kind: KClass, Set: set}
}

func (p *parser) addAtom(set *CharSet, c uint16, s *CharSet) {
	if s != nil {
		set.addSet(s)
	} else {
		set.add(c, c)
	}
}

// classAtom :: - | ClassAtomNoDash
func (p *parser) classAtom() (uint16, *CharSet) {
	c := p.peek()
	if c != '\\' {
		p.pos++
		return c, nil
	}
	p.pos++
	if p.eof() {
		p.fail("\\ at end of pattern")
	}
	c = p.peek()
	// ClassEscape :: DecimalEscape | b | CharacterEscape | CharacterClassEscape
	if isDigit(c) {
		if c == '0' {
			if n, ok := p.peekAt(1); !ok || !isDigit(n) {
				p.pos++
				return 0, nil
			}
		}
		if !p.annexB {
			p.fail("decimal escape in class") // 15.10.2.19: error unless \0
		}
		if c >= '8' {
			p.pos++
			return c, nil
		}
		return p.legacyOctal(), nil
	}
	if c == 'b' {
		p.pos++
		return 8, nil
	}
	if p.annexB && c == '-' {
		p.pos++
		return '-', nil
	}
	if s := p.classEscapeSet(c); s != nil {
		p.pos++
		return 0, s
	}
	if c == 'B' && !p.annexB {
		p.fail("\\B in class")
	}
	ch, ok := p.characterEscape(true)
	if !ok {
		return '\\', nil
	}
	return ch, nil
}

// Units converts a Go string to UTF-16 code units.
func Units(s string) []uint16 {
	var out []uint16
	for _, r := range s {
		if r >= 0x10000 {
			r -= 0x10000
			out = append(out, uint16(0xD800+(r>>10)), uint16(0xDC00+(r&0x3FF)))
		} else {
			out = append(out, uint16(r))
		}
	}
	return out
}

// String16 converts UTF-16 units to a Go string (lone surrogates become U+FFFD).
func String16(u []uint16) string {
	var rs []rune
	for i := 0; i < len(u); i++ {
		c := u[i]
		if c >= 0xD800 && c < 0xDC00 && i+1 < len(u) && u[i+1] >= 0xDC00 && u[i+1] < 0xE000 {
			rs = append(rs, (rune(c)-0xD800)<<10+(rune(u[i+1])-0xDC00)+0x10000)
			i++
		} else if c >= 0xD800 && c < 0xE000 {
			rs = append(rs, 0xFFFD)
		} else {
			rs = append(rs, rune(c))
		}
	}
	return string(rs)
}
