package regex

import (
	"errors"
	"fmt"
	"math"
	"strconv"
	"strings"
)

// Val is the small slice of JavaScript values the protocol model needs (the
// values lastIndex can hold in the explored histories and the values the
// operations return).
type Val struct {
	K byte // 'u' undefined, 'n' null, 'd' number, 's' string, 'b' boolean, 'o' object with a valueOf hook
	N float64
	S []uint16
	B bool
	// ValueOf models user code: an object whose valueOf is called by ToNumber
	// (9.3 via ToPrimitive hint Number). Only used by re-entrancy scenarios.
	ValueOf func() float64
}

// Obj is an object value whose valueOf runs f.
func Obj(f func() float64) Val { return Val{K: 'o', ValueOf: f} }

func Num(f float64) Val    { return Val{K: 'd', N: f} }
func Str(u []uint16) Val   { return Val{K: 's', S: u} }
func Undefined() Val       { return Val{K: 'u'} }
func Null() Val            { return Val{K: 'n'} }
func Bool(b bool) Val      { return Val{K: 'b', B: b} }
func StrS(s string) Val    { return Val{K: 's', S: Units(s)} }
func (v Val) IsNull() bool { return v.K == 'n' }

// Render is the canonical text of a value; the JavaScript prelude of the check
// renders observed values the same way.
func (v Val) Render() string {
	switch v.K {
	case 'u':
		return "u"
	case 'n':
		return "n"
	case 'b':
		if v.B {
			return "b:true"
		}
		return "b:false"
	case 'd':
		return "d:" + NumString(v.N)
	case 's':
		return RenderUnits(v.S)
	case 'o':
		return "o:[object Object]"
	}
	return "?"
}

// RenderUnits renders a string as "s:" + hex code units joined by '.'.
func RenderUnits(u []uint16) string {
	var sb strings.Builder
	sb.WriteString("s:")
	for i, c := range u {
		if i > 0 {
			sb.WriteByte('.')
		}
		sb.WriteString(strconv.FormatUint(uint64(c), 16))
	}
	return sb.String()
}

// NumString is ToString(Number) for the numbers that occur (integers, 1.5, NaN, -0 shown as "-0").
func NumString(f float64) string {
	switch {
	case math.IsNaN(f):
		return "NaN"
	case f == 0 && math.Signbit(f):
		return "-0"
	case math.IsInf(f, 1):
		return "Infinity"
	case math.IsInf(f, -1):
		return "-Infinity"
	case f == math.Trunc(f) && math.Abs(f) < 1e15:
		return strconv.FormatInt(int64(f), 10)
	}
	return strconv.FormatFloat(f, 'g', -1, 64)
}

// ToNumber (9.3) for the value kinds above; strings through a minimal 9.3.1.
func ToNumber(v Val) float64 {
	switch v.K {
	case 'u':
		return math.NaN()
	case 'n':
		return 0
	case 'b':
		if v.B {
			return 1
		}
		return 0
	case 'd':
		return v.N
	case 'o':
		return v.ValueOf()
	case 's':
		s := strings.TrimSpace(String16(v.S))
		if s == "" {
			return 0
		}
		for _, c := range s {
			if !(c >= '0' && c <= '9' || c == '.' || c == '-' || c == '+') {
				return math.NaN() // the histories only use decimal strings
			}
		}
		f, err := strconv.ParseFloat(s, 64)
		if err != nil {
			return math.NaN()
		}
		return f
	}
	return math.NaN()
}

// ToInteger (9.4).
func ToInteger(v Val) float64 {
	n := ToNumber(v)
	if math.IsNaN(n) {
		return 0
	}
	if n == 0 || math.IsInf(n, 0) {
		return n
	}
	return math.Trunc(n)
}

// RegExp is the model of a RegExp instance: the compiled pattern, the global
// flag and the lastIndex data property {value, writable}.
type RegExp struct {
	Prog      *Program
	Global    bool
	LastIndex Val
	Writable  bool
	// Find, when non-nil, replaces the spec's search loop (step 9 of 15.10.6.2).
	// The oracle never sets it; alternative models used by known-finding
	// signatures do (e.g. "RE2 leftmost-first", "subject sliced at lastIndex").
	Find func(s []uint16, from int) (*MatchResult, error)
}

// NewRegExp is 15.10.4.1 for an already classified pattern.
func NewRegExp(p *Pattern, flags string) *RegExp {
	ic := strings.Contains(flags, "i")
	ml := strings.Contains(flags, "m")
	return &RegExp{Prog: Compile(p, ic, ml), Global: strings.Contains(flags, "g"), LastIndex: Num(0), Writable: true}
}

// Thrown is a thrown exception (class name).
type Thrown struct{ Class string }

func (t *Thrown) Error() string { return "throw " + t.Class }

// PutLastIndex is [[Put]]("lastIndex", v, true).
func (re *RegExp) PutLastIndex(v Val) error { return re.put(v) }

// put is [[Put]]("lastIndex", v, true).
func (re *RegExp) put(v Val) error {
	if !re.Writable {
		return &Thrown{"TypeError"}
	}
	re.LastIndex = v
	return nil
}

// MatchResult is a successful match: capture pairs over the subject.
type MatchResult struct {
	Caps []int // 2*(NCap+1), -1 = undefined
}

func (m *MatchResult) Start() int { return m.Caps[0] }
func (m *MatchResult) End() int   { return m.Caps[1] }

// searchFrom runs step 9 of 15.10.6.2: the first index i >= from at which
// [[Match]] succeeds.
func (re *RegExp) searchFrom(s []uint16, from int) (*MatchResult, error) {
	if re.Find != nil {
		return re.Find(s, from)
	}
	for i := from; i <= len(s); i++ {
		caps, ok, err := re.Prog.Match(s, i)
		if err != nil {
			return nil, err
		}
		if ok {
			return &MatchResult{Caps: caps}, nil
		}
	}
	return nil, nil
}

// ExecRaw is 15.10.6.2 up to step 11 (the match itself and the lastIndex
// updates); nil result = null.
func (re *RegExp) ExecRaw(s []uint16) (*MatchResult, error) {
	length := len(s)
	i := ToInteger(re.LastIndex) // 4, 5
	if !re.Global {              // 7
		i = 0
	}
	if i < 0 || i > float64(length) { // 9.a
		if err := re.put(Num(0)); err != nil {
			return nil, err
		}
		return nil, nil
	}
	m, err := re.searchFrom(s, int(i))
	if err != nil {
		return nil, err
	}
	if m == nil {
		if err := re.put(Num(0)); err != nil {
			return nil, err
		}
		return nil, nil
	}
	if re.Global { // 11
		if err := re.put(Num(float64(m.End()))); err != nil {
			return nil, err
		}
	}
	return m, nil
}

// RenderExec renders an exec result array (15.10.6.2 steps 12-20): index,
// input, length and every element.
func RenderExec(s []uint16, m *MatchResult) string {
	if m == nil {
		return "n"
	}
	var sb strings.Builder
	fmt.Fprintf(&sb, "[index=%d,input=%s,length=%d", m.Start(), RenderUnits(s), len(m.Caps)/2)
	for i := 0; i < len(m.Caps); i += 2 {
		sb.WriteByte(',')
		if m.Caps[i] < 0 {
			sb.WriteString("u")
		} else {
			sb.WriteString(RenderUnits(s[m.Caps[i]:m.Caps[i+1]]))
		}
	}
	sb.WriteByte(']')
	return sb.String()
}

// Exec is RegExp.prototype.exec; the rendered result.
func (re *RegExp) Exec(s []uint16) (string, error) {
	m, err := re.ExecRaw(s)
	if err != nil {
		return "", err
	}
	return RenderExec(s, m), nil
}

// Test is 15.10.6.3.
func (re *RegExp) Test(s []uint16) (string, error) {
	m, err := re.ExecRaw(s)
	if err != nil {
		return "", err
	}
	return Bool(m != nil).Render(), nil
}

// globalMatches is the loop of 15.5.4.10 step 8 (shared with replace per
// 15.5.4.11: "in the same manner as in String.prototype.match, including the
// update of searchValue.lastIndex").
//
// The ES5.1 text advances lastIndex when it did not move since the previous
// iteration (step 8.f.iii.2); read literally, an empty match that lies to the
// right of the search position is then reported twice ("ab".match(/$/g) would
// be ["",""]). No engine ever did that and ES2015 rewrote the step as "advance
// when the match is the empty string". Both readings are accepted: es6 selects
// the second.
func (re *RegExp) globalMatches(s []uint16, es6 bool) ([]*MatchResult, error) {
	// 8.a: [[Put]]("lastIndex", 0). The throw flag is not given in the text; with
	// a non-writable lastIndex the exec call below throws in every case, so the
	// choice is unobservable.
	if re.Writable {
		re.LastIndex = Num(0)
	}
	var out []*MatchResult
	previousLastIndex := 0.0
	for {
		m, err := re.ExecRaw(s)
		if err != nil {
			return nil, err
		}
		if m == nil {
			break
		}
		thisIndex := ToInteger(re.LastIndex)
		if es6 {
			if m.Start() == m.End() && re.Writable {
				re.LastIndex = Num(thisIndex + 1)
			}
		} else if thisIndex == previousLastIndex {
			if re.Writable {
				re.LastIndex = Num(thisIndex + 1)
			}
			previousLastIndex = thisIndex + 1
		} else {
			previousLastIndex = thisIndex
		}
		out = append(out, m)
	}
	return out, nil
}

// CollectMatches is the search phase of String.prototype.replace (15.5.4.11):
// for a global expression the loop of String.prototype.match including its
// lastIndex updates (which ends with lastIndex = 0), otherwise the first match
// from the beginning of the string. It completes BEFORE any replacer function
// is called.
func (re *RegExp) CollectMatches(s []uint16, es6 bool) ([]*MatchResult, error) {
	if re.Global {
		return re.globalMatches(s, es6)
	}
	m, err := re.searchFrom(s, 0)
	if err != nil || m == nil {
		return nil, err
	}
	return []*MatchResult{m}, nil
}

// bothReadings runs f under the two readings of the global iteration from the
// same initial state and returns the distinct results; the final state is the
// same under both (lastIndex ends at 0, or the call throws).
func (re *RegExp) bothReadings(f func(es6 bool) ([]string, error)) ([]string, error) {
	li, w := re.LastIndex, re.Writable
	r1, err1 := f(false)
	end := re.LastIndex
	re.LastIndex, re.Writable = li, w
	r2, err2 := f(true)
	if (err1 == nil) != (err2 == nil) || end.Render() != re.LastIndex.Render() {
		return nil, errors.New("regex model: iteration readings disagree on state")
	}
	if err1 != nil {
		return nil, err1
	}
	out := r1
	for _, r := range r2 {
		dup := false
		for _, o := range out {
			if o == r {
				dup = true
			}
		}
		if !dup {
			out = append(out, r)
		}
	}
	return out, nil
}

// RenderArray renders an array of optional strings.
func RenderArray(items []Val) string {
	var sb strings.Builder
	fmt.Fprintf(&sb, "[length=%d", len(items))
	for _, it := range items {
		sb.WriteByte(',')
		sb.WriteString(it.Render())
	}
	sb.WriteByte(']')
	return sb.String()
}

// StringMatch is String.prototype.match (15.5.4.10) with a RegExp argument;
// it returns the acceptable results (see globalMatches).
func (re *RegExp) StringMatch(s []uint16) ([]string, error) {
	if !re.Global {
		r, err := re.Exec(s)
		return []string{r}, err
	}
	return re.bothReadings(func(es6 bool) ([]string, error) {
		ms, err := re.globalMatches(s, es6)
		if err != nil {
			return nil, err
		}
		if len(ms) == 0 {
			return []string{"n"}, nil
		}
		items := make([]Val, len(ms))
		for i, m := range ms {
			items[i] = Str(s[m.Start():m.End()])
		}
		return []string{RenderArray(items)}, nil
	})
}

// StringSearch is 15.5.4.12: lastIndex and global are ignored and unchanged.
func (re *RegExp) StringSearch(s []uint16) (string, error) {
	m, err := re.searchFrom(s, 0)
	if err != nil {
		return "", err
	}
	if m == nil {
		return Num(-1).Render(), nil
	}
	return Num(float64(m.Start())).Render(), nil
}

// StringSplit is 15.5.4.14 with a RegExp separator; limit undefined or a number.
func (re *RegExp) StringSplit(s []uint16, limit Val) (string, error) {
	items, err := SplitUnits(re.Prog, s, limit)
	if err != nil {
		return "", err
	}
	return RenderArray(items), nil
}

// SplitUnits is the algorithm of 15.5.4.14 (steps 5-16) over a unit array.
func SplitUnits(prog *Program, s []uint16, limit Val) ([]Val, error) {
	lim := uint32(math.MaxUint32)
	if limit.K != 'u' {
		lim = ToUint32(ToNumber(limit))
	}
	var a []Val
	if lim == 0 {
		return a, nil
	}
	size := len(s)
	if size == 0 {
		_, ok, err := prog.Match(s, 0)
		if err != nil {
			return nil, err
		}
		if ok {
			return a, nil
		}
		return []Val{Str(s)}, nil
	}
	p, q := 0, 0
	for q < size {
		caps, ok, err := prog.Match(s, q)
		if err != nil {
			return nil, err
		}
		if !ok {
			q++
			continue
		}
		e := caps[1]
		if e == p {
			q++
			continue
		}
		a = append(a, Str(s[p:q]))
		if uint32(len(a)) == lim {
			return a, nil
		}
		p = e
		for i := 2; i < len(caps); i += 2 {
			if caps[i] < 0 {
				a = append(a, Undefined())
			} else {
				a = append(a, Str(s[caps[i]:caps[i+1]]))
			}
			if uint32(len(a)) == lim {
				return a, nil
			}
		}
		q = p
	}
	a = append(a, Str(s[p:size]))
	return a, nil
}

// ToUint32 (9.6).
func ToUint32(n float64) uint32 {
	if math.IsNaN(n) || math.IsInf(n, 0) {
		return 0
	}
	n = math.Trunc(n)
	m := math.Mod(n, 4294967296)
	if m < 0 {
		m += 4294967296
	}
	return uint32(m)
}

// Replacement describes the second argument of replace: either a template
// string or a function, modelled as "log the arguments, return Ret".
type Replacement struct {
	Template []uint16
	IsFunc   bool
	Ret      []uint16
}

// StringReplace is 15.5.4.11 with a RegExp searchValue. It returns the set of
// acceptable rendered results (more than one only where the specification says
// "implementation-defined": $n / $nn beyond the number of captures, and for
// the two readings of the global iteration). For a function replacer the
// rendered result is followed by "~" and the log of calls.
func (re *RegExp) StringReplace(s []uint16, r Replacement) ([]string, error) {
	if re.Global {
		return re.bothReadings(func(es6 bool) ([]string, error) {
			ms, err := re.globalMatches(s, es6)
			if err != nil {
				return nil, err
			}
			return replaceWith(s, ms, r), nil
		})
	}
	// "search string for the first match of the regular expression": no
	// lastIndex involvement is stated.
	m, err := re.searchFrom(s, 0)
	if err != nil {
		return nil, err
	}
	var ms []*MatchResult
	if m != nil {
		ms = []*MatchResult{m}
	}
	return replaceWith(s, ms, r), nil
}

func replaceWith(s []uint16, ms []*MatchResult, r Replacement) []string {
	policies := [][3]int{{0, 0, 0}}
	if !r.IsFunc {
		policies = nil
		for n := 0; n < 2; n++ {
			for z := 0; z < 2; z++ {
				for nn := 0; nn < 3; nn++ {
					policies = append(policies, [3]int{n, z, nn})
				}
			}
		}
	}
	var outs []string
	for _, pol := range policies {
		var out []uint16
		var calls strings.Builder
		last := 0
		for _, m := range ms {
			out = append(out, s[last:m.Start()]...)
			if r.IsFunc {
				calls.WriteByte('(')
				for i := 0; i < len(m.Caps); i += 2 {
					if m.Caps[i] < 0 {
						calls.WriteString("u,")
					} else {
						calls.WriteString(RenderUnits(s[m.Caps[i]:m.Caps[i+1]]) + ",")
					}
				}
				calls.WriteString(Num(float64(m.Start())).Render() + "," + RenderUnits(s) + ")")
				out = append(out, r.Ret...)
			} else {
				out = append(out, ExpandPolicy(r.Template, s, m, pol[0], pol[1], pol[2])...)
			}
			last = m.End()
		}
		out = append(out, s[last:]...)
		o := RenderUnits(out)
		if r.IsFunc {
			o += "~" + calls.String()
		}
		dup := false
		for _, x := range outs {
			if x == o {
				dup = true
			}
		}
		if !dup {
			outs = append(outs, o)
		}
	}
	return outs
}

// ExpandPolicy is the replacement-text table of 15.5.4.11. The policies select
// the implementation-defined behaviour beyond the number of captures m:
// polN for $n with n > m (0 = keep the text, 1 = empty); polZ for $0n with
// n > m (0 = keep the text, 1 = empty); polNN for $nn with n >= 1 and nn > m
// (0 = keep the text, 1 = empty, 2 = treat as $n followed by a literal digit,
// $n itself following polN when n > m).
func ExpandPolicy(t, s []uint16, m *MatchResult, polN, polZ, polNN int) []uint16 {
	mcount := len(m.Caps)/2 - 1
	capture := func(n int) []uint16 {
		if m.Caps[2*n] < 0 {
			return nil
		}
		return s[m.Caps[2*n]:m.Caps[2*n+1]]
	}
	var out []uint16
	for i := 0; i < len(t); i++ {
		c := t[i]
		if c != '$' || i+1 >= len(t) {
			out = append(out, c)
			continue
		}
		n := t[i+1]
		switch {
		case n == '$':
			out = append(out, '$')
			i++
		case n == '&':
			out = append(out, s[m.Start():m.End()]...)
			i++
		case n == '`':
			out = append(out, s[:m.Start()]...)
			i++
		case n == '\'':
			out = append(out, s[m.End():]...)
			i++
		case isDigit(n):
			d1 := int(n - '0')
			if i+2 < len(t) && isDigit(t[i+2]) {
				// $nn
				d2 := int(t[i+2] - '0')
				nn := d1*10 + d2
				if nn == 0 {
					out = append(out, c) // "$00" is not a replacement pattern
					continue
				}
				if nn <= mcount {
					out = append(out, capture(nn)...)
					i += 2
					continue
				}
				// implementation-defined
				pol := polNN
				if d1 == 0 {
					pol = polZ
				}
				switch pol {
				case 0:
					out = append(out, c)
					continue
				case 1:
					i += 2
					continue
				}
				// fall back to $n + literal digit
				if d1 <= mcount {
					out = append(out, capture(d1)...)
					i++
					continue
				}
				if polN == 0 {
					out = append(out, c)
				} else {
					i++
				}
				continue
			}
			// $n
			if d1 == 0 {
				out = append(out, c)
				continue
			}
			if d1 <= mcount {
				out = append(out, capture(d1)...)
				i++
				continue
			}
			if polN == 0 {
				out = append(out, c)
			} else {
				i++
			}
		default:
			out = append(out, c)
		}
	}
	return out
}
