package regex

import (
	"errors"
	"unicode"
)

// 15.10.2 pattern semantics, written the way the specification writes it: every
// production compiles to a Matcher taking a State and a Continuation.

// state is the spec's State: endIndex plus the captures array. Captures are
// stored as start/end pairs (-1 = undefined); the array is treated as
// immutable and copied whenever the spec says "let cap be a fresh copy".
type state struct {
	end int
	cap []int
}

type cont func(x state) (state, bool)
type matcher func(m *machine, x state, c cont) (state, bool)

// machine holds the per-match globals of 15.10.2.1 (Input, InputLength,
// NcapturingParens, IgnoreCase, Multiline) plus the step budget.
type machine struct {
	input      []uint16
	ignoreCase bool
	multiline  bool
	steps      int
	budget     int
}

// ErrBudget is returned when the backtracking step budget is exhausted.
var ErrBudget = errors.New("regex model: step budget exhausted")

type budgetPanic struct{}

func (m *machine) tick() {
	m.steps++
	if m.steps > m.budget {
		panic(budgetPanic{})
	}
}

// Program is a pattern compiled for a flag set.
type Program struct {
	Pat        *Pattern
	IgnoreCase bool
	Multiline  bool
	m          matcher
	NCap       int
}

// DefaultBudget is the step budget of one [[Match]] call.
const DefaultBudget = 200000

// Compile evaluates the Pattern production (15.10.2.2) for the given flags.
func Compile(p *Pattern, ignoreCase, multiline bool) *Program {
	return CompileAlt(p, ignoreCase, multiline, AltOptions{})
}

// AltOptions switch the matcher to NON-ES5 behaviours. The oracle always uses
// the zero value; the options exist only so that known-finding signatures can
// state "observed equals the ES5 matcher except that ..." exactly.
type AltOptions struct {
	DotNewlineOnly    bool // '.' excludes only \n (ES5: every LineTerminator)
	AnchorNewlineOnly bool // multiline ^ and $ look only for \n
	UnicodeFold       bool // ignoreCase compares by Unicode simple case folding orbits (ES5: 15.10.2.8 Canonicalize)
}

// CompileAlt is Compile with alternative-model options.
func CompileAlt(p *Pattern, ignoreCase, multiline bool, opt AltOptions) *Program {
	c := &compiler{ic: ignoreCase, opt: opt}
	return &Program{Pat: p, IgnoreCase: ignoreCase, Multiline: multiline, m: c.compile(p.Root), NCap: p.NCap}
}

// Match is the internal [[Match]](str, index) of 15.10.2.2: it returns the
// end index and captures (pairs, -1 = undefined; pair 0 is the whole match) of
// a match that STARTS at index, or ok=false.
func (pr *Program) Match(input []uint16, index int) (caps []int, ok bool, err error) {
	mc := &machine{input: input, ignoreCase: pr.IgnoreCase, multiline: pr.Multiline, budget: DefaultBudget}
	defer func() {
		if r := recover(); r != nil {
			if _, is := r.(budgetPanic); is {
				caps, ok, err = nil, false, ErrBudget
				return
			}
			panic(r)
		}
	}()
	cp := make([]int, 2*(pr.NCap+1))
	for i := range cp {
		cp[i] = -1
	}
	x := state{end: index, cap: cp}
	y, matched := pr.m(mc, x, func(y state) (state, bool) { return y, true })
	if !matched {
		return nil, false, nil
	}
	out := append([]int(nil), y.cap...)
	out[0], out[1] = index, y.end
	return out, true, nil
}

type compiler struct {
	ic  bool
	opt AltOptions
}

func (c *compiler) canon(ch uint16) uint16 {
	if c.opt.UnicodeFold {
		return foldMin(ch)
	}
	return Canonicalize(ch)
}

func (c *compiler) isLT(ch uint16) bool {
	if c.opt.AnchorNewlineOnly {
		return ch == 10
	}
	return isLineTerminator(ch)
}

// foldMin is the smallest member of the simple case folding orbit of ch (BMP only).
func foldMin(ch uint16) uint16 {
	if ch >= 0xD800 && ch < 0xE000 {
		return ch
	}
	min := rune(ch)
	for r := unicode.SimpleFold(rune(ch)); r != rune(ch); r = unicode.SimpleFold(r) {
		if r < min {
			min = r
		}
	}
	if min > 0xFFFF {
		return ch
	}
	return uint16(min)
}

var dotNLSet = &CharSet{Ranges: [][2]uint16{{0, 9}, {11, 0xFFFF}}}

func (c *compiler) compile(n *Node) matcher {
	switch n.Kind {
	case KEmpty:
		return func(m *machine, x state, k cont) (state, bool) { return k(x) }
	case KChar:
		return c.charSet(&CharSet{Ranges: [][2]uint16{{n.Ch, n.Ch}}})
	case KDot:
		// all characters except LineTerminator
		if c.opt.DotNewlineOnly {
			return c.charSet(dotNLSet)
		}
		return c.charSet(dotSet)
	case KClass:
		return c.charSet(n.Set)
	case KBol:
		return func(m *machine, x state, k cont) (state, bool) {
			m.tick()
			e := x.end
			if e == 0 || (m.multiline && c.isLT(m.input[e-1])) {
				return k(x)
			}
			return state{}, false
		}
	case KEol:
		return func(m *machine, x state, k cont) (state, bool) {
			m.tick()
			e := x.end
			if e == len(m.input) || (m.multiline && c.isLT(m.input[e])) {
				return k(x)
			}
			return state{}, false
		}
	case KWordB, KNotWordB:
		want := n.Kind == KWordB
		return func(m *machine, x state, k cont) (state, bool) {
			m.tick()
			e := x.end
			a := isWordChar(m.input, e-1)
			b := isWordChar(m.input, e)
			if (a != b) == want {
				return k(x)
			}
			return state{}, false
		}
	case KSeq:
		ms := make([]matcher, len(n.Kids))
		for i, kid := range n.Kids {
			ms[i] = c.compile(kid)
		}
		// Alternative :: Alternative Term, right-nested continuation chain
		var seq func(i int) matcher
		seq = func(i int) matcher {
			if i == len(ms)-1 {
				return ms[i]
			}
			m1, m2 := ms[i], seq(i+1)
			return func(m *machine, x state, k cont) (state, bool) {
				return m1(m, x, func(y state) (state, bool) { return m2(m, y, k) })
			}
		}
		return seq(0)
	case KAlt:
		ms := make([]matcher, len(n.Kids))
		for i, kid := range n.Kids {
			ms[i] = c.compile(kid)
		}
		return func(m *machine, x state, k cont) (state, bool) {
			m.tick()
			for _, mi := range ms {
				if r, ok := mi(m, x, k); ok {
					return r, true
				}
			}
			return state{}, false
		}
	case KNCGroup:
		return c.compile(n.Kids[0])
	case KGroup:
		inner := c.compile(n.Kids[0])
		idx := n.Cap
		return func(m *machine, x state, k cont) (state, bool) {
			m.tick()
			return inner(m, x, func(y state) (state, bool) {
				cp := append([]int(nil), y.cap...)
				cp[2*idx], cp[2*idx+1] = x.end, y.end
				return k(state{end: y.end, cap: cp})
			})
		}
	case KLook:
		inner := c.compile(n.Kids[0])
		neg := n.Neg
		return func(m *machine, x state, k cont) (state, bool) {
			m.tick()
			r, ok := inner(m, x, func(y state) (state, bool) { return y, true })
			if neg {
				if ok {
					return state{}, false
				}
				return k(x)
			}
			if !ok {
				return state{}, false
			}
			return k(state{end: x.end, cap: r.cap})
		}
	case KBackRef:
		idx := n.Cap
		return func(m *machine, x state, k cont) (state, bool) {
			m.tick()
			if 2*idx+1 >= len(x.cap) || x.cap[2*idx] < 0 {
				return k(x)
			}
			s, e := x.cap[2*idx], x.cap[2*idx+1]
			l := e - s
			if x.end+l > len(m.input) {
				return state{}, false
			}
			for i := 0; i < l; i++ {
				if m.canon(m.input[s+i]) != m.canon(m.input[x.end+i]) {
					return state{}, false
				}
			}
			return k(state{end: x.end + l, cap: x.cap})
		}
	case KQuant:
		inner := c.compile(n.Kids[0])
		min, max, greedy := n.Min, n.Max, n.Greedy
		pi, pc := n.ParenIndex, n.ParenCount
		return func(m *machine, x state, k cont) (state, bool) {
			return repeatMatcher(m, inner, min, max, greedy, x, k, pi, pc)
		}
	}
	panic("regex model: unknown node kind")
}

// repeatMatcher is 15.10.2.5 RepeatMatcher, step for step.
func repeatMatcher(mc *machine, m matcher, min, max int, greedy bool, x state, c cont, parenIndex, parenCount int) (state, bool) {
	mc.tick()
	// 1
	if max == 0 {
		return c(x)
	}
	// 2
	d := func(y state) (state, bool) {
		if min == 0 && y.end == x.end {
			return state{}, false
		}
		min2 := 0
		if min != 0 {
			min2 = min - 1
		}
		max2 := -1
		if max != -1 {
			max2 = max - 1
		}
		return repeatMatcher(mc, m, min2, max2, greedy, y, c, parenIndex, parenCount)
	}
	// 3, 4
	cp := x.cap
	if parenCount > 0 {
		cp = append([]int(nil), x.cap...)
		for k := parenIndex + 1; k <= parenIndex+parenCount; k++ {
			cp[2*k], cp[2*k+1] = -1, -1
		}
	}
	xr := state{end: x.end, cap: cp}
	// 5
	if min != 0 {
		return m(mc, xr, d)
	}
	// 6
	if !greedy {
		if z, ok := c(x); ok {
			return z, true
		}
		return m(mc, xr, d)
	}
	// 7
	if z, ok := m(mc, xr, d); ok {
		return z, true
	}
	return c(x)
}

var dotSet = &CharSet{Ranges: [][2]uint16{{0, 9}, {11, 12}, {14, 0x2027}, {0x202A, 0xFFFF}}}

func isLineTerminator(c uint16) bool { return c == 10 || c == 13 || c == 0x2028 || c == 0x2029 }

// IsWordChar of 15.10.2.6.
func isWordChar(in []uint16, e int) bool {
	if e == -1 || e == len(in) {
		return false
	}
	c := in[e]
	return c >= 'a' && c <= 'z' || c >= 'A' && c <= 'Z' || c >= '0' && c <= '9' || c == '_'
}

// Canonicalize of 15.10.2.8 (always applied with IgnoreCase true here).
func Canonicalize(ch uint16) uint16 {
	if ch >= 0xD800 && ch < 0xE000 {
		return ch
	}
	// String.prototype.toUpperCase uses the full case mapping; a result that is
	// not a single character leaves ch unchanged. The characters whose full
	// upper-case mapping is longer than one unit (SpecialCasing.txt) have no
	// simple mapping either, except the ones listed here.
	switch ch {
	case 0x00DF, 0x0149, 0x01F0, 0x0390, 0x03B0, 0x0587, 0x1E96, 0x1E97, 0x1E98, 0x1E99, 0x1E9A:
		return ch
	}
	if specialMulti(ch) || ch >= 0xFB00 && ch <= 0xFB17 {
		return ch
	}
	u := unicode.ToUpper(rune(ch))
	if u > 0xFFFF {
		return ch
	}
	if ch >= 128 && u < 128 {
		return ch
	}
	return uint16(u)
}

// specialMulti: units in 1F50–1FFF whose SpecialCasing upper-case is more than
// one character although a simple mapping exists (1F80–1FAF, 1FB3, 1FC3, 1FF3).
func specialMulti(ch uint16) bool {
	switch {
	case ch >= 0x1F80 && ch <= 0x1FAF:
		return true
	case ch == 0x1FB3, ch == 0x1FBC, ch == 0x1FC3, ch == 0x1FCC, ch == 0x1FF3, ch == 0x1FFC:
		return true
	}
	return false
}

func (m *machine) canon(ch uint16) uint16 {
	if !m.ignoreCase {
		return ch
	}
	return Canonicalize(ch)
}

type bitmap [1024]uint64

func (b *bitmap) set(c uint16)      { b[c>>6] |= 1 << (c & 63) }
func (b *bitmap) has(c uint16) bool { return b[c>>6]&(1<<(c&63)) != 0 }

type canonKey struct {
	lo, hi uint16
	fold   bool
}

var canonCache = map[canonKey]*bitmap{}

func (c *compiler) canonRange(lo, hi uint16) *bitmap {
	key := canonKey{lo, hi, c.opt.UnicodeFold}
	if b, ok := canonCache[key]; ok {
		return b
	}
	b := &bitmap{}
	for ch := int(lo); ch <= int(hi); ch++ {
		b.set(c.canon(uint16(ch)))
	}
	canonCache[key] = b
	return b
}

// charSet is 15.10.2.8 CharacterSetMatcher(A, invert).
func (c *compiler) charSet(set *CharSet) matcher {
	invert := set.Invert
	if !c.ic {
		return func(m *machine, x state, k cont) (state, bool) {
			m.tick()
			e := x.end
			if e == len(m.input) {
				return state{}, false
			}
			if set.Has(m.input[e]) == invert {
				return state{}, false
			}
			return k(state{end: e + 1, cap: x.cap})
		}
	}
	// exists a in A with Canonicalize(a) == cc
	var small []uint16
	var big []*bitmap
	for _, r := range set.Ranges {
		if int(r[1])-int(r[0]) < 64 {
			for ch := int(r[0]); ch <= int(r[1]); ch++ {
				small = append(small, c.canon(uint16(ch)))
			}
		} else {
			big = append(big, c.canonRange(r[0], r[1]))
		}
	}
	return func(m *machine, x state, k cont) (state, bool) {
		m.tick()
		e := x.end
		if e == len(m.input) {
			return state{}, false
		}
		cc := c.canon(m.input[e])
		found := false
		for _, a := range small {
			if a == cc {
				found = true
				break
			}
		}
		if !found {
			for _, b := range big {
				if b.has(cc) {
					found = true
					break
				}
			}
		}
		if found == invert {
			return state{}, false
		}
		return k(state{end: e + 1, cap: x.cap})
	}
}
