// Package num is the exact reference model of the ES5.1 number <-> text
// conversions: 9.8.1 ToString applied to the Number type, 15.7.4.2 toString(radix)
// for integral values, 15.7.4.5-7 toFixed / toExponential / toPrecision,
// 9.3.1 ToNumber applied to the String type, 15.1.2.2 parseInt, 15.1.2.3
// parseFloat and the 7.8.3 numeric literal grammar.
//
// Everything is computed in exact arithmetic (math/big integers and exact decimal
// expansions); strconv is not used for any verdict. A finite double is m*2^e, so
// it has a finite exact decimal expansion; all the roundings the specification
// asks for ("let n be an integer for which the exact mathematical value of
// n/10^f - x is as close to zero as possible; if there are two such n, pick the
// larger n") are digit-string operations on that expansion.
package num

import (
	"bytes"
	"math"
	"math/big"
	"math/bits"
	"sync"
)

// ---------------------------------------------------------------------------
// exact decimal expansion of a double

// Dec is an exact positive decimal: value = 0.D1 D2 ... Dk * 10^Exp with D1 != 0
// and Dk != 0 (Digits are ASCII '0'..'9').
type Dec struct {
	Digits []byte
	Exp    int
}

var (
	powOnce sync.Once
	pow5tab []*big.Int
)

func pow5(k int) *big.Int {
	powOnce.Do(func() {
		pow5tab = make([]*big.Int, 1200)
		pow5tab[0] = big.NewInt(1)
		five := big.NewInt(5)
		for i := 1; i < len(pow5tab); i++ {
			pow5tab[i] = new(big.Int).Mul(pow5tab[i-1], five)
		}
	})
	if k < len(pow5tab) {
		return pow5tab[k]
	}
	return new(big.Int).Exp(big.NewInt(5), big.NewInt(int64(k)), nil)
}

// pow10 returns 10^k (k >= 0).
func pow10(k int) *big.Int {
	p := new(big.Int).Set(pow5(k))
	return p.Lsh(p, uint(k))
}

// Split decomposes a finite non-zero double: |x| = m * 2^e with m an integer < 2^53.
func Split(x float64) (m uint64, e int) {
	b := math.Float64bits(x)
	be := int(b>>52) & 0x7ff
	m = b & (1<<52 - 1)
	if be == 0 {
		be = 1
	} else {
		m |= 1 << 52
	}
	return m, be - 1075
}

// DecOf returns the exact decimal expansion of m * 2^e (m > 0).
func DecOf(m *big.Int, e int) Dec {
	n := new(big.Int).Set(m)
	shift := 0
	if e < 0 {
		// drop common factors of two first
		tz := int(n.TrailingZeroBits())
		if tz > -e {
			tz = -e
		}
		n.Rsh(n, uint(tz))
		e += tz
	}
	if e >= 0 {
		n.Lsh(n, uint(e))
	} else {
		// m / 2^k = m * 5^k / 10^k
		n.Mul(n, pow5(-e))
		shift = e
	}
	s := n.Append(nil, 10)
	exp := len(s) + shift
	s = bytes.TrimRight(s, "0")
	return Dec{Digits: s, Exp: exp}
}

// Exact returns the exact decimal expansion of |x| (x finite, non-zero).
func Exact(x float64) Dec {
	m, e := Split(x)
	return DecOf(new(big.Int).SetUint64(m), e)
}

func cmpDec(a, b Dec) int {
	if a.Exp != b.Exp {
		if a.Exp < b.Exp {
			return -1
		}
		return 1
	}
	return bytes.Compare(a.Digits, b.Digits)
}

// incr adds one unit in the last place to the digit string d (ASCII digits); on
// overflow it returns "1000..." (same length) and carry = true.
func incr(d []byte) (out []byte, carry bool) {
	out = append([]byte(nil), d...)
	for i := len(out) - 1; i >= 0; i-- {
		if out[i] != '9' {
			out[i]++
			return out, false
		}
		out[i] = '0'
	}
	if len(out) > 0 {
		out[0] = '1'
	}
	return out, true
}

func zeros(n int) []byte {
	if n <= 0 {
		return nil
	}
	return bytes.Repeat([]byte{'0'}, n)
}

// RoundMode selects what happens on an exact tie.
type RoundMode int

const (
	HalfUp   RoundMode = iota // the specification's "pick the larger n"
	HalfEven                  // IEEE / strconv behaviour (used by alternative models only)
)

// roundSig rounds d to exactly keep >= 1 significant digits. It returns the keep
// digits of n and the decimal exponent e of the result in scientific notation
// (n * 10^(e-keep+1) is the rounded value).
func roundSig(d Dec, keep int, mode RoundMode) (n []byte, e int) {
	e = d.Exp - 1
	if len(d.Digits) <= keep {
		n = append(append([]byte(nil), d.Digits...), zeros(keep-len(d.Digits))...)
		return n, e
	}
	n = append([]byte(nil), d.Digits[:keep]...)
	if roundsUp(d.Digits, keep, mode) {
		var carry bool
		n, carry = incr(n)
		if carry {
			e++
		}
	}
	return n, e
}

// roundsUp decides whether dropping digits[keep:] rounds the kept part up
// (keep may be 0: the kept part is then the integer 0).
func roundsUp(digits []byte, keep int, mode RoundMode) bool {
	if keep >= len(digits) {
		return false
	}
	c := digits[keep]
	if c > '5' {
		return true
	}
	if c < '5' {
		return false
	}
	// first dropped digit is 5: exact tie iff nothing follows (trailing zeros are stripped)
	if keep+1 < len(digits) {
		return true
	}
	if mode == HalfUp {
		return true
	}
	if keep == 0 {
		return false // 0 is even
	}
	return (digits[keep-1]-'0')&1 == 1
}

// ---------------------------------------------------------------------------
// 9.8.1 ToString applied to the Number type

// Shortest returns the digits s (k = len) and the n of 9.8.1 step 5 for a finite
// x > 0: k as small as possible such that the Number value of s*10^(n-k) is x;
// among the possible s the one closest to x, the even one on a tie (NOTE 2).
func Shortest(x float64) (s []byte, n int) {
	m, e := Split(x)
	b := math.Float64bits(x)
	mant := b & (1<<52 - 1)
	be := int(b>>52) & 0x7ff
	d := DecOf(new(big.Int).SetUint64(m), e)
	// rounding interval [lo, hi]: the midpoints to the neighbouring doubles.
	var lo, hi Dec
	hi = DecOf(new(big.Int).SetUint64(2*m+1), e-1)
	if mant == 0 && be > 1 {
		// x is a power of two: the lower neighbour is half as far away
		lo = DecOf(new(big.Int).SetUint64(4*m-1), e-2)
	} else {
		lo = DecOf(new(big.Int).SetUint64(2*m-1), e-1)
	}
	closed := m&1 == 0 // ties round to the even significand
	inside := func(c Dec) bool {
		l, h := cmpDec(lo, c), cmpDec(c, hi)
		if closed {
			return l <= 0 && h <= 0
		}
		return l < 0 && h < 0
	}
	for k := 1; k < len(d.Digits); k++ {
		loD := Dec{Digits: bytes.TrimRight(d.Digits[:k], "0"), Exp: d.Exp}
		hs, carry := incr(d.Digits[:k])
		hiD := Dec{Digits: bytes.TrimRight(hs, "0"), Exp: d.Exp}
		if carry {
			hiD.Exp++
		}
		inLo, inHi := inside(loD), inside(hiD)
		if !inLo && !inHi {
			continue
		}
		pick := 0 // 0 = low candidate, 1 = high candidate
		switch {
		case inLo && inHi:
			// closest to x; tie -> even s
			c := d.Digits[k]
			switch {
			case c > '5':
				pick = 1
			case c < '5':
				pick = 0
			case k+1 < len(d.Digits):
				pick = 1
			default:
				if (d.Digits[k-1]-'0')&1 == 1 {
					pick = 1
				}
			}
		case inHi:
			pick = 1
		}
		if pick == 0 {
			return append([]byte(nil), d.Digits[:k]...), d.Exp
		}
		if carry {
			// 99..9 + 1 = 100..0: as a k-digit s this is 10..0 with n one larger
			return hs, d.Exp + 1
		}
		return hs, d.Exp
	}
	return append([]byte(nil), d.Digits...), d.Exp
}

// itoa renders a non-negative int in decimal.
func itoa(v int) string {
	if v == 0 {
		return "0"
	}
	var b [24]byte
	i := len(b)
	for v > 0 {
		i--
		b[i] = byte('0' + v%10)
		v /= 10
	}
	return string(b[i:])
}

// ToString is 9.8.1.
func ToString(x float64) string {
	switch {
	case math.IsNaN(x):
		return "NaN"
	case x == 0:
		return "0"
	case x < 0:
		return "-" + ToString(-x)
	case math.IsInf(x, 1):
		return "Infinity"
	}
	s, n := Shortest(x)
	// the trailing zeros of a k-digit s never survive (s is not divisible by 10)
	s = bytes.TrimRight(s, "0")
	return Layout(s, n)
}

// Layout is steps 6-10 of 9.8.1 for digits s (k = len(s)) and n.
func Layout(s []byte, n int) string {
	k := len(s)
	switch {
	case k <= n && n <= 21:
		return string(s) + string(zeros(n-k))
	case 0 < n && n <= 21:
		return string(s[:n]) + "." + string(s[n:])
	case -6 < n && n <= 0:
		return "0." + string(zeros(-n)) + string(s)
	}
	e := n - 1
	sign := "+"
	if e < 0 {
		sign = "-"
		e = -e
	}
	if k == 1 {
		return string(s) + "e" + sign + itoa(e)
	}
	return string(s[:1]) + "." + string(s[1:]) + "e" + sign + itoa(e)
}

// ---------------------------------------------------------------------------
// 15.7.4.2 toString(radix) for integral values

// IsIntegral reports whether x is a finite mathematical integer.
func IsIntegral(x float64) bool {
	return !math.IsNaN(x) && !math.IsInf(x, 0) && math.Floor(x) == x
}

// BigOf returns the exact integer value of an integral double.
func BigOf(x float64) *big.Int {
	if x == 0 {
		return new(big.Int)
	}
	m, e := Split(x)
	n := new(big.Int).SetUint64(m)
	if e >= 0 {
		n.Lsh(n, uint(e))
	} else {
		n.Rsh(n, uint(-e)) // exact for integral x
	}
	if x < 0 {
		n.Neg(n)
	}
	return n
}

const radixDigits = "0123456789abcdefghijklmnopqrstuvwxyz"

// RadixString is the exact positional representation of the integral double x in
// radix r (2..36), digits 0-9a-z, "-" prefix for negatives.
func RadixString(x float64, r int) string {
	if x == 0 {
		return "0"
	}
	n := BigOf(x)
	neg := n.Sign() < 0
	n.Abs(n)
	var out []byte
	rr := big.NewInt(int64(r))
	rem := new(big.Int)
	for n.Sign() > 0 {
		n.QuoRem(n, rr, rem)
		out = append(out, radixDigits[rem.Int64()])
	}
	for i, j := 0, len(out)-1; i < j; i, j = i+1, j-1 {
		out[i], out[j] = out[j], out[i]
	}
	if neg {
		return "-" + string(out)
	}
	return string(out)
}

// ---------------------------------------------------------------------------
// 15.7.4.5 - 15.7.4.7

// Result is the outcome of a formatting method: a string or a thrown error class.
type Result struct {
	S   string
	Err string // "" | "RangeError"
}

func (r Result) String() string {
	if r.Err != "" {
		return "E:" + r.Err
	}
	return "s:" + r.S
}

// ToInteger is 9.4.
func ToInteger(v float64) float64 {
	switch {
	case math.IsNaN(v):
		return 0
	case v == 0 || math.IsInf(v, 0):
		return v
	}
	return math.Trunc(v)
}

// ToFixedMode is 15.7.4.5 with the tie rule as a parameter (HalfUp = specification).
// fd is the already ToNumber-converted argument (NaN for undefined).
func ToFixedMode(x float64, fd float64, mode RoundMode) Result {
	f := ToInteger(fd)
	if f < 0 || f > 20 {
		return Result{Err: "RangeError"}
	}
	if math.IsNaN(x) {
		return Result{S: "NaN"}
	}
	s := ""
	if x < 0 {
		s = "-"
		x = -x
	}
	if x >= 1e21 {
		return Result{S: s + ToString(x)}
	}
	fi := int(f)
	var n []byte // decimal digits of the integer n
	if x == 0 {
		n = []byte("0")
	} else {
		d := Exact(x)
		keep := d.Exp + fi // number of digits of floor(x * 10^f)
		switch {
		case keep < 0:
			n = []byte("0")
		case keep == 0:
			if roundsUp(d.Digits, 0, mode) {
				n = []byte("1")
			} else {
				n = []byte("0")
			}
		default:
			if len(d.Digits) <= keep {
				n = append(append([]byte(nil), d.Digits...), zeros(keep-len(d.Digits))...)
			} else {
				n = append([]byte(nil), d.Digits[:keep]...)
				if roundsUp(d.Digits, keep, mode) {
					var carry bool
					n, carry = incr(n)
					if carry {
						n = append(n, '0')
					}
				}
			}
		}
	}
	m := n
	if fi != 0 {
		k := len(m)
		if k <= fi {
			m = append(zeros(fi+1-k), m...)
			k = fi + 1
		}
		m = []byte(string(m[:k-fi]) + "." + string(m[k-fi:]))
	}
	return Result{S: s + string(m)}
}

// ToFixed is 15.7.4.5.
func ToFixed(x float64, fd float64) Result { return ToFixedMode(x, fd, HalfUp) }

func expSuffix(e int, pad2 bool) string {
	c := "+"
	if e < 0 {
		c = "-"
		e = -e
	}
	d := itoa(e)
	if pad2 && len(d) < 2 {
		d = "0" + d
	}
	return "e" + c + d
}

// ToExponentialMode is 15.7.4.6; undef tells that fractionDigits was undefined.
// pad2 = false and mode = HalfUp give the specification; the other settings are
// alternative models used by known-finding signatures.
func ToExponentialMode(x float64, fd float64, undef bool, mode RoundMode, pad2 bool) Result {
	f := ToInteger(fd)
	if math.IsNaN(x) {
		return Result{S: "NaN"}
	}
	s := ""
	if x < 0 {
		s = "-"
		x = -x
	}
	if math.IsInf(x, 1) {
		return Result{S: s + "Infinity"}
	}
	if !undef && (f < 0 || f > 20) {
		return Result{Err: "RangeError"}
	}
	var n []byte
	e := 0
	if x == 0 {
		fi := 0
		if !undef {
			fi = int(f)
		}
		n = zeros(fi + 1)
	} else if !undef {
		n, e = roundSig(Exact(x), int(f)+1, mode)
	} else {
		var nn int
		n, nn = Shortest(x)
		n = bytes.TrimRight(n, "0")
		e = nn - 1
	}
	m := string(n)
	if len(n) > 1 {
		m = string(n[:1]) + "." + string(n[1:])
	}
	return Result{S: s + m + expSuffix(e, pad2)}
}

// ToExponential is 15.7.4.6.
func ToExponential(x float64, fd float64, undef bool) Result {
	return ToExponentialMode(x, fd, undef, HalfUp, false)
}

// ToPrecision is 15.7.4.7; undef tells that precision was undefined.
func ToPrecision(x float64, pd float64, undef bool) Result {
	if undef {
		return Result{S: ToString(x)}
	}
	p := ToInteger(pd)
	if math.IsNaN(x) {
		return Result{S: "NaN"}
	}
	s := ""
	if x < 0 {
		s = "-"
		x = -x
	}
	if math.IsInf(x, 1) {
		return Result{S: s + "Infinity"}
	}
	if p < 1 || p > 21 {
		return Result{Err: "RangeError"}
	}
	pi := int(p)
	var n []byte
	e := 0
	if x == 0 {
		n = zeros(pi)
	} else {
		n, e = roundSig(Exact(x), pi, HalfUp)
		if e < -6 || e >= pi {
			m := string(n)
			if pi != 1 {
				m = string(n[:1]) + "." + string(n[1:])
			}
			return Result{S: s + m + expSuffix(e, false)}
		}
	}
	if e == pi-1 {
		return Result{S: s + string(n)}
	}
	if e >= 0 {
		return Result{S: s + string(n[:e+1]) + "." + string(n[e+1:])}
	}
	return Result{S: s + "0." + string(zeros(-(e + 1))) + string(n)}
}

// ---------------------------------------------------------------------------
// text -> number: correctly rounded conversion of a ratio of integers

// RoundRatio returns the double nearest to num/den (num >= 0, den > 0), ties to
// the even significand, overflow to +Inf (8.5: 2^1024 is treated as even).
func RoundRatio(num, den *big.Int) float64 {
	if num.Sign() == 0 {
		return 0
	}
	k := num.BitLen() - den.BitLen() // 2^(k-1) < num/den < 2^(k+1)
	u := k - 53
	if u < -1074 {
		u = -1074
	}
	if u > 1100 {
		return math.Inf(1)
	}
	q, rem, dv := new(big.Int), new(big.Int), new(big.Int)
	for {
		if u >= 0 {
			dv.Lsh(den, uint(u))
			q.QuoRem(num, dv, rem)
		} else {
			dv.Set(den)
			q.Lsh(num, uint(-u))
			q.QuoRem(q, dv, rem)
		}
		if q.BitLen() <= 53 {
			break
		}
		u++
	}
	qi := q.Uint64()
	rem.Lsh(rem, 1)
	c := rem.Cmp(dv)
	if c > 0 || (c == 0 && qi&1 == 1) {
		qi++
	}
	// qi <= 2^53 and u >= -1074: qi * 2^u is exactly representable unless it overflows
	return ldexpExact(qi, u)
}

// ldexpExact builds qi * 2^u (qi <= 2^53, u >= -1074) from its bit pattern.
func ldexpExact(qi uint64, u int) float64 {
	if qi == 0 {
		return 0
	}
	// normalise so that qi has exactly 53 bits where possible
	l := bits.Len64(qi)
	for l > 53 {
		// only qi == 2^53
		qi >>= 1
		u++
		l--
	}
	for l < 53 && u > -1074 {
		qi <<= 1
		u--
		l++
	}
	if l < 53 {
		// subnormal: u == -1074
		return math.Float64frombits(qi)
	}
	be := u + 1075
	if be >= 2047 {
		return math.Inf(1)
	}
	return math.Float64frombits(uint64(be)<<52 | (qi & (1<<52 - 1)))
}

// DecToFloat returns the double nearest to D * 10^e10 where D is the integer
// written by the ASCII decimal digits (leading zeros allowed).
func DecToFloat(digits []byte, e10 int) float64 {
	digits = bytes.TrimLeft(digits, "0")
	if len(digits) == 0 {
		return 0
	}
	// trailing zeros move into the exponent (keeps the integers small)
	t := bytes.TrimRight(digits, "0")
	e10 += len(digits) - len(t)
	digits = t
	nd := len(digits)
	if nd+e10 > 310 {
		return math.Inf(1)
	}
	if nd+e10 < -330 {
		return 0
	}
	D := new(big.Int)
	ten := big.NewInt(10)
	// own accumulation (no SetString): chunks of 18 digits
	for i := 0; i < nd; {
		j := i + 18
		if j > nd {
			j = nd
		}
		var c uint64
		for _, ch := range digits[i:j] {
			c = c*10 + uint64(ch-'0')
		}
		D.Mul(D, new(big.Int).Exp(ten, big.NewInt(int64(j-i)), nil))
		D.Add(D, new(big.Int).SetUint64(c))
		i = j
	}
	if e10 >= 0 {
		return RoundRatio(D.Mul(D, pow10(e10)), big.NewInt(1))
	}
	return RoundRatio(D, pow10(-e10))
}

// DigitsToFloat returns the double nearest to the integer written by digit
// values ds (each < radix) in the given radix.
func DigitsToFloat(ds []int, radix int) float64 {
	n := new(big.Int)
	r := big.NewInt(int64(radix))
	for _, d := range ds {
		n.Mul(n, r)
		n.Add(n, big.NewInt(int64(d)))
	}
	return RoundRatio(n, big.NewInt(1))
}

// ---------------------------------------------------------------------------
// 9.5 ToInt32

// ToInt32 is 9.5.
func ToInt32(v float64) int32 {
	if math.IsNaN(v) || math.IsInf(v, 0) || v == 0 {
		return 0
	}
	t := math.Trunc(v)
	// exact modulo 2^32 through the integer value
	n := BigOf(t)
	mod := new(big.Int).Lsh(big.NewInt(1), 32)
	n.Mod(n, mod) // Euclidean: 0 <= n < 2^32
	u := uint32(n.Uint64())
	return int32(u)
}
