package num

import "math"

// IsStrWhiteSpaceChar is StrWhiteSpaceChar of 9.3.1: WhiteSpace (7.2) or
// LineTerminator (7.3). <USP> is the Unicode category Zs; U+180E was Zs in the
// Unicode versions current for ES5 (3.0 - 6.2) and is included (see Assumptions).
func IsStrWhiteSpaceChar(r rune) bool {
	switch r {
	case 0x09, 0x0B, 0x0C, 0x20, 0xA0, 0xFEFF, // WhiteSpace
		0x0A, 0x0D, 0x2028, 0x2029, // LineTerminator
		0x1680, 0x180E, 0x202F, 0x205F, 0x3000: // Zs
		return true
	}
	return r >= 0x2000 && r <= 0x200A
}

func trimLeftWS(s []rune) []rune {
	for len(s) > 0 && IsStrWhiteSpaceChar(s[0]) {
		s = s[1:]
	}
	return s
}

func trimWS(s []rune) []rune {
	s = trimLeftWS(s)
	for len(s) > 0 && IsStrWhiteSpaceChar(s[len(s)-1]) {
		s = s[:len(s)-1]
	}
	return s
}

func isDigit(r rune) bool { return r >= '0' && r <= '9' }

// DigitVal is the value of r as a digit in radixes up to 36, or 36.
func DigitVal(r rune) int {
	switch {
	case r >= '0' && r <= '9':
		return int(r - '0')
	case r >= 'a' && r <= 'z':
		return int(r-'a') + 10
	case r >= 'A' && r <= 'Z':
		return int(r-'A') + 10
	}
	return 36
}

// decLit is a recognised (Str)DecimalLiteral.
type decLit struct {
	neg    bool
	inf    bool
	digits []byte // all mantissa digits, the point removed
	e10    int    // value = digits * 10^e10
}

func (l decLit) value() float64 {
	var v float64
	if l.inf {
		v = math.Inf(1)
	} else {
		v = DecToFloat(l.digits, l.e10)
	}
	if l.neg {
		return -v // -0 when the MV is 0 (9.3.1)
	}
	return v
}

const expCap = 100000000

// scanUnsignedDecimal scans the longest prefix of s that is a
// StrUnsignedDecimalLiteral (without "Infinity") when leadingZeros is true, or a
// DecimalLiteral of 7.8.3 otherwise (the integer part is then "0" or starts with
// a non-zero digit: the scan of the integer part stops after a leading "0").
// It returns the length of the prefix (0 = none).
func scanUnsignedDecimal(s []rune, strGrammar bool) (n int, lit decLit) {
	i := 0
	intDigits := 0
	if strGrammar {
		for i < len(s) && isDigit(s[i]) {
			lit.digits = append(lit.digits, byte(s[i]))
			i++
			intDigits++
		}
	} else if i < len(s) && isDigit(s[i]) {
		if s[i] == '0' {
			lit.digits = append(lit.digits, '0')
			i++
			intDigits++
		} else {
			for i < len(s) && isDigit(s[i]) {
				lit.digits = append(lit.digits, byte(s[i]))
				i++
				intDigits++
			}
		}
	}
	fracDigits := 0
	if i < len(s) && s[i] == '.' {
		j := i + 1
		for j < len(s) && isDigit(s[j]) {
			lit.digits = append(lit.digits, byte(s[j]))
			j++
			fracDigits++
		}
		if intDigits == 0 && fracDigits == 0 {
			return 0, decLit{}
		}
		i = j
	} else if intDigits == 0 {
		return 0, decLit{}
	}
	lit.e10 = -fracDigits
	// ExponentPart (only taken when complete)
	if i < len(s) && (s[i] == 'e' || s[i] == 'E') {
		j := i + 1
		eneg := false
		if j < len(s) && (s[j] == '+' || s[j] == '-') {
			eneg = s[j] == '-'
			j++
		}
		if j < len(s) && isDigit(s[j]) {
			ev := 0
			for j < len(s) && isDigit(s[j]) {
				if ev < expCap {
					ev = ev*10 + int(s[j]-'0')
				}
				j++
			}
			if eneg {
				ev = -ev
			}
			lit.e10 += ev
			i = j
		}
	}
	return i, lit
}

var infinityWord = []rune("Infinity")

func hasPrefix(s, p []rune) bool {
	if len(s) < len(p) {
		return false
	}
	for i := range p {
		if s[i] != p[i] {
			return false
		}
	}
	return true
}

// scanStrDecimalLiteral scans the longest prefix of s that is a StrDecimalLiteral
// (9.3.1): optional sign, then Infinity or a StrUnsignedDecimalLiteral.
func scanStrDecimalLiteral(s []rune) (n int, lit decLit) {
	i := 0
	neg := false
	if i < len(s) && (s[i] == '+' || s[i] == '-') {
		neg = s[i] == '-'
		i++
	}
	if hasPrefix(s[i:], infinityWord) {
		return i + len(infinityWord), decLit{neg: neg, inf: true}
	}
	m, l := scanUnsignedDecimal(s[i:], true)
	if m == 0 {
		return 0, decLit{}
	}
	l.neg = neg
	return i + m, l
}

// scanHexInteger scans 0x / 0X followed by at least one hex digit.
func scanHexInteger(s []rune) (n int, ds []int) {
	if len(s) < 3 || s[0] != '0' || (s[1] != 'x' && s[1] != 'X') {
		return 0, nil
	}
	i := 2
	for i < len(s) && DigitVal(s[i]) < 16 {
		ds = append(ds, DigitVal(s[i]))
		i++
	}
	if i == 2 {
		return 0, nil
	}
	return i, ds
}

// StringToNumber is 9.3.1 (ToNumber applied to the String type).
func StringToNumber(str string) float64 {
	s := trimWS([]rune(str))
	if len(s) == 0 {
		return 0
	}
	if n, ds := scanHexInteger(s); n > 0 {
		if n == len(s) {
			return DigitsToFloat(ds, 16)
		}
		return math.NaN()
	}
	n, lit := scanStrDecimalLiteral(s)
	if n == 0 || n != len(s) {
		return math.NaN()
	}
	return lit.value()
}

// ParseFloat is 15.1.2.3.
func ParseFloat(str string) float64 {
	s := trimLeftWS([]rune(str))
	n, lit := scanStrDecimalLiteral(s)
	if n == 0 {
		return math.NaN()
	}
	return lit.value()
}

// IntResult is the outcome of ParseInt: the mathematically exact result and what
// the specification allows instead of it.
type IntResult struct {
	Value float64 // correctly rounded result
	// Alt is another result 15.1.2.2 step 13 admits (radix 10 with more than 20
	// significant digits: digits after the 20th replaced by 0); equal to Value when
	// there is none.
	Alt float64
	// Loose: the radix is not 2, 4, 8, 10, 16 or 32 and the value is not exactly
	// representable below 2^53, so the specification allows an
	// implementation-dependent approximation (not asserted).
	Loose bool
}

// ParseIntDigits performs steps 1-12 of 15.1.2.2: it returns the sign, the
// radix R finally used and the digit values of Z (nil when the result is NaN).
func ParseIntDigits(str string, radix float64) (neg bool, ds []int, R int) {
	s := trimLeftWS([]rune(str))
	if len(s) > 0 && s[0] == '-' {
		neg = true
	}
	if len(s) > 0 && (s[0] == '+' || s[0] == '-') {
		s = s[1:]
	}
	R = int(ToInt32(radix))
	strip := true
	if R != 0 {
		if R < 2 || R > 36 {
			return neg, nil, R
		}
		if R != 16 {
			strip = false
		}
	} else {
		R = 10
	}
	if strip && len(s) >= 2 && s[0] == '0' && (s[1] == 'x' || s[1] == 'X') {
		s = s[2:]
		R = 16
	}
	for _, c := range s {
		d := DigitVal(c)
		if d >= R {
			break
		}
		ds = append(ds, d)
	}
	return neg, ds, R
}

// ParseInt is 15.1.2.2; radix is the already ToNumber-converted second argument
// (NaN for undefined).
func ParseInt(str string, radix float64) IntResult {
	neg, ds, R := ParseIntDigits(str, radix)
	sign := 1.0
	if neg {
		sign = -1
	}
	if len(ds) == 0 {
		return IntResult{Value: math.NaN(), Alt: math.NaN()}
	}
	v := DigitsToFloat(ds, R)
	res := IntResult{Value: sign * v, Alt: sign * v}
	switch R {
	case 10:
		// more than 20 significant digits: the rest may be replaced by zeros
		i := 0
		for i < len(ds) && ds[i] == 0 {
			i++
		}
		if len(ds)-i > 20 {
			alt := append([]int(nil), ds...)
			for j := i + 20; j < len(alt); j++ {
				alt[j] = 0
			}
			res.Alt = sign * DigitsToFloat(alt, 10)
		}
	case 2, 4, 8, 16, 32:
	default:
		if v >= 9007199254740992 {
			res.Loose = true
		}
	}
	return res
}

// LiteralKind classifies a source text against the NumericLiteral grammar.
type LiteralKind int

const (
	LitSkip   LiteralKind = iota // outside this model (not a lone numeric literal)
	LitValue                     // [sign] NumericLiteral, whole input
	LitSyntax                    // a NumericLiteral immediately followed by an IdentifierStart or DecimalDigit (7.8.3)
)

func isIdentStartASCII(r rune) bool {
	return r >= 'a' && r <= 'z' || r >= 'A' && r <= 'Z' || r == '_' || r == '$' || r == '\\'
}

// NumericLiteral models a program consisting of optional white space, at most one
// unary sign, a NumericLiteral (7.8.3: DecimalLiteral or HexIntegerLiteral; the
// Annex B octal forms and "0" followed by a digit are outside the model) and
// optional white space.
func NumericLiteral(src string) (LiteralKind, float64) {
	s := trimWS([]rune(src))
	neg := false
	if len(s) > 0 && (s[0] == '+' || s[0] == '-') {
		neg = s[0] == '-'
		s = s[1:]
	}
	if len(s) == 0 {
		return LitSkip, 0
	}
	if !(isDigit(s[0]) || (s[0] == '.' && len(s) > 1 && isDigit(s[1]))) {
		return LitSkip, 0
	}
	var v float64
	n, ds := scanHexInteger(s)
	if n > 0 {
		v = DigitsToFloat(ds, 16)
	} else {
		if s[0] == '0' && len(s) > 1 && isDigit(s[1]) {
			return LitSkip, 0 // legacy octal / "08": Annex B territory
		}
		var lit decLit
		n, lit = scanUnsignedDecimal(s, false)
		if n == 0 {
			return LitSkip, 0
		}
		v = lit.value()
	}
	if n < len(s) {
		if isIdentStartASCII(s[n]) || isDigit(s[n]) {
			return LitSyntax, 0
		}
		return LitSkip, 0
	}
	if neg {
		v = -v
	}
	return LitValue, v
}
