package num

import (
	"bufio"
	"fmt"
	"math"
	"os"
	"testing"
)

// TestDumpForNode writes model results as tab-separated lines for a development
// time comparison with /usr/bin/node (second opinion only; set NODE_DUMP=<file>).
// The comparison script and the explanation of every ES5 -> ES2015+ difference
// are in /verif/demos/C06.md ("second opinion").
func TestDumpForNode(t *testing.T) {
	path := os.Getenv("NODE_DUMP")
	if path == "" {
		t.Skip("NODE_DUMP not set")
	}
	f, err := os.Create(path)
	if err != nil {
		t.Fatal(err)
	}
	defer f.Close()
	w := bufio.NewWriter(f)
	defer w.Flush()
	xs := testDoubles()
	for i, x := range xs {
		if i%7 != 0 && x != math.Floor(x) {
			continue
		}
		for _, sx := range []float64{x, -x} {
			b := math.Float64bits(sx)
			fmt.Fprintf(w, "S\t%016x\t\t%s\n", b, ToString(sx))
			for _, d := range []int{0, 1, 2, 5, 10, 20} {
				fmt.Fprintf(w, "F\t%016x\t%d\t%s\n", b, d, ToFixed(sx, float64(d)).S)
				fmt.Fprintf(w, "E\t%016x\t%d\t%s\n", b, d, ToExponential(sx, float64(d), false).S)
				fmt.Fprintf(w, "P\t%016x\t%d\t%s\n", b, d+1, ToPrecision(sx, float64(d+1), false).S)
			}
			fmt.Fprintf(w, "E\t%016x\tu\t%s\n", b, ToExponential(sx, 0, true).S)
			if IsIntegral(sx) && math.Abs(sx) < 9007199254740992 {
				for _, r := range []int{2, 7, 16, 36} {
					fmt.Fprintf(w, "R\t%016x\t%d\t%s\n", b, r, RadixString(sx, r))
				}
			}
		}
	}
}
