package num

import (
	"math"
	"math/big"
	"math/rand"
	"strconv"
	"strings"
	"testing"
)

// Development-time cross-checks of the model against strconv and big.Rat
// (second opinions only; the model itself uses neither).

func testDoubles() []float64 {
	rng := rand.New(rand.NewSource(1))
	var out []float64
	for i := 0; i < 200000; i++ {
		x := math.Float64frombits(rng.Uint64())
		if math.IsNaN(x) || math.IsInf(x, 0) || x == 0 {
			continue
		}
		out = append(out, math.Abs(x))
	}
	for k := -324; k <= 308; k++ {
		x, _ := strconv.ParseFloat("1e"+strconv.Itoa(k), 64)
		for d := -2; d <= 2; d++ {
			y := math.Float64frombits(math.Float64bits(x) + uint64(d))
			if y > 0 && !math.IsInf(y, 0) && !math.IsNaN(y) {
				out = append(out, y)
			}
		}
	}
	for k := -1074; k <= 1023; k++ {
		x := math.Ldexp(1, k)
		out = append(out, x, math.Nextafter(x, 0), math.Nextafter(x, math.Inf(1)))
	}
	for i := 1; i < 3000; i++ {
		out = append(out, float64(i), float64(i)/8, float64(i)/1024, float64(i)*1e18)
	}
	var clean []float64
	for _, x := range out {
		if x > 0 && !math.IsInf(x, 0) {
			clean = append(clean, x)
		}
	}
	return clean
}

func TestShortestAgainstStrconv(t *testing.T) {
	bad := 0
	for _, x := range testDoubles() {
		s, n := Shortest(x)
		s2 := strings.TrimRight(string(s), "0")
		g := strconv.FormatFloat(x, 'e', -1, 64)
		i := strings.IndexByte(g, 'e')
		gd := strings.Replace(g[:i], ".", "", 1)
		ge, _ := strconv.Atoi(g[i+1:])
		if gd != s2 || ge+1 != n {
			bad++
			if bad < 10 {
				t.Errorf("x=%v bits=%x: model %s n=%d, strconv %s e=%d", x, math.Float64bits(x), s2, n, gd, ge)
			}
		}
		// round trip through own parser
		if y := StringToNumber(ToString(x)); y != x {
			t.Fatalf("round trip %v -> %s -> %v", x, ToString(x), y)
		}
	}
}

func ratRound(x float64, scale10 int) *big.Int {
	// floor(x*10^scale + 1/2)
	r := new(big.Rat).SetFloat64(x)
	p := new(big.Rat)
	if scale10 >= 0 {
		p.SetInt(new(big.Int).Exp(big.NewInt(10), big.NewInt(int64(scale10)), nil))
	} else {
		p.SetFrac(big.NewInt(1), new(big.Int).Exp(big.NewInt(10), big.NewInt(int64(-scale10)), nil))
	}
	r.Mul(r, p)
	r.Add(r, big.NewRat(1, 2))
	q := new(big.Int).Quo(r.Num(), r.Denom())
	return q
}

func TestToFixedAgainstRat(t *testing.T) {
	for _, x := range testDoubles() {
		if x >= 1e21 || x < 1e-25 {
			continue
		}
		for _, f := range []int{0, 1, 2, 7, 20} {
			got := ToFixed(x, float64(f))
			n := ratRound(x, f).String()
			if f > 0 {
				for len(n) <= f {
					n = "0" + n
				}
				n = n[:len(n)-f] + "." + n[len(n)-f:]
			}
			if got.S != n {
				t.Fatalf("toFixed(%v,%d): model %s rat %s", x, f, got.S, n)
			}
		}
	}
}

func TestToExponentialAgainstStrconv(t *testing.T) {
	// off ties strconv's digits must agree (layout differs: e+05)
	for _, x := range testDoubles() {
		for _, f := range []int{0, 1, 5, 16, 20} {
			got := ToExponentialMode(x, float64(f), false, HalfEven, true)
			g := strconv.FormatFloat(x, 'e', f, 64)
			if got.S != g {
				t.Fatalf("toExponential(%v,%d): model(half-even,pad) %s strconv %s", x, f, got.S, g)
			}
		}
	}
}

func TestDecToFloatAgainstStrconv(t *testing.T) {
	rng := rand.New(rand.NewSource(2))
	for i := 0; i < 300000; i++ {
		nd := 1 + rng.Intn(30)
		b := make([]byte, nd)
		for j := range b {
			b[j] = byte('0' + rng.Intn(10))
		}
		e := rng.Intn(700) - 360
		want, _ := strconv.ParseFloat(string(b)+"e"+strconv.Itoa(e), 64)
		if got := DecToFloat(b, e); got != want && !(math.IsNaN(got) && math.IsNaN(want)) {
			t.Fatalf("%se%d: model %v strconv %v", b, e, got, want)
		}
	}
	// halfway cases: exact midpoints between adjacent doubles, and one digit either side
	for _, x := range testDoubles()[:40000] {
		m, e := Split(x)
		mid := DecOf(new(big.Int).SetUint64(2*m+1), e-1)
		ds := append([]byte(nil), mid.Digits...)
		e10 := mid.Exp - len(ds)
		for _, suffix := range []string{"", "1", "0000000000000000000001"} {
			d2 := append(append([]byte(nil), ds...), suffix...)
			want, _ := strconv.ParseFloat(string(d2)+"e"+strconv.Itoa(e10-len(suffix)), 64)
			if got := DecToFloat(d2, e10-len(suffix)); got != want {
				t.Fatalf("midpoint of %v suffix %q: model %v strconv %v", x, suffix, got, want)
			}
		}
	}
}

func TestLayoutSamples(t *testing.T) {
	cases := map[float64]string{
		1e21: "1e+21", 1e20: "100000000000000000000", 999999999999999900000: "999999999999999900000",
		1e-6: "0.000001", 1e-7: "1e-7", 1.5e-7: "1.5e-7", 123456789012345680000: "123456789012345680000",
		0.1: "0.1", 5e-324: "5e-324", 1.7976931348623157e308: "1.7976931348623157e+308", -1.5: "-1.5", 100: "100", 123.456: "123.456",
	}
	for x, want := range cases {
		if got := ToString(x); got != want {
			t.Errorf("ToString(%v) = %s want %s", x, got, want)
		}
	}
	fx := []struct {
		x    float64
		f    float64
		want string
	}{{0.5, 0, "1"}, {2.5, 0, "3"}, {1.005, 2, "1.00"}, {-0.0001, 2, "-0.00"}, {0, 2, "0.00"}, {1e21, 2, "1e+21"}, {0.000001, 7, "0.0000010"}, {123.456, 1, "123.5"}, {1.45, 1, "1.4"}, {0.25, 1, "0.3"}, {999.5, 0, "1000"}}
	for _, c := range fx {
		if got := ToFixed(c.x, c.f); got.S != c.want {
			t.Errorf("toFixed(%v,%v) = %s want %s", c.x, c.f, got.S, c.want)
		}
	}
	if got := ToExponential(123456, 2, false); got.S != "1.23e+5" {
		t.Error(got)
	}
	if got := ToExponential(0, 2, false); got.S != "0.00e+0" {
		t.Error(got)
	}
	if got := ToExponential(25, 0, false); got.S != "3e+1" {
		t.Error(got)
	}
	if got := ToExponential(123456, 0, true); got.S != "1.23456e+5" {
		t.Error(got)
	}
	if got := ToPrecision(123.456, 4, false); got.S != "123.5" {
		t.Error(got)
	}
	if got := ToPrecision(0.000123, 2, false); got.S != "0.00012" {
		t.Error(got)
	}
	if got := ToPrecision(1e21, 1, false); got.S != "1e+21" {
		t.Error(got)
	}
	if got := ToPrecision(123456, 2, false); got.S != "1.2e+5" {
		t.Error(got)
	}
	if got := ToPrecision(1e-7, 3, false); got.S != "1.00e-7" {
		t.Error(got)
	}
	if got := ToPrecision(0, 3, false); got.S != "0.00" {
		t.Error(got)
	}
	if got := ToPrecision(15, 1, false); got.S != "2e+1" {
		t.Error(got)
	}
	if got := ToPrecision(100, 3, false); got.S != "100" {
		t.Error(got)
	}
	if got := ToPrecision(100, 5, false); got.S != "100.00" {
		t.Error(got)
	}
}

func TestParsers(t *testing.T) {
	nan := math.NaN()
	inf := math.Inf(1)
	num := map[string]float64{
		"": 0, " ": 0, "1": 1, " 1 ": 1, "+1": 1, "-1": -1, "1.": 1, ".1": 0.1, ".": nan, "1e": nan, "1e1": 10, "1e+1": 10, "1.e1": 10,
		".e1": nan, "0x10": 16, "0X1f": 31, "-0x10": nan, "+0x10": nan, "0x": nan, "Infinity": inf, "-Infinity": -inf, "+Infinity": inf,
		"infinity": nan, "Inf": nan, "1_0": nan, "0x1p3": nan, "1e1000": inf, "1e-1000": 0, "010": 10, "0b1": nan, "0o7": nan, "1 2": nan,
		"\ufeff1\u00a0": 1, "\u20281": 1, "1a": nan, "NaN": nan, "1..": nan, "++1": nan, "0x1.8": nan,
	}
	for s, want := range num {
		got := StringToNumber(s)
		if !(got == want || math.IsNaN(got) && math.IsNaN(want)) {
			t.Errorf("Number(%q) = %v want %v", s, got, want)
		}
	}
	if v := StringToNumber("-0"); !(v == 0 && math.Signbit(v)) {
		t.Error("Number(-0)")
	}
	pf := map[string]float64{
		"": nan, "1": 1, "1x": 1, "1e": 1, "1e+": 1, "1e+1x": 10, ".5.": 0.5, "..5": nan, "-.5": -0.5, "- 1": nan, "Infinityx": inf, "-Infinit": nan,
		"0x10": 0, "1_0": 1, "  1": 1, "1e1000": inf, "infinity": nan, "+": nan, "e1": nan, "1.e": 1, "0x1p3": 0,
	}
	for s, want := range pf {
		got := ParseFloat(s)
		if !(got == want || math.IsNaN(got) && math.IsNaN(want)) {
			t.Errorf("parseFloat(%q) = %v want %v", s, got, want)
		}
	}
	type pi struct {
		s string
		r float64
		w float64
	}
	for _, c := range []pi{{"10", nan, 10}, {"10", 2, 2}, {"0x10", nan, 16}, {"0x10", 16, 16}, {"0x10", 10, 0}, {"0x", nan, nan}, {"-0x1f", 0, -31},
		{"z", 36, 35}, {"z", 37, nan}, {"1", 1, nan}, {"12", 4294967306, 12}, {"12", -1, nan}, {"  -12abc", 10, -12}, {"", 10, nan}, {"9", 8, nan}, {"19", 8, 1},
		{"1e3", 10, 1}, {"1.5", 10, 1}, {"+", 10, nan}, {"0x", 16, nan}, {"00x1", 16, 0}} {
		got := ParseInt(c.s, c.r).Value
		if !(got == c.w || math.IsNaN(got) && math.IsNaN(c.w)) {
			t.Errorf("parseInt(%q,%v) = %v want %v", c.s, c.r, got, c.w)
		}
	}
	if v := ParseInt("-0", 10).Value; !(v == 0 && math.Signbit(v)) {
		t.Error("parseInt(-0)")
	}
	type lt struct {
		s string
		k LiteralKind
		v float64
	}
	for _, c := range []lt{{"1", LitValue, 1}, {"-1", LitValue, -1}, {"1.5e3", LitValue, 1500}, {"0x1F", LitValue, 31}, {"1e", LitSyntax, 0}, {"0x", LitSyntax, 0},
		{"1_0", LitSyntax, 0}, {"01", LitSkip, 0}, {"1.", LitValue, 1}, {".5", LitValue, 0.5}, {".", LitSkip, 0}, {"1..", LitSkip, 0}, {"3in", LitSyntax, 0},
		{"0.5", LitValue, 0.5}, {"0e1", LitValue, 0}, {"1.e1", LitValue, 10}, {"0x1g", LitSyntax, 0}, {"1 ", LitValue, 1}, {"0xg", LitSyntax, 0}, {"1e+", LitSyntax, 0}} {
		k, v := NumericLiteral(c.s)
		if k != c.k || (k == LitValue && v != c.v) {
			t.Errorf("literal %q = %v %v want %v %v", c.s, k, v, c.k, c.v)
		}
	}
	if ToInt32(4294967306) != 10 || ToInt32(-1) != -1 || ToInt32(2147483648) != -2147483648 || ToInt32(1e21) != -559939584 {
		t.Error("ToInt32", ToInt32(1e21))
	}
}
