package js

import "fmt"

// CType is the type of a Completion (8.9).
type CType int

const (
	CNormal CType = iota
	CBreak
	CContinue
	CReturn
)

// Completion is the Completion specification type (8.9). Value == nil is
// "empty". Throw completions are Go panics carrying *ThrowSignal.
type Completion struct {
	Type   CType
	Value  Value
	Target string
}

var normalEmpty = Completion{}

func inSet(labels []string, target string) bool {
	if target == "" {
		return true // every iteration/switch statement's label set contains empty
	}
	for _, l := range labels {
		if l == target {
			return true
		}
	}
	return false
}

// evalStmtList is 12.1 StatementList / 14 SourceElements: the value of the
// list is the last non-empty statement value; an abrupt completion carries the
// value accumulated so far.
func (in *Interp) evalStmtList(list []Stmt, c *Ctx) Completion {
	if in.Flags&AltLabelStack != 0 {
		return in.lsList(list, c)
	}
	return in.stmtList(list, c, false)
}

// stmtList implements evalStmtList. Under AltBreakDropsValue a break/continue
// completion leaving the list carries no value unless keep is set (otto
// flattens a loop's block body into the loop, which accumulates the values of
// the statements that completed normally).
func (in *Interp) stmtList(list []Stmt, c *Ctx, keep bool) Completion {
	var v Value
	for _, s := range list {
		r := in.evalStmt(s, c, nil)
		if r.Value != nil {
			v = r.Value
		}
		if r.Type != CNormal {
			if in.Flags&AltBreakDropsValue != 0 && !keep && (r.Type == CBreak || r.Type == CContinue) {
				v = nil
			}
			return Completion{Type: r.Type, Value: v, Target: r.Target}
		}
	}
	return Completion{Type: CNormal, Value: v}
}

// loopBody evaluates the body of an iteration statement.
func (in *Interp) loopBody(body Stmt, c *Ctx) Completion {
	if b, ok := body.(*Block); ok && in.Flags&(AltBreakDropsValue|AltEmptyBlockUndefined) != 0 {
		in.step()
		return in.stmtList(b.Body, c, true)
	}
	return in.evalStmt(body, c, nil)
}

// loopResult applies the common tail of 12.6.1-12.6.4 to the completion of a
// loop body: stop reports that the loop statement completes with out.
func loopResult(stmt Completion, v *Value, labels []string) (stop bool, out Completion) {
	if stmt.Value != nil {
		*v = stmt.Value
	}
	if stmt.Type == CContinue && inSet(labels, stmt.Target) {
		return false, normalEmpty
	}
	if stmt.Type == CBreak && inSet(labels, stmt.Target) {
		return true, Completion{Type: CNormal, Value: *v}
	}
	if stmt.Type != CNormal {
		return true, stmt
	}
	return false, normalEmpty
}

// evalStmt evaluates a statement (12). labels is the statement's label set
// without the implicit empty label (12.12).
func (in *Interp) evalStmt(s Stmt, c *Ctx, labels []string) Completion {
	in.step()
	if in.Trace != nil {
		in.Trace[s] = true
	}
	if in.Flags&AltLabelStack != 0 {
		return in.evalStmtLS(s, c)
	}
	switch s := s.(type) {
	case *Block: // 12.1
		r := in.evalStmtList(s.Body, c)
		if r.Type == CNormal && r.Value == nil && in.Flags&AltEmptyBlockUndefined != 0 {
			r.Value = Undefined
		}
		return r
	case *VarDecl: // 12.2
		in.evalVarDecl(s, c)
		return normalEmpty
	case *Empty: // 12.3
		return normalEmpty
	case *ExprStmt: // 12.4
		return Completion{Type: CNormal, Value: in.GetValue(in.evalExpr(s.X, c))}
	case *If: // 12.5
		if ToBoolean(in.GetValue(in.evalExpr(s.Test, c))) {
			return in.evalStmt(s.Then, c, nil)
		}
		if s.Else != nil {
			return in.evalStmt(s.Else, c, nil)
		}
		return normalEmpty
	case *DoWhile: // 12.6.1
		var v Value
		for {
			stmt := in.loopBody(s.Body, c)
			if stop, out := loopResult(stmt, &v, labels); stop {
				return out
			}
			if !ToBoolean(in.GetValue(in.evalExpr(s.Test, c))) {
				return Completion{Type: CNormal, Value: v}
			}
		}
	case *While: // 12.6.2
		var v Value
		for {
			if !ToBoolean(in.GetValue(in.evalExpr(s.Test, c))) {
				return Completion{Type: CNormal, Value: v}
			}
			stmt := in.loopBody(s.Body, c)
			if stop, out := loopResult(stmt, &v, labels); stop {
				return out
			}
		}
	case *For: // 12.6.3
		switch i := s.Init.(type) {
		case nil:
		case *VarDecl:
			in.evalVarDecl(i, c)
		default:
			in.GetValue(in.evalExpr(i, c))
		}
		var v Value
		for {
			if s.Test != nil {
				if !ToBoolean(in.GetValue(in.evalExpr(s.Test, c))) {
					return Completion{Type: CNormal, Value: v}
				}
			}
			stmt := in.loopBody(s.Body, c)
			if stop, out := loopResult(stmt, &v, labels); stop {
				return out
			}
			if s.Update != nil {
				in.GetValue(in.evalExpr(s.Update, c))
			}
		}
	case *ForIn: // 12.6.4
		if s.Var != "" && s.VarInit != nil && in.Flags&AltForInInitPerIteration == 0 {
			// second production, step 1: the VariableDeclarationNoIn (with its
			// initialiser) is evaluated once, before the object expression
			lhs := GetIdentifierReference(in, c.Lex, s.Var)
			in.PutValue(lhs, in.GetValue(in.evalExpr(s.VarInit, c)))
		}
		ev := in.GetValue(in.evalExpr(s.Obj, c))
		if IsUndef(ev) || IsNull(ev) {
			return normalEmpty
		}
		obj := ToObject(in, ev)
		var v Value
		for _, p := range in.forInKeys(obj) {
			// a property deleted before it is visited is not visited
			if d := obj.getProp(in, p); d == nil || !d.E {
				continue
			}
			var lhs interface{}
			if s.Var != "" {
				lhs = GetIdentifierReference(in, c.Lex, s.Var)
				if s.VarInit != nil && in.Flags&AltForInInitPerIteration != 0 {
					in.PutValue(lhs, in.GetValue(in.evalExpr(s.VarInit, c)))
				}
			} else {
				lhs = in.evalExpr(s.LHS, c)
			}
			in.PutValue(lhs, p)
			stmt := in.loopBody(s.Body, c)
			if stop, out := loopResult(stmt, &v, labels); stop {
				if out.Type == CNormal && in.Flags&AltBreakDropsValue != 0 {
					return normalEmpty // otto: a matched break in for-in discards the loop value
				}
				return out
			}
		}
		return Completion{Type: CNormal, Value: v}
	case *Continue: // 12.7
		return Completion{Type: CContinue, Target: s.Label}
	case *Break: // 12.8
		return Completion{Type: CBreak, Target: s.Label}
	case *Return: // 12.9
		if s.X == nil {
			return Completion{Type: CReturn, Value: Undefined}
		}
		return Completion{Type: CReturn, Value: in.GetValue(in.evalExpr(s.X, c))}
	case *With: // 12.10
		obj := ToObject(in, in.GetValue(in.evalExpr(s.Obj, c)))
		env := NewObjEnv(obj, c.Lex)
		env.provideThis = true
		return in.evalStmt(s.Body, &Ctx{Lex: env, Var: c.Var, This: c.This}, nil)
	case *Switch: // 12.11
		input := in.GetValue(in.evalExpr(s.Disc, c))
		r := in.evalCaseBlock(s, input, c)
		if r.Type == CBreak && inSet(labels, r.Target) {
			if in.Flags&AltBreakDropsValue != 0 {
				return normalEmpty
			}
			return Completion{Type: CNormal, Value: r.Value}
		}
		return r
	case *Labelled: // 12.12
		r := in.evalStmt(s.Body, c, append(append([]string(nil), labels...), s.Label))
		if r.Type == CBreak && r.Target == s.Label {
			if in.Flags&AltBreakDropsValue != 0 {
				return normalEmpty
			}
			return Completion{Type: CNormal, Value: r.Value}
		}
		return r
	case *Throw: // 12.13
		panic(&ThrowSignal{V: in.GetValue(in.evalExpr(s.X, c))})
	case *Try: // 12.14
		return in.evalTry(s, c)
	case *FuncDecl: // 14: (normal, empty, empty)
		return normalEmpty
	}
	panic(fmt.Sprintf("model: unknown statement %T", s))
}

// evalVarDecl is 12.2: the identifier is resolved before the initialiser is
// evaluated.
func (in *Interp) evalVarDecl(s *VarDecl, c *Ctx) {
	for _, d := range s.Decls {
		if d.Init == nil {
			continue
		}
		lhs := GetIdentifierReference(in, c.Lex, d.Name)
		v := in.GetValue(in.evalExpr(d.Init, c))
		in.PutValue(lhs, v)
	}
}

// evalCaseBlock is 12.11 CaseBlock evaluation (both productions). The default
// clause, when no case matches, is followed by all clauses after it (the
// reading every implementation and ES2015 13.12.9 take of the loop in step 8).
func (in *Interp) evalCaseBlock(s *Switch, input Value, c *Ctx) Completion {
	start := -1
	def := -1
	for i, cl := range s.Clauses {
		if cl.Default {
			def = i
			continue
		}
		sel := in.GetValue(in.evalExpr(cl.Test, c))
		if StrictEquals(input, sel) {
			start = i
			break
		}
	}
	if start < 0 {
		start = def
	}
	var v Value
	if start < 0 {
		return normalEmpty
	}
	for _, cl := range s.Clauses[start:] {
		if len(cl.Body) == 0 {
			continue
		}
		r := in.evalStmtList(cl.Body, c)
		if r.Value != nil {
			v = r.Value
		}
		if r.Type != CNormal {
			if in.Flags&AltBreakDropsValue != 0 && (r.Type == CBreak || r.Type == CContinue) {
				v = nil
			}
			return Completion{Type: r.Type, Value: v, Target: r.Target}
		}
	}
	return Completion{Type: CNormal, Value: v}
}

// protect runs f and converts an ECMAScript exception into (thrown, value).
func (in *Interp) protect(f func() Completion) (comp Completion, thrown bool, exc Value) {
	depth := in.depth
	pending := in.pending
	defer func() {
		if r := recover(); r != nil {
			if t, ok := r.(*ThrowSignal); ok {
				thrown, exc = true, t.V
				in.depth = depth
				in.pending = pending
				return
			}
			panic(r)
		}
	}()
	comp = f()
	return
}

// evalTry is 12.14.
func (in *Interp) evalTry(s *Try, c *Ctx) Completion {
	b, thrown, exc := in.protect(func() Completion { return in.evalStmt(s.Body, c, nil) })
	cc := b
	var ranCatch *Ctx
	if thrown && s.Catch != nil {
		// production Catch: catch (Identifier) Block
		catchEnv := NewDeclEnv(c.Lex)
		catchEnv.CreateMutableBinding(in, s.Param, false)
		catchEnv.SetMutableBinding(in, s.Param, exc, false)
		cctx := &Ctx{Lex: catchEnv, Var: c.Var, This: c.This}
		ranCatch = cctx
		cc, thrown, exc = in.protect(func() Completion { return in.evalStmt(s.Catch, cctx, nil) })
	}
	if s.Finally != nil {
		fctx := c
		if ranCatch != nil && in.Flags&AltFinallyInCatchEnv != 0 {
			fctx = ranCatch
		}
		f := in.evalStmt(s.Finally, fctx, nil)
		if f.Type != CNormal {
			return f
		}
	}
	if thrown {
		panic(&ThrowSignal{V: exc})
	}
	return cc
}
