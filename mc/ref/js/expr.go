package js

import (
	"fmt"
	"math"
	"strings"
)

// evalExpr evaluates an expression (11) and returns a Value or a *Ref.
func (in *Interp) evalExpr(e Expr, c *Ctx) interface{} {
	in.step()
	switch e := e.(type) {
	case *Num:
		return e.V
	case *Str:
		return e.V
	case *Bool:
		return e.V
	case *NullLit:
		return Null
	case *This: // 11.1.1
		return c.This
	case *Ident: // 11.1.2, 10.3.1
		return GetIdentifierReference(in, c.Lex, e.Name)
	case *ArrayLit: // 11.1.4
		vals := make([]Value, len(e.Elems))
		for i, x := range e.Elems {
			vals[i] = in.GetValue(in.evalExpr(x, c))
		}
		return in.NewArray(vals)
	case *ObjectLit: // 11.1.5
		o := newObj("Object", in.ObjectProto)
		for _, p := range e.Props {
			switch p.Kind {
			case "value":
				v := in.GetValue(in.evalExpr(p.Val, c))
				o.DefineOwn(in, p.Key, dataDesc(v, true, true, true), false)
			case "get":
				f := in.makeFunction(p.Val.(*FuncLit), c.Lex)
				o.DefineOwn(in, p.Key, &Desc{Get: f, HasGet: true, E: true, HasE: true, C: true, HasC: true}, false)
			case "set":
				f := in.makeFunction(p.Val.(*FuncLit), c.Lex)
				o.DefineOwn(in, p.Key, &Desc{Set: f, HasSet: true, E: true, HasE: true, C: true, HasC: true}, false)
			}
		}
		return o
	case *FuncLit: // 13 FunctionExpression
		if e.Name == "" {
			return in.makeFunction(e, c.Lex)
		}
		funcEnv := NewDeclEnv(c.Lex)
		funcEnv.CreateImmutableBinding(e.Name)
		closure := in.makeFunction(e, funcEnv)
		funcEnv.InitializeImmutableBinding(e.Name, closure)
		return closure
	case *Member: // 11.2.1
		baseValue := in.GetValue(in.evalExpr(e.Obj, c))
		var name string
		if e.Dot != "" {
			CheckObjectCoercible(in, baseValue)
			name = e.Dot
		} else {
			pv := in.GetValue(in.evalExpr(e.Prop, c))
			CheckObjectCoercible(in, baseValue)
			name = ToString(in, pv)
		}
		return &Ref{Base: baseValue, Name: name}
	case *New: // 11.2.2
		ref := in.evalExpr(e.Callee, c)
		var cons Value
		if in.Flags&AltCalleeLate == 0 {
			cons = in.GetValue(ref)
		}
		args := in.evalArgs(e.Args, c)
		if in.Flags&AltCalleeLate != 0 {
			cons = in.GetValue(ref)
		}
		co, ok := cons.(*Obj)
		if !ok || !co.hasConstruct() {
			in.ThrowError("TypeError", "not a constructor")
		}
		return in.Construct(co, args)
	case *Call: // 11.2.3
		r := in.evalCall(e, c)
		if v, ok := r.(Value); ok && isEscaped(v) {
			panic(PoisonSignal{})
		}
		return r
	case *Postfix: // 11.3
		lhs := in.evalExpr(e.X, c)
		old := ToNumber(in, in.GetValue(lhs))
		nv := old + 1
		if e.Op == "--" {
			nv = old - 1
		}
		in.PutValue(lhs, nv)
		return old
	case *Unary:
		return in.evalUnary(e, c)
	case *Binary:
		return in.evalBinary(e, c)
	case *Assign:
		return in.evalAssign(e, c)
	case *Cond: // 11.12
		if ToBoolean(in.GetValue(in.evalExpr(e.C, c))) {
			r := in.evalExpr(e.A, c)
			if in.Flags&AltCondRef != 0 {
				return r
			}
			return in.GetValue(r)
		}
		r := in.evalExpr(e.B, c)
		if in.Flags&AltCondRef != 0 {
			return r
		}
		return in.GetValue(r)
	case *Seq: // 11.14
		var v Value = Undefined
		for _, x := range e.List {
			v = in.GetValue(in.evalExpr(x, c))
		}
		return v
	}
	panic(fmt.Sprintf("model: unknown expression %T", e))
}

func (in *Interp) evalArgs(args []Expr, c *Ctx) []Value { // 11.2.4
	out := make([]Value, len(args))
	for i, a := range args {
		out[i] = in.GetValue(in.evalExpr(a, c))
	}
	return out
}

// evalCall is 11.2.3 including the direct-eval test of 15.1.2.1.1.
func (in *Interp) evalCall(e *Call, c *Ctx) interface{} {
	ref := in.evalExpr(e.Callee, c)
	var fv Value
	if in.Flags&AltCalleeLate == 0 {
		fv = in.GetValue(ref)
	}
	args := in.evalArgs(e.Args, c)
	if in.Flags&AltCalleeLate != 0 {
		fv = in.GetValue(ref)
	}
	f, ok := fv.(*Obj)
	if !ok || !f.Callable() {
		in.ThrowError("TypeError", "not a function")
	}
	var this Value = Undefined
	if r, isRef := ref.(*Ref); isRef {
		if env, isEnv := r.envBase(); isEnv {
			this = env.ImplicitThisValue()
			if r.Name == "eval" && f == in.EvalFn {
				in.step()
				return in.performEval(args, c) // direct call to eval
			}
		} else {
			this = r.Base // property reference (unresolvable refs threw in GetValue)
		}
	}
	return in.CallFn(f, this, args)
}

func (in *Interp) evalUnary(e *Unary, c *Ctx) interface{} {
	switch e.Op {
	case "delete": // 11.4.1
		x := in.evalExpr(e.X, c)
		r, ok := x.(*Ref)
		if !ok {
			return true
		}
		if r.unresolvable() {
			return true
		}
		if env, isEnv := r.envBase(); isEnv {
			return env.DeleteBinding(in, r.Name)
		}
		return ToObject(in, r.Base).Delete(in, r.Name, false)
	case "void": // 11.4.2
		in.GetValue(in.evalExpr(e.X, c))
		return Undefined
	case "typeof": // 11.4.3
		x := in.evalExpr(e.X, c)
		if r, ok := x.(*Ref); ok && r.unresolvable() {
			return "undefined"
		}
		return TypeOf(in.GetValue(x))
	case "++", "--": // 11.4.4, 11.4.5
		x := in.evalExpr(e.X, c)
		old := ToNumber(in, in.GetValue(x))
		nv := old + 1
		if e.Op == "--" {
			nv = old - 1
		}
		in.PutValue(x, nv)
		return nv
	case "+": // 11.4.6
		return ToNumber(in, in.GetValue(in.evalExpr(e.X, c)))
	case "-": // 11.4.7
		return -ToNumber(in, in.GetValue(in.evalExpr(e.X, c)))
	case "~": // 11.4.8
		return float64(^ToInt32(in, in.GetValue(in.evalExpr(e.X, c))))
	case "!": // 11.4.9
		return !ToBoolean(in.GetValue(in.evalExpr(e.X, c)))
	}
	panic("model: unknown unary operator " + e.Op)
}

func (in *Interp) evalBinary(e *Binary, c *Ctx) interface{} {
	switch e.Op {
	case "&&": // 11.11
		lv := in.GetValue(in.evalExpr(e.L, c))
		if !ToBoolean(lv) {
			return lv
		}
		return in.GetValue(in.evalExpr(e.R, c))
	case "||":
		lv := in.GetValue(in.evalExpr(e.L, c))
		if ToBoolean(lv) {
			return lv
		}
		return in.GetValue(in.evalExpr(e.R, c))
	}
	lv := in.GetValue(in.evalExpr(e.L, c))
	rref := in.evalExpr(e.R, c)
	if e.Op == "+" && in.Flags&AltAddLeftEarly != 0 {
		lp := ToPrimitive(in, lv, "")
		rv := in.GetValue(rref)
		return in.addPrims(lp, ToPrimitive(in, rv, ""))
	}
	rv := in.GetValue(rref)
	return in.binaryOp(e.Op, lv, rv)
}

func (in *Interp) addPrims(lp, rp Value) Value { // 11.6.1 steps 7-8
	_, ls := lp.(string)
	_, rs := rp.(string)
	if ls || rs {
		return ToString(in, lp) + ToString(in, rp)
	}
	return ToNumber(in, lp) + ToNumber(in, rp)
}

// binaryOp applies a binary operator to two values (11.5-11.10).
func (in *Interp) binaryOp(op string, lv, rv Value) Value {
	switch op {
	case "+": // 11.6.1
		lp := ToPrimitive(in, lv, "")
		rp := ToPrimitive(in, rv, "")
		return in.addPrims(lp, rp)
	case "-": // 11.6.2
		l := ToNumber(in, lv)
		return l - ToNumber(in, rv)
	case "*": // 11.5
		l := ToNumber(in, lv)
		return l * ToNumber(in, rv)
	case "/":
		l := ToNumber(in, lv)
		return l / ToNumber(in, rv)
	case "%":
		l := ToNumber(in, lv)
		return math.Mod(l, ToNumber(in, rv))
	case "<<": // 11.7
		l := ToInt32(in, lv)
		return float64(l << (ToUint32(in, rv) & 31))
	case ">>":
		l := ToInt32(in, lv)
		return float64(l >> (ToUint32(in, rv) & 31))
	case ">>>":
		l := ToUint32(in, lv)
		return float64(l >> (ToUint32(in, rv) & 31))
	case "&": // 11.10
		l := ToInt32(in, lv)
		return float64(l & ToInt32(in, rv))
	case "|":
		l := ToInt32(in, lv)
		return float64(l | ToInt32(in, rv))
	case "^":
		l := ToInt32(in, lv)
		return float64(l ^ ToInt32(in, rv))
	case "<": // 11.8.1
		r := in.lessThan(lv, rv, true)
		return r == 1
	case ">": // 11.8.2
		r := in.lessThan(rv, lv, false)
		return r == 1
	case "<=": // 11.8.3
		r := in.lessThan(rv, lv, false)
		return r == 0
	case ">=": // 11.8.4
		r := in.lessThan(lv, rv, true)
		return r == 0
	case "instanceof": // 11.8.6
		ro, ok := rv.(*Obj)
		if !ok || !ro.Callable() {
			in.ThrowError("TypeError", "right-hand side of instanceof is not callable")
		}
		return in.HasInstance(ro, lv)
	case "in": // 11.8.7
		ro, ok := rv.(*Obj)
		if !ok {
			in.ThrowError("TypeError", "right-hand side of in is not an object")
		}
		return ro.HasProperty(in, ToString(in, lv))
	case "==": // 11.9.1
		return in.looseEquals(lv, rv)
	case "!=":
		return !in.looseEquals(lv, rv)
	case "===": // 11.9.4
		return StrictEquals(lv, rv)
	case "!==":
		return !StrictEquals(lv, rv)
	}
	panic("model: unknown binary operator " + op)
}

// lessThan is the Abstract Relational Comparison x < y (11.8.5):
// 1 true, 0 false, -1 undefined.
func (in *Interp) lessThan(x, y Value, leftFirst bool) int {
	var px, py Value
	if leftFirst {
		px = ToPrimitive(in, x, "Number")
		py = ToPrimitive(in, y, "Number")
	} else {
		py = ToPrimitive(in, y, "Number")
		px = ToPrimitive(in, x, "Number")
	}
	sx, okx := px.(string)
	sy, oky := py.(string)
	if okx && oky {
		if strings.HasPrefix(sx, sy) {
			return 0
		}
		if strings.HasPrefix(sy, sx) {
			return 1
		}
		if sx < sy {
			return 1
		}
		return 0
	}
	nx := ToNumber(in, px)
	ny := ToNumber(in, py)
	if math.IsNaN(nx) || math.IsNaN(ny) {
		return -1
	}
	if nx < ny {
		return 1
	}
	return 0
}

// StrictEquals is 11.9.6.
func StrictEquals(x, y Value) bool {
	switch a := x.(type) {
	case undefT:
		return IsUndef(y)
	case nullT:
		return IsNull(y)
	case float64:
		b, ok := y.(float64)
		return ok && a == b
	case string:
		b, ok := y.(string)
		return ok && a == b
	case bool:
		b, ok := y.(bool)
		return ok && a == b
	case *Obj:
		b, ok := y.(*Obj)
		return ok && a == b
	}
	return false
}

func typeTag(v Value) int {
	switch v.(type) {
	case undefT:
		return 0
	case nullT:
		return 1
	case bool:
		return 2
	case float64:
		return 3
	case string:
		return 4
	}
	return 5
}

// looseEquals is 11.9.3.
func (in *Interp) looseEquals(x, y Value) bool {
	tx, ty := typeTag(x), typeTag(y)
	if tx == ty {
		return StrictEquals(x, y)
	}
	switch {
	case tx <= 1 && ty <= 1:
		return true
	case tx == 3 && ty == 4:
		return in.looseEquals(x, ToNumber(in, y))
	case tx == 4 && ty == 3:
		return in.looseEquals(ToNumber(in, x), y)
	case tx == 2:
		return in.looseEquals(ToNumber(in, x), y)
	case ty == 2:
		return in.looseEquals(x, ToNumber(in, y))
	case (tx == 3 || tx == 4) && ty == 5:
		return in.looseEquals(x, ToPrimitive(in, y, ""))
	case tx == 5 && (ty == 3 || ty == 4):
		return in.looseEquals(ToPrimitive(in, x, ""), y)
	}
	return false
}

func (in *Interp) evalAssign(e *Assign, c *Ctx) interface{} {
	lref := in.evalExpr(e.L, c)
	if e.Op == "=" { // 11.13.1
		rv := in.GetValue(in.evalExpr(e.R, c))
		in.PutValue(lref, rv)
		return rv
	}
	// 11.13.2
	op := strings.TrimSuffix(e.Op, "=")
	if in.Flags&AltCompoundLate != 0 {
		rv := in.GetValue(in.evalExpr(e.R, c))
		lv := in.GetValue(lref)
		r := in.binaryOp(op, lv, rv)
		in.PutValue(lref, r)
		return r
	}
	lv := in.GetValue(lref)
	rv := in.GetValue(in.evalExpr(e.R, c))
	r := in.binaryOp(op, lv, rv)
	in.PutValue(lref, r)
	return r
}
