package js

import (
	"fmt"
	"strconv"
	"strings"
)

// Flags select ALTERNATIVE MODELS: each bit replaces one ES5 rule by the exact
// behaviour of a known otto defect, so that a known-finding signature can
// require "observed == prediction of the model with exactly this deviation".
// The zero value is ES5.1.
type Flags uint32

const (
	// 11.13.2: GetValue(lref) is performed after the right operand has been
	// evaluated and its value taken.
	AltCompoundLate Flags = 1 << iota
	// 11.6.1: ToPrimitive(lval) is performed before GetValue(rref).
	AltAddLeftEarly
	// 12.1/12.11/12.12: a block or switch that is the target of a matched break
	// completes with empty instead of the accumulated value.
	AltBreakDropsValue
	// 12.12: labels are kept on a pending stack that only blocks, loops and
	// switch statements consume (otto's rt.labels mechanism).
	AltLabelStack
	// 13: the binding of a named function expression is mutable.
	AltNFEMutable
	// 10.5 / 10.4.2: bindings instantiated by eval code are not deletable.
	AltEvalNotDeletable
	// 11.2.3 / 11.2.2: GetValue(ref) of the callee is performed after the
	// argument list has been evaluated.
	AltCalleeLate
	// 11.12: the conditional operator returns the Reference of the chosen
	// operand instead of its value.
	AltCondRef
	// 15.3.4.5: a bound function has an own "prototype" object and the ordinary
	// [[HasInstance]] (15.3.5.3) on it instead of delegating to its target.
	AltBoundOwnPrototype
	// 10.6 [[DefineOwnProperty]]: steps 5.a and 5.b.ii are skipped - a mapped
	// index stays mapped when it is redefined as an accessor or as non-writable.
	AltArgsDefineKeepsMap
	// 12.1: a block whose statement list produces no value completes with the
	// value undefined instead of empty.
	AltEmptyBlockUndefined
	// 12.14: when the catch block ran, the finally block is evaluated with the
	// catch clause's environment still on the scope chain.
	AltFinallyInCatchEnv
	// 13 / 10.5 step 5.b: a FunctionDeclaration is instantiated like a named
	// function expression: its own name is an immutable binding in a fresh
	// environment between the function and the variable environment.
	AltFunDeclSelfBinding
	// 10.6 step 11.c: every index below the number of formals is mapped, also
	// the earlier occurrences of a duplicated parameter name.
	AltArgsMapDuplicates
	// 12.6.4 (for (var x = init in o)): the initialiser is evaluated whenever
	// the loop target is evaluated (each iteration), not once before the loop.
	AltForInInitPerIteration
	// 15.3.4.3-5: call / apply / bind replace an undefined thisArg by the global
	// object whatever the callee is (for built-in callees too).
	AltCallUndefinedThisGlobal
	// 15.3.4.5.1: the argument list of a call of a bound function is built by
	// appending the call arguments to the bound-arguments slice IN PLACE when its
	// spare capacity suffices (the capacity left by the append-grown argument
	// list of the bind call: next power of two >= 1 + number of bound arguments,
	// minus one), so all calls of one bound function share that memory and a
	// re-entrant call overwrites the outer call's arguments.
	AltBoundCallSharesArguments
	nAltFlags = iota
)

// AltNames names the alternative-model switches (index = bit number).
var AltNames = []string{
	"compound-assign-reads-lhs-late",
	"add-toprimitive-left-before-getvalue-right",
	"matched-break-drops-completion-value",
	"label-pending-stack",
	"named-function-expression-binding-mutable",
	"eval-declared-bindings-not-deletable",
	"callee-getvalue-after-arguments",
	"conditional-returns-reference",
	"bound-function-own-prototype-hasinstance",
	"arguments-defineproperty-keeps-parameter-map",
	"valueless-block-completes-with-undefined",
	"finally-runs-in-catch-environment",
	"function-declaration-self-binding",
	"arguments-maps-duplicate-parameters",
	"forin-var-initialiser-per-iteration",
	"call-apply-bind-undefined-this-becomes-global",
	"bound-call-shares-argument-memory",
}

// NAlt is the number of alternative-model switches.
const NAlt = int(nAltFlags)

// Ctx is an execution context (10.3).
type Ctx struct {
	Lex, Var Env
	This     Value
}

// ThrowSignal is the Go panic that carries an ECMAScript exception.
type ThrowSignal struct{ V Value }

// BudgetSignal is the Go panic raised when the step budget is exhausted.
type BudgetSignal struct{}

// Unsupported is the Go panic raised when a program leaves the modelled subset.
type Unsupported struct{ What string }

// Interp is one realm plus the observation log.
type Interp struct {
	Global    *Obj
	GlobalEnv *ObjEnv

	ObjectProto, FunctionProto, ArrayProto, StringProto, NumberProto, BooleanProto, ErrorProto *Obj
	errProtos                                                                                  map[string]*Obj
	EvalFn                                                                                     *Obj

	Flags    Flags
	Log      []string
	Steps    int
	MaxSteps int
	depth    int
	ticks    float64

	evals     map[string][]Stmt
	evalProgs map[string]*Program

	// AltLabelStack state (otto's rt.labels)
	pending []string

	// Trace, when non-nil, records every statement node that was evaluated.
	Trace map[Stmt]bool
}

func (in *Interp) step() {
	in.Steps++
	if in.Steps > in.MaxSteps {
		panic(BudgetSignal{})
	}
}

// ThrowError throws a new native error object of the given class.
func (in *Interp) ThrowError(class, msg string) {
	panic(&ThrowSignal{V: in.newError(class, msg)})
}

func (in *Interp) newError(class, msg string) *Obj {
	proto := in.errProtos[class]
	if proto == nil {
		panic("model: unknown error class " + class)
	}
	o := newObj("Error", proto)
	if msg != "" {
		o.setSlot("message", &Prop{Value: msg, W: true, E: false, C: true})
	}
	return o
}

func unsupported(format string, a ...interface{}) {
	panic(Unsupported{What: fmt.Sprintf(format, a...)})
}

// ---- function objects

func (in *Interp) native(name string, length int, fn NativeFn) *Obj {
	f := newObj("Function", in.FunctionProto)
	f.Native = fn
	f.Name = name
	f.setSlot("length", &Prop{Value: float64(length)})
	return f
}

func (in *Interp) method(o *Obj, name string, length int, fn NativeFn) *Obj {
	f := in.native(name, length, fn)
	o.setSlot(name, &Prop{Value: f, W: true, E: false, C: true})
	return f
}

// makeFunction is 13.2 Creating Function Objects.
func (in *Interp) makeFunction(fn *FuncLit, scope Env) *Obj {
	f := newObj("Function", in.FunctionProto)
	f.Fn = fn
	f.Scope = scope
	f.Name = fn.Name
	f.setSlot("length", &Prop{Value: float64(len(fn.Params))})
	proto := newObj("Object", in.ObjectProto)
	proto.setSlot("constructor", &Prop{Value: f, W: true, E: false, C: true})
	f.setSlot("prototype", &Prop{Value: proto, W: true, E: false, C: false})
	return f
}

// CallFn is [[Call]]: 13.2.1 for function objects, 15.3.4.5.1 for bound
// functions, the native behaviour for built-ins.
func (in *Interp) CallFn(f *Obj, this Value, args []Value) Value {
	in.step()
	in.depth++
	if in.depth > 150 {
		panic(BudgetSignal{})
	}
	defer func() { in.depth-- }()
	switch {
	case f.IsBound:
		if in.Flags&AltBoundCallSharesArguments != 0 {
			// deliberately the aliasing append of the implementation under test
			all := append(f.BoundArgs, args...) //nolint:gocritic
			return in.CallFn(f.BoundTarget, f.BoundThis, all)
		}
		all := append(append([]Value(nil), f.BoundArgs...), args...)
		return in.CallFn(f.BoundTarget, f.BoundThis, all)
	case f.Native != nil:
		return f.Native(in, this, args)
	case f.Fn != nil:
		return in.callFunction(f, this, args)
	}
	in.ThrowError("TypeError", "not a function")
	return nil
}

// callFunction is 13.2.1 with 10.4.3 Entering Function Code.
func (in *Interp) callFunction(f *Obj, this Value, args []Value) Value {
	var thisBinding Value
	switch {
	case IsUndef(this) || IsNull(this):
		thisBinding = in.Global
	default:
		if _, ok := this.(*Obj); ok {
			thisBinding = this
		} else {
			thisBinding = ToObject(in, this)
		}
	}
	local := NewDeclEnv(f.Scope)
	c := &Ctx{Lex: local, Var: local, This: thisBinding}
	vars, funcs := f.Fn.decls()
	in.bindDeclarations(c, vars, funcs, f, args, false)
	if in.Flags&AltLabelStack != 0 {
		in.pending = nil // otto: the body block consumes whatever labels are pending at the call
	}
	res := in.evalStmtList(f.Fn.Body, c)
	switch res.Type {
	case CReturn:
		return res.Value
	case CNormal:
		return Undefined
	}
	if in.Flags&AltLabelStack != 0 {
		// otto: an unconsumed break/continue result leaves the function like a
		// return of the value it carries (none unless completions carry values)
		if res.Value != nil && !in.dropOnBreak() {
			return res.Value
		}
		return in.escapedResultValue()
	}
	panic("model: break/continue completion escaped a function body")
}

// Construct is [[Construct]]: 13.2.2, 15.3.4.5.2, or the native constructor.
func (in *Interp) Construct(f *Obj, args []Value) Value {
	in.step()
	switch {
	case f.IsBound:
		if !f.BoundTarget.hasConstruct() {
			in.ThrowError("TypeError", "bound target is not a constructor")
		}
		all := append(append([]Value(nil), f.BoundArgs...), args...)
		return in.Construct(f.BoundTarget, all)
	case f.Fn != nil:
		obj := newObj("Object", nil)
		proto := f.Get(in, "prototype")
		if po, ok := proto.(*Obj); ok {
			obj.Proto = po
		} else {
			obj.Proto = in.ObjectProto
		}
		r := in.CallFn(f, obj, args)
		if ro, ok := r.(*Obj); ok {
			return ro
		}
		return obj
	case f.NativeCons != nil:
		return f.NativeCons(in, args)
	}
	in.ThrowError("TypeError", "not a constructor")
	return nil
}

// HasInstance is [[HasInstance]]: 15.3.5.3 and 15.3.4.5.3.
func (in *Interp) HasInstance(f *Obj, v Value) bool {
	if f.IsBound && in.Flags&AltBoundOwnPrototype == 0 {
		return in.HasInstance(f.BoundTarget, v)
	}
	vo, ok := v.(*Obj)
	if !ok {
		return false
	}
	o, ok := f.Get(in, "prototype").(*Obj)
	if !ok {
		in.ThrowError("TypeError", "prototype is not an object")
	}
	for {
		vo = vo.Proto
		if vo == nil {
			return false
		}
		if vo == o {
			return true
		}
	}
}

// bindDeclarations is 10.5 Declaration Binding Instantiation. f/args are set
// for function code; evalCode selects configurableBindings.
func (in *Interp) bindDeclarations(c *Ctx, vars []string, funcs []*FuncLit, f *Obj, args []Value, evalCode bool) {
	env := c.Var
	configurable := evalCode
	if evalCode && in.Flags&AltEvalNotDeletable != 0 {
		configurable = false
	}
	if f != nil {
		// step 4
		for i, name := range f.Fn.Params {
			var v Value = Undefined
			if i < len(args) {
				v = args[i]
			}
			if !env.HasBinding(in, name) {
				env.CreateMutableBinding(in, name, false)
			}
			env.SetMutableBinding(in, name, v, false)
		}
	}
	// step 5
	for _, fd := range funcs {
		var scope Env = c.Var
		var selfEnv *DeclEnv
		if in.Flags&AltFunDeclSelfBinding != 0 {
			selfEnv = NewDeclEnv(c.Lex)
			selfEnv.CreateImmutableBinding(fd.Name)
			scope = selfEnv
		}
		fo := in.makeFunction(fd, scope)
		if selfEnv != nil {
			selfEnv.InitializeImmutableBinding(fd.Name, fo)
		}
		if !env.HasBinding(in, fd.Name) {
			env.CreateMutableBinding(in, fd.Name, configurable)
		} else if evalCode && in.Flags&AltEvalNotDeletable != 0 {
			// otto never performs step 5.e: an existing binding keeps its attributes
		} else if oe, ok := env.(*ObjEnv); ok && oe == in.GlobalEnv {
			existing := in.Global.getProp(in, fd.Name)
			if existing.C {
				in.Global.DefineOwn(in, fd.Name, dataDesc(Undefined, true, true, configurable), true)
			} else if existing.IsAcc || !(existing.W && existing.E) {
				in.ThrowError("TypeError", "cannot redeclare "+fd.Name)
			}
		}
		env.SetMutableBinding(in, fd.Name, fo, false)
	}
	// steps 6-7
	if f != nil && !env.HasBinding(in, "arguments") {
		ao := in.createArguments(f, f.Fn.Params, args, env.(*DeclEnv))
		env.CreateMutableBinding(in, "arguments", false)
		env.SetMutableBinding(in, "arguments", ao, false)
	}
	// step 8
	for _, dn := range vars {
		if !env.HasBinding(in, dn) {
			env.CreateMutableBinding(in, dn, configurable)
			env.SetMutableBinding(in, dn, Undefined, false)
		}
	}
}

// createArguments is 10.6 CreateArgumentsObject (non-strict).
func (in *Interp) createArguments(f *Obj, names []string, args []Value, env *DeclEnv) *Obj {
	o := newObj("Arguments", in.ObjectProto)
	o.setSlot("length", &Prop{Value: float64(len(args)), W: true, E: false, C: true})
	m := map[string]string{}
	mapped := map[string]bool{}
	for i := len(args) - 1; i >= 0; i-- {
		k := strconv.Itoa(i)
		o.setSlot(k, &Prop{Value: args[i], W: true, E: true, C: true})
		if i < len(names) {
			name := names[i]
			if !mapped[name] || in.Flags&AltArgsMapDuplicates != 0 {
				mapped[name] = true
				m[k] = name
			}
		}
	}
	if len(m) > 0 {
		o.ArgMap = m
		o.ArgEnv = env
	}
	o.setSlot("callee", &Prop{Value: f, W: true, E: false, C: true})
	return o
}

// performEval is 15.1.2.1 with 10.4.2. caller is the calling context for a
// direct call, nil for an indirect call.
func (in *Interp) performEval(args []Value, caller *Ctx) Value {
	var x Value = Undefined
	if len(args) > 0 {
		x = args[0]
	}
	src, ok := x.(string)
	if !ok {
		return x
	}
	prog := in.evalProgs[src]
	if prog == nil {
		body, ok := in.evals[src]
		if !ok {
			unsupported("eval of unregistered source %q", src)
		}
		prog = &Program{Body: body}
		in.evalProgs[src] = prog
	}
	var c *Ctx
	if caller != nil {
		c = &Ctx{Lex: caller.Lex, Var: caller.Var, This: caller.This}
	} else {
		c = &Ctx{Lex: in.GlobalEnv, Var: in.GlobalEnv, This: in.Global}
	}
	vars, funcs := prog.decls()
	in.bindDeclarations(c, vars, funcs, nil, nil, true)
	res := in.evalStmtList(prog.Body, c)
	if res.Type != CNormal {
		if in.Flags&AltLabelStack != 0 {
			return in.escapedResultValue()
		}
		panic("model: abrupt non-throw completion of eval code")
	}
	if res.Value == nil {
		return Undefined
	}
	return res.Value
}

// Result is the observable behaviour of one program execution.
type Result struct {
	Log        []string
	Completion string // canonical completion value
	Exc        string // "" or the class of the uncaught exception
	Budget     bool   // step budget exhausted (case is discarded)
	Poison     bool   // alternative model only: no prediction (see PoisonSignal)
	Steps      int
}

// String renders the result the way the check renders observations.
func (r Result) String() string {
	return "log=[" + strings.Join(r.Log, " | ") + "] value=" + r.Completion + " exc=" + r.Exc
}

// Run evaluates a program on a fresh realm. evalMode evaluates it as eval code
// in the global context (10.4.2, indirect): declaration bindings are
// configurable; otherwise as global code (10.4.1).
func Run(p *Program, evalMode bool, flags Flags, maxSteps int) (res Result) {
	return RunTraced(p, evalMode, flags, maxSteps, nil)
}

// RunTraced is Run recording the evaluated statement nodes in trace.
func RunTraced(p *Program, evalMode bool, flags Flags, maxSteps int, trace map[Stmt]bool) (res Result) {
	in := NewInterp()
	in.Trace = trace
	in.Flags = flags
	in.MaxSteps = maxSteps
	in.evals = p.Evals
	defer func() {
		res.Steps = in.Steps
		res.Log = in.Log
		if r := recover(); r != nil {
			switch s := r.(type) {
			case *ThrowSignal:
				res.Completion = "u"
				res.Exc = in.excClass(s.V)
			case BudgetSignal:
				res.Budget = true
			case PoisonSignal:
				res.Poison = true
			default:
				panic(r)
			}
		}
	}()
	c := &Ctx{Lex: in.GlobalEnv, Var: in.GlobalEnv, This: in.Global}
	vars, funcs := p.decls()
	in.bindDeclarations(c, vars, funcs, nil, nil, evalMode)
	comp := in.evalStmtList(p.Body, c)
	res.Completion = "u"
	if comp.Type == CNormal && comp.Value != nil {
		res.Completion = Canon(comp.Value)
	}
	return
}

// excClass is the class of an uncaught exception: the name of an Error object,
// "Thrown" for any other value.
func (in *Interp) excClass(v Value) string {
	if o, ok := v.(*Obj); ok && o.Class == "Error" {
		if s, ok := o.Get(in, "name").(string); ok {
			return s
		}
	}
	return "Thrown"
}
