package js

// Env is an Environment Record together with its outer Lexical Environment
// reference (10.2).
type Env interface {
	HasBinding(in *Interp, n string) bool
	CreateMutableBinding(in *Interp, n string, deletable bool)
	SetMutableBinding(in *Interp, n string, v Value, strict bool)
	GetBindingValue(in *Interp, n string, strict bool) Value
	DeleteBinding(in *Interp, n string) bool
	ImplicitThisValue() Value
	Outer() Env
}

type binding struct {
	v         Value
	mutable   bool
	deletable bool
	init      bool
}

// DeclEnv is a declarative environment record (10.2.1.1).
type DeclEnv struct {
	m     map[string]*binding
	outer Env
}

// NewDeclEnv is NewDeclarativeEnvironment (10.2.2.2).
func NewDeclEnv(outer Env) *DeclEnv { return &DeclEnv{m: map[string]*binding{}, outer: outer} }

func (e *DeclEnv) Outer() Env { return e.outer }

func (e *DeclEnv) HasBinding(in *Interp, n string) bool { _, ok := e.m[n]; return ok }

func (e *DeclEnv) CreateMutableBinding(in *Interp, n string, deletable bool) {
	if _, ok := e.m[n]; ok {
		panic("model: CreateMutableBinding on existing binding " + n)
	}
	e.m[n] = &binding{v: Undefined, mutable: true, deletable: deletable, init: true}
}

func (e *DeclEnv) SetMutableBinding(in *Interp, n string, v Value, strict bool) {
	b := e.m[n]
	if b == nil {
		panic("model: SetMutableBinding on missing binding " + n)
	}
	if b.mutable {
		b.v = v
		return
	}
	// attempt to change an immutable binding: TypeError in strict code only
	if in.Flags&AltNFEMutable != 0 {
		b.v = v
		return
	}
	if strict {
		in.ThrowError("TypeError", "assignment to immutable binding "+n)
	}
}

func (e *DeclEnv) GetBindingValue(in *Interp, n string, strict bool) Value {
	b := e.m[n]
	if b == nil {
		panic("model: GetBindingValue on missing binding " + n)
	}
	if !b.init {
		if strict {
			in.ThrowError("ReferenceError", n+" is not initialised")
		}
		return Undefined
	}
	return b.v
}

func (e *DeclEnv) DeleteBinding(in *Interp, n string) bool {
	b := e.m[n]
	if b == nil {
		return true
	}
	if !b.deletable {
		return false
	}
	delete(e.m, n)
	return true
}

func (e *DeclEnv) ImplicitThisValue() Value { return Undefined }

// CreateImmutableBinding / InitializeImmutableBinding (10.2.1.1.7-8).
func (e *DeclEnv) CreateImmutableBinding(n string) {
	e.m[n] = &binding{v: Undefined, mutable: false, deletable: false, init: false}
}

func (e *DeclEnv) InitializeImmutableBinding(n string, v Value) {
	b := e.m[n]
	b.v = v
	b.init = true
}

// ObjEnv is an object environment record (10.2.1.2).
type ObjEnv struct {
	obj         *Obj
	provideThis bool
	outer       Env
}

// NewObjEnv is NewObjectEnvironment (10.2.2.3).
func NewObjEnv(o *Obj, outer Env) *ObjEnv { return &ObjEnv{obj: o, outer: outer} }

func (e *ObjEnv) Outer() Env { return e.outer }

func (e *ObjEnv) HasBinding(in *Interp, n string) bool { return e.obj.HasProperty(in, n) }

func (e *ObjEnv) CreateMutableBinding(in *Interp, n string, deletable bool) {
	e.obj.DefineOwn(in, n, dataDesc(Undefined, true, true, deletable), true)
}

func (e *ObjEnv) SetMutableBinding(in *Interp, n string, v Value, strict bool) {
	e.obj.Put(in, n, v, strict)
}

func (e *ObjEnv) GetBindingValue(in *Interp, n string, strict bool) Value {
	if !e.obj.HasProperty(in, n) {
		if !strict {
			return Undefined
		}
		in.ThrowError("ReferenceError", n+" is not defined")
	}
	return e.obj.Get(in, n)
}

func (e *ObjEnv) DeleteBinding(in *Interp, n string) bool { return e.obj.Delete(in, n, false) }

func (e *ObjEnv) ImplicitThisValue() Value {
	if e.provideThis {
		return e.obj
	}
	return Undefined
}

// Ref is the Reference specification type (8.7) for non-strict code. Base is
// nil (unresolvable), an Env, or a Value (object or primitive).
type Ref struct {
	Base interface{}
	Name string
}

func (r *Ref) unresolvable() bool { return r.Base == nil }

func (r *Ref) envBase() (Env, bool) { e, ok := r.Base.(Env); return e, ok }

// GetIdentifierReference is 10.2.2.1.
func GetIdentifierReference(in *Interp, lex Env, name string) *Ref {
	for e := lex; e != nil; e = e.Outer() {
		if e.HasBinding(in, name) {
			return &Ref{Base: e, Name: name}
		}
	}
	return &Ref{Base: nil, Name: name}
}

// GetValue is 8.7.1. x is a Value or a *Ref.
func (in *Interp) GetValue(x interface{}) Value {
	r, ok := x.(*Ref)
	if !ok {
		return x
	}
	if r.unresolvable() {
		in.ThrowError("ReferenceError", r.Name+" is not defined")
	}
	if env, ok := r.envBase(); ok {
		return env.GetBindingValue(in, r.Name, false)
	}
	if o, ok := r.Base.(*Obj); ok {
		return o.Get(in, r.Name)
	}
	// primitive base: the special [[Get]] of 8.7.1
	o := ToObject(in, r.Base)
	return o.getWithThis(in, r.Name, r.Base)
}

// PutValue is 8.7.2 (non-strict references).
func (in *Interp) PutValue(x interface{}, w Value) {
	r, ok := x.(*Ref)
	if !ok {
		in.ThrowError("ReferenceError", "invalid assignment target")
	}
	if r.unresolvable() {
		in.Global.Put(in, r.Name, w, false)
		return
	}
	if env, ok := r.envBase(); ok {
		env.SetMutableBinding(in, r.Name, w, false)
		return
	}
	if o, ok := r.Base.(*Obj); ok {
		o.Put(in, r.Name, w, false)
		return
	}
	// primitive base: the special [[Put]] of 8.7.2
	o := ToObject(in, r.Base)
	if !o.canPut(in, r.Name) {
		return
	}
	if own := o.getOwn(in, r.Name); own != nil && !own.IsAcc {
		return
	}
	if d := o.getProp(in, r.Name); d != nil && d.IsAcc {
		in.CallFn(d.Set.(*Obj), r.Base, []Value{w})
	}
}
