// Package js is the reference interpreter of the otto model-checking harness: a
// deliberately boring transcription of the ES5.1 non-strict semantics (clauses
// 8.6-8.12, 9, 10, 11, 12, 13 and the few natives of 15 the generators use)
// working on a small generator AST that is also rendered to source text for the
// implementation under test. Every function names the clause it transcribes.
//
// Strings are Go strings; the generators only ever produce ASCII, so UTF-16
// length/indexing coincide with byte length/indexing (checked by Render).
package js

import (
	"fmt"
	"math"
	"strconv"
	"strings"
)

// Expr and Stmt are the generator AST. Nodes are plain structs.
type Expr interface{}
type Stmt interface{}

// ---- expressions

type Num struct{ V float64 }
type Str struct{ V string }
type Bool struct{ V bool }
type NullLit struct{}
type This struct{}
type Ident struct{ Name string }
type ArrayLit struct{ Elems []Expr }

// PropDef is one PropertyAssignment of an object initialiser (11.1.5).
// Kind is "value", "get" or "set".
type PropDef struct {
	Key  string
	Kind string
	Val  Expr // value expression, or *FuncLit for get/set
}
type ObjectLit struct{ Props []PropDef }

// FuncLit is a FunctionExpression, or the function of a FunctionDecl.
type FuncLit struct {
	Name   string
	Params []string
	Body   []Stmt

	scanned bool
	vars    []string
	funcs   []*FuncLit
}

// Member is a property accessor: Dot != "" renders o.name, else o[Prop].
type Member struct {
	Obj  Expr
	Dot  string
	Prop Expr
}
type Call struct {
	Callee Expr
	Args   []Expr
}
type New struct {
	Callee Expr
	Args   []Expr
}

// Unary: delete void typeof + - ~ ! ++ -- (prefix forms).
type Unary struct {
	Op string
	X  Expr
}

// Postfix: ++ --.
type Postfix struct {
	Op string
	X  Expr
}

// Binary covers 11.5-11.11 (including && || in instanceof), not the comma.
type Binary struct {
	Op   string
	L, R Expr
}

// Assign: = and the compound forms "+=" etc.
type Assign struct {
	Op   string
	L, R Expr
}
type Cond struct{ C, A, B Expr }
type Seq struct{ List []Expr }

// ---- statements

type VarD struct {
	Name string
	Init Expr // may be nil
}
type VarDecl struct{ Decls []VarD }
type ExprStmt struct{ X Expr }
type Block struct{ Body []Stmt }
type Empty struct{}
type If struct {
	Test Expr
	Then Stmt
	Else Stmt // may be nil
}

// For: Init is nil, an Expr or *VarDecl.
type For struct {
	Init   interface{}
	Test   Expr
	Update Expr
	Body   Stmt
}

// ForIn: Var != "" renders for (var Var in Obj), else for (LHS in Obj).
type ForIn struct {
	Var     string
	VarInit Expr // initialiser of `for (var Var = VarInit in Obj)` (12.6.4, second production); may be nil
	LHS     Expr
	Obj     Expr
	Body    Stmt
}
type While struct {
	Test Expr
	Body Stmt
}
type DoWhile struct {
	Body Stmt
	Test Expr
}
type Continue struct{ Label string }
type Break struct{ Label string }
type Return struct{ X Expr }
type With struct {
	Obj  Expr
	Body Stmt
}

// Clause: Test == nil && Default marks the default clause.
type Clause struct {
	Default bool
	Test    Expr
	Body    []Stmt
}
type Switch struct {
	Disc    Expr
	Clauses []Clause
}
type Labelled struct {
	Label string
	Body  Stmt
}
type Throw struct{ X Expr }
type Try struct {
	Body    *Block
	Param   string
	Catch   *Block // may be nil
	Finally *Block // may be nil
}
type FuncDecl struct{ Fn *FuncLit }

// Program is a complete ES5 Program. Evals maps the exact source text handed to
// eval() at run time to its AST, so that the model needs no parser: the
// generator registers every eval code it renders (EvalCode).
type Program struct {
	Body  []Stmt
	Evals map[string][]Stmt

	scanned bool
	vars    []string
	funcs   []*FuncLit
}

// EvalCode renders body, registers it in the program's eval table and returns
// the string literal to pass to eval.
func (p *Program) EvalCode(body ...Stmt) *Str {
	src := RenderStmts(body)
	if p.Evals == nil {
		p.Evals = map[string][]Stmt{}
	}
	p.Evals[src] = body
	return &Str{V: src}
}

// ---- helpers for generators

func N(v float64) *Num              { return &Num{V: v} }
func S(v string) *Str               { return &Str{V: v} }
func Id(n string) *Ident            { return &Ident{Name: n} }
func Dot(o Expr, n string) *Member  { return &Member{Obj: o, Dot: n} }
func Idx(o Expr, p Expr) *Member    { return &Member{Obj: o, Prop: p} }
func CallE(f Expr, a ...Expr) *Call { return &Call{Callee: f, Args: a} }
func ES(x Expr) *ExprStmt           { return &ExprStmt{X: x} }
func Blk(s ...Stmt) *Block          { return &Block{Body: s} }
func Log(a ...Expr) *ExprStmt       { return ES(CallE(Id("log"), a...)) }
func Fn(name string, params []string, body ...Stmt) *FuncLit {
	return &FuncLit{Name: name, Params: params, Body: body}
}
func Var(name string, init Expr) *VarDecl { return &VarDecl{Decls: []VarD{{Name: name, Init: init}}} }

// ---- declaration scan (10.5: FunctionDeclarations and VariableDeclarations of
// a code unit in source text order, not crossing function boundaries)

func scanDecls(body []Stmt) (vars []string, funcs []*FuncLit) {
	var walk func(s Stmt)
	walk = func(s Stmt) {
		switch s := s.(type) {
		case *VarDecl:
			for _, d := range s.Decls {
				vars = append(vars, d.Name)
			}
		case *Block:
			if s == nil {
				return
			}
			for _, t := range s.Body {
				walk(t)
			}
		case *If:
			walk(s.Then)
			if s.Else != nil {
				walk(s.Else)
			}
		case *For:
			if vd, ok := s.Init.(*VarDecl); ok {
				walk(vd)
			}
			walk(s.Body)
		case *ForIn:
			if s.Var != "" {
				vars = append(vars, s.Var)
			}
			walk(s.Body)
		case *While:
			walk(s.Body)
		case *DoWhile:
			walk(s.Body)
		case *With:
			walk(s.Body)
		case *Switch:
			for _, c := range s.Clauses {
				for _, t := range c.Body {
					walk(t)
				}
			}
		case *Labelled:
			walk(s.Body)
		case *Try:
			walk(s.Body)
			if s.Catch != nil {
				walk(s.Catch)
			}
			if s.Finally != nil {
				walk(s.Finally)
			}
		case *FuncDecl:
			// only legal at the top level of a code unit; the caller passes those
		}
	}
	for _, s := range body {
		if fd, ok := s.(*FuncDecl); ok {
			funcs = append(funcs, fd.Fn)
			continue
		}
		walk(s)
	}
	return
}

func (f *FuncLit) decls() ([]string, []*FuncLit) {
	if !f.scanned {
		f.vars, f.funcs = scanDecls(f.Body)
		f.scanned = true
	}
	return f.vars, f.funcs
}

func (p *Program) decls() ([]string, []*FuncLit) {
	if !p.scanned {
		p.vars, p.funcs = scanDecls(p.Body)
		p.scanned = true
	}
	return p.vars, p.funcs
}

// ---- rendering

// Render renders a program to ES5 source text.
func Render(p *Program) string { return RenderStmts(p.Body) }

// RenderStmts renders a statement list on one line.
func RenderStmts(body []Stmt) string {
	var sb strings.Builder
	for i, s := range body {
		if i > 0 {
			sb.WriteByte(' ')
		}
		renderStmt(&sb, s)
	}
	return sb.String()
}

// RenderExpr renders one expression.
func RenderExpr(e Expr) string {
	var sb strings.Builder
	renderExpr(&sb, e, 0)
	return sb.String()
}

// precedence levels
const (
	pSeq = iota
	pAssign
	pCond
	pBinary // every binary operator: operands are always parenthesised unless >= pUnary+1
	pUnary
	pPostfix
	pCall // call, member, new with arguments
	pPrimary
)

func precOf(e Expr) int {
	switch e := e.(type) {
	case *Seq:
		return pSeq
	case *Assign:
		return pAssign
	case *Cond:
		return pCond
	case *Binary:
		return pBinary
	case *Unary:
		return pUnary
	case *Postfix:
		return pPostfix
	case *Call, *Member, *New:
		return pCall
	case *Num:
		if e.V < 0 || (e.V == 0 && math.Signbit(e.V)) {
			return pUnary
		}
		return pPrimary
	case *FuncLit, *ObjectLit:
		return pAssign // always parenthesised when nested in an operator position
	}
	return pPrimary
}

// renderExpr writes e, parenthesised when its precedence is below min.
func renderExpr(sb *strings.Builder, e Expr, min int) {
	if precOf(e) < min {
		sb.WriteByte('(')
		renderExpr(sb, e, 0)
		sb.WriteByte(')')
		return
	}
	switch e := e.(type) {
	case *Num:
		sb.WriteString(numLit(e.V))
	case *Str:
		sb.WriteString(strLit(e.V))
	case *Bool:
		if e.V {
			sb.WriteString("true")
		} else {
			sb.WriteString("false")
		}
	case *NullLit:
		sb.WriteString("null")
	case *This:
		sb.WriteString("this")
	case *Ident:
		sb.WriteString(e.Name)
	case *ArrayLit:
		sb.WriteByte('[')
		for i, x := range e.Elems {
			if i > 0 {
				sb.WriteString(", ")
			}
			renderExpr(sb, x, pAssign)
		}
		sb.WriteByte(']')
	case *ObjectLit:
		sb.WriteByte('{')
		for i, p := range e.Props {
			if i > 0 {
				sb.WriteString(", ")
			}
			switch p.Kind {
			case "value":
				sb.WriteString(p.Key)
				sb.WriteString(": ")
				renderExpr(sb, p.Val, pAssign)
			case "get", "set":
				f := p.Val.(*FuncLit)
				sb.WriteString(p.Kind + " " + p.Key + "(" + strings.Join(f.Params, ", ") + ") { ")
				sb.WriteString(RenderStmts(f.Body))
				sb.WriteString(" }")
			default:
				panic("render: bad property kind " + p.Kind)
			}
		}
		sb.WriteByte('}')
	case *FuncLit:
		sb.WriteString("function")
		if e.Name != "" {
			sb.WriteString(" " + e.Name)
		}
		sb.WriteString("(" + strings.Join(e.Params, ", ") + ") { ")
		if len(e.Body) > 0 {
			sb.WriteString(RenderStmts(e.Body))
			sb.WriteByte(' ')
		}
		sb.WriteString("}")
	case *Member:
		if _, isNum := e.Obj.(*Num); isNum {
			sb.WriteByte('(')
			renderExpr(sb, e.Obj, 0)
			sb.WriteByte(')')
		} else {
			renderExpr(sb, e.Obj, pCall)
		}
		if e.Dot != "" {
			sb.WriteString("." + e.Dot)
		} else {
			sb.WriteByte('[')
			renderExpr(sb, e.Prop, 0)
			sb.WriteByte(']')
		}
	case *Call:
		renderExpr(sb, e.Callee, pCall)
		renderArgs(sb, e.Args)
	case *New:
		sb.WriteString("new ")
		// the callee of new must not contain a call: parenthesise unless it is a
		// plain identifier / member chain
		if newCalleePlain(e.Callee) {
			renderExpr(sb, e.Callee, pCall)
		} else {
			sb.WriteByte('(')
			renderExpr(sb, e.Callee, 0)
			sb.WriteByte(')')
		}
		renderArgs(sb, e.Args)
	case *Unary:
		sb.WriteString(e.Op)
		if len(e.Op) > 2 { // delete void typeof
			sb.WriteByte(' ')
		}
		renderExpr(sb, e.X, pPostfix)
	case *Postfix:
		renderExpr(sb, e.X, pCall)
		sb.WriteString(e.Op)
	case *Binary:
		renderExpr(sb, e.L, pPostfix)
		sb.WriteString(" " + e.Op + " ")
		renderExpr(sb, e.R, pPostfix)
	case *Assign:
		renderExpr(sb, e.L, pCall)
		sb.WriteString(" " + e.Op + " ")
		renderExpr(sb, e.R, pAssign)
	case *Cond:
		renderExpr(sb, e.C, pPostfix)
		sb.WriteString(" ? ")
		renderExpr(sb, e.A, pAssign)
		sb.WriteString(" : ")
		renderExpr(sb, e.B, pAssign)
	case *Seq:
		for i, x := range e.List {
			if i > 0 {
				sb.WriteString(", ")
			}
			renderExpr(sb, x, pAssign)
		}
	default:
		panic(fmt.Sprintf("render: unknown expression %T", e))
	}
}

func newCalleePlain(e Expr) bool {
	switch e := e.(type) {
	case *Ident:
		return true
	case *Member:
		return newCalleePlain(e.Obj)
	}
	return false
}

func renderArgs(sb *strings.Builder, args []Expr) {
	sb.WriteByte('(')
	for i, a := range args {
		if i > 0 {
			sb.WriteString(", ")
		}
		renderExpr(sb, a, pAssign)
	}
	sb.WriteByte(')')
}

func numLit(f float64) string {
	switch {
	case math.IsNaN(f):
		return "NaN"
	case math.IsInf(f, 1):
		return "Infinity"
	case math.IsInf(f, -1):
		return "-Infinity"
	case f == 0 && math.Signbit(f):
		return "-0"
	}
	return strconv.FormatFloat(f, 'f', -1, 64)
}

func strLit(s string) string {
	var sb strings.Builder
	sb.WriteByte('"')
	for i := 0; i < len(s); i++ {
		c := s[i]
		switch {
		case c == '"' || c == '\\':
			sb.WriteByte('\\')
			sb.WriteByte(c)
		case c >= 0x20 && c < 0x7f:
			sb.WriteByte(c)
		default:
			panic("render: non-ASCII or control character in string literal")
		}
	}
	sb.WriteByte('"')
	return sb.String()
}

// endsOpenIf reports whether the text of s ends in an if statement without
// else (an else following it would attach to that if).
func endsOpenIf(s Stmt) bool {
	switch s := s.(type) {
	case *If:
		if s.Else == nil {
			return true
		}
		return endsOpenIf(s.Else)
	case *For:
		return endsOpenIf(s.Body)
	case *ForIn:
		return endsOpenIf(s.Body)
	case *While:
		return endsOpenIf(s.Body)
	case *With:
		return endsOpenIf(s.Body)
	case *Labelled:
		return endsOpenIf(s.Body)
	}
	return false
}

func renderBlock(sb *strings.Builder, b *Block) {
	if len(b.Body) == 0 {
		sb.WriteString("{ }")
		return
	}
	sb.WriteString("{ ")
	sb.WriteString(RenderStmts(b.Body))
	sb.WriteString(" }")
}

func renderVarDecl(sb *strings.Builder, v *VarDecl) {
	sb.WriteString("var ")
	for i, d := range v.Decls {
		if i > 0 {
			sb.WriteString(", ")
		}
		sb.WriteString(d.Name)
		if d.Init != nil {
			sb.WriteString(" = ")
			renderExpr(sb, d.Init, pAssign)
		}
	}
}

func renderStmt(sb *strings.Builder, s Stmt) {
	switch s := s.(type) {
	case *VarDecl:
		renderVarDecl(sb, s)
		sb.WriteByte(';')
	case *ExprStmt:
		t := RenderExpr(s.X)
		if strings.HasPrefix(t, "{") || strings.HasPrefix(t, "function") {
			t = "(" + t + ")"
		}
		sb.WriteString(t)
		sb.WriteByte(';')
	case *Block:
		renderBlock(sb, s)
	case *Empty:
		sb.WriteByte(';')
	case *If:
		sb.WriteString("if (")
		renderExpr(sb, s.Test, 0)
		sb.WriteString(") ")
		if s.Else != nil && endsOpenIf(s.Then) {
			panic("render: dangling else (generator must wrap the consequent in a block)")
		}
		renderStmt(sb, s.Then)
		if s.Else != nil {
			sb.WriteString(" else ")
			renderStmt(sb, s.Else)
		}
	case *For:
		sb.WriteString("for (")
		switch i := s.Init.(type) {
		case nil:
		case *VarDecl:
			renderVarDecl(sb, i)
		default:
			t := RenderExpr(i)
			if strings.Contains(t, " in ") {
				t = "(" + t + ")"
			}
			sb.WriteString(t)
		}
		sb.WriteString("; ")
		if s.Test != nil {
			renderExpr(sb, s.Test, 0)
		}
		sb.WriteString("; ")
		if s.Update != nil {
			renderExpr(sb, s.Update, 0)
		}
		sb.WriteString(") ")
		renderStmt(sb, s.Body)
	case *ForIn:
		sb.WriteString("for (")
		if s.Var != "" {
			sb.WriteString("var " + s.Var)
			if s.VarInit != nil {
				t := RenderExpr(s.VarInit)
				if precOf(s.VarInit) < pCall || strings.Contains(t, " in ") {
					t = "(" + t + ")"
				}
				sb.WriteString(" = " + t)
			}
		} else {
			renderExpr(sb, s.LHS, pCall)
		}
		sb.WriteString(" in ")
		renderExpr(sb, s.Obj, 0)
		sb.WriteString(") ")
		renderStmt(sb, s.Body)
	case *While:
		sb.WriteString("while (")
		renderExpr(sb, s.Test, 0)
		sb.WriteString(") ")
		renderStmt(sb, s.Body)
	case *DoWhile:
		sb.WriteString("do ")
		renderStmt(sb, s.Body)
		sb.WriteString(" while (")
		renderExpr(sb, s.Test, 0)
		sb.WriteString(");")
	case *Continue:
		sb.WriteString("continue")
		if s.Label != "" {
			sb.WriteString(" " + s.Label)
		}
		sb.WriteByte(';')
	case *Break:
		sb.WriteString("break")
		if s.Label != "" {
			sb.WriteString(" " + s.Label)
		}
		sb.WriteByte(';')
	case *Return:
		sb.WriteString("return")
		if s.X != nil {
			sb.WriteByte(' ')
			renderExpr(sb, s.X, 0)
		}
		sb.WriteByte(';')
	case *With:
		sb.WriteString("with (")
		renderExpr(sb, s.Obj, 0)
		sb.WriteString(") ")
		renderStmt(sb, s.Body)
	case *Switch:
		sb.WriteString("switch (")
		renderExpr(sb, s.Disc, 0)
		sb.WriteString(") {")
		for _, c := range s.Clauses {
			if c.Default {
				sb.WriteString(" default:")
			} else {
				sb.WriteString(" case ")
				renderExpr(sb, c.Test, 0)
				sb.WriteByte(':')
			}
			if len(c.Body) > 0 {
				sb.WriteByte(' ')
				sb.WriteString(RenderStmts(c.Body))
			}
		}
		sb.WriteString(" }")
	case *Labelled:
		sb.WriteString(s.Label + ": ")
		renderStmt(sb, s.Body)
	case *Throw:
		sb.WriteString("throw ")
		renderExpr(sb, s.X, 0)
		sb.WriteByte(';')
	case *Try:
		sb.WriteString("try ")
		renderBlock(sb, s.Body)
		if s.Catch != nil {
			sb.WriteString(" catch (" + s.Param + ") ")
			renderBlock(sb, s.Catch)
		}
		if s.Finally != nil {
			sb.WriteString(" finally ")
			renderBlock(sb, s.Finally)
		}
	case *FuncDecl:
		f := s.Fn
		sb.WriteString("function " + f.Name + "(" + strings.Join(f.Params, ", ") + ") { ")
		if len(f.Body) > 0 {
			sb.WriteString(RenderStmts(f.Body))
			sb.WriteByte(' ')
		}
		sb.WriteString("}")
	default:
		panic(fmt.Sprintf("render: unknown statement %T", s))
	}
}
