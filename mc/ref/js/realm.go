package js

import (
	"math"
	"strconv"
	"strings"
)

func arg(args []Value, i int) Value {
	if i < len(args) {
		return args[i]
	}
	return Undefined
}

// altThis applies AltCallUndefinedThisGlobal to a thisArg.
func (in *Interp) altThis(t Value) Value {
	if IsUndef(t) && in.Flags&AltCallUndefinedThisGlobal != 0 {
		return in.Global
	}
	return t
}

func (in *Interp) newStringObject(s string) *Obj {
	o := newObj("String", in.StringProto)
	o.Prim = s
	o.setSlot("length", &Prop{Value: float64(len(s))})
	return o
}

// NewArray creates an Array object holding elems (15.4.2.1 / 11.1.4).
func (in *Interp) NewArray(elems []Value) *Obj {
	a := newObj("Array", in.ArrayProto)
	a.IsArray = true
	a.setSlot("length", &Prop{Value: float64(0), W: true})
	for i, v := range elems {
		a.DefineOwn(in, strconv.Itoa(i), dataDesc(v, true, true, true), false)
	}
	return a
}

func (in *Interp) needObj(v Value, who string) *Obj {
	o, ok := v.(*Obj)
	if !ok {
		in.ThrowError("TypeError", who+" called on non-object")
	}
	return o
}

// ToPropertyDescriptor is 8.10.5.
func (in *Interp) ToPropertyDescriptor(v Value) *Desc {
	o := in.needObj(v, "ToPropertyDescriptor")
	d := &Desc{}
	if o.HasProperty(in, "enumerable") {
		d.E, d.HasE = ToBoolean(o.Get(in, "enumerable")), true
	}
	if o.HasProperty(in, "configurable") {
		d.C, d.HasC = ToBoolean(o.Get(in, "configurable")), true
	}
	if o.HasProperty(in, "value") {
		d.Value, d.HasValue = o.Get(in, "value"), true
	}
	if o.HasProperty(in, "writable") {
		d.W, d.HasW = ToBoolean(o.Get(in, "writable")), true
	}
	if o.HasProperty(in, "get") {
		g := o.Get(in, "get")
		if fo, ok := g.(*Obj); !(ok && fo.Callable()) && !IsUndef(g) {
			in.ThrowError("TypeError", "getter is not callable")
		}
		d.Get, d.HasGet = g, true
	}
	if o.HasProperty(in, "set") {
		s := o.Get(in, "set")
		if fo, ok := s.(*Obj); !(ok && fo.Callable()) && !IsUndef(s) {
			in.ThrowError("TypeError", "setter is not callable")
		}
		d.Set, d.HasSet = s, true
	}
	if (d.HasGet || d.HasSet) && (d.HasValue || d.HasW) {
		in.ThrowError("TypeError", "descriptor is both data and accessor")
	}
	return d
}

// forInKeys lists the enumerable property names of o and its prototypes the
// way 12.6.4 requires (shadowed names once). The order is creation order, which
// ES5 leaves implementation-defined: generators only enumerate objects with at
// most one enumerable property.
func (in *Interp) forInKeys(o *Obj) []string {
	var out []string
	seen := map[string]bool{}
	for x := o; x != nil; x = x.Proto {
		keys := x.OwnKeys()
		if x.Class == "String" {
			if s, ok := x.Prim.(string); ok {
				idx := make([]string, len(s))
				for i := range s {
					idx[i] = strconv.Itoa(i)
				}
				keys = append(idx, keys...)
			}
		}
		for _, k := range keys {
			if seen[k] {
				continue
			}
			seen[k] = true
			if d := x.getOwn(in, k); d != nil && d.E {
				out = append(out, k)
			}
		}
	}
	return out
}

func (in *Interp) defineProperties(o *Obj, props Value) {
	po := ToObject(in, props)
	type nd struct {
		name string
		d    *Desc
	}
	var list []nd
	for _, k := range po.OwnKeys() {
		if d := po.getOwn(in, k); d != nil && d.E {
			list = append(list, nd{k, in.ToPropertyDescriptor(po.Get(in, k))})
		}
	}
	for _, e := range list {
		o.DefineOwn(in, e.name, e.d, true)
	}
}

// NewInterp builds a fresh realm with the natives listed in Appendix B.
func NewInterp() *Interp {
	in := &Interp{MaxSteps: 100000, evalProgs: map[string]*Program{}, errProtos: map[string]*Obj{}}
	in.ObjectProto = newObj("Object", nil)
	in.FunctionProto = newObj("Function", in.ObjectProto)
	in.FunctionProto.Native = func(in *Interp, this Value, args []Value) Value { return Undefined }
	in.FunctionProto.setSlot("length", &Prop{Value: float64(0)})
	in.Global = newObj("global", in.ObjectProto)
	in.GlobalEnv = NewObjEnv(in.Global, nil)
	g := in.Global
	def := func(name string, v Value) { g.setSlot(name, &Prop{Value: v, W: true, E: false, C: true}) }
	g.setSlot("NaN", &Prop{Value: math.NaN()})
	g.setSlot("Infinity", &Prop{Value: math.Inf(1)})
	g.setSlot("undefined", &Prop{Value: Undefined})

	ctor := func(name string, length int, proto *Obj, call NativeFn, cons func(in *Interp, args []Value) Value) *Obj {
		f := in.native(name, length, call)
		f.NativeCons = cons
		f.setSlot("prototype", &Prop{Value: proto})
		proto.setSlot("constructor", &Prop{Value: f, W: true, E: false, C: true})
		def(name, f)
		return f
	}

	// ---- 15.2 Object
	objCons := func(in *Interp, args []Value) Value {
		v := arg(args, 0)
		switch v.(type) {
		case *Obj:
			return v
		case string, bool, float64:
			return ToObject(in, v)
		}
		return newObj("Object", in.ObjectProto)
	}
	object := ctor("Object", 1, in.ObjectProto, func(in *Interp, this Value, args []Value) Value {
		v := arg(args, 0)
		if IsUndef(v) || IsNull(v) {
			return newObj("Object", in.ObjectProto)
		}
		return ToObject(in, v)
	}, objCons)
	in.method(object, "getPrototypeOf", 1, func(in *Interp, this Value, args []Value) Value {
		o := in.needObj(arg(args, 0), "Object.getPrototypeOf")
		if o.Proto == nil {
			return Null
		}
		return o.Proto
	})
	in.method(object, "create", 2, func(in *Interp, this Value, args []Value) Value {
		p := arg(args, 0)
		o := newObj("Object", nil)
		switch x := p.(type) {
		case *Obj:
			o.Proto = x
		case nullT:
		default:
			in.ThrowError("TypeError", "Object.create: prototype must be object or null")
		}
		if props := arg(args, 1); !IsUndef(props) {
			in.defineProperties(o, props)
		}
		return o
	})
	in.method(object, "defineProperty", 3, func(in *Interp, this Value, args []Value) Value {
		o := in.needObj(arg(args, 0), "Object.defineProperty")
		name := ToString(in, arg(args, 1))
		d := in.ToPropertyDescriptor(arg(args, 2))
		o.DefineOwn(in, name, d, true)
		return o
	})
	in.method(object, "keys", 1, func(in *Interp, this Value, args []Value) Value {
		o := in.needObj(arg(args, 0), "Object.keys")
		var out []Value
		keys := o.OwnKeys()
		if o.Class == "String" {
			if s, ok := o.Prim.(string); ok {
				idx := make([]string, len(s))
				for i := range s {
					idx[i] = strconv.Itoa(i)
				}
				keys = append(idx, keys...)
			}
		}
		for _, k := range keys {
			if d := o.getOwn(in, k); d != nil && d.E {
				out = append(out, k)
			}
		}
		return in.NewArray(out)
	})
	// 15.2.3.8 seal, 15.2.3.9 freeze, 15.2.3.10 preventExtensions
	sealOrFreeze := func(freeze bool) NativeFn {
		return func(in *Interp, this Value, args []Value) Value {
			o := in.needObj(arg(args, 0), "Object.seal/freeze")
			for _, k := range o.OwnKeys() {
				cur := o.getOwn(in, k)
				if cur == nil {
					continue
				}
				d := &Desc{E: cur.E, HasE: true, C: false, HasC: true}
				if cur.IsAcc {
					d.Get, d.HasGet, d.Set, d.HasSet = cur.Get, true, cur.Set, true
				} else {
					d.Value, d.HasValue, d.W, d.HasW = cur.Value, true, cur.W, true
					if freeze {
						d.W = false
					}
				}
				o.DefineOwn(in, k, d, true)
			}
			o.Ext = false
			return o
		}
	}
	in.method(object, "seal", 1, sealOrFreeze(false))
	in.method(object, "freeze", 1, sealOrFreeze(true))
	in.method(object, "preventExtensions", 1, func(in *Interp, this Value, args []Value) Value {
		o := in.needObj(arg(args, 0), "Object.preventExtensions")
		o.Ext = false
		return o
	})
	in.method(object, "isExtensible", 1, func(in *Interp, this Value, args []Value) Value {
		return in.needObj(arg(args, 0), "Object.isExtensible").Ext
	})
	in.method(object, "getOwnPropertyDescriptor", 2, func(in *Interp, this Value, args []Value) Value {
		o := in.needObj(arg(args, 0), "Object.getOwnPropertyDescriptor")
		d := o.getOwn(in, ToString(in, arg(args, 1)))
		if d == nil {
			return Undefined
		}
		// 8.10.4 FromPropertyDescriptor
		r := newObj("Object", in.ObjectProto)
		put := func(n string, v Value) { r.DefineOwn(in, n, dataDesc(v, true, true, true), false) }
		if d.IsAcc {
			put("get", d.Get)
			put("set", d.Set)
		} else {
			put("value", d.Value)
			put("writable", d.W)
		}
		put("enumerable", d.E)
		put("configurable", d.C)
		return r
	})
	// 15.2.4
	op := in.ObjectProto
	in.method(op, "toString", 0, func(in *Interp, this Value, args []Value) Value {
		switch this.(type) {
		case undefT:
			return "[object Undefined]"
		case nullT:
			return "[object Null]"
		}
		if o, ok := this.(*Obj); ok && o == in.Global && in.Flags&AltCallUndefinedThisGlobal != 0 {
			return "[object environment]" // otto's [[Class]] of the global object (implementation-defined)
		}
		return "[object " + ToObject(in, this).Class + "]"
	})
	in.method(op, "valueOf", 0, func(in *Interp, this Value, args []Value) Value { return ToObject(in, this) })
	in.method(op, "hasOwnProperty", 1, func(in *Interp, this Value, args []Value) Value {
		p := ToString(in, arg(args, 0))
		return ToObject(in, this).getOwn(in, p) != nil
	})
	in.method(op, "isPrototypeOf", 1, func(in *Interp, this Value, args []Value) Value {
		v, ok := arg(args, 0).(*Obj)
		if !ok {
			return false
		}
		o := ToObject(in, this)
		for {
			v = v.Proto
			if v == nil {
				return false
			}
			if v == o {
				return true
			}
		}
	})
	in.method(op, "propertyIsEnumerable", 1, func(in *Interp, this Value, args []Value) Value {
		p := ToString(in, arg(args, 0))
		d := ToObject(in, this).getOwn(in, p)
		return d != nil && d.E
	})

	// ---- 15.3 Function
	ctor("Function", 1, in.FunctionProto, func(in *Interp, this Value, args []Value) Value {
		unsupported("Function constructor")
		return nil
	}, func(in *Interp, args []Value) Value {
		unsupported("Function constructor")
		return nil
	})
	fp := in.FunctionProto
	// 15.3.4.3
	in.method(fp, "apply", 2, func(in *Interp, this Value, args []Value) Value {
		f, ok := this.(*Obj)
		if !ok || !f.Callable() {
			in.ThrowError("TypeError", "Function.prototype.apply called on non-callable")
		}
		thisArg, argArray := in.altThis(arg(args, 0)), arg(args, 1)
		if IsUndef(argArray) || IsNull(argArray) {
			return in.CallFn(f, thisArg, nil)
		}
		ao, ok := argArray.(*Obj)
		if !ok {
			in.ThrowError("TypeError", "apply: argument list is not an object")
		}
		n := ToUint32(in, ao.Get(in, "length"))
		list := make([]Value, 0, n)
		for i := uint32(0); i < n; i++ {
			list = append(list, ao.Get(in, strconv.FormatUint(uint64(i), 10)))
		}
		return in.CallFn(f, thisArg, list)
	})
	// 15.3.4.4
	in.method(fp, "call", 1, func(in *Interp, this Value, args []Value) Value {
		f, ok := this.(*Obj)
		if !ok || !f.Callable() {
			in.ThrowError("TypeError", "Function.prototype.call called on non-callable")
		}
		var rest []Value
		if len(args) > 1 {
			rest = args[1:]
		}
		return in.CallFn(f, in.altThis(arg(args, 0)), rest)
	})
	// 15.3.4.5
	in.method(fp, "bind", 1, func(in *Interp, this Value, args []Value) Value {
		t, ok := this.(*Obj)
		if !ok || !t.Callable() {
			in.ThrowError("TypeError", "Function.prototype.bind called on non-callable")
		}
		b := newObj("Function", in.FunctionProto)
		b.IsBound = true
		b.BoundTarget = t
		b.BoundThis = in.altThis(arg(args, 0))
		if len(args) > 1 {
			b.BoundArgs = append([]Value(nil), args[1:]...)
		}
		if in.Flags&AltBoundCallSharesArguments != 0 && len(args) > 0 {
			// the bound list is the tail of an argument list grown by append: its
			// capacity is the next power of two >= len(args)
			c := 1
			for c < len(args) {
				c *= 2
			}
			full := make([]Value, len(args), c)
			copy(full, args)
			b.BoundArgs = full[1:]
		}
		l := 0.0
		if t.Class == "Function" {
			l = ToNumber(in, t.Get(in, "length")) - float64(len(b.BoundArgs))
			if l < 0 {
				l = 0
			}
		}
		b.setSlot("length", &Prop{Value: l})
		if in.Flags&AltBoundOwnPrototype != 0 {
			proto := newObj("Object", in.ObjectProto)
			proto.setSlot("constructor", &Prop{Value: b, W: true})
			b.setSlot("prototype", &Prop{Value: proto, W: true})
		}
		return b
	})

	// ---- 15.4 Array
	in.ArrayProto = newObj("Array", in.ObjectProto)
	in.ArrayProto.IsArray = true
	in.ArrayProto.setSlot("length", &Prop{Value: float64(0), W: true})
	arrCons := func(in *Interp, args []Value) Value {
		if len(args) == 1 {
			if n, ok := args[0].(float64); ok {
				if float64(toUint32f(n)) != n {
					in.ThrowError("RangeError", "invalid array length")
				}
				a := in.NewArray(nil)
				a.props["length"].Value = n
				return a
			}
		}
		return in.NewArray(args)
	}
	array := ctor("Array", 1, in.ArrayProto, func(in *Interp, this Value, args []Value) Value { return arrCons(in, args) }, arrCons)
	in.method(array, "isArray", 1, func(in *Interp, this Value, args []Value) Value {
		o, ok := arg(args, 0).(*Obj)
		return ok && o.Class == "Array"
	})
	ap := in.ArrayProto
	join := in.method(ap, "join", 1, func(in *Interp, this Value, args []Value) Value {
		o := ToObject(in, this)
		n := ToUint32(in, o.Get(in, "length"))
		sep := ","
		if s := arg(args, 0); !IsUndef(s) {
			sep = ToString(in, s)
		}
		var parts []string
		for i := uint32(0); i < n; i++ {
			e := o.Get(in, strconv.FormatUint(uint64(i), 10))
			if IsUndef(e) || IsNull(e) {
				parts = append(parts, "")
			} else {
				parts = append(parts, ToString(in, e))
			}
		}
		return strings.Join(parts, sep)
	})
	_ = join
	in.method(ap, "toString", 0, func(in *Interp, this Value, args []Value) Value {
		o := ToObject(in, this)
		f, ok := o.Get(in, "join").(*Obj)
		if !ok || !f.Callable() {
			return "[object " + o.Class + "]"
		}
		return in.CallFn(f, o, nil)
	})
	in.method(ap, "push", 1, func(in *Interp, this Value, args []Value) Value {
		o := ToObject(in, this)
		n := float64(ToUint32(in, o.Get(in, "length")))
		for _, e := range args {
			o.Put(in, NumberToString(n), e, true)
			n++
		}
		o.Put(in, "length", n, true)
		return n
	})
	in.method(ap, "forEach", 1, func(in *Interp, this Value, args []Value) Value {
		o := ToObject(in, this)
		n := ToUint32(in, o.Get(in, "length"))
		cb, ok := arg(args, 0).(*Obj)
		if !ok || !cb.Callable() {
			in.ThrowError("TypeError", "forEach: callback is not callable")
		}
		t := arg(args, 1)
		for k := uint32(0); k < n; k++ {
			pk := strconv.FormatUint(uint64(k), 10)
			if o.HasProperty(in, pk) {
				kv := o.Get(in, pk)
				in.CallFn(cb, t, []Value{kv, float64(k), o})
			}
		}
		return Undefined
	})
	in.method(ap, "slice", 2, func(in *Interp, this Value, args []Value) Value {
		o := ToObject(in, this)
		a := in.NewArray(nil)
		n := float64(ToUint32(in, o.Get(in, "length")))
		rel := ToInteger(in, arg(args, 0))
		k := math.Min(rel, n)
		if rel < 0 {
			k = math.Max(n+rel, 0)
		}
		relEnd := n
		if e := arg(args, 1); !IsUndef(e) {
			relEnd = ToInteger(in, e)
		}
		fin := math.Min(relEnd, n)
		if relEnd < 0 {
			fin = math.Max(n+relEnd, 0)
		}
		idx := 0
		for ; k < fin; k++ {
			pk := NumberToString(k)
			if o.HasProperty(in, pk) {
				a.DefineOwn(in, strconv.Itoa(idx), dataDesc(o.Get(in, pk), true, true, true), false)
			}
			idx++
		}
		return a
	})

	// ---- 15.5 String, 15.6 Boolean, 15.7 Number
	in.StringProto = newObj("String", in.ObjectProto)
	in.StringProto.Prim = ""
	in.StringProto.setSlot("length", &Prop{Value: float64(0)})
	ctor("String", 1, in.StringProto, func(in *Interp, this Value, args []Value) Value {
		if len(args) == 0 {
			return ""
		}
		return ToString(in, args[0])
	}, func(in *Interp, args []Value) Value {
		if len(args) == 0 {
			return in.newStringObject("")
		}
		return in.newStringObject(ToString(in, args[0]))
	})
	thisPrim := func(class string) NativeFn {
		return func(in *Interp, this Value, args []Value) Value {
			switch x := this.(type) {
			case string:
				if class == "String" {
					return x
				}
			case float64:
				if class == "Number" {
					return x
				}
			case bool:
				if class == "Boolean" {
					return x
				}
			case *Obj:
				if x.Class == class {
					return x.Prim
				}
			}
			in.ThrowError("TypeError", class+".prototype method called on incompatible receiver")
			return nil
		}
	}
	in.method(in.StringProto, "toString", 0, thisPrim("String"))
	in.method(in.StringProto, "valueOf", 0, thisPrim("String"))
	in.method(in.StringProto, "charAt", 1, func(in *Interp, this Value, args []Value) Value {
		CheckObjectCoercible(in, this)
		s := ToString(in, this)
		p := ToInteger(in, arg(args, 0))
		if p < 0 || p >= float64(len(s)) {
			return ""
		}
		return s[int(p) : int(p)+1]
	})

	in.BooleanProto = newObj("Boolean", in.ObjectProto)
	in.BooleanProto.Prim = false
	ctor("Boolean", 1, in.BooleanProto, func(in *Interp, this Value, args []Value) Value {
		return ToBoolean(arg(args, 0))
	}, func(in *Interp, args []Value) Value {
		return ToObject(in, ToBoolean(arg(args, 0)))
	})
	bval := thisPrim("Boolean")
	in.method(in.BooleanProto, "toString", 0, func(in *Interp, this Value, args []Value) Value {
		return ToString(in, bval(in, this, nil))
	})
	in.method(in.BooleanProto, "valueOf", 0, bval)

	in.NumberProto = newObj("Number", in.ObjectProto)
	in.NumberProto.Prim = float64(0)
	ctor("Number", 1, in.NumberProto, func(in *Interp, this Value, args []Value) Value {
		if len(args) == 0 {
			return float64(0)
		}
		return ToNumber(in, args[0])
	}, func(in *Interp, args []Value) Value {
		if len(args) == 0 {
			return ToObject(in, float64(0))
		}
		return ToObject(in, ToNumber(in, args[0]))
	})
	nval := thisPrim("Number")
	in.method(in.NumberProto, "toString", 1, func(in *Interp, this Value, args []Value) Value {
		v := nval(in, this, nil)
		if r := arg(args, 0); !IsUndef(r) && ToInteger(in, r) != 10 {
			unsupported("Number.prototype.toString with radix")
		}
		return ToString(in, v)
	})
	in.method(in.NumberProto, "valueOf", 0, nval)

	// ---- 15.11 Error
	mkErr := func(name string, protoProto *Obj) *Obj {
		proto := newObj("Error", protoProto)
		in.errProtos[name] = proto
		cons := func(in *Interp, args []Value) Value {
			o := newObj("Error", proto)
			if m := arg(args, 0); !IsUndef(m) {
				o.setSlot("message", &Prop{Value: ToString(in, m), W: true, E: false, C: true})
			}
			return o
		}
		ctor(name, 1, proto, func(in *Interp, this Value, args []Value) Value { return cons(in, args) }, cons)
		proto.setSlot("name", &Prop{Value: name, W: true, E: false, C: true})
		proto.setSlot("message", &Prop{Value: "", W: true, E: false, C: true})
		return proto
	}
	in.ErrorProto = mkErr("Error", in.ObjectProto)
	in.method(in.ErrorProto, "toString", 0, func(in *Interp, this Value, args []Value) Value {
		o := in.needObj(this, "Error.prototype.toString")
		name, msg := "Error", ""
		if n := o.Get(in, "name"); !IsUndef(n) {
			name = ToString(in, n)
		}
		if m := o.Get(in, "message"); !IsUndef(m) {
			msg = ToString(in, m)
		}
		switch {
		case name == "":
			return msg
		case msg == "":
			return name
		}
		return name + ": " + msg
	})
	for _, n := range []string{"EvalError", "RangeError", "ReferenceError", "SyntaxError", "TypeError", "URIError"} {
		mkErr(n, in.ErrorProto)
	}

	// ---- 15.8.2.11/12 Math.max, Math.min (every argument is converted, in order)
	mathObj := newObj("Math", in.ObjectProto)
	def("Math", mathObj)
	extreme := func(name string, start float64, better func(a, b float64) bool) {
		in.method(mathObj, name, 2, func(in *Interp, this Value, args []Value) Value {
			r := start
			nan := false
			for i := range args {
				n := ToNumber(in, args[i])
				switch {
				case math.IsNaN(n):
					nan = true
				case better(n, r) || (n == 0 && r == 0 && better(1/n, 1/r)):
					r = n
				}
			}
			if nan {
				return math.NaN()
			}
			return r
		})
	}
	extreme("max", math.Inf(-1), func(a, b float64) bool { return a > b })
	extreme("min", math.Inf(1), func(a, b float64) bool { return a < b })

	// ---- 15.1.2.1 eval, host functions
	in.EvalFn = in.native("eval", 1, func(in *Interp, this Value, args []Value) Value {
		return in.performEval(args, nil) // indirect call: global context
	})
	def("eval", in.EvalFn)
	def("log", in.native("log", 0, func(in *Interp, this Value, args []Value) Value {
		parts := make([]string, len(args))
		for i, a := range args {
			parts[i] = Canon(a)
		}
		in.Log = append(in.Log, strings.Join(parts, ","))
		return arg(args, 0) // the host function answers with its first argument
	}))
	def("tick", in.native("tick", 0, func(in *Interp, this Value, args []Value) Value {
		in.ticks++
		return in.ticks
	}))
	return in
}
