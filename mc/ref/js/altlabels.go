package js

import "fmt"

// Alternative model AltLabelStack: otto's label mechanism. A labelled
// statement pushes its label on a pending stack; only blocks, loops and switch
// statements consume the pending labels (all of them); break/continue
// completions that no consumer matches propagate to the function boundary
// (the call then yields an "empty" value) or to the program level (the program
// stops with value undefined). Loop bodies that are blocks are flattened into
// the loop. The structure below follows cmpl_evaluate_statement.go statement by
// statement; it is only ever used to pin that failure mode in a known-finding
// signature.

// emptyEscaped is the value a call yields when a break/continue completion
// escaped the callee. otto hands the embedding an invalid (kind "empty") Value;
// the only uses the alternative model predicts are: discarded, or used as the
// value of an expression statement (ignored like an empty completion).
type emptyEscaped struct{}

// PoisonSignal: the alternative model reached a use of emptyEscaped whose
// behaviour in otto is a Go-level accident; no prediction is made.
type PoisonSignal struct{}

func (in *Interp) escapedResultValue() Value { return emptyEscaped{} }

func isEscaped(v Value) bool { _, ok := v.(emptyEscaped); return ok }

func matchLabel(labels []string, target string) bool {
	for _, l := range labels {
		if l == target {
			return true
		}
	}
	return false
}

func (in *Interp) dropOnBreak() bool { return in.Flags&AltBreakDropsValue != 0 }

// lsList mirrors cmplEvaluateNodeStatementList.
func (in *Interp) lsList(list []Stmt, c *Ctx) Completion {
	var v Value
	for _, s := range list {
		r := in.evalStmt(s, c, nil)
		if r.Type != CNormal {
			if r.Type != CReturn && !in.dropOnBreak() && r.Value == nil {
				r.Value = v
			}
			return r
		}
		if r.Value != nil && !isEscaped(r.Value) {
			v = r.Value
		}
	}
	return Completion{Type: CNormal, Value: v}
}

// lsBody mirrors the flattened loop body: the statements of a block body are
// evaluated by the loop itself.
func lsBody(s Stmt) []Stmt {
	if b, ok := s.(*Block); ok {
		return b.Body
	}
	return []Stmt{s}
}

// lsLoopBody evaluates one iteration of a flattened body. It returns
// (0 normal end | 1 break | 2 continue | 3 return-like propagate, completion).
func (in *Interp) lsLoopBody(body []Stmt, c *Ctx, labels []string, result *Value) (int, Completion) {
	for _, s := range body {
		r := in.evalStmt(s, c, nil)
		switch r.Type {
		case CNormal:
			if r.Value != nil && !isEscaped(r.Value) {
				*result = r.Value
			}
		case CBreak:
			if matchLabel(labels, r.Target) {
				if !in.dropOnBreak() && r.Value != nil {
					*result = r.Value
				}
				return 1, normalEmpty
			}
			return 3, r
		case CContinue:
			if matchLabel(labels, r.Target) {
				if !in.dropOnBreak() && r.Value != nil {
					*result = r.Value
				}
				return 2, normalEmpty
			}
			return 3, r
		default:
			return 3, r
		}
	}
	return 0, normalEmpty
}

func (in *Interp) evalStmtLS(s Stmt, c *Ctx) Completion {
	switch s := s.(type) {
	case *Block:
		labels := in.pending
		in.pending = nil
		r := in.lsList(s.Body, c)
		if r.Type == CBreak && matchLabel(labels, r.Target) {
			if in.dropOnBreak() {
				return normalEmpty
			}
			return Completion{Type: CNormal, Value: r.Value}
		}
		if r.Type == CNormal && r.Value == nil && in.Flags&AltEmptyBlockUndefined != 0 {
			r.Value = Undefined
		}
		return r
	case *VarDecl:
		in.evalVarDecl(s, c)
		return normalEmpty
	case *Empty:
		return normalEmpty
	case *ExprStmt:
		if call, ok := s.X.(*Call); ok {
			in.step()
			v := in.GetValue(in.evalCall(call, c))
			if isEscaped(v) {
				return normalEmpty
			}
			return Completion{Type: CNormal, Value: v}
		}
		return Completion{Type: CNormal, Value: in.GetValue(in.evalExpr(s.X, c))}
	case *If:
		if ToBoolean(in.GetValue(in.evalExpr(s.Test, c))) {
			return in.evalStmt(s.Then, c, nil)
		}
		if s.Else != nil {
			return in.evalStmt(s.Else, c, nil)
		}
		return normalEmpty
	case *DoWhile:
		labels := append(append([]string(nil), in.pending...), "")
		in.pending = nil
		var result Value
		body := lsBody(s.Body)
		for {
			k, r := in.lsLoopBody(body, c, labels, &result)
			if k == 3 {
				return r
			}
			if k == 1 {
				break
			}
			if !ToBoolean(in.GetValue(in.evalExpr(s.Test, c))) {
				break
			}
		}
		return Completion{Type: CNormal, Value: result}
	case *While:
		labels := append(append([]string(nil), in.pending...), "")
		in.pending = nil
		var result Value
		body := lsBody(s.Body)
		for {
			if !ToBoolean(in.GetValue(in.evalExpr(s.Test, c))) {
				break
			}
			k, r := in.lsLoopBody(body, c, labels, &result)
			if k == 3 {
				return r
			}
			if k == 1 {
				break
			}
		}
		return Completion{Type: CNormal, Value: result}
	case *For:
		labels := append(append([]string(nil), in.pending...), "")
		in.pending = nil
		switch i := s.Init.(type) {
		case nil:
		case *VarDecl:
			in.evalVarDecl(i, c)
		default:
			in.GetValue(in.evalExpr(i, c))
		}
		var result Value
		body := lsBody(s.Body)
		for {
			if s.Test != nil && !ToBoolean(in.GetValue(in.evalExpr(s.Test, c))) {
				break
			}
			k, r := in.lsLoopBody(body, c, labels, &result)
			if k == 3 {
				return r
			}
			if k == 1 {
				break
			}
			if s.Update != nil {
				in.GetValue(in.evalExpr(s.Update, c))
			}
		}
		return Completion{Type: CNormal, Value: result}
	case *ForIn:
		labels := append(append([]string(nil), in.pending...), "")
		in.pending = nil
		if s.Var != "" && s.VarInit != nil && in.Flags&AltForInInitPerIteration == 0 {
			lhs := GetIdentifierReference(in, c.Lex, s.Var)
			in.PutValue(lhs, in.GetValue(in.evalExpr(s.VarInit, c)))
		}
		ev := in.GetValue(in.evalExpr(s.Obj, c))
		if IsUndef(ev) || IsNull(ev) {
			return normalEmpty
		}
		obj := ToObject(in, ev)
		var result Value
		body := lsBody(s.Body)
		for _, p := range in.forInKeys(obj) {
			if d := obj.getProp(in, p); d == nil || !d.E {
				continue
			}
			var lhs interface{}
			if s.Var != "" {
				lhs = GetIdentifierReference(in, c.Lex, s.Var)
				if s.VarInit != nil && in.Flags&AltForInInitPerIteration != 0 {
					in.PutValue(lhs, in.GetValue(in.evalExpr(s.VarInit, c)))
				}
			} else {
				lhs = in.evalExpr(s.LHS, c)
			}
			in.PutValue(lhs, p)
			k, r := in.lsLoopBody(body, c, labels, &result)
			if k == 3 {
				return r
			}
			if k == 1 {
				if in.dropOnBreak() {
					return normalEmpty
				}
				break
			}
		}
		return Completion{Type: CNormal, Value: result}
	case *Continue:
		return Completion{Type: CContinue, Target: s.Label}
	case *Break:
		return Completion{Type: CBreak, Target: s.Label}
	case *Return:
		if s.X == nil {
			return Completion{Type: CReturn, Value: Undefined}
		}
		v := in.GetValue(in.evalExpr(s.X, c))
		if isEscaped(v) {
			panic(PoisonSignal{})
		}
		return Completion{Type: CReturn, Value: v}
	case *With:
		obj := ToObject(in, in.GetValue(in.evalExpr(s.Obj, c)))
		env := NewObjEnv(obj, c.Lex)
		env.provideThis = true
		return in.evalStmt(s.Body, &Ctx{Lex: env, Var: c.Var, This: c.This}, nil)
	case *Switch:
		labels := append(append([]string(nil), in.pending...), "")
		in.pending = nil
		input := in.GetValue(in.evalExpr(s.Disc, c))
		start, def := -1, -1
		for i, cl := range s.Clauses {
			if cl.Default {
				def = i
				continue
			}
			if StrictEquals(input, in.GetValue(in.evalExpr(cl.Test, c))) {
				start = i
				break
			}
		}
		if start < 0 {
			start = def
		}
		var result Value
		if start >= 0 {
			for _, cl := range s.Clauses[start:] {
				for _, st := range cl.Body {
					r := in.evalStmt(st, c, nil)
					switch {
					case r.Type == CNormal:
						if r.Value != nil && !isEscaped(r.Value) {
							result = r.Value
						}
					case r.Type == CBreak && matchLabel(labels, r.Target):
						if in.dropOnBreak() {
							return normalEmpty
						}
						if r.Value != nil {
							result = r.Value
						}
						return Completion{Type: CNormal, Value: result}
					default:
						if r.Type != CReturn && !in.dropOnBreak() && r.Value == nil {
							r.Value = result
						}
						return r
					}
				}
			}
		}
		return Completion{Type: CNormal, Value: result}
	case *Labelled:
		in.pending = append(append([]string(nil), in.pending...), s.Label)
		defer func() {
			if len(in.pending) > 0 {
				in.pending = in.pending[:len(in.pending)-1]
			} else {
				in.pending = nil
			}
		}()
		return in.evalStmt(s.Body, c, nil)
	case *Throw:
		panic(&ThrowSignal{V: in.GetValue(in.evalExpr(s.X, c))})
	case *Try:
		return in.lsTry(s, c)
	case *FuncDecl:
		return normalEmpty
	}
	panic(fmt.Sprintf("model: unknown statement %T", s))
}

// lsProtect is protect without restoring the pending label stack (otto's
// panic/recover does not restore rt.labels; labelled statements pop in defers,
// which the Go defers of evalStmtLS reproduce).
func (in *Interp) lsProtect(f func() Completion) (comp Completion, thrown bool, exc Value) {
	depth := in.depth
	defer func() {
		if r := recover(); r != nil {
			if t, ok := r.(*ThrowSignal); ok {
				thrown, exc = true, t.V
				in.depth = depth
				return
			}
			panic(r)
		}
	}()
	comp = f()
	return
}

func (in *Interp) lsTry(s *Try, c *Ctx) Completion {
	b, thrown, exc := in.lsProtect(func() Completion { return in.evalStmt(s.Body, c, nil) })
	cc := b
	var ranCatch *Ctx
	if thrown && s.Catch != nil {
		catchEnv := NewDeclEnv(c.Lex)
		catchEnv.CreateMutableBinding(in, s.Param, false)
		catchEnv.SetMutableBinding(in, s.Param, exc, false)
		cctx := &Ctx{Lex: catchEnv, Var: c.Var, This: c.This}
		ranCatch = cctx
		cc, thrown, exc = in.lsProtect(func() Completion { return in.evalStmt(s.Catch, cctx, nil) })
	}
	if s.Finally != nil {
		fctx := c
		if ranCatch != nil && in.Flags&AltFinallyInCatchEnv != 0 {
			fctx = ranCatch
		}
		f := in.evalStmt(s.Finally, fctx, nil)
		if f.Type != CNormal {
			return f
		}
	}
	if thrown {
		panic(&ThrowSignal{V: exc})
	}
	return cc
}
