package js

import (
	"fmt"
	"math"
	"strconv"
	"strings"
)

// Value is an ECMAScript language value (8): Undefined, Null, bool, float64,
// string or *Obj.
type Value interface{}

type undefT struct{}
type nullT struct{}

var Undefined Value = undefT{}
var Null Value = nullT{}

func IsUndef(v Value) bool { _, ok := v.(undefT); return ok }
func IsNull(v Value) bool  { _, ok := v.(nullT); return ok }

// Prop is a property slot (8.6.1): a named data or accessor property.
type Prop struct {
	IsAcc    bool
	Value    Value
	Get, Set Value // *Obj or Undefined
	W, E, C  bool
}

// Desc is a Property Descriptor (8.10) with presence flags.
type Desc struct {
	Value                    Value
	Get, Set                 Value
	W, E, C                  bool
	HasValue, HasGet, HasSet bool
	HasW, HasE, HasC         bool
}

func (d *Desc) isAccessor() bool { return d.HasGet || d.HasSet } // 8.10.1
func (d *Desc) isData() bool     { return d.HasValue || d.HasW } // 8.10.2
func (d *Desc) isGeneric() bool  { return !d.isAccessor() && !d.isData() }

func dataDesc(v Value, w, e, c bool) *Desc {
	return &Desc{Value: v, HasValue: true, W: w, HasW: true, E: e, HasE: true, C: c, HasC: true}
}

// NativeFn is the behaviour of a built-in function object.
type NativeFn func(in *Interp, this Value, args []Value) Value

// Obj is an ECMAScript object (8.6.2): ordered property table plus the
// internal properties the generators can reach.
type Obj struct {
	Class string
	Proto *Obj
	Ext   bool

	keys  []string
	props map[string]*Prop

	// [[Call]] / [[Construct]]
	Native      NativeFn
	NativeCons  func(in *Interp, args []Value) Value // nil: no [[Construct]]
	Fn          *FuncLit                             // 13.2 function objects
	Scope       Env
	IsBound     bool // 15.3.4.5
	BoundTarget *Obj
	BoundThis   Value
	BoundArgs   []Value

	Prim Value // [[PrimitiveValue]] of String/Number/Boolean objects

	IsArray bool // 15.4.5.1 [[DefineOwnProperty]]

	// 10.6 [[ParameterMap]]: index -> formal parameter name bound in ArgEnv
	ArgMap map[string]string
	ArgEnv *DeclEnv

	Name string // diagnostic only
}

func newObj(class string, proto *Obj) *Obj {
	return &Obj{Class: class, Proto: proto, Ext: true, props: map[string]*Prop{}}
}

// Callable is IsCallable (9.11) for objects.
func (o *Obj) Callable() bool { return o.Native != nil || o.Fn != nil || o.IsBound }

func (o *Obj) hasConstruct() bool {
	if o.Fn != nil {
		return true
	}
	if o.IsBound {
		return o.BoundTarget.hasConstruct() // 15.3.4.5.2 step 2 (checked at call time)
	}
	return o.NativeCons != nil
}

func (o *Obj) setSlot(name string, p *Prop) {
	if _, ok := o.props[name]; !ok {
		o.keys = append(o.keys, name)
	}
	o.props[name] = p
}

func (o *Obj) removeSlot(name string) {
	if _, ok := o.props[name]; !ok {
		return
	}
	delete(o.props, name)
	for i, k := range o.keys {
		if k == name {
			o.keys = append(o.keys[:i:i], o.keys[i+1:]...)
			break
		}
	}
}

// OwnKeys returns the own property names in creation order.
func (o *Obj) OwnKeys() []string { return append([]string(nil), o.keys...) }

// ---- 8.12 internal methods

// getOwn is [[GetOwnProperty]] (8.12.1) with the String (15.5.5.2) and
// arguments (10.6) overrides. The result must not be mutated by callers.
func (o *Obj) getOwn(in *Interp, p string) *Prop {
	d := o.props[p]
	if o.ArgMap != nil {
		// 10.6 [[GetOwnProperty]]
		if d == nil {
			return nil
		}
		if name, mapped := o.ArgMap[p]; mapped {
			c := *d
			c.Value = o.ArgEnv.GetBindingValue(in, name, false)
			return &c
		}
		return d
	}
	if d != nil {
		return d
	}
	if o.Class == "String" {
		// 15.5.5.2
		if s, ok := o.Prim.(string); ok {
			if idx, ok := arrayIndex(p); ok && int(idx) < len(s) {
				return &Prop{Value: s[idx : idx+1], W: false, E: true, C: false}
			}
		}
	}
	return nil
}

// getProp is [[GetProperty]] (8.12.2).
func (o *Obj) getProp(in *Interp, p string) *Prop {
	for x := o; x != nil; x = x.Proto {
		if d := x.getOwn(in, p); d != nil {
			return d
		}
	}
	return nil
}

// Get is [[Get]] (8.12.3); arguments objects: 10.6 [[Get]].
func (o *Obj) Get(in *Interp, p string) Value {
	if o.ArgMap != nil {
		if name, mapped := o.ArgMap[p]; mapped {
			return o.ArgEnv.GetBindingValue(in, name, false)
		}
	}
	return o.getWithThis(in, p, o)
}

// getWithThis is [[Get]] with an explicit this value for getters (8.7.1 uses
// it for primitive bases).
func (o *Obj) getWithThis(in *Interp, p string, this Value) Value {
	d := o.getProp(in, p)
	if d == nil {
		return Undefined
	}
	if !d.IsAcc {
		return d.Value
	}
	g, ok := d.Get.(*Obj)
	if !ok {
		return Undefined
	}
	return in.CallFn(g, this, nil)
}

// canPut is [[CanPut]] (8.12.4).
func (o *Obj) canPut(in *Interp, p string) bool {
	if d := o.getOwn(in, p); d != nil {
		if d.IsAcc {
			_, ok := d.Set.(*Obj)
			return ok
		}
		return d.W
	}
	if o.Proto == nil {
		return o.Ext
	}
	inh := o.Proto.getProp(in, p)
	if inh == nil {
		return o.Ext
	}
	if inh.IsAcc {
		_, ok := inh.Set.(*Obj)
		return ok
	}
	if !o.Ext {
		return false
	}
	return inh.W
}

// Put is [[Put]] (8.12.5).
func (o *Obj) Put(in *Interp, p string, v Value, throw bool) {
	if !o.canPut(in, p) {
		if throw {
			in.ThrowError("TypeError", "cannot put "+p)
		}
		return
	}
	own := o.getOwn(in, p)
	if own != nil && !own.IsAcc {
		o.DefineOwn(in, p, &Desc{Value: v, HasValue: true}, throw)
		return
	}
	d := o.getProp(in, p)
	if d != nil && d.IsAcc {
		in.CallFn(d.Set.(*Obj), o, []Value{v})
		return
	}
	o.DefineOwn(in, p, dataDesc(v, true, true, true), throw)
}

// HasProperty is [[HasProperty]] (8.12.6).
func (o *Obj) HasProperty(in *Interp, p string) bool { return o.getProp(in, p) != nil }

// Delete is [[Delete]] (8.12.7); arguments objects: 10.6 [[Delete]].
func (o *Obj) Delete(in *Interp, p string, throw bool) bool {
	d := o.getOwn(in, p)
	if d == nil {
		return true
	}
	if d.C {
		o.removeSlot(p)
		if o.ArgMap != nil {
			delete(o.ArgMap, p)
		}
		return true
	}
	if throw {
		in.ThrowError("TypeError", "cannot delete "+p)
	}
	return false
}

// DefaultValue is [[DefaultValue]] (8.12.8); hint is "String", "Number" or ""
// (no hint behaves as Number: Date objects are never generated).
func (o *Obj) DefaultValue(in *Interp, hint string) Value {
	order := []string{"valueOf", "toString"}
	if hint == "String" {
		order = []string{"toString", "valueOf"}
	}
	for _, name := range order {
		f := o.Get(in, name)
		if fo, ok := f.(*Obj); ok && fo.Callable() {
			r := in.CallFn(fo, o, nil)
			if _, isObj := r.(*Obj); !isObj {
				return r
			}
		}
	}
	in.ThrowError("TypeError", "cannot convert object to primitive value")
	return nil
}

func sameValue(a, b Value) bool { // 9.12
	switch x := a.(type) {
	case undefT:
		return IsUndef(b)
	case nullT:
		return IsNull(b)
	case bool:
		y, ok := b.(bool)
		return ok && x == y
	case string:
		y, ok := b.(string)
		return ok && x == y
	case float64:
		y, ok := b.(float64)
		if !ok {
			return false
		}
		if math.IsNaN(x) && math.IsNaN(y) {
			return true
		}
		if x == 0 && y == 0 {
			return math.Signbit(x) == math.Signbit(y)
		}
		return x == y
	case *Obj:
		y, ok := b.(*Obj)
		return ok && x == y
	}
	return false
}

// DefineOwn is [[DefineOwnProperty]] (8.12.9) with the Array (15.4.5.1) and
// arguments (10.6) overrides.
func (o *Obj) DefineOwn(in *Interp, p string, d *Desc, throw bool) bool {
	if o.IsArray {
		return o.arrayDefineOwn(in, p, d, throw)
	}
	if o.ArgMap != nil {
		// 10.6 [[DefineOwnProperty]]
		_, mapped := o.ArgMap[p]
		var name string
		if mapped {
			name = o.ArgMap[p]
		}
		if !o.ordinaryDefineOwn(in, p, d, false) {
			if throw {
				in.ThrowError("TypeError", "cannot redefine "+p)
			}
			return false
		}
		if mapped && in.Flags&AltArgsDefineKeepsMap != 0 {
			if d.HasValue {
				o.ArgEnv.SetMutableBinding(in, name, d.Value, throw)
			}
			return true
		}
		if mapped {
			if d.isAccessor() {
				delete(o.ArgMap, p)
			} else {
				if d.HasValue {
					o.ArgEnv.SetMutableBinding(in, name, d.Value, throw)
				}
				if d.HasW && !d.W {
					delete(o.ArgMap, p)
				}
			}
		}
		return true
	}
	return o.ordinaryDefineOwn(in, p, d, throw)
}

func (o *Obj) ordinaryDefineOwn(in *Interp, p string, d *Desc, throw bool) bool {
	reject := func() bool {
		if throw {
			in.ThrowError("TypeError", "cannot define property "+p)
		}
		return false
	}
	// step 1: the raw slot (for arguments objects the mapped value is irrelevant
	// to validation except through SameValue on [[Value]], which 10.6 performs on
	// the unmapped slot as well)
	cur := o.props[p]
	if cur == nil && o.Class == "String" {
		cur = o.getOwn(in, p)
	}
	if cur == nil {
		if !o.Ext {
			return reject() // 3
		}
		// 4
		np := &Prop{}
		if d.isGeneric() || d.isData() {
			np.Value = Undefined
			if d.HasValue {
				np.Value = d.Value
			}
			np.W = d.HasW && d.W
		} else {
			np.IsAcc = true
			np.Get, np.Set = Undefined, Undefined
			if d.HasGet {
				np.Get = d.Get
			}
			if d.HasSet {
				np.Set = d.Set
			}
		}
		np.E = d.HasE && d.E
		np.C = d.HasC && d.C
		o.setSlot(p, np)
		return true
	}
	// 5: every field absent
	if !d.HasValue && !d.HasGet && !d.HasSet && !d.HasW && !d.HasE && !d.HasC {
		return true
	}
	// 6: every field present equals current
	same := true
	if d.HasValue && (cur.IsAcc || !sameValue(d.Value, cur.Value)) {
		same = false
	}
	if d.HasW && (cur.IsAcc || d.W != cur.W) {
		same = false
	}
	if d.HasGet && (!cur.IsAcc || !sameValue(d.Get, cur.Get)) {
		same = false
	}
	if d.HasSet && (!cur.IsAcc || !sameValue(d.Set, cur.Set)) {
		same = false
	}
	if d.HasE && d.E != cur.E {
		same = false
	}
	if d.HasC && d.C != cur.C {
		same = false
	}
	if same {
		return true
	}
	// 7
	if !cur.C {
		if d.HasC && d.C {
			return reject()
		}
		if d.HasE && d.E != cur.E {
			return reject()
		}
	}
	np := *cur
	switch {
	case d.isGeneric(): // 8
	case cur.IsAcc != d.isAccessor(): // 9
		if !cur.C {
			return reject()
		}
		if !cur.IsAcc {
			np = Prop{IsAcc: true, Get: Undefined, Set: Undefined, E: cur.E, C: cur.C}
		} else {
			np = Prop{Value: Undefined, W: false, E: cur.E, C: cur.C}
		}
	case !cur.IsAcc: // 10
		if !cur.C {
			if !cur.W && d.HasW && d.W {
				return reject()
			}
			if !cur.W && d.HasValue && !sameValue(d.Value, cur.Value) {
				return reject()
			}
		}
	default: // 11
		if !cur.C {
			if d.HasSet && !sameValue(d.Set, cur.Set) {
				return reject()
			}
			if d.HasGet && !sameValue(d.Get, cur.Get) {
				return reject()
			}
		}
	}
	// 12
	if d.HasValue {
		np.Value = d.Value
	}
	if d.HasW {
		np.W = d.W
	}
	if d.HasGet {
		np.Get = d.Get
	}
	if d.HasSet {
		np.Set = d.Set
	}
	if d.HasE {
		np.E = d.E
	}
	if d.HasC {
		np.C = d.C
	}
	o.setSlot(p, &np)
	return true
}

// arrayIndex reports whether p is an array index (15.4): ToString(ToUint32(p)) == p
// and the value is not 2^32-1.
func arrayIndex(p string) (uint32, bool) {
	if p == "" || len(p) > 10 {
		return 0, false
	}
	if p[0] == '0' && len(p) > 1 {
		return 0, false
	}
	var n uint64
	for i := 0; i < len(p); i++ {
		c := p[i]
		if c < '0' || c > '9' {
			return 0, false
		}
		n = n*10 + uint64(c-'0')
	}
	if n >= 4294967295 {
		return 0, false
	}
	return uint32(n), true
}

// arrayDefineOwn is 15.4.5.1.
func (o *Obj) arrayDefineOwn(in *Interp, p string, d *Desc, throw bool) bool {
	reject := func() bool {
		if throw {
			in.ThrowError("TypeError", "cannot define array property "+p)
		}
		return false
	}
	oldLenDesc := o.props["length"]
	oldLen := uint32(oldLenDesc.Value.(float64))
	if p == "length" {
		if !d.HasValue {
			return o.ordinaryDefineOwn(in, "length", d, throw)
		}
		nd := *d
		newLen := ToUint32(in, d.Value)
		if float64(newLen) != ToNumber(in, d.Value) {
			in.ThrowError("RangeError", "invalid array length")
		}
		nd.Value = float64(newLen)
		if newLen >= oldLen {
			return o.ordinaryDefineOwn(in, "length", &nd, throw)
		}
		if !oldLenDesc.W {
			return reject()
		}
		newWritable := true
		if nd.HasW && !nd.W {
			newWritable = false
			nd.W = true
		}
		if !o.ordinaryDefineOwn(in, "length", &nd, throw) {
			return false
		}
		for oldLen > newLen {
			oldLen--
			if !o.Delete(in, strconv.FormatUint(uint64(oldLen), 10), false) {
				nd.Value = float64(oldLen + 1)
				if !newWritable {
					nd.W, nd.HasW = false, true
				}
				o.ordinaryDefineOwn(in, "length", &nd, false)
				return reject()
			}
		}
		if !newWritable {
			o.ordinaryDefineOwn(in, "length", &Desc{W: false, HasW: true}, false)
		}
		return true
	}
	if idx, ok := arrayIndex(p); ok {
		if idx >= oldLen && !oldLenDesc.W {
			return reject()
		}
		if !o.ordinaryDefineOwn(in, p, d, false) {
			return reject()
		}
		if idx >= oldLen {
			oldLenDesc = o.props["length"]
			nl := *oldLenDesc
			nl.Value = float64(idx) + 1
			o.props["length"] = &nl
		}
		return true
	}
	return o.ordinaryDefineOwn(in, p, d, throw)
}

// ---- 9 type conversion

// ToPrimitive is 9.1.
func ToPrimitive(in *Interp, v Value, hint string) Value {
	if o, ok := v.(*Obj); ok {
		return o.DefaultValue(in, hint)
	}
	return v
}

// ToBoolean is 9.2.
func ToBoolean(v Value) bool {
	switch x := v.(type) {
	case undefT, nullT:
		return false
	case bool:
		return x
	case float64:
		return !(x == 0 || math.IsNaN(x))
	case string:
		return x != ""
	}
	return true
}

// ToNumber is 9.3.
func ToNumber(in *Interp, v Value) float64 {
	switch x := v.(type) {
	case undefT:
		return math.NaN()
	case nullT:
		return 0
	case bool:
		if x {
			return 1
		}
		return 0
	case float64:
		return x
	case string:
		return stringToNumber(x)
	case *Obj:
		return ToNumber(in, ToPrimitive(in, x, "Number"))
	}
	panic(fmt.Sprintf("ToNumber: bad value %T", v))
}

func isStrWhite(c byte) bool {
	return c == ' ' || c == '\t' || c == '\n' || c == '\r' || c == '\v' || c == '\f'
}

// stringToNumber is 9.3.1 for ASCII strings.
func stringToNumber(s string) float64 {
	for len(s) > 0 && isStrWhite(s[0]) {
		s = s[1:]
	}
	for len(s) > 0 && isStrWhite(s[len(s)-1]) {
		s = s[:len(s)-1]
	}
	if s == "" {
		return 0
	}
	if len(s) > 2 && s[0] == '0' && (s[1] == 'x' || s[1] == 'X') {
		n, err := strconv.ParseUint(s[2:], 16, 64)
		if err != nil {
			return math.NaN()
		}
		return float64(n)
	}
	t := s
	sign := 1.0
	if t[0] == '+' || t[0] == '-' {
		if t[0] == '-' {
			sign = -1
		}
		t = t[1:]
	}
	if t == "Infinity" {
		return math.Inf(int(sign))
	}
	// StrUnsignedDecimalLiteral: digits [. digits] [e[+-]digits] | . digits [exp]
	i, nd := 0, 0
	for i < len(t) && t[i] >= '0' && t[i] <= '9' {
		i++
		nd++
	}
	if i < len(t) && t[i] == '.' {
		i++
		for i < len(t) && t[i] >= '0' && t[i] <= '9' {
			i++
			nd++
		}
	}
	if nd == 0 {
		return math.NaN()
	}
	if i < len(t) && (t[i] == 'e' || t[i] == 'E') {
		i++
		if i < len(t) && (t[i] == '+' || t[i] == '-') {
			i++
		}
		ne := 0
		for i < len(t) && t[i] >= '0' && t[i] <= '9' {
			i++
			ne++
		}
		if ne == 0 {
			return math.NaN()
		}
	}
	if i != len(t) {
		return math.NaN()
	}
	f, err := strconv.ParseFloat(t, 64)
	if err != nil && !math.IsInf(f, 0) {
		return math.NaN()
	}
	return sign * f
}

// ToInteger is 9.4.
func ToInteger(in *Interp, v Value) float64 {
	n := ToNumber(in, v)
	if math.IsNaN(n) {
		return 0
	}
	if n == 0 || math.IsInf(n, 0) {
		return n
	}
	return math.Trunc(n)
}

// ToUint32 is 9.6.
func ToUint32(in *Interp, v Value) uint32 { return toUint32f(ToNumber(in, v)) }

func toUint32f(n float64) uint32 {
	if math.IsNaN(n) || math.IsInf(n, 0) || n == 0 {
		return 0
	}
	n = math.Trunc(n)
	m := math.Mod(n, 4294967296)
	if m < 0 {
		m += 4294967296
	}
	return uint32(m)
}

// ToInt32 is 9.5.
func ToInt32(in *Interp, v Value) int32 { return int32(toUint32f(ToNumber(in, v))) }

// ToString is 9.8.
func ToString(in *Interp, v Value) string {
	switch x := v.(type) {
	case undefT:
		return "undefined"
	case nullT:
		return "null"
	case bool:
		if x {
			return "true"
		}
		return "false"
	case float64:
		return NumberToString(x)
	case string:
		return x
	case *Obj:
		return ToString(in, ToPrimitive(in, x, "String"))
	}
	panic(fmt.Sprintf("ToString: bad value %T", v))
}

// NumberToString is 9.8.1 (shortest round-trip digits).
func NumberToString(m float64) string {
	switch {
	case math.IsNaN(m):
		return "NaN"
	case m == 0:
		return "0"
	case m < 0:
		return "-" + NumberToString(-m)
	case math.IsInf(m, 1):
		return "Infinity"
	}
	e := strconv.FormatFloat(m, 'e', -1, 64) // d.ddddde±xx
	mant, exp := e, 0
	if i := strings.IndexByte(e, 'e'); i >= 0 {
		mant = e[:i]
		exp, _ = strconv.Atoi(e[i+1:])
	}
	digits := strings.Replace(mant, ".", "", 1)
	k := len(digits)
	n := exp + 1
	switch {
	case k <= n && n <= 21:
		return digits + strings.Repeat("0", n-k)
	case 0 < n && n <= 21:
		return digits[:n] + "." + digits[n:]
	case -6 < n && n <= 0:
		return "0." + strings.Repeat("0", -n) + digits
	}
	es := strconv.Itoa(n - 1)
	if n-1 > 0 {
		es = "+" + es
	}
	if k == 1 {
		return digits + "e" + es
	}
	return digits[:1] + "." + digits[1:] + "e" + es
}

// ToObject is 9.9.
func ToObject(in *Interp, v Value) *Obj {
	switch x := v.(type) {
	case undefT, nullT:
		in.ThrowError("TypeError", "cannot convert undefined or null to object")
	case bool:
		o := newObj("Boolean", in.BooleanProto)
		o.Prim = x
		return o
	case float64:
		o := newObj("Number", in.NumberProto)
		o.Prim = x
		return o
	case string:
		return in.newStringObject(x)
	case *Obj:
		return x
	}
	panic(fmt.Sprintf("ToObject: bad value %T", v))
}

// CheckObjectCoercible is 9.10.
func CheckObjectCoercible(in *Interp, v Value) {
	if IsUndef(v) || IsNull(v) {
		in.ThrowError("TypeError", "value is not object coercible")
	}
}

// TypeOf is the table of 11.4.3.
func TypeOf(v Value) string {
	switch x := v.(type) {
	case undefT:
		return "undefined"
	case nullT:
		return "object"
	case bool:
		return "boolean"
	case float64:
		return "number"
	case string:
		return "string"
	case *Obj:
		if x.Callable() {
			return "function"
		}
		return "object"
	}
	panic("typeof: bad value")
}

// ---- canonical rendering shared with the observation side (Appendix A)

// CanonNum renders a number: NaN, signed zeros and infinities readable,
// everything else with 17 significant digits.
func CanonNum(f float64) string {
	switch {
	case math.IsNaN(f):
		return "NaN"
	case f == 0 && math.Signbit(f):
		return "-0"
	case f == 0:
		return "0"
	case math.IsInf(f, 1):
		return "Infinity"
	case math.IsInf(f, -1):
		return "-Infinity"
	}
	return strconv.FormatFloat(f, 'g', 17, 64)
}

// CanonStr renders an ASCII string the way ox.Str16 renders its UTF-16 units.
func CanonStr(s string) string {
	var sb strings.Builder
	sb.WriteString("s:")
	for i := 0; i < len(s); i++ {
		c := s[i]
		if c >= 0x20 && c < 0x7f && c != '\\' {
			sb.WriteByte(c)
		} else {
			fmt.Fprintf(&sb, "\\u%04X", c)
		}
	}
	return sb.String()
}

// Canon renders a value canonically: u, n, b:0/1, d:<number>, s:<string>,
// o:<[[Class]]>.
func Canon(v Value) string {
	switch x := v.(type) {
	case undefT:
		return "u"
	case nullT:
		return "n"
	case bool:
		if x {
			return "b:1"
		}
		return "b:0"
	case float64:
		return "d:" + CanonNum(x)
	case string:
		return CanonStr(x)
	case *Obj:
		return "o:" + x.Class
	}
	return "?"
}
