package syntax

import (
	"fmt"
	"math"
	"math/big"
	"strings"
	"unicode"
	"unicode/utf8"
)

// Relax is a set of named relaxations of the ES5 grammar. Each one describes a
// way in which otto accepts text that ES5 rejects; the parser takes a relaxed
// branch only where the strict grammar has no continuation, and records it.
type Relax uint32

// Quirk is a set of named alternative readings (same text, different tree or
// literal value). They are the "alternative models" of known findings.
type Quirk uint32

// Relaxations.
const (
	RelaxTrailingCommaArgs      Relax = 1 << iota // f(a,)
	RelaxTrailingCommaParams                      // function(a,){}
	RelaxObjectMissingComma                       // {a:1 b:2}
	RelaxAccessorParams                           // get x(a){} / set x(){} / set x(a,b){}
	RelaxObjectClash                              // 11.1.5 data/accessor and duplicate accessor clashes
	RelaxFunctionInStatement                      // function declaration in Statement position
	RelaxDoWhileASI                               // do S while (e) x  (no line terminator)
	RelaxParenLabel                               // (a): S
	RelaxContinueAnyLabel                         // continue L where L labels a non-iteration statement
	RelaxAndNotAssign                             // a &^= b
	RelaxRegexFlags                               // /a/gg, /a/x
	RelaxRegexFlagsDetached                       // /a/ g   (white space between literal and flags)
	RelaxRegexThenKeyword                         // /a/in b  (reserved word directly after the literal is not read as flags)
	RelaxNELWhiteSpace                            // U+0085 treated as white space
	RelaxPunctuatorKey                            // {+:1}: a punctuator where a PropertyName is required
	RelaxRelationalNoIn                           // for (a < b in c;;): `in` admitted in the right operand of a relational operator in NoIn context
	RelaxRegexBody                                // regexp body that 15.10.1 rejects
	RelaxRegexUnterminatedClass                   // /[/<newline or end>: literal ends at the line end inside a character class, read as an empty regexp
	RelaxSwitchUnterminated                       // switch (x) { case 1: y <end of input>
	relaxEnd
)

var relaxNames = []string{"trailing-comma-args", "trailing-comma-params", "object-missing-comma", "accessor-params",
	"object-clash", "function-in-statement", "do-while-asi", "paren-label", "continue-any-label", "and-not-assign",
	"regex-flags", "regex-flags-detached", "regex-then-keyword", "nel-white-space", "punctuator-key", "relational-noin", "regex-body", "regex-unterminated-class", "switch-unterminated"}

// AllRelax is every relaxation.
const AllRelax = relaxEnd - 1

// Names lists the relaxations in the set.
func (r Relax) Names() []string {
	var out []string
	for i, n := range relaxNames {
		if r&(1<<uint(i)) != 0 {
			out = append(out, n)
		}
	}
	return out
}

func (r Relax) String() string { return strings.Join(r.Names(), "+") }

// Quirks.
const (
	QuirkRelationalRightAssoc  Quirk = 1 << iota // a<b<c read as a<(b<c); right operand parsed with `in` allowed
	QuirkCommentNoLT                             // a line terminator inside /* */ does not count for ASI
	QuirkRegexFlagsDetached                      // identifier after a regexp literal (white space / newline between) read as its flags
	QuirkNumericKeyText                          // numeric property key kept as literal text
	QuirkOctalEscapeGreedy                       // "\400" read as one escape (U+0100)
	QuirkLSContinuationKept                      // "\<LS>" contributes LS instead of nothing
	QuirkSurrogateFFFD                           // \uD800-\uDFFF escapes yield U+FFFD each
	QuirkSemicolonAfterNewline                   // `var a⏎;` `return⏎;` `debugger⏎;`: the explicit `;` becomes an extra empty statement
	QuirkCondMiddleNoIn                          // conditional's middle operand inherits the NoIn restriction
	QuirkDotNameLettersOnly                      // a.<name>: names with characters outside [$_\p{L}\d] yield a silent BadExpression
	QuirkNoZWJ                                   // U+200C / U+200D are not IdentifierPart characters
	QuirkKeywordNameNoLT                         // a.<reserved word>: a line terminator after the name is not seen (no ASI, no restricted production)
	quirkEnd
)

var quirkNames = []string{"relational-right-assoc", "comment-no-lt", "regex-flags-detached", "numeric-key-text",
	"octal-escape-greedy", "ls-continuation-kept", "surrogate-fffd", "semicolon-after-newline", "cond-middle-noin", "dot-name-letters-only", "no-zwnj-zwj", "keyword-name-no-lt"}

// AllQuirks lists the single quirks.
func AllQuirks() []Quirk {
	var out []Quirk
	for q := Quirk(1); q < quirkEnd; q <<= 1 {
		out = append(out, q)
	}
	return out
}

func (q Quirk) String() string {
	var out []string
	for i, n := range quirkNames {
		if q&(1<<uint(i)) != 0 {
			out = append(out, n)
		}
	}
	return strings.Join(out, "+")
}

// Options selects relaxations and quirks; the zero value is plain ES5.1.
type Options struct {
	Relax Relax
	Quirk Quirk
}

type tokKind int

const (
	tEOF  tokKind = iota
	tName         // IdentifierName (identifiers, reserved words)
	tPunct
	tNum
	tStr
	tRegex
)

type tok struct {
	kind  tokKind
	text  string // decoded name / punctuator / raw literal
	raw   string
	nl    bool // a line terminator precedes the token
	esc   bool // name spelled with unicode escapes
	num   float64
	units []uint16
	body  string
	flags string
	pos   int
	end   int
}

type lexer struct {
	src  string
	pos  int
	opt  Options
	used Relax
}

type syntaxError struct {
	pos int
	msg string
}

func (e *syntaxError) Error() string { return fmt.Sprintf("offset %d: %s", e.pos, e.msg) }

func (lx *lexer) fail(pos int, format string, args ...interface{}) {
	panic(&syntaxError{pos: pos, msg: fmt.Sprintf(format, args...)})
}

// IsLineTerminator: 7.3.
func IsLineTerminator(r rune) bool {
	return r == '\n' || r == '\r' || r == 0x2028 || r == 0x2029
}

// IsWhiteSpace: 7.2 (TAB VT FF SP NBSP BOM and category Zs).
func IsWhiteSpace(r rune) bool {
	switch r {
	case '\t', '\v', '\f', ' ', 0xA0, 0xFEFF:
		return true
	}
	return r >= 0x80 && unicode.Is(unicode.Zs, r)
}

// IsIDStart: 7.6 IdentifierStart without the escape form.
func IsIDStart(r rune) bool {
	if r < 0x80 {
		return r == '$' || r == '_' || r >= 'a' && r <= 'z' || r >= 'A' && r <= 'Z'
	}
	return unicode.In(r, unicode.Lu, unicode.Ll, unicode.Lt, unicode.Lm, unicode.Lo, unicode.Nl)
}

// IsIDPart: 7.6 IdentifierPart without the escape form.
func IsIDPart(r rune) bool {
	if r < 0x80 {
		return IsIDStart(r) || r >= '0' && r <= '9'
	}
	return IsIDStart(r) || r == 0x200C || r == 0x200D || unicode.In(r, unicode.Mn, unicode.Mc, unicode.Nd, unicode.Pc)
}

func (lx *lexer) peek() (rune, int) {
	if lx.pos >= len(lx.src) {
		return -1, 0
	}
	c := lx.src[lx.pos]
	if c < 0x80 {
		return rune(c), 1
	}
	r, w := utf8.DecodeRuneInString(lx.src[lx.pos:])
	if r == utf8.RuneError && w == 1 {
		lx.fail(lx.pos, "invalid UTF-8")
	}
	return r, w
}

func (lx *lexer) peekAt(off int) rune {
	if lx.pos+off >= len(lx.src) {
		return -1
	}
	return rune(lx.src[lx.pos+off])
}

// skip consumes white space, line terminators and comments; it reports
// whether a line terminator (7.3, or a multi-line comment containing one, 7.4)
// was passed.
func (lx *lexer) skip() bool {
	nl := false
	for {
		r, w := lx.peek()
		switch {
		case r == -1:
			return nl
		case IsLineTerminator(r):
			nl = true
			lx.pos += w
		case IsWhiteSpace(r):
			lx.pos += w
		case r == 0x85 && lx.opt.Relax&RelaxNELWhiteSpace != 0:
			lx.used |= RelaxNELWhiteSpace
			lx.pos += w
		case r == '/' && lx.peekAt(1) == '/':
			lx.pos += 2
			for {
				r, w := lx.peek()
				if r == -1 || IsLineTerminator(r) {
					break
				}
				lx.pos += w
			}
		case r == '/' && lx.peekAt(1) == '*':
			start := lx.pos
			lx.pos += 2
			for {
				r, w := lx.peek()
				if r == -1 {
					lx.fail(start, "unterminated comment")
				}
				if r == '*' && lx.peekAt(1) == '/' {
					lx.pos += 2
					break
				}
				if IsLineTerminator(r) && lx.opt.Quirk&QuirkCommentNoLT == 0 {
					nl = true
				}
				lx.pos += w
			}
		default:
			return nl
		}
	}
}

var punctuators = []string{
	">>>=", "===", "!==", ">>>", "<<=", ">>=",
	"<=", ">=", "==", "!=", "++", "--", "<<", ">>", "&&", "||", "+=", "-=", "*=", "%=", "&=", "|=", "^=", "/=",
	"{", "}", "(", ")", "[", "]", ".", ";", ",", "<", ">", "+", "-", "*", "%", "&", "|", "^", "!", "~", "?", ":", "=", "/",
}

// next scans the next token with the lexical goal InputElementDiv; the parser
// asks for a re-scan as a regular expression literal where the grammar allows one.
func (lx *lexer) next() tok {
	nl := lx.skip()
	t := tok{nl: nl, pos: lx.pos}
	r, _ := lx.peek()
	switch {
	case r == -1:
		t.kind = tEOF
	case IsIDStart(r) || r == '\\':
		lx.name(&t)
	case r >= '0' && r <= '9' || r == '.' && lx.peekAt(1) >= '0' && lx.peekAt(1) <= '9':
		lx.number(&t)
	case r == '"' || r == '\'':
		lx.str(&t)
	default:
		t.kind = tPunct
		if lx.opt.Relax&RelaxAndNotAssign != 0 && strings.HasPrefix(lx.src[lx.pos:], "&^=") {
			t.text = "&^="
			lx.used |= RelaxAndNotAssign
		} else {
			for _, p := range punctuators {
				if strings.HasPrefix(lx.src[lx.pos:], p) {
					t.text = p
					break
				}
			}
		}
		if t.text == "" {
			lx.fail(lx.pos, "illegal character %q", r)
		}
		lx.pos += len(t.text)
	}
	t.end = lx.pos
	t.raw = lx.src[t.pos:t.end]
	return t
}

func hexVal(c byte) int {
	switch {
	case c >= '0' && c <= '9':
		return int(c - '0')
	case c >= 'a' && c <= 'f':
		return int(c-'a') + 10
	case c >= 'A' && c <= 'F':
		return int(c-'A') + 10
	}
	return -1
}

func (lx *lexer) hexDigits(n int) int {
	v := 0
	for i := 0; i < n; i++ {
		if lx.pos >= len(lx.src) {
			lx.fail(lx.pos, "bad hex escape")
		}
		h := hexVal(lx.src[lx.pos])
		if h < 0 {
			lx.fail(lx.pos, "bad hex escape")
		}
		v = v<<4 | h
		lx.pos++
	}
	return v
}

func (lx *lexer) name(t *tok) {
	var sb strings.Builder
	first := true
	for {
		r, w := lx.peek()
		if r == '\\' {
			p := lx.pos
			lx.pos++
			if lx.pos >= len(lx.src) || lx.src[lx.pos] != 'u' {
				lx.fail(p, "bad identifier escape")
			}
			lx.pos++
			r = rune(lx.hexDigits(4))
			t.esc = true
			if first && !IsIDStart(r) || !first && !IsIDPart(r) {
				lx.fail(p, "escape does not denote an identifier character")
			}
			sb.WriteRune(r)
		} else if r != -1 && (first && IsIDStart(r) || !first && IsIDPart(r)) && !((r == 0x200C || r == 0x200D) && lx.opt.Quirk&QuirkNoZWJ != 0) {
			sb.WriteRune(r)
			lx.pos += w
		} else {
			break
		}
		first = false
	}
	t.kind = tName
	t.text = sb.String()
}

// number scans 7.8.3 NumericLiteral plus B.1.1 LegacyOctalIntegerLiteral and
// computes the exact mathematical value, rounded once to the nearest double.
func (lx *lexer) number(t *tok) {
	s := lx.src
	p := lx.pos
	isDigit := func(i int) bool { return i < len(s) && s[i] >= '0' && s[i] <= '9' }
	mv := new(big.Rat)
	switch {
	case s[p] == '0' && p+1 < len(s) && (s[p+1] == 'x' || s[p+1] == 'X'):
		q := p + 2
		v := new(big.Int)
		for q < len(s) && hexVal(s[q]) >= 0 {
			v.Mul(v, big.NewInt(16))
			v.Add(v, big.NewInt(int64(hexVal(s[q]))))
			q++
		}
		if q == p+2 {
			lx.fail(p, "hex literal without digits")
		}
		mv.SetInt(v)
		lx.pos = q
	case s[p] == '0' && isDigit(p+1):
		// B.1.1: 0 followed by octal digits only
		q := p + 1
		v := new(big.Int)
		for q < len(s) && s[q] >= '0' && s[q] <= '7' {
			v.Mul(v, big.NewInt(8))
			v.Add(v, big.NewInt(int64(s[q]-'0')))
			q++
		}
		mv.SetInt(v)
		lx.pos = q
	default:
		q := p
		intDigits := ""
		for isDigit(q) {
			q++
		}
		intDigits = s[p:q]
		frac := ""
		if q < len(s) && s[q] == '.' {
			q++
			f := q
			for isDigit(q) {
				q++
			}
			frac = s[f:q]
		}
		if intDigits == "" && frac == "" {
			lx.fail(p, "bad numeric literal")
		}
		exp := 0
		if q < len(s) && (s[q] == 'e' || s[q] == 'E') {
			q++
			neg := false
			if q < len(s) && (s[q] == '+' || s[q] == '-') {
				neg = s[q] == '-'
				q++
			}
			if !isDigit(q) {
				lx.fail(p, "exponent without digits")
			}
			for isDigit(q) {
				if exp < 100000 {
					exp = exp*10 + int(s[q]-'0')
				}
				q++
			}
			if neg {
				exp = -exp
			}
		}
		lx.pos = q
		digits := strings.TrimLeft(intDigits+frac, "0")
		exp -= len(frac)
		if digits == "" {
			t.kind, t.num = tNum, 0
			lx.afterNumber(p)
			return
		}
		// magnitude guard: 10^exp with |exp| beyond the double range
		if exp+len(digits) > 400 {
			t.kind, t.num = tNum, math.Inf(1)
			lx.afterNumber(p)
			return
		}
		if exp+len(digits) < -400 {
			t.kind, t.num = tNum, 0
			lx.afterNumber(p)
			return
		}
		v, _ := new(big.Int).SetString(digits, 10)
		mv.SetInt(v)
		pow := new(big.Int).Exp(big.NewInt(10), big.NewInt(int64(abs(exp))), nil)
		if exp >= 0 {
			mv.Mul(mv, new(big.Rat).SetInt(pow))
		} else {
			mv.Quo(mv, new(big.Rat).SetInt(pow))
		}
	}
	t.kind = tNum
	t.num = ratToFloat(mv)
	lx.afterNumber(p)
}

// ratToFloat rounds an exact non-negative rational to the nearest double,
// ties to even (8.5); big.Rat.Float64 is correctly rounded.
func ratToFloat(r *big.Rat) float64 {
	f, _ := r.Float64()
	return f
}

func abs(x int) int {
	if x < 0 {
		return -x
	}
	return x
}

// afterNumber enforces 7.8.3: the character after a NumericLiteral must not be
// an IdentifierStart or a DecimalDigit.
func (lx *lexer) afterNumber(start int) {
	r, _ := lx.peek()
	if r != -1 && (IsIDStart(r) || r == '\\' || r >= '0' && r <= '9') {
		lx.fail(start, "numeric literal followed by identifier start or digit")
	}
}

func appendRune16(u []uint16, r rune) []uint16 {
	if r >= 0x10000 {
		r -= 0x10000
		return append(u, uint16(0xD800+(r>>10)), uint16(0xDC00+(r&0x3FF)))
	}
	return append(u, uint16(r))
}

// str scans 7.8.4 StringLiteral with B.1.2 octal escapes and computes its SV.
func (lx *lexer) str(t *tok) {
	start := lx.pos
	quote := rune(lx.src[lx.pos])
	lx.pos++
	var u []uint16
	for {
		r, w := lx.peek()
		switch {
		case r == -1 || IsLineTerminator(r):
			lx.fail(start, "unterminated string literal")
		case r == quote:
			lx.pos += w
			t.kind = tStr
			t.units = u
			return
		case r != '\\':
			u = appendRune16(u, r)
			lx.pos += w
		default:
			lx.pos++
			e, ew := lx.peek()
			if e == -1 {
				lx.fail(start, "unterminated string literal")
			}
			lx.pos += ew
			switch {
			case IsLineTerminator(e): // LineContinuation
				if e == '\r' && lx.peekAt(0) == '\n' {
					lx.pos++
				}
				if e >= 0x2028 && lx.opt.Quirk&QuirkLSContinuationKept != 0 {
					u = append(u, uint16(e))
				}
			case e == 'b':
				u = append(u, 8)
			case e == 't':
				u = append(u, 9)
			case e == 'n':
				u = append(u, 10)
			case e == 'v':
				u = append(u, 11)
			case e == 'f':
				u = append(u, 12)
			case e == 'r':
				u = append(u, 13)
			case e == 'x':
				u = append(u, uint16(lx.hexDigits(2)))
			case e == 'u':
				c := uint16(lx.hexDigits(4))
				if c >= 0xD800 && c <= 0xDFFF && lx.opt.Quirk&QuirkSurrogateFFFD != 0 {
					c = 0xFFFD
				}
				u = append(u, c)
			case e >= '0' && e <= '7':
				// B.1.2 OctalEscapeSequence; \0 not followed by a digit is NUL (7.8.4)
				v := int(e - '0')
				max := 2
				if e >= '4' && lx.opt.Quirk&QuirkOctalEscapeGreedy == 0 {
					max = 1
				}
				for i := 0; i < max; i++ {
					c := lx.peekAt(0)
					if c < '0' || c > '7' {
						break
					}
					v = v*8 + int(c-'0')
					lx.pos++
				}
				u = append(u, uint16(v))
			default:
				// NonEscapeCharacter (and, as every engine does, \8 and \9)
				u = appendRune16(u, e)
			}
		}
	}
}

// regex re-scans from the start of a `/` or `/=` token as 7.8.5 RegularExpressionLiteral.
func (lx *lexer) regex(t *tok) {
	start := t.pos
	lx.pos = start + 1
	inClass := false
	first := true
	for {
		r, w := lx.peek()
		if r == -1 || IsLineTerminator(r) {
			if inClass && lx.opt.Relax&RelaxRegexUnterminatedClass != 0 {
				// otto: the literal silently ends with the line and denotes the empty pattern
				lx.used |= RelaxRegexUnterminatedClass
				lx.pos += w
				if r == '\r' && lx.peekAt(0) == '\n' {
					lx.pos++
				}
				t.kind, t.body, t.flags = tRegex, "", ""
				t.end = lx.pos
				t.raw = lx.src[start:lx.pos]
				t.text = t.raw
				return
			}
			lx.fail(start, "unterminated regular expression literal")
		}
		if first && r == '*' {
			lx.fail(start, "regular expression body cannot start with *")
		}
		first = false
		lx.pos += w
		if r == '\\' {
			e, ew := lx.peek()
			if e == -1 || IsLineTerminator(e) {
				lx.fail(start, "unterminated regular expression literal")
			}
			lx.pos += ew
		} else if r == '[' {
			inClass = true
		} else if r == ']' {
			inClass = false
		} else if r == '/' && !inClass {
			break
		}
	}
	t.body = lx.src[start+1 : lx.pos-1]
	fs := lx.pos
	for {
		r, w := lx.peek()
		// a `\` here would start a UnicodeEscapeSequence of IdentifierPart: the flags
		// text then contains a backslash and is invalid (15.10.4.1); ending the
		// flags before it leaves an identifier token that no production admits
		// after a literal, so the text is rejected either way.
		if r == -1 || r == '\\' || !IsIDPart(r) {
			break
		}
		lx.pos += w
	}
	t.flags = lx.src[fs:lx.pos]
	if lx.opt.Relax&RelaxRegexThenKeyword != 0 && t.flags != "" && isReserved(t.flags) {
		// otto: a reserved word directly after the literal is the next token
		lx.used |= RelaxRegexThenKeyword
		lx.pos = fs
		t.flags = ""
	}
	t.kind = tRegex
	t.end = lx.pos
	t.raw = lx.src[start:lx.pos]
	t.text = t.raw
}

var reserved = map[string]bool{}

func init() {
	for _, w := range strings.Fields(`break case catch continue debugger default delete do else finally for function if in
		instanceof new return switch this throw try typeof var void while with
		class const enum export extends import super null true false`) {
		reserved[w] = true
	}
}

func isReserved(s string) bool { return reserved[s] }

// IsReservedWord reports whether s is an ES5 ReservedWord in non-strict code (7.6.1).
func IsReservedWord(s string) bool { return reserved[s] }
