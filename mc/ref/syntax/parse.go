package syntax

import (
	"math"
	"strconv"
	"strings"
	"unicode"
	"unicode/utf16"
)

// Result is the outcome of the reference recogniser.
type Result struct {
	Tree *Node // nil when the text is rejected
	Err  error
	Used Relax // relaxations that were needed to accept the text
	// BadNode: (QuirkDotNameLettersOnly only) the alternative model accepts the
	// text but leaves a bad-expression placeholder in the tree.
	BadNode bool
}

// Accepted reports whether the text is a Program under the given options.
func (r Result) Accepted() bool { return r.Err == nil }

// Outcome renders the result as one comparable string: the tree dump or "reject".
func (r Result) Outcome() string {
	if r.BadNode {
		return "accepted-with-bad-node"
	}
	if r.Err != nil {
		return "reject"
	}
	return r.Tree.Dump()
}

type label struct {
	name string
	iter bool
}

type parser struct {
	lx          *lexer
	tok         tok
	opt         Options
	inFunction  bool
	labels      []label
	iterDepth   int
	switchDepth int
}

// Parse recognises src as an ES5.1 Program (non-strict code) and builds its tree.
func Parse(src string, opt Options) (res Result) {
	p := &parser{lx: &lexer{src: src, opt: opt}, opt: opt}
	defer func() {
		if e := recover(); e != nil {
			if _, bad := e.(*quirkBad); bad {
				res = Result{Err: &syntaxError{msg: "bad node"}, BadNode: true}
				return
			}
			se, ok := e.(*syntaxError)
			if !ok {
				panic(e)
			}
			res = Result{Err: se, Used: p.lx.used}
		}
	}()
	p.next()
	prog := &Node{Kind: "Program"}
	for p.tok.kind != tEOF {
		prog.Kids = append(prog.Kids, p.sourceElement())
	}
	return Result{Tree: prog, Used: p.lx.used}
}

func (p *parser) relax(r Relax) bool {
	if p.opt.Relax&r != 0 {
		p.lx.used |= r
		return true
	}
	return false
}

func (p *parser) quirk(q Quirk) bool { return p.opt.Quirk&q != 0 }

func (p *parser) next() { p.tok = p.lx.next() }

func (p *parser) fail(format string, args ...interface{}) {
	p.lx.fail(p.tok.pos, format, args...)
}

func (p *parser) isPunct(s string) bool { return p.tok.kind == tPunct && p.tok.text == s }

// isKw: the current token is the reserved word w (spelled without escapes).
func (p *parser) isKw(w string) bool { return p.tok.kind == tName && !p.tok.esc && p.tok.text == w }

func (p *parser) isIdentifier() bool { return p.tok.kind == tName && !isReserved(p.tok.text) }

func (p *parser) expect(s string) {
	if !p.isPunct(s) {
		p.fail("expected %q, found %q", s, p.tok.raw)
	}
	p.next()
}

func (p *parser) expectKw(w string) {
	if !p.isKw(w) {
		p.fail("expected %q, found %q", w, p.tok.raw)
	}
	p.next()
}

func (p *parser) identifier() string {
	if !p.isIdentifier() {
		p.fail("expected identifier, found %q", p.tok.raw)
	}
	s := p.tok.text
	p.next()
	return s
}

// peekIsColon looks one token past the current one.
func (p *parser) peekIsColon() bool {
	save, used := p.lx.pos, p.lx.used
	ok := true
	var t tok
	func() {
		defer func() {
			if e := recover(); e != nil {
				if _, is := e.(*syntaxError); !is {
					panic(e)
				}
				ok = false
			}
		}()
		t = p.lx.next()
	}()
	p.lx.pos, p.lx.used = save, used
	return ok && t.kind == tPunct && t.text == ":"
}

// semicolon implements 7.9.1 for a statement-terminating `;`: the offending
// token is the current one (no production continues the statement here); a
// semicolon is inserted iff it is preceded by a line terminator, is `}`, or
// the input has ended.
func (p *parser) semicolon(keywordStatement bool) {
	if p.isPunct(";") {
		if keywordStatement && p.tok.nl && p.quirk(QuirkSemicolonAfterNewline) {
			return
		}
		p.next()
		return
	}
	if p.isPunct("}") || p.tok.kind == tEOF || p.tok.nl {
		return
	}
	p.fail("expected ';', found %q", p.tok.raw)
}

// ---------------------------------------------------------------- A.5 / A.4

func (p *parser) sourceElement() *Node {
	if p.isKw("function") {
		return p.functionDeclaration()
	}
	return p.statement()
}

func (p *parser) functionDeclaration() *Node {
	p.expectKw("function")
	name := p.identifier()
	f := p.functionRest(name)
	return N("FuncDecl", "", f)
}

// functionRest parses ( FormalParameterList_opt ) { FunctionBody }.
func (p *parser) functionRest(name string) *Node {
	params := &Node{Kind: "Params"}
	p.expect("(")
	if !p.isPunct(")") {
		for {
			params.Kids = append(params.Kids, Id(p.identifier()))
			if !p.isPunct(",") {
				break
			}
			p.next()
			if p.isPunct(")") && p.relax(RelaxTrailingCommaParams) {
				break
			}
		}
	}
	p.expect(")")
	return N("Function", name, params, p.functionBody())
}

func (p *parser) functionBody() *Node {
	saveF, saveL, saveI, saveS := p.inFunction, p.labels, p.iterDepth, p.switchDepth
	p.inFunction, p.labels, p.iterDepth, p.switchDepth = true, nil, 0, 0
	body := &Node{Kind: "Body"}
	p.expect("{")
	for !p.isPunct("}") {
		if p.tok.kind == tEOF {
			p.fail("unterminated function body")
		}
		body.Kids = append(body.Kids, p.sourceElement())
	}
	p.next()
	p.inFunction, p.labels, p.iterDepth, p.switchDepth = saveF, saveL, saveI, saveS
	return body
}

func (p *parser) block() *Node {
	b := &Node{Kind: "Block"}
	p.expect("{")
	for !p.isPunct("}") {
		if p.tok.kind == tEOF {
			p.fail("unterminated block")
		}
		b.Kids = append(b.Kids, p.statement())
	}
	p.next()
	return b
}

func (p *parser) statement() *Node {
	t := p.tok
	if t.kind == tPunct {
		switch t.text {
		case "{":
			return p.block()
		case ";":
			p.next()
			return N("Empty", "")
		}
	}
	if t.kind == tName && !t.esc {
		switch t.text {
		case "var":
			p.next()
			v := &Node{Kind: "Var", Kids: p.varDeclarations(false)}
			p.semicolon(true)
			return v
		case "if":
			return p.ifStatement()
		case "do":
			return p.doStatement()
		case "while":
			p.next()
			p.expect("(")
			test := p.expression(false)
			p.expect(")")
			return N("While", "", test, p.iterationBody())
		case "for":
			return p.forStatement()
		case "continue", "break":
			return p.branch()
		case "return":
			if !p.inFunction {
				p.fail("return outside a function")
			}
			p.next()
			var arg *Node
			if !p.isPunct(";") && !p.isPunct("}") && p.tok.kind != tEOF && !p.tok.nl {
				arg = p.expression(false)
			}
			p.semicolon(true)
			return N("Return", "", arg)
		case "with":
			p.next()
			p.expect("(")
			obj := p.expression(false)
			p.expect(")")
			return N("With", "", obj, p.statement())
		case "switch":
			return p.switchStatement()
		case "throw":
			p.next()
			if p.tok.nl {
				p.fail("line terminator after throw")
			}
			arg := p.expression(false)
			p.semicolon(true)
			return N("Throw", "", arg)
		case "try":
			return p.tryStatement()
		case "debugger":
			p.next()
			p.semicolon(true)
			return N("Debugger", "")
		case "function":
			// 12.4: an ExpressionStatement cannot start with `function`, and
			// FunctionDeclaration is not a Statement.
			if p.relax(RelaxFunctionInStatement) {
				return p.functionDeclaration()
			}
			p.fail("function declaration in statement position")
		}
	}
	if p.isIdentifier() && p.peekIsColon() {
		return p.labelled()
	}
	e := p.expression(false)
	if p.isPunct(":") && e.Kind == "Ident" && e.Paren && p.relax(RelaxParenLabel) {
		p.next()
		return p.labelledRest([]string{e.Op})
	}
	p.semicolon(false)
	return N("Expr", "", e)
}

func (p *parser) labelled() *Node {
	var names []string
	for p.isIdentifier() && p.peekIsColon() {
		names = append(names, p.tok.text)
		p.next()
		p.next()
	}
	return p.labelledRest(names)
}

func (p *parser) labelledRest(names []string) *Node {
	for i, n := range names {
		for _, l := range p.labels {
			if l.name == n {
				p.fail("duplicate label %s", n)
			}
		}
		for _, m := range names[:i] {
			if m == n {
				p.fail("duplicate label %s", n)
			}
		}
	}
	iter := p.isKw("do") || p.isKw("while") || p.isKw("for")
	depth := len(p.labels)
	for _, n := range names {
		p.labels = append(p.labels, label{n, iter})
	}
	s := p.statement()
	p.labels = p.labels[:depth]
	for i := len(names) - 1; i >= 0; i-- {
		s = N("Label", names[i], s)
	}
	return s
}

func (p *parser) iterationBody() *Node {
	p.iterDepth++
	s := p.statement()
	p.iterDepth--
	return s
}

func (p *parser) ifStatement() *Node {
	p.next()
	p.expect("(")
	test := p.expression(false)
	p.expect(")")
	cons := p.statement()
	var alt *Node
	if p.isKw("else") {
		p.next()
		alt = p.statement()
	}
	return N("If", "", test, cons, alt)
}

func (p *parser) doStatement() *Node {
	p.next()
	body := p.iterationBody()
	p.expectKw("while")
	p.expect("(")
	test := p.expression(false)
	p.expect(")")
	if !p.isPunct(";") && !p.isPunct("}") && p.tok.kind != tEOF && !p.tok.nl && p.relax(RelaxDoWhileASI) {
		return N("Do", "", body, test)
	}
	p.semicolon(false)
	return N("Do", "", body, test)
}

func (p *parser) varDeclarations(noIn bool) []*Node {
	var l []*Node
	for {
		name := p.identifier()
		var init *Node
		if p.isPunct("=") {
			p.next()
			init = p.assignment(noIn)
		}
		l = append(l, N("Decl", name, init))
		if !p.isPunct(",") {
			return l
		}
		p.next()
	}
}

// lhsLevel: the node was derived by LeftHandSideExpression (or is parenthesised).
func lhsLevel(e *Node) bool { return e.Paren || Level(e) >= lvNew }

// referenceForm: the expression can evaluate to a Reference (11.13.1, 11.3, 11.4.4/5, 12.6.4;
// clause 16 lets an implementation report the others early, and the property requires it).
// A call is admitted: host functions may return References (8.7).
func referenceForm(e *Node) bool {
	switch e.Kind {
	case "Ident", "Dot", "Index", "Call":
		return true
	}
	return false
}

func (p *parser) forStatement() *Node {
	p.next()
	p.expect("(")
	var init *Node
	switch {
	case p.isKw("var"):
		p.next()
		decls := p.varDeclarations(true)
		init = &Node{Kind: "Var", Kids: decls}
		if len(decls) == 1 && p.isKw("in") {
			return p.forIn(init)
		}
	case p.isPunct(";"):
	default:
		init = p.expression(true)
		if p.isKw("in") {
			if !lhsLevel(init) {
				p.fail("for-in target is not a LeftHandSideExpression")
			}
			if !referenceForm(init) {
				p.fail("invalid for-in target")
			}
			return p.forIn(init)
		}
	}
	p.expect(";")
	var test, update *Node
	if !p.isPunct(";") {
		test = p.expression(false)
	}
	p.expect(";")
	if !p.isPunct(")") {
		update = p.expression(false)
	}
	p.expect(")")
	return N("For", "", init, test, update, p.iterationBody())
}

func (p *parser) forIn(left *Node) *Node {
	p.next() // in
	obj := p.expression(false)
	p.expect(")")
	return N("ForIn", "", left, obj, p.iterationBody())
}

func (p *parser) branch() *Node {
	kind := p.tok.text
	p.next()
	lab := ""
	if p.isIdentifier() && !p.tok.nl {
		lab = p.tok.text
		found, iter := false, false
		for _, l := range p.labels {
			if l.name == lab {
				found, iter = true, l.iter
			}
		}
		if !found {
			p.fail("undefined label %s", lab)
		}
		if kind == "continue" && !iter {
			// 12.7: the label must be in the label set of an enclosing IterationStatement
			if !(p.iterDepth > 0 && p.relax(RelaxContinueAnyLabel)) {
				p.fail("continue target %s is not an iteration statement", lab)
			}
		}
		p.next()
		p.semicolon(true)
	} else {
		if kind == "continue" && p.iterDepth == 0 {
			p.fail("continue outside an iteration statement")
		}
		if kind == "break" && p.iterDepth == 0 && p.switchDepth == 0 {
			p.fail("break outside an iteration or switch statement")
		}
		p.semicolon(false)
	}
	if kind == "continue" {
		return N("Continue", lab)
	}
	return N("Break", lab)
}

func (p *parser) switchStatement() *Node {
	p.next()
	p.expect("(")
	sw := N("Switch", "", nil)
	sw.Kids[0] = p.expression(false)
	p.expect(")")
	p.expect("{")
	p.switchDepth++
	seenDefault := false
	for !p.isPunct("}") {
		if p.tok.kind == tEOF && p.opt.Relax&RelaxSwitchUnterminated != 0 {
			break
		}
		c := N("Case", "", nil)
		switch {
		case p.isKw("case"):
			p.next()
			c.Kids[0] = p.expression(false)
		case p.isKw("default"):
			if seenDefault {
				p.fail("more than one default clause")
			}
			seenDefault = true
			p.next()
		default:
			p.fail("expected case or default, found %q", p.tok.raw)
		}
		p.expect(":")
		for !p.isPunct("}") && !p.isKw("case") && !p.isKw("default") {
			if p.tok.kind == tEOF {
				if p.relax(RelaxSwitchUnterminated) {
					break
				}
				p.fail("unterminated switch")
			}
			c.Kids = append(c.Kids, p.statement())
		}
		sw.Kids = append(sw.Kids, c)
		if p.tok.kind == tEOF && p.opt.Relax&RelaxSwitchUnterminated != 0 {
			break
		}
	}
	if p.tok.kind == tEOF && p.relax(RelaxSwitchUnterminated) {
		p.switchDepth--
		return sw
	}
	p.next()
	p.switchDepth--
	return sw
}

func (p *parser) tryStatement() *Node {
	p.next()
	t := N("Try", "", p.block(), nil, nil)
	if p.isKw("catch") {
		p.next()
		p.expect("(")
		param := p.identifier()
		p.expect(")")
		t.Kids[1] = N("Catch", param, p.block())
	}
	if p.isKw("finally") {
		p.next()
		t.Kids[2] = p.block()
	}
	if t.Kids[1] == nil && t.Kids[2] == nil {
		p.fail("try without catch or finally")
	}
	return t
}

// ---------------------------------------------------------------- A.3

func (p *parser) expression(noIn bool) *Node {
	e := p.assignment(noIn)
	for p.isPunct(",") {
		p.next()
		e = N("Comma", "", e, p.assignment(noIn))
	}
	return e
}

var assignOps = map[string]bool{}

func init() {
	for _, o := range AssignOps() {
		assignOps[o] = true
	}
}

func (p *parser) assignment(noIn bool) *Node {
	e := p.conditional(noIn)
	if p.tok.kind == tPunct && (assignOps[p.tok.text] || p.tok.text == "&^=") {
		if !lhsLevel(e) {
			p.fail("assignment target is not a LeftHandSideExpression")
		}
		if !referenceForm(e) {
			p.fail("invalid assignment target")
		}
		op := p.tok.text
		p.next()
		return N("Assign", op, e, p.assignment(noIn))
	}
	return e
}

func (p *parser) conditional(noIn bool) *Node {
	c := p.binary(3, noIn)
	if !p.isPunct("?") {
		return c
	}
	p.next()
	a := p.assignment(noIn && p.quirk(QuirkCondMiddleNoIn))
	p.expect(":")
	b := p.assignment(noIn)
	return N("Cond", "", c, a, b)
}

// binaryOp returns the operator at the cursor if it belongs to the level.
func (p *parser) binaryOp(level int) string {
	var s string
	switch {
	case p.tok.kind == tPunct:
		s = p.tok.text
	case p.tok.kind == tName && !p.tok.esc && (p.tok.text == "in" || p.tok.text == "instanceof"):
		s = p.tok.text
	default:
		return ""
	}
	for _, o := range binaryLevels[level] {
		if o == s {
			return s
		}
	}
	return ""
}

func (p *parser) binary(level int, noIn bool) *Node {
	if level > 12 {
		return p.unary()
	}
	left := p.binary(level+1, noIn)
	for {
		op := p.binaryOp(level)
		if op == "" {
			return left
		}
		if op == "in" && noIn {
			if left.Kind == "Binary" && !left.Paren && binLevel(left.Op) == 9 && p.relax(RelaxRelationalNoIn) {
				// otto: the right operand of a relational operator admits `in`
			} else {
				return left
			}
		}
		p.next()
		if level == 9 && p.quirk(QuirkRelationalRightAssoc) {
			return N("Binary", op, left, p.binary(9, false))
		}
		left = N("Binary", op, left, p.binary(level+1, noIn))
	}
}

func (p *parser) unary() *Node {
	t := p.tok
	op := ""
	switch {
	case t.kind == tName && !t.esc && (t.text == "delete" || t.text == "void" || t.text == "typeof"):
		op = t.text
	case t.kind == tPunct && (t.text == "++" || t.text == "--" || t.text == "+" || t.text == "-" || t.text == "~" || t.text == "!"):
		op = t.text
	}
	if op == "" {
		return p.postfix()
	}
	p.next()
	x := p.unary()
	if (op == "++" || op == "--") && !referenceForm(x) {
		p.lx.fail(t.pos, "invalid increment/decrement operand")
	}
	return N("Unary", op, x)
}

func (p *parser) postfix() *Node {
	e := p.leftHandSide()
	if (p.isPunct("++") || p.isPunct("--")) && !p.tok.nl {
		if !referenceForm(e) {
			p.fail("invalid increment/decrement operand")
		}
		op := p.tok.text
		p.next()
		return N("Postfix", op, e)
	}
	return e
}

func (p *parser) arguments() []*Node {
	var args []*Node
	p.expect("(")
	if !p.isPunct(")") {
		for {
			args = append(args, p.assignment(false))
			if !p.isPunct(",") {
				break
			}
			p.next()
			if p.isPunct(")") && p.relax(RelaxTrailingCommaArgs) {
				break
			}
		}
	}
	p.expect(")")
	return args
}

func (p *parser) memberSuffixes(e *Node) *Node {
	for {
		switch {
		case p.isPunct("."):
			p.next()
			if p.tok.kind != tName {
				p.fail("expected property name, found %q", p.tok.raw)
			}
			name := p.tok.text
			kw := !p.tok.esc && isReserved(name) && !endsStatementKeyword[name]
			p.next()
			if kw && p.quirk(QuirkKeywordNameNoLT) {
				p.tok.nl = false
			}
			e = N("Dot", name, e)
			if p.quirk(QuirkDotNameLettersOnly) && !lettersOnly(name) {
				panic(&quirkBad{})
			}
		case p.isPunct("["):
			p.next()
			x := p.expression(false)
			p.expect("]")
			e = N("Index", "", e, x)
		default:
			return e
		}
	}
}

// newExpression parses `new` MemberExpression Arguments | `new` NewExpression.
func (p *parser) newExpression() *Node {
	p.next()
	var callee *Node
	if p.isKw("new") {
		callee = p.newExpression()
	} else {
		callee = p.primary()
	}
	callee = p.memberSuffixes(callee)
	if p.isPunct("(") {
		n := N("New", "", callee)
		n.Kids = append(n.Kids, p.arguments()...)
		return n
	}
	n := N("New", "", callee)
	n.NoArgs = true
	return n
}

func (p *parser) leftHandSide() *Node {
	var e *Node
	if p.isKw("new") {
		e = p.newExpression()
	} else {
		e = p.primary()
	}
	for {
		e = p.memberSuffixes(e)
		if !p.isPunct("(") {
			return e
		}
		c := N("Call", "", e)
		c.Kids = append(c.Kids, p.arguments()...)
		e = c
	}
}

func units(s string) []uint16 { return utf16.Encode([]rune(s)) }

func (p *parser) primary() *Node {
	t := p.tok
	switch t.kind {
	case tName:
		if !isReserved(t.text) {
			p.next()
			return &Node{Kind: "Ident", Op: t.text, Raw: t.raw}
		}
		if t.esc {
			p.fail("reserved word spelled with escapes")
		}
		switch t.text {
		case "this":
			p.next()
			return N("This", "")
		case "null":
			p.next()
			return N("Null", "")
		case "true":
			p.next()
			return N("True", "")
		case "false":
			p.next()
			return N("False", "")
		case "function":
			p.next()
			name := ""
			if !p.isPunct("(") {
				name = p.identifier()
			}
			return p.functionRest(name)
		}
		p.fail("unexpected reserved word %s", t.text)
	case tNum:
		p.next()
		return &Node{Kind: "Num", Op: CanonNum(t.num), Raw: t.raw}
	case tStr:
		p.next()
		return &Node{Kind: "Str", Op: Hex16(t.units), Raw: t.raw}
	case tPunct:
		switch t.text {
		case "/", "/=":
			return p.regexLiteral()
		case "[":
			return p.arrayLiteral()
		case "{":
			return p.objectLiteral()
		case "(":
			p.next()
			e := p.expression(false)
			p.expect(")")
			e.Paren = true
			return e
		}
	}
	p.fail("unexpected token %q", t.raw)
	return nil
}

func (p *parser) regexLiteral() *Node {
	p.lx.regex(&p.tok)
	t := p.tok
	p.next()
	if t.flags == "" && p.isIdentifier() {
		if p.quirk(QuirkRegexFlagsDetached) || !p.tok.nl && p.relax(RelaxRegexFlagsDetached) {
			t.flags = p.tok.text
			p.next()
		}
	}
	bodyOK, flagsOK := ValidRegExp(t.body, t.flags)
	if !flagsOK && !p.quirk(QuirkRegexFlagsDetached) && !p.relax(RelaxRegexFlags) {
		p.lx.fail(t.pos, "invalid regular expression flags %q", t.flags)
	}
	if !bodyOK && !p.relax(RelaxRegexBody) {
		p.lx.fail(t.pos, "invalid regular expression body")
	}
	return &Node{Kind: "Regex", Op: "/" + t.body + "/" + t.flags, Raw: t.raw}
}

func (p *parser) arrayLiteral() *Node {
	a := &Node{Kind: "Array"}
	p.next()
	for !p.isPunct("]") {
		if p.isPunct(",") {
			a.Kids = append(a.Kids, N("Hole", ""))
			p.next()
			continue
		}
		a.Kids = append(a.Kids, p.assignment(false))
		if p.isPunct("]") {
			break
		}
		p.expect(",")
	}
	p.next()
	return a
}

// propertyName parses 11.1.5 PropertyName and returns its canonical string and spelling.
func (p *parser) propertyName() (key []uint16, raw string) {
	t := p.tok
	switch t.kind {
	case tName:
		key = units(t.text)
	case tStr:
		key = t.units
	case tNum:
		if p.quirk(QuirkNumericKeyText) {
			key = units(t.raw)
		} else {
			key = units(NumberToString(t.num))
		}
	case tPunct:
		if p.relax(RelaxPunctuatorKey) {
			break
		}
		fallthrough
	default:
		p.fail("expected property name, found %q", t.raw)
	}
	p.next()
	return key, t.raw
}

func (p *parser) objectLiteral() *Node {
	o := &Node{Kind: "Object"}
	p.next()
	seen := map[string]int{} // key -> bit set: 1 data, 2 get, 4 set
	for !p.isPunct("}") {
		if p.tok.kind == tEOF {
			p.fail("unterminated object literal")
		}
		t := p.tok
		kind := "value"
		var key []uint16
		var raw string
		var val *Node
		accessor := false
		if t.kind == tName && (t.text == "get" || t.text == "set") {
			p.next()
			if !p.isPunct(":") {
				accessor = true
				kind = t.text
			} else {
				key, raw = units(t.text), t.raw
			}
		} else {
			key, raw = p.propertyName()
		}
		if accessor {
			key, raw = p.propertyName()
			f := p.functionRest("")
			want := 0
			if kind == "set" {
				want = 1
			}
			if len(f.Kids[0].Kids) != want && !p.relax(RelaxAccessorParams) {
				p.lx.fail(t.pos, "%ster must have %d parameter(s)", kind, want)
			}
			val = f
		} else {
			p.expect(":")
			val = p.assignment(false)
		}
		bit := map[string]int{"value": 1, "get": 2, "set": 4}[kind]
		k := Hex16(key)
		prev := seen[k]
		clash := false
		switch bit {
		case 1:
			clash = prev&6 != 0
		default:
			clash = prev&1 != 0 || prev&bit != 0
		}
		if clash && !p.relax(RelaxObjectClash) {
			p.lx.fail(t.pos, "object literal property clash (11.1.5)")
		}
		seen[k] = prev | bit
		pr := N("Prop", kind+" "+k, val)
		pr.Raw = raw
		o.Kids = append(o.Kids, pr)
		if p.isPunct("}") {
			break
		}
		if p.isPunct(",") {
			p.next()
			continue
		}
		if !p.relax(RelaxObjectMissingComma) {
			p.fail("expected ',' or '}' in object literal, found %q", p.tok.raw)
		}
	}
	p.next()
	return o
}

// endsStatementKeyword: reserved words after which otto's lexer does arm
// automatic semicolon insertion (all others leave the flag of the `.` token).
var endsStatementKeyword = map[string]bool{"this": true, "break": true, "throw": true, "return": true, "continue": true,
	"debugger": true, "true": true, "false": true, "null": true}

type quirkBad struct{}

// lettersOnly mirrors the pattern ^[$_\p{L}][$_\p{L}\d}]*$.
func lettersOnly(s string) bool {
	for i, r := range s {
		ok := r == '$' || r == '_' || unicode.IsLetter(r) || i > 0 && (r >= '0' && r <= '9' || r == '}')
		if !ok {
			return false
		}
	}
	return s != ""
}

// NumberToString is 9.8.1 ToString applied to a Number (shortest round-trip digits).
func NumberToString(m float64) string {
	switch {
	case math.IsNaN(m):
		return "NaN"
	case m == 0:
		return "0"
	case m < 0:
		return "-" + NumberToString(-m)
	case math.IsInf(m, 1):
		return "Infinity"
	}
	e := strconv.FormatFloat(m, 'e', -1, 64) // d.ddde±xx
	mant, exps, _ := strings.Cut(e, "e")
	digits := strings.Replace(mant, ".", "", 1)
	x, _ := strconv.Atoi(exps)
	k, n := len(digits), x+1
	switch {
	case k <= n && n <= 21:
		return digits + strings.Repeat("0", n-k)
	case 0 < n && n <= 21:
		return digits[:n] + "." + digits[n:]
	case -6 < n && n <= 0:
		return "0." + strings.Repeat("0", -n) + digits
	}
	sign := "+"
	if n-1 < 0 {
		sign = "-"
	}
	es := sign + strconv.Itoa(abs(n-1))
	if k == 1 {
		return digits + "e" + es
	}
	return digits[:1] + "." + digits[1:] + "e" + es
}
