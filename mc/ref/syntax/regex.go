package syntax

import "strings"

// ValidRegExp checks a regular expression literal against 15.10.1 (pattern
// grammar) and 15.10.4.1 (flags). It is deliberately lenient where every
// engine is (`]`, `{`, `}` as pattern characters, incomplete \x \u \c escapes,
// decimal escapes beyond the group count): it reports only structural errors
// that no reading of 15.10.1 admits, so "invalid" here implies invalid in ES5.
func ValidRegExp(body, flags string) (bodyOK, flagsOK bool) {
	flagsOK = true
	seen := map[rune]bool{}
	for _, f := range flags {
		if !strings.ContainsRune("gim", f) || seen[f] {
			flagsOK = false
		}
		seen[f] = true
	}
	v := &reValidator{s: []rune(body)}
	bodyOK = v.disjunction() && v.i == len(v.s)
	return
}

type reValidator struct {
	s []rune
	i int
}

func (v *reValidator) peek() rune {
	if v.i < len(v.s) {
		return v.s[v.i]
	}
	return -1
}

func (v *reValidator) disjunction() bool {
	for {
		if !v.alternative() {
			return false
		}
		if v.peek() != '|' {
			return true
		}
		v.i++
	}
}

func (v *reValidator) alternative() bool {
	for {
		c := v.peek()
		if c == -1 || c == '|' || c == ')' {
			return true
		}
		if !v.term() {
			return false
		}
	}
}

// quantifierAt reports a syntactically complete quantifier at the cursor: its
// length, and whether its bounds are in order.
func (v *reValidator) quantifierAt() (n int, ok bool) {
	switch v.peek() {
	case '*', '+', '?':
		n = 1
	case '{':
		j := v.i + 1
		d1 := j
		for j < len(v.s) && v.s[j] >= '0' && v.s[j] <= '9' {
			j++
		}
		if j == d1 {
			return 0, true
		}
		lo := string(v.s[d1:j])
		hi := lo
		if j < len(v.s) && v.s[j] == ',' {
			j++
			d2 := j
			for j < len(v.s) && v.s[j] >= '0' && v.s[j] <= '9' {
				j++
			}
			hi = string(v.s[d2:j])
		}
		if j >= len(v.s) || v.s[j] != '}' {
			return 0, true
		}
		n = j + 1 - v.i
		if hi != "" {
			lo, hi = strings.TrimLeft(lo, "0"), strings.TrimLeft(hi, "0")
			if len(lo) > len(hi) || len(lo) == len(hi) && lo > hi {
				return n, false
			}
		}
	default:
		return 0, true
	}
	if v.i+n < len(v.s) && v.s[v.i+n] == '?' {
		n++
	}
	return n, true
}

func (v *reValidator) term() bool {
	c := v.peek()
	quantifiable := true
	switch c {
	case '^', '$':
		v.i++
		quantifiable = false
	case '\\':
		v.i++
		if v.peek() == -1 {
			return false
		}
		if e := v.peek(); e == 'b' || e == 'B' {
			quantifiable = false
		}
		v.i++
	case '(':
		v.i++
		if v.peek() == '?' {
			v.i++
			switch v.peek() {
			case ':', '=', '!':
				// (?= ) and (?! ) are Assertions, which ES5 does not let a
				// quantifier follow; every engine accepts one, so this
				// deliberately lenient validator does too.
			default:
				return false
			}
			v.i++
		}
		if !v.disjunction() || v.peek() != ')' {
			return false
		}
		v.i++
	case '[':
		if !v.class() {
			return false
		}
	case '*', '+', '?':
		return false // nothing to repeat
	case '{':
		if n, _ := v.quantifierAt(); n > 0 {
			return false // a complete quantifier with nothing to repeat
		}
		v.i++
	default:
		v.i++
	}
	n, ok := v.quantifierAt()
	if n > 0 {
		if !quantifiable || !ok {
			return false
		}
		v.i += n
	}
	return true
}

// class validates [ ClassRanges ]: it must be closed and ranges must be in
// order with single characters at both ends (15.10.2.15).
func (v *reValidator) class() bool {
	v.i++
	if v.peek() == '^' {
		v.i++
	}
	atom := func() (rune, bool, bool) { // value, isSingleChar, ok
		c := v.peek()
		if c == -1 {
			return 0, false, false
		}
		v.i++
		if c != '\\' {
			return c, true, true
		}
		e := v.peek()
		if e == -1 {
			return 0, false, false
		}
		v.i++
		switch e {
		case 'd', 'D', 's', 'S', 'w', 'W':
			return 0, false, true
		case 'b':
			return 8, true, true
		case 't':
			return 9, true, true
		case 'n':
			return 10, true, true
		case 'v':
			return 11, true, true
		case 'f':
			return 12, true, true
		case 'r':
			return 13, true, true
		case 'x', 'u', 'c', '0', '1', '2', '3', '4', '5', '6', '7', '8', '9':
			return 0, false, true // value not modelled: ranges with these ends are not judged
		}
		return e, true, true
	}
	for {
		if v.peek() == ']' {
			v.i++
			return true
		}
		a, aSingle, ok := atom()
		if !ok {
			return false
		}
		if v.peek() == '-' && v.i+1 < len(v.s) && v.s[v.i+1] != ']' {
			v.i++
			b, bSingle, ok := atom()
			if !ok {
				return false
			}
			if aSingle && bSingle && a > b {
				return false
			}
		}
	}
}
