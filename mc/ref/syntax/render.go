package syntax

import (
	"errors"
	"strings"
)

// Token is one source token produced by the renderer.
type Token struct {
	Text string
	// NoLT: a line terminator in the gap before this token would change the
	// tree (restricted productions of 7.9.1: operand of return/throw, label of
	// break/continue, postfix ++/--).
	NoLT bool
}

// RenderOpts selects the rendering of a tree.
type RenderOpts struct {
	// Full parenthesises every compound subexpression.
	Full bool
	// Extra adds that many redundant pairs of parentheses around a node.
	Extra map[*Node]int
}

// ErrUnrenderable is returned for trees that have no source text without
// changing the tree (an if-else whose consequent ends in an open if).
var ErrUnrenderable = errors.New("tree has no rendering (dangling else)")

// Precedence ladder of Annex A.3, lowest first. The level of a production is
// its index; operands are rendered with the minimum level the grammar allows
// in that position and get parentheses exactly when their own level is lower.
var binaryLevels = [][]string{
	3:  {"||"},
	4:  {"&&"},
	5:  {"|"},
	6:  {"^"},
	7:  {"&"},
	8:  {"==", "!=", "===", "!=="},
	9:  {"<", ">", "<=", ">=", "instanceof", "in"},
	10: {"<<", ">>", ">>>"},
	11: {"+", "-"},
	12: {"*", "/", "%"},
}

const (
	lvComma   = 0
	lvAssign  = 1
	lvCond    = 2
	lvUnary   = 13
	lvPostfix = 14
	lvNew     = 15 // NewExpression: new NewExpression
	lvCall    = 16 // CallExpression
	lvMember  = 17 // MemberExpression
	lvPrimary = 18
)

// BinaryOps lists the 23 binary operators of ES5 (without comma) lowest level first.
func BinaryOps() []string {
	var out []string
	for _, l := range binaryLevels {
		out = append(out, l...)
	}
	return out
}

// AssignOps lists the 12 assignment operators.
func AssignOps() []string {
	return []string{"=", "*=", "/=", "%=", "+=", "-=", "<<=", ">>=", ">>>=", "&=", "^=", "|="}
}

// PrefixOps lists the 9 prefix operators.
func PrefixOps() []string {
	return []string{"delete", "void", "typeof", "++", "--", "+", "-", "~", "!"}
}

func binLevel(op string) int {
	for lv, l := range binaryLevels {
		for _, o := range l {
			if o == op {
				return lv
			}
		}
	}
	panic("unknown binary operator " + op)
}

// Level is the grammar level of the production that derives the node.
func Level(n *Node) int {
	switch n.Kind {
	case "Comma":
		return lvComma
	case "Assign":
		return lvAssign
	case "Cond":
		return lvCond
	case "Binary":
		return binLevel(n.Op)
	case "Unary":
		return lvUnary
	case "Postfix":
		return lvPostfix
	case "New":
		if n.NoArgs && len(n.Kids) == 1 {
			return lvNew
		}
		return lvMember
	case "Call":
		return lvCall
	case "Dot", "Index":
		if Level(n.Kids[0]) == lvCall {
			return lvCall
		}
		return lvMember
	case "Function":
		return lvMember
	}
	return lvPrimary
}

func compound(n *Node) bool {
	switch n.Kind {
	case "Ident", "Num", "Str", "Regex", "Null", "True", "False", "This", "Array", "Object", "Function":
		return false
	}
	return true
}

type renderer struct {
	o    RenderOpts
	toks []Token
	err  error
	nolt bool // next emitted token gets NoLT
}

func (r *renderer) emit(s string) {
	r.toks = append(r.toks, Token{Text: s, NoLT: r.nolt})
	r.nolt = false
}

// Tokens renders a tree (Program, statement or expression) to tokens.
func Tokens(n *Node, o RenderOpts) ([]Token, error) {
	r := &renderer{o: o}
	switch {
	case n.Kind == "Program":
		for _, s := range n.Kids {
			r.stmt(s)
		}
	case n.IsExpr():
		r.expr(n, lvComma, false, false)
	default:
		r.stmt(n)
	}
	return r.toks, r.err
}

func (r *renderer) expr(n *Node, min int, noIn, force bool) {
	parens := r.o.Extra[n]
	need := force || Level(n) < min || (noIn && n.Kind == "Binary" && n.Op == "in") || (r.o.Full && compound(n))
	if need {
		parens++
	}
	if parens > 0 {
		noIn = false
	}
	for i := 0; i < parens; i++ {
		r.emit("(")
	}
	r.body(n, noIn)
	for i := 0; i < parens; i++ {
		r.emit(")")
	}
}

func (r *renderer) list(l []*Node) {
	for i, a := range l {
		if i > 0 {
			r.emit(",")
		}
		r.expr(a, lvAssign, false, false)
	}
}

func (r *renderer) function(n *Node, prefix string) {
	// n is a Function node: [Params, Body]
	r.emit("(")
	for i, p := range n.Kids[0].Kids {
		if i > 0 {
			r.emit(",")
		}
		r.emit(p.Op)
	}
	r.emit(")")
	r.emit("{")
	for _, s := range n.Kids[1].Kids {
		r.stmt(s)
	}
	r.emit("}")
}

func (r *renderer) body(n *Node, noIn bool) {
	switch n.Kind {
	case "Ident":
		if n.Raw != "" {
			r.emit(n.Raw)
		} else {
			r.emit(n.Op)
		}
	case "Num", "Str", "Regex":
		r.emit(n.Raw)
	case "Null":
		r.emit("null")
	case "True":
		r.emit("true")
	case "False":
		r.emit("false")
	case "This":
		r.emit("this")
	case "Array":
		r.emit("[")
		for i, e := range n.Kids {
			if i > 0 {
				r.emit(",")
			}
			if e.Kind != "Hole" {
				r.expr(e, lvAssign, false, false)
			}
		}
		if len(n.Kids) > 0 && n.Kids[len(n.Kids)-1].Kind == "Hole" {
			r.emit(",")
		}
		r.emit("]")
	case "Object":
		r.emit("{")
		for i, p := range n.Kids {
			if i > 0 {
				r.emit(",")
			}
			kind := p.Op[:strings.IndexByte(p.Op, ' ')]
			switch kind {
			case "value":
				r.emit(p.Raw)
				r.emit(":")
				r.expr(p.Kids[0], lvAssign, false, false)
			default:
				r.emit(kind)
				r.emit(p.Raw)
				r.function(p.Kids[0], "")
			}
		}
		r.emit("}")
	case "Function":
		r.emit("function")
		if n.Op != "" {
			r.emit(n.Op)
		}
		r.function(n, "")
	case "Dot":
		r.expr(n.Kids[0], lvCall, noIn, false)
		r.emit(".")
		r.emit(n.Op)
	case "Index":
		r.expr(n.Kids[0], lvCall, noIn, false)
		r.emit("[")
		r.expr(n.Kids[1], lvComma, false, false)
		r.emit("]")
	case "Call":
		r.expr(n.Kids[0], lvCall, noIn, false)
		r.emit("(")
		r.list(n.Kids[1:])
		r.emit(")")
	case "New":
		r.emit("new")
		if n.NoArgs && len(n.Kids) == 1 {
			// new NewExpression: the operand may be a MemberExpression or
			// another argument-less new, but not a CallExpression.
			r.expr(n.Kids[0], lvNew, false, Level(n.Kids[0]) == lvCall)
		} else {
			r.expr(n.Kids[0], lvMember, false, false)
			r.emit("(")
			r.list(n.Kids[1:])
			r.emit(")")
		}
	case "Unary":
		r.emit(n.Op)
		r.expr(n.Kids[0], lvUnary, noIn, false)
	case "Postfix":
		r.expr(n.Kids[0], lvNew, noIn, false)
		r.nolt = true
		r.emit(n.Op)
	case "Binary":
		lv := binLevel(n.Op)
		r.expr(n.Kids[0], lv, noIn, false)
		r.emit(n.Op)
		r.expr(n.Kids[1], lv+1, noIn, false)
	case "Cond":
		r.expr(n.Kids[0], lvCond+1, noIn, false)
		r.emit("?")
		r.expr(n.Kids[1], lvAssign, false, false)
		r.emit(":")
		r.expr(n.Kids[2], lvAssign, noIn, false)
	case "Assign":
		r.expr(n.Kids[0], lvNew, noIn, false)
		r.emit(n.Op)
		r.expr(n.Kids[1], lvAssign, noIn, false)
	case "Comma":
		r.expr(n.Kids[0], lvComma, noIn, false)
		r.emit(",")
		r.expr(n.Kids[1], lvAssign, noIn, false)
	default:
		panic("render: not an expression: " + n.Kind)
	}
}

// leftmost returns the node whose first token is the first token of the expression.
func leftmost(n *Node) *Node {
	for {
		switch n.Kind {
		case "Binary", "Comma", "Assign", "Cond", "Dot", "Index", "Call", "Postfix":
			n = n.Kids[0]
		default:
			return n
		}
	}
}

// exprStatement renders an expression in ExpressionStatement position: the
// first token must be neither `{` nor `function` (12.4 look-ahead restriction).
func (r *renderer) exprStatement(e *Node) {
	start := len(r.toks)
	r.expr(e, lvComma, false, false)
	if first := r.toks[start].Text; first == "{" || first == "function" {
		r.toks = r.toks[:start]
		lm := leftmost(e)
		if r.o.Extra == nil {
			r.o.Extra = map[*Node]int{}
		}
		r.o.Extra[lm]++
		r.expr(e, lvComma, false, false)
		r.o.Extra[lm]--
	}
}

// EndsOpenIf reports whether the statement's text ends with an if that has no else.
func EndsOpenIf(s *Node) bool {
	switch s.Kind {
	case "If":
		if s.Kids[2] == nil {
			return true
		}
		return EndsOpenIf(s.Kids[2])
	case "While", "With":
		return EndsOpenIf(s.Kids[1])
	case "For":
		return EndsOpenIf(s.Kids[3])
	case "ForIn":
		return EndsOpenIf(s.Kids[2])
	case "Label":
		return EndsOpenIf(s.Kids[0])
	}
	return false
}

// OpenEnded reports whether the statement's text ends with a semicolon that
// automatic semicolon insertion may supply.
func OpenEnded(s *Node) bool {
	switch s.Kind {
	case "Var", "Expr", "Do", "Continue", "Break", "Return", "Throw", "Debugger":
		return true
	case "If":
		if s.Kids[2] != nil {
			return OpenEnded(s.Kids[2])
		}
		return OpenEnded(s.Kids[1])
	case "While", "With":
		return OpenEnded(s.Kids[1])
	case "For":
		return OpenEnded(s.Kids[3])
	case "ForIn":
		return OpenEnded(s.Kids[2])
	case "Label":
		return OpenEnded(s.Kids[0])
	}
	return false
}

func (r *renderer) decls(l []*Node, noIn bool) {
	r.emit("var")
	for i, d := range l {
		if i > 0 {
			r.emit(",")
		}
		r.emit(d.Op)
		if d.Kids[0] != nil {
			r.emit("=")
			r.expr(d.Kids[0], lvAssign, noIn, false)
		}
	}
}

func (r *renderer) block(b *Node) {
	r.emit("{")
	for _, s := range b.Kids {
		r.stmt(s)
	}
	r.emit("}")
}

func (r *renderer) stmt(s *Node) {
	switch s.Kind {
	case "Block":
		r.block(s)
	case "Var":
		r.decls(s.Kids, false)
		r.emit(";")
	case "Empty":
		r.emit(";")
	case "Expr":
		r.exprStatement(s.Kids[0])
		r.emit(";")
	case "If":
		r.emit("if")
		r.emit("(")
		r.expr(s.Kids[0], lvComma, false, false)
		r.emit(")")
		if s.Kids[2] != nil && EndsOpenIf(s.Kids[1]) {
			r.err = ErrUnrenderable
		}
		r.stmt(s.Kids[1])
		if s.Kids[2] != nil {
			r.emit("else")
			r.stmt(s.Kids[2])
		}
	case "Do":
		r.emit("do")
		r.stmt(s.Kids[0])
		r.emit("while")
		r.emit("(")
		r.expr(s.Kids[1], lvComma, false, false)
		r.emit(")")
		r.emit(";")
	case "While":
		r.emit("while")
		r.emit("(")
		r.expr(s.Kids[0], lvComma, false, false)
		r.emit(")")
		r.stmt(s.Kids[1])
	case "For":
		r.emit("for")
		r.emit("(")
		if in := s.Kids[0]; in != nil {
			if in.Kind == "Var" {
				r.decls(in.Kids, true)
			} else {
				r.expr(in, lvComma, true, false)
			}
		}
		r.emit(";")
		if s.Kids[1] != nil {
			r.expr(s.Kids[1], lvComma, false, false)
		}
		r.emit(";")
		if s.Kids[2] != nil {
			r.expr(s.Kids[2], lvComma, false, false)
		}
		r.emit(")")
		r.stmt(s.Kids[3])
	case "ForIn":
		r.emit("for")
		r.emit("(")
		if l := s.Kids[0]; l.Kind == "Var" {
			r.decls(l.Kids, true)
		} else {
			r.expr(l, lvNew, true, false)
		}
		r.emit("in")
		r.expr(s.Kids[1], lvComma, false, false)
		r.emit(")")
		r.stmt(s.Kids[2])
	case "Continue", "Break":
		r.emit(strings.ToLower(s.Kind))
		if s.Op != "" {
			r.nolt = true
			r.emit(s.Op)
		}
		r.emit(";")
	case "Return":
		r.emit("return")
		if s.Kids[0] != nil {
			r.nolt = true
			r.expr(s.Kids[0], lvComma, false, false)
		}
		r.emit(";")
	case "With":
		r.emit("with")
		r.emit("(")
		r.expr(s.Kids[0], lvComma, false, false)
		r.emit(")")
		r.stmt(s.Kids[1])
	case "Switch":
		r.emit("switch")
		r.emit("(")
		r.expr(s.Kids[0], lvComma, false, false)
		r.emit(")")
		r.emit("{")
		for _, c := range s.Kids[1:] {
			if c.Kids[0] == nil {
				r.emit("default")
			} else {
				r.emit("case")
				r.expr(c.Kids[0], lvComma, false, false)
			}
			r.emit(":")
			for _, t := range c.Kids[1:] {
				r.stmt(t)
			}
		}
		r.emit("}")
	case "Label":
		r.emit(s.Op)
		r.emit(":")
		r.stmt(s.Kids[0])
	case "Throw":
		r.emit("throw")
		r.nolt = true
		r.expr(s.Kids[0], lvComma, false, false)
		r.emit(";")
	case "Try":
		r.emit("try")
		r.block(s.Kids[0])
		if c := s.Kids[1]; c != nil {
			r.emit("catch")
			r.emit("(")
			r.emit(c.Op)
			r.emit(")")
			r.block(c.Kids[0])
		}
		if f := s.Kids[2]; f != nil {
			r.emit("finally")
			r.block(f)
		}
	case "Debugger":
		r.emit("debugger")
		r.emit(";")
	case "FuncDecl":
		f := s.Kids[0]
		r.emit("function")
		r.emit(f.Op)
		r.function(f, "")
	case "Program":
		for _, k := range s.Kids {
			r.stmt(k)
		}
	default:
		panic("render: not a statement: " + s.Kind)
	}
}

func wordish(c byte) bool {
	return c >= 0x80 || c == '$' || c == '_' || c == '\\' || c >= '0' && c <= '9' || c >= 'a' && c <= 'z' || c >= 'A' && c <= 'Z'
}

func opchar(c byte) bool { return strings.IndexByte("+-*/%<>=!&|^", c) >= 0 }

func numeric(s string) bool {
	return s[0] >= '0' && s[0] <= '9' || len(s) > 1 && s[0] == '.' && s[1] >= '0' && s[1] <= '9'
}

// NeedSpace reports whether two adjacent tokens must be separated to stay two tokens.
func NeedSpace(a, b string) bool {
	if a == "" || b == "" {
		return false
	}
	la, fb := a[len(a)-1], b[0]
	switch {
	case wordish(la) && wordish(fb):
		return true
	case numeric(a) && (fb == '.' || wordish(fb)):
		return true
	case opchar(la) && opchar(fb):
		return true
	case len(a) > 1 && a[0] == '/' && a != "/=" && wordish(fb): // regexp literal followed by a word: would extend the flags
		return true
	}
	return false
}

// Join renders tokens with a single space at every gap, or (compact) with no
// white space wherever the two neighbours stay separate tokens without it.
func Join(toks []Token, compact bool) string {
	return JoinFill(toks, compact, nil)
}

// JoinFill is Join with the given filler text at the given gaps; gap i is the
// position before token i, gap len(toks) the end of the text. A filler is
// itself a token separator (white space or comment).
func JoinFill(toks []Token, compact bool, fill map[int]string) string {
	var sb strings.Builder
	for i, t := range toks {
		if f, ok := fill[i]; ok {
			if i > 0 && strings.HasPrefix(f, "/") && strings.HasSuffix(toks[i-1].Text, "/") {
				sb.WriteByte(' ') // `/` followed by a comment would read as `//`
			}
			sb.WriteString(f)
		} else if i > 0 && (!compact || NeedSpace(toks[i-1].Text, t.Text)) {
			sb.WriteByte(' ')
		}
		sb.WriteString(t.Text)
	}
	if f, ok := fill[len(toks)]; ok {
		sb.WriteString(f)
	}
	return sb.String()
}

// HasLT reports whether the filler contains a line terminator (or is a
// comment that contains one) and so must stay out of NoLT gaps.
func HasLT(f string) bool {
	return strings.ContainsAny(f, "\n\r\u2028\u2029")
}
