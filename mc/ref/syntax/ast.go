// Package syntax is the reference model of ES5.1 syntax used by checks C03 and
// C04: (a) a generator-side syntactic AST with a renderer to source text
// (minimal parentheses computed from the grammar's precedence ladder, fully
// parenthesised, extra parentheses, fillers at token gaps) and (b) an
// independently written recogniser/tree builder for ES5.1 programs: a lexer for
// clause 7 (with Annex B.1 legacy octal forms) and a recursive-descent parser
// that follows Annex A.3-A.5 production by production (NoIn variants,
// restricted productions, automatic semicolon insertion by the offending-token
// rule of 7.9.1, regexp-versus-division by grammatical context, early errors).
//
// The DESIGN proposed an Earley recogniser; this package is the permitted
// alternative, a recursive-descent recogniser. It shares no code with otto.
package syntax

import (
	"fmt"
	"math"
	"strconv"
	"strings"
)

// Node is one node of the generator-side AST. The tree is deliberately generic
// (kind + operator/name + children) so that dumping, comparing, wrapping and
// rendering are single recursive functions.
//
// Kinds and layout of Kids (nil entry = absent optional child):
//
//	Program  stmts...
//	Ident(Op=name) Num(Op=canonical value) Str(Op=UTF-16 units in hex) Regex(Op=/body/flags)
//	Null True False This Hole
//	Array    elements (Hole for elisions)
//	Object   Prop(Op="value|get|set <key units hex>")[value expr or Function]
//	Function(Op=name) [Params[Ident...], Body[stmts...]]
//	Dot(Op=name)[obj]  Index[obj, expr]  Call[callee, args...]  New[callee, args...]
//	Unary(Op)[x] Postfix(Op)[x] Binary(Op)[l,r] Cond[t,c,a] Assign(Op)[l,r] Comma[l,r]
//	Block[stmts...] Var[Decl(Op=name)[init|nil]...] Empty Expr[e] If[test,cons,alt|nil]
//	Do[body,test] While[test,body] For[init|nil,test|nil,update|nil,body] ForIn[left,obj,body]
//	Continue(Op=label) Break(Op=label) Return[e|nil] With[obj,body]
//	Switch[disc, Case[test|nil, stmts...]...] Label(Op=name)[stmt] Throw[e]
//	Try[Block, Catch(Op=param)[Block]|nil, Block|nil] Debugger FuncDecl[Function]
type Node struct {
	Kind string
	Op   string
	Kids []*Node
	// NoArgs marks a New node written without an argument list (`new a`).
	// It steers the renderer only and is not part of the compared tree.
	NoArgs bool
	// Paren is set by the reference parser on nodes that were written inside
	// parentheses; it is not part of the compared tree.
	Paren bool
	// Raw is the source spelling of a literal leaf (Num, Str, Regex, Ident with
	// escapes) used by the renderer; not part of the compared tree.
	Raw string
}

// N builds a node.
func N(kind, op string, kids ...*Node) *Node { return &Node{Kind: kind, Op: op, Kids: kids} }

// Id builds an identifier reference.
func Id(name string) *Node { return &Node{Kind: "Ident", Op: name} }

// NumLit builds a numeric literal leaf with source spelling raw and value v.
func NumLit(raw string, v float64) *Node { return &Node{Kind: "Num", Op: CanonNum(v), Raw: raw} }

// StrLit builds a string literal leaf with source spelling raw (including quotes).
func StrLit(raw string, units []uint16) *Node {
	return &Node{Kind: "Str", Op: Hex16(units), Raw: raw}
}

// RegexLit builds a regular expression literal leaf.
func RegexLit(body, flags string) *Node {
	return &Node{Kind: "Regex", Op: "/" + body + "/" + flags, Raw: "/" + body + "/" + flags}
}

// CanonNum renders a float64 canonically (all NaNs equal, signed zero distinct).
func CanonNum(f float64) string {
	switch {
	case math.IsNaN(f):
		return "NaN"
	case f == 0 && math.Signbit(f):
		return "-0"
	case f == 0:
		return "0"
	case math.IsInf(f, 1):
		return "Infinity"
	case math.IsInf(f, -1):
		return "-Infinity"
	}
	return strconv.FormatFloat(f, 'g', 17, 64)
}

// Hex16 renders UTF-16 code units as space-free 4-digit hex groups.
func Hex16(u []uint16) string {
	var sb strings.Builder
	for _, c := range u {
		fmt.Fprintf(&sb, "%04X", c)
	}
	return sb.String()
}

// Dump renders the tree as an S-expression; two trees are equal iff their dumps are.
func (n *Node) Dump() string {
	var sb strings.Builder
	n.dump(&sb)
	return sb.String()
}

func (n *Node) dump(sb *strings.Builder) {
	if n == nil {
		sb.WriteByte('_')
		return
	}
	if len(n.Kids) == 0 {
		sb.WriteString(n.Kind)
		if n.Op != "" {
			sb.WriteByte(':')
			sb.WriteString(n.Op)
		}
		return
	}
	sb.WriteByte('(')
	sb.WriteString(n.Kind)
	if n.Op != "" {
		sb.WriteByte(':')
		sb.WriteString(n.Op)
	}
	for _, k := range n.Kids {
		sb.WriteByte(' ')
		k.dump(sb)
	}
	sb.WriteByte(')')
}

// Diff returns the path to the first differing node of two trees ("" if equal).
func Diff(a, b *Node) string { return diff(a, b, "") }

func diff(a, b *Node, path string) string {
	if a == nil || b == nil {
		if a == b {
			return ""
		}
		return path + ": " + short(a) + " vs " + short(b)
	}
	if a.Kind != b.Kind || a.Op != b.Op || len(a.Kids) != len(b.Kids) {
		return path + ": " + short(a) + " vs " + short(b)
	}
	for i := range a.Kids {
		if d := diff(a.Kids[i], b.Kids[i], fmt.Sprintf("%s/%s[%d]", path, a.Kind, i)); d != "" {
			return d
		}
	}
	return ""
}

func short(n *Node) string {
	if n == nil {
		return "_"
	}
	return fmt.Sprintf("%s:%s#%d", n.Kind, n.Op, len(n.Kids))
}

// Clone copies a tree.
func (n *Node) Clone() *Node {
	if n == nil {
		return nil
	}
	c := *n
	c.Kids = make([]*Node, len(n.Kids))
	for i, k := range n.Kids {
		c.Kids[i] = k.Clone()
	}
	return &c
}

// IsExpr reports whether the node kind is an expression kind.
func (n *Node) IsExpr() bool {
	if n == nil {
		return false
	}
	switch n.Kind {
	case "Ident", "Num", "Str", "Regex", "Null", "True", "False", "This", "Array", "Object", "Function",
		"Dot", "Index", "Call", "New", "Unary", "Postfix", "Binary", "Cond", "Assign", "Comma":
		return true
	}
	return false
}

// Exprs lists the expression nodes of a tree in pre-order (the candidates for
// an extra pair of parentheses).
func (n *Node) Exprs() []*Node {
	var out []*Node
	var walk func(*Node)
	walk = func(x *Node) {
		if x == nil {
			return
		}
		if x.IsExpr() {
			out = append(out, x)
		}
		for _, k := range x.Kids {
			walk(k)
		}
	}
	walk(n)
	return out
}

// Count returns the number of nodes in the tree.
func (n *Node) Count() int {
	if n == nil {
		return 0
	}
	c := 1
	for _, k := range n.Kids {
		c += k.Count()
	}
	return c
}
